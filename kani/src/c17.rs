//! C17: radix strings: exact parse, overflow always reported, canonical output.
//!
//! Oracle (rustdoc of `Uint::from_str_radix_vartime`, `BoxedUint::from_str_radix_vartime`,
//! `BoxedUint::from_str_radix_with_precision_vartime`, `to_string_radix_vartime`; tests `from_str_radix_disallowed`):
//! a *numeral* in radix r is `['+'] d (d | '_')* d | ['+'] d` with d an alphanumeric character whose digit value
//! (0-9, a-z = A-Z = 10..35) is below r, i.e. underscores only between the first and the last digit. Its value is the
//! positional value of the digits. `""` and `"+"` are `Empty`; everything else that is not a numeral is `InvalidDigit`.
//! A numeral that does not fit: `InputSize` (Uint), `InputSize`/`Precision` (BoxedUint with precision).
//! The rustdoc says "underscore characters to separate digits" and does not say whether a *run* of underscores is a
//! separator: for such strings (`doubled`) the harnesses accept `InvalidDigit` or the value, nothing else.
//!
//! Cost: `radix_decode_str_*` is an outer `while` / inner `loop` / `for` nest over a 64-byte digit buffer; CBMC lays the
//! post-`break` code inside the inner loop, so with a symbolic string length symbolic execution costs
//! (unwind bound)^3 slice-iterator steps: the fully symbolic harnesses (every 7-bit byte in every position, symbolic
//! length) are limited to 2 characters (quick) / 3-4 characters (thorough) and to the radices 2, 4, 16 - the generic
//! decoder evaluates `Word::MAX.ilog(radix)` in a run-time loop of 12..40 iterations, which forces an unwind bound
//! that the cubic nest does not survive. Longer strings (crossing 2^64 and 2^128, several digit batches, leading
//! zeros, separators, either case, every error kind) and the generic radices 3, 7, 10, 35, 36 are covered by
//! *literal* strings, for which CBMC's constant propagation decides every loop (these are unit tests run through
//! the model checker; their oracle is the same `classify`, cross-checked against literal values).
//! Formatting goes through `String::from_utf8` (pointer-alignment dependent loops): only radix 16 / 32 with values
//! < 2^16 terminate (thorough tier); the round trip follows by composition on the common domain (parse harnesses:
//! numeral -> value; format harnesses: value -> canonical numeral), it is not checked in one harness.
use crate::*;
use crate::util::*;
use alloc::string::String;
use crypto_bigint::*;

/// see c16.rs: makes a `#[kani::should_panic]` harness fail unless the call panics for every admitted input
fn returned_instead_of_panicking() {
    #[cfg(kani)]
    unsafe {
        let p: *const u8 = core::ptr::null();
        let v = core::ptr::read_volatile(p);
        core::hint::black_box(v);
    }
    #[cfg(not(kani))]
    crate::src::missed_panic();
}

/// value of an alphanumeric character as a digit (0..=35), 255 for every other byte
fn digit_val(c: u8) -> u8 {
    if c >= b'0' && c <= b'9' { c - b'0' }
    else if c >= b'a' && c <= b'z' { c - b'a' + 10 }
    else if c >= b'A' && c <= b'Z' { c - b'A' + 10 }
    else { 255 }
}

const EMPTY: u8 = 0;
const INVALID: u8 = 1;
const NUMERAL: u8 = 2;

struct Parsed {
    kind: u8,
    /// value mod 2^128
    val: u128,
    /// the value is >= 2^128
    big: bool,
    /// two adjacent underscores occur
    doubled: bool,
}
impl Parsed {
    /// value < 2^bits
    fn fits(&self, bits: u32) -> bool { !self.big && (bits >= 128 || (self.val >> bits) == 0) }
}

/// What the byte string denotes in the given radix (see the module comment). `radix` is a constant at every call site,
/// so `v * radix` is a multiplication by a constant (a shift for 2, 4, 16).
fn classify(b: &[u8], radix: u32) -> Parsed {
    let n = b.len();
    let mut i = 0;
    if n > 0 && b[0] == b'+' { i = 1; }
    if i == n { return Parsed { kind: EMPTY, val: 0, big: false, doubled: false }; }
    if b[i] == b'_' || b[n - 1] == b'_' { return Parsed { kind: INVALID, val: 0, big: false, doubled: false }; }
    let mut val: u128 = 0;
    let mut big = false;
    let mut ok = true;
    let mut doubled = false;
    let mut prev_us = false;
    while i < n {
        let c = b[i];
        if c == b'_' {
            if prev_us { doubled = true; }
            prev_us = true;
        } else {
            prev_us = false;
            let d = digit_val(c);
            if (d as u32) < radix {
                let (m, o1) = match radix {
                    2 => (val << 1, (val >> 127) != 0),
                    4 => (val << 2, (val >> 126) != 0),
                    16 => (val << 4, (val >> 124) != 0),
                    r => val.overflowing_mul(r as u128),
                };
                let (a, o2) = m.overflowing_add(d as u128);
                big |= o1 | o2;
                val = a;
            } else {
                ok = false;
            }
        }
        i += 1;
    }
    Parsed { kind: if ok { NUMERAL } else { INVALID }, val, big, doubled }
}

fn all_ascii(b: &[u8]) -> bool {
    let mut ok = true;
    let mut i = 0;
    while i < b.len() { ok &= b[i] < 0x80; i += 1; }
    ok
}

fn is_empty_err<T>(r: &Result<T, DecodeError>) -> bool { matches!(r, Err(DecodeError::Empty)) }
fn is_invalid<T>(r: &Result<T, DecodeError>) -> bool { matches!(r, Err(DecodeError::InvalidDigit)) }
fn is_input_size<T>(r: &Result<T, DecodeError>) -> bool { matches!(r, Err(DecodeError::InputSize)) }
fn is_precision<T>(r: &Result<T, DecodeError>) -> bool { matches!(r, Err(DecodeError::Precision)) }

/// `Uint::<1>::from_str_radix_vartime(b, radix)` against the oracle
pub fn u64_case<S: Src>(s: &mut S, b: &[u8], radix: u32) {
    let st = unsafe { core::str::from_utf8_unchecked(b) };
    let res = U64::from_str_radix_vartime(st, radix);
    let p = classify(b, radix);
    if p.kind == EMPTY { assert!(is_empty_err(&res)); return; }
    if p.kind == INVALID { assert!(is_invalid(&res)); return; }
    let fits = p.fits(64);
    if p.doubled { if is_invalid(&res) { return; } }
    if fits {
        match res { Ok(v) => assert!(u64_of(&v) == p.val as u64), Err(_) => assert!(false, "numeral rejected") }
    } else {
        assert!(is_input_size(&res));
    }
}

/// `Uint::<2>::from_str_radix_vartime(b, radix)` against the oracle
pub fn u128_case<S: Src>(s: &mut S, b: &[u8], radix: u32) {
    let st = unsafe { core::str::from_utf8_unchecked(b) };
    let res = U128::from_str_radix_vartime(st, radix);
    let p = classify(b, radix);
    if p.kind == EMPTY { assert!(is_empty_err(&res)); return; }
    if p.kind == INVALID { assert!(is_invalid(&res)); return; }
    if p.doubled { if is_invalid(&res) { return; } }
    if p.fits(128) {
        match res { Ok(v) => assert!(u128_of(&v) == p.val), Err(_) => assert!(false, "numeral rejected") }
    } else {
        assert!(is_input_size(&res));
    }
}

/// the limbs of `v` are exactly the value `val` (< 2^128): at least one limb, everything above 128 bits zero
fn boxed_is(v: &BoxedUint, val: u128) -> bool {
    let w = v.as_words();
    let n = w.len();
    if n == 0 { return false; }
    let mut ok = w[0] == val as u64;
    if n >= 2 { ok &= w[1] == (val >> 64) as u64; } else { ok &= (val >> 64) == 0; }
    let mut i = 2;
    while i < n { ok &= w[i] == 0; i += 1; }
    ok
}

/// `BoxedUint::from_str_radix_vartime(b, radix)`: never a size error (the value must be < 2^128 here)
pub fn boxed_case<S: Src>(s: &mut S, b: &[u8], radix: u32) {
    let st = unsafe { core::str::from_utf8_unchecked(b) };
    let res = BoxedUint::from_str_radix_vartime(st, radix);
    let p = classify(b, radix);
    if p.kind == EMPTY { assert!(is_empty_err(&res)); return; }
    if p.kind == INVALID { assert!(is_invalid(&res)); return; }
    if p.doubled { if is_invalid(&res) { return; } }
    assert!(!p.big);
    match res { Ok(v) => assert!(boxed_is(&v, p.val)), Err(_) => assert!(false, "numeral rejected") }
}

/// `BoxedUint::from_str_radix_with_precision_vartime(b, radix, precision)`, precision <= 128:
/// a numeral >= 2^precision is an error (`Precision` when it still fits the allocated limbs, `InputSize` or `Precision`
/// when it does not); otherwise the value with `bits_precision()` = precision rounded up to 64 (64 for precision 0)
pub fn boxed_prec_case<S: Src>(s: &mut S, b: &[u8], radix: u32, precision: u32) {
    let st = unsafe { core::str::from_utf8_unchecked(b) };
    let res = BoxedUint::from_str_radix_with_precision_vartime(st, radix, precision);
    let p = classify(b, radix);
    if p.kind == EMPTY { assert!(is_empty_err(&res)); return; }
    if p.kind == INVALID { assert!(is_invalid(&res)); return; }
    if p.doubled { if is_invalid(&res) { return; } }
    let limbs: u32 = if precision <= 64 { 1 } else { 2 };
    if !p.fits(64 * limbs) { assert!(is_input_size(&res) || is_precision(&res)); return; }
    if !p.fits(precision) { assert!(is_precision(&res)); return; }
    match res {
        Ok(v) => { assert!(v.bits_precision() == 64 * limbs); assert!(boxed_is(&v, p.val)); }
        Err(_) => assert!(false, "numeral rejected"),
    }
}

/// a string of `len <= N` arbitrary 7-bit bytes
fn draw_ascii<S: Src, const N: usize>(s: &mut S) -> ([u8; N], usize) {
    let buf: [u8; N] = s.bytes();
    s.assume(all_ascii(&buf));
    let len = s.usize();
    s.assume(len <= N);
    (buf, len)
}

/// canonical numeral of `v` in a power-of-two radix (2^shift): lowercase, no leading zeros, "0" for zero
fn canonical_pow2(out: &[u8], v: u64, shift: u32) -> bool {
    let bits = 64 - v.leading_zeros();
    let n = if v == 0 { 1 } else { ((bits + shift - 1) / shift) as usize };
    if out.len() != n { return false; }
    let mut ok = true;
    let mut i = 0;
    while i < n {
        let d = ((v >> (shift * (n - 1 - i) as u32)) & ((1u64 << shift) - 1)) as u8;
        let c = if d < 10 { b'0' + d } else { b'a' + d - 10 };
        ok &= out[i] == c;
        i += 1;
    }
    ok
}

/// canonical numeral of `v` in any radix 2..=36, by repeated division of the *concrete* value
fn canonical(out: &[u8], v: u128, radix: u32) -> bool {
    let mut tmp = [0u8; 128];
    let mut n = 0;
    let mut x = v;
    loop {
        let d = (x % radix as u128) as u8;
        tmp[n] = if d < 10 { b'0' + d } else { b'a' + d - 10 };
        n += 1;
        x /= radix as u128;
        if x == 0 { break; }
    }
    if out.len() != n { return false; }
    let mut ok = true;
    let mut i = 0;
    while i < n { ok &= out[i] == tmp[n - 1 - i]; i += 1; }
    ok
}

macro_rules! each {
    ($i:ident in [$($n:expr),*] $body:block) => { $( { let $i = $n; $body } )* };
}

harnesses! {
    // ------------------------------------------------------------------ fully symbolic short strings (aligned radices)

    /// U64, radix 16: every string of <= 2 seven-bit bytes
    #[kani::unwind(4)]
    fn c17_u64_r16_len2(s) {
        let (buf, len) = draw_ascii::<_, 2>(s);
        s.cover(len == 2 && buf[0] == b'+' && buf[1] == b'F');
        u64_case(s, &buf[..len], 16);
    }
    /// U64, radix 2: every string of <= 2 seven-bit bytes
    #[kani::unwind(4)]
    fn c17_u64_r2_len2(s) {
        let (buf, len) = draw_ascii::<_, 2>(s);
        s.cover(len == 2 && buf[0] == b'1' && buf[1] == b'0');
        u64_case(s, &buf[..len], 2);
    }
    /// U64, radix 4: every string of <= 2 seven-bit bytes
    #[kani::unwind(4)]
    fn c17_u64_r4_len2(s) {
        let (buf, len) = draw_ascii::<_, 2>(s);
        s.cover(len == 2 && buf[0] == b'3' && buf[1] == b'0');
        u64_case(s, &buf[..len], 4);
    }
    /// U128, radix 16: every string of <= 2 seven-bit bytes
    #[kani::unwind(4)]
    fn c17_u128_r16_len2(s) {
        let (buf, len) = draw_ascii::<_, 2>(s);
        s.cover(len == 2);
        u128_case(s, &buf[..len], 16);
    }
    /// BoxedUint::from_str_radix_with_precision_vartime, radix 16, precision 3 (values 8..=15 are too large):
    /// every string of <= 1 seven-bit byte
    #[kani::unwind(3)]
    fn c17_boxed_prec3_r16_len1(s) {
        let (buf, len) = draw_ascii::<_, 1>(s);
        s.cover(len == 1 && buf[0] == b'8');
        boxed_prec_case(s, &buf[..len], 16, 3);
    }
    /// BoxedUint::from_str_radix_with_precision_vartime, radix 16, precision 5 (values 0x20..=0xff are too large)
    #[kani::unwind(4)]
    fn c17t_boxed_prec5_r16_len2(s) {
        let (buf, len) = draw_ascii::<_, 2>(s);
        s.cover(len == 2 && buf[0] == b'2' && buf[1] == b'0');
        boxed_prec_case(s, &buf[..len], 16, 5);
    }
    /// BoxedUint::from_str_radix_with_precision_vartime, radix 4, precision 0 (every non-zero value is too large)
    #[kani::unwind(4)]
    fn c17t_boxed_prec0_r4_len2(s) {
        let (buf, len) = draw_ascii::<_, 2>(s);
        s.cover(len == 2 && buf[0] == b'0' && buf[1] == b'0');
        boxed_prec_case(s, &buf[..len], 4, 0);
    }
    /// BoxedUint::from_str_radix_with_precision_vartime, radix 2, precision 65 (two limbs)
    #[kani::unwind(4)]
    fn c17t_boxed_prec65_r2_len2(s) {
        let (buf, len) = draw_ascii::<_, 2>(s);
        s.cover(len == 2);
        boxed_prec_case(s, &buf[..len], 2, 65);
    }

    // ------------------------------------------------------------------ thorough: 3 and 4 characters

    /// U64, radix 16: every string of <= 3 seven-bit bytes
    #[kani::unwind(5)]
    fn c17t_u64_r16_len3(s) {
        let (buf, len) = draw_ascii::<_, 3>(s);
        s.cover(len == 3 && buf[1] == b'_');
        u64_case(s, &buf[..len], 16);
    }
    /// U64, radix 16: every string of <= 4 seven-bit bytes
    #[kani::unwind(6)]
    fn c17t_u64_r16_len4(s) {
        let (buf, len) = draw_ascii::<_, 4>(s);
        s.cover(len == 4 && buf[1] == b'_' && buf[2] == b'_');
        u64_case(s, &buf[..len], 16);
    }
    /// U64, radix 2: every string of <= 4 seven-bit bytes
    #[kani::unwind(6)]
    fn c17t_u64_r2_len4(s) {
        let (buf, len) = draw_ascii::<_, 4>(s);
        s.cover(len == 4);
        u64_case(s, &buf[..len], 2);
    }
    /// U64, radix 4: every string of <= 3 seven-bit bytes
    #[kani::unwind(5)]
    fn c17t_u64_r4_len3(s) {
        let (buf, len) = draw_ascii::<_, 3>(s);
        s.cover(len == 3);
        u64_case(s, &buf[..len], 4);
    }
    /// BoxedUint with precision 3, radix 2: every string of <= 4 seven-bit bytes
    #[kani::unwind(6)]
    fn c17t_boxed_prec3_r2_len4(s) {
        let (buf, len) = draw_ascii::<_, 4>(s);
        s.cover(len == 4);
        boxed_prec_case(s, &buf[..len], 2, 3);
    }

    // ------------------------------------------------------------------ long concrete strings (concrete control flow)
    // (literal strings only: a buffer assembled at run time, or a numeral whose digits all get stripped - "0", "+00" -
    //  with a large unwind bound, makes CBMC lose the concrete slice lengths and unwind the decoder nest to the bound)

    /// U64, radix 16: concrete strings around 2^64 (MAX, 2^64, leading zeros, separators, '+', either case, bad
    /// digit, trailing separator), oracle cross-checked against literal values
    #[kani::unwind(48)]
    fn c17_u64_r16_boundary_concrete(s) {
        assert!(classify(b"ffffffffffffffff", 16).val == u64::MAX as u128);
        u64_case(s, b"ffffffffffffffff", 16);
        assert!(classify(b"+00_0FFFFFFFF_ffffffff", 16).val == u64::MAX as u128);
        u64_case(s, b"+00_0FFFFFFFF_ffffffff", 16);
        assert!(!classify(b"10000000000000000", 16).fits(64));
        u64_case(s, b"10000000000000000", 16);
        u64_case(s, b"000000000000000000001_0000000000000000", 16);
        assert!(classify(b"000000000000000000008000000000000000", 16).val == 1u128 << 63);
        u64_case(s, b"000000000000000000008000000000000000", 16);
        u64_case(s, b"g000000000000000", 16);
        u64_case(s, b"1000000000000000_", 16);
        u64_case(s, b"1__0", 16);
        u64_case(s, b"fedcba9876543210f", 16);
    }
    /// U64, radix 4 and 2: concrete strings around 2^64
    #[kani::unwind(72)]
    fn c17_u64_r4_r2_boundary_concrete(s) {
        assert!(classify(b"33333333333333333333333333333333", 4).val == u64::MAX as u128);
        u64_case(s, b"33333333333333333333333333333333", 4);
        assert!(!classify(b"100000000000000000000000000000000", 4).fits(64));
        u64_case(s, b"100000000000000000000000000000000", 4);
        assert!(classify(b"0_0_3_3_3_3_3_3_3_3_3_3_3_3_3_3_3_3_3_3_3_3_3_3_3_3_3_3_3_3_3_3_3_3", 4).val == u64::MAX as u128);
        u64_case(s, b"0_0_3_3_3_3_3_3_3_3_3_3_3_3_3_3_3_3_3_3_3_3_3_3_3_3_3_3_3_3_3_3_3_3", 4);
        assert!(classify(b"1111111111111111111111111111111111111111111111111111111111111111", 2).val == u64::MAX as u128);
        u64_case(s, b"1111111111111111111111111111111111111111111111111111111111111111", 2);
        assert!(!classify(b"10000000000000000000000000000000000000000000000000000000000000000", 2).fits(64));
        u64_case(s, b"10000000000000000000000000000000000000000000000000000000000000000", 2);
        assert!(classify(b"+01000000000000000000000000000000000000000000000000000000000000000", 2).val == 1u128 << 63);
        u64_case(s, b"+01000000000000000000000000000000000000000000000000000000000000000", 2);
        u64_case(s, b"2000", 2);
        u64_case(s, b"1234", 4);
    }
    /// U128, radix 16: concrete strings around 2^128 and 2^64
    #[kani::unwind(72)]
    fn c17_u128_r16_boundary_concrete(s) {
        assert!(classify(b"ffffffffffffffffffffffffffffffff", 16).val == u128::MAX);
        u128_case(s, b"ffffffffffffffffffffffffffffffff", 16);
        assert!(classify(b"100000000000000000000000000000000", 16).big);
        u128_case(s, b"100000000000000000000000000000000", 16);
        assert!(classify(b"000_10000000000000000", 16).val == 1u128 << 64);
        u128_case(s, b"000_10000000000000000", 16);
        u128_case(s, b"+000000000000000000000000000000AbAbAbAbAbAbAbAbAbAbAbAbAbAbAbAb", 16);
        assert!(classify(b"fedcba9876543210FEDCBA9876543210", 16).val == 0xfedcba9876543210FEDCBA9876543210u128);
        u128_case(s, b"fedcba9876543210FEDCBA9876543210", 16);
    }
    /// BoxedUint::from_str_radix_vartime (growing Vec), radix 16: every string of <= 1 seven-bit byte
    /// ("0" must give a one-limb zero)
    #[kani::unwind(3)]
    fn c17t_boxed_r16_len1(s) {
        let (buf, len) = draw_ascii::<_, 1>(s);
        s.cover(len == 1 && buf[0] == b'0');
        boxed_case(s, &buf[..len], 16);
    }
    /// BoxedUint::from_str_radix_vartime (growing Vec), radix 16: concrete strings of 2, 16 and 17 digits and the
    /// error cases
    #[kani::unwind(24)]
    fn c17_boxed_r16_concrete(s) {
        boxed_case(s, b"", 16);
        boxed_case(s, b"_1", 16);
        boxed_case(s, b"1g", 16);
        boxed_case(s, b"7F", 16);
        boxed_case(s, b"ffffffffffffffff", 16);
        assert!(classify(b"10000000000000000", 16).val == 1u128 << 64);
        boxed_case(s, b"10000000000000000", 16);
    }
    /// BoxedUint::from_str_radix_vartime (growing Vec), radix 16 / 2: 32 digits with leading zeros and separators,
    /// 65 binary digits, trailing separator
    #[kani::unwind(72)]
    fn c17t_boxed_aligned_concrete(s) {
        boxed_case(s, b"1_", 16);
        assert!(classify(b"0_0_0_ffffffffffffffffffffffffffffffff", 16).val == u128::MAX);
        boxed_case(s, b"0_0_0_ffffffffffffffffffffffffffffffff", 16);
        assert!(classify(b"11111111111111111111111111111111111111111111111111111111111111111", 2).val == (1u128 << 65) - 1);
        boxed_case(s, b"11111111111111111111111111111111111111111111111111111111111111111", 2);
    }
    /// BoxedUint::from_str_radix_with_precision_vartime, radix 16: concrete strings against precision 63, 64, 65, 68,
    /// 127, 128 (value one too large for the limbs: InputSize/Precision; for the precision only: Precision)
    #[kani::unwind(48)]
    fn c17_boxed_prec_aligned_concrete(s) {
        boxed_prec_case(s, b"ffffffffffffffff", 16, 64);
        boxed_prec_case(s, b"ffffffffffffffff", 16, 63);
        boxed_prec_case(s, b"10000000000000000", 16, 64);
        boxed_prec_case(s, b"10000000000000000", 16, 65);
        boxed_prec_case(s, b"20000000000000000", 16, 65);
        boxed_prec_case(s, b"20000000000000000", 16, 68);
        boxed_prec_case(s, b"00ffffffffffffffffffffffffffffffff", 16, 128);
        boxed_prec_case(s, b"00ffffffffffffffffffffffffffffffff", 16, 127);
        boxed_prec_case(s, b"100000000000000000000000000000000", 16, 128);
        boxed_prec_case(s, b"1", 16, 0);
    }

    // ------------------------------------------------------------------ generic path (radix not 2, 4, 16)
    // `Word::MAX.ilog(radix)` is a run-time loop of 12 (radix 36) to 40 (radix 3) iterations, so these harnesses need
    // an unwind bound > 13; with such a bound a symbolic string length makes the decoder nest explode, hence concrete
    // strings only (and no zero-valued numerals, see above).

    /// U64, radix 10: concrete strings around 2^64 (two digit batches), around 10^19 (batch boundary), leading zeros,
    /// separators, bad digits, empty
    #[kani::unwind(48)]
    fn c17_u64_r10_concrete(s) {
        assert!(classify(b"18446744073709551615", 10).val == u64::MAX as u128);
        u64_case(s, b"18446744073709551615", 10);
        assert!(!classify(b"18446744073709551616", 10).fits(64));
        u64_case(s, b"18446744073709551616", 10);
        u64_case(s, b"+0018_446_744_073_709_551_615", 10);
        u64_case(s, b"00018446744073709551616", 10);
        u64_case(s, b"99999999999999999999", 10);
        u64_case(s, b"9999999999999999999", 10);
        u64_case(s, b"10000000000000000000", 10);
        u64_case(s, b"99999999999999999999999999999999", 10);
        u64_case(s, b"", 10);
        u64_case(s, b"_", 10);
        u64_case(s, b"0_", 10);
        u64_case(s, b"a", 10);
        u64_case(s, b".", 10);
        u64_case(s, b"1844674407370955161a", 10);
        u64_case(s, b"1__2", 10);
        u64_case(s, b"7", 10);
    }
    /// U128, radix 10: concrete strings around 2^128 (three digit batches)
    #[kani::unwind(64)]
    fn c17_u128_r10_concrete(s) {
        u128_case(s, b"+340_282_366_920_938_463_463_374_607_431_768_211_455", 10);
        assert!(classify(b"340282366920938463463374607431768211455", 10).val == u128::MAX);
        u128_case(s, b"340282366920938463463374607431768211455", 10);
        u128_case(s, b"340282366920938463463374607431768211456", 10);
        assert!(classify(b"340282366920938463463374607431768211456", 10).big);
        u128_case(s, b"0340282366920938463463374607431768211456", 10);
        u128_case(s, b"18446744073709551616", 10);
        u128_case(s, b"999999999999999999999999999999999999999", 10);
    }
    /// U64, radix 36 / 3 / 7 / 35: concrete strings around 2^64 in either letter case, digit = radix rejected
    #[kani::unwind(48)]
    fn c17_u64_other_radix_concrete(s) {
        assert!(classify(b"3w5e11264sgsf", 36).val == u64::MAX as u128);
        u64_case(s, b"3w5e11264sgsf", 36);
        assert!(!classify(b"3W5E11264SGSG", 36).fits(64));
        u64_case(s, b"3W5E11264SGSG", 36);
        u64_case(s, b"zzzzzzzzzzzz", 36);
        u64_case(s, b"1000000000000", 36);
        u64_case(s, b"Zz_zZ", 36);
        assert!(classify(b"11112220022122120101211020120210210211220", 3).val == u64::MAX as u128);
        u64_case(s, b"11112220022122120101211020120210210211220", 3);
        u64_case(s, b"11112220022122120101211020120210210211221", 3);
        assert!(classify(b"45012021522523134134601", 7).val == u64::MAX as u128);
        u64_case(s, b"45012021522523134134601", 7);
        u64_case(s, b"45012021522523134134602", 7);
        u64_case(s, b"3", 3);
        u64_case(s, b"y", 35);
        u64_case(s, b"z", 35);
    }
    /// BoxedUint::from_str_radix_vartime / with_precision, radix 10: concrete strings of one, two and three batches
    #[kani::unwind(64)]
    fn c17_boxed_r10_concrete(s) {
        boxed_case(s, b"", 10);
        boxed_case(s, b"12_345", 10);
        boxed_case(s, b"18446744073709551615", 10);
        boxed_case(s, b"18446744073709551616", 10);
        boxed_case(s, b"340282366920938463463374607431768211455", 10);
        boxed_case(s, b"12x", 10);
    }
    /// BoxedUint::from_str_radix_with_precision_vartime, radix 10: concrete strings against precision 8, 64, 65, 128
    #[kani::unwind(64)]
    fn c17_boxed_prec_r10_concrete(s) {
        boxed_prec_case(s, b"18446744073709551615", 10, 64);
        boxed_prec_case(s, b"18446744073709551616", 10, 64);
        boxed_prec_case(s, b"18446744073709551616", 10, 65);
        boxed_prec_case(s, b"36893488147419103232", 10, 65);
        boxed_prec_case(s, b"340282366920938463463374607431768211455", 10, 128);
        boxed_prec_case(s, b"340282366920938463463374607431768211456", 10, 128);
        boxed_prec_case(s, b"255", 10, 8);
        boxed_prec_case(s, b"256", 10, 8);
    }

    // ------------------------------------------------------------------ radix out of range

    /// Uint::from_str_radix_vartime panics for every radix outside 2..=36
    #[kani::should_panic]
    #[kani::unwind(4)]
    fn c17_parse_bad_radix_panics(s) {
        let r = s.u32();
        s.assume(r < 2 || r > 36);
        let _ = U64::from_str_radix_vartime("1", r);
        returned_instead_of_panicking();
    }
    /// BoxedUint::from_str_radix_vartime panics for every radix outside 2..=36
    #[kani::should_panic]
    #[kani::unwind(4)]
    fn c17_boxed_parse_bad_radix_panics(s) {
        let r = s.u32();
        s.assume(r < 2 || r > 36);
        let _ = BoxedUint::from_str_radix_vartime("1", r);
        returned_instead_of_panicking();
    }
    /// BoxedUint::from_str_radix_with_precision_vartime panics for every radix outside 2..=36
    #[kani::should_panic]
    #[kani::unwind(4)]
    fn c17_boxed_prec_parse_bad_radix_panics(s) {
        let r = s.u32();
        s.assume(r < 2 || r > 36);
        let _ = BoxedUint::from_str_radix_with_precision_vartime("1", r, 64);
        returned_instead_of_panicking();
    }
    /// Uint::to_string_radix_vartime panics for radix 0, 1, 37, u32::MAX (concrete radices, any value: a symbolic radix
    /// makes CBMC explore the whole encoder)
    #[kani::should_panic]
    #[kani::unwind(4)]
    fn c17_format_radix0_panics(s) { let _ = mk64(s.u64()).to_string_radix_vartime(0); returned_instead_of_panicking(); }
    #[kani::should_panic]
    #[kani::unwind(4)]
    fn c17_format_radix1_panics(s) { let _ = mk64(s.u64()).to_string_radix_vartime(1); returned_instead_of_panicking(); }
    #[kani::should_panic]
    #[kani::unwind(4)]
    fn c17_format_radix37_panics(s) { let _ = mk64(s.u64()).to_string_radix_vartime(37); returned_instead_of_panicking(); }
    #[kani::should_panic]
    #[kani::unwind(4)]
    fn c17_format_radix_max_panics(s) { let _ = mk128(s.u128()).to_string_radix_vartime(u32::MAX); returned_instead_of_panicking(); }
    /// BoxedUint::to_string_radix_vartime panics for radix 1, 37
    #[kani::should_panic]
    #[kani::unwind(4)]
    fn c17_boxed_format_radix1_panics(s) { let _ = BoxedUint::from(s.u64()).to_string_radix_vartime(1); returned_instead_of_panicking(); }
    #[kani::should_panic]
    #[kani::unwind(4)]
    fn c17_boxed_format_radix37_panics(s) { let _ = BoxedUint::from(s.u64()).to_string_radix_vartime(37); returned_instead_of_panicking(); }

    // ------------------------------------------------------------------ formatting

    /// U64::to_string_radix_vartime(16) is the canonical numeral (lowercase, no leading zeros, "0" for zero),
    /// all values < 2^16
    #[kani::unwind(18)]
    fn c17t_format_u64_r16(s) {
        let v = s.u64();
        s.assume(v < (1 << 16));
        let out = mk64(v).to_string_radix_vartime(16);
        assert!(canonical_pow2(out.as_bytes(), v, 4));
    }
    /// U64::to_string_radix_vartime(32) is the canonical numeral, all values < 2^16
    #[kani::unwind(18)]
    fn c17t_format_u64_r32(s) {
        let v = s.u64();
        s.assume(v < (1 << 16));
        let out = mk64(v).to_string_radix_vartime(32);
        assert!(canonical_pow2(out.as_bytes(), v, 5));
    }
    /// BoxedUint::to_string_radix_vartime(16) is the canonical numeral, one limb, all values < 2^16
    #[kani::unwind(18)]
    fn c17t_format_boxed_r16(s) {
        let v = s.u64();
        s.assume(v < (1 << 16));
        let out = BoxedUint::from(v).to_string_radix_vartime(16);
        assert!(canonical_pow2(out.as_bytes(), v, 4));
    }

}
