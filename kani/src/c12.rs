//! C12: NonZero / Odd wrappers can never hold an invalid value.
//!
//! One harness per producer (trivially similar ones grouped): the produced wrapper satisfies its invariant
//! (!= 0 resp. odd) *and* equals the input decoded in the stated byte order, or the producer fails in the
//! documented way (none / Err / panic). Widths: Limb, U64, U128, I64/I128, BoxedUint of 1 and 2 limbs.
//! The producer list and what is not covered is in meta/c12.json.
use crate::*;
use crate::util::*;
use crate::c19::{SymRng, SymTryRng};
use crypto_bigint::*;
use crypto_bigint::modular::{ConstMontyParams, MontyParams, BoxedMontyParams};
use crypto_bigint::subtle::{Choice, ConditionallySelectable, CtOption};
use core::num::{NonZeroU8, NonZeroU16, NonZeroU32, NonZeroU64, NonZeroU128};
use hybrid_array::Array;
use hybrid_array::typenum;

fn le_value(b: &[u8]) -> u128 {
    let mut v: u128 = 0;
    let mut i = b.len();
    while i > 0 { i -= 1; v = (v << 8) | b[i] as u128; }
    v
}
fn boxed_u128(b: &BoxedUint) -> u128 {
    let w = b.as_words();
    let mut v: u128 = 0;
    if w.len() > 0 { v |= w[0] as u128; }
    if w.len() > 1 { v |= (w[1] as u128) << 64; }
    v
}
fn i64_of(x: &I64) -> i64 { x.as_words()[0] as i64 }
fn i128_of(x: &I128) -> i128 { let w = x.as_words(); (w[0] as u128 | ((w[1] as u128) << 64)) as i128 }
fn is_hex(c: u8) -> bool { (c >= b'0' && c <= b'9') || (c >= b'a' && c <= b'f') || (c >= b'A' && c <= b'F') }
fn nib(c: u8) -> u8 { if c <= b'9' { c - b'0' } else if c >= b'a' { c - b'a' + 10 } else { c - b'A' + 10 } }
/// byte k of a hex string = chars 2k, 2k+1
fn hex_bytes<const N: usize, const H: usize>(h: &[u8; H]) -> [u8; N] {
    let mut out = [0u8; N];
    let mut k = 0;
    while k < N { out[k] = (nib(h[2 * k]) << 4) | nib(h[2 * k + 1]); k += 1; }
    out
}
fn all_hex<const H: usize>(h: &[u8; H]) -> bool {
    let mut ok = true;
    let mut k = 0;
    while k < H { ok &= is_hex(h[k]); k += 1; }
    ok
}

impl_modulus!(C12Mod64, U64, "ffffffff00000001");
impl_modulus!(C12Mod128, U128, "0000000000000003fffffffffffffff1");

harnesses! {
    // ================================================================== NonZero
    /// NonZero::new / Limb::to_nz / Uint::to_nz (+ ConstCtOption -> CtOption / Option, expect, unwrap) at Limb and U64:
    /// some iff x != 0, and then the wrapped value is x.
    fn c12_nz_new_limb_u64(s) {
        let x = s.u64();
        let a: Option<NonZero<Limb>> = NonZero::new(Limb(x)).into();
        let b: Option<NonZero<U64>> = NonZero::new(mk64(x)).into();
        let c = Limb(x).to_nz();
        let d = mk64(x).to_nz();
        assert!(a.is_some() == (x != 0) && b.is_some() == (x != 0));
        assert!(bool::from(c.is_some()) == (x != 0) && bool::from(d.is_some()) == (x != 0));
        assert!(bool::from(c.is_none()) == (x == 0));
        let d_ct: CtOption<NonZero<U64>> = d.clone().into();
        let d_opt: Option<NonZero<U64>> = d.clone().into();
        assert!(bool::from(d_ct.is_some()) == (x != 0) && d_opt.is_some() == (x != 0));
        if x != 0 {
            assert!(a.unwrap().get().0 == x && a.unwrap().as_ref().0 == x);
            assert!(u64_of(&b.unwrap().get()) == x);
            assert!(c.clone().expect("nz").get().0 == x && c.unwrap().get().0 == x);
            assert!(u64_of(&d.clone().expect("nz").get()) == x && u64_of(&d.unwrap()) == x);
            assert!(u64_of(&d_opt.unwrap()) == x);
        }
        cov!(s, x == 0);
        cov!(s, x == 1 << 63);
    }

    /// ... at U128 (value living only in the high limb, only in the low limb).
    fn c12_nz_new_u128(s) {
        let x = s.u128();
        let b: Option<NonZero<U128>> = NonZero::new(mk128(x)).into();
        let d = mk128(x).to_nz();
        assert!(b.is_some() == (x != 0));
        assert!(bool::from(d.is_some()) == (x != 0));
        if x != 0 {
            assert!(u128_of(&b.unwrap().get()) == x);
            assert!(u128_of(&d.expect("nz").get()) == x);
        }
        cov!(s, x == 0);
        cov!(s, x != 0 && x as u64 == 0);
        cov!(s, x != 0 && (x >> 64) == 0);
    }

    /// ConstCtOption<NonZero<_>>::expect / unwrap on a none (zero input) panic.
    #[kani::should_panic]
    fn c12_nz_to_nz_expect_zero_panics(s) {
        let x = s.u64();
        s.assume(x == 0);
        let _ = mk64(x).to_nz().expect("documented panic");
    }

    /// NonZero::new(Int) / Int::to_nz / Int::to_odd at I64 and I128: some iff != 0 (resp. odd), value preserved
    /// (negative values, MIN, -1 included).
    fn c12_int_to_nz_to_odd(s) {
        let x = s.i64();
        let y = s.i128();
        let a = I64::from_i64(x).to_nz();
        let b = I128::from_i128(y).to_nz();
        let c: Option<NonZero<I128>> = NonZero::new(I128::from_i128(y)).into();
        let o = I64::from_i64(x).to_odd();
        let p = I128::from_i128(y).to_odd();
        assert!(bool::from(a.is_some()) == (x != 0));
        assert!(bool::from(b.is_some()) == (y != 0) && c.is_some() == (y != 0));
        assert!(bool::from(o.is_some()) == (x & 1 == 1));
        assert!(bool::from(p.is_some()) == (y & 1 == 1));
        if x != 0 { assert!(i64_of(&a.unwrap().get()) == x); }
        if y != 0 { assert!(i128_of(&b.unwrap().get()) == y && i128_of(&c.unwrap().get()) == y); }
        if x & 1 == 1 { assert!(i64_of(&o.unwrap().get()) == x); }
        if y & 1 == 1 { assert!(i128_of(&p.unwrap().get()) == y); }
        cov!(s, x == i64::MIN);
        cov!(s, y == -1);
        cov!(s, y == i128::MIN);
        cov!(s, y < 0 && y & 1 == 1);
    }

    /// NonZero::new(BoxedUint) with 1 and 2 limbs: some iff the value is non-zero; value and precision preserved.
    #[kani::unwind(4)]
    fn c12_nz_new_boxed(s) {
        let w: [u64; 2] = s.words();
        let a: Option<NonZero<BoxedUint>> = NonZero::new(BoxedUint::from_words([w[0]])).into();
        let b: Option<NonZero<BoxedUint>> = NonZero::new(BoxedUint::from_words([w[0], w[1]])).into();
        assert!(a.is_some() == (w[0] != 0));
        assert!(b.is_some() == (w[0] != 0 || w[1] != 0));
        if let Some(a) = a { assert!(a.nlimbs() == 1 && a.as_words()[0] == w[0]); }
        if let Some(b) = b { assert!(b.nlimbs() == 2 && b.as_words()[0] == w[0] && b.as_words()[1] == w[1]); }
        cov!(s, w[0] == 0 && w[1] != 0);
        cov!(s, w[0] == 0 && w[1] == 0);
    }

    /// NonZero::<Limb|U64|U128>::new_unwrap on non-zero input returns the input.
    fn c12_nz_new_unwrap_ok(s) {
        let x = s.u64();
        let y = s.u128();
        s.assume(x != 0 && y != 0);
        assert!(NonZero::<Limb>::new_unwrap(Limb(x)).get().0 == x);
        assert!(u64_of(&NonZero::<U64>::new_unwrap(mk64(x)).get()) == x);
        assert!(u128_of(&NonZero::<U128>::new_unwrap(mk128(y)).get()) == y);
        cov!(s, y as u64 == 0);
    }
    /// new_unwrap(0) panics (Limb).
    #[kani::should_panic]
    fn c12_nz_new_unwrap_zero_panics_limb(s) {
        let x = s.u64();
        s.assume(x == 0);
        let _ = NonZero::<Limb>::new_unwrap(Limb(x));
    }
    /// new_unwrap(0) panics (U128).
    #[kani::should_panic]
    fn c12_nz_new_unwrap_zero_panics_u128(s) {
        let x = s.u128();
        s.assume(x == 0);
        let _ = NonZero::<U128>::new_unwrap(mk128(x));
    }

    /// from_u8/u16/u32/u64/u128 and the From<core::num::NonZero*> impls for NonZero<Limb>, NonZero<U64>, NonZero<U128>:
    /// non-zero and equal to the primitive.
    fn c12_nz_from_primitives(s) {
        let a = s.u8(); let b = s.u16(); let c = s.u32(); let d = s.u64(); let e = s.u128();
        s.assume(a != 0 && b != 0 && c != 0 && d != 0 && e != 0);
        let (na, nb, nc, nd, ne) = (NonZeroU8::new(a).unwrap(), NonZeroU16::new(b).unwrap(), NonZeroU32::new(c).unwrap(),
                                    NonZeroU64::new(d).unwrap(), NonZeroU128::new(e).unwrap());
        assert!(NonZero::<Limb>::from_u8(na).get().0 == a as u64);
        assert!(NonZero::<Limb>::from_u16(nb).get().0 == b as u64);
        assert!(NonZero::<Limb>::from_u32(nc).get().0 == c as u64);
        assert!(NonZero::<Limb>::from_u64(nd).get().0 == d);
        assert!(NonZero::<Limb>::from(na).get().0 == a as u64 && NonZero::<Limb>::from(nb).get().0 == b as u64);
        assert!(NonZero::<Limb>::from(nc).get().0 == c as u64 && NonZero::<Limb>::from(nd).get().0 == d);
        assert!(u64_of(&NonZero::<U64>::from_u8(na).get()) == a as u64);
        assert!(u64_of(&NonZero::<U64>::from_u16(nb).get()) == b as u64);
        assert!(u64_of(&NonZero::<U64>::from_u32(nc).get()) == c as u64);
        assert!(u64_of(&NonZero::<U64>::from_u64(nd).get()) == d);
        assert!(u64_of(&NonZero::<U64>::from(nd).get()) == d);
        assert!(u128_of(&NonZero::<U128>::from_u8(na).get()) == a as u128);
        assert!(u128_of(&NonZero::<U128>::from_u16(nb).get()) == b as u128);
        assert!(u128_of(&NonZero::<U128>::from_u32(nc).get()) == c as u128);
        assert!(u128_of(&NonZero::<U128>::from_u64(nd).get()) == d as u128);
        assert!(u128_of(&NonZero::<U128>::from_u128(ne).get()) == e);
        assert!(u128_of(&NonZero::<U128>::from(ne).get()) == e && u128_of(&NonZero::<U128>::from(na).get()) == a as u128);
        assert!(u128_of(&NonZero::<U128>::from(nb).get()) == b as u128 && u128_of(&NonZero::<U128>::from(nc).get()) == c as u128);
        cov!(s, e as u64 == 0);
    }
    /// NonZero::<U64>::from_u128 cannot truncate a multiple of 2^64 to zero: it panics for every input
    /// (Uint::from_u128 requires two limbs).
    #[kani::should_panic]
    fn c12_nz_u64_from_u128_panics(s) {
        let e = s.u128();
        s.assume(e != 0);
        let _ = NonZero::<U64>::from_u128(NonZeroU128::new(e).unwrap());
    }

    /// NonZero::from_be_bytes / from_le_bytes (Encoding::Repr) at Limb, U64, U128: some iff the bytes are not all
    /// zero, value = bytes read in the *stated* order.
    #[kani::unwind(18)]
    fn c12_nz_from_bytes(s) {
        let b8: [u8; 8] = s.bytes();
        let b16: [u8; 16] = s.bytes();
        let (be8, le8) = (be_value(&b8) as u64, le_value(&b8) as u64);
        let (be16, le16) = (be_value(&b16), le_value(&b16));
        let a: Option<NonZero<Limb>> = NonZero::<Limb>::from_be_bytes(b8).into();
        let b: Option<NonZero<Limb>> = NonZero::<Limb>::from_le_bytes(b8).into();
        let c: Option<NonZero<U64>> = NonZero::<U64>::from_be_bytes(b8).into();
        let d: Option<NonZero<U64>> = NonZero::<U64>::from_le_bytes(b8).into();
        let e: Option<NonZero<U128>> = NonZero::<U128>::from_be_bytes(b16).into();
        let f: Option<NonZero<U128>> = NonZero::<U128>::from_le_bytes(b16).into();
        assert!(a.is_some() == (be8 != 0) && b.is_some() == (be8 != 0) && c.is_some() == (be8 != 0) && d.is_some() == (be8 != 0));
        assert!(e.is_some() == (be16 != 0) && f.is_some() == (be16 != 0));
        if be8 != 0 {
            assert!(a.unwrap().get().0 == be8 && b.unwrap().get().0 == le8);
            assert!(u64_of(&c.unwrap().get()) == be8 && u64_of(&d.unwrap().get()) == le8);
        }
        if be16 != 0 {
            assert!(u128_of(&e.unwrap().get()) == be16 && u128_of(&f.unwrap().get()) == le16);
        }
        cov!(s, be8 != 0 && be8 != le8);
        cov!(s, be16 == 0);
    }

    /// NonZero::from_be_byte_array / from_le_byte_array (hybrid-array) at U64: little-endian really is little-endian.
    #[kani::unwind(10)]
    fn c12_nz_from_byte_array_u64(s) {
        let b8: [u8; 8] = s.bytes();
        let (be, le) = (be_value(&b8) as u64, le_value(&b8) as u64);
        let a: Option<NonZero<U64>> = NonZero::<U64>::from_be_byte_array(Array::<u8, typenum::U8>::from(b8)).into();
        let b: Option<NonZero<U64>> = NonZero::<U64>::from_le_byte_array(Array::<u8, typenum::U8>::from(b8)).into();
        assert!(a.is_some() == (be != 0) && b.is_some() == (be != 0));
        if be != 0 {
            assert!(u64_of(&a.unwrap().get()) == be);
            assert!(u64_of(&b.unwrap().get()) == le);
        }
        cov!(s, be != 0 && be != le);
        cov!(s, be == 0);
    }
    /// ... at U128.
    #[kani::unwind(18)]
    fn c12_nz_from_byte_array_u128(s) {
        let b16: [u8; 16] = s.bytes();
        let (be, le) = (be_value(&b16), le_value(&b16));
        let a: Option<NonZero<U128>> = NonZero::<U128>::from_be_byte_array(Array::<u8, typenum::U16>::from(b16)).into();
        let b: Option<NonZero<U128>> = NonZero::<U128>::from_le_byte_array(Array::<u8, typenum::U16>::from(b16)).into();
        assert!(a.is_some() == (be != 0) && b.is_some() == (be != 0));
        if be != 0 {
            assert!(u128_of(&a.unwrap().get()) == be);
            assert!(u128_of(&b.unwrap().get()) == le);
        }
        cov!(s, be != 0 && be != le);
    }

    /// conditional_select / conditional_assign / conditional_swap / ct_select on NonZero<Limb|U64|U128|I128> and
    /// Odd<U64|U128> between two valid values: exactly the chosen operand, for both choice values -- hence valid.
    fn c12_select_between_valid(s) {
        let (x, y) = (s.u64(), s.u64());
        let (p, q) = (s.u128(), s.u128());
        let ch = s.bool();
        s.assume(x != 0 && y != 0 && p != 0 && q != 0);
        let c = Choice::from(ch as u8);
        let (lx, ly) = (NonZero::new(Limb(x)).unwrap(), NonZero::new(Limb(y)).unwrap());
        let r = NonZero::<Limb>::conditional_select(&lx, &ly, c).get().0;
        assert!(r == if ch { y } else { x } && r != 0);
        let (ux, uy) = (NonZero::new(mk64(x)).unwrap(), NonZero::new(mk64(y)).unwrap());
        let mut t = ux; t.conditional_assign(&uy, c);
        assert!(u64_of(&t.get()) == if ch { y } else { x });
        let (mut a, mut b) = (ux, uy);
        NonZero::<U64>::conditional_swap(&mut a, &mut b, c);
        assert!(u64_of(&a.get()) == if ch { y } else { x } && u64_of(&b.get()) == if ch { x } else { y });
        let (wp, wq) = (NonZero::new(mk128(p)).unwrap(), NonZero::new(mk128(q)).unwrap());
        let r = u128_of(&<NonZero<U128> as ConstantTimeSelect>::ct_select(&wp, &wq, c).get());
        assert!(r == if ch { q } else { p } && r != 0);
        let (ip, iq) = (I128::from_i128(p as i128).to_nz().unwrap(), I128::from_i128(q as i128).to_nz().unwrap());
        let r = i128_of(&NonZero::<I128>::conditional_select(&ip, &iq, c).get());
        assert!(r == if ch { q as i128 } else { p as i128 } && r != 0);
        // Odd
        let (ox, oy) = (Odd::new(mk64(x | 1)).unwrap(), Odd::new(mk64(y | 1)).unwrap());
        let r = u64_of(&Odd::<U64>::conditional_select(&ox, &oy, c).get());
        assert!(r == if ch { y | 1 } else { x | 1 } && r & 1 == 1);
        let (op, oq) = (Odd::new(mk128(p | 1)).unwrap(), Odd::new(mk128(q | 1)).unwrap());
        let (mut a, mut b) = (op, oq);
        Odd::<U128>::conditional_swap(&mut a, &mut b, c);
        assert!(u128_of(&a.get()) == if ch { q | 1 } else { p | 1 } && u128_of(&b.get()) == if ch { p | 1 } else { q | 1 });
        let mut t = op; t.ct_assign(&oq, c);
        assert!(u128_of(&t.get()) & 1 == 1 && u128_of(&t.get()) == if ch { q | 1 } else { p | 1 });
        cov!(s, ch && x != y);
        cov!(s, !ch && p != q);
    }

    /// Default and the associated constants: NonZero default = ONE = 1, MAX = all ones; Odd default = 1
    /// (Uint and BoxedUint). No input.
    #[kani::unwind(4)]
    fn c12_defaults_and_constants(s) {
        assert!(NonZero::<Limb>::default().get().0 == 1);
        assert!(u64_of(&NonZero::<U64>::default().get()) == 1);
        assert!(u128_of(&NonZero::<U128>::default().get()) == 1);
        assert!(i128_of(&NonZero::<I128>::default().get()) == 1);
        assert!(NonZero::<Limb>::ONE.get().0 == 1 && NonZero::<Limb>::MAX.get().0 == u64::MAX);
        assert!(u128_of(&NonZero::<U128>::ONE.get()) == 1 && u128_of(&NonZero::<U128>::MAX.get()) == u128::MAX);
        assert!(i128_of(&NonZero::<I128>::ONE.get()) == 1 && i128_of(&NonZero::<I128>::MAX.get()) == i128::MAX);
        assert!(u64_of(&Odd::<U64>::default().get()) == 1);
        assert!(u128_of(&Odd::<U128>::default().get()) == 1);
        let b = Odd::<BoxedUint>::default();
        assert!(boxed_u128(b.as_ref()) == 1 && bool::from(b.as_ref().is_odd()));
    }

    /// NonZero<I64|I128>::abs_sign: magnitude = |x| as an unsigned value (2^63 / 2^127 for MIN), non-zero; sign = x < 0.
    fn c12_nz_int_abs_sign(s) {
        let x = s.i64();
        let y = s.i128();
        s.assume(x != 0 && y != 0);
        let (m, sg) = I64::from_i64(x).to_nz().unwrap().abs_sign();
        assert!(u64_of(&m.get()) == x.unsigned_abs() && u64_of(&m.get()) != 0);
        assert!(bool::from(sg) == (x < 0));
        let (m, sg) = I128::from_i128(y).to_nz().unwrap().abs_sign();
        assert!(u128_of(&m.get()) == y.unsigned_abs() && u128_of(&m.get()) != 0);
        assert!(bool::from(sg) == (y < 0));
        cov!(s, x == i64::MIN);
        cov!(s, y == i128::MIN);
        cov!(s, y == -1);
    }

    /// NonZero<BoxedUint>::widen: 64 -> 64, 64 -> 128, 128 -> 128 bits: value preserved (zero-extended), still non-zero.
    #[kani::unwind(4)]
    fn c12_nz_boxed_widen(s) {
        let w: [u64; 2] = s.words();
        s.assume(w[0] != 0);
        let one = NonZero::new(BoxedUint::from_words([w[0]])).unwrap();
        let two = NonZero::new(BoxedUint::from_words([w[0], w[1]])).unwrap();
        let a = one.widen(64);
        let b = one.widen(128);
        let c = two.widen(128);
        assert!(a.nlimbs() == 1 && a.as_words()[0] == w[0]);
        assert!(b.nlimbs() == 2 && b.as_words()[0] == w[0] && b.as_words()[1] == 0);
        assert!(c.nlimbs() == 2 && c.as_words()[0] == w[0] && c.as_words()[1] == w[1]);
        assert!(bool::from(b.is_nonzero()));
    }
    /// widen to a smaller precision panics (documented), it does not truncate a value like 2^64 to zero.
    #[kani::should_panic]
    #[kani::unwind(4)]
    fn c12_nz_boxed_widen_smaller_panics(s) {
        let w: [u64; 2] = s.words();
        s.assume(w[0] == 0 && w[1] != 0);
        let two = NonZero::new(BoxedUint::from_words([w[0], w[1]])).unwrap();
        let _ = two.widen(64);
    }

    /// Random producers with a *fallible* stream of 2 words: NonZero<Limb|U128|I64>::try_random and
    /// Odd<U128>::try_random return a valid value or the RNG error -- never an invalid wrapper.
    /// (Infallible `random` forms with rejection of leading zero words: c19_nonzero_random_*, c19_odd_random_*.)
    #[kani::unwind(6)]
    fn c12_try_random_valid_or_err(s) {
        let words: [u64; 2] = s.words();
        let mut r = SymTryRng::<2> { words, pos: 0 };
        match NonZero::<Limb>::try_random(&mut r) {
            Ok(v) => assert!(v.get().0 != 0 && (v.get().0 == words[0] || (words[0] == 0 && v.get().0 == words[1]))),
            Err(_) => assert!(words[0] == 0 && words[1] == 0),
        }
        let mut r = SymTryRng::<2> { words, pos: 0 };
        match NonZero::<U128>::try_random(&mut r) {
            Ok(v) => assert!(u128_of(&v.get()) != 0 && u128_of(&v.get()) == words[0] as u128 | ((words[1] as u128) << 64)),
            Err(_) => assert!(words[0] == 0 && words[1] == 0),
        }
        let mut r = SymTryRng::<2> { words, pos: 0 };
        match NonZero::<I64>::try_random(&mut r) {
            Ok(v) => assert!(i64_of(&v.get()) != 0),
            Err(_) => assert!(words[0] == 0 && words[1] == 0),
        }
        let mut r = SymTryRng::<2> { words, pos: 0 };
        match Odd::<U128>::try_random(&mut r) {
            Ok(v) => assert!(u128_of(&v.get()) & 1 == 1),
            Err(_) => assert!(false),
        }
        let mut r = SymTryRng::<1> { words: [words[0]], pos: 0 };
        assert!(Odd::<U128>::try_random(&mut r).is_err());
        cov!(s, words[0] == 0 && words[1] == 0);
        cov!(s, words[0] == 0 && words[1] != 0);
    }

    /// Odd::<BoxedUint>::random(rng, 0): zero requested bits still yield a one-limb value with bit 0 forced, i.e. 1 --
    /// a valid Odd (not < 2^0, but the wrapper invariant holds); nothing is drawn.
    #[kani::unwind(6)]
    fn c12_odd_boxed_random_zero_bits(s) {
        let words: [u64; 1] = s.words();
        let mut rng = SymRng::new(words, 0);
        let o = Odd::<BoxedUint>::random(&mut rng, 0);
        assert!(o.as_ref().nlimbs() == 1 && o.as_ref().as_words()[0] == 1 && rng.pos == 0);
    }

    // ================================================================== Odd
    /// Odd::new / Uint::to_odd (+ expect) at U64, U128: some iff bit 0 set; value preserved.
    fn c12_odd_new_uint(s) {
        let x = s.u64();
        let y = s.u128();
        let a: Option<Odd<U64>> = Odd::new(mk64(x)).into();
        let b: Option<Odd<U128>> = Odd::new(mk128(y)).into();
        let c = mk64(x).to_odd();
        let d = mk128(y).to_odd();
        assert!(a.is_some() == (x & 1 == 1) && bool::from(c.is_some()) == (x & 1 == 1));
        assert!(b.is_some() == (y & 1 == 1) && bool::from(d.is_some()) == (y & 1 == 1));
        if x & 1 == 1 { assert!(u64_of(&a.unwrap().get()) == x && u64_of(&c.expect("odd").get()) == x); }
        if y & 1 == 1 { assert!(u128_of(&b.unwrap().get()) == y && u128_of(d.expect("odd").as_ref()) == y); }
        cov!(s, x == 0);
        cov!(s, y == 2);
        cov!(s, y == u128::MAX);
        cov!(s, y >> 64 != 0 && y as u64 == 0);
    }
    /// ConstCtOption<Odd<_>>::expect on an even value panics.
    #[kani::should_panic]
    fn c12_odd_to_odd_expect_even_panics(s) {
        let y = s.u128();
        s.assume(y & 1 == 0);
        let _ = mk128(y).to_odd().expect("documented panic");
    }

    /// Odd::new(BoxedUint) / BoxedUint::to_odd with 1 and 2 limbs.
    #[kani::unwind(4)]
    fn c12_odd_new_boxed(s) {
        let w: [u64; 2] = s.words();
        let odd = w[0] & 1 == 1;
        let a: Option<Odd<BoxedUint>> = Odd::new(BoxedUint::from_words([w[0]])).into();
        let b: Option<Odd<BoxedUint>> = Odd::new(BoxedUint::from_words([w[0], w[1]])).into();
        let c: Option<Odd<BoxedUint>> = BoxedUint::from_words([w[0], w[1]]).to_odd().into();
        assert!(a.is_some() == odd && b.is_some() == odd && c.is_some() == odd);
        if let Some(a) = a { assert!(a.as_ref().nlimbs() == 1 && a.as_ref().as_words()[0] == w[0]); }
        if let Some(b) = b { assert!(b.as_ref().nlimbs() == 2 && boxed_u128(b.as_ref()) == w[0] as u128 | ((w[1] as u128) << 64)); }
        if let Some(c) = c { assert!(c.as_ref().nlimbs() == 2 && boxed_u128(c.as_ref()) == w[0] as u128 | ((w[1] as u128) << 64)); }
        cov!(s, !odd && w[1] & 1 == 1);
    }

    /// Odd::as_nz_ref / AsRef<NonZero<T>>: the reinterpreted NonZero has the same, non-zero value (U64, U128, BoxedUint).
    #[kani::unwind(4)]
    fn c12_odd_as_nz_ref(s) {
        let x = s.u64();
        let y = s.u128();
        s.assume(x & 1 == 1 && y & 1 == 1);
        let a = Odd::new(mk64(x)).unwrap();
        let b = Odd::new(mk128(y)).unwrap();
        let c = Odd::new(BoxedUint::from_words([y as u64, (y >> 64) as u64])).unwrap();
        assert!(u64_of(a.as_nz_ref().as_ref()) == x && x != 0);
        assert!(u128_of(b.as_nz_ref().as_ref()) == y);
        let r: &NonZero<U128> = AsRef::<NonZero<U128>>::as_ref(&b);
        assert!(u128_of(&r.get()) == y && !bool::from(r.is_zero()));
        let nz: &NonZero<BoxedUint> = c.as_nz_ref();
        assert!(boxed_u128(nz) == y && bool::from(nz.is_nonzero()) && nz.nlimbs() == 2);
    }

    /// Odd::<U64>::from_be_hex on well-formed hex (both letter cases) of an odd value: the big-endian value.
    #[kani::unwind(18)]
    fn c12_odd_from_be_hex_u64(s) {
        let h: [u8; 16] = s.bytes();
        s.assume(all_hex(&h));
        let bytes: [u8; 8] = hex_bytes::<8, 16>(&h);
        let v = be_value(&bytes) as u64;
        s.assume(v & 1 == 1);
        let o = Odd::<U64>::from_be_hex(unsafe { core::str::from_utf8_unchecked(&h) });
        assert!(u64_of(o.as_ref()) == v);
        cov!(s, bytes[0] & 1 == 0 && h[3] == b'F' && h[4] == b'f');
    }
    /// Odd::<U64>::from_le_hex: the *little-endian* value (first byte least significant); odd iff the first byte is odd.
    #[kani::unwind(18)]
    fn c12_odd_from_le_hex_u64(s) {
        let h: [u8; 16] = s.bytes();
        s.assume(all_hex(&h));
        let bytes: [u8; 8] = hex_bytes::<8, 16>(&h);
        let v = le_value(&bytes) as u64;
        s.assume(v & 1 == 1);
        let o = Odd::<U64>::from_le_hex(unsafe { core::str::from_utf8_unchecked(&h) });
        assert!(u64_of(o.as_ref()) == v);
        cov!(s, bytes[7] & 1 == 0);
        cov!(s, v != be_value(&bytes) as u64);
    }
    /// from_be_hex of an even value panics ("number must be odd").
    #[kani::should_panic]
    #[kani::unwind(18)]
    fn c12_odd_from_be_hex_even_panics_u64(s) {
        let h: [u8; 16] = s.bytes();
        s.assume(all_hex(&h));
        let bytes: [u8; 8] = hex_bytes::<8, 16>(&h);
        s.assume(bytes[7] & 1 == 0);
        let _ = Odd::<U64>::from_be_hex(unsafe { core::str::from_utf8_unchecked(&h) });
    }
    /// from_le_hex of a value whose little-endian reading is even (first byte even, last byte odd) panics.
    #[kani::should_panic]
    #[kani::unwind(18)]
    fn c12_odd_from_le_hex_even_panics_u64(s) {
        let h: [u8; 16] = s.bytes();
        s.assume(all_hex(&h));
        let bytes: [u8; 8] = hex_bytes::<8, 16>(&h);
        s.assume(bytes[0] & 1 == 0 && bytes[7] & 1 == 1);
        let _ = Odd::<U64>::from_le_hex(unsafe { core::str::from_utf8_unchecked(&h) });
    }
    /// U128 (two limbs: limb order matters as well as byte order): be and le hex of odd values.
    #[kani::unwind(34)]
    fn c12_odd_from_hex_u128(s) {
        let h: [u8; 32] = s.bytes();
        s.assume(all_hex(&h));
        let bytes: [u8; 16] = hex_bytes::<16, 32>(&h);
        let be = be_value(&bytes);
        let le = le_value(&bytes);
        let st = unsafe { core::str::from_utf8_unchecked(&h) };
        if s.bool() {
            s.assume(be & 1 == 1);
            assert!(u128_of(Odd::<U128>::from_be_hex(st).as_ref()) == be);
        } else {
            s.assume(le & 1 == 1);
            assert!(u128_of(Odd::<U128>::from_le_hex(st).as_ref()) == le);
        }
        cov!(s, be & 1 == 1 && le & 1 == 0);
        cov!(s, le & 1 == 1 && be & 1 == 0);
    }

    /// From<Odd<Uint>> / From<&Odd<Uint>> for Odd<BoxedUint> (U64, U128): same value, same number of limbs, odd.
    #[kani::unwind(4)]
    fn c12_odd_uint_to_boxed(s) {
        let x = s.u64();
        let y = s.u128();
        s.assume(x & 1 == 1 && y & 1 == 1);
        let a: Odd<BoxedUint> = Odd::new(mk64(x)).unwrap().into();
        let o = Odd::new(mk128(y)).unwrap();
        let b: Odd<BoxedUint> = (&o).into();
        let c: Odd<BoxedUint> = o.into();
        assert!(a.as_ref().nlimbs() == 1 && a.as_ref().as_words()[0] == x);
        assert!(b.as_ref().nlimbs() == 2 && boxed_u128(b.as_ref()) == y && bool::from(b.as_ref().is_odd()));
        assert!(c.as_ref().nlimbs() == 2 && boxed_u128(c.as_ref()) == y);
    }

    /// Modulus accessors hand back the odd value they were given: ConstMontyParams::MODULUS (impl_modulus!, be hex),
    /// MontyParams::from_const_params(..).modulus(), at two literal moduli (U64: 2^64-2^32+1, U128: 2^66-15).
    #[kani::unwind(4)]
    fn c12_modulus_accessors_literal(s) {
        let m64 = <C12Mod64 as ConstMontyParams<1>>::MODULUS;
        let m128 = <C12Mod128 as ConstMontyParams<2>>::MODULUS;
        assert!(u64_of(m64.as_ref()) == 0xffffffff00000001);
        assert!(u128_of(m128.as_ref()) == (1u128 << 66) - 15);
        let p = MontyParams::<1>::from_const_params::<C12Mod64>();
        assert!(u64_of(p.modulus().as_ref()) == 0xffffffff00000001);
        let p = MontyParams::<2>::from_const_params::<C12Mod128>();
        assert!(u128_of(p.modulus().as_ref()) == (1u128 << 66) - 15 && bool::from(p.modulus().as_ref().is_odd()));
    }
}
