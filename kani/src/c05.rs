//! C05: shifts and bit queries agree with the binary expansion for every shift amount / bit index.
//!
//! Widths: Limb, U64, U128 (quick), U192 (thorough), I64, I128, BoxedUint of 1 and 2 limbs. The value, the shift
//! amount (`u32`, fully symbolic: 0, 63, 64, BITS-1, BITS, 2*BITS+1, u32::MAX are all inside) and the bit index are
//! symbolic. Oracle: native `<<`, `>>` (logical on u64/u128, arithmetic on i64/i128), `leading_zeros` ... of
//! u64/u128; for U192 and the 256-bit wide shifts "bit i of the result is bit i-s / i+s of the input" at one
//! symbolic index i (= all indices).
//! Out-of-range conventions asserted (from the inherent rustdoc and the property statement):
//! shl/shr/operators panic iff shift >= BITS; overflowing_* is none iff shift >= BITS (the `_wide` forms: iff
//! shift >= 2*BITS); wrapping_* of Uint/Int/BoxedUint then return zero (Int >>: the sign fill). `Limb`'s
//! WrappingShl/WrappingShr mask the shift (num_traits convention) - asserted as such, see the report.
use crate::*;
use crate::util::*;
use crypto_bigint::*;
use subtle::{Choice, CtOption};

#[cfg(kani)]
fn no_return() { unsafe { let _ = 255u8.unchecked_add(1); } }
#[cfg(not(kani))]
fn no_return() { crate::src::missed_panic(); }

fn wbit(w: &[u64], i: u32) -> bool { (w[(i / 64) as usize] >> (i % 64)) & 1 == 1 }
fn mk192p(lo: u128, hi: u64) -> U192 { U192::from_words([lo as u64, (lo >> 64) as u64, hi]) }
fn i64_of(x: &I64) -> i64 { x.as_words()[0] as i64 }
fn i128_of(x: &I128) -> i128 { let w = x.as_words(); (w[0] as u128 | ((w[1] as u128) << 64)) as i128 }
fn mki64(a: i64) -> I64 { I64::from_words([a as u64]) }
fn mki128(a: i128) -> I128 { I128::from_words([a as u128 as u64, ((a as u128) >> 64) as u64]) }

// ------------------------------------------------------------------------------------------ Uint shifts
/// every non-panicking left-shift route; `good(r)` decides an in-range result, out of range the result is zero / none
fn uint_shl_np<const L: usize, F: Fn(&Uint<L>) -> bool>(x: Uint<L>, s: u32, good: F) {
    let ok = s < Uint::<L>::BITS;
    let chk = |r: &Uint<L>| if ok { good(r) } else { *r == Uint::<L>::ZERO };
    let chko = |o: Option<Uint<L>>| match o { Some(r) => ok && good(&r), None => !ok };
    assert!(chko(x.overflowing_shl(s).into()));
    assert!(chko(x.overflowing_shl_vartime(s).into()));
    assert!(chko(Option::from(ShlVartime::overflowing_shl_vartime(&x, s))));
    assert!(chk(&x.wrapping_shl(s)));
    assert!(chk(&x.wrapping_shl_vartime(s)));
    assert!(chk(&WrappingShl::wrapping_shl(&x, s)));
    assert!(chk(&ShlVartime::wrapping_shl_vartime(&x, s)));
    assert!(chk(&(Wrapping(x) << s).0));
    assert!(chk(&(&Wrapping(x) << s).0));
}
fn uint_shr_np<const L: usize, F: Fn(&Uint<L>) -> bool>(x: Uint<L>, s: u32, good: F) {
    let ok = s < Uint::<L>::BITS;
    let chk = |r: &Uint<L>| if ok { good(r) } else { *r == Uint::<L>::ZERO };
    let chko = |o: Option<Uint<L>>| match o { Some(r) => ok && good(&r), None => !ok };
    assert!(chko(x.overflowing_shr(s).into()));
    assert!(chko(x.overflowing_shr_vartime(s).into()));
    assert!(chko(Option::from(ShrVartime::overflowing_shr_vartime(&x, s))));
    assert!(chk(&x.wrapping_shr(s)));
    assert!(chk(&x.wrapping_shr_vartime(s)));
    assert!(chk(&WrappingShr::wrapping_shr(&x, s)));
    assert!(chk(&ShrVartime::wrapping_shr_vartime(&x, s)));
    assert!(chk(&(Wrapping(x) >> s).0));
    assert!(chk(&(&Wrapping(x) >> s).0));
}
/// the panicking left-shift routes: 0 shl, 1 shl_vartime, 2..=4 `x << s` (u32, i32, usize), 5..=7 `&x << s`,
/// 8..=10 `x <<= s`. `s` < 2^31 is required for the i32 routes to denote the same shift.
fn uint_shl_p<const L: usize>(f: u8, x: Uint<L>, s: u32) -> Uint<L> {
    match f {
        0 => x.shl(s), 1 => x.shl_vartime(s),
        2 => x << s, 3 => x << (s as i32), 4 => x << (s as usize),
        5 => &x << s, 6 => &x << (s as i32), 7 => &x << (s as usize),
        8 => { let mut y = x; y <<= s; y } 9 => { let mut y = x; y <<= s as i32; y } _ => { let mut y = x; y <<= s as usize; y }
    }
}
fn uint_shr_p<const L: usize>(f: u8, x: Uint<L>, s: u32) -> Uint<L> {
    match f {
        0 => x.shr(s), 1 => x.shr_vartime(s),
        2 => x >> s, 3 => x >> (s as i32), 4 => x >> (s as usize),
        5 => &x >> s, 6 => &x >> (s as i32), 7 => &x >> (s as usize),
        8 => { let mut y = x; y >>= s; y } 9 => { let mut y = x; y >>= s as i32; y } _ => { let mut y = x; y >>= s as usize; y }
    }
}
const NF: u8 = 11;
/// routes 3, 6, 9 take an i32: the same shift only below 2^31 (above, the i32 is negative: "invalid shift" panic)
fn i32_route(f: u8) -> bool { f == 3 || f == 6 || f == 9 }

// ------------------------------------------------------------------------------------------ Int shifts
fn int_shl_np<const L: usize, F: Fn(&Int<L>) -> bool>(x: Int<L>, s: u32, good: F) {
    let ok = s < Int::<L>::BITS;
    let chk = |r: &Int<L>| if ok { good(r) } else { *r == Int::<L>::ZERO };
    let chko = |o: Option<Int<L>>| match o { Some(r) => ok && good(&r), None => !ok };
    assert!(chko(x.overflowing_shl(s).into()));
    assert!(chko(x.overflowing_shl_vartime(s).into()));
    assert!(chko(Option::from(ShlVartime::overflowing_shl_vartime(&x, s))));
    assert!(chk(&x.wrapping_shl(s)));
    assert!(chk(&x.wrapping_shl_vartime(s)));
    assert!(chk(&WrappingShl::wrapping_shl(&x, s)));
    assert!(chk(&ShlVartime::wrapping_shl_vartime(&x, s)));
    assert!(chk(&(Wrapping(x) << s).0));
    assert!(chk(&(&Wrapping(x) << s).0));
}
/// arithmetic right shift: out of range the wrapping forms return the sign fill (0 or -1)
fn int_shr_np<const L: usize, F: Fn(&Int<L>) -> bool>(x: Int<L>, s: u32, neg: bool, good: F) {
    let ok = s < Int::<L>::BITS;
    let fill = if neg { Int::<L>::MINUS_ONE } else { Int::<L>::ZERO };
    let chk = |r: &Int<L>| if ok { good(r) } else { *r == fill };
    let chko = |o: Option<Int<L>>| match o { Some(r) => ok && good(&r), None => !ok };
    assert!(chko(x.overflowing_shr(s).into()));
    assert!(chko(x.overflowing_shr_vartime(s).into()));
    assert!(chko(Option::from(ShrVartime::overflowing_shr_vartime(&x, s))));
    assert!(chk(&x.wrapping_shr(s)));
    assert!(chk(&x.wrapping_shr_vartime(s)));
    assert!(chk(&WrappingShr::wrapping_shr(&x, s)));
    assert!(chk(&ShrVartime::wrapping_shr_vartime(&x, s)));
    assert!(chk(&(Wrapping(x) >> s).0));
    assert!(chk(&(&Wrapping(x) >> s).0));
}
fn int_shl_p<const L: usize>(f: u8, x: Int<L>, s: u32) -> Int<L> {
    match f {
        0 => x.shl(s), 1 => x.shl_vartime(s),
        2 => x << s, 3 => x << (s as i32), 4 => x << (s as usize),
        5 => &x << s, 6 => &x << (s as i32), 7 => &x << (s as usize),
        8 => { let mut y = x; y <<= s; y } 9 => { let mut y = x; y <<= s as i32; y } _ => { let mut y = x; y <<= s as usize; y }
    }
}
fn int_shr_p<const L: usize>(f: u8, x: Int<L>, s: u32) -> Int<L> {
    match f {
        0 => x.shr(s), 1 => x.shr_vartime(s),
        2 => x >> s, 3 => x >> (s as i32), 4 => x >> (s as usize),
        5 => &x >> s, 6 => &x >> (s as i32), 7 => &x >> (s as usize),
        8 => { let mut y = x; y >>= s; y } 9 => { let mut y = x; y >>= s as i32; y } _ => { let mut y = x; y >>= s as usize; y }
    }
}

// ------------------------------------------------------------------------------------------ bit queries
/// every bit-query route on `Uint<L>`; expected values come from the caller's native arithmetic:
/// lz / tz / to = leading zeros, trailing zeros, trailing ones of the BITS-wide value; bit_i = bit `i` (false if
/// i >= BITS); `set` = x with bit i forced to `bv` (x itself if i >= BITS)
fn uint_bit_queries<const L: usize>(x: Uint<L>, i: u32, bv: bool, lz: u32, tz: u32, to: u32, bit_i: bool, set: Uint<L>) {
    let bits = Uint::<L>::BITS;
    assert!(x.leading_zeros() == lz && x.leading_zeros_vartime() == lz);
    assert!(BitOps::leading_zeros(&x) == lz && BitOps::leading_zeros_vartime(&x) == lz);
    assert!(x.bits() == bits - lz && x.bits_vartime() == bits - lz);
    assert!(BitOps::bits(&x) == bits - lz && BitOps::bits_vartime(&x) == bits - lz);
    assert!(x.trailing_zeros() == tz && x.trailing_zeros_vartime() == tz);
    assert!(BitOps::trailing_zeros(&x) == tz && BitOps::trailing_zeros_vartime(&x) == tz);
    assert!(x.trailing_ones() == to && x.trailing_ones_vartime() == to);
    assert!(BitOps::trailing_ones(&x) == to && BitOps::trailing_ones_vartime(&x) == to);
    assert!(bool::from(x.bit(i)) == bit_i && x.bit_vartime(i) == bit_i);
    assert!(bool::from(BitOps::bit(&x, i)) == bit_i && BitOps::bit_vartime(&x, i) == bit_i);
    let mut y = x; BitOps::set_bit(&mut y, i, Choice::from(bv as u8)); assert!(y == set);
    if i < bits { let mut y = x; BitOps::set_bit_vartime(&mut y, i, bv); assert!(y == set); }
    assert!(BitOps::bits_precision(&x) == bits && BitOps::bytes_precision(&x) == (bits / 8) as usize);
    assert!(1u32 << BitOps::log2_bits(&x) <= bits && bits < 2u32 << BitOps::log2_bits(&x));
}
/// `& | ^ !` on T = Uint / Int: inherent, the four value/reference operator combinations, the two assigning
/// forms, and the same on `Wrapping<T>`; `$and/$or/$xor/$not` are the expected values
macro_rules! bitop_forms {
    ($T:ty, $a:expr, $b:expr, $and:expr, $or:expr, $xor:expr, $not:expr) => {{
        let (a, b): ($T, $T) = ($a, $b);
        let (and, or, xor, not): ($T, $T, $T, $T) = ($and, $or, $xor, $not);
        assert!(a.bitand(&b) == and && (a & b) == and && (a & &b) == and && (&a & b) == and && (&a & &b) == and);
        assert!(a.bitor(&b) == or && (a | b) == or && (a | &b) == or && (&a | b) == or && (&a | &b) == or);
        assert!(a.bitxor(&b) == xor && (a ^ b) == xor && (a ^ &b) == xor && (&a ^ b) == xor && (&a ^ &b) == xor);
        assert!(a.not() == not && (!a) == not);
        let mut y = a; y &= b; assert!(y == and); let mut y = a; y &= &b; assert!(y == and);
        let mut y = a; y |= b; assert!(y == or);  let mut y = a; y |= &b; assert!(y == or);
        let mut y = a; y ^= b; assert!(y == xor); let mut y = a; y ^= &b; assert!(y == xor);
        let (wa, wb) = (Wrapping(a), Wrapping(b));
        assert!((wa & wb).0 == and && (wa & &wb).0 == and && (&wa & wb).0 == and && (&wa & &wb).0 == and);
        assert!((wa | wb).0 == or && (wa | &wb).0 == or && (&wa | wb).0 == or && (&wa | &wb).0 == or);
        assert!((wa ^ wb).0 == xor && (wa ^ &wb).0 == xor && (&wa ^ wb).0 == xor && (&wa ^ &wb).0 == xor);
        assert!((!wa).0 == not);
        let mut y = wa; y &= wb; assert!(y.0 == and); let mut y = wa; y &= &wb; assert!(y.0 == and);
        let mut y = wa; y |= wb; assert!(y.0 == or);  let mut y = wa; y |= &wb; assert!(y.0 == or);
        let mut y = wa; y ^= wb; assert!(y.0 == xor); let mut y = wa; y ^= &wb; assert!(y.0 == xor);
    }};
}

// ------------------------------------------------------------------------------------------ BoxedUint
fn bx(n: usize, v: u128) -> BoxedUint {
    if n == 1 { BoxedUint::from_words([v as u64]) } else { BoxedUint::from_words([v as u64, (v >> 64) as u64]) }
}
fn bmask(n: usize) -> u128 { if n == 1 { u64::MAX as u128 } else { u128::MAX } }
fn bx_is(x: &BoxedUint, n: usize, v: u128) -> bool {
    if x.nlimbs() != n || x.bits_precision() != 64 * n as u32 { return false; }
    let w = x.as_words();
    if w[0] != v as u64 { return false; }
    if n == 2 { w[1] == (v >> 64) as u64 } else { (v >> 64) == 0 }
}
/// x << s on an n-limb value for s < 64n
fn ref_shl(n: usize, v: u128, s: u32) -> u128 { (v << s) & bmask(n) }
/// non-panicking boxed shift routes (left if `left`), precision n limbs; part 0: overflowing_* (+ _assign),
/// part 1: wrapping_* (constant time), part 2: wrapping_*_vartime, *_vartime
fn boxed_shift_np<S: Src>(s_: &mut S, n: usize, left: bool, part: u8) {
    let v = s_.u128() & bmask(n); let s = s_.u32();
    let p = 64 * n as u32;
    let ok = s < p;
    let exp = if !ok { 0 } else if left { ref_shl(n, v, s) } else { v >> s };
    let x = bx(n, v);
    match (left, part) {
        (true, 0) => {
            let (r, o) = x.overflowing_shl(s); assert!(bx_is(&r, n, exp) && bool::from(o) == !ok);
            let mut y = x.clone(); let o = y.overflowing_shl_assign(s); assert!(bx_is(&y, n, exp) && bool::from(o) == !ok);
        }
        (true, 1) => { assert!(bx_is(&x.wrapping_shl(s), n, exp)); }
        (false, 1) => { assert!(bx_is(&x.wrapping_shr(s), n, exp)); }
        (true, _) => {
            assert!(bx_is(&x.wrapping_shl_vartime(s), n, exp));
            match x.shl_vartime(s) { Some(r) => assert!(ok && bx_is(&r, n, exp)), None => assert!(!ok) }
        }
        (false, 0) => {
            let (r, o) = x.overflowing_shr(s); assert!(bx_is(&r, n, exp) && bool::from(o) == !ok);
            let mut y = x.clone(); let o = y.overflowing_shr_assign(s); assert!(bx_is(&y, n, exp) && bool::from(o) == !ok);
        }
        (false, _) => {
            assert!(bx_is(&x.wrapping_shr_vartime(s), n, exp));
            match x.shr_vartime(s) { Some(r) => assert!(ok && bx_is(&r, n, exp)), None => assert!(!ok) }
        }
    }
}
/// trait routes; part 0: ShlVartime / ShrVartime, part 1: WrappingShl / WrappingShr and `Wrapping<BoxedUint> << / >>`
fn boxed_shift_traits<S: Src>(s_: &mut S, n: usize, left: bool, part: u8) {
    let v = s_.u128() & bmask(n); let s = s_.u32();
    let p = 64 * n as u32;
    let ok = s < p;
    let exp = if !ok { 0 } else if left { ref_shl(n, v, s) } else { v >> s };
    let x = bx(n, v);
    match (left, part) {
        (true, 0) => {
            match Option::<BoxedUint>::from(ShlVartime::overflowing_shl_vartime(&x, s)) { Some(r) => assert!(ok && bx_is(&r, n, exp)), None => assert!(!ok) }
            assert!(bx_is(&ShlVartime::wrapping_shl_vartime(&x, s), n, exp));
        }
        (true, _) => {
            assert!(bx_is(&WrappingShl::wrapping_shl(&x, s), n, exp));
            assert!(bx_is(&(&Wrapping(x.clone()) << s).0, n, exp));
            assert!(bx_is(&(Wrapping(x) << s).0, n, exp));
        }
        (false, 0) => {
            match Option::<BoxedUint>::from(ShrVartime::overflowing_shr_vartime(&x, s)) { Some(r) => assert!(ok && bx_is(&r, n, exp)), None => assert!(!ok) }
            assert!(bx_is(&ShrVartime::wrapping_shr_vartime(&x, s), n, exp));
        }
        (false, _) => {
            assert!(bx_is(&WrappingShr::wrapping_shr(&x, s), n, exp));
            assert!(bx_is(&(&Wrapping(x.clone()) >> s).0, n, exp));
            assert!(bx_is(&(Wrapping(x) >> s).0, n, exp));
        }
    }
}
/// panicking boxed routes: 0 shl, 1 shl_assign, 2..=4 `x << s` (u32, i32, usize), 5..=7 `&x << s`, 8..=10 `x <<= s`
fn boxed_shl_p(f: u8, x: &BoxedUint, s: u32) -> BoxedUint {
    match f {
        0 => x.shl(s), 1 => { let mut y = x.clone(); y.shl_assign(s); y }
        2 => x.clone() << s, 3 => x.clone() << (s as i32), 4 => x.clone() << (s as usize),
        5 => x << s, 6 => x << (s as i32), 7 => x << (s as usize),
        8 => { let mut y = x.clone(); y <<= s; y } 9 => { let mut y = x.clone(); y <<= s as i32; y } _ => { let mut y = x.clone(); y <<= s as usize; y }
    }
}
fn boxed_shr_p(f: u8, x: &BoxedUint, s: u32) -> BoxedUint {
    match f {
        0 => x.shr(s), 1 => { let mut y = x.clone(); y.shr_assign(s); y }
        2 => x.clone() >> s, 3 => x.clone() >> (s as i32), 4 => x.clone() >> (s as usize),
        5 => x >> s, 6 => x >> (s as i32), 7 => x >> (s as usize),
        8 => { let mut y = x.clone(); y >>= s; y } 9 => { let mut y = x.clone(); y >>= s as i32; y } _ => { let mut y = x.clone(); y >>= s as usize; y }
    }
}
/// routes f in [f_lo, f_hi), iterated with a concrete f (a symbolic f makes CBMC execute all 11 arms)
fn boxed_shift_ops_ok<S: Src>(s_: &mut S, n: usize, left: bool, f_lo: u8, f_hi: u8) {
    let v = s_.u128() & bmask(n); let s = s_.u32();
    s_.assume(s < 64 * n as u32); s_.cover(true);
    let x = bx(n, v);
    let mut f = f_lo;
    while f < f_hi {
        if left { assert!(bx_is(&boxed_shl_p(f, &x, s), n, ref_shl(n, v, s))); }
        else { assert!(bx_is(&boxed_shr_p(f, &x, s), n, v >> s)); }
        f += 1;
    }
}
/// every route in [f_lo, f_hi) panics for every shift >= precision (route chosen by the symbolic `sel`)
fn boxed_shift_ops_panic<S: Src>(s_: &mut S, n: usize, left: bool, f_lo: u8, f_hi: u8) {
    let v = s_.u128() & bmask(n); let s = s_.u32(); let sel = s_.u8();
    s_.assume(s >= 64 * n as u32 && f_lo <= sel && sel < f_hi);
    let x = bx(n, v);
    let mut f = f_lo;
    while f < f_hi {
        if sel == f {
            let _ = if left { boxed_shl_p(f, &x, s) } else { boxed_shr_p(f, &x, s) };
            no_return();
        }
        f += 1;
    }
}
fn boxed_bit_queries<S: Src>(s_: &mut S, n: usize) {
    let v = s_.u128() & bmask(n); let i = s_.u32(); let bv = s_.bool();
    let p = 64 * n as u32;
    let x = bx(n, v);
    let (lz, tz, to) = if n == 1 { ((v as u64).leading_zeros(), (v as u64).trailing_zeros(), (v as u64).trailing_ones()) }
                       else { (v.leading_zeros(), v.trailing_zeros(), v.trailing_ones()) };
    let bit_i = i < p && (v >> i) & 1 == 1;
    let set = if i >= p { v } else if bv { v | (1u128 << i) } else { v & !(1u128 << i) };
    assert!(x.leading_zeros() == lz && BitOps::leading_zeros(&x) == lz && BitOps::leading_zeros_vartime(&x) == lz);
    assert!(x.bits() == p - lz && x.bits_vartime() == p - lz && BitOps::bits(&x) == p - lz && BitOps::bits_vartime(&x) == p - lz);
    assert!(x.trailing_zeros() == tz && x.trailing_zeros_vartime() == tz);
    assert!(BitOps::trailing_zeros(&x) == tz && BitOps::trailing_zeros_vartime(&x) == tz);
    assert!(x.trailing_ones() == to && x.trailing_ones_vartime() == to);
    assert!(BitOps::trailing_ones(&x) == to && BitOps::trailing_ones_vartime(&x) == to);
    assert!(bool::from(x.bit(i)) == bit_i && x.bit_vartime(i) == bit_i);
    assert!(bool::from(BitOps::bit(&x, i)) == bit_i && BitOps::bit_vartime(&x, i) == bit_i);
    let mut y = x.clone(); BitOps::set_bit(&mut y, i, Choice::from(bv as u8)); assert!(bx_is(&y, n, set));
    if i < p { let mut y = x.clone(); BitOps::set_bit_vartime(&mut y, i, bv); assert!(bx_is(&y, n, set)); }
    assert!(x.bits_precision() == p && BitOps::bits_precision(&x) == p && BitOps::bytes_precision(&x) == 8 * n);
    assert!(BitOps::log2_bits(&x) == if n == 1 { 6 } else { 7 });
}
/// `& | ^ !` on BoxedUint of precisions (la, lb): result precision = widest operand, narrower operand zero-extended
fn boxed_bitops<S: Src>(s_: &mut S, la: usize, lb: usize) {
    let a = s_.u128() & bmask(la); let b = s_.u128() & bmask(lb); let f = s_.u8(); s_.assume(f < 5);
    let n = if la > lb { la } else { lb };
    let (x, y) = (bx(la, a), bx(lb, b));
    let r = match f { 0 => x.bitand(&y), 1 => x.clone() & y.clone(), 2 => x.clone() & &y, 3 => &x & y.clone(), _ => &x & &y };
    assert!(bx_is(&r, n, a & b));
    let r = match f { 0 => x.bitor(&y), 1 => x.clone() | y.clone(), 2 => x.clone() | &y, 3 => &x | y.clone(), _ => &x | &y };
    assert!(bx_is(&r, n, a | b));
    let r = match f { 0 => x.bitxor(&y), 1 => x.clone() ^ y.clone(), 2 => x.clone() ^ &y, 3 => &x ^ y.clone(), _ => &x ^ &y };
    assert!(bx_is(&r, n, a ^ b));
    assert!(bx_is(&x.not(), la, !a & bmask(la)));
    assert!(bx_is(&!x.clone(), la, !a & bmask(la)));
    assert!(bx_is(&(!Wrapping(x)).0, la, !a & bmask(la)));
}

harnesses! {
    // ------------------------------------------------------------------ Limb
    /// Limb shl/shr and `<< >> <<= >>=` (u32, i32, usize; value and reference) for shift < 64;
    /// WrappingShl/WrappingShr for every u32 (shift masked to 6 bits: num_traits convention)
    fn c05_limb_shift_ok(s) {
        let (a, sh) = (s.u64(), s.u32());
        let l = Limb(a);
        assert!(WrappingShl::wrapping_shl(&l, sh).0 == a << (sh % 64));
        assert!(WrappingShr::wrapping_shr(&l, sh).0 == a >> (sh % 64));
        assert!((Wrapping(l) << sh).0.0 == a << (sh % 64));
        assert!((Wrapping(l) >> sh).0.0 == a >> (sh % 64));
        if sh < 64 {
            assert!(l.shl(sh).0 == a << sh && l.shr(sh).0 == a >> sh);
            assert!((l << sh).0 == a << sh && (l << sh as i32).0 == a << sh && (l << sh as usize).0 == a << sh);
            assert!((&l << sh).0 == a << sh && (&l << sh as i32).0 == a << sh && (&l << sh as usize).0 == a << sh);
            assert!((l >> sh).0 == a >> sh && (l >> sh as i32).0 == a >> sh && (l >> sh as usize).0 == a >> sh);
            assert!((&l >> sh).0 == a >> sh && (&l >> sh as i32).0 == a >> sh && (&l >> sh as usize).0 == a >> sh);
            let mut y = l; y <<= sh; assert!(y.0 == a << sh);
            let mut y = l; y <<= sh as i32; assert!(y.0 == a << sh);
            let mut y = l; y <<= sh as usize; assert!(y.0 == a << sh);
            let mut y = l; y >>= sh; assert!(y.0 == a >> sh);
            let mut y = l; y >>= sh as i32; assert!(y.0 == a >> sh);
            let mut y = l; y >>= sh as usize; assert!(y.0 == a >> sh);
        }
    }
    /// Limb shl/shr and all operator routes panic for every shift >= 64 (overflow check of the word shift; this is
    /// the debug-build behaviour Kani models) and for negative i32 / usize above u32::MAX ("invalid shift")
    #[kani::should_panic]
    fn c05_limb_shift_panic(s) {
        let (a, sh, f) = (s.u64(), s.u32(), s.u8());
        s.assume(sh >= 64 && f < 16);
        let l = Limb(a);
        let mut y = l;
        match f {
            0 => { let _ = l.shl(sh); } 1 => { let _ = l.shr(sh); }
            2 => { let _ = l << sh; } 3 => { let _ = l << sh as i32; } 4 => { let _ = l << sh as usize; }
            5 => { let _ = &l << sh; } 6 => { let _ = l >> sh; } 7 => { let _ = l >> sh as i32; }
            8 => { let _ = l >> sh as usize; } 9 => { let _ = &l >> sh; }
            10 => { y <<= sh; } 11 => { y >>= sh; } 12 => { y <<= sh as i32; } 13 => { y >>= sh as usize; }
            14 => { let _ = l << ((sh as usize) << 32); } _ => { let _ = l >> ((sh as usize) << 32); }
        }
        no_return();
    }
    /// Limb bits / leading_zeros / trailing_zeros / trailing_ones and `& | ^ !` (value and assigning forms)
    fn c05_limb_bits_bitops(s) {
        let (a, b) = (s.u64(), s.u64());
        let (l, m) = (Limb(a), Limb(b));
        assert!(l.leading_zeros() == a.leading_zeros() && l.bits() == 64 - a.leading_zeros());
        assert!(l.trailing_zeros() == a.trailing_zeros() && l.trailing_ones() == a.trailing_ones());
        assert!((l & m).0 == a & b && (l | m).0 == a | b && (l ^ m).0 == a ^ b && (!l).0 == !a);
        assert!(l.bitand(m).0 == a & b && l.bitor(m).0 == a | b && l.bitxor(m).0 == a ^ b && l.not().0 == !a);
        let mut y = l; y &= m; assert!(y.0 == a & b); let mut y = l; y &= &m; assert!(y.0 == a & b);
        let mut y = l; y |= m; assert!(y.0 == a | b); let mut y = l; y |= &m; assert!(y.0 == a | b);
        let mut y = l; y ^= m; assert!(y.0 == a ^ b);
    }

    // ------------------------------------------------------------------ U64
    #[kani::unwind(10)]
    fn c05_u64_shl_np(s) { let (a, sh) = (s.u64(), s.u32()); uint_shl_np(mk64(a), sh, |r| u64_of(r) == a << sh); }
    #[kani::unwind(10)]
    fn c05_u64_shr_np(s) { let (a, sh) = (s.u64(), s.u32()); uint_shr_np(mk64(a), sh, |r| u64_of(r) == a >> sh); }
    /// shl / shl_vartime / `<< <<=` with u32, i32, usize on value and reference: exact for shift < 64
    #[kani::unwind(10)]
    fn c05_u64_shl_ops_ok(s) {
        let (a, sh, f) = (s.u64(), s.u32(), s.u8()); s.assume(sh < 64 && f < NF); s.cover(true);
        assert!(u64_of(&uint_shl_p(f, mk64(a), sh)) == a << sh);
    }
    #[kani::unwind(10)]
    fn c05_u64_shr_ops_ok(s) {
        let (a, sh, f) = (s.u64(), s.u32(), s.u8()); s.assume(sh < 64 && f < NF); s.cover(true);
        assert!(u64_of(&uint_shr_p(f, mk64(a), sh)) == a >> sh);
    }
    /// ... and every route panics for every shift >= 64 (i32 routes: also for the negative reinterpretation)
    #[kani::should_panic] #[kani::unwind(10)]
    fn c05_u64_shl_ops_panic(s) {
        let (a, sh, f) = (s.u64(), s.u32(), s.u8()); s.assume(sh >= 64 && f < NF);
        let _ = uint_shl_p(f, mk64(a), sh); no_return();
    }
    #[kani::should_panic] #[kani::unwind(10)]
    fn c05_u64_shr_ops_panic(s) {
        let (a, sh, f) = (s.u64(), s.u32(), s.u8()); s.assume(sh >= 64 && f < NF);
        let _ = uint_shr_p(f, mk64(a), sh); no_return();
    }
    /// usize shifts above u32::MAX are rejected ("invalid shift") whatever their low 32 bits
    #[kani::should_panic] #[kani::unwind(10)]
    fn c05_u64_shift_usize_invalid_panic(s) {
        let (a, sh, left) = (s.u64(), s.usize(), s.bool()); s.assume(sh > u32::MAX as usize);
        let _ = if left { mk64(a) << sh } else { mk64(a) >> sh }; no_return();
    }
    /// double-width shifts of (lo, hi): none iff shift >= 128, else the 128-bit shift
    #[kani::unwind(10)]
    fn c05_u64_wide(s) {
        let (v, sh) = (s.u128(), s.u32());
        let (lo, hi) = (mk64(v as u64), mk64((v >> 64) as u64));
        match Option::<(U64, U64)>::from(U64::overflowing_shl_vartime_wide((lo, hi), sh)) {
            Some((l, h)) => { assert!(sh < 128); assert!((u64_of(&l) as u128 | ((u64_of(&h) as u128) << 64)) == v << sh); }
            None => assert!(sh >= 128),
        }
        match Option::<(U64, U64)>::from(U64::overflowing_shr_vartime_wide((lo, hi), sh)) {
            Some((l, h)) => { assert!(sh < 128); assert!((u64_of(&l) as u128 | ((u64_of(&h) as u128) << 64)) == v >> sh); }
            None => assert!(sh >= 128),
        }
    }
    fn c05_u64_bit_queries(s) {
        let (a, i, bv) = (s.u64(), s.u32(), s.bool());
        let bit_i = i < 64 && (a >> i) & 1 == 1;
        let set = if i >= 64 { a } else if bv { a | (1u64 << i) } else { a & !(1u64 << i) };
        uint_bit_queries(mk64(a), i, bv, a.leading_zeros(), a.trailing_zeros(), a.trailing_ones(), bit_i, mk64(set));
    }
    fn c05_u64_bitops(s) {
        let (a, b) = (s.u64(), s.u64());
        bitop_forms!(U64, mk64(a), mk64(b), mk64(a & b), mk64(a | b), mk64(a ^ b), mk64(!a));
    }

    // ------------------------------------------------------------------ U128
    #[kani::unwind(10)]
    fn c05_u128_shl_np(s) { let (a, sh) = (s.u128(), s.u32()); uint_shl_np(mk128(a), sh, |r| u128_of(r) == a << sh); }
    #[kani::unwind(10)]
    fn c05_u128_shr_np(s) { let (a, sh) = (s.u128(), s.u32()); uint_shr_np(mk128(a), sh, |r| u128_of(r) == a >> sh); }
    #[kani::unwind(10)]
    fn c05_u128_shl_ops_ok(s) {
        let (a, sh, f) = (s.u128(), s.u32(), s.u8()); s.assume(sh < 128 && f < NF); s.cover(true);
        assert!(u128_of(&uint_shl_p(f, mk128(a), sh)) == a << sh);
    }
    #[kani::unwind(10)]
    fn c05_u128_shr_ops_ok(s) {
        let (a, sh, f) = (s.u128(), s.u32(), s.u8()); s.assume(sh < 128 && f < NF); s.cover(true);
        assert!(u128_of(&uint_shr_p(f, mk128(a), sh)) == a >> sh);
    }
    #[kani::should_panic] #[kani::unwind(10)]
    fn c05_u128_shl_ops_panic(s) {
        let (a, sh, f) = (s.u128(), s.u32(), s.u8()); s.assume(sh >= 128 && f < NF);
        let _ = uint_shl_p(f, mk128(a), sh); no_return();
    }
    #[kani::should_panic] #[kani::unwind(10)]
    fn c05_u128_shr_ops_panic(s) {
        let (a, sh, f) = (s.u128(), s.u32(), s.u8()); s.assume(sh >= 128 && f < NF);
        let _ = uint_shr_p(f, mk128(a), sh); no_return();
    }
    /// 256-bit shifts of (lo, hi): none iff shift >= 256; bit i of the result = bit i -/+ shift of the input (i symbolic)
    #[kani::unwind(10)]
    fn c05_u128_wide_shl(s) {
        let w: [u64; 4] = s.words(); let (sh, i) = (s.u32(), s.u32()); s.assume(i < 256);
        let (lo, hi) = (U128::from_words([w[0], w[1]]), U128::from_words([w[2], w[3]]));
        match Option::<(U128, U128)>::from(U128::overflowing_shl_vartime_wide((lo, hi), sh)) {
            Some((l, h)) => {
                assert!(sh < 256);
                let r = [l.as_words()[0], l.as_words()[1], h.as_words()[0], h.as_words()[1]];
                assert!(wbit(&r, i) == (i >= sh && wbit(&w, i - sh)));
            }
            None => assert!(sh >= 256),
        }
    }
    #[kani::unwind(10)]
    fn c05_u128_wide_shr(s) {
        let w: [u64; 4] = s.words(); let (sh, i) = (s.u32(), s.u32()); s.assume(i < 256);
        let (lo, hi) = (U128::from_words([w[0], w[1]]), U128::from_words([w[2], w[3]]));
        match Option::<(U128, U128)>::from(U128::overflowing_shr_vartime_wide((lo, hi), sh)) {
            Some((l, h)) => {
                assert!(sh < 256);
                let r = [l.as_words()[0], l.as_words()[1], h.as_words()[0], h.as_words()[1]];
                assert!(wbit(&r, i) == (sh < 256 - i && wbit(&w, i + sh)));
            }
            None => assert!(sh >= 256),
        }
    }
    fn c05_u128_bit_queries(s) {
        let (a, i, bv) = (s.u128(), s.u32(), s.bool());
        let bit_i = i < 128 && (a >> i) & 1 == 1;
        let set = if i >= 128 { a } else if bv { a | (1u128 << i) } else { a & !(1u128 << i) };
        uint_bit_queries(mk128(a), i, bv, a.leading_zeros(), a.trailing_zeros(), a.trailing_ones(), bit_i, mk128(set));
    }
    fn c05_u128_bitops(s) {
        let (a, b) = (s.u128(), s.u128());
        bitop_forms!(U128, mk128(a), mk128(b), mk128(a & b), mk128(a | b), mk128(a ^ b), mk128(!a));
    }

    // ------------------------------------------------------------------ U192 (thorough; 3 limbs: not a power of two)
    #[kani::unwind(12)]
    fn c05t_u192_shl_np(s) {
        let w: [u64; 3] = s.words(); let (sh, i) = (s.u32(), s.u32()); s.assume(i < 192);
        uint_shl_np(mk192(w), sh, |r| wbit(r.as_words(), i) == (i >= sh && wbit(&w, i - sh)));
    }
    #[kani::unwind(12)]
    fn c05t_u192_shr_np(s) {
        let w: [u64; 3] = s.words(); let (sh, i) = (s.u32(), s.u32()); s.assume(i < 192);
        uint_shr_np(mk192(w), sh, |r| wbit(r.as_words(), i) == (sh < 192 - i && wbit(&w, i + sh)));
    }
    #[kani::unwind(12)]
    fn c05t_u192_shift_ops_ok(s) {
        let w: [u64; 3] = s.words(); let (sh, i, f) = (s.u32(), s.u32(), s.u8()); s.assume(i < 192 && sh < 192 && f < NF);
        let r = uint_shl_p(f, mk192(w), sh); assert!(wbit(r.as_words(), i) == (i >= sh && wbit(&w, i - sh)));
        let r = uint_shr_p(f, mk192(w), sh); assert!(wbit(r.as_words(), i) == (sh < 192 - i && wbit(&w, i + sh)));
    }
    #[kani::should_panic] #[kani::unwind(12)]
    fn c05t_u192_shift_ops_panic(s) {
        let w: [u64; 3] = s.words(); let (sh, f, left) = (s.u32(), s.u8(), s.bool()); s.assume(sh >= 192 && f < NF);
        let _ = if left { uint_shl_p(f, mk192(w), sh) } else { uint_shr_p(f, mk192(w), sh) }; no_return();
    }
    fn c05t_u192_bit_queries(s) {
        let (lo, hi, i, bv) = (s.u128(), s.u64(), s.u32(), s.bool());
        let lz = if hi != 0 { hi.leading_zeros() } else { 64 + lo.leading_zeros() };
        let tz = if lo != 0 { lo.trailing_zeros() } else { 128 + hi.trailing_zeros() };
        let to = if lo != u128::MAX { lo.trailing_ones() } else { 128 + hi.trailing_ones() };
        let bit_i = if i < 128 { (lo >> i) & 1 == 1 } else if i < 192 { (hi >> (i - 128)) & 1 == 1 } else { false };
        let (slo, shi) = if i < 128 { (if bv { lo | (1u128 << i) } else { lo & !(1u128 << i) }, hi) }
                         else if i < 192 { (lo, if bv { hi | (1u64 << (i - 128)) } else { hi & !(1u64 << (i - 128)) }) }
                         else { (lo, hi) };
        uint_bit_queries(mk192p(lo, hi), i, bv, lz, tz, to, bit_i, mk192p(slo, shi));
    }

    // ------------------------------------------------------------------ I64 / I128
    #[kani::unwind(10)]
    fn c05_i64_shl_np(s) { let (a, sh) = (s.i64(), s.u32()); int_shl_np(mki64(a), sh, |r| i64_of(r) == a << sh); }
    /// arithmetic right shift vs i64 `>>`; out of range: none / sign fill
    #[kani::unwind(10)]
    fn c05_i64_shr_np(s) { let (a, sh) = (s.i64(), s.u32()); int_shr_np(mki64(a), sh, a < 0, |r| i64_of(r) == a >> sh); }
    #[kani::unwind(10)]
    fn c05_i64_shift_ops_ok(s) {
        let (a, sh, f) = (s.i64(), s.u32(), s.u8()); s.assume(sh < 64 && f < NF); s.cover(true);
        assert!(i64_of(&int_shl_p(f, mki64(a), sh)) == a << sh);
        assert!(i64_of(&int_shr_p(f, mki64(a), sh)) == a >> sh);
    }
    #[kani::should_panic] #[kani::unwind(10)]
    fn c05_i64_shift_ops_panic(s) {
        let (a, sh, f, left) = (s.i64(), s.u32(), s.u8(), s.bool()); s.assume(sh >= 64 && f < NF);
        let _ = if left { int_shl_p(f, mki64(a), sh) } else { int_shr_p(f, mki64(a), sh) }; no_return();
    }
    #[kani::unwind(10)]
    fn c05_i128_shl_np(s) { let (a, sh) = (s.i128(), s.u32()); int_shl_np(mki128(a), sh, |r| i128_of(r) == a << sh); }
    #[kani::unwind(10)]
    fn c05_i128_shr_np(s) { let (a, sh) = (s.i128(), s.u32()); int_shr_np(mki128(a), sh, a < 0, |r| i128_of(r) == a >> sh); }
    #[kani::unwind(10)]
    fn c05_i128_shl_ops_ok(s) {
        let (a, sh, f) = (s.i128(), s.u32(), s.u8()); s.assume(sh < 128 && f < NF); s.cover(true);
        assert!(i128_of(&int_shl_p(f, mki128(a), sh)) == a << sh);
    }
    #[kani::unwind(10)]
    fn c05_i128_shr_ops_ok(s) {
        let (a, sh, f) = (s.i128(), s.u32(), s.u8()); s.assume(sh < 128 && f < NF); s.cover(true);
        assert!(i128_of(&int_shr_p(f, mki128(a), sh)) == a >> sh);
    }
    #[kani::should_panic] #[kani::unwind(10)]
    fn c05_i128_shift_ops_panic(s) {
        let (a, sh, f, left) = (s.i128(), s.u32(), s.u8(), s.bool()); s.assume(sh >= 128 && f < NF);
        let _ = if left { int_shl_p(f, mki128(a), sh) } else { int_shr_p(f, mki128(a), sh) }; no_return();
    }
    fn c05_i128_bitops(s) {
        let (a, b) = (s.i128(), s.i128());
        bitop_forms!(I128, mki128(a), mki128(b), mki128(a & b), mki128(a | b), mki128(a ^ b), mki128(!a));
    }

    // ------------------------------------------------------------------ BoxedUint
    /// shl/shr/shl_assign/shr_assign and `<< >> <<= >>=` (u32, i32, usize; value, reference): 1 limb quick, 2 limbs thorough;
    /// `_a`: routes 0..5 (shl, shl_assign, value << u32/i32/usize), `_b`: routes 5..11 (reference <<, <<=)
    #[kani::unwind(10)] fn c05_boxed_shl_overflowing_1(s) { boxed_shift_np(s, 1, true, 0); }
    #[kani::unwind(10)] fn c05_boxed_shl_wrapping_1(s) { boxed_shift_np(s, 1, true, 1); }
    #[kani::unwind(10)] fn c05_boxed_shl_vartime_1(s) { boxed_shift_np(s, 1, true, 2); }
    #[kani::unwind(10)] fn c05_boxed_shl_trait_vartime_1(s) { boxed_shift_traits(s, 1, true, 0); }
    #[kani::unwind(10)] fn c05_boxed_shl_trait_wrapping_1(s) { boxed_shift_traits(s, 1, true, 1); }
    #[kani::unwind(10)] fn c05_boxed_shl_overflowing_2(s) { boxed_shift_np(s, 2, true, 0); }
    #[kani::unwind(10)] fn c05_boxed_shl_wrapping_2(s) { boxed_shift_np(s, 2, true, 1); }
    #[kani::unwind(10)] fn c05_boxed_shl_vartime_2(s) { boxed_shift_np(s, 2, true, 2); }
    #[kani::unwind(10)] fn c05_boxed_shl_trait_vartime_2(s) { boxed_shift_traits(s, 2, true, 0); }
    #[kani::unwind(10)] fn c05_boxed_shl_trait_wrapping_2(s) { boxed_shift_traits(s, 2, true, 1); }
    #[kani::unwind(10)] fn c05_boxed_shr_overflowing_1(s) { boxed_shift_np(s, 1, false, 0); }
    #[kani::unwind(10)] fn c05_boxed_shr_wrapping_1(s) { boxed_shift_np(s, 1, false, 1); }
    #[kani::unwind(10)] fn c05_boxed_shr_vartime_1(s) { boxed_shift_np(s, 1, false, 2); }
    #[kani::unwind(10)] fn c05_boxed_shr_trait_vartime_1(s) { boxed_shift_traits(s, 1, false, 0); }
    #[kani::unwind(10)] fn c05_boxed_shr_trait_wrapping_1(s) { boxed_shift_traits(s, 1, false, 1); }
    #[kani::unwind(10)] fn c05_boxed_shr_overflowing_2(s) { boxed_shift_np(s, 2, false, 0); }
    #[kani::unwind(10)] fn c05_boxed_shr_wrapping_2(s) { boxed_shift_np(s, 2, false, 1); }
    #[kani::unwind(10)] fn c05_boxed_shr_vartime_2(s) { boxed_shift_np(s, 2, false, 2); }
    #[kani::unwind(10)] fn c05_boxed_shr_trait_vartime_2(s) { boxed_shift_traits(s, 2, false, 0); }
    #[kani::unwind(10)] fn c05_boxed_shr_trait_wrapping_2(s) { boxed_shift_traits(s, 2, false, 1); }
    #[kani::unwind(10)] fn c05_boxed_shl_ops_ok_a_1(s) { boxed_shift_ops_ok(s, 1, true, 0, 5); }
    #[kani::unwind(10)] fn c05_boxed_shl_ops_ok_b_1(s) { boxed_shift_ops_ok(s, 1, true, 5, NF); }
    #[kani::should_panic] #[kani::unwind(10)] fn c05_boxed_shl_ops_panic_a_1(s) { boxed_shift_ops_panic(s, 1, true, 0, 5); }
    #[kani::should_panic] #[kani::unwind(10)] fn c05_boxed_shl_ops_panic_b_1(s) { boxed_shift_ops_panic(s, 1, true, 5, NF); }
    #[kani::unwind(10)] fn c05t_boxed_shl_ops_ok_a_2(s) { boxed_shift_ops_ok(s, 2, true, 0, 5); }
    #[kani::unwind(10)] fn c05t_boxed_shl_ops_ok_b_2(s) { boxed_shift_ops_ok(s, 2, true, 5, NF); }
    #[kani::should_panic] #[kani::unwind(10)] fn c05t_boxed_shl_ops_panic_a_2(s) { boxed_shift_ops_panic(s, 2, true, 0, 5); }
    #[kani::should_panic] #[kani::unwind(10)] fn c05t_boxed_shl_ops_panic_b_2(s) { boxed_shift_ops_panic(s, 2, true, 5, NF); }
    #[kani::unwind(10)] fn c05_boxed_shr_ops_ok_a_1(s) { boxed_shift_ops_ok(s, 1, false, 0, 5); }
    #[kani::unwind(10)] fn c05_boxed_shr_ops_ok_b_1(s) { boxed_shift_ops_ok(s, 1, false, 5, NF); }
    #[kani::should_panic] #[kani::unwind(10)] fn c05_boxed_shr_ops_panic_a_1(s) { boxed_shift_ops_panic(s, 1, false, 0, 5); }
    #[kani::should_panic] #[kani::unwind(10)] fn c05_boxed_shr_ops_panic_b_1(s) { boxed_shift_ops_panic(s, 1, false, 5, NF); }
    #[kani::unwind(10)] fn c05t_boxed_shr_ops_ok_a_2(s) { boxed_shift_ops_ok(s, 2, false, 0, 5); }
    #[kani::unwind(10)] fn c05t_boxed_shr_ops_ok_b_2(s) { boxed_shift_ops_ok(s, 2, false, 5, NF); }
    #[kani::should_panic] #[kani::unwind(10)] fn c05t_boxed_shr_ops_panic_a_2(s) { boxed_shift_ops_panic(s, 2, false, 0, 5); }
    #[kani::should_panic] #[kani::unwind(10)] fn c05t_boxed_shr_ops_panic_b_2(s) { boxed_shift_ops_panic(s, 2, false, 5, NF); }
    fn c05_boxed_bit_queries_1(s) { boxed_bit_queries(s, 1); }
    fn c05_boxed_bit_queries_2(s) { boxed_bit_queries(s, 2); }
    fn c05_boxed_bitops_11(s) { boxed_bitops(s, 1, 1); }
    fn c05_boxed_bitops_12(s) { boxed_bitops(s, 1, 2); }
    fn c05_boxed_bitops_21(s) { boxed_bitops(s, 2, 1); }
    fn c05_boxed_bitops_22(s) { boxed_bitops(s, 2, 2); }
}
