//! C16: byte, hex, word and primitive conversions are lossless, positional and strict.
//! Bounds: Uint<1> (U64) and Uint<2> (U128) in the quick tier, Uint<3> (U192) in the thorough tier, all byte / word
//! values symbolic; Int at I64 <-> I128; BoxedUint::from_{be,le}_slice at the concrete precisions
//! {0,1,7,8,9,63,64,65,127,128} with 0..=min(precision/8 + 2, 18) symbolic input octets (symbolic length).
//! `#[kani::should_panic]` harnesses end in `returned_instead_of_panicking()`, so they prove "panics for every
//! admitted input", not only "can panic".
//! Not covered here: serde (no serializer crate among the dependencies of this crate), Display / LowerHex / UpperHex /
//! Binary (formatting machinery), radix string conversions, BoxedUint::from_be_hex, widths above U192.
//!
//! Reference semantics: the value of a number is carried as its 64-bit words `w` (x = sum w[j] 2^(64 j)) or as a
//! `u128`; "byte k of x" is floor(x / 256^k) mod 256, computed by `le_byte` / `>> (8 k)` (division by a power of 256).
use crate::*;
use crate::util::*;
use alloc::boxed::Box;
use crypto_bigint::hybrid_array::Array;
use crypto_bigint::*;

/// floor(x / 256^k) mod 256 for x = sum w[j] 2^(64 j)
fn le_byte(w: &[u64], k: usize) -> u8 { (w[k / 8] >> (8 * (k % 8))) as u8 }
/// big-endian byte i of the n-byte value x: floor(x / 256^(n-1-i)) mod 256
fn be_byte(w: &[u64], n: usize, i: usize) -> u8 { le_byte(w, n - 1 - i) }

/// value of one hex digit, `None` outside [0-9a-fA-F]
fn hexval(c: u8) -> Option<u8> {
    if c >= b'0' && c <= b'9' { Some(c - b'0') }
    else if c >= b'a' && c <= b'f' { Some(c - b'a' + 10) }
    else if c >= b'A' && c <= b'F' { Some(c - b'A' + 10) }
    else { None }
}
fn all_hex(b: &[u8]) -> bool {
    let mut ok = true;
    let mut i = 0;
    while i < b.len() { ok &= hexval(b[i]).is_some(); i += 1; }
    ok
}
fn all_ascii(b: &[u8]) -> bool {
    let mut ok = true;
    let mut i = 0;
    while i < b.len() { ok &= b[i] < 0x80; i += 1; }
    ok
}
/// byte i (in string order) denoted by the hex string `h`
fn hex_byte(h: &[u8], i: usize) -> u8 { (hexval(h[2 * i]).unwrap() << 4) | hexval(h[2 * i + 1]).unwrap() }

/// Reached only if the call under test *returned* in a `#[kani::should_panic]` harness. Kani accepts such a harness
/// when at least one panic is reachable and every failure is a panic; this adds a failure of another class
/// (null dereference), so that the harness is accepted only if the call panics for **every** admitted input.
/// In the native replay driver the function is a no-op (the driver reports "expected panic did not happen").
fn returned_instead_of_panicking() {
    #[cfg(kani)]
    unsafe {
        let p: *const u8 = core::ptr::null();
        let v = core::ptr::read_volatile(p);
        core::hint::black_box(v);
    }
    #[cfg(not(kani))]
    crate::src::missed_panic();
}

fn i128_of(x: &I128) -> i128 { let w = x.as_words(); (w[0] as u128 | ((w[1] as u128) << 64)) as i128 }

/// `body` once for every listed index, as straight-line code: the BoxedUint harnesses run under a small global
/// `#[kani::unwind]` (see `boxed_slice_case`), so the reference computations must not contain loops.
macro_rules! unrolled {
    ($i:ident in [$($n:expr),*] $body:block) => { $( { let $i: usize = $n; $body } )* };
}
/// 18 input octets, drawn without a loop
fn draw18<S: Src>(s: &mut S) -> [u8; 18] {
    let mut a = [0u8; 18];
    unrolled!(i in [0,1,2,3,4,5,6,7,8,9,10,11,12,13,14,15,16,17] { a[i] = s.u8(); });
    a
}

/// `BoxedUint::from_be_slice` / `from_le_slice` against the rustdoc of src/uint/boxed/encoding.rs:
/// * `Err(InputSize)` iff `len > ceil(precision / 8)`;
/// * otherwise `Err(Precision)` iff the decoded integer needs more than `precision` bits (value >= 2^precision);
/// * otherwise `Ok(v)`, v = positional value of the octets, `v.bits_precision()` = precision rounded up to a multiple
///   of 64 (a `BoxedUint` always has at least one limb, so 64 for precision 0);
/// (`to_be_bytes` / `to_le_bytes` are checked for all values in `c16_boxed_to_*bytes_*`: composing several heap
/// operations in one harness makes the CBMC formula explode, a single decode is 5-10 s.)
/// Requires precision <= 128 and len <= 18.
///
/// CBMC cannot decide the exit of the `zip` loops over the boxed limbs (heap pointers), so without a bound it unwinds
/// them up to the global limit, each iteration with a `copy_from_slice`: the harnesses therefore run with
/// `#[kani::unwind(4)]` (<= 2 limbs => <= 2 iterations; unwinding assertions prove that this suffices) and this
/// function is loop-free.
fn boxed_slice_case<S: Src>(s: &mut S, buf: &[u8; 18], len: usize, precision: u32, be: bool) {
    let bytes = &buf[..len];
    let res = if be { BoxedUint::from_be_slice(bytes, precision) } else { BoxedUint::from_le_slice(bytes, precision) };
    let max_len = (precision as usize + 7) / 8;
    if len > max_len {
        assert!(matches!(res, Err(DecodeError::InputSize)));
        return;
    }
    // positional value; len <= 16 here
    let mut val: u128 = 0;
    unrolled!(i in [0,1,2,3,4,5,6,7,8,9,10,11,12,13,14,15] {
        if i < len {
            let k = if be { len - 1 - i } else { i }; // weight 256^k
            val |= (buf[i] as u128) << (8 * k);
        }
    });
    let too_big = precision < 128 && (val >> precision) != 0;
    if too_big {
        if precision % 8 != 0 { s.cover(true); } // (unreachable when 8 | precision: the length check is then sufficient)
        assert!(matches!(res, Err(DecodeError::Precision)));
        return;
    }
    s.cover(len == max_len);
    let v = match res { Ok(v) => v, Err(_) => { assert!(false, "well-formed input rejected"); return; } };
    let want_limbs: usize = if precision <= 64 { 1 } else { 2 };
    assert!(v.bits_precision() == 64 * want_limbs as u32);
    assert!(v.nlimbs() == want_limbs);
    let w = v.as_words();
    assert!(w[0] == val as u64);
    if want_limbs == 2 { assert!(w[1] == (val >> 64) as u64); } else { assert!(val >> 64 == 0); }
}

harnesses! {
    // ------------------------------------------------------------------ bytes <-> Uint

    /// U64: from_be/le_slice, Encoding::{from,to}_{be,le}_bytes, inherent to_{be,le}_bytes, ArrayEncoding:
    /// positional and mutually inverse, for all 8-octet strings
    fn c16_bytes_u64(s) {
        let b: [u8; 8] = s.bytes();
        let xb = U64::from_be_slice(&b);
        let xl = U64::from_le_slice(&b);
        let wb = xb.to_words();
        let wl = xl.to_words();
        let mut i = 0;
        while i < 8 {
            assert!(b[i] == be_byte(&wb, 8, i));
            assert!(b[i] == le_byte(&wl, i));
            i += 1;
        }
        assert!(<U64 as Encoding>::from_be_bytes(b) == xb);
        assert!(<U64 as Encoding>::from_le_bytes(b) == xl);
        let mut ab = Array::<u8, hybrid_array::typenum::U8>::default();
        ab.copy_from_slice(&b);
        assert!(<U64 as ArrayEncoding>::from_be_byte_array(ab) == xb);
        assert!(<U64 as ArrayEncoding>::from_le_byte_array(ab) == xl);
        assert!(ab.into_uint_be() == xb);
        assert!(ab.into_uint_le() == xl);
        // inverses
        let o1 = xb.to_be_bytes();
        let o2 = <U64 as Encoding>::to_be_bytes(&xb);
        let o3 = xb.to_be_byte_array();
        let p1 = xl.to_le_bytes();
        let p2 = <U64 as Encoding>::to_le_bytes(&xl);
        let p3 = xl.to_le_byte_array();
        let mut i = 0;
        while i < 8 {
            assert!(o1[i] == b[i] && o2[i] == b[i] && o3[i] == b[i]);
            assert!(p1[i] == b[i] && p2[i] == b[i] && p3[i] == b[i]);
            i += 1;
        }
    }

    /// U64, value side: to_be/le_bytes are positional for every value and decode back to it
    fn c16_value_bytes_u64(s) {
        let v = s.u64();
        let x = mk64(v);
        let be = x.to_be_bytes();
        let le = x.to_le_bytes();
        let mut i = 0;
        while i < 8 {
            assert!(be[i] == (v >> (8 * (7 - i))) as u8);
            assert!(le[i] == (v >> (8 * i)) as u8);
            i += 1;
        }
        assert!(u64_of(&U64::from_be_slice(&be)) == v);
        assert!(u64_of(&U64::from_le_slice(&le)) == v);
        assert!(u64_of(&<U64 as Encoding>::from_be_bytes(be)) == v);
        assert!(u64_of(&<U64 as Encoding>::from_le_bytes(le)) == v);
    }

    /// U128: same as c16_bytes_u64 for all 16-octet strings
    fn c16_bytes_u128(s) {
        let b: [u8; 16] = s.bytes();
        let xb = U128::from_be_slice(&b);
        let xl = U128::from_le_slice(&b);
        let wb = xb.to_words();
        let wl = xl.to_words();
        let mut i = 0;
        while i < 16 {
            assert!(b[i] == be_byte(&wb, 16, i));
            assert!(b[i] == le_byte(&wl, i));
            i += 1;
        }
        assert!(<U128 as Encoding>::from_be_bytes(b) == xb);
        assert!(<U128 as Encoding>::from_le_bytes(b) == xl);
        let mut ab = Array::<u8, hybrid_array::typenum::U16>::default();
        ab.copy_from_slice(&b);
        assert!(<U128 as ArrayEncoding>::from_be_byte_array(ab) == xb);
        assert!(<U128 as ArrayEncoding>::from_le_byte_array(ab) == xl);
        let o1 = xb.to_be_bytes();
        let o2 = <U128 as Encoding>::to_be_bytes(&xb);
        let o3 = xb.to_be_byte_array();
        let p1 = xl.to_le_bytes();
        let p2 = <U128 as Encoding>::to_le_bytes(&xl);
        let p3 = xl.to_le_byte_array();
        let mut i = 0;
        while i < 16 {
            assert!(o1[i] == b[i] && o2[i] == b[i] && o3[i] == b[i]);
            assert!(p1[i] == b[i] && p2[i] == b[i] && p3[i] == b[i]);
            i += 1;
        }
    }

    /// U128, value side
    fn c16_value_bytes_u128(s) {
        let v = s.u128();
        let x = mk128(v);
        let be = x.to_be_bytes();
        let le = x.to_le_bytes();
        let mut i = 0;
        while i < 16 {
            assert!(be[i] == (v >> (8 * (15 - i))) as u8);
            assert!(le[i] == (v >> (8 * i)) as u8);
            i += 1;
        }
        assert!(u128_of(&U128::from_be_slice(&be)) == v);
        assert!(u128_of(&U128::from_le_slice(&le)) == v);
    }

    /// U192 (thorough): byte side and value side
    fn c16t_bytes_u192(s) {
        let b: [u8; 24] = s.bytes();
        let xb = U192::from_be_slice(&b);
        let xl = U192::from_le_slice(&b);
        let wb = xb.to_words();
        let wl = xl.to_words();
        let mut i = 0;
        while i < 24 {
            assert!(b[i] == be_byte(&wb, 24, i));
            assert!(b[i] == le_byte(&wl, i));
            i += 1;
        }
        assert!(<U192 as Encoding>::from_be_bytes(b) == xb);
        assert!(<U192 as Encoding>::from_le_bytes(b) == xl);
        let o1 = xb.to_be_bytes();
        let o2 = <U192 as Encoding>::to_be_bytes(&xb);
        let o3 = xb.to_be_byte_array();
        let p1 = xl.to_le_bytes();
        let p2 = <U192 as Encoding>::to_le_bytes(&xl);
        let p3 = xl.to_le_byte_array();
        let mut i = 0;
        while i < 24 {
            assert!(o1[i] == b[i] && o2[i] == b[i] && o3[i] == b[i]);
            assert!(p1[i] == b[i] && p2[i] == b[i] && p3[i] == b[i]);
            i += 1;
        }
        let w: [u64; 3] = s.words();
        let x = mk192(w);
        let be = x.to_be_bytes();
        let le = x.to_le_bytes();
        let mut i = 0;
        while i < 24 {
            assert!(be[i] == be_byte(&w, 24, i));
            assert!(le[i] == le_byte(&w, i));
            i += 1;
        }
        let yb = U192::from_be_slice(&be).to_words();
        let yl = U192::from_le_slice(&le).to_words();
        assert!(yb[0] == w[0] && yb[1] == w[1] && yb[2] == w[2]);
        assert!(yl[0] == w[0] && yl[1] == w[1] && yl[2] == w[2]);
    }

    /// from_be_slice with a slice of any length 0..=10 other than 8 panics (U64)
    #[kani::should_panic]
    fn c16_be_slice_wrong_len_u64(s) {
        let buf: [u8; 10] = s.bytes();
        let len = s.usize();
        s.assume(len <= 10 && len != 8);
        let _ = U64::from_be_slice(&buf[..len]);
        returned_instead_of_panicking();
    }
    /// from_le_slice with a slice of any length 0..=10 other than 8 panics (U64)
    #[kani::should_panic]
    fn c16_le_slice_wrong_len_u64(s) {
        let buf: [u8; 10] = s.bytes();
        let len = s.usize();
        s.assume(len <= 10 && len != 8);
        let _ = U64::from_le_slice(&buf[..len]);
        returned_instead_of_panicking();
    }
    /// from_be_slice with a slice of any length 0..=18 other than 16 panics (U128)
    #[kani::should_panic]
    fn c16_be_slice_wrong_len_u128(s) {
        let buf: [u8; 18] = s.bytes();
        let len = s.usize();
        s.assume(len <= 18 && len != 16);
        let _ = U128::from_be_slice(&buf[..len]);
        returned_instead_of_panicking();
    }
    /// from_le_slice with a slice of any length 0..=18 other than 16 panics (U128)
    #[kani::should_panic]
    fn c16_le_slice_wrong_len_u128(s) {
        let buf: [u8; 18] = s.bytes();
        let len = s.usize();
        s.assume(len <= 18 && len != 16);
        let _ = U128::from_le_slice(&buf[..len]);
        returned_instead_of_panicking();
    }

    // ------------------------------------------------------------------ hex

    /// U64::from_be_hex / from_le_hex / Int::from_be_hex accept every 16-character string over [0-9a-fA-F]
    /// (either case, mixed) and return the positional value
    fn c16_hex_u64_ok(s) {
        let h: [u8; 16] = s.bytes();
        s.assume(all_hex(&h));
        s.cover(h[0] == b'f' && h[1] == b'F' && h[2] == b'9' && h[3] == b'a' && h[4] == b'A' && h[5] == b'0');
        let st = unsafe { core::str::from_utf8_unchecked(&h) };
        let xb = U64::from_be_hex(st);
        let xl = U64::from_le_hex(st);
        let wb = xb.to_words();
        let wl = xl.to_words();
        let mut i = 0;
        while i < 8 {
            // hex pair i is big-endian byte i / little-endian byte i
            assert!(be_byte(&wb, 8, i) == hex_byte(&h, i));
            assert!(le_byte(&wl, i) == hex_byte(&h, i));
            i += 1;
        }
        assert!(I64::from_be_hex(st).as_uint().to_words()[0] == wb[0]);
    }

    /// U128 (big endian): every 32-character hex string
    fn c16_hex_be_u128_ok(s) {
        let h: [u8; 32] = s.bytes();
        s.assume(all_hex(&h));
        s.cover(true);
        let st = unsafe { core::str::from_utf8_unchecked(&h) };
        let wb = U128::from_be_hex(st).to_words();
        let mut i = 0;
        while i < 16 {
            assert!(be_byte(&wb, 16, i) == hex_byte(&h, i));
            i += 1;
        }
    }
    /// U128 (little endian): every 32-character hex string
    fn c16_hex_le_u128_ok(s) {
        let h: [u8; 32] = s.bytes();
        s.assume(all_hex(&h));
        s.cover(true);
        let st = unsafe { core::str::from_utf8_unchecked(&h) };
        let wl = U128::from_le_hex(st).to_words();
        let mut i = 0;
        while i < 16 {
            assert!(le_byte(&wl, i) == hex_byte(&h, i));
            i += 1;
        }
    }

    /// U64::from_be_hex panics on every 16-character ASCII string containing a character outside [0-9a-fA-F]
    /// (all 128 ASCII values in every position, incl. '/', ':', '@', 'G', '`', 'g')
    #[kani::should_panic]
    fn c16_hex_be_u64_bad_char(s) {
        let h: [u8; 16] = s.bytes();
        s.assume(all_ascii(&h) && !all_hex(&h));
        let st = unsafe { core::str::from_utf8_unchecked(&h) };
        let _ = U64::from_be_hex(st);
        returned_instead_of_panicking();
    }
    /// same for U64::from_le_hex
    #[kani::should_panic]
    fn c16_hex_le_u64_bad_char(s) {
        let h: [u8; 16] = s.bytes();
        s.assume(all_ascii(&h) && !all_hex(&h));
        let st = unsafe { core::str::from_utf8_unchecked(&h) };
        let _ = U64::from_le_hex(st);
        returned_instead_of_panicking();
    }
    /// the neighbours of the three accepted ranges, one at a time in a symbolic position, rest valid hex: panic
    #[kani::should_panic]
    fn c16_hex_be_u64_boundary_chars(s) {
        let mut h: [u8; 16] = s.bytes();
        s.assume(all_hex(&h));
        let pos = s.usize();
        s.assume(pos < 16);
        let which = s.u8();
        s.assume(which < 6);
        let bad = [b'/', b':', b'@', b'G', b'`', b'g'];
        h[pos] = bad[which as usize];
        let st = unsafe { core::str::from_utf8_unchecked(&h) };
        let _ = U64::from_be_hex(st);
        returned_instead_of_panicking();
    }
    /// bytes 0x80..=0xff (as a valid two-byte UTF-8 scalar 0xC2..=0xDF 0x80..=0xBF in a symbolic even position,
    /// rest valid hex) are rejected: panic
    #[kani::should_panic]
    fn c16_hex_be_u64_non_ascii(s) {
        let mut h: [u8; 16] = s.bytes();
        s.assume(all_hex(&h));
        let pos = s.usize();
        s.assume(pos < 8);
        let a = s.u8();
        let b = s.u8();
        s.assume(a >= 0xC2 && a <= 0xDF && b >= 0x80 && b <= 0xBF);
        h[2 * pos] = a;
        h[2 * pos + 1] = b;
        let st = unsafe { core::str::from_utf8_unchecked(&h) };
        let _ = U64::from_be_hex(st);
        returned_instead_of_panicking();
    }
    /// U128::from_be_hex: any ASCII string with a non-hex character panics
    #[kani::should_panic]
    fn c16_hex_be_u128_bad_char(s) {
        let h: [u8; 32] = s.bytes();
        s.assume(all_ascii(&h) && !all_hex(&h));
        let st = unsafe { core::str::from_utf8_unchecked(&h) };
        let _ = U128::from_be_hex(st);
        returned_instead_of_panicking();
    }
    /// U128::from_le_hex: any ASCII string with a non-hex character panics
    #[kani::should_panic]
    fn c16_hex_le_u128_bad_char(s) {
        let h: [u8; 32] = s.bytes();
        s.assume(all_ascii(&h) && !all_hex(&h));
        let st = unsafe { core::str::from_utf8_unchecked(&h) };
        let _ = U128::from_le_hex(st);
        returned_instead_of_panicking();
    }
    /// valid hex digits but a length in 0..=18 other than 16: from_be_hex panics (not zero-padded / too long)
    #[kani::should_panic]
    fn c16_hex_be_u64_wrong_len(s) {
        let h: [u8; 18] = s.bytes();
        s.assume(all_hex(&h));
        let len = s.usize();
        s.assume(len <= 18 && len != 16);
        let st = unsafe { core::str::from_utf8_unchecked(&h[..len]) };
        let _ = U64::from_be_hex(st);
        returned_instead_of_panicking();
    }
    /// same for from_le_hex
    #[kani::should_panic]
    fn c16_hex_le_u64_wrong_len(s) {
        let h: [u8; 18] = s.bytes();
        s.assume(all_hex(&h));
        let len = s.usize();
        s.assume(len <= 18 && len != 16);
        let st = unsafe { core::str::from_utf8_unchecked(&h[..len]) };
        let _ = U64::from_le_hex(st);
        returned_instead_of_panicking();
    }

    // ------------------------------------------------------------------ primitives and words

    /// from_u8..from_u128, From<u8..u128>, from_word, from_wide_word, From<Limb>, Into<u64/u128>: value preserved,
    /// upper limbs zero (U64, U128, U192)
    fn c16_primitives(s) {
        let a8 = s.u8(); let a16 = s.u16(); let a32 = s.u32(); let a64 = s.u64(); let a128 = s.u128();
        // U64
        assert!(u64_of(&U64::from_u8(a8)) == a8 as u64);
        assert!(u64_of(&U64::from_u16(a16)) == a16 as u64);
        assert!(u64_of(&U64::from_u32(a32)) == a32 as u64);
        assert!(u64_of(&U64::from_u64(a64)) == a64);
        assert!(u64_of(&U64::from_word(a64)) == a64);
        assert!(u64_of(&U64::from(a8)) == a8 as u64);
        assert!(u64_of(&U64::from(a16)) == a16 as u64);
        assert!(u64_of(&U64::from(a32)) == a32 as u64);
        assert!(u64_of(&U64::from(a64)) == a64);
        assert!(u64_of(&U64::from(Limb(a64))) == a64);
        assert!(u64::from(mk64(a64)) == a64);
        // U128
        assert!(u128_of(&U128::from_u8(a8)) == a8 as u128);
        assert!(u128_of(&U128::from_u16(a16)) == a16 as u128);
        assert!(u128_of(&U128::from_u32(a32)) == a32 as u128);
        assert!(u128_of(&U128::from_u64(a64)) == a64 as u128);
        assert!(u128_of(&U128::from_u128(a128)) == a128);
        assert!(u128_of(&U128::from_word(a64)) == a64 as u128);
        assert!(u128_of(&U128::from_wide_word(a128)) == a128);
        assert!(u128_of(&U128::from(a8)) == a8 as u128);
        assert!(u128_of(&U128::from(a16)) == a16 as u128);
        assert!(u128_of(&U128::from(a32)) == a32 as u128);
        assert!(u128_of(&U128::from(a64)) == a64 as u128);
        assert!(u128_of(&U128::from(a128)) == a128);
        assert!(u128_of(&U128::from(Limb(a64))) == a64 as u128);
        assert!(u128::from(mk128(a128)) == a128);
        // U192
        let w = U192::from_u128(a128).to_words();
        assert!(w[0] == a128 as u64 && w[1] == (a128 >> 64) as u64 && w[2] == 0);
        let w = U192::from_wide_word(a128).to_words();
        assert!(w[0] == a128 as u64 && w[1] == (a128 >> 64) as u64 && w[2] == 0);
        let w = U192::from_u64(a64).to_words();
        assert!(w[0] == a64 && w[1] == 0 && w[2] == 0);
        let w = U192::from(a32).to_words();
        assert!(w[0] == a32 as u64 && w[1] == 0 && w[2] == 0);
        let w = U192::from(a128).to_words();
        assert!(w[0] == a128 as u64 && w[1] == (a128 >> 64) as u64 && w[2] == 0);
    }

    /// from_u128 / from_wide_word on a one-limb integer cannot hold the value: documented panic (limb-count assertion)
    #[kani::should_panic]
    fn c16_from_u128_one_limb_panics(s) {
        let a = s.u128();
        let _ = U64::from_u128(a);
        returned_instead_of_panicking();
    }
    #[kani::should_panic]
    fn c16_from_wide_word_one_limb_panics(s) {
        let a = s.u128();
        let _ = U64::from_wide_word(a);
        returned_instead_of_panicking();
    }

    /// signed primitives: Int::from_i8..from_i128 / From<i*> sign-extend (I64, I128); from_i128 into I64 truncates
    fn c16_int_primitives(s) {
        let a8 = s.u8() as i8; let a16 = s.u16() as i16; let a32 = s.u32() as i32; let a64 = s.i64(); let a128 = s.i128();
        assert!(I64::from_i8(a8).as_words()[0] == a8 as i64 as u64);
        assert!(I64::from_i16(a16).as_words()[0] == a16 as i64 as u64);
        assert!(I64::from_i32(a32).as_words()[0] == a32 as i64 as u64);
        assert!(I64::from_i64(a64).as_words()[0] == a64 as u64);
        assert!(I64::from(a8).as_words()[0] == a8 as i64 as u64);
        assert!(I64::from(a64).as_words()[0] == a64 as u64);
        assert!(i128_of(&I128::from_i8(a8)) == a8 as i128);
        assert!(i128_of(&I128::from_i16(a16)) == a16 as i128);
        assert!(i128_of(&I128::from_i32(a32)) == a32 as i128);
        assert!(i128_of(&I128::from_i64(a64)) == a64 as i128);
        assert!(i128_of(&I128::from_i128(a128)) == a128);
        assert!(i128_of(&I128::from(a16)) == a16 as i128);
        assert!(i128_of(&I128::from(a32)) == a32 as i128);
        assert!(i128_of(&I128::from(a64)) == a64 as i128);
        assert!(i128_of(&I128::from(a128)) == a128);
        let w = Int::<3>::from_i64(a64).to_words();
        let ext = if a64 < 0 { u64::MAX } else { 0 };
        assert!(w[0] == a64 as u64 && w[1] == ext && w[2] == ext);
        let w = Int::<3>::from_i128(a128).to_words();
        let ext = if a128 < 0 { u64::MAX } else { 0 };
        assert!(w[0] == a128 as u64 && w[1] == (a128 >> 64) as u64 && w[2] == ext);
    }

    /// to_words / from_words / as_words / to_limbs / From<[Word; N]> / Into<[Word; N]> / From<[Limb; N]>: limb j is
    /// word j (little-endian limb order), U64 / U128 / U192 and Int
    fn c16_words(s) {
        let w: [u64; 3] = s.words();
        let x1 = U64::from_words([w[0]]);
        assert!(x1.to_words()[0] == w[0] && x1.as_words()[0] == w[0] && x1.to_limbs()[0].0 == w[0]);
        let x2 = U128::from_words([w[0], w[1]]);
        let t = x2.to_words();
        assert!(t[0] == w[0] && t[1] == w[1]);
        assert!(x2.as_words()[0] == w[0] && x2.as_words()[1] == w[1]);
        assert!(x2.as_limbs()[0].0 == w[0] && x2.as_limbs()[1].0 == w[1]);
        assert!(u128::from(x2) == (w[0] as u128) | ((w[1] as u128) << 64));
        let x3 = U192::from_words(w);
        let t = x3.to_words();
        assert!(t[0] == w[0] && t[1] == w[1] && t[2] == w[2]);
        let a = x3.as_words();
        assert!(a[0] == w[0] && a[1] == w[1] && a[2] == w[2]);
        let y3 = U192::from(w);
        assert!(y3 == x3);
        let back: [u64; 3] = y3.into();
        assert!(back[0] == w[0] && back[1] == w[1] && back[2] == w[2]);
        let z3 = U192::from([Limb(w[0]), Limb(w[1]), Limb(w[2])]);
        assert!(z3 == x3);
        let n3 = U192::new([Limb(w[0]), Limb(w[1]), Limb(w[2])]);
        assert!(n3 == x3);
        let l: [Limb; 3] = z3.into();
        assert!(l[0].0 == w[0] && l[1].0 == w[1] && l[2].0 == w[2]);
        let i2 = I128::from_words([w[0], w[1]]);
        assert!(i2.to_words()[0] == w[0] && i2.to_words()[1] == w[1]);
        assert!(i2.as_uint().to_words()[0] == w[0] && i2.as_uint().to_words()[1] == w[1]);
        assert!(x2.as_int().to_words()[0] == w[0] && x2.as_int().to_words()[1] == w[1]);
    }

    // ------------------------------------------------------------------ concat / split / resize

    /// concat (U64,U64 -> U128), split (U128 -> 2 x U64), tuple From impls, concat_mixed/split_mixed at
    /// (U64,U128 <-> U192): value = lo + hi * 2^(64 L), both ways
    fn c16_concat_split(s) {
        let lo = s.u64(); let hi = s.u64();
        let c: U128 = mk64(lo).concat(&mk64(hi));
        assert!(u128_of(&c) == (lo as u128) | ((hi as u128) << 64));
        let c2: U128 = (mk64(lo), mk64(hi)).into();
        assert!(c2 == c);
        let c3: U128 = U128::from(&(mk64(lo), mk64(hi)));
        assert!(c3 == c);
        let v = s.u128();
        let (l, h) = mk128(v).split();
        assert!(u64_of(&l) == v as u64 && u64_of(&h) == (v >> 64) as u64);
        let (l2, h2): (U64, U64) = mk128(v).into();
        assert!(l2 == l && h2 == h);
        let (l3, h3): (U64, U64) = mk128(v).split_mixed();
        assert!(l3 == l && h3 == h);
        // mixed: U64 (lo) ++ U128 (hi) -> U192 and U128 (lo) ++ U64 (hi) -> U192
        let m: U192 = mk64(lo).concat_mixed(&mk128(v));
        let w = m.to_words();
        assert!(w[0] == lo && w[1] == v as u64 && w[2] == (v >> 64) as u64);
        let m2: U192 = mk128(v).concat_mixed(&mk64(hi));
        let w2 = m2.to_words();
        assert!(w2[0] == v as u64 && w2[1] == (v >> 64) as u64 && w2[2] == hi);
        let (sl, sh): (U64, U128) = m.split_mixed();
        assert!(u64_of(&sl) == lo && u128_of(&sh) == v);
        let (tl, th): (U128, U64) = m2.split_mixed();
        assert!(u128_of(&tl) == v && u64_of(&th) == hi);
    }

    /// Uint::resize: U128 -> U64 truncates (mod 2^64), U64 -> U128 / U192 zero-extends, same width is the identity;
    /// From<&Uint<L>> for Uint<L2> is resize
    fn c16_resize(s) {
        let v = s.u128(); let a = s.u64();
        let t: U64 = mk128(v).resize();
        assert!(u64_of(&t) == v as u64);
        let e: U128 = mk64(a).resize();
        assert!(u128_of(&e) == a as u128);
        let e3: U192 = mk128(v).resize();
        let w = e3.to_words();
        assert!(w[0] == v as u64 && w[1] == (v >> 64) as u64 && w[2] == 0);
        let same: U128 = mk128(v).resize();
        assert!(u128_of(&same) == v);
        let f: U64 = U64::from(&mk128(v));
        assert!(u64_of(&f) == v as u64);
        let g: U128 = U128::from(&mk64(a));
        assert!(u128_of(&g) == a as u128);
        let t1: U64 = e3.resize();
        assert!(u64_of(&t1) == v as u64);
    }

    /// Int::resize: I64 -> I128 / Int<3> sign-extends, I128 -> I64 keeps the low limb (truncation), identity at equal width
    fn c16_int_resize(s) {
        let a = s.i64(); let v = s.i128();
        let x = I64::from_words([a as u64]);
        let e: I128 = x.resize();
        assert!(i128_of(&e) == a as i128);
        s.cover(a < 0);
        s.cover(a >= 0);
        let e3: Int<3> = x.resize();
        let ext = if a < 0 { u64::MAX } else { 0 };
        let w = e3.to_words();
        assert!(w[0] == a as u64 && w[1] == ext && w[2] == ext);
        let y = I128::from_words([v as u64, (v >> 64) as u64]);
        let t: I64 = y.resize();
        assert!(t.to_words()[0] == v as u64);
        let same: I128 = y.resize();
        assert!(i128_of(&same) == v);
        let y3: Int<3> = y.resize();
        let ext = if v < 0 { u64::MAX } else { 0 };
        let w = y3.to_words();
        assert!(w[0] == v as u64 && w[1] == (v >> 64) as u64 && w[2] == ext);
    }

    // ------------------------------------------------------------------ BoxedUint

    /// BoxedUint::from_be_slice at precision 0, 1, 7: 0..=2 octets (all values)
    #[kani::unwind(4)]
    fn c16_boxed_be_slice_p0_1_7(s) {
        let buf = draw18(s);
        let len = s.usize();
        s.assume(len <= 2);
        boxed_slice_case(s, &buf, len, 0, true);
        boxed_slice_case(s, &buf, len, 1, true);
        boxed_slice_case(s, &buf, len, 7, true);
    }
    /// BoxedUint::from_be_slice at precision 8, 9: 0..=3 octets
    #[kani::unwind(4)]
    fn c16_boxed_be_slice_p8_9(s) {
        let buf = draw18(s);
        let len = s.usize();
        s.assume(len <= 3);
        boxed_slice_case(s, &buf, len, 8, true);
        boxed_slice_case(s, &buf, len, 9, true);
    }
    /// BoxedUint::from_be_slice at precision 63: 0..=10 octets
    #[kani::unwind(4)]
    fn c16_boxed_be_slice_p63(s) {
        let buf = draw18(s);
        let len = s.usize();
        s.assume(len <= 10);
        boxed_slice_case(s, &buf, len, 63, true);
    }
    /// BoxedUint::from_be_slice at precision 64: 0..=10 octets
    #[kani::unwind(4)]
    fn c16_boxed_be_slice_p64(s) {
        let buf = draw18(s);
        let len = s.usize();
        s.assume(len <= 10);
        boxed_slice_case(s, &buf, len, 64, true);
    }
    /// BoxedUint::from_be_slice at precision 65: 0..=10 octets
    #[kani::unwind(4)]
    fn c16_boxed_be_slice_p65(s) {
        let buf = draw18(s);
        let len = s.usize();
        s.assume(len <= 10);
        boxed_slice_case(s, &buf, len, 65, true);
    }
    /// BoxedUint::from_be_slice at precision 127: 0..=18 octets
    #[kani::unwind(4)]
    fn c16_boxed_be_slice_p127(s) {
        let buf = draw18(s);
        let len = s.usize();
        s.assume(len <= 18);
        boxed_slice_case(s, &buf, len, 127, true);
    }
    /// BoxedUint::from_be_slice at precision 128: 0..=18 octets
    #[kani::unwind(4)]
    fn c16_boxed_be_slice_p128(s) {
        let buf = draw18(s);
        let len = s.usize();
        s.assume(len <= 18);
        boxed_slice_case(s, &buf, len, 128, true);
    }
    /// BoxedUint::from_le_slice at precision 0, 1, 7
    #[kani::unwind(4)]
    fn c16_boxed_le_slice_p0_1_7(s) {
        let buf = draw18(s);
        let len = s.usize();
        s.assume(len <= 2);
        boxed_slice_case(s, &buf, len, 0, false);
        boxed_slice_case(s, &buf, len, 1, false);
        boxed_slice_case(s, &buf, len, 7, false);
    }
    /// BoxedUint::from_le_slice at precision 8, 9
    #[kani::unwind(4)]
    fn c16_boxed_le_slice_p8_9(s) {
        let buf = draw18(s);
        let len = s.usize();
        s.assume(len <= 3);
        boxed_slice_case(s, &buf, len, 8, false);
        boxed_slice_case(s, &buf, len, 9, false);
    }
    /// BoxedUint::from_le_slice at precision 63: 0..=10 octets
    #[kani::unwind(4)]
    fn c16_boxed_le_slice_p63(s) {
        let buf = draw18(s);
        let len = s.usize();
        s.assume(len <= 10);
        boxed_slice_case(s, &buf, len, 63, false);
    }
    /// BoxedUint::from_le_slice at precision 64: 0..=10 octets
    #[kani::unwind(4)]
    fn c16_boxed_le_slice_p64(s) {
        let buf = draw18(s);
        let len = s.usize();
        s.assume(len <= 10);
        boxed_slice_case(s, &buf, len, 64, false);
    }
    /// BoxedUint::from_le_slice at precision 65
    #[kani::unwind(4)]
    fn c16_boxed_le_slice_p65(s) {
        let buf = draw18(s);
        let len = s.usize();
        s.assume(len <= 10);
        boxed_slice_case(s, &buf, len, 65, false);
    }
    /// BoxedUint::from_le_slice at precision 127: 0..=18 octets
    #[kani::unwind(4)]
    fn c16_boxed_le_slice_p127(s) {
        let buf = draw18(s);
        let len = s.usize();
        s.assume(len <= 18);
        boxed_slice_case(s, &buf, len, 127, false);
    }
    /// BoxedUint::from_le_slice at precision 128: 0..=18 octets
    #[kani::unwind(4)]
    fn c16_boxed_le_slice_p128(s) {
        let buf = draw18(s);
        let len = s.usize();
        s.assume(len <= 18);
        boxed_slice_case(s, &buf, len, 128, false);
    }

    /// BoxedUint::to_be_bytes / to_le_bytes are positional over the full precision: 64-bit (all values)
    #[kani::unwind(4)]
    fn c16_boxed_to_bytes_64(s) {
        let a = s.u64();
        let v = BoxedUint::from(a);
        let be = v.to_be_bytes();
        let le = v.to_le_bytes();
        assert!(be.len() == 8 && le.len() == 8);
        unrolled!(k in [0,1,2,3,4,5,6,7] {
            assert!(le[k] == (a >> (8 * k)) as u8);
            assert!(be[7 - k] == (a >> (8 * k)) as u8);
        });
    }
    /// BoxedUint::to_be_bytes is positional: 128-bit (all values)
    #[kani::unwind(4)]
    fn c16_boxed_to_be_bytes_128(s) {
        let a = s.u128();
        let v = BoxedUint::from(a);
        let be = v.to_be_bytes();
        assert!(be.len() == 16);
        unrolled!(k in [0,1,2,3,4,5,6,7,8,9,10,11,12,13,14,15] {
            assert!(be[15 - k] == (a >> (8 * k)) as u8);
        });
    }
    /// BoxedUint::to_le_bytes is positional: 128-bit (all values)
    #[kani::unwind(4)]
    fn c16_boxed_to_le_bytes_128(s) {
        let a = s.u128();
        let v = BoxedUint::from(a);
        let le = v.to_le_bytes();
        assert!(le.len() == 16);
        unrolled!(k in [0,1,2,3,4,5,6,7,8,9,10,11,12,13,14,15] {
            assert!(le[k] == (a >> (8 * k)) as u8);
        });
    }
    /// round trip through the heap: to_be_bytes(from_be_slice(b, 65)) is b left-padded with zeros to 16 octets
    /// (0..=9 octets, all values with b < 2^65)
    #[kani::unwind(4)]
    fn c16t_boxed_roundtrip_be_p65(s) {
        let buf = draw18(s);
        let len = s.usize();
        s.assume(len <= 9);
        if let Ok(v) = BoxedUint::from_be_slice(&buf[..len], 65) {
            s.cover(len == 9);
            let out = v.to_be_bytes();
            assert!(out.len() == 16);
            unrolled!(k in [0,1,2,3,4,5,6,7,8,9,10,11,12,13,14,15] {
                // octet k from the right
                let want = if k < len { buf[len - 1 - k] } else { 0 };
                assert!(out[15 - k] == want);
            });
        }
    }
    /// round trip: to_le_bytes(from_le_slice(b, 65)) is b right-padded with zeros to 16 octets
    #[kani::unwind(4)]
    fn c16t_boxed_roundtrip_le_p65(s) {
        let buf = draw18(s);
        let len = s.usize();
        s.assume(len <= 9);
        if let Ok(v) = BoxedUint::from_le_slice(&buf[..len], 65) {
            s.cover(len == 9);
            let out = v.to_le_bytes();
            assert!(out.len() == 16);
            unrolled!(k in [0,1,2,3,4,5,6,7,8,9,10,11,12,13,14,15] {
                let want = if k < len { buf[k] } else { 0 };
                assert!(out[k] == want);
            });
        }
    }

    /// BoxedUint::from(u8..u128 / Limb / Uint): value preserved, precision 64 (128 for u128 / U128);
    /// widen keeps the value and has the requested precision rounded up to 64; shorten keeps the low limbs
    #[kani::unwind(6)]
    fn c16_boxed_from_widen_shorten(s) {
        let a8 = s.u8(); let a32 = s.u32(); let a64 = s.u64(); let a128 = s.u128();
        let b = BoxedUint::from(a8);
        assert!(b.bits_precision() == 64 && b.as_words()[0] == a8 as u64);
        let b = BoxedUint::from(a32);
        assert!(b.bits_precision() == 64 && b.as_words()[0] == a32 as u64);
        let b = BoxedUint::from(a64);
        assert!(b.bits_precision() == 64 && b.nlimbs() == 1 && b.as_words()[0] == a64);
        let b = BoxedUint::from(Limb(a64));
        assert!(b.bits_precision() == 64 && b.as_words()[0] == a64);
        let c = BoxedUint::from(a128);
        assert!(c.bits_precision() == 128 && c.nlimbs() == 2);
        assert!(c.as_words()[0] == a128 as u64 && c.as_words()[1] == (a128 >> 64) as u64);
        let d = BoxedUint::from(mk128(a128));
        assert!(d.bits_precision() == 128 && d.as_words()[0] == a128 as u64 && d.as_words()[1] == (a128 >> 64) as u64);
        // widen
        let w1 = b.widen(64);
        assert!(w1.bits_precision() == 64 && w1.as_words()[0] == a64);
        let w2 = b.widen(65);
        assert!(w2.bits_precision() == 128 && w2.as_words()[0] == a64 && w2.as_words()[1] == 0);
        let w3 = c.widen(192);
        assert!(w3.bits_precision() == 192 && w3.nlimbs() == 3);
        assert!(w3.as_words()[0] == a128 as u64 && w3.as_words()[1] == (a128 >> 64) as u64 && w3.as_words()[2] == 0);
        // shorten
        let s1 = c.shorten(128);
        assert!(s1.bits_precision() == 128 && s1.as_words()[0] == a128 as u64 && s1.as_words()[1] == (a128 >> 64) as u64);
        let s2 = c.shorten(64);
        assert!(s2.bits_precision() == 64 && s2.as_words()[0] == a128 as u64);
        let s3 = c.shorten(1);
        assert!(s3.bits_precision() == 64 && s3.as_words()[0] == a128 as u64);
        let s4 = w3.shorten(65);
        assert!(s4.bits_precision() == 128 && s4.as_words()[0] == a128 as u64 && s4.as_words()[1] == (a128 >> 64) as u64);
    }
    /// widen to less than the current precision panics (128-bit value, any request below 128)
    #[kani::should_panic]
    #[kani::unwind(6)]
    fn c16_boxed_widen_smaller_panics(s) {
        let a = s.u128();
        let p = s.u32();
        s.assume(p < 128);
        let _ = BoxedUint::from(a).widen(p);
        returned_instead_of_panicking();
    }
    /// shorten to more than the current precision panics (64-bit value, request in 65..=256)
    #[kani::should_panic]
    #[kani::unwind(6)]
    fn c16_boxed_shorten_larger_panics(s) {
        let a = s.u64();
        let p = s.u32();
        s.assume(p > 64 && p <= 256);
        let _ = BoxedUint::from(a).shorten(p);
        returned_instead_of_panicking();
    }
}
