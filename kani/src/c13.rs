//! C13: `Int` behaves as a two's-complement mathematical integer.
//!
//! I64 against i64/i128 arithmetic, I128 against i128 arithmetic (`checked_*`, `overflowing_*`, `wrapping_*` of the
//! primitive type). Addition, subtraction, negation, sign/abs decomposition, predicates, comparison, resize and
//! conversions: operands fully symbolic. Multiplication: one operand fully symbolic, the other drawn from the
//! alphabet {0, 1, -1, 2, -2, MIN, MAX, 2^31} (iterated, so every product has one constant factor); squares: operand
//! k * 2^e with k an arbitrary i8 and e in a small list that straddles the overflow boundary.
use crate::*;
use crate::util::*;
use crypto_bigint::*;
use core::cmp::Ordering;
use subtle::{Choice, ConstantTimeEq, ConstantTimeGreater, ConstantTimeLess, CtOption};

#[cfg(kani)]
fn no_return() { unsafe { let _ = 255u8.unchecked_add(1); } }
#[cfg(not(kani))]
fn no_return() { crate::src::missed_panic(); }

fn opt<T>(o: CtOption<T>) -> Option<T> { Option::from(o) }
fn ck<T>(v: T, valid: bool) -> Checked<T> { Checked(CtOption::new(v, Choice::from(valid as u8))) }
fn cc(b: bool) -> ConstChoice { if b { ConstChoice::TRUE } else { ConstChoice::FALSE } }

fn i64_of(x: &I64) -> i64 { x.as_words()[0] as i64 }
fn i128_of(x: &I128) -> i128 { let w = x.as_words(); (w[0] as u128 | ((w[1] as u128) << 64)) as i128 }
fn mki64(a: i64) -> I64 { I64::from_words([a as u64]) }
fn mki128(a: i128) -> I128 { I128::from_words([a as u128 as u64, ((a as u128) >> 64) as u64]) }

/// non-panicking routes to a + b; `$exp` = wrapped sum, `$ovf` = true sum outside [MIN, MAX]
macro_rules! int_add_forms {
    ($s:ident, $T:ty, $a:expr, $b:expr, $exp:expr, $ovf:expr) => {{
        let (a, b, exp, ovf): ($T, $T, $T, bool) = ($a, $b, $exp, $ovf);
        match Option::<$T>::from(a.checked_add(&b)) { Some(v) => { assert!(!ovf); assert!(v == exp); } None => assert!(ovf) }
        match opt(CheckedAdd::checked_add(&a, &b)) { Some(v) => { assert!(!ovf); assert!(v == exp); } None => assert!(ovf) }
        let (v, o) = a.overflowing_add(&b); assert!(v == exp && bool::from(o) == ovf);
        assert!(a.wrapping_add(&b) == exp);
        assert!(WrappingAdd::wrapping_add(&a, &b) == exp);
        let (wa, wb) = (Wrapping(a), Wrapping(b));
        assert!((wa + wb).0 == exp && (wa + &wb).0 == exp && (&wa + wb).0 == exp && (&wa + &wb).0 == exp);
        let mut w = wa; w += wb; assert!(w.0 == exp);
        let mut w = wa; w += &wb; assert!(w.0 == exp);
        let (va, vb) = ($s.bool(), $s.bool());
        let (ca, cb) = (ck(a, va), ck(b, vb));
        let want = va && vb && !ovf;
        let mut c5 = ca; c5 += cb;
        let mut c6 = ca; c6 += &cb;
        let rs = [ca + cb, ca + &cb, &ca + cb, &ca + &cb, c5, c6];
        let mut i = 0;
        while i < 6 { match opt(rs[i].0) { Some(v) => { assert!(want); assert!(v == exp); } None => assert!(!want) } i += 1; }
    }};
}
macro_rules! int_sub_forms {
    ($s:ident, $T:ty, $a:expr, $b:expr, $exp:expr, $ovf:expr) => {{
        let (a, b, exp, ovf): ($T, $T, $T, bool) = ($a, $b, $exp, $ovf);
        match opt(CheckedSub::checked_sub(&a, &b)) { Some(v) => { assert!(!ovf); assert!(v == exp); } None => assert!(ovf) }
        assert!(WrappingSub::wrapping_sub(&a, &b) == exp);
        let (wa, wb) = (Wrapping(a), Wrapping(b));
        assert!((wa - wb).0 == exp && (wa - &wb).0 == exp && (&wa - wb).0 == exp && (&wa - &wb).0 == exp);
        let mut w = wa; w -= wb; assert!(w.0 == exp);
        let mut w = wa; w -= &wb; assert!(w.0 == exp);
        let (va, vb) = ($s.bool(), $s.bool());
        let (ca, cb) = (ck(a, va), ck(b, vb));
        let want = va && vb && !ovf;
        let mut c5 = ca; c5 -= cb;
        let mut c6 = ca; c6 -= &cb;
        let rs = [ca - cb, ca - &cb, &ca - cb, &ca - &cb, c5, c6];
        let mut i = 0;
        while i < 6 { match opt(rs[i].0) { Some(v) => { assert!(want); assert!(v == exp); } None => assert!(!want) } i += 1; }
    }};
}
/// negation routes; `$exp` = wrapped negation, `$ovf` = (a == MIN)
macro_rules! int_neg_forms {
    ($T:ty, $a:expr, $exp:expr, $ovf:expr) => {{
        let (a, exp, ovf): ($T, $T, bool) = ($a, $exp, $ovf);
        let (v, o) = a.overflowing_neg(); assert!(v == exp && bool::from(o) == ovf);
        assert!(a.wrapping_neg() == exp);
        assert!(a.wrapping_neg_if(ConstChoice::TRUE) == exp && a.wrapping_neg_if(ConstChoice::FALSE) == a);
        match Option::<$T>::from(a.checked_neg()) { Some(v) => { assert!(!ovf); assert!(v == exp); } None => assert!(ovf) }
    }};
}
/// operator routes: 0 `a + b`, 1 `a + &b`, 2 `a += b`, 3 `a += &b`
fn int_add_op<const L: usize>(f: u8, a: Int<L>, b: Int<L>) -> Int<L> {
    match f { 0 => a + b, 1 => a + &b, 2 => { let mut x = a; x += b; x } _ => { let mut x = a; x += &b; x } }
}
/// 0 `a - b`, 1 `a - &b` (there is no `-=` on Int)
fn int_sub_op<const L: usize>(f: u8, a: Int<L>, b: Int<L>) -> Int<L> { if f == 0 { a - b } else { a - &b } }
/// 0 `a * b`, 1 `a * &b`, 2 `&a * b`, 3 `&a * &b`
fn int_mul_op<const L: usize, const R: usize>(f: u8, a: Int<L>, b: Int<R>) -> Int<L> {
    match f { 0 => a * b, 1 => a * &b, 2 => &a * b, _ => &a * &b }
}
fn int_mul_uint_op<const L: usize, const R: usize>(f: u8, a: Int<L>, b: Uint<R>) -> Int<L> {
    match f { 0 => a * b, 1 => a * &b, 2 => &a * b, _ => &a * &b }
}

/// full alphabet (used where the oracle is `checked_mul` of the primitive type)
const ALPHA64: [i64; 8] = [0, 1, -1, 2, -2, i64::MIN, i64::MAX, 1 << 31];
const UALPHA64: [u64; 6] = [0, 1, 2, 1 << 31, 1 << 63, u64::MAX];
/// sparse alphabet (at most two set bits in the magnitude): CBMC does not get through "symbolic x dense constant"
/// when the full double-width product is compared (MAX = 2^63 - 1 alone: > 4 min)
const ALPHA64S: [i64; 9] = [0, 1, -1, 2, -2, i64::MIN, 1 << 31, -(1 << 62), 3];
const ALPHA128S: [i128; 9] = [0, 1, -1, 2, -2, i128::MIN, 1 << 31, -(1 << 126), 3];
const UALPHA64S: [u64; 6] = [0, 1, 2, 3, 1 << 31, 1 << 63];

fn mul_ops_ok<S: Src>(s: &mut S, swap: bool) {
    let (a, f) = (s.i64(), s.u8()); s.assume(f < 4);
    let mut k = 0;
    while k < ALPHA64S.len() {
        let b = ALPHA64S[k];
        if let Some(p) = a.checked_mul(b) {
            let r = if swap { int_mul_op(f, mki64(b), mki64(a)) } else { int_mul_op(f, mki64(a), mki64(b)) };
            assert!(i64_of(&r) == p);
        }
        k += 1;
    }
}
fn mul_ops_panic<S: Src>(s: &mut S, swap: bool) {
    let (a, f, sel) = (s.i64(), s.u8(), s.usize()); s.assume(f < 4);
    let mut k = 0;
    while k < ALPHA64S.len() {
        let b = ALPHA64S[k];
        if sel == k && a.checked_mul(b).is_none() {
            let _ = if swap { int_mul_op(f, mki64(b), mki64(a)) } else { int_mul_op(f, mki64(a), mki64(b)) };
            no_return();
        }
        k += 1;
    }
}

fn checked_wrapper_mul<S: Src>(s: &mut S, lhs_ref: bool) {
    let (a, va, vb) = (s.i64(), s.bool(), s.bool()); let x = mki64(a);
    let mut k = 0;
    while k < ALPHA64.len() {
        let b = ALPHA64[k]; let y = mki64(b);
        let want = if va && vb { a.checked_mul(b) } else { None };
        let (cx, cy) = (ck(x, va), ck(y, vb));
        let (r1, r2) = if lhs_ref { (&cx * cy, &cx * &cy) } else { (cx * cy, cx * &cy) };
        match opt(r1.0) { Some(v) => assert!(want == Some(i64_of(&v))), None => assert!(want.is_none()) }
        match opt(r2.0) { Some(v) => assert!(want == Some(i64_of(&v))), None => assert!(want.is_none()) }
        k += 1;
    }
}

harnesses! {
    // ------------------------------------------------------------------ add / sub / neg
    /// I64 +: checked (inherent, trait), overflowing, wrapping (inherent, trait), Wrapping<I64>, Checked<I64>
    fn c13_i64_add_forms(s) {
        let (a, b) = (s.i64(), s.i64());
        let (t, o) = a.overflowing_add(b);
        int_add_forms!(s, I64, mki64(a), mki64(b), mki64(t), o);
    }
    fn c13_i64_sub_forms(s) {
        let (a, b) = (s.i64(), s.i64());
        let (t, o) = a.overflowing_sub(b);
        int_sub_forms!(s, I64, mki64(a), mki64(b), mki64(t), o);
    }
    fn c13_i64_neg_forms(s) {
        let a = s.i64();
        int_neg_forms!(I64, mki64(a), mki64(a.wrapping_neg()), a == i64::MIN);
    }
    fn c13_i128_add_forms(s) {
        let (a, b) = (s.i128(), s.i128());
        let (t, o) = a.overflowing_add(b);
        int_add_forms!(s, I128, mki128(a), mki128(b), mki128(t), o);
    }
    fn c13_i128_sub_forms(s) {
        let (a, b) = (s.i128(), s.i128());
        let (t, o) = a.overflowing_sub(b);
        int_sub_forms!(s, I128, mki128(a), mki128(b), mki128(t), o);
    }
    fn c13_i128_neg_forms(s) {
        let a = s.i128();
        int_neg_forms!(I128, mki128(a), mki128(a.wrapping_neg()), a == i128::MIN);
    }
    /// `+ +& += +=&` and `- -&` exact when the true result is in [MIN, MAX]
    fn c13_i64_ops_ok(s) {
        let (a, b) = (s.i64(), s.i64());
        if let Some(t) = a.checked_add(b) { let mut f = 0; while f < 4 { assert!(i64_of(&int_add_op(f, mki64(a), mki64(b))) == t); f += 1; } }
        if let Some(t) = a.checked_sub(b) { let mut f = 0; while f < 2 { assert!(i64_of(&int_sub_op(f, mki64(a), mki64(b))) == t); f += 1; } }
        s.cover(a.checked_add(b).is_some() && a < 0 && b > 0); s.cover(a.checked_sub(b).is_some() && b == i64::MIN);
    }
    /// every + route panics for every overflowing pair
    #[kani::should_panic]
    fn c13_i64_add_ops_panic(s) {
        let (a, b, f) = (s.i64(), s.i64(), s.u8()); s.assume(a.checked_add(b).is_none() && f < 4);
        let _ = int_add_op(f, mki64(a), mki64(b)); no_return();
    }
    #[kani::should_panic]
    fn c13_i64_sub_ops_panic(s) {
        let (a, b, f) = (s.i64(), s.i64(), s.u8()); s.assume(a.checked_sub(b).is_none() && f < 2);
        let _ = int_sub_op(f, mki64(a), mki64(b)); no_return();
    }
    fn c13_i128_ops_ok(s) {
        let (a, b) = (s.i128(), s.i128());
        if let Some(t) = a.checked_add(b) { let mut f = 0; while f < 4 { assert!(i128_of(&int_add_op(f, mki128(a), mki128(b))) == t); f += 1; } }
        if let Some(t) = a.checked_sub(b) { let mut f = 0; while f < 2 { assert!(i128_of(&int_sub_op(f, mki128(a), mki128(b))) == t); f += 1; } }
        s.cover(a.checked_add(b).is_some() && a < 0 && b > 0); s.cover(a.checked_sub(b).is_some() && b == i128::MIN);
    }
    #[kani::should_panic]
    fn c13_i128_add_ops_panic(s) {
        let (a, b, f) = (s.i128(), s.i128(), s.u8()); s.assume(a.checked_add(b).is_none() && f < 4);
        let _ = int_add_op(f, mki128(a), mki128(b)); no_return();
    }
    #[kani::should_panic]
    fn c13_i128_sub_ops_panic(s) {
        let (a, b, f) = (s.i128(), s.i128(), s.u8()); s.assume(a.checked_sub(b).is_none() && f < 2);
        let _ = int_sub_op(f, mki128(a), mki128(b)); no_return();
    }

    // ------------------------------------------------------------------ sign, abs, predicates, comparison
    /// abs_sign / abs / new_from_abs_sign (every magnitude, both signs: fits iff m <= MAX or (negative and m == 2^63),
    /// negative zero gives 0) / is_negative / is_positive / is_min / is_max, constants
    fn c13_i64_sign(s) {
        let (a, m, neg) = (s.i64(), s.u64(), s.bool());
        let x = mki64(a);
        let (abs, sg) = x.abs_sign();
        assert!(u64_of(&abs) == a.unsigned_abs() && bool::from(sg) == (a < 0));
        assert!(u64_of(&x.abs()) == a.unsigned_abs());
        assert!(bool::from(x.is_negative()) == (a < 0) && bool::from(x.is_positive()) == (a > 0));
        assert!(bool::from(x.is_min()) == (a == i64::MIN) && bool::from(x.is_max()) == (a == i64::MAX));
        let want: Option<i64> = if !neg { if m <= i64::MAX as u64 { Some(m as i64) } else { None } }
                                else if m <= 1u64 << 63 { Some((m as i64).wrapping_neg()) } else { None };
        match Option::<I64>::from(I64::new_from_abs_sign(mk64(m), cc(neg))) { Some(v) => assert!(want == Some(i64_of(&v))), None => assert!(want.is_none()) }
        // round trip
        let back = Option::<I64>::from(I64::new_from_abs_sign(abs, sg));
        assert!(back.is_some() && back.unwrap() == x);
        assert!(i64_of(&I64::MIN) == i64::MIN && i64_of(&I64::MAX) == i64::MAX && i64_of(&I64::MINUS_ONE) == -1);
        assert!(i64_of(&I64::ZERO) == 0 && i64_of(&I64::ONE) == 1);
    }
    fn c13_i128_sign(s) {
        let (a, m, neg) = (s.i128(), s.u128(), s.bool());
        let x = mki128(a);
        let (abs, sg) = x.abs_sign();
        assert!(u128_of(&abs) == a.unsigned_abs() && bool::from(sg) == (a < 0));
        assert!(u128_of(&x.abs()) == a.unsigned_abs());
        assert!(bool::from(x.is_negative()) == (a < 0) && bool::from(x.is_positive()) == (a > 0));
        assert!(bool::from(x.is_min()) == (a == i128::MIN) && bool::from(x.is_max()) == (a == i128::MAX));
        let want: Option<i128> = if !neg { if m <= i128::MAX as u128 { Some(m as i128) } else { None } }
                                 else if m <= 1u128 << 127 { Some((m as i128).wrapping_neg()) } else { None };
        match Option::<I128>::from(I128::new_from_abs_sign(mk128(m), cc(neg))) { Some(v) => assert!(want == Some(i128_of(&v))), None => assert!(want.is_none()) }
        let back = Option::<I128>::from(I128::new_from_abs_sign(abs, sg));
        assert!(back.is_some() && back.unwrap() == x);
        assert!(i128_of(&I128::MIN) == i128::MIN && i128_of(&I128::MAX) == i128::MAX && i128_of(&I128::MINUS_ONE) == -1);
    }
    /// Ord / PartialOrd / PartialEq / cmp_vartime / ct_eq / ct_gt / ct_lt agree with the signed order
    fn c13_i64_cmp(s) {
        let (a, b) = (s.i64(), s.i64());
        let (x, y) = (mki64(a), mki64(b));
        assert!(Ord::cmp(&x, &y) == a.cmp(&b) && x.partial_cmp(&y) == Some(a.cmp(&b)) && x.cmp_vartime(&y) == a.cmp(&b));
        assert!((x == y) == (a == b) && (x < y) == (a < b) && (x >= y) == (a >= b));
        assert!(bool::from(x.ct_eq(&y)) == (a == b) && bool::from(x.ct_gt(&y)) == (a > b) && bool::from(x.ct_lt(&y)) == (a < b));
    }
    fn c13_i128_cmp(s) {
        let (a, b) = (s.i128(), s.i128());
        let (x, y) = (mki128(a), mki128(b));
        assert!(Ord::cmp(&x, &y) == a.cmp(&b) && x.partial_cmp(&y) == Some(a.cmp(&b)) && x.cmp_vartime(&y) == a.cmp(&b));
        assert!((x == y) == (a == b) && (x < y) == (a < b) && (x >= y) == (a >= b));
        assert!(bool::from(x.ct_eq(&y)) == (a == b) && bool::from(x.ct_gt(&y)) == (a > b) && bool::from(x.ct_lt(&y)) == (a < b));
    }

    // ------------------------------------------------------------------ resize, conversions
    /// resize: widening sign-extends (I64 -> I128 -> Int<3>), narrowing keeps the low limbs, same width is the identity;
    /// `From<&Int<L>> for Int<L2>` is resize
    fn c13_resize(s) {
        let (a, b) = (s.i64(), s.i128());
        let x = mki64(a);
        assert!(i128_of(&x.resize::<2>()) == a as i128);
        assert!(i64_of(&x.resize::<1>()) == a);
        assert!(i128_of(&I128::from(&x)) == a as i128);
        let y = mki128(b);
        assert!(i64_of(&y.resize::<1>()) == b as i64);
        assert!(i64_of(&I64::from(&y)) == b as i64);
        assert!(i128_of(&y.resize::<2>()) == b);
        let z: Int<3> = y.resize();
        let w = z.as_words();
        assert!(w[0] == b as u64 && w[1] == ((b as u128) >> 64) as u64 && w[2] == if b < 0 { u64::MAX } else { 0 });
        let z: Int<3> = x.resize();
        let w = z.as_words();
        assert!(w[0] == a as u64 && w[1] == (if a < 0 { u64::MAX } else { 0 }) && w[2] == w[1]);
    }
    /// from_i8 .. from_i128 (inherent and `From`), `i64::from(I64)`, `i128::from(I128)`
    fn c13_from_prims(s) {
        let (a8, a16, a32, a64, a128) = (s.u8() as i8, s.u16() as i16, s.u32() as i32, s.i64(), s.i128());
        assert!(i64_of(&I64::from_i8(a8)) == a8 as i64 && i64_of(&I64::from(a8)) == a8 as i64);
        assert!(i64_of(&I64::from_i16(a16)) == a16 as i64 && i64_of(&I64::from(a16)) == a16 as i64);
        assert!(i64_of(&I64::from_i32(a32)) == a32 as i64 && i64_of(&I64::from(a32)) == a32 as i64);
        assert!(i64_of(&I64::from_i64(a64)) == a64 && i64_of(&I64::from(a64)) == a64);
        assert!(i128_of(&I128::from_i8(a8)) == a8 as i128 && i128_of(&I128::from(a8)) == a8 as i128);
        assert!(i128_of(&I128::from_i16(a16)) == a16 as i128 && i128_of(&I128::from(a16)) == a16 as i128);
        assert!(i128_of(&I128::from_i32(a32)) == a32 as i128 && i128_of(&I128::from(a32)) == a32 as i128);
        assert!(i128_of(&I128::from_i64(a64)) == a64 as i128 && i128_of(&I128::from(a64)) == a64 as i128);
        assert!(i128_of(&I128::from_i128(a128)) == a128 && i128_of(&I128::from(a128)) == a128);
        assert!(i64::from(mki64(a64)) == a64 && i128::from(mki128(a128)) == a128);
        let z = Int::<3>::from_i128(a128); let w = z.as_words();
        assert!(w[0] == a128 as u64 && w[1] == ((a128 as u128) >> 64) as u64 && w[2] == if a128 < 0 { u64::MAX } else { 0 });
    }

    // ------------------------------------------------------------------ multiplication (restricted operands)
    /// I64 x I64, b in ALPHA64S, a any: split_mul = (magnitude of the exact i128 product, sign)
    fn c13_i64_split_mul(s) {
        let a = s.i64(); let x = mki64(a);
        let mut k = 0;
        while k < ALPHA64S.len() {
            let b = ALPHA64S[k]; let y = mki64(b);
            let p = a as i128 * b as i128;
            let (lo, hi, neg) = x.split_mul(&y);
            assert!((u64_of(&lo) as u128 | ((u64_of(&hi) as u128) << 64)) == p.unsigned_abs());
            assert!(p == 0 || bool::from(neg) == (p < 0));
            k += 1;
        }
    }
    /// widening_mul (both operand orders) = the exact i128 product
    fn c13_i64_widening_mul(s) {
        let a = s.i64(); let x = mki64(a);
        let mut k = 0;
        while k < ALPHA64S.len() {
            let b = ALPHA64S[k]; let y = mki64(b);
            let p = a as i128 * b as i128;
            assert!(i128_of(&x.widening_mul(&y)) == p);
            assert!(i128_of(&y.widening_mul(&x)) == p);
            k += 1;
        }
    }
    /// CheckedMul (both operand orders): some exactly when the product is in [MIN, MAX]
    fn c13_i64_checked_mul(s) {
        let a = s.i64(); let x = mki64(a);
        let mut k = 0;
        while k < ALPHA64.len() {
            let b = ALPHA64[k]; let y = mki64(b);
            let want = a.checked_mul(b);
            match opt(CheckedMul::checked_mul(&x, &y)) { Some(v) => assert!(want == Some(i64_of(&v))), None => assert!(want.is_none()) }
            match opt(CheckedMul::checked_mul(&y, &x)) { Some(v) => assert!(want == Some(i64_of(&v))), None => assert!(want.is_none()) }
            k += 1;
        }
    }
    /// Checked<I64> `*` (value * value, value * &): none is sticky, otherwise as CheckedMul
    fn c13_i64_checked_wrapper_mul_v(s) { checked_wrapper_mul(s, false); }
    /// Checked<I64> `*` (& * value, & * &)
    fn c13_i64_checked_wrapper_mul_r(s) { checked_wrapper_mul(s, true); }
    /// Checked<I64> `*=` (value, reference)
    fn c13_i64_checked_wrapper_mul_assign(s) {
        let (a, va, vb, byref) = (s.i64(), s.bool(), s.bool(), s.bool()); let x = mki64(a);
        let mut k = 0;
        while k < ALPHA64.len() {
            let b = ALPHA64[k]; let y = mki64(b);
            let want = if va && vb { a.checked_mul(b) } else { None };
            let mut c = ck(x, va); if byref { c *= &ck(y, vb); } else { c *= ck(y, vb); }
            match opt(c.0) { Some(v) => assert!(want == Some(i64_of(&v))), None => assert!(want.is_none()) }
            k += 1;
        }
    }
    /// `*` (4 value/reference routes), constant factor in ALPHA64S on the right / on the left: exact when the product fits
    fn c13_i64_mul_ops_ok_r(s) { mul_ops_ok(s, false); }
    fn c13_i64_mul_ops_ok_l(s) { mul_ops_ok(s, true); }
    /// ... and every route panics for every (a, b in ALPHA64S) whose product overflows
    #[kani::should_panic] fn c13_i64_mul_ops_panic_r(s) { mul_ops_panic(s, false); }
    #[kani::should_panic] fn c13_i64_mul_ops_panic_l(s) { mul_ops_panic(s, true); }
    /// I64 x U64, u in UALPHA64S, a any: split_mul_uint, split_mul_uint_right, widening_mul_uint vs the exact product
    fn c13_i64_mul_uint_wide(s) {
        let a = s.i64(); let x = mki64(a);
        let mut k = 0;
        while k < UALPHA64S.len() {
            let u = UALPHA64S[k]; let y = mk64(u);
            let p = a as i128 * u as i128;          // |p| < 2^127
            let (lo, hi, neg) = x.split_mul_uint(&y);
            assert!((u64_of(&lo) as u128 | ((u64_of(&hi) as u128) << 64)) == p.unsigned_abs() && bool::from(neg) == (a < 0));
            let (lo, hi, neg) = x.split_mul_uint_right(&y);
            assert!((u64_of(&lo) as u128 | ((u64_of(&hi) as u128) << 64)) == p.unsigned_abs() && bool::from(neg) == (a < 0));
            assert!(i128_of(&x.widening_mul_uint(&y)) == p);
            k += 1;
        }
    }
    /// CheckedMul<U64> for I64 and checked_mul_uint_right: some exactly when the product is in [MIN, MAX]
    fn c13_i64_mul_uint_checked(s) {
        let a = s.i64();
        let x = mki64(a);
        let mut k = 0;
        while k < UALPHA64.len() {
            let u = UALPHA64[k]; let y = mk64(u);
            let p = a as i128 * u as i128;
            let fits = p >= i64::MIN as i128 && p <= i64::MAX as i128;
            match opt(CheckedMul::checked_mul(&x, &y)) { Some(v) => { assert!(fits); assert!(i64_of(&v) as i128 == p); } None => assert!(!fits) }
            match opt(x.checked_mul_uint_right(&y)) { Some(v) => { assert!(fits); assert!(i64_of(&v) as i128 == p); } None => assert!(!fits) }
            k += 1;
        }
    }
    /// `Int * Uint` (4 value/reference routes): exact when the product fits
    fn c13_i64_mul_uint_ops_ok(s) {
        let (a, f) = (s.i64(), s.u8()); s.assume(f < 4);
        let mut k = 0;
        while k < UALPHA64.len() {
            let u = UALPHA64[k];
            let p = a as i128 * u as i128;
            if p >= i64::MIN as i128 && p <= i64::MAX as i128 { assert!(i64_of(&int_mul_uint_op(f, mki64(a), mk64(u))) as i128 == p); }
            k += 1;
        }
    }
    #[kani::should_panic]
    fn c13_i64_mul_uint_ops_panic(s) {
        let (a, f, sel) = (s.i64(), s.u8(), s.usize()); s.assume(f < 4);
        let mut k = 0;
        while k < UALPHA64.len() {
            let u = UALPHA64[k];
            let p = a as i128 * u as i128;
            if sel == k && (p < i64::MIN as i128 || p > i64::MAX as i128) {
                let _ = int_mul_uint_op(f, mki64(a), mk64(u));
                no_return();
            }
            k += 1;
        }
    }
    /// I128 x I128, b in ALPHA128S, a any: CheckedMul (both orders) against i128::checked_mul
    fn c13_i128_checked_mul(s) {
        let a = s.i128(); let x = mki128(a);
        let mut k = 0;
        while k < ALPHA128S.len() {
            let b = ALPHA128S[k]; let y = mki128(b);
            let want = a.checked_mul(b);
            match opt(CheckedMul::checked_mul(&x, &y)) { Some(v) => assert!(want == Some(i128_of(&v))), None => assert!(want.is_none()) }
            match opt(CheckedMul::checked_mul(&y, &x)) { Some(v) => assert!(want == Some(i128_of(&v))), None => assert!(want.is_none()) }
            k += 1;
        }
    }
    /// thorough: the dense constants I128::MAX and I64::MAX as one factor
    fn c13t_i128_checked_mul_max(s) {
        let a = s.i128(); let x = mki128(a);
        let want = a.checked_mul(i128::MAX);
        match opt(CheckedMul::checked_mul(&x, &I128::MAX)) { Some(v) => assert!(want == Some(i128_of(&v))), None => assert!(want.is_none()) }
        match opt(CheckedMul::checked_mul(&I128::MAX, &x)) { Some(v) => assert!(want == Some(i128_of(&v))), None => assert!(want.is_none()) }
    }
    /// mixed widths: I128 x I64 -> I128 and I64 x I128 -> I64 with the I64 operand from ALPHA64S
    fn c13_mixed_checked_mul(s) {
        let a = s.i128(); let x = mki128(a);
        let mut k = 0;
        while k < ALPHA64S.len() {
            let c = ALPHA64S[k]; let z = mki64(c);
            let want = a.checked_mul(c as i128);
            match opt(CheckedMul::checked_mul(&x, &z)) { Some(v) => assert!(want == Some(i128_of(&v))), None => assert!(want.is_none()) }
            let want64 = want.and_then(|p| if p >= i64::MIN as i128 && p <= i64::MAX as i128 { Some(p as i64) } else { None });
            match opt(CheckedMul::checked_mul(&z, &x)) { Some(v) => assert!(want64 == Some(i64_of(&v))), None => assert!(want64.is_none()) }
            k += 1;
        }
    }
    /// squares of a = k * 2^e, k any i8, e in {0, 24, 25, 26, 28, 56}: checked / wrapping / saturating / widening
    /// square (results are unsigned: the square of the magnitude, checked against 2^64)
    fn c13_i64_square(s) {
        let k = s.u8() as i8;
        const E: [u32; 6] = [0, 24, 25, 26, 28, 56];
        let mut j = 0;
        while j < E.len() {
            let a = (k as i64) << E[j];
            let x = mki64(a);
            let m = (k as i64).unsigned_abs() as u128;       // <= 128
            let sq = (m * m) << (2 * E[j]);                  // < 2^14 * 2^112: exact in u128
            assert!(u128_of(&x.widening_square()) == sq);
            let fits = sq <= u64::MAX as u128;
            match Option::<U64>::from(x.checked_square()) { Some(v) => { assert!(fits); assert!(u64_of(&v) as u128 == sq); } None => assert!(!fits) }
            assert!(u64_of(&x.wrapping_square()) == sq as u64);
            assert!(u64_of(&x.saturating_square()) == if fits { sq as u64 } else { u64::MAX });
            j += 1;
        }
    }
}
