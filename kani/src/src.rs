//! The source of harness inputs: symbolic under Kani, recorded bytes in the replay driver.
use alloc::vec::Vec;

pub trait Src {
    fn u8(&mut self) -> u8;
    fn u16(&mut self) -> u16;
    fn u32(&mut self) -> u32;
    fn u64(&mut self) -> u64;
    fn u128(&mut self) -> u128;
    fn usize(&mut self) -> usize;
    fn i64(&mut self) -> i64;
    fn i128(&mut self) -> i128;
    fn bool(&mut self) -> bool;
    /// restrict the inputs (kani::assume); in replay a violated assumption aborts the replay
    fn assume(&mut self, c: bool);
    /// vacuity guard: the point must be reachable (kani::cover)
    fn cover(&mut self, c: bool);
    fn bytes<const N: usize>(&mut self) -> [u8; N] {
        let mut a = [0u8; N];
        let mut i = 0;
        while i < N { a[i] = self.u8(); i += 1; }
        a
    }
    fn words<const N: usize>(&mut self) -> [u64; N] {
        let mut a = [0u64; N];
        let mut i = 0;
        while i < N { a[i] = self.u64(); i += 1; }
        a
    }
}

#[cfg(kani)]
pub struct KaniSrc;
#[cfg(kani)]
impl Src for KaniSrc {
    fn u8(&mut self) -> u8 { kani::any() }
    fn u16(&mut self) -> u16 { kani::any() }
    fn u32(&mut self) -> u32 { kani::any() }
    fn u64(&mut self) -> u64 { kani::any() }
    fn u128(&mut self) -> u128 { kani::any() }
    fn usize(&mut self) -> usize { kani::any() }
    fn i64(&mut self) -> i64 { kani::any() }
    fn i128(&mut self) -> i128 { kani::any() }
    fn bool(&mut self) -> bool { kani::any() }
    fn assume(&mut self, c: bool) { kani::assume(c) }
    fn cover(&mut self, c: bool) { kani::cover!(c) }
}

/// set (native builds only) when a statement that must panic returned instead: `no_return()` /
/// `returned_instead_of_panicking()` were reached. Read by the replay driver's profile probe.
pub static MISSED_PANIC: core::sync::atomic::AtomicBool = core::sync::atomic::AtomicBool::new(false);
pub fn missed_panic() { MISSED_PANIC.store(true, core::sync::atomic::Ordering::SeqCst); }

/// Replays the `concrete_vals` printed by `cargo kani --concrete-playback=print` (one entry per draw, little endian).
pub struct ReplaySrc {
    pub vals: Vec<Vec<u8>>,
    pub pos: usize,
    pub assumption_violated: bool,
    pub exhausted: bool,
    /// profile probe: when set, draws beyond the recorded ones are generated (edge-biased, xorshift) and recorded in `vals`
    pub rng: Option<u64>,
}
impl ReplaySrc {
    pub fn new(vals: Vec<Vec<u8>>) -> Self { Self { vals, pos: 0, assumption_violated: false, exhausted: false, rng: None } }
    pub fn generator(seed: u64) -> Self { Self { vals: Vec::new(), pos: 0, assumption_violated: false, exhausted: false, rng: Some(seed | 1) } }
    fn generate(&mut self, n: usize) -> u128 {
        let mut x = self.rng.unwrap();
        let mut step = || { x ^= x << 13; x ^= x >> 7; x ^= x << 17; x };
        let a = step(); let b = step(); let c = step();
        self.rng = Some(x);
        let bits = 8 * n as u32;
        let mask: u128 = if bits >= 128 { u128::MAX } else { (1u128 << bits) - 1 };
        let r = ((b as u128) << 64 | c as u128) & mask;
        let k = ((a >> 8) as u32) % bits.max(1);
        let v = match a % 16 {
            0 => 0,
            1 => 1,
            2 => mask,
            3 => mask >> 1,
            4 => (mask >> 1) + 1,
            5 => (1u128 << k) & mask,
            6 => ((1u128 << k) - 1) & mask,
            7 => mask - (r & 0xff),
            8 | 9 | 10 | 11 => r & 0xff & mask,          // small values (lengths, shift amounts)
            12 => (r & 0xff) + bits as u128 - 2,          // around the bit size
            _ => r,
        } & mask;
        let mut rec = Vec::new();
        let mut i = 0;
        while i < n { rec.push((v >> (8 * i)) as u8); i += 1; }
        self.vals.push(rec);
        v
    }
    fn next(&mut self, n: usize) -> u128 {
        if self.pos >= self.vals.len() && self.rng.is_some() { self.pos += 1; return self.generate(n); }
        if self.pos >= self.vals.len() { self.exhausted = true; return 0; }
        let v = &self.vals[self.pos];
        self.pos += 1;
        let mut r: u128 = 0;
        let mut i = 0;
        while i < n && i < v.len() { r |= (v[i] as u128) << (8 * i); i += 1; }
        r
    }
}
impl Src for ReplaySrc {
    fn u8(&mut self) -> u8 { self.next(1) as u8 }
    fn u16(&mut self) -> u16 { self.next(2) as u16 }
    fn u32(&mut self) -> u32 { self.next(4) as u32 }
    fn u64(&mut self) -> u64 { self.next(8) as u64 }
    fn u128(&mut self) -> u128 { self.next(16) }
    fn usize(&mut self) -> usize { self.next(8) as usize }
    fn i64(&mut self) -> i64 { self.next(8) as u64 as i64 }
    fn i128(&mut self) -> i128 { self.next(16) as i128 }
    fn bool(&mut self) -> bool { self.next(1) & 1 == 1 }
    fn assume(&mut self, c: bool) { if !c { self.assumption_violated = true; } }
    fn cover(&mut self, _c: bool) {}
}

/// Declares harnesses: each `fn name(s) { body }` becomes a generic body, a `#[kani::proof]` under cfg(kani)
/// and an entry of the module's `TABLE` (name, replay fn, expects_panic) for the replay driver.
#[macro_export]
macro_rules! harnesses {
    ($( $(#[$($meta:tt)*])* fn $name:ident($s:ident) $body:block )*) => {
        pub mod bodies {
            use super::*;
            $( pub fn $name<S: $crate::Src>($s: &mut S) $body )*
        }
        #[cfg(kani)]
        mod proofs {
            use super::*;
            $( #[kani::proof] $(#[$($meta)*])* fn $name() { let mut s = $crate::KaniSrc; super::bodies::$name(&mut s); } )*
        }
        pub const TABLE: &[(&str, fn(&mut $crate::ReplaySrc), bool)] = &[
            $( (stringify!($name), bodies::$name::<$crate::ReplaySrc> as fn(&mut $crate::ReplaySrc), $crate::harnesses!(@panics $(#[$($meta)*])*)) ),*
        ];
    };
    (@panics) => { false };
    (@panics #[kani::should_panic] $($rest:tt)*) => { true };
    (@panics #[$($other:tt)*] $($rest:tt)*) => { $crate::harnesses!(@panics $($rest)*) };
}
