//! Engine B: Kani harnesses on the real crypto-bigint crate (path dependency on /repo).
//!
//! Every harness body is written against the [`Src`] trait, so the *same function* runs
//! (a) symbolically under Kani (`KaniSrc`: every draw is `kani::any()`), and
//! (b) natively in the replay driver (`ReplaySrc`: draws are the recorded counterexample values).
#![allow(unused, clippy::all)]

extern crate alloc;

pub mod src;
pub use src::*;

pub mod c04;
pub mod c18;

/// name -> replayable body, collected from every harness module
pub fn table() -> alloc::vec::Vec<(&'static str, fn(&mut ReplaySrc), bool)> {
    let mut v = alloc::vec::Vec::new();
    v.extend_from_slice(c04::TABLE);
    v.extend_from_slice(c18::TABLE);
    v
}
