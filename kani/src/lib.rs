//! Engine B: Kani harnesses on the real crypto-bigint crate (path dependency on /repo).
//!
//! Every harness body is written against the [`Src`] trait, so the *same function* runs
//! (a) symbolically under Kani (`KaniSrc`: every draw is `kani::any()`), and
//! (b) natively in the replay driver (`ReplaySrc`: draws are the recorded counterexample values).
#![allow(unused, clippy::all)]

extern crate alloc;

pub mod src;
pub use src::*;
pub mod util;

pub mod c02;
pub mod c03;
pub mod c04;
pub mod c05;
pub mod c06;
pub mod c07;
pub mod c08;
pub mod c09;
pub mod c10;
pub mod c11;
pub mod c12;
pub mod c13;
pub mod c14;
pub mod c15;
pub mod c16;
pub mod c17;
pub mod c18;
pub mod c19;
pub mod c20;

/// name -> replayable body, collected from every harness module
pub fn table() -> alloc::vec::Vec<(&'static str, fn(&mut ReplaySrc), bool)> {
    let mut v = alloc::vec::Vec::new();
    v.extend_from_slice(c02::TABLE);
    v.extend_from_slice(c03::TABLE);
    v.extend_from_slice(c04::TABLE);
    v.extend_from_slice(c05::TABLE);
    v.extend_from_slice(c06::TABLE);
    v.extend_from_slice(c07::TABLE);
    v.extend_from_slice(c08::TABLE);
    v.extend_from_slice(c09::TABLE);
    v.extend_from_slice(c10::TABLE);
    v.extend_from_slice(c11::TABLE);
    v.extend_from_slice(c12::TABLE);
    v.extend_from_slice(c13::TABLE);
    v.extend_from_slice(c14::TABLE);
    v.extend_from_slice(c15::TABLE);
    v.extend_from_slice(c16::TABLE);
    v.extend_from_slice(c17::TABLE);
    v.extend_from_slice(c18::TABLE);
    v.extend_from_slice(c19::TABLE);
    v.extend_from_slice(c20::TABLE);
    v
}
