//! C19: random sampling respects its range, is pure rejection sampling, and is width-independent.
//!
//! The RNG is modelled *in the harness* ([`SymRng`]): a finite stream of K symbolic 64-bit words handed out in
//! order through the real `rand_core::RngCore` interface (`TryRngCore` comes through rand_core's blanket impl).
//!   * `next_u64`  = the next fresh word
//!   * `next_u32`  = the low half of the next fresh word
//!   * `fill_bytes`= every chunk of <= 8 destination bytes takes the little-endian bytes of one fresh word
//!                   (truncated) -- i.e. `rand_core::impls::fill_bytes_via_next` for the two definitions above.
//! When the K words are used up the RNG sets `exhausted` and hands out `fallback` (a value every sampler
//! accepts), so all sampling loops terminate; harnesses `s.assume(!rng.exhausted)` *after* the call, which restricts
//! the claim to streams for which a candidate is accepted within K draws.
//!
//! Bounds: Limb, U64, U128 (I64 for random_bits), BoxedUint of 64/128 bits; K = 4 words for rejection sampling
//! (0..=3 rejections), every modulus, every bit_length in 0..=BITS+1. Uniformity itself is a statistical statement and
//! is not checked here; what is checked is that the result is *exactly* the first in-range masked candidate, which
//! is what makes the sampler unbiased for a uniform stream.
use crate::*;
use crate::util::*;
use crypto_bigint::*;
use crypto_bigint::rand_core::{CryptoRng, RngCore, TryRngCore};
use core::convert::Infallible;

/// Vacuity guard with its own source location: `Src::cover` funnels every cover through one `kani::cover!` site,
/// which Kani reports as a single property (satisfied when *any* of them is reachable). Under Kani this macro puts
/// the cover at the call site so each one is reported separately; natively it is `s.cover(..)`.
#[macro_export]
macro_rules! cov {
    ($s:ident, $c:expr) => {{
        #[cfg(kani)]
        { let _ = &$s; kani::cover!($c); }
        #[cfg(not(kani))]
        { $s.cover($c); }
    }};
}

/// Copies the first min(8, dest.len() - i) bytes of `w` to `dest[i..]`; written without a loop so that the unwinding
/// bound of a harness is governed by the sampling loops only (a global bound of 10 for this copy made CBMC unwind
/// every rejection loop ten times as well).
fn put_chunk(dest: &mut [u8], i: usize, w: &[u8; 8]) -> usize {
    let n = if dest.len() - i < 8 { dest.len() - i } else { 8 };
    if n > 0 { dest[i] = w[0]; }
    if n > 1 { dest[i + 1] = w[1]; }
    if n > 2 { dest[i + 2] = w[2]; }
    if n > 3 { dest[i + 3] = w[3]; }
    if n > 4 { dest[i + 4] = w[4]; }
    if n > 5 { dest[i + 5] = w[5]; }
    if n > 6 { dest[i + 6] = w[6]; }
    if n > 7 { dest[i + 7] = w[7]; }
    n
}

/// Finite symbolic word stream behind the real `RngCore` trait.
pub struct SymRng<const K: usize> {
    pub words: [u64; K],
    /// number of words handed out so far (keeps counting after exhaustion)
    pub pos: usize,
    /// handed out once the K words are used up
    pub fallback: u64,
    pub exhausted: bool,
}
impl<const K: usize> SymRng<K> {
    pub fn new(words: [u64; K], fallback: u64) -> Self { Self { words, pos: 0, fallback, exhausted: false } }
    fn next_word(&mut self) -> u64 {
        let w = if self.pos < K { self.words[self.pos] } else { self.exhausted = true; self.fallback };
        self.pos += 1;
        w
    }
}
impl<const K: usize> RngCore for SymRng<K> {
    fn next_u32(&mut self) -> u32 { self.next_word() as u32 }
    fn next_u64(&mut self) -> u64 { self.next_word() }
    fn fill_bytes(&mut self, dest: &mut [u8]) {
        let mut i = 0;
        while i < dest.len() {
            let w = self.next_word().to_le_bytes();
            i += put_chunk(dest, i, &w);
        }
    }
}
impl<const K: usize> CryptoRng for SymRng<K> {}

/// Same stream, but fallible: the draw after the K-th word fails (checks `?` propagation in the `try_` forms).
pub struct SymTryRng<const K: usize> { pub words: [u64; K], pub pos: usize }
#[derive(Debug, Clone, Copy, PartialEq, Eq)]
pub struct Exhausted;
impl core::fmt::Display for Exhausted {
    fn fmt(&self, f: &mut core::fmt::Formatter<'_>) -> core::fmt::Result { f.write_str("exhausted") }
}
impl core::error::Error for Exhausted {}
impl<const K: usize> SymTryRng<K> {
    fn next_word(&mut self) -> Result<u64, Exhausted> {
        if self.pos < K { let w = self.words[self.pos]; self.pos += 1; Ok(w) } else { Err(Exhausted) }
    }
}
impl<const K: usize> TryRngCore for SymTryRng<K> {
    type Error = Exhausted;
    fn try_next_u32(&mut self) -> Result<u32, Exhausted> { Ok(self.next_word()? as u32) }
    fn try_next_u64(&mut self) -> Result<u64, Exhausted> { self.next_word() }
    fn try_fill_bytes(&mut self, dest: &mut [u8]) -> Result<(), Exhausted> {
        let mut i = 0;
        while i < dest.len() {
            let w = self.next_word()?.to_le_bytes();
            i += put_chunk(dest, i, &w);
        }
        Ok(())
    }
}

/// 2^bits - 1 for bits in 0..=64
fn mask64(bits: u32) -> u64 { if bits == 0 { 0 } else { u64::MAX >> (64 - bits) } }
/// 2^bits - 1 for bits in 0..=128
fn mask128(bits: u32) -> u128 { if bits == 0 { 0 } else { u128::MAX >> (128 - bits) } }
fn bits64(m: u64) -> u32 { 64 - m.leading_zeros() }

/// Reference: pure rejection sampling below a single-word modulus.
/// Candidates are the stream words masked to bits(m), in stream order; returns (value, words consumed, rejections).
fn oracle_mod64<const K: usize>(words: &[u64; K], m: u64) -> Option<(u64, usize, usize)> {
    let mask = mask64(bits64(m));
    let mut i = 0;
    while i < K {
        let c = words[i] & mask;
        if c < m { return Some((c, i + 1, i)); }
        i += 1;
    }
    None
}

/// Reference for moduli of one or two words: a candidate is `hi` (masked to the bit length of the modulus' top
/// word) followed -- for two-word moduli -- by the low word; a candidate whose top word already exceeds the
/// modulus' top word is rejected before its low word is drawn.  (value, words consumed, rejections)
fn oracle_mod128<const K: usize>(words: &[u64; K], m: u128) -> Option<(u128, usize, usize)> {
    let hi_m = (m >> 64) as u64;
    let two = hi_m != 0;
    let mask = if two { mask64(bits64(hi_m)) } else { mask64(bits64(m as u64)) };
    let mut pos = 0;
    let mut rej = 0;
    while pos < K {
        let hi = words[pos] & mask;
        pos += 1;
        let cand: u128;
        if two {
            if hi > hi_m { rej += 1; continue; }
            if pos >= K { return None; }
            cand = ((hi as u128) << 64) | words[pos] as u128;
            pos += 1;
        } else {
            cand = hi as u128;
        }
        if cand < m { return Some((cand, pos, rej)); }
        rej += 1;
    }
    None
}

fn boxed_u128(b: &BoxedUint) -> u128 {
    let w = b.as_words();
    let mut v: u128 = 0;
    if w.len() > 0 { v |= w[0] as u128; }
    if w.len() > 1 { v |= (w[1] as u128) << 64; }
    v
}

fn random_mod_limb_case<S: Src, const K: usize>(s: &mut S) {
    let words: [u64; K] = s.words();
    let m = s.u64();
    s.assume(m != 0);
    let nz = NonZero::new(Limb(m)).unwrap();
    let mut rng = SymRng::new(words, 0);
    let r = Limb::random_mod(&mut rng, &nz).0;
    s.assume(!rng.exhausted);
    assert!(r < m);
    let o = oracle_mod64(&words, m);
    assert!(o.is_some());
    let (v, used, rej) = o.unwrap();
    assert!(r == v);
    assert!(rng.pos == used);
    cov!(s, rej == 0);
    cov!(s, rej == 1);
    cov!(s, rej + 1 == K);
    cov!(s, m == 1 && r == 0);
    cov!(s, m == u64::MAX && rej == 1);
}

fn random_mod_boxed128_case<S: Src, const K: usize>(s: &mut S) {
    let words: [u64; K] = s.words();
    let m = s.u128();
    s.assume(m != 0);
    let mut rng_f = SymRng::new(words, 0);
    let f = u128_of(&U128::random_mod(&mut rng_f, &NonZero::new(mk128(m)).unwrap()));
    let nzb = NonZero::new(BoxedUint::from_words([m as u64, (m >> 64) as u64])).unwrap();
    let mut rng_b = SymRng::new(words, 0);
    let b = BoxedUint::random_mod(&mut rng_b, &nzb);
    s.assume(!rng_f.exhausted);
    assert!(!rng_b.exhausted);
    assert!(b.nlimbs() == 2);
    assert!(boxed_u128(&b) == f);
    assert!(rng_b.pos == rng_f.pos);
    assert!(f < m);
    cov!(s, m >> 64 == 0 && rng_f.pos == 1);
    cov!(s, m >> 64 == 0 && rng_f.pos == K);
    cov!(s, m >> 64 != 0 && rng_f.pos == 2);
    cov!(s, m >> 64 != 0 && rng_f.pos == K);
}

harnesses! {
    // ------------------------------------------------------------------ random_mod
    /// U64::random_mod / try_random_mod: result < modulus, equals the first masked stream word below the modulus,
    /// consumes exactly the rejected prefix + 1 words. Every modulus, every 4-word stream that accepts.
    #[kani::unwind(6)]
    fn c19_random_mod_u64(s) {
        let words: [u64; 4] = s.words();
        let m = s.u64();
        s.assume(m != 0);
        let nz = NonZero::new(mk64(m)).unwrap();
        let mut rng = SymRng::new(words, 0);
        let r = u64_of(&U64::random_mod(&mut rng, &nz));
        let mut rng2 = SymRng::new(words, 0);
        let r2 = U64::try_random_mod(&mut rng2, &nz);
        s.assume(!rng.exhausted);
        assert!(r < m);
        let o = oracle_mod64(&words, m);
        assert!(o.is_some());
        let (v, used, rej) = o.unwrap();
        assert!(r == v);
        assert!(rng.pos == used);
        assert!(!rng2.exhausted && rng2.pos == used);
        match r2 { Ok(x) => assert!(u64_of(&x) == v), Err(_) => assert!(false) }
        cov!(s, rej == 0);
        cov!(s, rej == 1);
        cov!(s, rej == 2);
        cov!(s, rej == 3);
        cov!(s, rej == 2 && words[0] & mask64(bits64(m)) == m && r == m - 1);
    }

    /// Limb::random_mod (byte-wise sampler): same contract and, under the word-stream model, the same candidates.
    /// Quick tier: 4-word streams (0..=3 rejections) ...
    #[kani::unwind(6)]
    fn c19_random_mod_limb(s) { random_mod_limb_case::<_, 4>(s); }
    /// ... thorough tier: 6-word streams (0..=5 rejections).
    #[kani::unwind(8)]
    fn c19t_random_mod_limb(s) { random_mod_limb_case::<_, 6>(s); }

    /// U128::random_mod with one- and two-word moduli: top word first (masked, early rejection when it exceeds the
    /// modulus' top word), then the low word; first candidate < modulus wins.
    #[kani::unwind(6)]
    fn c19_random_mod_u128(s) {
        let words: [u64; 4] = s.words();
        let m = s.u128();
        s.assume(m != 0);
        let nz = NonZero::new(mk128(m)).unwrap();
        let mut rng = SymRng::new(words, 0);
        let r = u128_of(&U128::random_mod(&mut rng, &nz));
        s.assume(!rng.exhausted);
        assert!(r < m);
        let o = oracle_mod128(&words, m);
        assert!(o.is_some());
        let (v, used, rej) = o.unwrap();
        assert!(r == v);
        assert!(rng.pos == used);
        cov!(s, rej == 0 && m >> 64 != 0);
        cov!(s, rej == 1 && m >> 64 != 0);
        cov!(s, rej == 2 && m >> 64 != 0);
        cov!(s, rej == 1 && m >> 64 == 0);
        // top word equal to the modulus' top word, accepted resp. rejected on the low word
        cov!(s, m >> 64 != 0 && (r >> 64) == (m >> 64) && rej == 0);
        cov!(s, m >> 64 != 0 && rej == 1 && used == 4);
    }

    /// try_random_mod with a fallible RNG: Ok exactly when a candidate is accepted within the K words,
    /// otherwise the RNG error is returned (no panic, no spinning).
    #[kani::unwind(5)]
    fn c19_try_random_mod_err_u64(s) {
        let words: [u64; 3] = s.words();
        let m = s.u64();
        s.assume(m != 0);
        let nz = NonZero::new(mk64(m)).unwrap();
        let mut rng = SymTryRng::<3> { words, pos: 0 };
        let r = U64::try_random_mod(&mut rng, &nz);
        let o = oracle_mod64(&words, m);
        match r {
            Ok(x) => { assert!(o.is_some()); let (v, used, _) = o.unwrap(); assert!(u64_of(&x) == v && rng.pos == used); }
            Err(e) => { assert!(o.is_none()); assert!(e == Exhausted); }
        }
        cov!(s, o.is_none());
        cov!(s, o.is_some());
    }

    /// BoxedUint::random_mod at 64 bits == U64::random_mod: same value, same stream consumption, same precision.
    /// 3-word streams.
    #[kani::unwind(5)]
    fn c19_random_mod_boxed64_eq_fixed(s) {
        let words: [u64; 3] = s.words();
        let m = s.u64();
        s.assume(m != 0);
        let mut rng_f = SymRng::new(words, 0);
        let f = u64_of(&U64::random_mod(&mut rng_f, &NonZero::new(mk64(m)).unwrap()));
        let nzb = NonZero::new(BoxedUint::from_words([m])).unwrap();
        let mut rng_b = SymRng::new(words, 0);
        let b = BoxedUint::random_mod(&mut rng_b, &nzb);
        s.assume(!rng_f.exhausted);
        assert!(!rng_b.exhausted);
        assert!(b.nlimbs() == 1);
        assert!(b.as_words()[0] == f);
        assert!(rng_b.pos == rng_f.pos);
        assert!(f < m);
        cov!(s, rng_f.pos == 3);
        cov!(s, rng_f.pos == 1);
    }

    /// BoxedUint::random_mod at 128 bits == U128::random_mod (one- and two-word moduli: zero top word incl.).
    /// Quick tier: 3-word streams ...
    #[kani::unwind(5)]
    fn c19_random_mod_boxed128_eq_fixed(s) { random_mod_boxed128_case::<_, 3>(s); }
    /// ... thorough tier: 6-word streams.
    #[kani::unwind(8)]
    fn c19t_random_mod_boxed128_eq_fixed(s) { random_mod_boxed128_case::<_, 6>(s); }

    // ------------------------------------------------------------------ random_bits
    /// U64::try_random_bits(bit_length) for bit_length 0..=65: Err(BitLengthTooLarge) iff bit_length > 64;
    /// Ok(v): v < 2^bit_length, v = first stream word masked to bit_length bits, one word consumed (none for 0).
    #[kani::unwind(5)]
    fn c19_random_bits_u64(s) {
        let words: [u64; 2] = s.words();
        let bl = s.u32();
        s.assume(bl <= 65);
        let mut rng = SymRng::new(words, 0);
        let r = U64::try_random_bits(&mut rng, bl);
        match r {
            Ok(v) => {
                assert!(bl <= 64);
                let v = u64_of(&v);
                assert!(bl == 64 || v < (1u64 << bl));
                assert!(v == words[0] & mask64(bl));
                assert!(rng.pos == if bl == 0 { 0 } else { 1 });
            }
            Err(RandomBitsError::BitLengthTooLarge { bit_length, bits_precision }) => {
                assert!(bl > 64);
                assert!(bit_length == bl && bits_precision == 64);
                assert!(rng.pos == 0);
            }
            Err(_) => assert!(false),
        }
        assert!(!rng.exhausted);
        cov!(s, bl == 0);
        cov!(s, bl == 1);
        cov!(s, bl == 32);
        cov!(s, bl == 33);
        cov!(s, bl == 64);
        cov!(s, bl == 65);
    }

    /// random_bits (panicking wrapper) returns the same value for admissible lengths.
    #[kani::unwind(5)]
    fn c19_random_bits_wrapper_u64(s) {
        let words: [u64; 2] = s.words();
        let bl = s.u32();
        s.assume(bl <= 64);
        let mut rng = SymRng::new(words, 0);
        let v = u64_of(&U64::random_bits(&mut rng, bl));
        assert!(v == words[0] & mask64(bl));
        let mut rng2 = SymRng::new(words, 0);
        let w = u64_of(&U64::random_bits_with_precision(&mut rng2, bl, 64));
        assert!(w == v && rng.pos == rng2.pos);
    }

    /// random_bits panics (documented: "panics on error") when bit_length > BITS.
    #[kani::should_panic]
    #[kani::unwind(5)]
    fn c19_random_bits_too_large_panics_u64(s) {
        let words: [u64; 2] = s.words();
        let bl = s.u32();
        s.assume(bl > 64);
        let mut rng = SymRng::new(words, 0);
        let _ = U64::random_bits(&mut rng, bl);
    }

    /// U128::try_random_bits for bit_length 0..=129: low word first, partial top word masked; words consumed = ceil(bl/64).
    #[kani::unwind(5)]
    fn c19_random_bits_u128(s) {
        let words: [u64; 3] = s.words();
        let bl = s.u32();
        s.assume(bl <= 129);
        let mut rng = SymRng::new(words, 0);
        let r = U128::try_random_bits(&mut rng, bl);
        match r {
            Ok(v) => {
                assert!(bl <= 128);
                let v = u128_of(&v);
                assert!(bl == 128 || v < (1u128 << bl));
                let stream = words[0] as u128 | ((words[1] as u128) << 64);
                assert!(v == stream & mask128(bl));
                assert!(rng.pos == ((bl + 63) / 64) as usize);
            }
            Err(RandomBitsError::BitLengthTooLarge { bit_length, bits_precision }) => {
                assert!(bl > 128);
                assert!(bit_length == bl && bits_precision == 128);
                assert!(rng.pos == 0);
            }
            Err(_) => assert!(false),
        }
        assert!(!rng.exhausted);
        cov!(s, bl == 0);
        cov!(s, bl == 64);
        cov!(s, bl == 65);
        cov!(s, bl == 96);
        cov!(s, bl == 97);
        cov!(s, bl == 128);
        cov!(s, bl == 129);
    }

    /// Int: I64::try_random_bits has the contract of the underlying Uint (bit pattern below 2^bit_length).
    #[kani::unwind(5)]
    fn c19_random_bits_i64(s) {
        let words: [u64; 2] = s.words();
        let bl = s.u32();
        s.assume(bl <= 65);
        let mut rng = SymRng::new(words, 0);
        match I64::try_random_bits(&mut rng, bl) {
            Ok(v) => {
                assert!(bl <= 64);
                assert!(v.as_uint().as_words()[0] == words[0] & mask64(bl));
            }
            Err(RandomBitsError::BitLengthTooLarge { bit_length, bits_precision }) => {
                assert!(bl > 64 && bit_length == bl && bits_precision == 64);
            }
            Err(_) => assert!(false),
        }
    }

    /// try_random_bits_with_precision on fixed types: BitsPrecisionMismatch {requested, BITS} iff bits_precision != BITS
    /// (checked before the length); otherwise as try_random_bits. Nothing is drawn on error.
    #[kani::unwind(5)]
    fn c19_random_bits_with_precision_u64(s) {
        let words: [u64; 2] = s.words();
        let bl = s.u32();
        let prec = s.u32();
        let mut rng = SymRng::new(words, 0);
        match U64::try_random_bits_with_precision(&mut rng, bl, prec) {
            Ok(v) => {
                assert!(prec == 64 && bl <= 64);
                assert!(u64_of(&v) == words[0] & mask64(bl));
            }
            Err(RandomBitsError::BitsPrecisionMismatch { bits_precision, integer_bits }) => {
                assert!(prec != 64);
                assert!(bits_precision == prec && integer_bits == 64);
                assert!(rng.pos == 0);
            }
            Err(RandomBitsError::BitLengthTooLarge { bit_length, bits_precision }) => {
                assert!(prec == 64 && bl > 64);
                assert!(bit_length == bl && bits_precision == 64);
                assert!(rng.pos == 0);
            }
            Err(_) => assert!(false),
        }
        cov!(s, prec == 64 && bl <= 64);
        cov!(s, prec == 128 && bl <= 64);
        cov!(s, prec == 64 && bl > 64);
        cov!(s, prec == 63);
    }

    #[kani::unwind(5)]
    fn c19_random_bits_with_precision_u128(s) {
        let words: [u64; 3] = s.words();
        let bl = s.u32();
        let prec = s.u32();
        let mut rng = SymRng::new(words, 0);
        match U128::try_random_bits_with_precision(&mut rng, bl, prec) {
            Ok(v) => {
                assert!(prec == 128 && bl <= 128);
                let stream = words[0] as u128 | ((words[1] as u128) << 64);
                assert!(u128_of(&v) == stream & mask128(bl));
            }
            Err(RandomBitsError::BitsPrecisionMismatch { bits_precision, integer_bits }) => {
                assert!(prec != 128);
                assert!(bits_precision == prec && integer_bits == 128);
                assert!(rng.pos == 0);
            }
            Err(RandomBitsError::BitLengthTooLarge { bit_length, bits_precision }) => {
                assert!(prec == 128 && bl > 128);
                assert!(bit_length == bl && bits_precision == 128);
                assert!(rng.pos == 0);
            }
            Err(_) => assert!(false),
        }
        cov!(s, prec == 128 && bl == 100);
        cov!(s, prec == 64 && bl <= 64);
    }

    /// BoxedUint::try_random_bits_with_precision(bl, 64) == U64::try_random_bits(bl): same error condition
    /// (bit_length > precision), same value, same consumption, precision as requested.
    /// (The precision is a literal: a symbolic allocation size exhausts CBMC's memory.)
    #[kani::unwind(5)]
    fn c19_random_bits_boxed64_eq_fixed(s) {
        let words: [u64; 2] = s.words();
        let bl = s.u32();
        s.assume(bl <= 65);
        let mut rng_b = SymRng::new(words, 0);
        let b = BoxedUint::try_random_bits_with_precision(&mut rng_b, bl, 64);
        let mut rng_f = SymRng::new(words, 0);
        let f = U64::try_random_bits(&mut rng_f, bl);
        match b {
            Ok(bv) => {
                assert!(bl <= 64);
                assert!(bv.bits_precision() == 64 && bv.nlimbs() == 1);
                match f { Ok(fv) => assert!(bv.as_words()[0] == u64_of(&fv)), Err(_) => assert!(false) }
                assert!(bl == 64 || bv.as_words()[0] < (1u64 << bl));
                assert!(rng_b.pos == rng_f.pos);
            }
            Err(RandomBitsError::BitLengthTooLarge { bit_length, bits_precision }) => {
                assert!(bl > 64);
                assert!(bit_length == bl && bits_precision == 64);
                assert!(f.is_err());
                assert!(rng_b.pos == 0);
            }
            Err(_) => assert!(false),
        }
        cov!(s, bl == 64);
        cov!(s, bl == 65);
        cov!(s, bl == 0);
    }

    /// ... and at 128 bits against U128.
    #[kani::unwind(5)]
    fn c19_random_bits_boxed128_eq_fixed(s) {
        let words: [u64; 3] = s.words();
        let bl = s.u32();
        s.assume(bl <= 129);
        let mut rng_b = SymRng::new(words, 0);
        let b = BoxedUint::try_random_bits_with_precision(&mut rng_b, bl, 128);
        let mut rng_f = SymRng::new(words, 0);
        let f = U128::try_random_bits(&mut rng_f, bl);
        match b {
            Ok(bv) => {
                assert!(bl <= 128);
                assert!(bv.bits_precision() == 128 && bv.nlimbs() == 2);
                let v = boxed_u128(&bv);
                match f { Ok(fv) => assert!(v == u128_of(&fv)), Err(_) => assert!(false) }
                assert!(bl == 128 || v < (1u128 << bl));
                assert!(rng_b.pos == rng_f.pos);
            }
            Err(RandomBitsError::BitLengthTooLarge { bit_length, bits_precision }) => {
                assert!(bl > 128);
                assert!(bit_length == bl && bits_precision == 128);
                assert!(f.is_err());
                assert!(rng_b.pos == 0);
            }
            Err(_) => assert!(false),
        }
        cov!(s, bl == 128);
        cov!(s, bl == 70);
        cov!(s, bl == 129);
    }

    /// BoxedUint::try_random_bits(bl) (precision = bl rounded up to whole limbs) for the literal lengths
    /// 1,2,31,32,33,63,64,65,95,96,97,127,128: never fails, value < 2^bl and equal to U128::try_random_bits(bl)
    /// on the same stream, identical consumption.
    #[kani::unwind(5)]
    fn c19_random_bits_boxed_auto_precision(s) {
        let words: [u64; 3] = s.words();
        let sel = s.u8();
        s.assume(sel < 13);
        fn one(words: [u64; 3], bl: u32) {
            let mut rng_b = SymRng::new(words, 0);
            let b = BoxedUint::try_random_bits(&mut rng_b, bl);
            let mut rng_f = SymRng::new(words, 0);
            let f = U128::try_random_bits(&mut rng_f, bl);
            match (b, f) {
                (Ok(bv), Ok(fv)) => {
                    assert!(bv.nlimbs() == ((bl + 63) / 64) as usize);
                    let v = boxed_u128(&bv);
                    assert!(v == u128_of(&fv));
                    assert!(bl == 128 || v < (1u128 << bl));
                    assert!(rng_b.pos == rng_f.pos);
                }
                _ => assert!(false),
            }
        }
        match sel {
            0 => one(words, 1), 1 => one(words, 2), 2 => one(words, 31), 3 => one(words, 32), 4 => one(words, 33),
            5 => one(words, 63), 6 => one(words, 64), 7 => one(words, 65), 8 => one(words, 95), 9 => one(words, 96),
            10 => one(words, 97), 11 => one(words, 127), _ => one(words, 128),
        }
    }

    /// BoxedUint::try_random_bits(rng, 0): Ok, value 0 (one zero limb: a BoxedUint never has no limbs), nothing drawn.
    #[kani::unwind(6)]
    fn c19_random_bits_boxed_zero_length(s) {
        let words: [u64; 1] = s.words();
        let mut rng = SymRng::new(words, 0);
        match BoxedUint::try_random_bits(&mut rng, 0) {
            Ok(v) => { assert!(bool::from(v.is_zero())); assert!(rng.pos == 0); assert!(v.nlimbs() == 1); }
            Err(_) => assert!(false),
        }
    }

    // ------------------------------------------------------------------ Random
    /// Random for Limb / U64 / U128 / I128: the stream words in order, least significant limb first -- so a U128
    /// consumes the stream exactly like two consecutive U64 draws (width independence).
    #[kani::unwind(6)]
    fn c19_random_uint_stream_order(s) {
        let words: [u64; 2] = s.words();
        let mut r1 = SymRng::new(words, 0);
        let a = u128_of(&U128::random(&mut r1));
        assert!(a == words[0] as u128 | ((words[1] as u128) << 64));
        assert!(r1.pos == 2 && !r1.exhausted);
        let mut r2 = SymRng::new(words, 0);
        let lo = u64_of(&U64::random(&mut r2));
        let hi = Limb::random(&mut r2).0;
        assert!(lo == words[0] && hi == words[1] && r2.pos == 2);
        let mut r3 = SymRng::new(words, 0);
        let i = I128::random(&mut r3);
        assert!(u128_of(i.as_uint()) == a && r3.pos == 2);
    }

    /// NonZero::<Limb|U64>::random: rejection of zero words; result != 0 and equal to the first non-zero word,
    /// for every stream (incl. leading all-zero words) that has a non-zero word among the first 4.
    #[kani::unwind(6)]
    fn c19_nonzero_random_u64(s) {
        let words: [u64; 4] = s.words();
        let mut rng = SymRng::new(words, 1);
        let r = u64_of(&NonZero::<U64>::random(&mut rng).get());
        let mut rng_l = SymRng::new(words, 1);
        let l = NonZero::<Limb>::random(&mut rng_l).get().0;
        s.assume(!rng.exhausted);
        assert!(r != 0);
        assert!(l == r && rng_l.pos == rng.pos && !rng_l.exhausted);
        let mut i = 0;
        let mut first = 0u64;
        let mut used = 0usize;
        while i < 4 { if first == 0 && words[i] != 0 { first = words[i]; used = i + 1; } i += 1; }
        assert!(r == first && rng.pos == used);
        cov!(s, words[0] == 0 && words[1] == 0 && words[2] == 0 && r == 1);
        cov!(s, words[0] != 0);
    }

    /// NonZero::<U128>::random: candidates are consecutive word pairs (low limb first); zero pairs are rejected.
    #[kani::unwind(6)]
    fn c19_nonzero_random_u128(s) {
        let words: [u64; 4] = s.words();
        let mut rng = SymRng::new(words, 1);
        let r = u128_of(&NonZero::<U128>::random(&mut rng).get());
        s.assume(!rng.exhausted);
        assert!(r != 0);
        let c0 = words[0] as u128 | ((words[1] as u128) << 64);
        let c1 = words[2] as u128 | ((words[3] as u128) << 64);
        if c0 != 0 { assert!(r == c0 && rng.pos == 2); } else { assert!(r == c1 && rng.pos == 4); }
        cov!(s, c0 == 0);
        cov!(s, c0 != 0 && words[0] == 0);
    }

    /// Odd::<U64|U128>::random: the stream value with bit 0 forced; odd for every stream incl. all-zero words.
    #[kani::unwind(6)]
    fn c19_odd_random_uint(s) {
        let words: [u64; 2] = s.words();
        let mut r1 = SymRng::new(words, 0);
        let a = u64_of(&Odd::<U64>::random(&mut r1).get());
        assert!(a & 1 == 1 && a == words[0] | 1 && r1.pos == 1);
        let mut r2 = SymRng::new(words, 0);
        let b = u128_of(&Odd::<U128>::random(&mut r2).get());
        assert!(b & 1 == 1 && b == (words[0] as u128 | ((words[1] as u128) << 64)) | 1 && r2.pos == 2);
        assert!(!r1.exhausted && !r2.exhausted);
        cov!(s, words[0] == 0 && words[1] == 0 && b == 1);
    }

    /// Odd::<BoxedUint>::random(rng, bit_length) for the literal lengths 1,2,32,33,64,65,96,97,128: odd,
    /// < 2^bit_length, equal to the fixed-width random_bits value with bit 0 forced.
    #[kani::unwind(5)]
    fn c19_odd_random_boxed(s) {
        let words: [u64; 3] = s.words();
        let sel = s.u8();
        s.assume(sel < 9);
        fn one(words: [u64; 3], bl: u32) -> u128 {
            let mut rng = SymRng::new(words, 0);
            let o = Odd::<BoxedUint>::random(&mut rng, bl);
            let v = boxed_u128(o.as_ref());
            assert!(v & 1 == 1);
            assert!(bl == 128 || v < (1u128 << bl));
            let stream = words[0] as u128 | ((words[1] as u128) << 64);
            assert!(v == (stream & mask128(bl)) | 1);
            assert!(o.as_ref().nlimbs() == ((bl + 63) / 64) as usize);
            assert!(rng.pos == ((bl + 63) / 64) as usize);
            v
        }
        let v = match sel {
            0 => one(words, 1), 1 => one(words, 2), 2 => one(words, 32), 3 => one(words, 33), 4 => one(words, 64),
            5 => one(words, 65), 6 => one(words, 96), 7 => one(words, 97), _ => one(words, 128),
        };
        cov!(s, sel == 0 && words[0] == 0 && v == 1);
        cov!(s, sel == 5 && words[0] == 0 && words[1] == 0);
    }
}
