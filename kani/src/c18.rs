//! C18: DER and RLP integer codecs are canonical and fail closed.
//! Bounds: U64 and U128 targets; DER magnitude strings of length 0..=BYTES+2 (all byte values);
//! RLP single-value encodings of total length 0..=BYTES+3.
use crate::*;
use crate::util::*;
use crypto_bigint::*;
use der::asn1::UintRef;
use der::{Decode, Encode};

fn be_value_local(b: &[u8]) -> u128 {
    let mut v: u128 = 0;
    let mut i = 0;
    while i < b.len() { v = (v << 8) | b[i] as u128; i += 1; }
    v
}

harnesses! {
    /// magnitude octets -> U64: never panics, accepts exactly what fits, value is positional
    #[kani::unwind(12)]
    fn c18_der_uintref_u64(s) {
        let buf: [u8; 10] = s.bytes();
        let len = s.usize();
        s.assume(len <= 10);
        let bytes = &buf[..len];
        if let Ok(r) = UintRef::new(bytes) {
            let stripped = r.as_bytes();
            let res = U64::try_from(r);
            match res {
                Ok(v) => {
                    assert!(stripped.len() <= 8);
                    assert!(v.as_words()[0] as u128 == be_value(stripped));
                }
                Err(_) => { assert!(stripped.len() > 8); }
            }
        }
    }
    #[kani::unwind(20)]
    fn c18_der_uintref_u128(s) {
        let buf: [u8; 18] = s.bytes();
        let len = s.usize();
        s.assume(len <= 18);
        let bytes = &buf[..len];
        if let Ok(r) = UintRef::new(bytes) {
            let stripped = r.as_bytes();
            let res = U128::try_from(r);
            match res {
                Ok(v) => {
                    assert!(stripped.len() <= 16);
                    let w = v.as_words();
                    assert!((w[0] as u128 | ((w[1] as u128) << 64)) == be_value(stripped));
                }
                Err(_) => { assert!(stripped.len() > 16); }
            }
        }
    }
}
