//! C18: DER and RLP integer codecs are canonical and fail closed.
//! Bounds: U64 and U128 targets; DER magnitude / content strings of length 0..=BYTES+2 (all byte values);
//! RLP inputs of total length 0..=BYTES+3 (all byte values); encoders on all values (DER) / a concrete table (RLP).
//!
//! DER: `der::SliceReader` + `Header::decode` is very expensive for CBMC (a fully concrete `U64::from_der` needs ~10 min
//! and ~11 GB, because every `read_byte` result is opaque to constant propagation and the `Length::decode` loop is
//! unwound to the global bound). The quick tier therefore enters at `DecodeValue::decode_value` / `EncodeValue` (the
//! code that lives in crypto-bigint) with a hand-built header; `from_der` / `encode_to_slice` are thorough-tier (c18t_).
//! RLP: the decoder is cheap; `RlpStream` (BytesMut, `slice::rotate` in the long-string arm) is only tractable for
//! concrete values.
use crate::*;
use crate::util::*;
use crypto_bigint::*;
use der::asn1::UintRef;
use der::{Decode, Encode};

fn be_value_local(b: &[u8]) -> u128 {
    let mut v: u128 = 0;
    let mut i = 0;
    while i < b.len() { v = (v << 8) | b[i] as u128; i += 1; }
    v
}

/// Reference DER INTEGER decoder (X.690 8.3 + 10.1) for an unsigned target of `cap` octets:
/// `Some(value)` iff `inp` is *exactly* one canonical, non-negative INTEGER TLV whose magnitude fits `cap` octets.
/// Valid for `cap + 1 < 128` (the content then always has a short-form length; every long-form or indefinite length
/// octet 0x80..=0xff is non-canonical or announces more content than an input of <= 127 octets can hold).
fn der_uint_ref(inp: &[u8], cap: usize) -> Option<u128> {
    let n = inp.len();
    if n < 3 { return None; }                          // tag, length, at least one content octet
    if inp[0] != 0x02 { return None; }                 // UNIVERSAL, primitive, INTEGER
    let l = inp[1] as usize;
    if l >= 0x80 { return None; }                      // long / indefinite form
    if l == 0 || n != 2 + l { return None; }           // empty content; truncated input; trailing octets
    let c = &inp[2..];
    if c[0] & 0x80 != 0 { return None; }               // negative
    if l > 1 && c[0] == 0 && c[1] & 0x80 == 0 { return None; } // superfluous leading 0x00
    let mag = if l > 1 && c[0] == 0 { &c[1..] } else { c };
    if mag.len() > cap { return None; }                // does not fit the target
    Some(be_value_local(mag))
}

/// Reference canonical DER encoding of `x` (a value of at most `cap <= 16` octets) into `out`; returns the length.
fn der_uint_enc_ref(x: u128, cap: usize, out: &mut [u8; 20]) -> usize {
    // number of significant octets (1 for zero)
    let mut k: usize = 1;
    let mut i = 1;
    while i < cap { if (x >> (8 * i)) != 0 { k = i + 1; } i += 1; }
    let top = (x >> (8 * (k - 1))) as u8;
    let pad = if top & 0x80 != 0 { 1 } else { 0 };
    out[0] = 0x02;
    out[1] = (k + pad) as u8;
    if pad == 1 { out[2] = 0; }
    let mut j = 0;
    while j < cap {
        if j < k { out[2 + pad + j] = (x >> (8 * (k - 1 - j))) as u8; }
        j += 1;
    }
    2 + pad + k
}

/// Reference RLP decoder for a single unsigned integer of at most `cap` octets (Ethereum yellow paper, app. B:
/// an integer is the byte string of its minimal big-endian representation; a string of length 1 below 0x80 is its own
/// encoding, strings of 0..=55 octets get the prefix 0x80 + length, the long form 0xb8.. is reserved for >= 56 octets).
/// `Some((value, item_len))` iff `inp` *starts with* the canonical encoding of an integer that fits.
fn rlp_uint_ref(inp: &[u8], cap: usize) -> Option<(u128, usize)> {
    if inp.is_empty() { return None; }
    let b0 = inp[0];
    if b0 < 0x80 { return if b0 == 0 { None } else { Some((b0 as u128, 1)) }; }
    if b0 <= 0xb7 {
        let n = (b0 - 0x80) as usize;
        if inp.len() < 1 + n { return None; }          // truncated
        if n == 0 { return Some((0, 1)); }
        let p = &inp[1..1 + n];
        if p[0] == 0 { return None; }                  // leading zero
        if n == 1 && p[0] < 0x80 { return None; }      // must be its own encoding
        if n > cap { return None; }                    // oversized
        return Some((be_value_local(p), 1 + n));
    }
    None // 0xb8..=0xbf: long form with a payload < 56 octets is non-canonical (and >= 56 > cap); 0xc0..: a list
}

/// Reference canonical RLP encoding of `x` (at most `cap <= 16` octets); returns the length.
fn rlp_uint_enc_ref(x: u128, cap: usize, out: &mut [u8; 20]) -> usize {
    if x == 0 { out[0] = 0x80; return 1; }
    if x < 0x80 { out[0] = x as u8; return 1; }
    let mut k: usize = 1;
    let mut i = 1;
    while i < cap { if (x >> (8 * i)) != 0 { k = i + 1; } i += 1; }
    out[0] = 0x80 + k as u8;
    let mut j = 0;
    while j < cap {
        if j < k { out[1 + j] = (x >> (8 * (k - 1 - j))) as u8; }
        j += 1;
    }
    1 + k
}

/// `Encodable::rlp_append` into the smallest stream (`RlpStream::new_with_buffer(BytesMut::default())`) produces the
/// reference encoding of `x`, and `rlp::decode` of it gives `x` back.
/// Only *concrete* `x`: with a symbolic value the payload length is symbolic, CBMC then explores the stream's
/// "> 55 octets" arm (`insert_size` -> `slice::rotate`, nested pointer loops) and runs out of memory (> 12 GB) --
/// tried with `rlp::encode`, with the empty-buffer stream, and with a concrete top octet.
fn rlp_encode_case_u64(x: u64) {
    let mut want = [0u8; 20];
    let n = rlp_uint_enc_ref(x as u128, 8, &mut want);
    let mut st = rlp::RlpStream::new_with_buffer(Default::default());
    rlp::Encodable::rlp_append(&mk64(x), &mut st);
    let enc = st.out();
    assert!(enc.len() == n);
    let mut i = 0;
    while i < 9 { if i < n { assert!(enc[i] == want[i]); } i += 1; }
    match rlp::decode::<U64>(&enc[..]) { Ok(y) => assert!(u64_of(&y) == x), Err(_) => assert!(false, "own encoding rejected") }
}
fn rlp_encode_case_u128(x: u128) {
    let mut want = [0u8; 20];
    let n = rlp_uint_enc_ref(x, 16, &mut want);
    let mut st = rlp::RlpStream::new_with_buffer(Default::default());
    rlp::Encodable::rlp_append(&mk128(x), &mut st);
    let enc = st.out();
    assert!(enc.len() == n);
    let mut i = 0;
    while i < 17 { if i < n { assert!(enc[i] == want[i]); } i += 1; }
    match rlp::decode::<U128>(&enc[..]) { Ok(y) => assert!(u128_of(&y) == x), Err(_) => assert!(false, "own encoding rejected") }
}

harnesses! {
    /// magnitude octets -> U64: never panics, accepts exactly what fits, value is positional
    #[kani::unwind(12)]
    fn c18_der_uintref_u64(s) {
        let buf: [u8; 10] = s.bytes();
        let len = s.usize();
        s.assume(len <= 10);
        let bytes = &buf[..len];
        if let Ok(r) = UintRef::new(bytes) {
            let stripped = r.as_bytes();
            let res = U64::try_from(r);
            match res {
                Ok(v) => {
                    assert!(stripped.len() <= 8);
                    assert!(v.as_words()[0] as u128 == be_value(stripped));
                }
                Err(_) => { assert!(stripped.len() > 8); }
            }
        }
    }
    #[kani::unwind(20)]
    fn c18_der_uintref_u128(s) {
        let buf: [u8; 18] = s.bytes();
        let len = s.usize();
        s.assume(len <= 18);
        let bytes = &buf[..len];
        if let Ok(r) = UintRef::new(bytes) {
            let stripped = r.as_bytes();
            let res = U128::try_from(r);
            match res {
                Ok(v) => {
                    assert!(stripped.len() <= 16);
                    let w = v.as_words();
                    assert!((w[0] as u128 | ((w[1] as u128) << 64)) == be_value(stripped));
                }
                Err(_) => { assert!(stripped.len() > 16); }
            }
        }
    }

    // ------------------------------------------------------------------ DER through der::Decode / der::Encode

    /// U64::from_der on tag + length field + first content octets symbolic (4 octets), concrete tail, total length
    /// 0..=13: Ok exactly for a canonical INTEGER TLV that fits, with the positional value; wrong tag, long-form /
    /// indefinite / zero / too long / too short length, trailing octets, negative, non-minimal and oversized
    /// contents are Err (never a panic)
    #[kani::unwind(9)]
    fn c18t_der_header_u64(s) {
        let h: [u8; 4] = s.bytes();
        let buf: [u8; 13] = [h[0], h[1], h[2], h[3], 0x80, 0x01, 0xfe, 0x00, 0x7f, 0xff, 0x10, 0x00, 0x01];
        let len = s.usize();
        s.assume(len <= 13);
        let inp = &buf[..len];
        let res = U64::from_der(inp);
        match der_uint_ref(inp, 8) {
            Some(v) => {
                s.cover(len == 11);
                match res { Ok(x) => assert!(u64_of(&x) as u128 == v), Err(_) => assert!(false, "canonical INTEGER rejected") }
            }
            None => assert!(res.is_err()),
        }
    }

    /// the part of `U64::from_der` that is crypto-bigint's: `DecodeValue::decode_value` on a `der::SliceReader` over
    /// the content octets with a hand-built INTEGER header, then `Reader::finish` (what `Decode::decode` + `from_der`
    /// do after `Header::decode`). Content: 0..=10 symbolic octets; announced length 0..=11 (also != actual length).
    /// Ok exactly for canonical, non-negative, fitting content of exactly the announced length; value positional;
    /// empty / negative (top bit set) / non-minimal (superfluous 0x00) / oversized / truncated / trailing -> Err
    #[kani::unwind(11)]
    fn c18_der_decode_value_u64(s) {
        let buf: [u8; 10] = s.bytes();
        let len = s.usize();
        s.assume(len <= 10);
        let hl = s.u16();
        s.assume(hl <= 11);
        let content = &buf[..len];
        let mut reader = match der::SliceReader::new(content) { Ok(r) => r, Err(_) => { assert!(false); return; } };
        let header = match der::Header::new(der::Tag::Integer, der::Length::new(hl)) { Ok(h) => h, Err(_) => { assert!(false); return; } };
        let res = <U64 as der::DecodeValue>::decode_value(&mut reader, header).and_then(|v| der::Reader::finish(reader, v));
        // the TLV this corresponds to
        let mut tlv = [0u8; 12];
        tlv[0] = 0x02;
        tlv[1] = hl as u8;
        let mut i = 0;
        while i < 10 { tlv[2 + i] = buf[i]; i += 1; }
        let expect = if hl as usize == len { der_uint_ref(&tlv[..2 + len], 8) } else { None };
        match expect {
            Some(v) => {
                s.cover(len == 9);
                match res { Ok(x) => assert!(u64_of(&x) as u128 == v), Err(_) => assert!(false, "canonical INTEGER rejected") }
            }
            None => assert!(res.is_err()),
        }
    }
    /// same for U128: content 0..=18 octets, announced length 0..=19
    #[kani::unwind(19)]
    fn c18_der_decode_value_u128(s) {
        let buf: [u8; 18] = s.bytes();
        let len = s.usize();
        s.assume(len <= 18);
        let hl = s.u16();
        s.assume(hl <= 19);
        let content = &buf[..len];
        let mut reader = match der::SliceReader::new(content) { Ok(r) => r, Err(_) => { assert!(false); return; } };
        let header = match der::Header::new(der::Tag::Integer, der::Length::new(hl)) { Ok(h) => h, Err(_) => { assert!(false); return; } };
        let res = <U128 as der::DecodeValue>::decode_value(&mut reader, header).and_then(|v| der::Reader::finish(reader, v));
        let mut tlv = [0u8; 20];
        tlv[0] = 0x02;
        tlv[1] = hl as u8;
        let mut i = 0;
        while i < 18 { tlv[2 + i] = buf[i]; i += 1; }
        let expect = if hl as usize == len { der_uint_ref(&tlv[..2 + len], 16) } else { None };
        match expect {
            Some(v) => {
                s.cover(len == 17);
                match res { Ok(x) => assert!(u128_of(&x) == v), Err(_) => assert!(false, "canonical INTEGER rejected") }
            }
            None => assert!(res.is_err()),
        }
    }

    /// `TryFrom<AnyRef> for Uint` (an ANY-typed field holding an INTEGER): content 0..=10 symbolic octets, tag INTEGER or
    /// OCTET STRING / BIT STRING / SEQUENCE; Ok exactly for tag INTEGER with canonical, non-negative, fitting content
    #[kani::unwind(12)]
    fn c18_der_anyref_u64(s) {
        let buf: [u8; 10] = s.bytes();
        let len = s.usize();
        s.assume(len <= 10);
        let t = s.u8();
        s.assume(t <= 3);
        let tag = match t { 0 => der::Tag::Integer, 1 => der::Tag::OctetString, 2 => der::Tag::BitString, _ => der::Tag::Sequence };
        let any = match der::asn1::AnyRef::new(tag, &buf[..len]) { Ok(a) => a, Err(_) => { assert!(false); return; } };
        let res = U64::try_from(any);
        let mut tlv = [0u8; 12];
        tlv[0] = 0x02;
        tlv[1] = len as u8;
        let mut i = 0;
        while i < 10 { tlv[2 + i] = buf[i]; i += 1; }
        let expect = if t == 0 { der_uint_ref(&tlv[..2 + len], 8) } else { None };
        match expect {
            Some(v) => {
                s.cover(len == 9);
                match res { Ok(x) => assert!(u64_of(&x) as u128 == v), Err(_) => assert!(false, "canonical INTEGER rejected") }
            }
            None => assert!(res.is_err()),
        }
    }

    /// crypto-bigint's `EncodeValue` for U64 (`value_len`, `encode_value` into a `der::SliceWriter`): for every value the
    /// content octets are the canonical INTEGER content: minimal big-endian magnitude, preceded by 0x00 exactly when
    /// its top bit is set (never negative, never a superfluous leading octet)
    #[kani::unwind(11)]
    fn c18_der_encode_value_u64(s) {
        let x = s.u64();
        let mut want = [0u8; 20];
        let n = der_uint_enc_ref(x as u128, 8, &mut want) - 2; // content only
        let ux = mk64(x);
        match der::EncodeValue::value_len(&ux) { Ok(l) => assert!(u32::from(l) as usize == n), Err(_) => assert!(false) }
        let mut out = [0u8; 10];
        let mut w = der::SliceWriter::new(&mut out);
        assert!(der::EncodeValue::encode_value(&ux, &mut w).is_ok());
        match w.finish() {
            Ok(enc) => {
                assert!(enc.len() == n && n >= 1 && n <= 9);
                let mut i = 0;
                while i < 9 { if i < n { assert!(enc[i] == want[2 + i]); } i += 1; }
                assert!(enc[0] & 0x80 == 0);
                assert!(!(n > 1 && enc[0] == 0 && enc[1] & 0x80 == 0));
            }
            Err(_) => assert!(false, "encoding failed"),
        }
    }
    /// `EncodeValue` for U128
    #[kani::unwind(19)]
    fn c18_der_encode_value_u128(s) {
        let x = s.u128();
        let mut want = [0u8; 20];
        let n = der_uint_enc_ref(x, 16, &mut want) - 2;
        let ux = mk128(x);
        match der::EncodeValue::value_len(&ux) { Ok(l) => assert!(u32::from(l) as usize == n), Err(_) => assert!(false) }
        let mut out = [0u8; 18];
        let mut w = der::SliceWriter::new(&mut out);
        assert!(der::EncodeValue::encode_value(&ux, &mut w).is_ok());
        match w.finish() {
            Ok(enc) => {
                assert!(enc.len() == n && n >= 1 && n <= 17);
                let mut i = 0;
                while i < 17 { if i < n { assert!(enc[i] == want[2 + i]); } i += 1; }
                assert!(enc[0] & 0x80 == 0);
                assert!(!(n > 1 && enc[0] == 0 && enc[1] & 0x80 == 0));
            }
            Err(_) => assert!(false, "encoding failed"),
        }
    }

    /// der::Encode for U64 (`encode_to_slice`, `encoded_len`): for every value the output is the canonical INTEGER TLV
    /// (tag 0x02, short-form length, minimal content, 0x00 prefix exactly when the top bit would be set)
    #[kani::unwind(12)]
    fn c18t_der_encode_u64(s) {
        let x = s.u64();
        let mut out = [0u8; 12];
        let mut want = [0u8; 20];
        let n = der_uint_enc_ref(x as u128, 8, &mut want);
        let ux = mk64(x);
        match ux.encode_to_slice(&mut out) {
            Ok(enc) => {
                assert!(enc.len() == n);
                let mut i = 0;
                while i < 11 { if i < n { assert!(enc[i] == want[i]); } i += 1; }
                // canonical, stated directly on the output
                assert!(enc[0] == 0x02 && enc[1] as usize == n - 2 && n >= 3 && n <= 11);
                assert!(enc[2] & 0x80 == 0);
                assert!(!(n > 3 && enc[2] == 0 && enc[3] & 0x80 == 0));
            }
            Err(_) => assert!(false, "encoding failed"),
        }
        match ux.encoded_len() { Ok(l) => assert!(u32::from(l) as usize == n), Err(_) => assert!(false) }
    }
    /// der::Encode for U128
    #[kani::unwind(20)]
    fn c18t_der_encode_u128(s) {
        let x = s.u128();
        let mut out = [0u8; 20];
        let mut want = [0u8; 20];
        let n = der_uint_enc_ref(x, 16, &mut want);
        let ux = mk128(x);
        match ux.encode_to_slice(&mut out) {
            Ok(enc) => {
                assert!(enc.len() == n);
                let mut i = 0;
                while i < 19 { if i < n { assert!(enc[i] == want[i]); } i += 1; }
                assert!(enc[0] == 0x02 && enc[1] as usize == n - 2 && n >= 3 && n <= 19);
                assert!(enc[2] & 0x80 == 0);
                assert!(!(n > 3 && enc[2] == 0 && enc[3] & 0x80 == 0));
            }
            Err(_) => assert!(false, "encoding failed"),
        }
        match ux.encoded_len() { Ok(l) => assert!(u32::from(l) as usize == n), Err(_) => assert!(false) }
    }
    /// an output buffer one octet too short is an error, not a panic or a truncated encoding (U64, all values)
    #[kani::unwind(10)]
    fn c18t_der_encode_short_buffer_u64(s) {
        let x = s.u64();
        let mut want = [0u8; 20];
        let n = der_uint_enc_ref(x as u128, 8, &mut want);
        let mut out = [0u8; 12];
        let cut = s.usize();
        s.assume(cut < n);
        assert!(mk64(x).encode_to_slice(&mut out[..cut]).is_err());
    }

    /// decode(encode(x)) == x for every U64: encode_to_slice, then the tag / length octets are checked literally and
    /// the content goes through DecodeValue + finish (the `from_der` header parser itself: c18t_der_header_u64)
    #[kani::unwind(12)]
    fn c18t_der_roundtrip_u64(s) {
        let x = s.u64();
        let mut out = [0u8; 12];
        let enc = match mk64(x).encode_to_slice(&mut out) { Ok(e) => e, Err(_) => { assert!(false); return; } };
        assert!(enc.len() >= 3 && enc[0] == 0x02 && enc[1] as usize == enc.len() - 2);
        let mut reader = match der::SliceReader::new(&enc[2..]) { Ok(r) => r, Err(_) => { assert!(false); return; } };
        let header = match der::Header::new(der::Tag::Integer, der::Length::new(enc[1] as u16)) { Ok(h) => h, Err(_) => { assert!(false); return; } };
        let res = <U64 as der::DecodeValue>::decode_value(&mut reader, header).and_then(|v| der::Reader::finish(reader, v));
        match res { Ok(y) => assert!(u64_of(&y) == x), Err(_) => assert!(false, "own encoding rejected") }
    }
    /// decode(encode(x)) == x for every U128
    #[kani::unwind(20)]
    fn c18t_der_roundtrip_u128(s) {
        let x = s.u128();
        let mut out = [0u8; 20];
        let enc = match mk128(x).encode_to_slice(&mut out) { Ok(e) => e, Err(_) => { assert!(false); return; } };
        assert!(enc.len() >= 3 && enc[0] == 0x02 && enc[1] as usize == enc.len() - 2);
        let mut reader = match der::SliceReader::new(&enc[2..]) { Ok(r) => r, Err(_) => { assert!(false); return; } };
        let header = match der::Header::new(der::Tag::Integer, der::Length::new(enc[1] as u16)) { Ok(h) => h, Err(_) => { assert!(false); return; } };
        let res = <U128 as der::DecodeValue>::decode_value(&mut reader, header).and_then(|v| der::Reader::finish(reader, v));
        match res { Ok(y) => assert!(u128_of(&y) == x), Err(_) => assert!(false, "own encoding rejected") }
    }

    // ------------------------------------------------------------------ RLP

    /// rlp::decode::<U64> on every byte string of 0..=11 octets whose first octet is not a long-form string prefix
    /// (0xb8..=0xbf, see c18_rlp_decode_longform_u64): never panics; Ok(v) exactly when the string starts with the
    /// canonical encoding of an integer of <= 8 octets (no leading zero, single octets < 0x80 unprefixed, not
    /// truncated, not a list), and then v is the big-endian value of the payload
    #[kani::unwind(13)]
    fn c18_rlp_decode_u64(s) {
        let buf: [u8; 11] = s.bytes();
        let len = s.usize();
        s.assume(len <= 11);
        s.assume(!(buf[0] >= 0xb8 && buf[0] <= 0xbf));
        let inp = &buf[..len];
        let res = rlp::decode::<U64>(inp);
        match rlp_uint_ref(inp, 8) {
            Some((v, _)) => {
                s.cover(len == 9);
                match res { Ok(x) => assert!(u64_of(&x) as u128 == v), Err(_) => assert!(false, "canonical RLP integer rejected") }
            }
            None => assert!(res.is_err()),
        }
    }
    /// rlp::decode::<U128> on every byte string of 0..=19 octets (first octet not in 0xb8..=0xbf)
    #[kani::unwind(21)]
    fn c18_rlp_decode_u128(s) {
        let buf: [u8; 19] = s.bytes();
        let len = s.usize();
        s.assume(len <= 19);
        s.assume(!(buf[0] >= 0xb8 && buf[0] <= 0xbf));
        let inp = &buf[..len];
        let res = rlp::decode::<U128>(inp);
        match rlp_uint_ref(inp, 16) {
            Some((v, _)) => {
                s.cover(len == 17);
                match res { Ok(x) => assert!(u128_of(&x) == v), Err(_) => assert!(false, "canonical RLP integer rejected") }
            }
            None => assert!(res.is_err()),
        }
    }
    /// long-form string prefix 0xb8..=0xbf ("length of the length" form) in front of a payload shorter than 56 octets is
    /// a non-canonical encoding: every such input of <= 11 octets must be rejected
    #[kani::unwind(13)]
    fn c18_rlp_decode_longform_u64(s) {
        let buf: [u8; 11] = s.bytes();
        let len = s.usize();
        s.assume(len <= 11);
        s.assume(buf[0] >= 0xb8 && buf[0] <= 0xbf);
        let res = rlp::decode::<U64>(&buf[..len]);
        assert!(res.is_err());
    }
    /// an accepted input is consumed entirely: no octets after the encoded integer (U64, inputs of <= 11 octets)
    #[kani::unwind(13)]
    fn c18_rlp_decode_trailing_u64(s) {
        let buf: [u8; 11] = s.bytes();
        let len = s.usize();
        s.assume(len <= 11);
        s.assume(!(buf[0] >= 0xb8 && buf[0] <= 0xbf));
        let inp = &buf[..len];
        if rlp::decode::<U64>(inp).is_ok() {
            match rlp_uint_ref(inp, 8) { Some((_, item_len)) => assert!(item_len == len), None => assert!(false) }
        }
    }

    /// RLP encoding, U64, concrete table 1 (see `rlp_encode_case`): 0, 1, 0x7f | 0x80 boundary, 0xff, 0x100
    #[kani::unwind(12)]
    fn c18_rlp_encode_u64_small(s) {
        rlp_encode_case_u64(0);
        rlp_encode_case_u64(1);
        rlp_encode_case_u64(0x7f);
        rlp_encode_case_u64(0x80);
        rlp_encode_case_u64(0xff);
        rlp_encode_case_u64(0x100);
    }
    /// RLP encoding, U64, concrete table 2: 0x7fff | 0x8000, 2^32, 2^56 - 1 | 2^56, 2^63, 2^64 - 1
    #[kani::unwind(12)]
    fn c18_rlp_encode_u64_large(s) {
        rlp_encode_case_u64(0x8000);
        rlp_encode_case_u64(0x1_0000_0000);
        rlp_encode_case_u64(0x00ff_ffff_ffff_ffff);
        rlp_encode_case_u64(0x0100_0000_0000_0000);
        rlp_encode_case_u64(0x8000_0000_0000_0000);
        rlp_encode_case_u64(0xffff_ffff_ffff_ffff);
    }
    /// RLP encoding, U128, concrete table: 0, 0x80, 2^64 - 1 | 2^64, 2^120, 2^127, 2^128 - 1
    #[kani::unwind(20)]
    fn c18_rlp_encode_u128(s) {
        rlp_encode_case_u128(0);
        rlp_encode_case_u128(0x80);
        rlp_encode_case_u128(0xffff_ffff_ffff_ffff);
        rlp_encode_case_u128(0x1_0000_0000_0000_0000);
        rlp_encode_case_u128(1u128 << 120);
        rlp_encode_case_u128(1u128 << 127);
        rlp_encode_case_u128(u128::MAX);
    }
    /// the public `rlp::encode` entry point (1 KiB BytesMut) on two concrete values, and decode(encode(x)) == x
    #[kani::unwind(12)]
    fn c18_rlp_encode_api_u64(s) {
        let e = rlp::encode(&mk64(0x80));
        assert!(e.len() == 2 && e[0] == 0x81 && e[1] == 0x80);
        match rlp::decode::<U64>(&e[..]) { Ok(y) => assert!(u64_of(&y) == 0x80), Err(_) => assert!(false) }
        let e = rlp::encode(&mk64(u64::MAX));
        assert!(e.len() == 9 && e[0] == 0x88);
        let mut i = 0;
        while i < 8 { assert!(e[1 + i] == 0xff); i += 1; }
        match rlp::decode::<U64>(&e[..]) { Ok(y) => assert!(u64_of(&y) == u64::MAX), Err(_) => assert!(false) }
    }
}
