//! C04: addition, subtraction, negation are exact, and carry / borrow / overflow / `none` / panic is reported
//! exactly when the true result lies outside [0, 2^BITS).
//!
//! What is here: the forms the Verus engine cannot take - trait impls (`CheckedAdd/Sub`, `WrappingAdd/Sub/Neg`),
//! operators (by value, by reference, assigning), the `Wrapping<T>` / `Checked<T>` wrappers, and every `BoxedUint`
//! form (inherent, trait, operator, mixed with `Uint<N>` / primitives) - all operand values symbolic.
//! Widths: Limb, U64, U128 (quick), U192 (thorough); BoxedUint precisions (1,1), (1,2), (2,1), (2,2) limbs.
//! Oracle: plain u64/u128 arithmetic (`overflowing_add`, `overflowing_sub`, `wrapping_neg`), for U192 a
//! (u128, u64) pair with explicit carry.
//!
//! Panic harnesses are *strict*: after the call that has to panic they run `no_return()`, which under Kani raises a
//! non-panic failure. `#[kani::should_panic]` then fails unless every input satisfying the assumption panics.
use crate::*;
use crate::util::*;
use crypto_bigint::*;
use subtle::{Choice, CtOption};

/// Reaching this point makes a `#[kani::should_panic]` harness fail (failure class other than "assertion");
/// in the replay driver it is a no-op, so the body returns normally = "expected panic did not happen".
#[cfg(kani)]
fn no_return() { unsafe { let _ = 255u8.unchecked_add(1); } }
#[cfg(not(kani))]
fn no_return() { crate::src::missed_panic(); }

fn opt<T>(o: CtOption<T>) -> Option<T> { Option::from(o) }
fn ck<T>(v: T, valid: bool) -> Checked<T> { Checked(CtOption::new(v, Choice::from(valid as u8))) }

fn u192_of(x: &U192) -> (u128, u64) { let w = x.as_words(); (w[0] as u128 | ((w[1] as u128) << 64), w[2]) }
fn mk192p(lo: u128, hi: u64) -> U192 { U192::from_words([lo as u64, (lo >> 64) as u64, hi]) }
fn add192(a: (u128, u64), b: (u128, u64)) -> ((u128, u64), bool) {
    let (lo, c) = a.0.overflowing_add(b.0);
    let t = a.1 as u128 + b.1 as u128 + c as u128;
    ((lo, t as u64), (t >> 64) != 0)
}
fn sub192(a: (u128, u64), b: (u128, u64)) -> ((u128, u64), bool) {
    let (lo, br) = a.0.overflowing_sub(b.0);
    let t = (a.1 as u128).wrapping_sub(b.1 as u128).wrapping_sub(br as u128);
    ((lo, t as u64), (t >> 64) != 0)
}

/// every non-panicking route to a + b: `$exp` = (a + b) mod 2^BITS, `$ovf` = a + b >= 2^BITS
macro_rules! add_forms {
    ($s:ident, $T:ty, $a:expr, $b:expr, $exp:expr, $ovf:expr) => {{
        let (a, b, exp, ovf): ($T, $T, $T, bool) = ($a, $b, $exp, $ovf);
        // traits
        match opt(CheckedAdd::checked_add(&a, &b)) { Some(v) => { assert!(!ovf); assert!(v == exp); } None => assert!(ovf) }
        assert!(WrappingAdd::wrapping_add(&a, &b) == exp);
        // Wrapping<T>
        let (wa, wb) = (Wrapping(a), Wrapping(b));
        assert!((wa + wb).0 == exp);
        assert!((wa + &wb).0 == exp);
        assert!((&wa + wb).0 == exp);
        assert!((&wa + &wb).0 == exp);
        let mut w = wa; w += wb; assert!(w.0 == exp);
        let mut w = wa; w += &wb; assert!(w.0 == exp);
        // Checked<T>: some exactly when both operands are some and the sum fits (none is sticky)
        let (va, vb) = ($s.bool(), $s.bool());
        let (ca, cb) = (ck(a, va), ck(b, vb));
        let want = va && vb && !ovf;
        let mut c5 = ca; c5 += cb;
        let mut c6 = ca; c6 += &cb;
        let rs = [ca + cb, ca + &cb, &ca + cb, &ca + &cb, c5, c6];
        let mut i = 0;
        while i < 6 {
            match opt(rs[i].0) { Some(v) => { assert!(want); assert!(v == exp); } None => assert!(!want) }
            i += 1;
        }
    }};
}
macro_rules! sub_forms {
    ($s:ident, $T:ty, $a:expr, $b:expr, $exp:expr, $ovf:expr) => {{
        let (a, b, exp, ovf): ($T, $T, $T, bool) = ($a, $b, $exp, $ovf);
        match opt(CheckedSub::checked_sub(&a, &b)) { Some(v) => { assert!(!ovf); assert!(v == exp); } None => assert!(ovf) }
        assert!(WrappingSub::wrapping_sub(&a, &b) == exp);
        let (wa, wb) = (Wrapping(a), Wrapping(b));
        assert!((wa - wb).0 == exp);
        assert!((wa - &wb).0 == exp);
        assert!((&wa - wb).0 == exp);
        assert!((&wa - &wb).0 == exp);
        let mut w = wa; w -= wb; assert!(w.0 == exp);
        let mut w = wa; w -= &wb; assert!(w.0 == exp);
        let (va, vb) = ($s.bool(), $s.bool());
        let (ca, cb) = (ck(a, va), ck(b, vb));
        let want = va && vb && !ovf;
        let mut c5 = ca; c5 -= cb;
        let mut c6 = ca; c6 -= &cb;
        let rs = [ca - cb, ca - &cb, &ca - cb, &ca - &cb, c5, c6];
        let mut i = 0;
        while i < 6 {
            match opt(rs[i].0) { Some(v) => { assert!(want); assert!(v == exp); } None => assert!(!want) }
            i += 1;
        }
    }};
}
/// `Uint` inherent saturating / carry forms and negation forms; `$neg` = (2^BITS - a) mod 2^BITS
macro_rules! uint_sat_neg_forms {
    ($T:ty, $a:expr, $b:expr, $sum:expr, $covf:expr, $diff:expr, $bovf:expr, $neg:expr) => {{
        let (a, b): ($T, $T) = ($a, $b);
        assert!(a.saturating_add(&b) == if $covf { <$T>::MAX } else { $sum });
        assert!(a.saturating_sub(&b) == if $bovf { <$T>::ZERO } else { $diff });
        let (r, c) = a.adc(&b, Limb::ZERO); assert!(r == $sum && c.0 == $covf as u64);
        let (r, c) = a.sbb(&b, Limb::ZERO); assert!(r == $diff && c.0 == if $bovf { u64::MAX } else { 0 });
        let neg: $T = $neg;
        assert!(WrappingNeg::wrapping_neg(&a) == neg);
        let (n, carry) = a.carrying_neg();
        assert!(n == neg);
        assert!(bool::from(carry) == (a == <$T>::ZERO));
        assert!(a.wrapping_neg_if(ConstChoice::TRUE) == neg);
        assert!(a.wrapping_neg_if(ConstChoice::FALSE) == a);
        assert!((-Wrapping(a)).0 == neg);
        assert!((-&Wrapping(a)).0 == neg);
    }};
}
/// operator routes on `Uint`: 0 `a + b`, 1 `a + &b`, 2 `a += b`, 3 `a += &b`
fn uint_add_op<const L: usize>(form: u8, a: Uint<L>, b: Uint<L>) -> Uint<L> {
    match form { 0 => a + b, 1 => a + &b, 2 => { let mut x = a; x += b; x } _ => { let mut x = a; x += &b; x } }
}
fn uint_sub_op<const L: usize>(form: u8, a: Uint<L>, b: Uint<L>) -> Uint<L> {
    match form { 0 => a - b, 1 => a - &b, 2 => { let mut x = a; x -= b; x } _ => { let mut x = a; x -= &b; x } }
}

// ---------------------------------------------------------------- BoxedUint helpers
fn bx(n: usize, v: u128) -> BoxedUint {
    if n == 1 { BoxedUint::from_words([v as u64]) } else { BoxedUint::from_words([v as u64, (v >> 64) as u64]) }
}
fn bmask(n: usize) -> u128 { if n == 1 { u64::MAX as u128 } else { u128::MAX } }
/// precision is exactly `n` limbs and the value is `v`
fn bx_is(x: &BoxedUint, n: usize, v: u128) -> bool {
    if x.nlimbs() != n || x.bits_precision() != 64 * n as u32 { return false; }
    let w = x.as_words();
    if w[0] != v as u64 { return false; }
    if n == 2 { w[1] == (v >> 64) as u64 } else { (v >> 64) == 0 }
}
/// a + b + cin over `n` limbs: (sum mod 2^(64n), carry word)
fn ref_adc(n: usize, a: u128, b: u128, cin: u64) -> (u128, u64) {
    if n == 1 {
        let t = a + b + cin as u128;   // a, b < 2^64
        (t as u64 as u128, (t >> 64) as u64)
    } else {
        let (t1, c1) = a.overflowing_add(b);
        let (t2, c2) = t1.overflowing_add(cin as u128);
        (t2, c1 as u64 + c2 as u64)
    }
}
/// a - (b + borrow_in) over `n` limbs, borrow_in = top bit of the incoming borrow word: (difference, borrow mask)
fn ref_sbb(n: usize, a: u128, b: u128, bin: u64) -> (u128, u64) {
    let bi = (bin >> 63) as u128;
    if n == 1 {
        let t = a.wrapping_sub(b).wrapping_sub(bi);      // a, b < 2^64: borrow <=> t wrapped below zero
        (t as u64 as u128, if (t >> 64) != 0 { u64::MAX } else { 0 })
    } else {
        let (t1, b1) = a.overflowing_sub(b);
        let (t2, b2) = t1.overflowing_sub(bi);
        (t2, if b1 || b2 { u64::MAX } else { 0 })
    }
}
fn maxn(a: usize, b: usize) -> usize { if a > b { a } else { b } }

/// adc / sbb / wrapping_* / checked_* (inherent and trait) for operand precisions (la, lb); result precision = max
fn boxed_np<S: Src>(s: &mut S, la: usize, lb: usize) {
    let a = s.u128() & bmask(la);
    let b = s.u128() & bmask(lb);
    let cin = s.u64();
    let n = maxn(la, lb);
    let (x, y) = (bx(la, a), bx(lb, b));
    let (sum, carry) = ref_adc(n, a, b, cin);
    let (r, c) = x.adc(&y, Limb(cin));
    assert!(bx_is(&r, n, sum)); assert!(c.0 == carry);
    let (diff, borrow) = ref_sbb(n, a, b, cin);
    let (r, c) = x.sbb(&y, Limb(cin));
    assert!(bx_is(&r, n, diff)); assert!(c.0 == borrow);
    let (sum0, carry0) = ref_adc(n, a, b, 0);
    let (diff0, borrow0) = ref_sbb(n, a, b, 0);
    assert!(bx_is(&x.wrapping_add(&y), n, sum0));
    assert!(bx_is(&WrappingAdd::wrapping_add(&x, &y), n, sum0));
    assert!(bx_is(&x.wrapping_sub(&y), n, diff0));
    assert!(bx_is(&WrappingSub::wrapping_sub(&x, &y), n, diff0));
    match opt(x.checked_add(&y)) { Some(v) => { assert!(carry0 == 0); assert!(bx_is(&v, n, sum0)); } None => assert!(carry0 != 0) }
    match opt(x.checked_sub(&y)) { Some(v) => { assert!(borrow0 == 0); assert!(bx_is(&v, n, diff0)); } None => assert!(borrow0 != 0) }
}
/// Wrapping<BoxedUint> `+` `-` through the generic impls (WrappingAdd / WrappingSub): precision = widest operand
fn boxed_np_w<S: Src>(s: &mut S, la: usize, lb: usize) {
    let a = s.u128() & bmask(la);
    let b = s.u128() & bmask(lb);
    let n = maxn(la, lb);
    let sum0 = ref_adc(n, a, b, 0).0;
    let diff0 = ref_sbb(n, a, b, 0).0;
    let (wx, wy) = (Wrapping(bx(la, a)), Wrapping(bx(lb, b)));
    assert!(bx_is(&(&wx + &wy).0, n, sum0));
    assert!(bx_is(&(&wx - &wy).0, n, diff0));
    assert!(bx_is(&(wx.clone() + wy.clone()).0, n, sum0));
    assert!(bx_is(&(wx - wy).0, n, diff0));
}
/// `BoxedUint op BoxedUint`, all four by-value / by-reference combinations
fn boxed_add_op(form: u8, x: &BoxedUint, y: &BoxedUint) -> BoxedUint {
    match form { 0 => x.clone() + y.clone(), 1 => x.clone() + y, 2 => x + y.clone(), _ => x + y }
}
fn boxed_sub_op(form: u8, x: &BoxedUint, y: &BoxedUint) -> BoxedUint {
    match form { 0 => x.clone() - y.clone(), 1 => x.clone() - y, 2 => x - y.clone(), _ => x - y }
}
/// in-place forms with a BoxedUint right-hand side: 0 `+=` value, 1 `+=` reference
fn boxed_add_assign(form: u8, x: &BoxedUint, y: &BoxedUint) -> BoxedUint {
    let mut r = x.clone();
    match form { 0 => r += y.clone(), _ => r += y }
    r
}
fn boxed_sub_assign(form: u8, x: &BoxedUint, y: &BoxedUint) -> BoxedUint {
    let mut r = x.clone();
    match form { 0 => r -= y.clone(), _ => r -= y }
    r
}
/// `BoxedUint op Uint<L>`: 0 v+v, 1 v+&, 2 &+v, 3 &+&, 4 `op=` v, 5 `op=` &
fn boxed_add_uint<const L: usize>(form: u8, x: &BoxedUint, y: Uint<L>) -> BoxedUint {
    match form {
        0 => x.clone() + y, 1 => x.clone() + &y, 2 => x + y, 3 => x + &y,
        4 => { let mut r = x.clone(); r += y; r }
        _ => { let mut r = x.clone(); r += &y; r }
    }
}
fn boxed_sub_uint<const L: usize>(form: u8, x: &BoxedUint, y: Uint<L>) -> BoxedUint {
    match form {
        0 => x.clone() - y, 1 => x.clone() - &y, 2 => x - y, 3 => x - &y,
        4 => { let mut r = x.clone(); r -= y; r }
        _ => { let mut r = x.clone(); r -= &y; r }
    }
}
/// `BoxedUint op primitive`: kind 0 u8, 1 u16, 2 u32, 3 u64, 4 u128 (`p` already truncated to the kind);
/// form 0 value + p, 1 reference + p, 2 `op=` p
fn boxed_add_prim(kind: u8, form: u8, x: &BoxedUint, p: u128) -> BoxedUint {
    macro_rules! go { ($t:ty) => { match form { 0 => x.clone() + p as $t, 1 => x + p as $t, _ => { let mut r = x.clone(); r += p as $t; r } } } }
    match kind { 0 => go!(u8), 1 => go!(u16), 2 => go!(u32), 3 => go!(u64), _ => go!(u128) }
}
fn boxed_sub_prim(kind: u8, form: u8, x: &BoxedUint, p: u128) -> BoxedUint {
    macro_rules! go { ($t:ty) => { match form { 0 => x.clone() - p as $t, 1 => x - p as $t, _ => { let mut r = x.clone(); r -= p as $t; r } } } }
    match kind { 0 => go!(u8), 1 => go!(u16), 2 => go!(u32), 3 => go!(u64), _ => go!(u128) }
}
fn prim_mask(kind: u8) -> u128 {
    match kind { 0 => u8::MAX as u128, 1 => u16::MAX as u128, 2 => u32::MAX as u128, 3 => u64::MAX as u128, _ => u128::MAX }
}

// ---- BoxedUint harness bodies, parameterised by *concrete* operand precisions (a symbolic precision makes every
// ---- limb loop unbounded for CBMC)
fn boxed_ops_ok<S: Src>(s: &mut S, la: usize, lb: usize) {
    let f = s.u8(); s.assume(f < 4);
    let n = maxn(la, lb);
    let a = s.u128() & bmask(la); let b = s.u128() & bmask(lb);
    let (x, y) = (bx(la, a), bx(lb, b));
    let (sum, carry) = ref_adc(n, a, b, 0);
    let (diff, borrow) = ref_sbb(n, a, b, 0);
    if carry == 0 { assert!(bx_is(&boxed_add_op(f, &x, &y), n, sum)); }
    if borrow == 0 { assert!(bx_is(&boxed_sub_op(f, &x, &y), n, diff)); }
    s.cover(carry == 0); s.cover(borrow == 0);
}
fn boxed_ops_panic<S: Src>(s: &mut S, la: usize, lb: usize, sub: bool) {
    let f = s.u8(); s.assume(f < 4);
    let a = s.u128() & bmask(la); let b = s.u128() & bmask(lb);
    if sub { s.assume(a < b); let _ = boxed_sub_op(f, &bx(la, a), &bx(lb, b)); }
    else { s.assume(ref_adc(maxn(la, lb), a, b, 0).1 != 0); let _ = boxed_add_op(f, &bx(la, a), &bx(lb, b)); }
    no_return();
}
fn boxed_assign_ok<S: Src>(s: &mut S, la: usize, lb: usize) {
    let a = s.u128() & bmask(la); let b = s.u128() & bmask(lb); let cin = s.u64();
    let (x, y) = (bx(la, a), bx(lb, b));
    let (sum, carry) = ref_adc(la, a, b, cin);
    let mut r = x.clone(); let c = r.adc_assign(&y, Limb(cin));
    assert!(bx_is(&r, la, sum) && c.0 == carry);
    let (diff, borrow) = ref_sbb(la, a, b, cin);
    let mut r = x.clone(); let c = r.sbb_assign(&y, Limb(cin));
    assert!(bx_is(&r, la, diff) && c.0 == borrow);
    let (sum0, carry0) = ref_adc(la, a, b, 0);
    let (diff0, borrow0) = ref_sbb(la, a, b, 0);
    let f = s.u8(); s.assume(f < 2);
    if carry0 == 0 { assert!(bx_is(&boxed_add_assign(f, &x, &y), la, sum0)); }
    if borrow0 == 0 { assert!(bx_is(&boxed_sub_assign(f, &x, &y), la, diff0)); }
    s.cover(carry0 == 0); s.cover(borrow0 == 0);
}
fn boxed_wrapping_assign<S: Src>(s: &mut S, la: usize, lb: usize) {
    let a = s.u128() & bmask(la); let b = s.u128() & bmask(lb);
    let (x, y) = (bx(la, a), bx(lb, b));
    let sum0 = ref_adc(la, a, b, 0).0; let diff0 = ref_sbb(la, a, b, 0).0;
    let mut w = Wrapping(x.clone()); w += Wrapping(y.clone()); assert!(bx_is(&w.0, la, sum0));
    let mut w = Wrapping(x.clone()); w += &Wrapping(y.clone()); assert!(bx_is(&w.0, la, sum0));
    let mut w = Wrapping(x.clone()); w -= Wrapping(y.clone()); assert!(bx_is(&w.0, la, diff0));
    let mut w = Wrapping(x); w -= &Wrapping(y); assert!(bx_is(&w.0, la, diff0));
}
fn boxed_assign_panic<S: Src>(s: &mut S, la: usize, lb: usize, sub: bool) {
    let f = s.u8(); s.assume(f < 2);
    let a = s.u128() & bmask(la); let b = s.u128() & bmask(lb);
    if sub { s.assume(a < b); let _ = boxed_sub_assign(f, &bx(la, a), &bx(lb, b)); }
    else { s.assume(ref_adc(la, a, b, 0).1 != 0); let _ = boxed_add_assign(f, &bx(la, a), &bx(lb, b)); }
    no_return();
}
fn boxed_uint_rhs_ok<S: Src>(s: &mut S, la: usize, lb: usize) {
    let f = s.u8(); s.assume(f < 6);
    let a = s.u128() & bmask(la); let b = s.u128() & bmask(lb);
    let x = bx(la, a);
    let (sum, carry) = ref_adc(la, a, b, 0);
    let (diff, borrow) = ref_sbb(la, a, b, 0);
    if carry == 0 {
        let r = if lb == 1 { boxed_add_uint(f, &x, mk64(b as u64)) } else { boxed_add_uint(f, &x, mk128(b)) };
        assert!(bx_is(&r, la, sum));
    }
    if borrow == 0 {
        let r = if lb == 1 { boxed_sub_uint(f, &x, mk64(b as u64)) } else { boxed_sub_uint(f, &x, mk128(b)) };
        assert!(bx_is(&r, la, diff));
    }
    s.cover(carry == 0); s.cover(borrow == 0);
}
fn boxed_uint_rhs_panic<S: Src>(s: &mut S, la: usize, lb: usize, sub: bool) {
    let f = s.u8(); s.assume(f < 6);
    let a = s.u128() & bmask(la); let b = s.u128() & bmask(lb);
    let x = bx(la, a);
    if sub {
        s.assume(a < b);
        let _ = if lb == 1 { boxed_sub_uint(f, &x, mk64(b as u64)) } else { boxed_sub_uint(f, &x, mk128(b)) };
    } else {
        s.assume(ref_adc(la, a, b, 0).1 != 0);
        let _ = if lb == 1 { boxed_add_uint(f, &x, mk64(b as u64)) } else { boxed_add_uint(f, &x, mk128(b)) };
    }
    no_return();
}
/// kinds 0..kmax: u8, u16, u32, u64, (u128)
fn boxed_prim_rhs_ok<S: Src>(s: &mut S, la: usize, kmax: u8) {
    let (kind, f) = (s.u8(), s.u8()); s.assume(kind < kmax && f < 3);
    let a = s.u128() & bmask(la); let p = s.u128() & prim_mask(kind);
    let x = bx(la, a);
    let (sum, carry) = ref_adc(la, a, p, 0);
    let (diff, borrow) = ref_sbb(la, a, p, 0);
    if carry == 0 { assert!(bx_is(&boxed_add_prim(kind, f, &x, p), la, sum)); }
    if borrow == 0 { assert!(bx_is(&boxed_sub_prim(kind, f, &x, p), la, diff)); }
    s.cover(carry == 0 && kind == kmax - 1); s.cover(borrow == 0 && kind == 0);
}
fn boxed_prim_rhs_panic<S: Src>(s: &mut S, la: usize, kmax: u8, sub: bool) {
    let (kind, f) = (s.u8(), s.u8()); s.assume(kind < kmax && f < 3);
    let a = s.u128() & bmask(la); let p = s.u128() & prim_mask(kind);
    if sub { s.assume(a < p); let _ = boxed_sub_prim(kind, f, &bx(la, a), p); }
    else { s.assume(ref_adc(la, a, p, 0).1 != 0); let _ = boxed_add_prim(kind, f, &bx(la, a), p); }
    no_return();
}

harnesses! {
    fn c00_warmup(s) { let x = s.u8(); assert!(x as u16 + 1 > 0); }

    // ------------------------------------------------------------------ Limb
    /// Limb: CheckedAdd, WrappingAdd, Wrapping<Limb> + / +=, Checked<Limb> + / += (sticky none)
    fn c04_limb_add_forms(s) {
        let (a, b) = (s.u64(), s.u64());
        let t = a as u128 + b as u128;
        add_forms!(s, Limb, Limb(a), Limb(b), Limb(t as u64), (t >> 64) != 0);
    }
    /// Limb: CheckedSub, WrappingSub, Wrapping<Limb> - / -=, Checked<Limb> - / -=
    fn c04_limb_sub_forms(s) {
        let (a, b) = (s.u64(), s.u64());
        let (d, bovf) = a.overflowing_sub(b);
        sub_forms!(s, Limb, Limb(a), Limb(b), Limb(d), bovf);
    }
    /// Limb: saturating_*, wrapping_*, overflowing_add, adc / sbb with any carry / borrow word, WrappingNeg, -Wrapping
    fn c04_limb_inherent_neg_forms(s) {
        let (a, b, c) = (s.u64(), s.u64(), s.u64());
        let (la, lb) = (Limb(a), Limb(b));
        let t = a as u128 + b as u128;
        let (sum, covf) = (Limb(t as u64), (t >> 64) != 0);
        let (d, bovf) = a.overflowing_sub(b);
        assert!(la.saturating_add(lb) == if covf { Limb::MAX } else { sum });
        assert!(la.saturating_sub(lb) == if bovf { Limb::ZERO } else { Limb(d) });
        assert!(la.wrapping_add(lb) == sum);
        assert!(la.wrapping_sub(lb) == Limb(d));
        let (r, cy) = la.overflowing_add(lb); assert!(r == sum && cy.0 == covf as u64);
        let t3 = t + c as u128;
        let (r, cy) = la.adc(lb, Limb(c)); assert!(r.0 == t3 as u64 && cy.0 == (t3 >> 64) as u64);
        let t4 = (a as u128).wrapping_sub(b as u128).wrapping_sub((c >> 63) as u128);
        let (r, bw) = la.sbb(lb, Limb(c)); assert!(r.0 == t4 as u64 && bw.0 == if (t4 >> 64) != 0 { u64::MAX } else { 0 });
        assert!(WrappingNeg::wrapping_neg(&la).0 == 0u64.wrapping_sub(a));
        assert!(la.wrapping_neg().0 == 0u64.wrapping_sub(a));
        assert!((-Wrapping(la)).0.0 == 0u64.wrapping_sub(a));
        assert!((-&Wrapping(la)).0.0 == 0u64.wrapping_sub(a));
    }
    /// Limb `+`, `-`, `- &`: no panic and exact when the result is in range
    fn c04_limb_ops_ok(s) {
        let (a, b) = (s.u64(), s.u64());
        if let Some(t) = a.checked_add(b) { assert!((Limb(a) + Limb(b)).0 == t); }
        if let Some(t) = a.checked_sub(b) { assert!((Limb(a) - Limb(b)).0 == t); assert!((Limb(a) - &Limb(b)).0 == t); }
        s.cover(a.checked_add(b).is_some()); s.cover(a.checked_sub(b).is_some());
    }
    /// Limb `+` panics for every a + b >= 2^64
    #[kani::should_panic]
    fn c04_limb_add_panic(s) {
        let (a, b) = (s.u64(), s.u64());
        s.assume(a.checked_add(b).is_none());
        let _ = Limb(a) + Limb(b);
        no_return();
    }
    /// Limb `-` / `- &` panic for every a < b
    #[kani::should_panic]
    fn c04_limb_sub_panic(s) {
        let (a, b) = (s.u64(), s.u64());
        s.assume(a < b);
        if s.bool() { let _ = Limb(a) - Limb(b); } else { let _ = Limb(a) - &Limb(b); }
        no_return();
    }

    // ------------------------------------------------------------------ U64
    /// U64: CheckedAdd, WrappingAdd, Wrapping<U64> + / +=, Checked<U64> + / += (sticky none)
    fn c04_u64_add_forms(s) {
        let (a, b) = (s.u64(), s.u64());
        let t = a as u128 + b as u128;
        add_forms!(s, U64, mk64(a), mk64(b), mk64(t as u64), (t >> 64) != 0);
    }
    /// U64: CheckedSub, WrappingSub, Wrapping<U64> - / -=, Checked<U64> - / -=
    fn c04_u64_sub_forms(s) {
        let (a, b) = (s.u64(), s.u64());
        let (d, bovf) = a.overflowing_sub(b);
        sub_forms!(s, U64, mk64(a), mk64(b), mk64(d), bovf);
    }
    /// U64: saturating_add/sub, adc/sbb, WrappingNeg, carrying_neg, wrapping_neg_if, -Wrapping
    fn c04_u64_sat_neg_forms(s) {
        let (a, b) = (s.u64(), s.u64());
        let t = a as u128 + b as u128;
        let (sum, covf) = (mk64(t as u64), (t >> 64) != 0);
        let (d, bovf) = a.overflowing_sub(b);
        uint_sat_neg_forms!(U64, mk64(a), mk64(b), sum, covf, mk64(d), bovf, mk64(a.wrapping_neg()));
    }
    /// U64 `+ +& += +=&` exact when a + b < 2^64
    fn c04_u64_add_ops_ok(s) {
        let (a, b) = (s.u64(), s.u64());
        s.assume(a.checked_add(b).is_some()); s.cover(true);
        let mut f = 0; while f < 4 { assert!(u64_of(&uint_add_op(f, mk64(a), mk64(b))) == a + b); f += 1; }
    }
    /// U64 `+ +& += +=&` all panic for every a + b >= 2^64
    #[kani::should_panic]
    fn c04_u64_add_ops_panic(s) {
        let (a, b, f) = (s.u64(), s.u64(), s.u8());
        s.assume(a.checked_add(b).is_none() && f < 4);
        let _ = uint_add_op(f, mk64(a), mk64(b));
        no_return();
    }
    fn c04_u64_sub_ops_ok(s) {
        let (a, b) = (s.u64(), s.u64());
        s.assume(a >= b); s.cover(true);
        let mut f = 0; while f < 4 { assert!(u64_of(&uint_sub_op(f, mk64(a), mk64(b))) == a - b); f += 1; }
    }
    #[kani::should_panic]
    fn c04_u64_sub_ops_panic(s) {
        let (a, b, f) = (s.u64(), s.u64(), s.u8());
        s.assume(a < b && f < 4);
        let _ = uint_sub_op(f, mk64(a), mk64(b));
        no_return();
    }

    // ------------------------------------------------------------------ U128
    fn c04_u128_add_forms(s) {
        let (a, b) = (s.u128(), s.u128());
        let (t, covf) = a.overflowing_add(b);
        add_forms!(s, U128, mk128(a), mk128(b), mk128(t), covf);
    }
    fn c04_u128_sub_forms(s) {
        let (a, b) = (s.u128(), s.u128());
        let (d, bovf) = a.overflowing_sub(b);
        sub_forms!(s, U128, mk128(a), mk128(b), mk128(d), bovf);
    }
    fn c04_u128_sat_neg_forms(s) {
        let (a, b) = (s.u128(), s.u128());
        let (t, covf) = a.overflowing_add(b);
        let (d, bovf) = a.overflowing_sub(b);
        uint_sat_neg_forms!(U128, mk128(a), mk128(b), mk128(t), covf, mk128(d), bovf, mk128(a.wrapping_neg()));
    }
    fn c04_u128_add_ops_ok(s) {
        let (a, b) = (s.u128(), s.u128());
        s.assume(a.checked_add(b).is_some()); s.cover(true);
        let mut f = 0; while f < 4 { assert!(u128_of(&uint_add_op(f, mk128(a), mk128(b))) == a + b); f += 1; }
    }
    #[kani::should_panic]
    fn c04_u128_add_ops_panic(s) {
        let (a, b, f) = (s.u128(), s.u128(), s.u8());
        s.assume(a.checked_add(b).is_none() && f < 4);
        let _ = uint_add_op(f, mk128(a), mk128(b));
        no_return();
    }
    fn c04_u128_sub_ops_ok(s) {
        let (a, b) = (s.u128(), s.u128());
        s.assume(a >= b); s.cover(true);
        let mut f = 0; while f < 4 { assert!(u128_of(&uint_sub_op(f, mk128(a), mk128(b))) == a - b); f += 1; }
    }
    #[kani::should_panic]
    fn c04_u128_sub_ops_panic(s) {
        let (a, b, f) = (s.u128(), s.u128(), s.u8());
        s.assume(a < b && f < 4);
        let _ = uint_sub_op(f, mk128(a), mk128(b));
        no_return();
    }

    // ------------------------------------------------------------------ U192 (thorough)
    fn c04t_u192_add_forms(s) {
        let a = (s.u128(), s.u64()); let b = (s.u128(), s.u64());
        let (t, covf) = add192(a, b);
        add_forms!(s, U192, mk192p(a.0, a.1), mk192p(b.0, b.1), mk192p(t.0, t.1), covf);
    }
    fn c04t_u192_sub_forms(s) {
        let a = (s.u128(), s.u64()); let b = (s.u128(), s.u64());
        let (d, bovf) = sub192(a, b);
        sub_forms!(s, U192, mk192p(a.0, a.1), mk192p(b.0, b.1), mk192p(d.0, d.1), bovf);
    }
    fn c04t_u192_sat_neg_forms(s) {
        let a = (s.u128(), s.u64()); let b = (s.u128(), s.u64());
        let (t, covf) = add192(a, b);
        let (d, bovf) = sub192(a, b);
        let (n, _) = sub192((0, 0), a);
        let (x, y) = (mk192p(a.0, a.1), mk192p(b.0, b.1));
        uint_sat_neg_forms!(U192, x, y, mk192p(t.0, t.1), covf, mk192p(d.0, d.1), bovf, mk192p(n.0, n.1));
    }
    fn c04t_u192_ops_ok(s) {
        let a = (s.u128(), s.u64()); let b = (s.u128(), s.u64());
        let (t, covf) = add192(a, b);
        let (d, bovf) = sub192(a, b);
        let (x, y) = (mk192p(a.0, a.1), mk192p(b.0, b.1));
        let mut f = 0;
        while f < 4 {
            if !covf { assert!(u192_of(&uint_add_op(f, x, y)) == t); }
            if !bovf { assert!(u192_of(&uint_sub_op(f, x, y)) == d); }
            f += 1;
        }
        s.cover(!covf); s.cover(!bovf);
    }
    #[kani::should_panic]
    fn c04t_u192_add_ops_panic(s) {
        let a = (s.u128(), s.u64()); let b = (s.u128(), s.u64()); let f = s.u8();
        s.assume(add192(a, b).1 && f < 4);
        let _ = uint_add_op(f, mk192p(a.0, a.1), mk192p(b.0, b.1));
        no_return();
    }
    #[kani::should_panic]
    fn c04t_u192_sub_ops_panic(s) {
        let a = (s.u128(), s.u64()); let b = (s.u128(), s.u64()); let f = s.u8();
        s.assume(sub192(a, b).1 && f < 4);
        let _ = uint_sub_op(f, mk192p(a.0, a.1), mk192p(b.0, b.1));
        no_return();
    }

    // ------------------------------------------------------------------ BoxedUint
    /// adc/sbb (any carry word), wrapping_*, CheckedAdd/Sub, WrappingAdd/Sub, Wrapping<BoxedUint> +/-;
    /// precisions (1,1) (1,2) (2,1) (2,2); result precision = widest operand (rustdoc of `fold_limbs`)
    fn c04_boxed_np_11(s) { boxed_np(s, 1, 1); }
    fn c04_boxed_np_12(s) { boxed_np(s, 1, 2); }
    fn c04_boxed_np_21(s) { boxed_np(s, 2, 1); }
    fn c04_boxed_np_22(s) { boxed_np(s, 2, 2); }
    fn c04_boxed_np_w_11(s) { boxed_np_w(s, 1, 1); }
    fn c04_boxed_np_w_12(s) { boxed_np_w(s, 1, 2); }
    fn c04_boxed_np_w_21(s) { boxed_np_w(s, 2, 1); }
    fn c04_boxed_np_w_22(s) { boxed_np_w(s, 2, 2); }
    /// wrapping_neg (inherent, WrappingNeg, `-Wrapping`): precision kept, value 2^P - a
    fn c04_boxed_neg_1(s) {
        let a = s.u64();
        let x1 = bx(1, a as u128);
        let n1 = a.wrapping_neg() as u128;
        assert!(bx_is(&x1.wrapping_neg(), 1, n1));
        assert!(bx_is(&WrappingNeg::wrapping_neg(&x1), 1, n1));
        assert!(bx_is(&(-&Wrapping(x1.clone())).0, 1, n1));
        assert!(bx_is(&(-Wrapping(x1)).0, 1, n1));
    }
    fn c04_boxed_neg_2(s) {
        let a = s.u128();
        let x2 = bx(2, a);
        assert!(bx_is(&x2.wrapping_neg(), 2, a.wrapping_neg()));
        assert!(bx_is(&WrappingNeg::wrapping_neg(&x2), 2, a.wrapping_neg()));
        assert!(bx_is(&(-&Wrapping(x2.clone())).0, 2, a.wrapping_neg()));
        assert!(bx_is(&(-Wrapping(x2)).0, 2, a.wrapping_neg()));
    }
    /// three limbs (a carry that ripples through an all-ones middle limb needs >= 3 limbs): -x == !x + 1 limb-wise, x + (-x) == 0 mod 2^192
    #[kani::unwind(5)]
    fn c04_boxed_neg_3(s) {
        let w: [u64; 3] = s.words();
        let x = BoxedUint::from_words(w);
        let n = x.wrapping_neg();
        assert!(n.nlimbs() == 3);
        let nw = n.as_words();
        // reference: two's complement over 192 bits
        let (l0, c0) = (!w[0]).overflowing_add(1);
        let (l1, c1) = (!w[1]).overflowing_add(c0 as u64);
        let l2 = (!w[2]).wrapping_add(c1 as u64);
        assert!(nw[0] == l0 && nw[1] == l1 && nw[2] == l2);
        let t = WrappingNeg::wrapping_neg(&x);
        let tw = t.as_words();
        assert!(t.nlimbs() == 3 && tw[0] == l0 && tw[1] == l1 && tw[2] == l2);
    }
    /// `BoxedUint + BoxedUint` / `-` (4 value/reference combinations): exact, precision = widest operand
    fn c04_boxed_ops_ok_11(s) { boxed_ops_ok(s, 1, 1); }
    fn c04_boxed_ops_ok_12(s) { boxed_ops_ok(s, 1, 2); }
    fn c04_boxed_ops_ok_21(s) { boxed_ops_ok(s, 2, 1); }
    fn c04_boxed_ops_ok_22(s) { boxed_ops_ok(s, 2, 2); }
    /// ... and all four combinations panic for every overflowing / underflowing pair
    #[kani::should_panic] fn c04_boxed_add_ops_panic_11(s) { boxed_ops_panic(s, 1, 1, false); }
    #[kani::should_panic] fn c04_boxed_add_ops_panic_12(s) { boxed_ops_panic(s, 1, 2, false); }
    #[kani::should_panic] fn c04_boxed_add_ops_panic_21(s) { boxed_ops_panic(s, 2, 1, false); }
    #[kani::should_panic] fn c04_boxed_add_ops_panic_22(s) { boxed_ops_panic(s, 2, 2, false); }
    #[kani::should_panic] fn c04_boxed_sub_ops_panic_11(s) { boxed_ops_panic(s, 1, 1, true); }
    #[kani::should_panic] fn c04_boxed_sub_ops_panic_12(s) { boxed_ops_panic(s, 1, 2, true); }
    #[kani::should_panic] fn c04_boxed_sub_ops_panic_21(s) { boxed_ops_panic(s, 2, 1, true); }
    #[kani::should_panic] fn c04_boxed_sub_ops_panic_22(s) { boxed_ops_panic(s, 2, 2, true); }
    /// adc_assign / sbb_assign (any carry word), `+=` `-=` (value, reference); right-hand side not wider than the
    /// receiver; the receiver keeps its precision
    fn c04_boxed_assign_ok_11(s) { boxed_assign_ok(s, 1, 1); }
    fn c04_boxed_assign_ok_21(s) { boxed_assign_ok(s, 2, 1); }
    fn c04_boxed_assign_ok_22(s) { boxed_assign_ok(s, 2, 2); }
    /// Wrapping<BoxedUint> `+=` `-=` (value, reference): wraps at the receiver's precision
    fn c04_boxed_wrapping_assign_11(s) { boxed_wrapping_assign(s, 1, 1); }
    fn c04_boxed_wrapping_assign_21(s) { boxed_wrapping_assign(s, 2, 1); }
    fn c04_boxed_wrapping_assign_22(s) { boxed_wrapping_assign(s, 2, 2); }
    #[kani::should_panic] fn c04_boxed_add_assign_panic_11(s) { boxed_assign_panic(s, 1, 1, false); }
    #[kani::should_panic] fn c04_boxed_add_assign_panic_21(s) { boxed_assign_panic(s, 2, 1, false); }
    #[kani::should_panic] fn c04_boxed_add_assign_panic_22(s) { boxed_assign_panic(s, 2, 2, false); }
    #[kani::should_panic] fn c04_boxed_sub_assign_panic_11(s) { boxed_assign_panic(s, 1, 1, true); }
    #[kani::should_panic] fn c04_boxed_sub_assign_panic_21(s) { boxed_assign_panic(s, 2, 1, true); }
    #[kani::should_panic] fn c04_boxed_sub_assign_panic_22(s) { boxed_assign_panic(s, 2, 2, true); }
    /// rustdoc of adc_assign / sbb_assign: "Panics if `rhs` has a larger precision than `self`" - for every value
    /// (holds only because Kani builds with debug assertions: the check is a `debug_assert!`)
    #[kani::should_panic]
    fn c04_boxed_adc_assign_wider_panics(s) {
        let a = s.u64(); let b = s.u128(); let cin = s.u64();
        let mut x = bx(1, a as u128);
        if s.bool() { let _ = x.adc_assign(&bx(2, b), Limb(cin)); } else { let _ = x.sbb_assign(&bx(2, b), Limb(cin)); }
        no_return();
    }
    /// `BoxedUint op Uint<N>` (6 routes each for + and -): U64 with a receiver of 1 or 2 limbs, U128 with a receiver
    /// of 2 limbs: exact, receiver precision kept
    fn c04_boxed_uint_rhs_ok_11(s) { boxed_uint_rhs_ok(s, 1, 1); }
    fn c04_boxed_uint_rhs_ok_21(s) { boxed_uint_rhs_ok(s, 2, 1); }
    fn c04_boxed_uint_rhs_ok_22(s) { boxed_uint_rhs_ok(s, 2, 2); }
    #[kani::should_panic] fn c04_boxed_uint_rhs_add_panic_11(s) { boxed_uint_rhs_panic(s, 1, 1, false); }
    #[kani::should_panic] fn c04_boxed_uint_rhs_add_panic_21(s) { boxed_uint_rhs_panic(s, 2, 1, false); }
    #[kani::should_panic] fn c04_boxed_uint_rhs_add_panic_22(s) { boxed_uint_rhs_panic(s, 2, 2, false); }
    #[kani::should_panic] fn c04_boxed_uint_rhs_sub_panic_11(s) { boxed_uint_rhs_panic(s, 1, 1, true); }
    #[kani::should_panic] fn c04_boxed_uint_rhs_sub_panic_21(s) { boxed_uint_rhs_panic(s, 2, 1, true); }
    #[kani::should_panic] fn c04_boxed_uint_rhs_sub_panic_22(s) { boxed_uint_rhs_panic(s, 2, 2, true); }
    /// `BoxedUint op u8/u16/u32/u64` (receiver 1 or 2 limbs) and `op u128` (receiver 2 limbs); value, reference, assigning
    fn c04_boxed_prim_rhs_ok_1(s) { boxed_prim_rhs_ok(s, 1, 4); }
    fn c04_boxed_prim_rhs_ok_2(s) { boxed_prim_rhs_ok(s, 2, 5); }
    #[kani::should_panic] fn c04_boxed_prim_rhs_add_panic_1(s) { boxed_prim_rhs_panic(s, 1, 4, false); }
    #[kani::should_panic] fn c04_boxed_prim_rhs_add_panic_2(s) { boxed_prim_rhs_panic(s, 2, 5, false); }
    #[kani::should_panic] fn c04_boxed_prim_rhs_sub_panic_1(s) { boxed_prim_rhs_panic(s, 1, 4, true); }
    #[kani::should_panic] fn c04_boxed_prim_rhs_sub_panic_2(s) { boxed_prim_rhs_panic(s, 2, 5, true); }

    // Right-hand side wider than the receiver (receiver 1 limb, rhs type 2 limbs). Every such form goes through
    // `BoxedUint::adc_assign` / `sbb_assign`, whose rustdoc says "Panics if `rhs` has a larger precision than `self`":
    // the documented behaviour is a panic for EVERY value of the wider operand (since fix ddac7e1 in both build profiles;
    // before it a release build silently dropped the high limbs: 5 += 2^64 gave 5).
    /// `x += &wide`, `x -= &wide` with a 2-limb BoxedUint: documented precision panic, whatever the values
    #[kani::should_panic]
    fn c04_boxed_wider_rhs_assign_panics(s) {
        let (a, b, f, sub) = (s.u64(), s.u64(), s.u8(), s.bool()); s.assume(f < 2);
        let x = bx(1, a as u128); let y = bx(2, b as u128);
        let _ = if sub { boxed_sub_assign(f, &x, &y) } else { boxed_add_assign(f, &x, &y) };
        no_return();
    }
    /// `x + U128`, `x - U128` (6 routes): documented precision panic
    #[kani::should_panic]
    fn c04_boxed_wider_rhs_uint_panics(s) {
        let (a, b, f, sub) = (s.u64(), s.u64(), s.u8(), s.bool()); s.assume(f < 6);
        let x = bx(1, a as u128);
        let _ = if sub { boxed_sub_uint(f, &x, mk128(b as u128)) } else { boxed_add_uint(f, &x, mk128(b as u128)) };
        no_return();
    }
    /// `x + p`, `x - p`, `x += p`, `x -= p` with p: u128 and a 1-limb receiver: documented precision panic
    #[kani::should_panic]
    fn c04_boxed_wider_rhs_u128_panics(s) {
        let (a, b, f, sub) = (s.u64(), s.u64(), s.u8(), s.bool()); s.assume(f < 3);
        let x = bx(1, a as u128);
        let _ = if sub { boxed_sub_prim(4, f, &x, b as u128) } else { boxed_add_prim(4, f, &x, b as u128) };
        no_return();
    }
    /// ... and every wider-rhs form panics when the true result is outside [0, 2^64) (rhs >= 2^64 included)
    #[kani::should_panic]
    fn c04_boxed_wider_rhs_panic(s) {
        let (a, b, route, f, sub) = (s.u64(), s.u128(), s.u8(), s.u8(), s.bool());
        s.assume(route < 3 && f < 6);
        s.assume(if sub { (a as u128) < b } else { (a as u128).checked_add(b).map_or(true, |t| t > u64::MAX as u128) });
        let x = bx(1, a as u128);
        let _ = match (route, sub) {
            (0, false) => boxed_add_assign(f & 1, &x, &bx(2, b)),
            (0, true) => boxed_sub_assign(f & 1, &x, &bx(2, b)),
            (1, false) => boxed_add_uint(f, &x, mk128(b)),
            (1, true) => boxed_sub_uint(f, &x, mk128(b)),
            (_, false) => boxed_add_prim(4, f % 3, &x, b),
            (_, true) => boxed_sub_prim(4, f % 3, &x, b),
        };
        no_return();
    }
}
