//! C04 smoke
use crate::*;
use crypto_bigint::*;
harnesses! {
    fn c00_warmup(s) { let x = s.u8(); assert!(x as u16 + 1 > 0); }
    fn c04_smoke_adc(s) {
        let a = s.u64(); let b = s.u64();
        let (r, c) = U64::from_u64(a).adc(&U64::from_u64(b), Limb::ZERO);
        let t = a as u128 + b as u128;
        assert!(r.as_words()[0] == t as u64);
        assert!(c.0 == (t >> 64) as u64);
    }
}
