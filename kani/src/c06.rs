//! C06: comparison, equality, hashing and conditional selection are mutually coherent.
//!
//! Reference semantics: the u64/u128/i128 order of the represented values (lexicographic on limbs for U192).
//! Bounds: Limb, U64, U128, U192 (thorough), I64, I128 -- all values; BoxedUint with 1 or 2 limbs in the
//! precision combinations (1,1), (1,2), (2,1), (2,2) -- all limb values. Every harness is loop-free up to the
//! fixed limb counts.
use crate::*;
use crate::util::*;
use crypto_bigint::*;
use crypto_bigint::subtle::{
    Choice, ConditionallyNegatable, ConditionallySelectable, ConstantTimeEq, ConstantTimeGreater, ConstantTimeLess,
    CtOption,
};
use core::cmp::Ordering;
use core::hash::{Hash, Hasher};

/// Records every byte written by `Hash::hash`: "hash equally" is checked on the exact byte stream, which decides the
/// outcome for *every* deterministic hasher. `finish` is FNV-1a over the recorded bytes; it is only called on
/// literal inputs (a chain of symbolic 64-bit multiplications does not get through CBMC).
struct RecHasher { buf: [u8; 32], len: usize }
impl RecHasher {
    fn new() -> Self { Self { buf: [0; 32], len: 0 } }
    fn same_stream(&self, o: &Self) -> bool {
        if self.len != o.len || self.len > 32 { return false; }
        let mut i = 0;
        let mut eq = true;
        while i < 32 { if i < self.len { eq &= self.buf[i] == o.buf[i]; } i += 1; }
        eq
    }
}
impl Hasher for RecHasher {
    fn finish(&self) -> u64 {
        let mut h: u64 = 0xcbf29ce484222325;
        let mut i = 0;
        while i < 32 { if i < self.len { h = (h ^ self.buf[i] as u64).wrapping_mul(0x100000001b3); } i += 1; }
        h
    }
    fn write(&mut self, bytes: &[u8]) {
        let mut i = 0;
        while i < bytes.len() {
            if self.len < 32 { self.buf[self.len] = bytes[i]; }
            self.len += 1;
            i += 1;
        }
    }
}
fn rec<T: Hash>(x: &T) -> RecHasher { let mut h = RecHasher::new(); x.hash(&mut h); h }

fn ord_u128(a: u128, b: u128) -> Ordering { if a < b { Ordering::Less } else if a > b { Ordering::Greater } else { Ordering::Equal } }
fn ord_i128(a: i128, b: i128) -> Ordering { if a < b { Ordering::Less } else if a > b { Ordering::Greater } else { Ordering::Equal } }
fn i64_of(x: &I64) -> i64 { x.as_words()[0] as i64 }
fn i128_of(x: &I128) -> i128 { let w = x.as_words(); (w[0] as u128 | ((w[1] as u128) << 64)) as i128 }
fn boxed_u128(b: &BoxedUint) -> u128 {
    let w = b.as_words();
    let mut v: u128 = 0;
    if w.len() > 0 { v |= w[0] as u128; }
    if w.len() > 1 { v |= (w[1] as u128) << 64; }
    v
}

/// every comparison form of `T` agrees with the reference ordering `ord` of (a, b) -- and with each other
fn check_cmp<T>(a: &T, b: &T, ord: Ordering)
where T: ConstantTimeEq + ConstantTimeGreater + ConstantTimeLess + Ord {
    check_cmp_ct(a, b, ord);
    check_cmp_ops(a, b, ord);
    assert!(bool::from(b.ct_gt(a)) == (ord == Ordering::Less));
    assert!(bool::from(b.ct_lt(a)) == (ord == Ordering::Greater));
    assert!(b.cmp(a) == ord.reverse());
}
/// constant-time predicates
fn check_cmp_ct<T>(a: &T, b: &T, ord: Ordering)
where T: ConstantTimeEq + ConstantTimeGreater + ConstantTimeLess {
    let (lt, eq, gt) = (ord == Ordering::Less, ord == Ordering::Equal, ord == Ordering::Greater);
    assert!(bool::from(a.ct_eq(b)) == eq);
    assert!(bool::from(a.ct_ne(b)) == !eq);
    assert!(bool::from(a.ct_gt(b)) == gt);
    assert!(bool::from(a.ct_lt(b)) == lt);
}
/// operator / Ord forms
fn check_cmp_ops<T>(a: &T, b: &T, ord: Ordering)
where T: Ord {
    let (lt, eq, gt) = (ord == Ordering::Less, ord == Ordering::Equal, ord == Ordering::Greater);
    assert!((a == b) == eq);
    assert!((a != b) == !eq);
    assert!((a < b) == lt);
    assert!((a <= b) == !gt);
    assert!((a > b) == gt);
    assert!((a >= b) == !lt);
    assert!(a.cmp(b) == ord);
    assert!(a.partial_cmp(b) == Some(ord));
}
/// select / assign / swap in both trait families return exactly the chosen operand
fn check_sel<T, F>(a: T, b: T, ch: bool, val: F)
where T: ConditionallySelectable + ConstantTimeSelect, F: Fn(&T) -> u128 {
    let c = Choice::from(ch as u8);
    let (va, vb) = (val(&a), val(&b));
    let (chosen, other) = if ch { (vb, va) } else { (va, vb) };
    assert!(val(&T::conditional_select(&a, &b, c)) == chosen);
    let mut t = a; t.conditional_assign(&b, c);
    assert!(val(&t) == chosen);
    let (mut x, mut y) = (a, b);
    T::conditional_swap(&mut x, &mut y, c);
    assert!(val(&x) == chosen && val(&y) == other);
    assert!(val(&<T as ConstantTimeSelect>::ct_select(&a, &b, c)) == chosen);
    let mut t = a; <T as ConstantTimeSelect>::ct_assign(&mut t, &b, c);
    assert!(val(&t) == chosen);
    let (mut x, mut y) = (a, b);
    <T as ConstantTimeSelect>::ct_swap(&mut x, &mut y, c);
    assert!(val(&x) == chosen && val(&y) == other);
}

fn mk_boxed(w: [u64; 2], two: bool) -> BoxedUint { if two { BoxedUint::from_words([w[0], w[1]]) } else { BoxedUint::from_words([w[0]]) } }

/// BoxedUint comparison cases with *literal* limb counts (a symbolic allocation size is very expensive in CBMC).
/// `ops = false`: constant-time predicates + zero/one/odd/even tests; `ops = true`: ==, !=, <, <=, >, >=, cmp, partial_cmp.
/// (The reversed comparisons are the harness with the precisions exchanged.)
fn cmp_boxed_case<S: Src>(s: &mut S, ta: bool, tb: bool, ops: bool) {
    let (x, y): ([u64; 2], [u64; 2]) = (s.words(), s.words());
    let (a, b) = (mk_boxed(x, ta), mk_boxed(y, tb));
    let va = if ta { x[0] as u128 | ((x[1] as u128) << 64) } else { x[0] as u128 };
    let vb = if tb { y[0] as u128 | ((y[1] as u128) << 64) } else { y[0] as u128 };
    let ord = ord_u128(va, vb);
    if ops {
        check_cmp_ops(&a, &b, ord);
    } else {
        check_cmp_ct(&a, &b, ord);
        assert!(bool::from(a.is_zero()) == (va == 0));
        assert!(bool::from(a.is_nonzero()) == (va != 0));
        assert!(bool::from(a.is_one()) == (va == 1));
        assert!(num_traits::Zero::is_zero(&a) == (va == 0));
        assert!(num_traits::One::is_one(&a) == (va == 1));
        assert!(bool::from(Integer::is_odd(&a)) == (va & 1 == 1));
        assert!(bool::from(Integer::is_even(&a)) == (va & 1 == 0));
    }
    cov!(s, va == vb);                                               // (zero-padded) equal values
    cov!(s, va < vb);
    cov!(s, va > vb);
    cov!(s, va != vb && x[0] == y[0]);                               // differ only in the limb one side may lack
}
fn cmp_vartime_boxed_case<S: Src>(s: &mut S, ta: bool, tb: bool) {
    let (x, y): ([u64; 2], [u64; 2]) = (s.words(), s.words());
    let (a, b) = (mk_boxed(x, ta), mk_boxed(y, tb));
    let va = if ta { x[0] as u128 | ((x[1] as u128) << 64) } else { x[0] as u128 };
    let vb = if tb { y[0] as u128 | ((y[1] as u128) << 64) } else { y[0] as u128 };
    assert!(a.cmp_vartime(&b) == ord_u128(va, vb));
    cov!(s, va == vb);
    cov!(s, va < vb);
}
fn select_boxed_case<S: Src>(s: &mut S, two: bool) {
    let (x, y): ([u64; 2], [u64; 2]) = (s.words(), s.words());
    let ch = s.bool();
    let c = Choice::from(ch as u8);
    let (a, b) = (mk_boxed(x, two), mk_boxed(y, two));
    let (va, vb) = (boxed_u128(&a), boxed_u128(&b));
    let (chosen, other) = if ch { (vb, va) } else { (va, vb) };
    let n = if two { 2 } else { 1 };
    let r = BoxedUint::ct_select(&a, &b, c);
    assert!(r.nlimbs() == n && boxed_u128(&r) == chosen);
    let mut t = a.clone(); t.ct_assign(&b, c);
    assert!(t.nlimbs() == n && boxed_u128(&t) == chosen);
    let (mut u, mut v) = (a.clone(), b.clone());
    BoxedUint::ct_swap(&mut u, &mut v, c);
    assert!(u.nlimbs() == n && v.nlimbs() == n && boxed_u128(&u) == chosen && boxed_u128(&v) == other);
    cov!(s, ch && va != vb);
    cov!(s, !ch && va != vb);
}

harnesses! {
    // ------------------------------------------------------------------ comparisons
    /// Limb: ct_eq/ct_ne/ct_gt/ct_lt, ==,<,<=,>,>=, cmp, partial_cmp, cmp_vartime, eq_vartime, is_zero, is_one, is_odd.
    fn c06_cmp_limb(s) {
        let (x, y) = (s.u64(), s.u64());
        let (a, b) = (Limb(x), Limb(y));
        let ord = ord_u128(x as u128, y as u128);
        check_cmp(&a, &b, ord);
        assert!(a.cmp_vartime(&b) == ord);
        assert!(a.eq_vartime(&b) == (x == y));
        assert!(bool::from(Zero::is_zero(&a)) == (x == 0));
        assert!(num_traits::Zero::is_zero(&a) == (x == 0));
        assert!(num_traits::One::is_one(&a) == (x == 1));
        assert!(bool::from(a.is_odd()) == (x & 1 == 1));
        assert!(bool::from(a.to_nz().is_some()) == (x != 0));
        cov!(s, x == y);
        cov!(s, x == u64::MAX && y == 0);
        cov!(s, x ^ y == 1 << 63);
    }

    /// U64 / U128: all comparison forms + cmp_vartime + zero/one/odd/even tests against the u128 order.
    fn c06_cmp_u64(s) {
        let (x, y) = (s.u64(), s.u64());
        let (a, b) = (mk64(x), mk64(y));
        let ord = ord_u128(x as u128, y as u128);
        check_cmp(&a, &b, ord);
        assert!(a.cmp_vartime(&b) == ord);
        assert!(bool::from(Zero::is_zero(&a)) == (x == 0));
        assert!(num_traits::Zero::is_zero(&a) == (x == 0));
        assert!(num_traits::One::is_one(&a) == (x == 1));
        assert!(bool::from(Integer::is_odd(&a)) == (x & 1 == 1));
        assert!(bool::from(Integer::is_even(&a)) == (x & 1 == 0));
        cov!(s, x == y);
        cov!(s, x < y);
    }
    fn c06_cmp_u128(s) {
        let (x, y) = (s.u128(), s.u128());
        let (a, b) = (mk128(x), mk128(y));
        let ord = ord_u128(x, y);
        check_cmp(&a, &b, ord);
        assert!(a.cmp_vartime(&b) == ord);
        assert!(bool::from(Zero::is_zero(&a)) == (x == 0));
        assert!(num_traits::Zero::is_zero(&a) == (x == 0));
        assert!(num_traits::One::is_one(&a) == (x == 1));
        assert!(bool::from(Integer::is_odd(&a)) == (x & 1 == 1));
        assert!(bool::from(Integer::is_even(&a)) == (x & 1 == 0));
        cov!(s, x == y);
        cov!(s, x >> 64 == y >> 64 && (x as u64) < (y as u64));       // borrow through an equal high limb
        cov!(s, x as u64 == y as u64 && x >> 64 > y >> 64);            // differ only in the highest limb
        cov!(s, x >> 64 > y >> 64 && (x as u64) < (y as u64));         // low limb says the opposite
        cov!(s, x == 1 << 64);                                         // is_one must look at the high limb
    }

    /// U192 (three limbs, thorough tier): comparison forms against the lexicographic order of the limbs.
    fn c06t_cmp_u192(s) {
        let (x, y): ([u64; 3], [u64; 3]) = (s.words(), s.words());
        let (a, b) = (mk192(x), mk192(y));
        let ord = if x[2] != y[2] { ord_u128(x[2] as u128, y[2] as u128) }
                  else if x[1] != y[1] { ord_u128(x[1] as u128, y[1] as u128) }
                  else { ord_u128(x[0] as u128, y[0] as u128) };
        check_cmp(&a, &b, ord);
        assert!(a.cmp_vartime(&b) == ord);
        let zero = x[0] == 0 && x[1] == 0 && x[2] == 0;
        assert!(bool::from(Zero::is_zero(&a)) == zero);
        assert!(num_traits::One::is_one(&a) == (x[0] == 1 && x[1] == 0 && x[2] == 0));
        assert!(bool::from(Integer::is_odd(&a)) == (x[0] & 1 == 1));
        cov!(s, x[2] == y[2] && x[1] == y[1] && x[0] < y[0]);
        cov!(s, x[2] == y[2] && x[1] > y[1] && x[0] < y[0]);
        cov!(s, x[0] == y[0] && x[1] == y[1] && x[2] == y[2]);
    }

    /// I64: signed order (sign bit flips), is_negative / is_positive.
    fn c06_cmp_i64(s) {
        let (x, y) = (s.i64(), s.i64());
        let (a, b) = (I64::from_i64(x), I64::from_i64(y));
        let ord = ord_i128(x as i128, y as i128);
        check_cmp(&a, &b, ord);
        assert!(a.cmp_vartime(&b) == ord);
        assert!(bool::from(a.is_negative()) == (x < 0) && bool::from(a.is_positive()) == (x > 0));
        cov!(s, x == i64::MIN && y == 0);
        cov!(s, x ^ y == i64::MIN);
        cov!(s, x == y && x < 0);
    }
    /// I128: signed order, is_negative / is_positive, zero / one / min / max tests.
    fn c06_cmp_i128(s) {
        let (p, q) = (s.i128(), s.i128());
        let (c, d) = (I128::from_i128(p), I128::from_i128(q));
        let ord = ord_i128(p, q);
        check_cmp(&c, &d, ord);
        assert!(c.cmp_vartime(&d) == ord);
        assert!(bool::from(c.is_negative()) == (p < 0) && bool::from(c.is_positive()) == (p > 0));
        assert!(bool::from(Zero::is_zero(&c)) == (p == 0));
        assert!(num_traits::Zero::is_zero(&c) == (p == 0));
        assert!(num_traits::One::is_one(&c) == (p == 1));
        assert!(bool::from(c.is_min()) == (p == i128::MIN) && bool::from(c.is_max()) == (p == i128::MAX));
        cov!(s, p == i128::MIN && q == i128::MAX);
        cov!(s, p == q && p < 0);
        cov!(s, p ^ q == i128::MIN);                                   // differ only in the sign bit
        cov!(s, p == -1 && q == 0);
        cov!(s, p < 0 && q < 0 && p < q);
        cov!(s, (p >> 64) == (q >> 64) && p < q);                      // borrow through an equal high limb
    }

    /// BoxedUint, precisions (1,1), (1,2), (2,1), (2,2) limbs: ct_eq/ct_ne/ct_gt/ct_lt and the zero/one/odd/even/nonzero
    /// tests agree with the order of the represented values (shorter operand zero-extended).
    #[kani::unwind(4)]
    fn c06_cmp_boxed_ct_1_1(s) { cmp_boxed_case(s, false, false, false); }
    #[kani::unwind(4)]
    fn c06_cmp_boxed_ct_1_2(s) { cmp_boxed_case(s, false, true, false); }
    #[kani::unwind(4)]
    fn c06_cmp_boxed_ct_2_1(s) { cmp_boxed_case(s, true, false, false); }
    #[kani::unwind(4)]
    fn c06_cmp_boxed_ct_2_2(s) { cmp_boxed_case(s, true, true, false); }
    /// ... and ==, !=, <, <=, >, >=, Ord::cmp, partial_cmp.
    #[kani::unwind(4)]
    fn c06_cmp_boxed_ops_1_1(s) { cmp_boxed_case(s, false, false, true); }
    #[kani::unwind(4)]
    fn c06_cmp_boxed_ops_1_2(s) { cmp_boxed_case(s, false, true, true); }
    #[kani::unwind(4)]
    fn c06_cmp_boxed_ops_2_1(s) { cmp_boxed_case(s, true, false, true); }
    #[kani::unwind(4)]
    fn c06_cmp_boxed_ops_2_2(s) { cmp_boxed_case(s, true, true, true); }

    /// BoxedUint::cmp_vartime at equal precision (1 and 2 limbs).
    #[kani::unwind(4)]
    fn c06_cmp_vartime_boxed_1_1(s) { cmp_vartime_boxed_case(s, false, false); }
    #[kani::unwind(4)]
    fn c06_cmp_vartime_boxed_2_2(s) { cmp_vartime_boxed_case(s, true, true); }

    /// BoxedUint::cmp_vartime at different precision, (1,2) and (2,1) limbs: must still be the order of the values
    /// (its rustdoc states no precondition on the precisions).
    #[kani::unwind(4)]
    fn c06_cmp_vartime_boxed_1_2(s) { cmp_vartime_boxed_case(s, false, true); }
    #[kani::unwind(4)]
    fn c06_cmp_vartime_boxed_2_1(s) { cmp_vartime_boxed_case(s, true, false); }

    // ------------------------------------------------------------------ selection
    /// conditional_select/assign/swap and ct_select/ct_assign/ct_swap on Limb, U64, U128, I64, I128.
    fn c06_select_fixed(s) {
        let (x, y) = (s.u64(), s.u64());
        let (p, q) = (s.u128(), s.u128());
        let ch = s.bool();
        check_sel(Limb(x), Limb(y), ch, |l: &Limb| l.0 as u128);
        check_sel(mk64(x), mk64(y), ch, |u: &U64| u64_of(u) as u128);
        check_sel(mk128(p), mk128(q), ch, |u: &U128| u128_of(u));
        check_sel(I64::from_i64(x as i64), I64::from_i64(y as i64), ch, |i: &I64| i64_of(i) as u64 as u128);
        check_sel(I128::from_i128(p as i128), I128::from_i128(q as i128), ch, |i: &I128| i128_of(i) as u128);
        cov!(s, ch && p != q);
        cov!(s, !ch && p != q);
    }

    /// U192 (thorough tier): select / assign / swap limb by limb.
    fn c06t_select_u192(s) {
        let (x, y): ([u64; 3], [u64; 3]) = (s.words(), s.words());
        let ch = s.bool();
        let c = Choice::from(ch as u8);
        let (a, b) = (mk192(x), mk192(y));
        let chosen = if ch { y } else { x };
        let other = if ch { x } else { y };
        let r = U192::conditional_select(&a, &b, c);
        let rw = r.as_words();
        assert!(rw[0] == chosen[0] && rw[1] == chosen[1] && rw[2] == chosen[2]);
        let (mut u, mut v) = (a, b);
        U192::conditional_swap(&mut u, &mut v, c);
        let (uw, vw) = (u.as_words(), v.as_words());
        assert!(uw[0] == chosen[0] && uw[1] == chosen[1] && uw[2] == chosen[2]);
        assert!(vw[0] == other[0] && vw[1] == other[1] && vw[2] == other[2]);
        let mut t = a; <U192 as ConstantTimeSelect>::ct_assign(&mut t, &b, c);
        let tw = t.as_words();
        assert!(tw[0] == chosen[0] && tw[1] == chosen[1] && tw[2] == chosen[2]);
    }

    /// BoxedUint (1 and 2 limbs, equal precision): ct_select / ct_assign / ct_swap return exactly the chosen operand
    /// with the operands' precision.
    #[kani::unwind(4)]
    fn c06_select_boxed_1(s) { select_boxed_case(s, false); }
    #[kani::unwind(4)]
    fn c06_select_boxed_2(s) { select_boxed_case(s, true); }

    /// conditional negation: Uint::wrapping_neg_if, Int::wrapping_neg_if (U64,U128,I64,I128) and
    /// ConditionallyNegatable for BoxedUint (1,2 limbs): choice 0 -> the operand itself, choice 1 -> its two's
    /// complement negation at that width (MIN maps to MIN).
    #[kani::unwind(4)]
    fn c06_conditional_negate(s) {
        let x = s.u64();
        let p = s.u128();
        let ch = s.bool();
        let cc = if ch { ConstChoice::TRUE } else { ConstChoice::FALSE };
        let c = Choice::from(ch as u8);
        assert!(bool::from(cc) == ch && bool::from(Choice::from(cc)) == ch && ConstChoice::from(c) == cc);
        let e64 = if ch { x.wrapping_neg() } else { x };
        let e128 = if ch { p.wrapping_neg() } else { p };
        assert!(u64_of(&mk64(x).wrapping_neg_if(cc)) == e64);
        assert!(u128_of(&mk128(p).wrapping_neg_if(cc)) == e128);
        assert!(i64_of(&I64::from_i64(x as i64).wrapping_neg_if(cc)) == e64 as i64);
        assert!(i128_of(&I128::from_i128(p as i128).wrapping_neg_if(cc)) == e128 as i128);
        let mut b1 = BoxedUint::from_words([x]);
        b1.conditional_negate(c);
        assert!(b1.nlimbs() == 1 && b1.as_words()[0] == e64);
        let mut b2 = BoxedUint::from_words([p as u64, (p >> 64) as u64]);
        b2.conditional_negate(c);
        assert!(b2.nlimbs() == 2 && boxed_u128(&b2) == e128);
        cov!(s, ch && p == 1 << 127);
        cov!(s, ch && p == 0);
        cov!(s, !ch && p != 0);
        cov!(s, ch && p != 0 && p as u64 == 0);
    }

    // ------------------------------------------------------------------ option-like results
    /// CtOption / ConstCtOption producers report is_some exactly as documented and `unwrap_or` returns exactly the
    /// value resp. the default: CheckedAdd (carry), overflowing_shl (None iff shift >= BITS), Int::checked_neg
    /// (None iff MIN), Int::new_from_abs_sign (None iff magnitude does not fit), to_nz.
    fn c06_option_forms(s) {
        let (x, y, d) = (s.u64(), s.u64(), s.u64());
        let p = s.i128();
        let dflt = s.i128();
        // CtOption
        let r = mk64(x).checked_add(&mk64(y));
        let of = x.checked_add(y);
        assert!(bool::from(r.is_some()) == of.is_some() && bool::from(r.is_none()) == of.is_none());
        assert!(u64_of(&r.unwrap_or(mk64(d))) == of.unwrap_or(d));
        // ConstCtOption<Uint>
        let sh = s.u32();
        s.assume(sh <= 130);
        let r = mk64(x).overflowing_shl(sh);
        assert!(bool::from(r.is_some()) == (sh < 64) && bool::from(r.is_none()) == (sh >= 64));
        let as_ct: CtOption<U64> = r.clone().into();
        let as_opt: Option<U64> = r.clone().into();
        assert!(bool::from(as_ct.is_some()) == (sh < 64) && as_opt.is_some() == (sh < 64));
        assert!(u64_of(&r.unwrap_or(mk64(d))) == if sh < 64 { x << sh } else { d });
        // ConstCtOption<Int>
        let r = I128::from_i128(p).checked_neg();
        assert!(bool::from(r.is_some()) == (p != i128::MIN));
        assert!(i128_of(&r.unwrap_or(I128::from_i128(dflt))) == if p != i128::MIN { -p } else { dflt });
        let mag = s.u128();
        let neg = s.bool();
        let r = I128::new_from_abs_sign(mk128(mag), if neg { ConstChoice::TRUE } else { ConstChoice::FALSE });
        let fits = mag <= i128::MAX as u128 || (neg && mag == 1u128 << 127);
        assert!(bool::from(r.is_some()) == fits);
        let expect = if fits { if neg { (mag as i128).wrapping_neg() } else { mag as i128 } } else { dflt };
        assert!(i128_of(&r.unwrap_or(I128::from_i128(dflt))) == expect);
        cov!(s, sh == 64);
        cov!(s, sh == 63);
        cov!(s, of.is_none());
        cov!(s, p == i128::MIN);
        cov!(s, neg && mag == 1u128 << 127);
        cov!(s, !neg && mag == 1u128 << 127);
    }

    // ------------------------------------------------------------------ Hash vs Eq
    /// Limb, U64, U128, I128: values that compare equal feed the hasher the same byte stream (hence hash equally
    /// with every hasher).
    #[kani::unwind(34)]
    fn c06_hash_eq_fixed(s) {
        let (x, y) = (s.u64(), s.u64());
        let (p, q) = (s.u128(), s.u128());
        if Limb(x) == Limb(y) { assert!(rec(&Limb(x)).same_stream(&rec(&Limb(y)))); }
        if mk64(x) == mk64(y) { assert!(rec(&mk64(x)).same_stream(&rec(&mk64(y)))); }
        if mk128(p) == mk128(q) { assert!(rec(&mk128(p)).same_stream(&rec(&mk128(q)))); }
        let (ip, iq) = (I128::from_i128(p as i128), I128::from_i128(q as i128));
        if ip == iq { assert!(rec(&ip).same_stream(&rec(&iq))); }
        let nz = (NonZero::new(mk128(p | 1)).unwrap(), NonZero::new(mk128(q | 1)).unwrap());
        if nz.0 == nz.1 { assert!(rec(&nz.0).same_stream(&rec(&nz.1))); }
        cov!(s, p == q && x == y);
        cov!(s, rec(&mk128(p)).len == 24 || rec(&mk128(p)).len == 16);
    }

    /// BoxedUint, same precision (2 limbs): == implies equal hash input.
    #[kani::unwind(34)]
    fn c06_hash_eq_boxed_same_precision(s) {
        let (x, y): ([u64; 2], [u64; 2]) = (s.words(), s.words());
        let (a, b) = (BoxedUint::from_words([x[0], x[1]]), BoxedUint::from_words([y[0], y[1]]));
        if a == b { assert!(rec(&a).same_stream(&rec(&b))); }
        cov!(s, a == b);
    }

    /// BoxedUint, different precision holding the same value (`from_words([w])` vs `from_words([w, 0])`, every w):
    /// they compare equal (==, cmp), so they must feed the hasher the same bytes.
    #[kani::unwind(34)]
    fn c06_hash_eq_boxed_mixed_precision(s) {
        let w = s.u64();
        let (a, b) = (BoxedUint::from_words([w]), BoxedUint::from_words([w, 0]));
        assert!(a == b);
        assert!(a.cmp(&b) == Ordering::Equal);
        assert!(rec(&a).same_stream(&rec(&b)));
    }

    /// The literal instance `from_words([1])` vs `from_words([1, 0])` with FNV-1a: equal values, equal hashes.
    #[kani::unwind(34)]
    fn c06_hash_fnv_literal_boxed_mixed_precision(s) {
        let (a, b) = (BoxedUint::from_words([1]), BoxedUint::from_words([1, 0]));
        assert!(a == b);
        assert!(rec(&a).finish() == rec(&b).finish());
    }
}
