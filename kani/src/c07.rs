//! C07 (bounded, heap): `BoxedUint::mul_mod_special` at 1 and 2 limbs (the boxed modular add / sub / neg / double / mul
//! wrappers are proved deductively in units l8_boxed_*; this is a cheap cross-check of the special-modulus product on
//! the real code). Operands are indices into tables of edge constants below p = 2^BITS - c, `c` is a concrete limb
//! per call (1, 3, 2^32 + 1, MAX), the expected residue comes from rustc's constant evaluator (`u128` `%` at one limb;
//! at two limbs the 256-bit product is folded with 2^128 = c (mod p) and then reduced by subtraction).
use crate::*;
use crate::util::*;
use crypto_bigint::*;

const M: u64 = u64::MAX;
const H: u64 = 1 << 63;
const fn w(hi: u64, lo: u64) -> u128 { ((hi as u128) << 64) | lo as u128 }

const C: [u64; 4] = [1, 3, (1 << 32) + 1, M];
/// one-limb operands (those >= p = 2^64 - c are skipped by the harness)
const A1: [u64; 10] = [0, 1, 2, 0xffff_ffff, (1 << 32) + 1, H, H + 1, M - 3, M - 2, M - 1];
/// two-limb operands
const A2: [u128; 10] = [0, 1, M as u128, w(1, 0), w(1, 1), w(H, 0), w(M, 0), w(M, M - 3), w(M, M - 1), w(0x1234_5678_9abc_def0, 0x0fed_cba9_8765_4321)];

const fn t1() -> [[[u64; 10]; 10]; 4] {
    let mut t = [[[0u64; 10]; 10]; 4];
    let mut k = 0;
    while k < 4 {
        let p = (1u128 << 64) - C[k] as u128;
        let mut i = 0;
        while i < 10 {
            let mut j = 0;
            while j < 10 { t[k][i][j] = ((A1[i] as u128 * A1[j] as u128) % p) as u64; j += 1; }
            i += 1;
        }
        k += 1;
    }
    t
}
const T1: [[[u64; 10]; 10]; 4] = t1();

/// a * b mod (2^128 - c) for a, b < 2^128: schoolbook product, then fold the high half with 2^128 = c (mod p)
const fn mulmod2(a: u128, b: u128, c: u64) -> u128 {
    let (a0, a1) = (a as u64 as u128, a >> 64);
    let (b0, b1) = (b as u64 as u128, b >> 64);
    let (p00, p01, p10, p11) = (a0 * b0, a0 * b1, a1 * b0, a1 * b1);
    let c1 = (p00 >> 64) + (p01 as u64 as u128) + (p10 as u64 as u128);
    let lo = (p00 as u64 as u128) | (c1 << 64);
    let hi = (c1 >> 64) + (p01 >> 64) + (p10 >> 64) + p11; // exact: the product is < 2^256
    // value = hi * 2^128 + lo = hi * c + lo (mod p); hi * c < 2^192: split again
    let c = c as u128;
    let (h0, h1) = (hi as u64 as u128, hi >> 64);
    let m0 = h0 * c;            // < 2^128
    let m1 = h1 * c;            // weight 2^64, < 2^128
    // hi * c = m0 + m1 * 2^64 = (m1 >> 64) * 2^128 + ((m1 mod 2^64) << 64) + m0
    let top = m1 >> 64;         // weight 2^128 -> fold again: top * c (< 2^128)
    let mid = (m1 as u64 as u128) << 64;
    let p = 0u128.wrapping_sub(c); // 2^128 - c
    // sum lo + m0 + mid + top * c with carries folded (each carry out of 128 bits is worth c)
    let mut acc = lo % p;
    let terms = [m0 % p, mid % p, (top * c) % p];
    let mut k = 0;
    while k < 3 {
        let (s, o) = acc.overflowing_add(terms[k]);
        // acc, term < p: the true sum is < 2p; if it wrapped, true = s + 2^128 = s + c + p, so reduce to s + c
        acc = if o { s + c } else if s >= p { s - p } else { s };
        k += 1;
    }
    acc
}
const fn t2() -> [[[u128; 10]; 10]; 4] {
    let mut t = [[[0u128; 10]; 10]; 4];
    let mut k = 0;
    while k < 4 {
        let mut i = 0;
        while i < 10 {
            let mut j = 0;
            while j < 10 { t[k][i][j] = mulmod2(A2[i], A2[j], C[k]); j += 1; }
            i += 1;
        }
        k += 1;
    }
    t
}
const T2: [[[u128; 10]; 10]; 4] = t2();
/// sanity anchors of the two-limb reference, checked by rustc: (p-1)^2 = 1 (mod p) for p = 2^128 - 1 and p = 2^128 - 3,
/// 2^64 * 2^64 = 2^128 = c (mod p)
const _: () = {
    assert!(mulmod2(u128::MAX - 1, u128::MAX - 1, 1) == 1);
    assert!(mulmod2(u128::MAX - 3, u128::MAX - 3, 3) == 1);
    assert!(mulmod2(1 << 64, 1 << 64, 3) == 3);
    assert!(mulmod2(1 << 64, 1 << 64, u64::MAX) == u64::MAX as u128);
    assert!(mulmod2(u128::MAX - 3, 2, 3) == u128::MAX - 4);
};

fn case1<const K: usize>(i: usize, j: usize) {
    let p = (1u128 << 64) - C[K] as u128;
    if (A1[i] as u128) < p && (A1[j] as u128) < p {
        let r = BoxedUint::from(A1[i]).mul_mod_special(&BoxedUint::from(A1[j]), Limb(C[K]));
        assert!(r.nlimbs() == 1 && r.as_words()[0] == T1[K][i][j]);
    }
}
fn case2<const K: usize>(i: usize, j: usize) {
    let p = 0u128.wrapping_sub(C[K] as u128);
    if A2[i] < p && A2[j] < p {
        let r = BoxedUint::from(A2[i]).mul_mod_special(&BoxedUint::from(A2[j]), Limb(C[K]));
        let v = T2[K][i][j];
        assert!(r.nlimbs() == 2 && r.as_words()[0] == v as u64 && r.as_words()[1] == (v >> 64) as u64);
    }
}

harnesses! {
    /// mul_mod_special at one limb: a * b mod (2^64 - c), c in {1, 3, 2^32 + 1, MAX}, a, b table entries below p
    #[kani::unwind(13)]
    fn c07_boxed_mul_mod_special_1(s) {
        let i = s.usize(); let j = s.usize();
        s.assume(i < 10 && j < 10);
        s.cover(A1[i] == M - 1 && A1[j] == M - 1);
        case1::<0>(i, j); case1::<1>(i, j); case1::<2>(i, j); case1::<3>(i, j);
    }
    /// mul_mod_special at two limbs: a * b mod (2^128 - c), c in {1, 3}
    #[kani::unwind(6)]
    fn c07_boxed_mul_mod_special_2_c1_c3(s) {
        let i = s.usize(); let j = s.usize();
        s.assume(i < 10 && j < 10);
        s.cover(A2[i] == w(M, M - 3) && A2[j] == w(M, M - 3));
        case2::<0>(i, j); case2::<1>(i, j);
    }
    /// mul_mod_special at two limbs: a * b mod (2^128 - c), c in {2^32 + 1, MAX}
    #[kani::unwind(6)]
    fn c07_boxed_mul_mod_special_2_c32_cmax(s) {
        let i = s.usize(); let j = s.usize();
        s.assume(i < 10 && j < 10);
        s.cover(A2[i] == w(M, M - 3) && A2[j] == w(M, 0));
        case2::<2>(i, j); case2::<3>(i, j);
    }
}
