//! C03 (bounded, heap): `BoxedUint` multiplication and squaring at (1,1), (1,2), (2,1), (2,2) limbs.
//!
//! The deductive engine proves the slice-level `mul_limbs` / `square_limbs` / Karatsuba helpers; the `BoxedUint`
//! wrappers (allocation of the result, result width, truncation for the wrapping / checked forms) are checked here on
//! the real code. A symbolic 64x64 multiplication costs CBMC about 80 s, so the operands are *indices into tables of
//! edge constants* and the expected product limbs are computed from the same tables by rustc's constant evaluator
//! (`const` items below: schoolbook multiplication on `u128`), so the reference is one table lookup.
//! Result widths from the rustdoc: `mul`: "a limb count equal to the sums of the input limb counts"; `wrapping_mul`:
//! "wrapping to the width of `self`"; `square`: twice the limbs of `self` (like `mul(self, self)`); `checked_mul`
//! (`CheckedMul`): the product in the width of `self`, none iff it does not fit.
use crate::*;
use crate::util::*;
use crypto_bigint::*;

/// see c16.rs: makes a `#[kani::should_panic]` harness fail unless the call panics for every admitted input
fn returned_instead_of_panicking() {
    #[cfg(kani)]
    unsafe {
        let p: *const u8 = core::ptr::null();
        let v = core::ptr::read_volatile(p);
        core::hint::black_box(v);
    }
    #[cfg(not(kani))]
    crate::src::missed_panic();
}

const M: u64 = u64::MAX;
const H: u64 = 1 << 63;
const fn w(hi: u64, lo: u64) -> u128 { ((hi as u128) << 64) | lo as u128 }

/// one-limb operands: 0, 1, 2, 3, single bits, all-ones (maximal carries), 2^32 +- 1, 2^63 +- 1, MAX - 1
const A1: [u64; 12] = [0, 1, 2, 3, 0xffff_ffff, 1 << 32, (1 << 32) + 1, H - 1, H, H + 1, M - 1, M];
/// two-limb operands: zero halves, equal halves, all-ones, single bits, ordered-opposite halves
const A2: [u128; 12] = [
    0, 1, M as u128, w(1, 0), w(1, 1), w(M, 0), w(M, M), w(M, M - 1), w(H, 0), w(H, H), w(1, M),
    w(0x1234_5678_9abc_def0, 0x0fed_cba9_8765_4321),
];

/// schoolbook product of two 128-bit numbers as four 64-bit limbs (little endian), in `u128` arithmetic
const fn mul_128(a: u128, b: u128) -> [u64; 4] {
    let (a0, a1) = (a as u64 as u128, a >> 64);
    let (b0, b1) = (b as u64 as u128, b >> 64);
    let p00 = a0 * b0;
    let p01 = a0 * b1;
    let p10 = a1 * b0;
    let p11 = a1 * b1;
    let w0 = p00 as u64;
    // column 1: three values < 2^64 each
    let c1 = (p00 >> 64) + (p01 as u64 as u128) + (p10 as u64 as u128);
    let w1 = c1 as u64;
    let c2 = (c1 >> 64) + (p01 >> 64) + (p10 >> 64) + (p11 as u64 as u128);
    let w2 = c2 as u64;
    let c3 = (c2 >> 64) + (p11 >> 64);
    [w0, w1, w2, c3 as u64]
}

const fn p11() -> [[[u64; 4]; 12]; 12] {
    let mut t = [[[0u64; 4]; 12]; 12];
    let mut i = 0;
    while i < 12 { let mut j = 0; while j < 12 { t[i][j] = mul_128(A1[i] as u128, A1[j] as u128); j += 1; } i += 1; }
    t
}
const fn p12() -> [[[u64; 4]; 12]; 12] {
    let mut t = [[[0u64; 4]; 12]; 12];
    let mut i = 0;
    while i < 12 { let mut j = 0; while j < 12 { t[i][j] = mul_128(A1[i] as u128, A2[j]); j += 1; } i += 1; }
    t
}
const fn p22() -> [[[u64; 4]; 12]; 12] {
    let mut t = [[[0u64; 4]; 12]; 12];
    let mut i = 0;
    while i < 12 { let mut j = 0; while j < 12 { t[i][j] = mul_128(A2[i], A2[j]); j += 1; } i += 1; }
    t
}
/// products A1[i] * A1[j], A1[i] * A2[j], A2[i] * A2[j] as four little-endian limbs
const P11: [[[u64; 4]; 12]; 12] = p11();
const P12: [[[u64; 4]; 12]; 12] = p12();
const P22: [[[u64; 4]; 12]; 12] = p22();

fn idx2<S: Src>(s: &mut S) -> (usize, usize) {
    let i = s.usize(); let j = s.usize();
    s.assume(i < 12 && j < 12);
    (i, j)
}
/// `x` has exactly `n` limbs, equal to the low `n` limbs of `p`
fn is_limbs(x: &BoxedUint, p: &[u64; 4], n: usize) -> bool {
    let v = x.as_words();
    if v.len() != n { return false; }
    let mut ok = v[0] == p[0];
    if n >= 2 { ok &= v[1] == p[1]; }
    if n >= 3 { ok &= v[2] == p[2]; }
    if n >= 4 { ok &= v[3] == p[3]; }
    ok
}

harnesses! {
    /// mul at (1,1) limbs: the exact product in 2 limbs; `a * b` (owned operator) and WideningMul are the same
    #[kani::unwind(6)]
    fn c03_boxed_mul_1x1(s) {
        let (i, j) = idx2(s);
        let (a, b) = (BoxedUint::from(A1[i]), BoxedUint::from(A1[j]));
        s.cover(P11[i][j][1] != 0 && P11[i][j][0] != 0);
        assert!(is_limbs(&a.mul(&b), &P11[i][j], 2));
        assert!(is_limbs(&a.widening_mul(&b), &P11[i][j], 2));
        assert!(is_limbs(&(a * b), &P11[i][j], 2));
    }
    /// mul at (1,2) and (2,1) limbs: the exact product in 3 limbs, either operand order
    #[kani::unwind(6)]
    fn c03_boxed_mul_1x2(s) {
        let (i, j) = idx2(s);
        let (a, b) = (BoxedUint::from(A1[i]), BoxedUint::from(A2[j]));
        s.cover(P12[i][j][2] != 0);
        assert!(P12[i][j][3] == 0);
        assert!(is_limbs(&a.mul(&b), &P12[i][j], 3));
        assert!(is_limbs(&b.mul(&a), &P12[i][j], 3));
    }
    /// mul at (2,2) limbs: the exact product in 4 limbs
    #[kani::unwind(6)]
    fn c03_boxed_mul_2x2(s) {
        let (i, j) = idx2(s);
        let (a, b) = (BoxedUint::from(A2[i]), BoxedUint::from(A2[j]));
        s.cover(P22[i][j][3] != 0);
        assert!(is_limbs(&a.mul(&b), &P22[i][j], 4));
    }
    /// square at 1 and 2 limbs: the exact square in 2 / 4 limbs (= mul(a, a))
    #[kani::unwind(6)]
    fn c03_boxed_square_1_2(s) {
        let i = s.usize();
        s.assume(i < 12);
        assert!(is_limbs(&BoxedUint::from(A1[i]).square(), &P11[i][i], 2));
        assert!(is_limbs(&BoxedUint::from(A2[i]).square(), &P22[i][i], 4));
    }
    /// wrapping_mul at (1,1), (1,2), (2,1), (2,2): the product mod 2^(64 * limbs of self), in the width of self
    #[kani::unwind(6)]
    fn c03_boxed_wrapping_mul(s) {
        let (i, j) = idx2(s);
        let (a1, b1) = (BoxedUint::from(A1[i]), BoxedUint::from(A1[j]));
        let (a2, b2) = (BoxedUint::from(A2[i]), BoxedUint::from(A2[j]));
        assert!(is_limbs(&a1.wrapping_mul(&b1), &P11[i][j], 1));
        assert!(is_limbs(&a1.wrapping_mul(&b2), &P12[i][j], 1));
        assert!(is_limbs(&b2.wrapping_mul(&a1), &P12[i][j], 2));
        assert!(is_limbs(&a2.wrapping_mul(&b2), &P22[i][j], 2));
    }
    /// checked_mul at (1,1) and (2,2): some exactly when the product fits the width of self, then equal to it
    #[kani::unwind(6)]
    fn c03_boxed_checked_mul(s) {
        let (i, j) = idx2(s);
        let (a1, b1) = (BoxedUint::from(A1[i]), BoxedUint::from(A1[j]));
        let r = Option::<BoxedUint>::from(a1.checked_mul(&b1));
        let fits = P11[i][j][1] == 0;
        s.cover(fits && A1[i] > 1 && A1[j] > 1);
        match r { Some(v) => { assert!(fits); assert!(is_limbs(&v, &P11[i][j], 1)); } None => assert!(!fits) }
        let (a2, b2) = (BoxedUint::from(A2[i]), BoxedUint::from(A2[j]));
        let r = Option::<BoxedUint>::from(a2.checked_mul(&b2));
        let fits = P22[i][j][2] == 0 && P22[i][j][3] == 0;
        match r { Some(v) => { assert!(fits); assert!(is_limbs(&v, &P22[i][j], 2)); } None => assert!(!fits) }
    }
    /// checked_mul at (1,2) / (2,1): the width of self decides
    #[kani::unwind(6)]
    fn c03_boxed_checked_mul_mixed(s) {
        let (i, j) = idx2(s);
        let (a, b) = (BoxedUint::from(A1[i]), BoxedUint::from(A2[j]));
        let r = Option::<BoxedUint>::from(a.checked_mul(&b));
        let fits = P12[i][j][1] == 0 && P12[i][j][2] == 0;
        match r { Some(v) => { assert!(fits); assert!(is_limbs(&v, &P12[i][j], 1)); } None => assert!(!fits) }
        let r = Option::<BoxedUint>::from(b.checked_mul(&a));
        let fits = P12[i][j][2] == 0;
        match r { Some(v) => { assert!(fits); assert!(is_limbs(&v, &P12[i][j], 2)); } None => assert!(!fits) }
    }
    /// `&a * &b` (the by-reference operator is the panicking checked form): the product when it fits one limb
    #[kani::unwind(6)]
    fn c03_boxed_ref_mul_operator_fits(s) {
        let (i, j) = idx2(s);
        s.assume(P11[i][j][1] == 0);
        s.cover(A1[i] > 1 && A1[j] > 1);
        let (a, b) = (BoxedUint::from(A1[i]), BoxedUint::from(A1[j]));
        assert!(is_limbs(&(&a * &b), &P11[i][j], 1));
    }
    /// `&a * &b` panics exactly on overflow ("attempted to multiply with overflow")
    #[kani::should_panic]
    #[kani::unwind(6)]
    fn c03_boxed_ref_mul_operator_overflow_panics(s) {
        let (i, j) = idx2(s);
        s.assume(P11[i][j][1] != 0);
        let (a, b) = (BoxedUint::from(A1[i]), BoxedUint::from(A1[j]));
        let _ = &a * &b;
        returned_instead_of_panicking();
    }
}
