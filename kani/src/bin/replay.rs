//! Replay driver: runs a harness body natively on /repo (plain cargo build) with recorded inputs.
//! usage: replay <harness> <json array of byte arrays>      exit 0 = reproduced (panic / assertion failure), 3 = not reproduced
use std::panic::{catch_unwind, AssertUnwindSafe};
fn main() {
    let args: Vec<String> = std::env::args().collect();
    if args.len() >= 5 && args[1] == "--probe" { probe(&args[2], args[3].parse().unwrap_or(1), args[4].parse().unwrap_or(100)); }
    if args.len() < 3 { eprintln!("usage: replay <harness> <[[b,..],..]>  |  replay --probe <name prefixes, comma separated> <seed> <iterations>"); std::process::exit(2); }
    let name = &args[1];
    let vals = parse(&args[2]);
    let table = cb_kani::table();
    let Some((_, f, expects_panic)) = table.iter().find(|(n, _, _)| n == name) else {
        eprintln!("unknown harness {name}"); std::process::exit(2);
    };
    let mut src = cb_kani::ReplaySrc::new(vals);
    let r = catch_unwind(AssertUnwindSafe(|| f(&mut src)));
    if src.assumption_violated { println!("REPLAY: assumption violated by the recorded inputs"); std::process::exit(4); }
    match (r.is_err(), *expects_panic) {
        (true, false) => { println!("REPLAY: reproduced - harness body panicked on the real code"); std::process::exit(0); }
        (false, true) => { println!("REPLAY: reproduced - expected panic did not happen on the real code"); std::process::exit(0); }
        _ => { println!("REPLAY: not reproduced"); std::process::exit(3); }
    }
}
/// Profile probe (bounded sampling, never a proof): run every harness body whose name starts with one of the prefixes on
/// `iters` generated inputs in THIS build profile; a harness that must panic has to panic, every other must not.
/// Prints one JSON line per divergence: {"harness":..,"expects_panic":..,"vals":[[..]..]}; exit 0 = none, 1 = some.
fn probe(prefixes: &str, seed: u64, iters: u64) -> ! {
    std::panic::set_hook(Box::new(|_| {}));
    let pre: Vec<&str> = prefixes.split(',').filter(|p| !p.is_empty()).collect();
    let table = cb_kani::table();
    let (mut ran, mut skipped, mut bad) = (0u64, 0u64, 0u64);
    for (name, f, expects_panic) in table.iter() {
        if !pre.iter().any(|p| name.starts_with(p)) { continue; }
        let mut reported = false;
        for it in 0..iters {
            let mut h = seed.wrapping_mul(0x9E3779B97F4A7C15) ^ (it.wrapping_mul(0xD1B54A32D192ED03));
            for b in name.bytes() { h = (h ^ b as u64).wrapping_mul(0x100000001B3); }
            let mut src = cb_kani::ReplaySrc::generator(h);
            cb_kani::MISSED_PANIC.store(false, std::sync::atomic::Ordering::SeqCst);
            let r = catch_unwind(AssertUnwindSafe(|| f(&mut src)));
            if src.assumption_violated { skipped += 1; continue; }
            let missed = cb_kani::MISSED_PANIC.load(std::sync::atomic::Ordering::SeqCst);
            // a must-panic harness diverges when the statement that must panic returned; an input outside its
            // panicking domain (no panic, marker not reached) says nothing. Any other harness must not panic.
            if *expects_panic && r.is_ok() && !missed { skipped += 1; continue; }
            ran += 1;
            let diverges = if *expects_panic { missed } else { r.is_err() };
            if diverges && !reported {
                reported = true; bad += 1;
                let vals: Vec<String> = src.vals.iter().map(|v| format!("[{}]", v.iter().map(|b| b.to_string()).collect::<Vec<_>>().join(","))).collect();
                println!("{{\"harness\":\"{}\",\"expects_panic\":{},\"vals\":[{}]}}", name, expects_panic, vals.join(","));
            }
        }
    }
    println!("PROBE ran={} skipped_by_assumption={} divergences={}", ran, skipped, bad);
    std::process::exit(if bad > 0 { 1 } else { 0 });
}
fn parse(s: &str) -> Vec<Vec<u8>> {
    let mut out = Vec::new();
    let mut cur: Option<Vec<u8>> = None;
    let mut num = String::new();
    let mut depth = 0;
    for ch in s.chars() {
        match ch {
            '[' => { depth += 1; if depth == 2 { cur = Some(Vec::new()); } }
            ']' => {
                if depth == 2 { if !num.is_empty() { cur.as_mut().unwrap().push(num.parse().unwrap()); num.clear(); } out.push(cur.take().unwrap()); }
                depth -= 1;
            }
            ',' => { if depth == 2 && !num.is_empty() { cur.as_mut().unwrap().push(num.parse().unwrap()); num.clear(); } }
            c if c.is_ascii_digit() => num.push(c),
            _ => {}
        }
    }
    out
}
