//! Replay driver: runs a harness body natively on /repo (plain cargo build) with recorded inputs.
//! usage: replay <harness> <json array of byte arrays>      exit 0 = reproduced (panic / assertion failure), 3 = not reproduced
use std::panic::{catch_unwind, AssertUnwindSafe};
fn main() {
    let args: Vec<String> = std::env::args().collect();
    if args.len() < 3 { eprintln!("usage: replay <harness> <[[b,..],..]>"); std::process::exit(2); }
    let name = &args[1];
    let vals = parse(&args[2]);
    let table = cb_kani::table();
    let Some((_, f, expects_panic)) = table.iter().find(|(n, _, _)| n == name) else {
        eprintln!("unknown harness {name}"); std::process::exit(2);
    };
    let mut src = cb_kani::ReplaySrc::new(vals);
    let r = catch_unwind(AssertUnwindSafe(|| f(&mut src)));
    if src.assumption_violated { println!("REPLAY: assumption violated by the recorded inputs"); std::process::exit(4); }
    match (r.is_err(), *expects_panic) {
        (true, false) => { println!("REPLAY: reproduced - harness body panicked on the real code"); std::process::exit(0); }
        (false, true) => { println!("REPLAY: reproduced - expected panic did not happen on the real code"); std::process::exit(0); }
        _ => { println!("REPLAY: not reproduced"); std::process::exit(3); }
    }
}
fn parse(s: &str) -> Vec<Vec<u8>> {
    let mut out = Vec::new();
    let mut cur: Option<Vec<u8>> = None;
    let mut num = String::new();
    let mut depth = 0;
    for ch in s.chars() {
        match ch {
            '[' => { depth += 1; if depth == 2 { cur = Some(Vec::new()); } }
            ']' => {
                if depth == 2 { if !num.is_empty() { cur.as_mut().unwrap().push(num.parse().unwrap()); num.clear(); } out.push(cur.take().unwrap()); }
                depth -= 1;
            }
            ',' => { if depth == 2 && !num.is_empty() { cur.as_mut().unwrap().push(num.parse().unwrap()); num.clear(); } }
            c if c.is_ascii_digit() => num.push(c),
            _ => {}
        }
    }
    out
}
