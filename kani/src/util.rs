//! helpers shared by harness modules
use crypto_bigint::*;

pub fn be_value(b: &[u8]) -> u128 {
    let mut v: u128 = 0;
    let mut i = 0;
    while i < b.len() { v = (v << 8) | b[i] as u128; i += 1; }
    v
}
pub fn u64_of(x: &U64) -> u64 { x.as_words()[0] }
pub fn u128_of(x: &U128) -> u128 { let w = x.as_words(); w[0] as u128 | ((w[1] as u128) << 64) }
pub fn mk64(a: u64) -> U64 { U64::from_words([a]) }
pub fn mk128(a: u128) -> U128 { U128::from_words([a as u64, (a >> 64) as u64]) }
pub fn mk192(w: [u64; 3]) -> U192 { U192::from_words(w) }
