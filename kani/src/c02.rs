//! C02 harnesses (see /verif/kani/README.md for conventions)
use crate::*;
use crypto_bigint::*;

harnesses! {
}
