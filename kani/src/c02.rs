//! C02 (bounded, heap): `BoxedUint` division and remainder at 1 and 2 limbs.
//!
//! The deductive engine proves the slice-level helpers (`div_rem_vartime_in_place`, `div2by1`, `div3by2`, ...); the
//! `BoxedUint` wrappers around them (allocation, shifting, limb selection, precision handling) are checked here on the
//! real code. Symbolic 64-bit division does not terminate in CBMC, so dividend and divisor are *indices into tables of
//! edge constants*; the expected quotient and remainder are computed from the same tables by rustc's constant
//! evaluator (`const` items below: native `u128` `/` and `%`), so the reference costs one table lookup.
//! `Reciprocal::new` contains an 11-iteration loop (`short_div`), hence `#[kani::unwind(13)]`.
use crate::*;
use crate::util::*;
use crypto_bigint::*;

/// see c16.rs: makes a `#[kani::should_panic]` harness fail unless the call panics for every admitted input
fn returned_instead_of_panicking() {
    #[cfg(kani)]
    unsafe {
        let p: *const u8 = core::ptr::null();
        let v = core::ptr::read_volatile(p);
        core::hint::black_box(v);
    }
    #[cfg(not(kani))]
    crate::src::missed_panic();
}

const M: u64 = u64::MAX;
const H: u64 = 1 << 63;

/// one-limb dividends: 0, 1, 2, 3, small, 2^32 +- 1, 2^63 +- 1, MAX-1, MAX, products q*d and q*d +- 1
const N1: [u64; 16] = [
    0, 1, 2, 3, 7, 0xffff_ffff, 1 << 32, (1 << 32) + 1, H - 1, H, H + 1, M - 1, M,
    0xffff_fffe_0000_0001, // (2^32-1)^2
    0xffff_fffe_0000_0000, // (2^32-1)^2 - 1
    0xffff_fffe_0000_0002, // (2^32-1)^2 + 1
];
/// one-limb divisors (non-zero): 1, 2, 3, powers of two, 2^32 +- 1, 2^63, 2^63 + 1 (normalised), MAX - 1, MAX
const D1: [u64; 12] = [1, 2, 3, 7, 1 << 31, 0xffff_ffff, 1 << 32, (1 << 32) + 1, H, H + 1, M - 1, M];

const fn qr1() -> [[(u64, u64); 12]; 16] {
    let mut t = [[(0u64, 0u64); 12]; 16];
    let mut i = 0;
    while i < 16 {
        let mut j = 0;
        while j < 12 { t[i][j] = (N1[i] / D1[j], N1[i] % D1[j]); j += 1; }
        i += 1;
    }
    t
}
const QR1: [[(u64, u64); 12]; 16] = qr1();

const fn w(hi: u64, lo: u64) -> u128 { ((hi as u128) << 64) | lo as u128 }

/// two-limb dividends
const N2: [u128; 16] = [
    0, 1, 3, M as u128, w(1, 0), w(1, 1), w(0, H), w(H, 0), w(H, 1), w(H - 1, M), w(M, M), w(M, M - 1),
    w(M - 1, 1),     // (2^64-1)^2
    w(M - 1, 0),     // (2^64-1)^2 - 1
    w(M, 0),         // top limb MAX, second 0
    w(0x1234_5678_9abc_def0, 0x0fed_cba9_8765_4321),
];
/// two-limb divisors (non-zero), incl. single-limb values inside the two-limb width, bit length 64 and 128,
/// normalised top limb MAX / 2^63, second limb 0 / MAX
const D2: [u128; 14] = [
    1, 2, 3, H as u128, M as u128, w(1, 0), w(1, 1), w(1, M), w(H, 0), w(H, M), w(M, 0), w(M, M), w(M - 1, 1),
    w(0x1234_5678, 0x9abc_def0_0fed_cba9),
];
const fn qr2() -> [[(u128, u128); 14]; 16] {
    let mut t = [[(0u128, 0u128); 14]; 16];
    let mut i = 0;
    while i < 16 {
        let mut j = 0;
        while j < 14 { t[i][j] = (N2[i] / D2[j], N2[i] % D2[j]); j += 1; }
        i += 1;
    }
    t
}
const QR2: [[(u128, u128); 14]; 16] = qr2();

/// mixed widths: two-limb dividend by one-limb divisor (quotient two limbs, remainder one limb) ...
const fn qr21() -> [[(u128, u64); 12]; 16] {
    let mut t = [[(0u128, 0u64); 12]; 16];
    let mut i = 0;
    while i < 16 {
        let mut j = 0;
        while j < 12 { t[i][j] = (N2[i] / D1[j] as u128, (N2[i] % D1[j] as u128) as u64); j += 1; }
        i += 1;
    }
    t
}
const QR21: [[(u128, u64); 12]; 16] = qr21();
/// ... and one-limb dividend by two-limb divisor (quotient one limb, remainder two limbs)
const fn qr12() -> [[(u64, u128); 14]; 16] {
    let mut t = [[(0u64, 0u128); 14]; 16];
    let mut i = 0;
    while i < 16 {
        let mut j = 0;
        while j < 14 { t[i][j] = ((N1[i] as u128 / D2[j]) as u64, N1[i] as u128 % D2[j]); j += 1; }
        i += 1;
    }
    t
}
const QR12: [[(u64, u128); 14]; 16] = qr12();

fn pick1<S: Src>(s: &mut S) -> (u64, u64, u64, u64) {
    let i = s.usize(); let j = s.usize();
    s.assume(i < 16 && j < 12);
    let (q, r) = QR1[i][j];
    (N1[i], D1[j], q, r)
}
fn pick2<S: Src>(s: &mut S) -> (u128, u128, u128, u128) {
    let i = s.usize(); let j = s.usize();
    s.assume(i < 16 && j < 14);
    let (q, r) = QR2[i][j];
    (N2[i], D2[j], q, r)
}
fn pick21<S: Src>(s: &mut S) -> (u128, u64, u128, u64) {
    let i = s.usize(); let j = s.usize();
    s.assume(i < 16 && j < 12);
    let (q, r) = QR21[i][j];
    (N2[i], D1[j], q, r)
}
fn pick12<S: Src>(s: &mut S) -> (u64, u128, u64, u128) {
    let i = s.usize(); let j = s.usize();
    s.assume(i < 16 && j < 14);
    let (q, r) = QR12[i][j];
    (N1[i], D2[j], q, r)
}

fn nz(x: BoxedUint) -> NonZero<BoxedUint> {
    let o = NonZero::new(x);
    match Option::<NonZero<BoxedUint>>::from(o) { Some(v) => v, None => { assert!(false, "non-zero value reported as zero"); loop {} } }
}
/// one limb holding `v`
fn is1(x: &BoxedUint, v: u64) -> bool { x.nlimbs() == 1 && x.as_words()[0] == v }
/// two limbs holding `v`
fn is2(x: &BoxedUint, v: u128) -> bool { x.nlimbs() == 2 && x.as_words()[0] == v as u64 && x.as_words()[1] == (v >> 64) as u64 }

/// `body` once for every listed constant index (straight-line code, `$j` is a `const`)
macro_rules! for_const {
    ($j:ident in [$($n:literal),*] $body:block) => { $( { const $j: usize = $n; $body } )* };
}

// The vartime forms branch on the divisor's length and CBMC runs out of memory when that is symbolic, and the
// constant-time two-limb form multiplies by the divisor's limbs: in those harnesses the divisor is a *concrete* table
// entry per call (`const J`) and the dividend a symbolic table index. Quick tier: a few divisors per harness;
// thorough tier (`c02t_`): all of them.

fn vt1<const J: usize>(x: &BoxedUint, i: usize) {
    let (qq, rr) = x.div_rem_vartime(&nz(BoxedUint::from(D1[J])));
    assert!(is1(&qq, QR1[i][J].0));
    assert!(is1(&rr, QR1[i][J].1));
}
fn rvt1<const J: usize>(x: &BoxedUint, i: usize) {
    let dd = nz(BoxedUint::from(D1[J]));
    assert!(is1(&x.rem_vartime(&dd), QR1[i][J].1));
    assert!(is1(&x.wrapping_div_vartime(&dd), QR1[i][J].0));
}
fn ct2<const J: usize>(x: &BoxedUint, i: usize) {
    let (qq, rr) = x.div_rem(&nz(BoxedUint::from(D2[J])));
    assert!(is2(&qq, QR2[i][J].0));
    assert!(is2(&rr, QR2[i][J].1));
}
fn vt2<const J: usize>(x: &BoxedUint, i: usize) {
    let (qq, rr) = x.div_rem_vartime(&nz(BoxedUint::from(D2[J])));
    assert!(is2(&qq, QR2[i][J].0));
    assert!(is2(&rr, QR2[i][J].1));
}
fn rvt2<const J: usize>(x: &BoxedUint, i: usize) {
    assert!(is2(&x.rem_vartime(&nz(BoxedUint::from(D2[J]))), QR2[i][J].1));
}
fn vt21<const J: usize>(x: &BoxedUint, i: usize) {
    let dd = nz(BoxedUint::from(D1[J]));
    let (qq, rr) = x.div_rem_vartime(&dd);
    assert!(is2(&qq, QR21[i][J].0));
    assert!(is1(&rr, QR21[i][J].1));
    assert!(is1(&x.rem_vartime(&dd), QR21[i][J].1));
}
fn vt12<const J: usize>(x: &BoxedUint, i: usize) {
    let dd = nz(BoxedUint::from(D2[J]));
    let (qq, rr) = x.div_rem_vartime(&dd);
    assert!(is1(&qq, QR12[i][J].0));
    assert!(is2(&rr, QR12[i][J].1));
    assert!(is2(&x.rem_vartime(&dd), QR12[i][J].1));
}
fn n1<S: Src>(s: &mut S) -> (BoxedUint, usize) { let i = s.usize(); s.assume(i < 16); (BoxedUint::from(N1[i]), i) }
fn n2<S: Src>(s: &mut S) -> (BoxedUint, usize) { let i = s.usize(); s.assume(i < 16); (BoxedUint::from(N2[i]), i) }

harnesses! {
    // ------------------------------------------------------------------ one limb

    /// div_rem (constant-time) at 64 bits: q = floor(n/d), r = n - q d, both 64 bits wide
    #[kani::unwind(13)]
    fn c02_boxed_div_rem_1(s) {
        let (n, d, q, r) = pick1(s);
        s.cover(q != 0 && r != 0);
        let (qq, rr) = BoxedUint::from(n).div_rem(&nz(BoxedUint::from(d)));
        assert!(is1(&qq, q));
        assert!(is1(&rr, r));
    }
    /// rem (constant-time) at 64 bits
    #[kani::unwind(13)]
    fn c02_boxed_rem_1(s) {
        let (n, d, _q, r) = pick1(s);
        assert!(is1(&BoxedUint::from(n).rem(&nz(BoxedUint::from(d))), r));
    }
    /// wrapping_div and the `/`, `%` operators (constant-time forms) at 64 bits
    #[kani::unwind(13)]
    fn c02_boxed_wrapping_div_ops_1(s) {
        let (n, d, q, r) = pick1(s);
        let dd = nz(BoxedUint::from(d));
        let x = BoxedUint::from(n);
        assert!(is1(&x.wrapping_div(&dd), q));
        assert!(is1(&(&x / &dd), q));
        assert!(is1(&(&x % &dd), r));
    }
    /// div_rem_limb / rem_limb at 64 bits
    #[kani::unwind(13)]
    fn c02_boxed_div_rem_limb_1(s) {
        let (n, d, q, r) = pick1(s);
        let dl = NonZero::<Limb>::new_unwrap(Limb(d));
        let x = BoxedUint::from(n);
        let (qq, rr) = x.div_rem_limb(dl);
        assert!(is1(&qq, q) && rr.0 == r);
        assert!(x.rem_limb(dl).0 == r);
    }
    /// checked_div at 64 bits: none exactly when the divisor is zero, otherwise the quotient
    #[kani::unwind(13)]
    fn c02_boxed_checked_div_1(s) {
        let i = s.usize(); let j = s.usize();
        s.assume(i < 16 && j <= 12);
        let n = N1[i];
        let d = if j == 12 { 0 } else { D1[j] };
        s.cover(d == 0);
        let res = Option::<BoxedUint>::from(BoxedUint::from(n).checked_div(&BoxedUint::from(d)));
        match res {
            None => assert!(d == 0),
            Some(qq) => { assert!(d != 0); assert!(is1(&qq, QR1[i][if j == 12 { 0 } else { j }].0)); }
        }
    }
    /// div_rem_vartime at 64 bits, divisors 3, 2^32 - 1, 2^32 + 1, 2^63 + 1, MAX
    #[kani::unwind(13)]
    fn c02_boxed_div_rem_vartime_1(s) {
        let (x, i) = n1(s);
        vt1::<2>(&x, i); vt1::<5>(&x, i); vt1::<7>(&x, i); vt1::<9>(&x, i); vt1::<11>(&x, i);
    }
    /// div_rem_vartime at 64 bits, all 12 divisors
    #[kani::unwind(13)]
    fn c02t_boxed_div_rem_vartime_1(s) {
        let (x, i) = n1(s);
        vt1::<0>(&x, i); vt1::<1>(&x, i); vt1::<2>(&x, i); vt1::<3>(&x, i); vt1::<4>(&x, i); vt1::<5>(&x, i);
        vt1::<6>(&x, i); vt1::<7>(&x, i); vt1::<8>(&x, i); vt1::<9>(&x, i); vt1::<10>(&x, i); vt1::<11>(&x, i);
    }
    /// rem_vartime and wrapping_div_vartime at 64 bits, divisors 3 and 2^63 + 1; DivVartime / RemMixed for 2^63 + 1
    #[kani::unwind(13)]
    fn c02_boxed_rem_vartime_1(s) {
        let (x, i) = n1(s);
        rvt1::<2>(&x, i); rvt1::<9>(&x, i);
        let dd = nz(BoxedUint::from(D1[9]));
        assert!(is1(&x.div_vartime(&dd), QR1[i][9].0));
        assert!(is1(&x.rem_mixed(&dd), QR1[i][9].1));
    }
    /// rem_vartime and wrapping_div_vartime at 64 bits, all 12 divisors
    #[kani::unwind(13)]
    fn c02t_boxed_rem_vartime_1(s) {
        let (x, i) = n1(s);
        rvt1::<0>(&x, i); rvt1::<1>(&x, i); rvt1::<2>(&x, i); rvt1::<3>(&x, i); rvt1::<4>(&x, i); rvt1::<5>(&x, i);
        rvt1::<6>(&x, i); rvt1::<7>(&x, i); rvt1::<8>(&x, i); rvt1::<9>(&x, i); rvt1::<10>(&x, i); rvt1::<11>(&x, i);
    }
    /// div_rem and div_rem_vartime at 64 bits for EVERY dividend, divisors 2^63, 2^63 + 1, MAX - 1, MAX (normalised
    /// divisors, reciprocal corner d = MAX; quotient 0 or 1): n = q d + r and r < d
    #[kani::unwind(13)]
    fn c02_boxed_div_rem_1_large_divisors_all_dividends(s) {
        let n = s.u64();
        let x = BoxedUint::from(n);
        for_const!(J in [8, 9, 10, 11] {
            let dd = nz(BoxedUint::from(D1[J]));
            let (qq, rr) = x.div_rem_vartime(&dd);
            assert!(qq.nlimbs() == 1 && rr.nlimbs() == 1);
            let (q, r) = (qq.as_words()[0], rr.as_words()[0]);
            assert!(r < D1[J]);
            assert!((q as u128) * (D1[J] as u128) + r as u128 == n as u128);
            let (q2, r2) = x.div_rem(&dd);
            assert!(is1(&q2, q) && is1(&r2, r));
        });
    }

    // ------------------------------------------------------------------ two limbs

    /// div_rem (constant-time) at 128 bits (about 100 s per divisor: thorough tier only), divisors 3, 2^64 - 1,
    /// 2^64 + 1, 2^127 + 2^64 - 1, 2^128 - 1, (2^64 - 1)^2
    #[kani::unwind(13)]
    fn c02t_boxed_div_rem_2(s) {
        let (x, i) = n2(s);
        ct2::<2>(&x, i); ct2::<4>(&x, i); ct2::<6>(&x, i); ct2::<9>(&x, i); ct2::<11>(&x, i); ct2::<12>(&x, i);
    }
    /// div_rem_vartime at 128 bits, divisors 2^64 - 1 and 2^128 - 1
    #[kani::unwind(13)]
    fn c02_boxed_div_rem_vartime_2(s) {
        let (x, i) = n2(s);
        vt2::<4>(&x, i); vt2::<11>(&x, i);
    }
    /// div_rem_vartime at 128 bits, all 14 divisors
    #[kani::unwind(13)]
    fn c02t_boxed_div_rem_vartime_2(s) {
        let (x, i) = n2(s);
        vt2::<0>(&x, i); vt2::<1>(&x, i); vt2::<2>(&x, i); vt2::<3>(&x, i); vt2::<4>(&x, i); vt2::<5>(&x, i); vt2::<6>(&x, i);
        vt2::<7>(&x, i); vt2::<8>(&x, i); vt2::<9>(&x, i); vt2::<10>(&x, i); vt2::<11>(&x, i); vt2::<12>(&x, i); vt2::<13>(&x, i);
    }
    /// rem_vartime at 128 bits, divisors 2^64 + 1, 2^127 + 2^64 - 1, (2^64-1)^2
    #[kani::unwind(13)]
    fn c02_boxed_rem_vartime_2(s) {
        let (x, i) = n2(s);
        rvt2::<6>(&x, i); rvt2::<9>(&x, i); rvt2::<12>(&x, i);
    }
    /// rem_vartime at 128 bits, all 14 divisors
    #[kani::unwind(13)]
    fn c02t_boxed_rem_vartime_2(s) {
        let (x, i) = n2(s);
        rvt2::<0>(&x, i); rvt2::<1>(&x, i); rvt2::<2>(&x, i); rvt2::<3>(&x, i); rvt2::<4>(&x, i); rvt2::<5>(&x, i); rvt2::<6>(&x, i);
        rvt2::<7>(&x, i); rvt2::<8>(&x, i); rvt2::<9>(&x, i); rvt2::<10>(&x, i); rvt2::<11>(&x, i); rvt2::<12>(&x, i); rvt2::<13>(&x, i);
    }
    /// checked_div at 128 bits, symbolic divisor index (zero included)
    #[kani::unwind(13)]
    fn c02t_boxed_checked_div_2(s) {
        let i = s.usize(); let j = s.usize();
        s.assume(i < 16 && j <= 14);
        let n = N2[i];
        let d = if j == 14 { 0 } else { D2[j] };
        let res = Option::<BoxedUint>::from(BoxedUint::from(n).checked_div(&BoxedUint::from(d)));
        match res {
            None => assert!(d == 0),
            Some(qq) => { assert!(d != 0); assert!(is2(&qq, QR2[i][if j == 14 { 0 } else { j }].0)); }
        }
    }
    /// div_rem_limb / rem_limb with a 128-bit dividend
    #[kani::unwind(13)]
    fn c02_boxed_div_rem_limb_2(s) {
        let (n, d, q, r) = pick21(s);
        let dl = NonZero::<Limb>::new_unwrap(Limb(d));
        let x = BoxedUint::from(n);
        let (qq, rr) = x.div_rem_limb(dl);
        assert!(is2(&qq, q) && rr.0 == r);
        assert!(x.rem_limb(dl).0 == r);
    }

    // ------------------------------------------------------------------ mixed widths (vartime forms accept them)

    /// div_rem_vartime / rem_vartime, 128-bit dividend by 64-bit divisor (3, MAX): quotient in the dividend's width,
    /// remainder in the divisor's width
    #[kani::unwind(13)]
    fn c02_boxed_div_rem_vartime_2by1(s) {
        let (x, i) = n2(s);
        vt21::<2>(&x, i); vt21::<11>(&x, i);
    }
    /// the same, all 12 one-limb divisors
    #[kani::unwind(13)]
    fn c02t_boxed_div_rem_vartime_2by1(s) {
        let (x, i) = n2(s);
        vt21::<0>(&x, i); vt21::<1>(&x, i); vt21::<2>(&x, i); vt21::<3>(&x, i); vt21::<4>(&x, i); vt21::<5>(&x, i);
        vt21::<6>(&x, i); vt21::<7>(&x, i); vt21::<8>(&x, i); vt21::<9>(&x, i); vt21::<10>(&x, i); vt21::<11>(&x, i);
    }
    /// div_rem_vartime / rem_vartime, 64-bit dividend by 128-bit divisor (3 inside two limbs, 2^64, (2^64-1)^2)
    #[kani::unwind(13)]
    fn c02_boxed_div_rem_vartime_1by2(s) {
        let (x, i) = n1(s);
        vt12::<2>(&x, i); vt12::<5>(&x, i); vt12::<12>(&x, i);
    }
    /// the same, all 14 two-limb divisors
    #[kani::unwind(13)]
    fn c02t_boxed_div_rem_vartime_1by2(s) {
        let (x, i) = n1(s);
        vt12::<0>(&x, i); vt12::<1>(&x, i); vt12::<2>(&x, i); vt12::<3>(&x, i); vt12::<4>(&x, i); vt12::<5>(&x, i); vt12::<6>(&x, i);
        vt12::<7>(&x, i); vt12::<8>(&x, i); vt12::<9>(&x, i); vt12::<10>(&x, i); vt12::<11>(&x, i); vt12::<12>(&x, i); vt12::<13>(&x, i);
    }

    // ------------------------------------------------------------------ precision mismatch (constant-time forms)

    /// div_rem with a divisor of another precision panics ("the precision of the divisor must match the dividend")
    #[kani::should_panic]
    #[kani::unwind(13)]
    fn c02_boxed_div_rem_precision_mismatch_panics(s) {
        let n = s.u64();
        let d = s.u128();
        s.assume(d != 0);
        let _ = BoxedUint::from(n).div_rem(&nz(BoxedUint::from(d)));
        returned_instead_of_panicking();
    }
    /// checked_div with a divisor of another precision panics
    #[kani::should_panic]
    #[kani::unwind(13)]
    fn c02_boxed_checked_div_precision_mismatch_panics(s) {
        let n = s.u128();
        let d = s.u64();
        s.assume(d != 0);
        let _ = BoxedUint::from(n).checked_div(&BoxedUint::from(d));
        returned_instead_of_panicking();
    }
}
