//! C15: all routes to the same operation give bit-identical results (forwarding pairs only).
//!
//! Shape: r1 = route_a(x), r2 = route_b(x) on identical symbolic inputs, compared limb by limb - no oracle.
//! (1) `Uint<N>` / `Int<N>`, N in {1, 2}: trait method vs inherent method, operator by value / by reference / assigning
//!     vs inherent, `Wrapping<T>` / `Checked<T>` vs inherent, constant-time vs `_vartime`.
//! (2) `BoxedUint` of precision 64*N vs `Uint<N>`, N in {1, 2}: add, sub, neg, shifts, bit operations and queries,
//!     comparisons; result precision of every boxed result as documented.
//! Multiplication: one factor fully symbolic, the other iterated over the sparse alphabet
//! {0, 1, 2, 3, 2^31, 2^(BITS-1)} (dense constants do not get through CBMC); squares: k * 2^e, k any u8.
use crate::*;
use crate::util::*;
use crypto_bigint::*;
use core::cmp::Ordering;
use subtle::{Choice, ConstantTimeEq, ConstantTimeGreater, ConstantTimeLess, CtOption};

fn opt<T>(o: CtOption<T>) -> Option<T> { Option::from(o) }
fn ck<T>(v: T, valid: bool) -> Checked<T> { Checked(CtOption::new(v, Choice::from(valid as u8))) }

/// limb-by-limb equality of two fixed integers
fn same<const N: usize>(a: &Uint<N>, b: &Uint<N>) -> bool {
    let (x, y) = (a.as_words(), b.as_words());
    let mut i = 0; let mut r = true;
    while i < N { r &= x[i] == y[i]; i += 1; }
    r
}
fn same_opt<const N: usize>(a: Option<Uint<N>>, b: Option<Uint<N>>) -> bool {
    match (a, b) { (Some(x), Some(y)) => same(&x, &y), (None, None) => true, _ => false }
}
/// boxed result has exactly N limbs (= the documented precision) and the same limbs as the fixed result
fn bsame<const N: usize>(b: &BoxedUint, u: &Uint<N>) -> bool {
    if b.nlimbs() != N || b.bits_precision() != 64 * N as u32 { return false; }
    let (x, y) = (b.as_words(), u.as_words());
    let mut i = 0; let mut r = true;
    while i < N { r &= x[i] == y[i]; i += 1; }
    r
}
fn bsame_opt<const N: usize>(b: Option<BoxedUint>, u: Option<Uint<N>>) -> bool {
    match (b, u) { (Some(x), Some(y)) => bsame(&x, &y), (None, None) => true, _ => false }
}
fn boxed<const N: usize>(u: &Uint<N>) -> BoxedUint { BoxedUint::from_words(u.to_words()) }
/// sparse multiplication alphabet for an N-limb integer
fn alpha<const N: usize>(k: usize) -> Uint<N> {
    let mut w = [0u64; N];
    match k { 0 => {} 1 => w[0] = 1, 2 => w[0] = 2, 3 => w[0] = 3, 4 => w[0] = 1 << 31, _ => w[N - 1] = 1 << 63 }
    Uint::from_words(w)
}
const NALPHA: usize = 6;

// ------------------------------------------------------------------ (1) fixed: trait / operator / wrapper vs inherent
fn uint_add_sub_neg_routes<const N: usize, S: Src>(s: &mut S) {
    let (a, b): (Uint<N>, Uint<N>) = (Uint::from_words(s.words()), Uint::from_words(s.words()));
    // core results
    let (sum, carry) = a.adc(&b, Limb::ZERO);
    let (diff, borrow) = a.sbb(&b, Limb::ZERO);
    let neg = a.wrapping_neg();
    assert!(same(&a.wrapping_add(&b), &sum) && same(&WrappingAdd::wrapping_add(&a, &b), &sum));
    assert!(same(&a.wrapping_sub(&b), &diff) && same(&WrappingSub::wrapping_sub(&a, &b), &diff));
    assert!(same(&WrappingNeg::wrapping_neg(&a), &neg) && same(&a.carrying_neg().0, &neg));
    assert!(same_opt(opt(CheckedAdd::checked_add(&a, &b)), if carry.0 == 0 { Some(sum) } else { None }));
    assert!(same_opt(opt(CheckedSub::checked_sub(&a, &b)), if borrow.0 == 0 { Some(diff) } else { None }));
    // Wrapping<T>
    let (wa, wb) = (Wrapping(a), Wrapping(b));
    assert!(same(&(wa + wb).0, &sum) && same(&(wa + &wb).0, &sum) && same(&(&wa + wb).0, &sum) && same(&(&wa + &wb).0, &sum));
    assert!(same(&(wa - wb).0, &diff) && same(&(wa - &wb).0, &diff) && same(&(&wa - wb).0, &diff) && same(&(&wa - &wb).0, &diff));
    let mut w = wa; w += wb; assert!(same(&w.0, &sum)); let mut w = wa; w += &wb; assert!(same(&w.0, &sum));
    let mut w = wa; w -= wb; assert!(same(&w.0, &diff)); let mut w = wa; w -= &wb; assert!(same(&w.0, &diff));
    assert!(same(&(-wa).0, &neg) && same(&(-&wa).0, &neg));
    // operators (they panic exactly where checked_* is none: C04)
    if carry.0 == 0 {
        assert!(same(&(a + b), &sum) && same(&(a + &b), &sum));
        let mut y = a; y += b; assert!(same(&y, &sum)); let mut y = a; y += &b; assert!(same(&y, &sum));
    }
    if borrow.0 == 0 {
        assert!(same(&(a - b), &diff) && same(&(a - &b), &diff));
        let mut y = a; y -= b; assert!(same(&y, &diff)); let mut y = a; y -= &b; assert!(same(&y, &diff));
    }
}
fn uint_checked_wrapper_routes<const N: usize, S: Src>(s: &mut S) {
    let (a, b): (Uint<N>, Uint<N>) = (Uint::from_words(s.words()), Uint::from_words(s.words()));
    let (va, vb) = (s.bool(), s.bool());
    let (ca, cb) = (ck(a, va), ck(b, vb));
    let add = if va && vb { opt(CheckedAdd::checked_add(&a, &b)) } else { None };
    let sub = if va && vb { opt(CheckedSub::checked_sub(&a, &b)) } else { None };
    assert!(same_opt(opt((ca + cb).0), add) && same_opt(opt((ca + &cb).0), add) && same_opt(opt((&ca + cb).0), add) && same_opt(opt((&ca + &cb).0), add));
    assert!(same_opt(opt((ca - cb).0), sub) && same_opt(opt((ca - &cb).0), sub) && same_opt(opt((&ca - cb).0), sub) && same_opt(opt((&ca - &cb).0), sub));
    let mut c = ca; c += cb; assert!(same_opt(opt(c.0), add)); let mut c = ca; c += &cb; assert!(same_opt(opt(c.0), add));
    let mut c = ca; c -= cb; assert!(same_opt(opt(c.0), sub)); let mut c = ca; c -= &cb; assert!(same_opt(opt(c.0), sub));
}
fn uint_shift_routes<const N: usize, S: Src>(s: &mut S, left: bool) {
    let a: Uint<N> = Uint::from_words(s.words()); let sh = s.u32();
    if left {
        let l: Option<Uint<N>> = a.overflowing_shl(sh).into();
        let wl = a.wrapping_shl(sh);
        // constant-time vs vartime
        assert!(same_opt(a.overflowing_shl_vartime(sh).into(), l) && same(&a.wrapping_shl_vartime(sh), &wl));
        // traits / Wrapping vs inherent
        assert!(same_opt(opt(ShlVartime::overflowing_shl_vartime(&a, sh)), l) && same(&ShlVartime::wrapping_shl_vartime(&a, sh), &wl));
        assert!(same(&WrappingShl::wrapping_shl(&a, sh), &wl));
        assert!(same(&(Wrapping(a) << sh).0, &wl) && same(&(&Wrapping(a) << sh).0, &wl));
        // in range: shl / shl_vartime / operators vs overflowing_shl
        if let Some(l) = l {
            assert!(same(&a.shl(sh), &l) && same(&a.shl_vartime(sh), &l) && same(&(a << sh), &l) && same(&(&a << sh), &l));
            assert!(same(&(a << sh as i32), &l) && same(&(a << sh as usize), &l));
            let mut y = a; y <<= sh; assert!(same(&y, &l));
            assert!(same(&wl, &l));
        }
    } else {
        let r: Option<Uint<N>> = a.overflowing_shr(sh).into();
        let wr = a.wrapping_shr(sh);
        assert!(same_opt(a.overflowing_shr_vartime(sh).into(), r) && same(&a.wrapping_shr_vartime(sh), &wr));
        assert!(same_opt(opt(ShrVartime::overflowing_shr_vartime(&a, sh)), r) && same(&ShrVartime::wrapping_shr_vartime(&a, sh), &wr));
        assert!(same(&WrappingShr::wrapping_shr(&a, sh), &wr));
        assert!(same(&(Wrapping(a) >> sh).0, &wr) && same(&(&Wrapping(a) >> sh).0, &wr));
        if let Some(r) = r {
            assert!(same(&a.shr(sh), &r) && same(&a.shr_vartime(sh), &r) && same(&(a >> sh), &r) && same(&(&a >> sh), &r));
            assert!(same(&(a >> sh as i32), &r) && same(&(a >> sh as usize), &r));
            let mut y = a; y >>= sh; assert!(same(&y, &r));
            assert!(same(&wr, &r));
        }
    }
}
fn uint_bit_routes<const N: usize, S: Src>(s: &mut S) {
    let (a, b): (Uint<N>, Uint<N>) = (Uint::from_words(s.words()), Uint::from_words(s.words()));
    let i = s.u32();
    assert!(BitOps::leading_zeros(&a) == a.leading_zeros() && a.leading_zeros_vartime() == a.leading_zeros());
    assert!(BitOps::leading_zeros_vartime(&a) == a.leading_zeros());
    assert!(BitOps::bits(&a) == a.bits() && BitOps::bits_vartime(&a) == a.bits() && a.bits_vartime() == a.bits());
    assert!(BitOps::trailing_zeros(&a) == a.trailing_zeros() && a.trailing_zeros_vartime() == a.trailing_zeros());
    assert!(BitOps::trailing_zeros_vartime(&a) == a.trailing_zeros());
    assert!(BitOps::trailing_ones(&a) == a.trailing_ones() && a.trailing_ones_vartime() == a.trailing_ones());
    assert!(BitOps::trailing_ones_vartime(&a) == a.trailing_ones());
    let bit = bool::from(a.bit(i));
    assert!(a.bit_vartime(i) == bit && bool::from(BitOps::bit(&a, i)) == bit && BitOps::bit_vartime(&a, i) == bit);
    if i < Uint::<N>::BITS {
        let bv = s.bool();
        let mut y = a; BitOps::set_bit(&mut y, i, Choice::from(bv as u8));
        let mut z = a; BitOps::set_bit_vartime(&mut z, i, bv);
        assert!(same(&y, &z));
    }
    let (and, or, xor, not) = (a.bitand(&b), a.bitor(&b), a.bitxor(&b), a.not());
    assert!(same(&(a & b), &and) && same(&(a & &b), &and) && same(&(&a & b), &and) && same(&(&a & &b), &and) && same(&a.wrapping_and(&b), &and));
    assert!(same(&(a | b), &or) && same(&(a | &b), &or) && same(&(&a | b), &or) && same(&(&a | &b), &or) && same(&a.wrapping_or(&b), &or));
    assert!(same(&(a ^ b), &xor) && same(&(a ^ &b), &xor) && same(&(&a ^ b), &xor) && same(&(&a ^ &b), &xor) && same(&a.wrapping_xor(&b), &xor));
    assert!(same(&!a, &not) && same(&(!Wrapping(a)).0, &not));
    let mut y = a; y &= b; assert!(same(&y, &and)); let mut y = a; y |= &b; assert!(same(&y, &or)); let mut y = a; y ^= b; assert!(same(&y, &xor));
    assert!(same(&(Wrapping(a) & Wrapping(b)).0, &and) && same(&(Wrapping(a) | Wrapping(b)).0, &or) && same(&(Wrapping(a) ^ Wrapping(b)).0, &xor));
}
fn uint_cmp_routes<const N: usize, S: Src>(s: &mut S) {
    let (a, b): (Uint<N>, Uint<N>) = (Uint::from_words(s.words()), Uint::from_words(s.words()));
    let o = a.cmp_vartime(&b);
    assert!(Ord::cmp(&a, &b) == o && a.partial_cmp(&b) == Some(o));
    assert!((a == b) == (o == Ordering::Equal) && bool::from(a.ct_eq(&b)) == (o == Ordering::Equal));
    assert!(bool::from(a.ct_gt(&b)) == (o == Ordering::Greater) && bool::from(a.ct_lt(&b)) == (o == Ordering::Less));
    assert!((a < b) == (o == Ordering::Less) && (a >= b) == (o != Ordering::Less));
}
/// part 0: wrapping family vs split_mul lo; part 1: checked family, saturating; part 2: operators vs split_mul (lo, hi == 0)
fn uint_mul_routes<const N: usize, S: Src>(s: &mut S, part: u8) {
    let a: Uint<N> = Uint::from_words(s.words());
    let mut k = 0;
    while k < NALPHA {
        let b: Uint<N> = alpha(k);
        let (lo, hi) = a.split_mul(&b);
        let fits = bool::from(hi.is_zero());
        if part == 0 {
            assert!(same(&a.wrapping_mul(&b), &lo) && same(&WrappingMul::wrapping_mul(&a, &b), &lo));
            assert!(same(&(Wrapping(a) * Wrapping(b)).0, &lo) && same(&(&Wrapping(a) * &Wrapping(b)).0, &lo));
            let mut w = Wrapping(a); w *= Wrapping(b); assert!(same(&w.0, &lo));
        } else if part == 1 {
            assert!(same_opt(opt(CheckedMul::checked_mul(&a, &b)), if fits { Some(lo) } else { None }));
            assert!(same_opt(opt((ck(a, true) * ck(b, true)).0), if fits { Some(lo) } else { None }));
            assert!(same(&a.saturating_mul(&b), &if fits { lo } else { Uint::<N>::MAX }));
        } else {
            if fits {
                assert!(same(&(a * b), &lo) && same(&(a * &b), &lo) && same(&(&a * b), &lo) && same(&(&a * &b), &lo));
                let mut y = a; y *= b; assert!(same(&y, &lo)); let mut y = a; y *= &b; assert!(same(&y, &lo));
            }
        }
        k += 1;
    }
}
/// Int<N>: trait vs inherent, wrappers vs inherent, operators vs inherent
fn int_routes<const N: usize, S: Src>(s: &mut S, part: u8) {
    let (a, b): (Int<N>, Int<N>) = (Int::from_words(s.words()), Int::from_words(s.words()));
    let isame = |x: &Int<N>, y: &Int<N>| same(x.as_uint(), y.as_uint());
    if part == 1 { int_routes_neg_cmp(a, b); return; }
    let (sum, ovf) = a.overflowing_add(&b);
    let add: Option<Int<N>> = a.checked_add(&b).into();
    assert!(add.is_some() != bool::from(ovf));
    assert!(isame(&a.wrapping_add(&b), &sum) && isame(&WrappingAdd::wrapping_add(&a, &b), &sum));
    match (opt(CheckedAdd::checked_add(&a, &b)), add) { (Some(x), Some(y)) => assert!(isame(&x, &y) && isame(&x, &sum)), (None, None) => {} _ => assert!(false) }
    let diff = WrappingSub::wrapping_sub(&a, &b);
    let sub = opt(CheckedSub::checked_sub(&a, &b));
    let (wa, wb) = (Wrapping(a), Wrapping(b));
    assert!(isame(&(wa + wb).0, &sum) && isame(&(&wa + &wb).0, &sum) && isame(&(wa - wb).0, &diff) && isame(&(&wa - &wb).0, &diff));
    let mut w = wa; w += wb; assert!(isame(&w.0, &sum)); let mut w = wa; w -= &wb; assert!(isame(&w.0, &diff));
    match (opt((ck(a, true) + ck(b, true)).0), add) { (Some(x), Some(y)) => assert!(isame(&x, &y)), (None, None) => {} _ => assert!(false) }
    match (opt((ck(a, true) - ck(b, true)).0), sub) { (Some(x), Some(y)) => assert!(isame(&x, &y) && isame(&x, &diff)), (None, None) => {} _ => assert!(false) }
    if let Some(t) = add { assert!(isame(&(a + b), &t) && isame(&(a + &b), &t)); let mut y = a; y += b; assert!(isame(&y, &t)); let mut y = a; y += &b; assert!(isame(&y, &t)); }
    if let Some(t) = sub { assert!(isame(&(a - b), &t) && isame(&(a - &b), &t)); }
}
/// negation: checked / wrapping / overflowing agree; comparison routes agree
fn int_routes_neg_cmp<const N: usize>(a: Int<N>, b: Int<N>) {
    let isame = |x: &Int<N>, y: &Int<N>| same(x.as_uint(), y.as_uint());
    let (n, no) = a.overflowing_neg();
    assert!(isame(&a.wrapping_neg(), &n) && isame(&a.wrapping_neg_if(ConstChoice::TRUE), &n));
    match Option::<Int<N>>::from(a.checked_neg()) { Some(x) => assert!(!bool::from(no) && isame(&x, &n)), None => assert!(bool::from(no)) }
    let o = a.cmp_vartime(&b);
    assert!(Ord::cmp(&a, &b) == o && a.partial_cmp(&b) == Some(o) && (a == b) == (o == Ordering::Equal));
    assert!(bool::from(a.ct_eq(&b)) == (o == Ordering::Equal) && bool::from(a.ct_gt(&b)) == (o == Ordering::Greater) && bool::from(a.ct_lt(&b)) == (o == Ordering::Less));
}

// ------------------------------------------------------------------ (2) BoxedUint of 64*N bits vs Uint<N>
fn boxed_add_sub_neg<const N: usize, S: Src>(s: &mut S) {
    let (a, b): (Uint<N>, Uint<N>) = (Uint::from_words(s.words()), Uint::from_words(s.words()));
    let c = s.u64();
    let (x, y) = (boxed(&a), boxed(&b));
    let (r, k) = x.adc(&y, Limb(c)); let (fr, fk) = a.adc(&b, Limb(c)); assert!(bsame(&r, &fr) && k.0 == fk.0);
    let (r, k) = x.sbb(&y, Limb(c)); let (fr, fk) = a.sbb(&b, Limb(c)); assert!(bsame(&r, &fr) && k.0 == fk.0);
    let mut r = x.clone(); let k = r.adc_assign(&y, Limb(c)); let (fr, fk) = a.adc(&b, Limb(c)); assert!(bsame(&r, &fr) && k.0 == fk.0);
    let mut r = x.clone(); let k = r.sbb_assign(&y, Limb(c)); let (fr, fk) = a.sbb(&b, Limb(c)); assert!(bsame(&r, &fr) && k.0 == fk.0);
    assert!(bsame(&x.wrapping_add(&y), &a.wrapping_add(&b)) && bsame(&x.wrapping_sub(&y), &a.wrapping_sub(&b)));
    assert!(bsame(&x.wrapping_neg(), &a.wrapping_neg()));
    assert!(bsame_opt(opt(x.checked_add(&y)), opt(CheckedAdd::checked_add(&a, &b))));
    assert!(bsame_opt(opt(x.checked_sub(&y)), opt(CheckedSub::checked_sub(&a, &b))));
}
fn boxed_add_sub_ops<const N: usize, S: Src>(s: &mut S) {
    let (a, b): (Uint<N>, Uint<N>) = (Uint::from_words(s.words()), Uint::from_words(s.words()));
    let (x, y) = (boxed(&a), boxed(&b));
    if let Some(t) = opt(CheckedAdd::checked_add(&a, &b)) {
        assert!(bsame(&(&x + &y), &t) && bsame(&(x.clone() + y.clone()), &t) && bsame(&(&x + b), &t));
        let mut r = x.clone(); r += &y; assert!(bsame(&r, &t)); let mut r = x.clone(); r += b; assert!(bsame(&r, &t));
    }
    if let Some(t) = opt(CheckedSub::checked_sub(&a, &b)) {
        assert!(bsame(&(&x - &y), &t) && bsame(&(x.clone() - y.clone()), &t) && bsame(&(&x - b), &t));
        let mut r = x.clone(); r -= &y; assert!(bsame(&r, &t)); let mut r = x.clone(); r -= b; assert!(bsame(&r, &t));
    }
}
/// part 0: constant-time routes, part 1: vartime routes, part 2: shl / shr / operators in range
fn boxed_shifts<const N: usize, S: Src>(s: &mut S, left: bool, part: u8) {
    let a: Uint<N> = Uint::from_words(s.words()); let sh = s.u32();
    let x = boxed(&a);
    match (left, part) {
        (true, 0) => {
            let l: Option<Uint<N>> = a.overflowing_shl(sh).into();
            let (v, o) = x.overflowing_shl(sh); assert!(bool::from(o) == l.is_none() && bsame(&v, &a.wrapping_shl(sh)));
            assert!(bsame(&x.wrapping_shl(sh), &a.wrapping_shl(sh)));
        }
        (false, 0) => {
            let r: Option<Uint<N>> = a.overflowing_shr(sh).into();
            let (v, o) = x.overflowing_shr(sh); assert!(bool::from(o) == r.is_none() && bsame(&v, &a.wrapping_shr(sh)));
            assert!(bsame(&x.wrapping_shr(sh), &a.wrapping_shr(sh)));
        }
        (true, 1) => {
            assert!(bsame_opt(x.shl_vartime(sh), a.overflowing_shl_vartime(sh).into()));
            assert!(bsame(&x.wrapping_shl_vartime(sh), &a.wrapping_shl_vartime(sh)));
        }
        (false, 1) => {
            assert!(bsame_opt(x.shr_vartime(sh), a.overflowing_shr_vartime(sh).into()));
            assert!(bsame(&x.wrapping_shr_vartime(sh), &a.wrapping_shr_vartime(sh)));
        }
        (true, _) => {
            if let Some(l) = Option::<Uint<N>>::from(a.overflowing_shl(sh)) {
                assert!(bsame(&x.shl(sh), &l) && bsame(&(&x << sh), &l));
                let mut y = x.clone(); y <<= sh; assert!(bsame(&y, &l));
            }
        }
        (false, _) => {
            if let Some(r) = Option::<Uint<N>>::from(a.overflowing_shr(sh)) {
                assert!(bsame(&x.shr(sh), &r) && bsame(&(&x >> sh), &r));
                let mut y = x.clone(); y >>= sh; assert!(bsame(&y, &r));
            }
        }
    }
}
fn boxed_bits<const N: usize, S: Src>(s: &mut S) {
    let (a, b): (Uint<N>, Uint<N>) = (Uint::from_words(s.words()), Uint::from_words(s.words()));
    let i = s.u32();
    let (x, y) = (boxed(&a), boxed(&b));
    assert!(x.leading_zeros() == a.leading_zeros() && x.bits() == a.bits() && x.bits_vartime() == a.bits_vartime());
    assert!(x.trailing_zeros() == a.trailing_zeros() && x.trailing_zeros_vartime() == a.trailing_zeros_vartime());
    assert!(x.trailing_ones() == a.trailing_ones() && x.trailing_ones_vartime() == a.trailing_ones_vartime());
    assert!(bool::from(x.bit(i)) == bool::from(a.bit(i)) && x.bit_vartime(i) == a.bit_vartime(i));
    assert!(x.bits_precision() == Uint::<N>::BITS && BitOps::bits_precision(&x) == BitOps::bits_precision(&a));
    assert!(BitOps::bytes_precision(&x) == BitOps::bytes_precision(&a) && BitOps::log2_bits(&x) == BitOps::log2_bits(&a));
    if i < Uint::<N>::BITS {
        let bv = s.bool();
        let mut p = x.clone(); BitOps::set_bit(&mut p, i, Choice::from(bv as u8));
        let mut q = a; BitOps::set_bit(&mut q, i, Choice::from(bv as u8));
        assert!(bsame(&p, &q));
        let mut p = x.clone(); BitOps::set_bit_vartime(&mut p, i, bv);
        assert!(bsame(&p, &q));
    }
}
fn boxed_bitops<const N: usize, S: Src>(s: &mut S) {
    let (a, b): (Uint<N>, Uint<N>) = (Uint::from_words(s.words()), Uint::from_words(s.words()));
    let (x, y) = (boxed(&a), boxed(&b));
    assert!(bsame(&x.bitand(&y), &a.bitand(&b)) && bsame(&(&x & &y), &a.bitand(&b)));
    assert!(bsame(&x.bitor(&y), &a.bitor(&b)) && bsame(&(&x | &y), &a.bitor(&b)));
    assert!(bsame(&x.bitxor(&y), &a.bitxor(&b)) && bsame(&(&x ^ &y), &a.bitxor(&b)));
    assert!(bsame(&x.not(), &a.not()) && bsame(&!x.clone(), &a.not()));
}
fn boxed_cmp<const N: usize, S: Src>(s: &mut S) {
    let (a, b): (Uint<N>, Uint<N>) = (Uint::from_words(s.words()), Uint::from_words(s.words()));
    let (x, y) = (boxed(&a), boxed(&b));
    assert!(x.cmp_vartime(&y) == a.cmp_vartime(&b) && Ord::cmp(&x, &y) == Ord::cmp(&a, &b) && x.partial_cmp(&y) == a.partial_cmp(&b));
    assert!((x == y) == (a == b) && bool::from(x.ct_eq(&y)) == bool::from(a.ct_eq(&b)));
    assert!(bool::from(x.ct_gt(&y)) == bool::from(a.ct_gt(&b)) && bool::from(x.ct_lt(&y)) == bool::from(a.ct_lt(&b)));
    assert!(bool::from(x.is_zero()) == bool::from(Zero::is_zero(&a)) && bool::from(x.is_odd()) == bool::from(Integer::is_odd(&a)));
}
/// part 0: limbs of the widening boxed `mul` (precision 2N limbs, as documented) vs split_mul (lo, hi);
/// part 1: wrapping_mul (inherent, trait); part 2: checked_mul; part 3: `&x * &y`
fn boxed_mul<const N: usize, S: Src>(s: &mut S, part: u8) {
    let a: Uint<N> = Uint::from_words(s.words());
    let x = boxed(&a);
    let mut k = 0;
    while k < NALPHA {
        let b: Uint<N> = alpha(k); let y = boxed(&b);
        match part {
            0 => {
                let (lo, hi) = a.split_mul(&b);
                let p = x.mul(&y);
                assert!(p.nlimbs() == 2 * N);
                let w = p.as_words();
                let mut i = 0;
                while i < N { assert!(w[i] == lo.as_words()[i] && w[N + i] == hi.as_words()[i]); i += 1; }
            }
            1 => { assert!(bsame(&x.wrapping_mul(&y), &a.wrapping_mul(&b)) && bsame(&WrappingMul::wrapping_mul(&x, &y), &a.wrapping_mul(&b))); }
            2 => { assert!(bsame_opt(opt(x.checked_mul(&y)), opt(CheckedMul::checked_mul(&a, &b)))); }
            _ => { if let Some(t) = opt(CheckedMul::checked_mul(&a, &b)) { assert!(bsame(&(&x * &y), &t)); } }
        }
        k += 1;
    }
}

harnesses! {
    // (1) fixed
    fn c15_u64_add_sub_neg_routes(s) { uint_add_sub_neg_routes::<1, _>(s); }
    fn c15_u128_add_sub_neg_routes(s) { uint_add_sub_neg_routes::<2, _>(s); }
    fn c15_u64_checked_wrapper_routes(s) { uint_checked_wrapper_routes::<1, _>(s); }
    fn c15_u128_checked_wrapper_routes(s) { uint_checked_wrapper_routes::<2, _>(s); }
    #[kani::unwind(10)] fn c15_u64_shl_routes(s) { uint_shift_routes::<1, _>(s, true); }
    #[kani::unwind(10)] fn c15_u64_shr_routes(s) { uint_shift_routes::<1, _>(s, false); }
    #[kani::unwind(10)] fn c15_u128_shl_routes(s) { uint_shift_routes::<2, _>(s, true); }
    #[kani::unwind(10)] fn c15_u128_shr_routes(s) { uint_shift_routes::<2, _>(s, false); }
    fn c15_u64_bit_routes(s) { uint_bit_routes::<1, _>(s); }
    fn c15_u128_bit_routes(s) { uint_bit_routes::<2, _>(s); }
    fn c15_u64_cmp_routes(s) { uint_cmp_routes::<1, _>(s); }
    fn c15_u128_cmp_routes(s) { uint_cmp_routes::<2, _>(s); }
    fn c15_u64_mul_wrapping_routes(s) { uint_mul_routes::<1, _>(s, 0); }
    fn c15_u64_mul_checked_routes(s) { uint_mul_routes::<1, _>(s, 1); }
    fn c15_u64_mul_op_routes(s) { uint_mul_routes::<1, _>(s, 2); }
    fn c15_u128_mul_wrapping_routes(s) { uint_mul_routes::<2, _>(s, 0); }
    fn c15_u128_mul_checked_routes(s) { uint_mul_routes::<2, _>(s, 1); }
    fn c15_u128_mul_op_routes(s) { uint_mul_routes::<2, _>(s, 2); }
    fn c15_i64_add_sub_routes(s) { int_routes::<1, _>(s, 0); }
    fn c15_i64_neg_cmp_routes(s) { int_routes::<1, _>(s, 1); }
    fn c15_i128_add_sub_routes(s) { int_routes::<2, _>(s, 0); }
    fn c15_i128_neg_cmp_routes(s) { int_routes::<2, _>(s, 1); }
    // (2) BoxedUint vs Uint
    fn c15_boxed_u64_add_sub_neg(s) { boxed_add_sub_neg::<1, _>(s); }
    fn c15_boxed_u128_add_sub_neg(s) { boxed_add_sub_neg::<2, _>(s); }
    fn c15_boxed_u64_add_sub_ops(s) { boxed_add_sub_ops::<1, _>(s); }
    fn c15_boxed_u128_add_sub_ops(s) { boxed_add_sub_ops::<2, _>(s); }
    #[kani::unwind(10)] fn c15_boxed_u64_shl_ct(s) { boxed_shifts::<1, _>(s, true, 0); }
    #[kani::unwind(10)] fn c15_boxed_u64_shr_ct(s) { boxed_shifts::<1, _>(s, false, 0); }
    #[kani::unwind(10)] fn c15_boxed_u64_shl_vartime(s) { boxed_shifts::<1, _>(s, true, 1); }
    #[kani::unwind(10)] fn c15_boxed_u64_shr_vartime(s) { boxed_shifts::<1, _>(s, false, 1); }
    #[kani::unwind(10)] fn c15_boxed_u64_shl_ops(s) { boxed_shifts::<1, _>(s, true, 2); }
    #[kani::unwind(10)] fn c15_boxed_u64_shr_ops(s) { boxed_shifts::<1, _>(s, false, 2); }
    #[kani::unwind(10)] fn c15_boxed_u128_shl_ct(s) { boxed_shifts::<2, _>(s, true, 0); }
    #[kani::unwind(10)] fn c15_boxed_u128_shr_ct(s) { boxed_shifts::<2, _>(s, false, 0); }
    #[kani::unwind(10)] fn c15_boxed_u128_shl_vartime(s) { boxed_shifts::<2, _>(s, true, 1); }
    #[kani::unwind(10)] fn c15_boxed_u128_shr_vartime(s) { boxed_shifts::<2, _>(s, false, 1); }
    #[kani::unwind(10)] fn c15t_boxed_u128_shl_ops(s) { boxed_shifts::<2, _>(s, true, 2); }
    #[kani::unwind(10)] fn c15t_boxed_u128_shr_ops(s) { boxed_shifts::<2, _>(s, false, 2); }
    fn c15_boxed_u64_bits(s) { boxed_bits::<1, _>(s); }
    fn c15_boxed_u128_bits(s) { boxed_bits::<2, _>(s); }
    fn c15_boxed_u64_bitops(s) { boxed_bitops::<1, _>(s); }
    fn c15_boxed_u128_bitops(s) { boxed_bitops::<2, _>(s); }
    fn c15_boxed_u64_cmp(s) { boxed_cmp::<1, _>(s); }
    fn c15_boxed_u128_cmp(s) { boxed_cmp::<2, _>(s); }
    fn c15_boxed_u64_mul_wide(s) { boxed_mul::<1, _>(s, 0); }
    fn c15_boxed_u64_mul_wrapping(s) { boxed_mul::<1, _>(s, 1); }
    fn c15_boxed_u64_mul_checked(s) { boxed_mul::<1, _>(s, 2); }
    fn c15_boxed_u64_mul_op(s) { boxed_mul::<1, _>(s, 3); }
    fn c15_boxed_u128_mul_wide(s) { boxed_mul::<2, _>(s, 0); }
    fn c15t_boxed_u128_mul_wrapping(s) { boxed_mul::<2, _>(s, 1); }
    fn c15t_boxed_u128_mul_checked(s) { boxed_mul::<2, _>(s, 2); }
    fn c15t_boxed_u128_mul_op(s) { boxed_mul::<2, _>(s, 3); }
}
