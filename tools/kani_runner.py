"""Engine B runner: cargo kani on /verif/kani (path dependency on /repo), result parsing, counterexample replay."""
import os, re, json, subprocess, time, shutil

ROOT = os.path.dirname(os.path.dirname(os.path.abspath(__file__)))
KDIR = os.path.join(ROOT, "kani")
ENV = dict(os.environ, CARGO_NET_OFFLINE="true")

def sync_lock():
    try:
        shutil.copy("/repo/Cargo.lock", os.path.join(KDIR, "Cargo.lock"))
    except OSError:
        pass

def parse_kani(out):
    """returns {harness: {status, failed_checks:[...], checks:(failed,total), time}}"""
    res = {}
    cur = {}  # thread -> harness
    lines = out.split("\n")
    for i, l in enumerate(lines):
        m = re.match(r"^(?:Thread (\d+): )?Checking harness ([\w:]+)\.\.\.", l)
        if m:
            t = m.group(1) or "0"
            cur[t] = m.group(2)
            res[m.group(2)] = {"status": "UNKNOWN", "failed_checks": [], "checks": (0, 0), "time": 0.0}
            continue
        m = re.match(r"^Thread (\d+):\s*$", l)
        if m:
            cur["_last"] = m.group(1)
            continue
        t = cur.get("_last", "0")
        h = cur.get(t) or (list(res)[-1] if res else None)
        if h is None: continue
        m = re.match(r"^\s*\*\* (\d+) of (\d+) failed", l)
        if m: res[h]["checks"] = (int(m.group(1)), int(m.group(2))); continue
        m = re.match(r"^Failed Checks: (.*)$", l)
        if m:
            loc = lines[i+1].strip() if i + 1 < len(lines) and lines[i+1].startswith(" File:") else ""
            res[h]["failed_checks"].append(m.group(1) + ("  @ " + loc if loc else "")); continue
        m = re.match(r"^VERIFICATION:- (\w+)", l)
        if m: res[h]["status"] = m.group(1); continue
        m = re.match(r"^Verification Time: ([\d.]+)s", l)
        if m: res[h]["time"] = float(m.group(1)); continue
    return res

def playback(harness):
    """rerun one failing harness with concrete playback; returns list of byte lists or None"""
    short = harness.split("::")[-1]
    p = subprocess.run(["cargo", "kani", "--harness", short, "--exact" if False else "--output-format", "terse",
                        "-Z", "concrete-playback", "--concrete-playback=print"],
                       cwd=KDIR, env=ENV, capture_output=True, text=True, timeout=3600)
    out = p.stdout
    # one test block per failed check AND per satisfied cover: take the first block that is not a cover trace
    blocks = re.split(r"(?=/// Test generated for harness)", out)
    pick = None
    for b in blocks:
        if "concrete_vals" not in b: continue
        if re.search(r"Check for `cover`", b): continue
        pick = b; break
    if pick is None:
        pick = out
    m = re.search(r"let concrete_vals: Vec<Vec<u8>> = vec!\[(.*?)\n\s*\];", pick, re.S)
    if not m: return None, out[-3000:]
    vals = []
    for vm in re.finditer(r"vec!\[([^\]]*)\]", m.group(1)):
        s = vm.group(1).strip()
        vals.append([int(x) for x in s.split(",") if x.strip()] if s else [])
    return vals, out[-3000:]

def replay_native(short, vals):
    """build the replay driver against /repo with plain cargo (release, then debug-assertions) and run it"""
    results = []
    for prof, flags in (("release", ["--release"]), ("debug", [])):
        b = subprocess.run(["cargo", "build", "--offline", "--bin", "replay"] + flags, cwd=KDIR, env=ENV, capture_output=True, text=True)
        if b.returncode != 0:
            results.append({"profile": prof, "error": "build failed: " + b.stderr[-800:]}); continue
        exe = os.path.join(KDIR, "target", "release" if prof == "release" else "debug", "replay")
        r = subprocess.run([exe, short, json.dumps(vals)], capture_output=True, text=True)
        results.append({"profile": prof, "rc": r.returncode, "stdout": r.stdout.strip()[-500:], "stderr": (r.stderr.strip()[:500] + " ... " + r.stderr.strip()[-200:]) if len(r.stderr) > 700 else r.stderr.strip()})
    return results

def alt_repo_setup():
    """when VERIF_REPO points to a scratch copy of the repository (mutation testing), run Kani on a copy of the
    harness crate whose path dependency points there; returns the crate dir"""
    global KDIR
    alt = os.environ.get("VERIF_REPO")
    if not alt or os.path.realpath(alt) == "/repo":
        return
    dst = os.path.join(ROOT, ".work", "kani_alt_" + re.sub(r"\W+", "_", alt))
    os.makedirs(dst, exist_ok=True)
    subprocess.run(["rsync", "-a", "--exclude", "target", "--delete", "--exclude", "Cargo.lock", os.path.join(ROOT, "kani") + "/", dst + "/"], check=True)
    ct = open(os.path.join(dst, "Cargo.toml")).read().replace('path = "/repo"', 'path = "%s"' % alt)
    open(os.path.join(dst, "Cargo.toml"), "w").write(ct)
    shutil.copy(os.path.join(alt, "Cargo.lock"), os.path.join(dst, "Cargo.lock"))
    KDIR = dst

def run(prop, cfg, tier, seed, known):
    alt_repo_setup()
    if KDIR == os.path.join(ROOT, "kani"): sync_lock()
    meta = {}
    import glob
    for mp in glob.glob(os.path.join(KDIR, "meta", "*.json")):
        try:
            meta.update(json.load(open(mp)))
        except Exception as e:
            pass
    prefixes = ([cfg["prefix"]] if cfg.get("prefix") else []) + ([cfg["thorough_prefix"]] if tier == "thorough" and cfg.get("thorough_prefix") and cfg.get("prefix") else [])
    also = cfg.get("also", {})
    prefixes += list(also.get("quick", [])) + (list(also.get("thorough", [])) if tier == "thorough" else [])
    meta = {k: v for k, v in meta.items() if isinstance(v, dict) and not k.startswith("_")}
    out = {"obligations": 0, "discharged": 0, "violations": [], "undecided": [], "known_hits": [], "functions": [],
           "samples": [], "cmds": [], "trusted": [], "solver_s": 0.0}
    cmd = ["cargo", "kani", "--output-format", "terse", "-j", str(cfg.get("jobs", 8))]
    for z in cfg.get("zflags", []): cmd += ["-Z", z]
    for p in prefixes: cmd += ["--harness", p]
    out["cmds"].append("(cd %s && CARGO_NET_OFFLINE=true %s)" % (KDIR, " ".join(cmd)))
    t0 = time.time()
    try:
        p = subprocess.run(cmd, cwd=KDIR, env=ENV, capture_output=True, text=True, timeout=cfg.get("timeout_s", 3000 if tier == "quick" else 14000))
    except subprocess.TimeoutExpired:
        out["undecided"].append("cargo kani timed out for %s" % prefixes); return out
    text = p.stdout + "\n" + p.stderr
    res = parse_kani(p.stdout)
    if not res:
        out["undecided"].append("kani produced no harness results (compile error?): " + text[-2500:]); return out
    for h, r in sorted(res.items()):
        short = h.split("::")[-1]
        hm = meta.get(short, {})
        bound = hm.get("bound", "unspecified")
        status = "proved" if hm.get("complete") else "bounded(%s)" % bound
        out["obligations"] += max(r["checks"][1], 1)
        out["solver_s"] += r["time"]
        if r["status"] == "SUCCESSFUL":
            out["discharged"] += max(r["checks"][1], 1)
        elif r["status"] == "FAILED":
            out["discharged"] += max(r["checks"][1] - r["checks"][0], 0)
            fc = r["failed_checks"]
            if fc and all("unwinding assertion" in c for c in fc):
                out["undecided"].append("%s: unwinding bound too small (%s)" % (short, fc[0])); status = "UNDECIDED"
            else:
                kf = [k for k in known if k.get("property") == prop and k.get("harness") == short and
                      any(k.get("obligation", "") in c for c in fc)]
                status = "FAILED"
                if kf:
                    out["known_hits"].append((kf[0], {"msg": fc[0]}))
                    out["obligations"] -= r["checks"][0]   # the listed failing checks are reported as KNOWN-FINDING, not as undischarged obligations
                    status = "known-finding"
                else:
                    vals, pb_out = playback(h)
                    v = {"engine": "kani", "function": short, "file": "kani/src", "src_line": 0,
                         "obligation": "; ".join(fc[:4]) or "verification failed", "verifier_output": pb_out}
                    if vals is not None:
                        rp = replay_native(short, vals)
                        v["concrete_inputs"] = vals
                        v["replay"] = rp
                        if any(x.get("rc") == 0 for x in rp):
                            v["counterexample"] = True
                    out["violations"].append(v)
        else:
            out["undecided"].append("%s: kani status %s" % (short, r["status"]))
            status = "UNDECIDED"
        out["functions"].append({"id": "kani:" + short, "status": status, "engine": "kani/cbmc", "covers": hm.get("covers", []),
                                 "bound": bound, "checks": r["checks"][1], "time_s": r["time"]})
        if len(out["samples"]) < 6:
            out["samples"].append({"engine": "kani", "harness": short, "status": r["status"], "checks": r["checks"][1], "time_s": r["time"], "bound": bound})
    expected = [k for k in meta if any(k.startswith(p) for p in prefixes)]
    missing = [k for k in expected if not any(h.split("::")[-1] == k for h in res)]
    if missing:
        out["undecided"].append("harnesses listed in harnesses.json did not run: %s" % missing[:5])
    out["trusted"] += ["CBMC 6.11 / Kani 0.68 symbolic execution of MIR; Kani models of alloc/core intrinsics"]
    out["profile_probe"] = profile_probe(prop, prefixes, tier, seed, known, out)
    return out

def profile_probe(prop, prefixes, tier, seed, known, out):
    """Kani verifies the harnesses in ONE build profile (debug assertions and overflow checks on).  The same harness bodies are
    therefore also executed natively, in the release AND the debug profile, on generated inputs (bounded sampling, labelled as
    such, never counted as proof): a harness that must not panic panics, or a statement that must panic returns => a
    profile divergence with a concrete input (this is how the release-only masking of `Limb::shl(64)` shows up)."""
    iters = 300 if tier == "quick" else 3000
    rep = {"kind": "bounded sampling (native execution of the harness bodies)", "iterations_per_harness": iters, "profiles": {}}
    for prof, flags in (("release", ["--release"]), ("debug", [])):
        b = subprocess.run(["cargo", "build", "--offline", "--bin", "replay"] + flags, cwd=KDIR, env=ENV, capture_output=True, text=True)
        if b.returncode != 0:
            rep["profiles"][prof] = {"error": "build failed: " + b.stderr[-600:]}
            out["undecided"].append("profile probe: replay driver does not build in the %s profile: %s" % (prof, b.stderr[-600:])); continue
        exe = os.path.join(KDIR, "target", "release" if prof == "release" else "debug", "replay")
        try:
            r = subprocess.run([exe, "--probe", ",".join(prefixes), str(seed), str(iters)], capture_output=True, text=True, timeout=1800)
        except subprocess.TimeoutExpired:
            rep["profiles"][prof] = {"error": "timeout"}; continue
        summ = [l for l in r.stdout.split("\n") if l.startswith("PROBE ")]
        rep["profiles"][prof] = {"summary": summ[-1] if summ else r.stdout[-300:] + r.stderr[-300:]}
        if not summ:
            out["undecided"].append("profile probe (%s) crashed: %s" % (prof, (r.stdout + r.stderr)[-600:])); continue
        for l in r.stdout.split("\n"):
            if not l.startswith("{"): continue
            try: d = json.loads(l)
            except Exception: continue
            short = d["harness"]
            if any(v.get("function") == short for v in out["violations"]): continue   # already reported by Kani
            if any(k[0].get("harness") == short for k in out["known_hits"]): continue
            kf = [k for k in known if k.get("property") == prop and k.get("harness") == short]
            if kf:
                out["known_hits"].append((kf[0], {"msg": "profile probe (%s)" % prof})); continue
            what = ("a statement that must panic returned normally" if d["expects_panic"] else "the harness body panicked") + " in the %s profile (native execution, generated input)" % prof
            out["violations"].append({"engine": "kani", "function": short, "file": "kani/src", "src_line": 0,
                                      "obligation": "profile probe: " + what, "concrete_inputs": d["vals"],
                                      "replay": [{"profile": prof, "cmd": "%s %s '%s'" % (exe, short, json.dumps(d["vals"]))}],
                                      "counterexample": True, "verifier_output": l})
            out["obligations"] += 1
    return rep
