#!/bin/bash
# evaluate every confirmed seeded change under /verif/seeded with the registered quick check of its property
cd /verif
for d in seeded/*/; do
  id=$(basename $d)
  P=$(python3 -c "import json;print(json.load(open('$d/meta.json'))['property'])")
  extra=""
  r=$(python3 tools/seedtest.py $d 2>&1 | tail -1 | cut -c1-260)
  echo "$id | $r"
done
