"""Minimal Rust lexer + item locator used by the extractor.

Only what the extractor needs: tokens with byte offsets, brace matching that is
not fooled by comments / strings / char literals / lifetimes, and lookup of
`fn`, `struct`, `const` items by (impl header, name).
"""
import re

class Tok:
    __slots__ = ("kind", "s", "e", "text", "_closure_done")
    def __init__(self, kind, s, e, text):
        self.kind, self.s, self.e, self.text = kind, s, e, text
    def __repr__(self):
        return "Tok(%s,%r)" % (self.kind, self.text)

_ident = re.compile(r"[A-Za-z_][A-Za-z0-9_]*")
_num = re.compile(r"[0-9][0-9A-Za-z_]*(\.[0-9][0-9A-Za-z_]*)?")
_ws = re.compile(r"\s+")

def lex(src):
    """Return list of Tok; kinds: ws, lcomment, bcomment, str, char, life, ident, num, punct."""
    toks = []
    i, n = 0, len(src)
    while i < n:
        c = src[i]
        m = _ws.match(src, i)
        if m:
            toks.append(Tok("ws", i, m.end(), m.group())); i = m.end(); continue
        if src.startswith("//", i):
            j = src.find("\n", i)
            if j < 0: j = n
            toks.append(Tok("lcomment", i, j, src[i:j])); i = j; continue
        if src.startswith("/*", i):
            depth, j = 1, i + 2
            while j < n and depth:
                if src.startswith("/*", j): depth += 1; j += 2
                elif src.startswith("*/", j): depth -= 1; j += 2
                else: j += 1
            toks.append(Tok("bcomment", i, j, src[i:j])); i = j; continue
        # raw strings / byte strings
        m = re.match(r"b?r(#*)\"", src[i:i+20])
        if m:
            hashes = m.group(1)
            close = '"' + hashes
            j = src.find(close, i + m.end())
            j = n if j < 0 else j + len(close)
            toks.append(Tok("str", i, j, src[i:j])); i = j; continue
        if c == '"' or (c == 'b' and i + 1 < n and src[i+1] == '"'):
            j = i + (2 if c == 'b' else 1)
            while j < n and src[j] != '"':
                j += 2 if src[j] == '\\' else 1
            j += 1
            toks.append(Tok("str", i, j, src[i:j])); i = j; continue
        if c == "'" or (c == 'b' and i + 1 < n and src[i+1] == "'"):
            k = i + (1 if c == 'b' else 0)
            # char literal or lifetime
            m = re.match(r"'(\\x[0-9a-fA-F]{2}|\\u\{[0-9a-fA-F_]+\}|\\.|[^\\'])'", src[k:k+16])
            if m:
                j = k + m.end()
                toks.append(Tok("char", i, j, src[i:j])); i = j; continue
            m = _ident.match(src, k + 1)
            if m:
                toks.append(Tok("life", i, m.end(), src[i:m.end()])); i = m.end(); continue
        m = _ident.match(src, i)
        if m:
            toks.append(Tok("ident", i, m.end(), m.group())); i = m.end(); continue
        m = _num.match(src, i)
        if m:
            toks.append(Tok("num", i, m.end(), m.group())); i = m.end(); continue
        toks.append(Tok("punct", i, i + 1, c)); i += 1
    return toks

def sig(toks):
    """indices of significant tokens (no ws / comments)"""
    return [k for k, t in enumerate(toks) if t.kind not in ("ws", "lcomment", "bcomment")]

OPEN = {"(": ")", "[": "]", "{": "}"}
CLOSE = {")": "(", "]": "[", "}": "{"}

def match_forward(toks, k):
    """toks[k] is an opening bracket punct; return index of its partner."""
    depth = 0
    for j in range(k, len(toks)):
        t = toks[j]
        if t.kind != "punct": continue
        if t.text in OPEN: depth += 1
        elif t.text in CLOSE:
            depth -= 1
            if depth == 0: return j
    raise ValueError("unbalanced at %d" % toks[k].s)

def norm(s):
    """normalise text for comparison: drop all whitespace"""
    return re.sub(r"\s+", "", s)

def norm_line(s):
    return re.sub(r"\s+", " ", s.strip())

class Item:
    def __init__(self, kind, name, s, e, body_open, impl_header, attrs, src):
        self.kind, self.name, self.s, self.e = kind, name, s, e
        self.body_open = body_open      # byte offset of body '{' (fn) or None
        self.impl_header = impl_header  # normalised header text or None
        self.attrs = attrs              # text of attributes/doc preceding the item
        self.src = src
    @property
    def text(self):
        return self.src[self.s:self.e]

QUAL = {"pub", "const", "unsafe", "async", "extern", "default"}

def scan_items(src):
    """Locate fn / struct / const / type / impl items at file level and inside impl/trait
    blocks (one level), skipping `mod tests`.  Returns list of Item."""
    toks = lex(src)
    items = []
    _scan_block(src, toks, 0, len(toks), None, items)
    return items

def _item_start(toks, k, lo):
    """walk back from token index k (the keyword) over qualifiers: pub, pub(crate), const, unsafe ..."""
    j = k
    while True:
        p = j - 1
        while p >= lo and toks[p].kind in ("ws", "lcomment", "bcomment"): p -= 1
        if p < lo: break
        t = toks[p]
        if t.kind == "ident" and t.text in QUAL:
            j = p; continue
        if t.kind == "str" and p - 1 >= lo:  # extern "C"
            j = p; continue
        if t.kind == "punct" and t.text == ")":
            # pub(crate) / pub(super) / pub(in path)
            q = p
            depth = 0
            while q >= lo:
                if toks[q].kind == "punct" and toks[q].text == ")": depth += 1
                if toks[q].kind == "punct" and toks[q].text == "(":
                    depth -= 1
                    if depth == 0: break
                q -= 1
            r = q - 1
            while r >= lo and toks[r].kind in ("ws",): r -= 1
            if r >= lo and toks[r].kind == "ident" and toks[r].text == "pub":
                j = r; continue
        break
    return j

def _attrs_before(toks, k, lo):
    """collect text of attributes and doc comments immediately preceding token k"""
    out = []
    p = k - 1
    while p >= lo:
        t = toks[p]
        if t.kind == "ws": p -= 1; continue
        if t.kind in ("lcomment", "bcomment"):
            out.append(t.text); p -= 1; continue
        if t.kind == "punct" and t.text == "]":
            depth = 0; q = p
            while q >= lo:
                if toks[q].kind == "punct" and toks[q].text == "]": depth += 1
                if toks[q].kind == "punct" and toks[q].text == "[":
                    depth -= 1
                    if depth == 0: break
                q -= 1
            r = q - 1
            if r >= lo and toks[r].kind == "punct" and toks[r].text == "!": r -= 1
            if r >= lo and toks[r].kind == "punct" and toks[r].text == "#":
                out.append("".join(x.text for x in toks[r:p+1])); p = r - 1; continue
        break
    return list(reversed(out))

def _scan_block(src, toks, lo, hi, impl_header, items):
    k = lo
    while k < hi:
        t = toks[k]
        if t.kind == "punct" and t.text in OPEN:
            k = match_forward(toks, k) + 1; continue
        if t.kind != "ident":
            k += 1; continue
        if t.text == "mod":
            # skip `mod name { ... }` entirely for tests; recurse otherwise
            j = k + 1
            while toks[j].kind == "ws": j += 1
            name = toks[j].text
            j += 1
            while toks[j].kind in ("ws",): j += 1
            if toks[j].kind == "punct" and toks[j].text == "{":
                end = match_forward(toks, j)
                if name != "tests" and name != "test":
                    _scan_block(src, toks, j + 1, end, impl_header, items)
                k = end + 1; continue
            k = j + 1; continue
        if t.text in ("impl", "trait") and impl_header is None:
            # header = text up to the '{' at depth 0 (angle brackets are not tracked; `{` cannot occur in headers here)
            j = k + 1
            while not (toks[j].kind == "punct" and toks[j].text == "{"):
                if toks[j].kind == "punct" and toks[j].text == ";": break
                if toks[j].kind == "punct" and toks[j].text in ("(", "["):
                    j = match_forward(toks, j)
                j += 1
            if toks[j].text == ";":
                k = j + 1; continue
            end = match_forward(toks, j)
            start = _item_start(toks, k, lo)
            header = norm_header(src[toks[k].s:toks[j].s])
            attrs = _attrs_before(toks, start, lo)
            items.append(Item(t.text, header, toks[start].s, toks[end].e, toks[j].s, None, attrs, src))
            _scan_block(src, toks, j + 1, end, header, items)
            k = end + 1; continue
        if t.text == "fn":
            j = k + 1
            while toks[j].kind == "ws": j += 1
            name = toks[j].text
            # find body '{' or ';'
            j += 1
            while True:
                tt = toks[j]
                if tt.kind == "punct" and tt.text in ("(", "["):
                    j = match_forward(toks, j) + 1; continue
                if tt.kind == "punct" and tt.text in ("{", ";"): break
                j += 1
            start = _item_start(toks, k, lo)
            attrs = _attrs_before(toks, start, lo)
            if toks[j].text == ";":
                items.append(Item("fndecl", name, toks[start].s, toks[j].e, None, impl_header, attrs, src))
                k = j + 1; continue
            end = match_forward(toks, j)
            items.append(Item("fn", name, toks[start].s, toks[end].e, toks[j].s, impl_header, attrs, src))
            k = end + 1; continue
        if t.text in ("struct", "enum", "union"):
            j = k + 1
            while toks[j].kind == "ws": j += 1
            name = toks[j].text
            j += 1
            while True:
                tt = toks[j]
                if tt.kind == "punct" and tt.text == ";": end = j; break
                if tt.kind == "punct" and tt.text == "{":
                    end = match_forward(toks, j); break
                if tt.kind == "punct" and tt.text in ("(", "["):
                    j = match_forward(toks, j)
                j += 1
            # tuple struct: "struct X(...);" -> run to ';'
            if toks[end].text == "}" :
                pass
            start = _item_start(toks, k, lo)
            attrs = _attrs_before(toks, start, lo)
            items.append(Item(t.text, name, toks[start].s, toks[end].e, None, impl_header, attrs, src))
            k = end + 1; continue
        if t.text in ("const", "static", "type"):
            # const NAME: T = expr;   (but not `const fn`, `const unsafe fn`, or `const` generic params)
            j = k + 1
            while toks[j].kind == "ws": j += 1
            if toks[j].kind == "ident" and toks[j].text in ("fn", "unsafe", "extern", "async"):
                k += 1; continue
            if toks[j].kind != "ident":
                k += 1; continue
            name = toks[j].text
            j += 1
            while True:
                tt = toks[j]
                if tt.kind == "punct" and tt.text == ";": break
                if tt.kind == "punct" and tt.text in OPEN:
                    j = match_forward(toks, j)
                j += 1
            start = _item_start(toks, k, lo)
            attrs = _attrs_before(toks, start, lo)
            items.append(Item(t.text, name, toks[start].s, toks[j].e, None, impl_header, attrs, src))
            k = j + 1; continue
        if t.text == "macro_rules":
            j = k + 1
            while not (toks[j].kind == "punct" and toks[j].text in OPEN): j += 1
            # name is the ident before the bracket
            p = j - 1
            while toks[p].kind == "ws": p -= 1
            name = toks[p].text
            end = match_forward(toks, j)
            items.append(Item("macro", name, toks[k].s, toks[end].e, toks[j].s, impl_header, [], src))
            k = end + 1; continue
        k += 1

def norm_header(h):
    h = re.sub(r"\s+", " ", h.strip())
    h = re.sub(r"\s*([<>,:&+=\[\];()])\s*", r"\1", h)
    return h
