#!/usr/bin/env python3
"""Regenerates /verif/MANIFEST.json from the table below + what exists on disk (units tagged with the property,
kani/meta/cNN.json).  A property is claimed only if it has at least one Verus unit or one Kani harness."""
import json, os, re, glob, subprocess
ROOT = os.path.dirname(os.path.dirname(os.path.abspath(__file__)))

TEXT = {
 "C02": ("proof", "Verus proves, for every limb count and every operand value, the postcondition q*d + r == n && r < d (resp. r == n mod d) on the bodies of the single-limb chain (div2by1, div3by2, Reciprocal::new, div_rem_limb*), of Knuth division (div_rem, div_rem_vartime) and their thin wrappers, re-extracted from /repo on every run. Kani adds bounded-width checks of trait/operator/boxed forms.",
         "assumed: `reciprocal` (Moeller-Granlund algorithm 3, cited), core integer intrinsics' specifications, 64-bit limbs; boxed division only bounded; whatever is still a `stub` region is listed per run under functions_assumed"),
 "C03": ("proof", "Verus proves lo + hi*B^n == a*b for schoolbook multiplication and squaring (all slice lengths) and for split_mul / square_wide / wrapping / saturating / checked forms for every LIMBS; the Karatsuba entry points are assumed contracts unless the macro-arm units are present. Kani checks Limb and operator forms at small widths.",
         "assumed: Karatsuba arms (macro-generated) unless proved in l3_karatsuba; boxed multiplication bounded; 64-bit limbs"),
 "C04": ("proof", "Verus proves the exact value and carry/borrow equations (over the integer value of the limb sequence) for the word primitives for every word value incl. carry-in > 1, and for Limb/Uint adc, sbb, wrapping/saturating add/sub, carrying_neg, wrapping_neg(_if) for every LIMBS by inductive loop invariants. Kani covers trait/operator/Wrapping/Checked/boxed forms at 1-2 limbs with all values symbolic (bounded in width).",
         "assumed: vstd/assumed specs of u64::overflowing_add, wrapping_neg; trait/operator/boxed forms bounded to <= 3 limbs"),
 "C05": ("proof", "Verus proves value-level postconditions (x*2^s mod W, floor(x/2^s), bit length, zero counts) for the shift and bit-query functions of Limb and Uint for every LIMBS and every shift amount, with identical postconditions for constant-time and vartime variants. Kani covers operators, traits, Int::shr and boxed forms at small widths for every u32 shift amount.",
         "assumed: vstd axioms for leading/trailing_zeros; operator/boxed/Int forms bounded in width"),
 "C06": ("proof", "Verus proves every ConstChoice predicate/select (bit-vector proofs, all word values), Limb/Uint eq/lt/gt/lte/cmp/cmp_vartime/is_nonzero/is_odd/select against the integer order of the values for every LIMBS. Kani covers subtle/Ord/Hash impls, swaps and boxed comparison at small widths.",
         "assumed: derive(Hash) determinism; subtle's Choice; trait/boxed forms bounded in width"),
 "C07": ("proof", "Verus proves ret == (a op b) mod p && ret < p on the bodies of add_mod, sub_mod(_with_carry), double_mod, neg_mod, the special-modulus forms, mul_mod_special, mul_mod_vartime and div_by_2 for every LIMBS and all operands inside the documented preconditions.",
         "relative to the contracts of split_mul (C03) and rem_wide_vartime (C02); trait and boxed forms bounded"),
 "C08": ("proof", "Verus proves the Montgomery reduction equation on the body of montgomery_reduction(_inner) and the canonical-range + congruence postcondition of mul/square/add/sub/double in Montgomery form for every LIMBS; an invariant per operation gives the property for histories of any length by induction.",
         "relative to C03/C07 contracts; MontyParams constructors and Monty wrappers/boxed forms are bounded (Kani) or not covered; see evidence"),
 "C09": ("proof", "Verus proves the windowed exponentiation ladder (multi_exponentiate_montgomery_form_internal, compute_powers, pow_montgomery_form) against the product-of-powers postcondition for any number of bases and any bit bound k, relative to the Montgomery multiplication contract.",
         "lincomb and the boxed ladder are not covered; trait glue bounded"),
 "C10": ("proof", "Verus proves inversion modulo 2^k and the wrappers relative to a stated contract of the Bernstein-Yang core.",
         "safegcd core assumed (cited convergence theorem)"),
 "C11": ("proof", "For every function under contract in the Verus units, the generated safety obligations (arithmetic overflow, index bounds, shift amounts, division by zero, debug_assert!/assert!/panic!/expect reachability, loop termination) are discharged under the documented domain as precondition, so the optimized and the debug/overflow-checked builds agree there. Kani checks option/result-returning APIs on arbitrary arguments at small widths.",
         "covers exactly the functions listed in the evidence; everything else unverified"),
 "C12": ("model_checking", "Kani symbolically executes every enumerated producer of NonZero/Odd at Limb/U64/U128/BoxedUint(1-2 limbs) for all argument values: the result is valid and decoded in the stated byte order, or the documented failure occurs. Verus proves to_nz/to_odd/new_unwrap generically.",
         "bounded in width; RNG producers bounded in stream length; unsafe reinterpretation checked at small widths only"),
 "C13": ("proof", "Verus proves the two's-complement view identities for Int add/sub/neg/abs_sign/new_from_abs_sign/compare/resize/mul forms for every LIMBS; Kani cross-checks operators at I64/I128.",
         "relative to Uint contracts (C03, C04)"),
 "C14": ("proof", "Verus proves n == q*d + r with the truncating / flooring / unsigned sign conventions and the exact none-rule for every signed division flavour, for every LIMBS, modularly over the Uint::div_rem contract.",
         "relative to C02's division contract"),
 "C15": ("proof", "Route pairs whose two functions carry the same determining postcondition in the Verus units are bit-identical by injectivity of the limb-sequence value; forwarding pairs (traits, operators, wrappers, boxed vs fixed) are checked by Kani equivalence harnesses at small widths.",
         "pairs not covered are listed in the evidence; boxed vs fixed only at 1-2 limbs"),
 "C16": ("model_checking", "Kani symbolically executes the byte/hex/word/primitive conversions at Uint<1..2> (and BoxedUint at listed precisions) for all byte values: positional formula, mutual inverses, strict rejection.",
         "bounded in width and input length; serde not covered unless listed"),
 "C17": ("model_checking", "Kani checks radix parsing/formatting under stated small bounds.", "bounded; multi-limb batching unverified"),
 "C18": ("model_checking", "Kani symbolically executes the real der / rlp crates together with the Uint codec impls: for U64 and U128 and every byte string up to the stated length, decoding never panics, accepts only canonical encodings that fit and returns their positional value; encode/decode round-trip.",
         "bounded: U64/U128 only, input length <= BYTES+3; header machinery with concrete or few symbolic header bytes"),
 "C19": ("model_checking", "Kani runs the sampling code with a symbolic RNG stream: range, the functional characterisation 'first accepted candidate' (pure rejection sampling) and stream consumption, and fixed/boxed agreement; uniformity then follows by a paper argument that is not machine-checked.",
         "bounded: widths 1-2, K = 4 candidate draws; distributional statement not checked"),
 "C20": ("proof", "Verus proves sqrt_vartime (and the checked/wrapping wrappers) return the unique s with s^2 <= x < (s+1)^2 for every LIMBS, relative to the division contract; the constant-time variant relative to its iteration bound.",
         "relative to C02; see evidence for the status of the constant-time iteration bound"),
}
NA = {
 "C01": "a 2-safety property of the leakage trace (branches, addresses, division operands) of the optimized build; functional contracts on source/MIR cannot express or decide it (DESIGN.md C01)",
}

def has_units(prop):
    for p in glob.glob(os.path.join(ROOT, "units", "*.rs")):
        if re.search(r"^//@@ fn [^\n]*\bprops\b[^\n|]*\b%s\b" % prop, open(p).read(), re.M): return True
    return prop == "C11" and bool(glob.glob(os.path.join(ROOT, "units", "l*.rs")))

def has_kani(prop):
    try:
        return bool(json.load(open(os.path.join(ROOT, "kani", "meta", "c%s.json" % prop[1:]))))
    except Exception:
        return False

def main():
    props = [json.loads(l)["id"] for l in open(os.path.join(ROOT, "properties.jsonl"))]
    checks, na = [], []
    for pid in props:
        if pid in NA:
            na.append({"property_id": pid, "reason": NA[pid]}); continue
        u, k = has_units(pid), has_kani(pid)
        if not (u or k):
            na.append({"property_id": pid, "reason": "no check is registered yet: no function of this property is under contract in /verif/units and no Kani harness exists (see DESIGN.md for the plan); nothing is claimed"}); continue
        cat, text, note = TEXT[pid]
        if cat == "proof" and not u: cat = "model_checking"
        eng = "+".join(([ "verus-extract"] if u else []) + (["kani-harness"] if k else []))
        checks.append({
            "property_id": pid,
            "quick_cmd": "./check %s --tier quick" % pid,
            "thorough_cmd": "./check %s --tier thorough" % pid,
            "evidence_file": "/verif/evidence/%s.json" % pid,
            "replay_cmd_template": "./check %s --replay {path}" % pid,
            "engine": eng,
            "level_claimed": {"category": cat, "text": text, "design_ref": "DESIGN.md section 3, " + pid},
            "level_note": note,
            "technique": ("contract-based deductive verification: Verus on functions re-extracted from /repo with spliced contracts/invariants" if u else "") +
                         ("; " if u and k else "") + ("Kani/CBMC harnesses on the real crate (bounded in width/length, counterexamples replayed natively)" if k else ""),
        })
    hooks_commits = []
    m = {
        "version": 1,
        "setup_cmd": "./setup.sh",
        "hooks": {"guard": "none (cfg(kani) is set by cargo-kani itself; no hook code was added to /repo)",
                  "enable": "Engine A reads /repo/src as text; Engine B builds /repo as a path dependency with `cargo kani` - no source changes needed",
                  "baseline_off_cmd": "cd /repo && cargo test --workspace --no-fail-fast --offline",
                  "source_commits": hooks_commits, "add_only": True},
        "engines": [
            {"name": "verus-extract", "path": "/verif/tools/gen.py + /verif/units", "serves_properties": [c["property_id"] for c in checks if "verus" in c["engine"]],
             "kind_free_text": "extractor/splicer + Verus (Z3): contracts, loop invariants, ghost code on the real function text"},
            {"name": "kani-harness", "path": "/verif/kani", "serves_properties": [c["property_id"] for c in checks if "kani" in c["engine"]],
             "kind_free_text": "Kani 0.68 / CBMC harnesses on the real crate; replay driver for counterexamples"},
        ],
        "checks": checks,
        "notes": "exit 0 all obligations discharged; exit 1 VIOLATION; exit 2 undecided (tool limit / anchor lost), never an alarm. Repaired defects are listed in known_findings.json (fixed entries suppress nothing).",
        "not_applicable": na,
    }
    json.dump(m, open(os.path.join(ROOT, "MANIFEST.json"), "w"), indent=1)
    print("claimed:", [c["property_id"] for c in checks]); print("not_applicable:", [n["property_id"] for n in na])

if __name__ == "__main__":
    main()
