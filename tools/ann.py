#!/usr/bin/env python3
"""ann.py <unit> <fn-name>[#k] <where> <text>   insert an annotation block into a mirror region.
where: head (after the body '{'), tail (before the last expression line), contract (replace contract),
       before:<substring> / after:<substring> (relative to first context line containing substring)"""
import sys, re
unit, fn, where, text = sys.argv[1:5]
p = "/verif/units/%s.rs" % unit
L = open(p).read().split("\n")
k = 0
if "#" in fn: fn, k = fn.split("#"); k = int(k)
starts = [i for i, l in enumerate(L) if re.match(r"//@@ (?:fn|const) .*\|\s*%s\s*(\||$)" % re.escape(fn), l.strip())]
i = starts[k]
j = next(x for x in range(i, len(L)) if L[x].strip() == "//@@ end")
blk = ["//@+"] + ["    " + t for t in text.split("\n")] + ["//@-"]
def ctx_lines():
    inb = False
    for x in range(i + 1, j):
        s = L[x].strip()
        if s == "//@+": inb = True; continue
        if s == "//@-": inb = False; continue
        if not inb: yield x
if where == "head":
    b = next(x for x in ctx_lines() if L[x].strip() == "{")
    L[b+1:b+1] = blk
elif where == "tail":
    cl = [x for x in ctx_lines()]
    # last context line before the closing braces
    closing = [x for x in cl if L[x].strip() == "}"]
    nclose = 2 if re.search(r"\|\s*impl", L[i]) else 1
    last = closing[-nclose]
    prev = [x for x in cl if x < last][-1]
    L[prev:prev] = blk
elif where == "contract":
    b = next(x for x in ctx_lines() if L[x].strip() == "{")
    # remove existing annotation block(s) between signature and '{'
    a = next(x for x in range(i + 1, b) if L[x].strip() == "//@+") if any(L[x].strip() == "//@+" for x in range(i + 1, b)) else None
    if a is not None:
        del L[a:b]
        b = a
    L[b:b] = blk
elif where.startswith("before:") or where.startswith("after:"):
    kind, sub = where.split(":", 1)
    x = next(x for x in ctx_lines() if sub in L[x])
    if kind == "before": L[x:x] = blk
    else: L[x+1:x+1] = blk
open(p, "w").write("\n".join(L))
