#!/usr/bin/env python3
"""seedimport.py : copy confirmed seeded changes from /tmp/seedwork_<P>/change_<k> into /verif/seeded/<P>_<k>/ (patch.diff, demo/, meta.json)"""
import os, json, shutil, glob, sys
for d in sorted(glob.glob("/tmp/seedwork_C*/change_*")):
    cj = os.path.join(d, "confirm.json")
    if not os.path.exists(cj): continue
    c = json.load(open(cj))
    if not c.get("confirmed"): 
        print("skip (not confirmed)", d); continue
    meta = json.load(open(os.path.join(d, "meta.json")))
    P = meta.get("property") or os.path.basename(os.path.dirname(d)).split("_")[-1]
    k = os.path.basename(d).split("_")[-1]
    dst = "/verif/seeded/%s_%s" % (P, k)
    os.makedirs(dst, exist_ok=True)
    shutil.copy(os.path.join(d, "patch.diff"), dst)
    if os.path.isdir(os.path.join(dst, "demo")): shutil.rmtree(os.path.join(dst, "demo"))
    shutil.copytree(os.path.join(d, "demo"), os.path.join(dst, "demo"), ignore=shutil.ignore_patterns("target", "Cargo.lock"))
    # demos were written against the sub-agent's own worktree /tmp/seed_<P>; make them point at the neutral
    # scratch path used by tools/seeddemo.sh
    import re
    for root, _, files in os.walk(os.path.join(dst, "demo")):
        for f in files:
            fp = os.path.join(root, f)
            try: t = open(fp).read()
            except Exception: continue
            t2 = re.sub(r"/tmp/seed_C\d+", "/tmp/seeded_wt", t)
            t2 = re.sub(r"/tmp/seedwork_C\d+/change_\d+", dst, t2)
            if t2 != t: open(fp, "w").write(t2)
    rt = os.path.join(d, "RUN.txt")
    if os.path.exists(rt) and not os.path.exists(os.path.join(dst, "demo", "RUN.txt")):
        t = open(rt).read()
        open(os.path.join(dst, "demo", "RUN.txt"), "w").write(re.sub(r"/tmp/seedwork_C\d+/change_\d+", dst, re.sub(r"/tmp/seed_C\d+", "/tmp/seeded_wt", t)))
    cr = {}
    if os.path.exists(os.path.join(d, "check_result.json")): cr = json.load(open(os.path.join(d, "check_result.json")))
    out = {
        "property": P,
        "summary": meta.get("summary"),
        "needs": meta.get("needs"),
        "failing_input": meta.get("failing_input"),
        "origin": "written by an independent sub-agent that saw only the property text and a scratch worktree of the repository",
        "confirmed_by_me": {"what_i_ran": "tools/seedconfirm.py: git apply on a clean scratch worktree; cargo build (default, all features); cargo test --offline (existing suite passes with the change); demo fails with the change and passes without it",
                             **{k2: v for k2, v in c.items() if isinstance(v, bool)}, "demo_cmd": c.get("demo_cmd"), "test_summary": c.get("test_summary")},
        "check_result": cr,
    }
    json.dump(out, open(os.path.join(dst, "meta.json"), "w"), indent=1)
    print("imported", dst, {p: r.get("exit") for p, r in cr.items()})
