#!/bin/bash
# seeddemo.sh <seeded/<id>> : show that a seeded change is real: build a scratch worktree of /repo at /tmp/seeded_wt,
# run the demo WITHOUT the change (must exit 0), apply patch.diff, run the demo WITH the change (must exit non-zero),
# remove the worktree and all build output.  Never touches /repo's working tree.
set -u
d=$(cd "$1" && pwd)
W=/tmp/seeded_wt
git -C /repo worktree remove --force $W 2>/dev/null; rm -rf $W
git -C /repo worktree add -q --detach $W HEAD || exit 2
export CARGO_TARGET_DIR=/tmp/seeded_target CARGO_NET_OFFLINE=true
run_demo() {
  if ls "$d"/demo/*.rs >/dev/null 2>&1 && grep -q -- "--test" "$d/demo/RUN.txt" 2>/dev/null; then
    t=$(grep -o -- "--test [a-z_0-9]*" "$d/demo/RUN.txt" | head -1 | cut -d' ' -f2)
    cp "$d"/demo/*.rs $W/tests/ && (cd $W && cargo test --offline --all-features --test "$t" >/tmp/seeded_demo.out 2>&1)
  else
    (cd "$d/demo" && cargo run --offline --release >/tmp/seeded_demo.out 2>&1)
  fi
}
run_demo; a=$?
git -C $W apply "$d/patch.diff" || { echo "patch does not apply"; exit 2; }
run_demo; b=$?
echo "demo without change: exit $a   with change: exit $b"
git -C /repo worktree remove --force $W; rm -rf /tmp/seeded_target "$d/demo/target" "$d/demo/Cargo.lock" /tmp/seeded_demo.out
[ $a -eq 0 ] && [ $b -ne 0 ]
