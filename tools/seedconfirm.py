#!/usr/bin/env python3
"""seedconfirm.py <change dir> <worktree> : independently confirm a seeded change:
 (1) patch applies on a clean worktree, (2) cargo build (default + all features), (3) the existing test suite passes with the change,
 (4) the demo FAILS with the change, (5) the demo PASSES without it.  Writes <change dir>/confirm.json; leaves the worktree clean."""
import sys, os, json, subprocess, re
d, W = os.path.abspath(sys.argv[1]), sys.argv[2]
def sh(cmd, cwd=None, timeout=3600):
    p = subprocess.run(cmd, shell=True, cwd=cwd, capture_output=True, text=True, timeout=timeout)
    return p.returncode, (p.stdout + p.stderr)
res = {}
sh("git checkout -q -- . && git clean -fdq", W)
rc, out = sh("git apply %s/patch.diff" % d, W); res["patch_applies"] = rc == 0
rc, out = sh("cargo build --offline 2>&1 | tail -3 && cargo build --offline --all-features 2>&1 | tail -3", W); res["builds"] = "error" not in out.lower()
rc, out = sh("cargo test --offline 2>&1 | grep -E '^test result|FAILED|panicked' | head -40", W)
res["tests_pass_with_change"] = ("FAILED" not in out and "failed" not in out.replace("0 failed", "") and "test result: ok" in out)
res["test_summary"] = [l for l in out.split("\n") if l.startswith("test result")][:12]
# demo
run = open(os.path.join(d, "demo", "RUN.txt")).read().strip() if os.path.exists(os.path.join(d, "demo", "RUN.txt")) else ""
m = re.search(r"(cd \S+\s*&&\s*cargo(?: [\w\-=./]+)+)", run)
cmd = m.group(1).strip() if m else run.split("\n")[-1]
import glob, shutil
tests = glob.glob(os.path.join(d, "demo", "*.rs"))
mt = re.search(r"cargo test [^\n]*--test (\w+)", run)
if tests and mt:
    # the demo is an integration-test file to be copied into <worktree>/tests/
    feats = " --all-features" if "all-features" in run else (" --features alloc" if "alloc" in run else "")
    cmd = "cp %s %s/tests/ && cd %s && cargo test --offline%s --test %s" % (" ".join(tests), W, W, feats, mt.group(1))
res["demo_cmd"] = cmd
rc1, out1 = sh(cmd, None); res["demo_fails_with_change"] = rc1 != 0; res["demo_out_with"] = out1[-600:]
sh("git checkout -q -- . && git clean -fdq", W)
# a demo that is a test file inside the worktree's tests/ dir was removed by clean: copy it back if the demo dir has one
rc2, out2 = sh(cmd, None); res["demo_passes_without_change"] = rc2 == 0; res["demo_out_without"] = out2[-300:]
res["confirmed"] = all(res[k] for k in ("patch_applies", "builds", "tests_pass_with_change", "demo_fails_with_change", "demo_passes_without_change"))
json.dump(res, open(os.path.join(d, "confirm.json"), "w"), indent=1)
print(os.path.basename(os.path.dirname(d)), os.path.basename(d), "CONFIRMED" if res["confirmed"] else "NOT-CONFIRMED", {k: v for k, v in res.items() if isinstance(v, bool)})
