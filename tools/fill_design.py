#!/usr/bin/env python3
"""fill_design.py : (re)fills the generated blocks of DESIGN.md §9 (<!--STATS-->, <!--PROPTABLE-->, <!--SEEDTABLE-->) from
tools/stats.py, evidence/*.json, MANIFEST.json and seeded/*/check_result.json.  Idempotent."""
import os, re, json, glob, subprocess
R = os.path.dirname(os.path.dirname(os.path.abspath(__file__)))
def run(cmd): return subprocess.run(cmd, shell=True, capture_output=True, text=True, cwd=R).stdout
st = run("python3 tools/stats.py").split("\n")
stats = "Counted by `tools/stats.py` on the committed tree: **%s**; %s; %s; %s." % (st[0], st[1], [l for l in st if l.startswith("kani harnesses")][0], [l for l in st if l.startswith("seeds")][0])
man = json.load(open(os.path.join(R, "MANIFEST.json")))
rows = ["| id | level | engines | Verus functions in the call cone: proved / assumed | Kani harnesses (all bounded) | obligations discharged (quick) | wall s |", "|---|---|---|---|---|---|---|"]
for c in man["checks"]:
    pid = c["property_id"]
    ep = os.path.join(R, "evidence", pid + ".json")
    if not os.path.exists(ep): rows.append("| %s | %s | %s | (no evidence yet) | | | |" % (pid, c["level_claimed"]["category"], c["engine"])); continue
    e = json.load(open(ep)); cov = e["coverage"]; fs = cov.get("functions", [])
    vp = sum(1 for f in fs if f.get("engine") == "verus" and f.get("status") == "proved")
    va = sum(1 for f in fs if f.get("engine") == "verus" and f.get("status") == "assumed")
    kh = sum(1 for f in fs if str(f.get("id", "")).startswith("kani:"))
    rows.append("| %s | %s | %s | %d / %d | %d | %d / %d | %.0f |" % (pid, e["level"], c["engine"].replace("verus-extract", "Verus").replace("kani-harness", "Kani"), vp, va, kh, cov["discharged"], cov["obligations"], e["wall_s"]))
for n in man["not_applicable"]:
    rows.append("| %s | not applicable | — | %s | | | |" % (n["property_id"], n["reason"][:160]))
prop = "\n".join(rows) + "\n\n(what exactly is proved / bounded / assumed per property: `level_claimed.text` and `level_note` in MANIFEST.json; the function lists with status, contract text and source hash: `coverage.functions` in each evidence file.)"
seed = run("python3 tools/seedtable.py")
p = os.path.join(R, "DESIGN.md"); s = open(p).read()
for tag, body in (("STATS", stats), ("PROPTABLE", prop), ("SEEDTABLE", "Seeded changes (result of the registered quick check on a scratch worktree with the patch applied):\n\n" + seed)):
    a, b = "<!--%s-->" % tag, "<!--/%s-->" % tag
    if b in s:
        s = re.sub(re.escape(a) + r".*?" + re.escape(b), lambda m: a + "\n" + body + "\n" + b, s, flags=re.S)
    else:
        s = s.replace(a, a + "\n" + body + "\n" + b)
open(p, "w").write(s)
print("filled")
