#!/usr/bin/env python3
"""seedtest.py <seed dir> [--props C02,C11] : applies <seed dir>/patch.diff to the scratch worktree /tmp/mut1 (a worktree of /repo)
and runs the registered quick checks there (VERIF_REPO=/tmp/mut1); never touches /repo. Prints one line per property."""
import sys, os, json, subprocess
d = sys.argv[1]
meta = json.load(open(os.path.join(d, "meta.json")))
props = [meta.get("property")]
if "--props" in sys.argv: props = sys.argv[sys.argv.index("--props") + 1].split(",")
W = "/tmp/mut1"
if "--wt" in sys.argv: W = sys.argv[sys.argv.index("--wt") + 1]
def sh(cmd, **kw): return subprocess.run(cmd, shell=True, capture_output=True, text=True, **kw)
if not os.path.isdir(W): sh("git -C /repo worktree add -q %s HEAD" % W)
sh("git -C %s checkout -q -- . && git -C %s clean -fdq && git -C %s checkout -q --detach $(git -C /repo rev-parse HEAD)" % (W, W, W))
r = sh("git -C %s apply %s" % (W, os.path.abspath(os.path.join(d, "patch.diff"))))
if r.returncode != 0:
    print("PATCH-FAILED", r.stderr[:300]); sys.exit(2)
out = {}
for p in props:
    r = sh("./check %s" % p, cwd=os.path.dirname(os.path.dirname(os.path.abspath(__file__))), env=dict(os.environ, VERIF_REPO=W))
    lines = [l for l in r.stdout.split("\n") if l.startswith(("VIOLATION", "FAILED-OB", "UNDECIDED", "OK", "KNOWN"))]
    out[p] = {"exit": r.returncode, "lines": lines[:6]}
    print(p, "exit=%d" % r.returncode, "|", " || ".join(l[:160] for l in lines[:3]))
sh("git -C %s checkout -q -- . && git -C %s clean -fdq" % (W, W))
json.dump(out, open(os.path.join(d, "check_result.json"), "w"), indent=1)
