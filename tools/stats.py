#!/usr/bin/env python3
"""stats.py : counts used in DESIGN.md §9.2 (units, regions by mode, lemmas, assume_specifications, harnesses, seeds)."""
import os, re, glob, json, fnmatch
R = os.path.dirname(os.path.dirname(os.path.abspath(__file__)))
wip = [l.strip() for l in open(os.path.join(R, "units/.wip")) if l.strip()] if os.path.exists(os.path.join(R, "units/.wip")) else []
units = sorted(glob.glob(os.path.join(R, "units", "*.rs")))
tot = {"body": 0, "stub": 0, "const": 0, "item": 0}
lem = asp = axioms = 0
per = []
for u in units:
    b = os.path.basename(u)[:-3]
    if any(fnmatch.fnmatch(b, w) for w in wip): continue
    t = open(u).read()
    body = len(re.findall(r"^\s*//@@ (?:fn|macrofn|macroblock) .*\|\s*body\s*(?:\||$)", t, re.M))
    stub = len(re.findall(r"^\s*//@@ (?:fn|macrofn|macroblock) .*\|\s*stub\s*(?:\||$)", t, re.M))
    const = len(re.findall(r"^\s*//@@ (?:const|rawconst) ", t, re.M))
    item = len(re.findall(r"^\s*//@@ item ", t, re.M))
    l = len(re.findall(r"^\s*(?:pub\s+)?(?:broadcast\s+)?proof fn ", t, re.M))
    a = len(re.findall(r"assume_specification", t))
    ax = len(re.findall(r"external_body\]\s*\n\s*(?:pub\s+)?proof fn", t))
    tot["body"] += body; tot["stub"] += stub; tot["const"] += const; tot["item"] += item; lem += l; asp += a; axioms += ax
    per.append((b, body, stub, const, l))
print("units (not wip): %d" % len(per))
print("regions: body=%d stub=%d const=%d item=%d   lemmas=%d  assume_specification=%d  external_body proof fns (axioms)=%d" % (tot["body"], tot["stub"], tot["const"], tot["item"], lem, asp, axioms))
for p in per: print("  %-22s body=%3d stub=%2d const=%2d lemmas=%3d" % p)
hs = 0
for f in glob.glob(os.path.join(R, "kani/src/c*.rs")):
    hs += len(re.findall(r"^\s*(?:#\[[^\]]*\]\s*)*fn c\d+t?_\w+\(s\)", open(f).read(), re.M))
print("kani harnesses: %d" % hs)
print("seeds: %d" % len(glob.glob(os.path.join(R, "seeded", "C*_*"))))
