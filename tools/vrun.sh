#!/bin/bash
# dev helper: regenerate units into a scratch crate and run verus;  usage: vrun.sh "<units...>" [verus args]
set -e
OUT=${VOUT:-/verif/.work/dev}
python3 /verif/tools/gen.py --out $OUT $1
shift
cd $OUT && verus root.rs --triggers-mode silent "$@" 2>&1 | grep -v "^warning: \(unused\|function\|1 warn\|[0-9]* warn\)" 
