#!/bin/bash
# fi_ingest.sh <P> <k> : take the deliverables of a fault-injection sub-agent (/tmp/fi/<P>/out: patch.diff, demo/, notes.json),
# lay them out as /tmp/seedwork_<P>/change_<k>, confirm them independently on a scratch worktree /tmp/seed_<P>
# (tools/seedconfirm.py), and leave the worktree clean. Import into /verif/seeded with tools/seedimport.py afterwards.
set -u
P=$1; k=$2
S=/tmp/fi/$P/out; D=/tmp/seedwork_$P/change_$k; W=/tmp/seed_$P
[ -f $S/patch.diff ] || { echo "$P: no patch.diff"; exit 2; }
rm -rf $D; mkdir -p $D
cp $S/patch.diff $D/; cp -r $S/demo $D/demo; rm -rf $D/demo/target
python3 - $S/notes.json $D/meta.json $P <<'E'
import json, sys
try: n = json.load(open(sys.argv[1]))
except Exception as e: n = {"summary": "notes.json unreadable: %s" % e}
n["property"] = sys.argv[3]
json.dump(n, open(sys.argv[2], "w"), indent=1)
E
# the demo must resolve the library at the scratch worktree used for the confirmation
grep -rl '/tmp/seeded_wt\|/tmp/fi/'$P'/wt' $D/demo --include=Cargo.toml --include=*.rs --include=*.txt 2>/dev/null | while read f; do
  sed -i "s#/tmp/seeded_wt#$W#g; s#/tmp/fi/$P/wt#$W#g" "$f"; done
echo "cd $D/demo && cargo run --offline --release" > $D/demo/RUN.txt
cp $D/demo/RUN.txt $D/RUN.txt
git -C /repo worktree remove --force $W 2>/dev/null; rm -rf $W
git -C /repo worktree add -q --detach $W HEAD || exit 2
[ -f $D/demo/Cargo.lock ] || cp /repo/Cargo.lock $D/demo/Cargo.lock 2>/dev/null
python3 /verif/tools/seedconfirm.py $D $W
rm -rf $D/demo/target $W/target
