"""Witness search after a failed Verus obligation: runs /verif/replay's `sweep <PROP>` (differential testing against num-bigint
on the real crate).  Never decides a property: it is only invoked once an obligation has already failed."""
import os, subprocess, json, shutil, re
ROOT = os.path.dirname(os.path.dirname(os.path.abspath(__file__)))
ENV = dict(os.environ, CARGO_NET_OFFLINE="true")

def crate_dir():
    src = os.path.join(ROOT, "replay")
    alt = os.environ.get("VERIF_REPO")
    if not alt or os.path.realpath(alt) == "/repo":
        return src, "/repo"
    dst = os.path.join(ROOT, ".work", "replay_alt_" + re.sub(r"\W+", "_", alt))
    os.makedirs(dst, exist_ok=True)
    subprocess.run(["rsync", "-a", "--exclude", "target", "--exclude", "Cargo.lock", "--delete", src + "/", dst + "/"], check=True)
    ct = open(os.path.join(dst, "Cargo.toml")).read().replace('path = "/repo"', 'path = "%s"' % alt)
    open(os.path.join(dst, "Cargo.toml"), "w").write(ct)
    return dst, alt

def search(prop, seed, tier):
    d, repo = crate_dir()
    if not os.path.isdir(d) or not os.path.exists(os.path.join(d, "Cargo.toml")):
        return {"found": False, "error": "witness searcher not built (/verif/replay missing)"}
    try:
        shutil.copy(os.path.join(repo, "Cargo.lock"), os.path.join(d, "Cargo.lock"))
    except OSError:
        pass
    b = subprocess.run(["cargo", "build", "--offline", "--release"], cwd=d, env=ENV, capture_output=True, text=True)
    if b.returncode != 0:
        return {"found": False, "error": "sweep build failed: " + b.stderr[-600:]}
    iters = "2000" if tier == "quick" else "20000"
    exe = os.path.join(d, "target", "release", "sweep")
    try:
        r = subprocess.run([exe, prop, "--seed", str(seed or 1), "--iters", iters, "--max-fail", "2"], capture_output=True, text=True, timeout=900)
    except subprocess.TimeoutExpired:
        return {"found": False, "error": "sweep timed out"}
    fails = []
    for l in r.stdout.split("\n"):
        l = l.strip()
        if l.startswith("{"):
            try:
                j = json.loads(l)
                if not j.get("known"): fails.append(j)
            except Exception:
                pass
    return {"found": bool(fails), "failing_inputs": fails[:4], "cmd": "%s %s --seed %s --iters %s" % (exe, prop, seed or 1, iters), "rc": r.returncode}
