#!/usr/bin/env python3
from bootlib import *
H = "impl Limb"
E = []
def t(file, name, contract, head="", props="C11", tail=""):
    E.append(dict(file="src/limb/%s.rs" % file, hdr=H, name=name, contract=contract, head=head, props=props, tail=tail))
t("add", "overflowing_add", "ensures ret__.0.0 as int + ret__.1.0 as int * B() == self.0 as int + rhs.0 as int, ret__.1.0 <= 1", props="C04 C11")
t("add", "adc", "ensures ret__.0.0 as int + ret__.1.0 as int * B() == self.0 as int + rhs.0 as int + carry.0 as int, ret__.1.0 <= 2", props="C04 C11")
t("add", "saturating_add", "ensures ret__.0 as int == min_int(self.0 as int + rhs.0 as int, B() - 1)", props="C04 C11")
t("add", "wrapping_add", "ensures ret__.0 as int == (self.0 as int + rhs.0 as int) % B()", props="C04 C11")
t("sub", "sbb", "ensures ret__.1.0 == 0 || ret__.1.0 == u64::MAX,\n        ret__.0.0 as int - bb(ret__.1) * B() == self.0 as int - rhs.0 as int - (borrow.0 >> 63) as int", props="C04 C11")
t("sub", "saturating_sub", "ensures ret__.0 as int == max_int(self.0 as int - rhs.0 as int, 0)", props="C04 C11")
t("sub", "wrapping_sub", "ensures ret__.0 as int == (self.0 as int - rhs.0 as int) % B()", props="C04 C11")
t("mul", "mac", "ensures ret__.0.0 as int + ret__.1.0 as int * B() == self.0 as int + b.0 as int * c.0 as int + carry.0 as int", props="C03 C04 C11")
t("mul", "saturating_mul", "ensures ret__.0 as int == min_int(self.0 as int * rhs.0 as int, B() - 1)", props="C03 C11")
t("mul", "wrapping_mul", "ensures ret__.0 as int == (self.0 as int * rhs.0 as int) % B()", props="C03 C11")
t("mul", "mul_wide", "ensures ret__.0.0 as int + ret__.1.0 as int * B() == self.0 as int * rhs.0 as int", props="C03 C11")
t("neg", "wrapping_neg", "ensures ret__.0 as int == (B() - self.0 as int) % B()", props="C04 C11")
t("shl", "shl", "requires shift < 64\n    ensures ret__.0 as int == (self.0 as int * p2(shift as nat)) % B()", props="C05 C11")
t("shl", "shl1", "ensures ret__.0.0 as int + ret__.1.0 as int * B() == 2 * self.0 as int, ret__.1.0 <= 1", props="C05 C11")
t("shr", "shr", "requires shift < 64\n    ensures ret__.0 as int == self.0 as int / p2(shift as nat)", props="C05 C11")
t("shr", "shr1", "ensures 2 * ret__.0.0 as int + (ret__.1.0 >> 63) as int == self.0 as int, ret__.1.0 == 0 || ret__.1.0 == 0x8000_0000_0000_0000u64", props="C05 C11")
t("bits", "bits", "ensures ret__ <= 64, (ret__ == 0) == (self.0 == 0), (self.0 as int) < p2(ret__ as nat), ret__ > 0 ==> self.0 as int >= p2((ret__ - 1) as nat)", props="C05 C11")
t("bits", "leading_zeros", "ensures ret__ <= 64, (ret__ == 64) == (self.0 == 0), (self.0 as int) < p2((64 - ret__) as nat), ret__ < 64 ==> self.0 as int >= p2((63 - ret__) as nat)", props="C05 C11")
t("bits", "trailing_zeros", "ensures ret__ <= 64, (ret__ == 64) == (self.0 == 0), (self.0 as int) % p2(ret__ as nat) == 0, ret__ < 64 ==> (self.0 as int / p2(ret__ as nat)) % 2 == 1", props="C05 C11")
t("bits", "trailing_ones", "ensures ret__ <= 64, (ret__ == 64) == (self.0 == u64::MAX), (self.0 as int + 1) % p2(ret__ as nat) == 0, ret__ < 64 ==> (self.0 as int / p2(ret__ as nat)) % 2 == 0", props="C05 C11")
t("cmp", "eq_vartime", "ensures ret__ == (self.0 == other.0)", props="C06 C11")
t("cmp", "select", "requires c.wf()\n    ensures ret__ == (if c.t() { b } else { a })", props="C06 C11")
t("cmp", "is_nonzero", "ensures ret__.wf(), ret__.t() == (self.0 != 0)", props="C06 C11")
t("bit_and", "bitand", "ensures ret__.0 == self.0 & rhs.0", props="C05 C11")
t("bit_or", "bitor", "ensures ret__.0 == self.0 | rhs.0", props="C05 C11")
t("bit_xor", "bitxor", "ensures ret__.0 == self.0 ^ rhs.0", props="C05 C11")
t("bit_not", "not", "ensures ret__.0 == !self.0", props="C05 C11")
build("/verif/units/l1_limb.rs", '''// L1: Limb operations (src/limb/*.rs inherent impls)
use vstd::prelude::*;
use vstd::arithmetic::power2::*;
use vstd::arithmetic::div_mod::*;
use crate::speclib::*;
use crate::l0_prim::*;
use crate::l1_choice::*;
verus! {
''', E)
