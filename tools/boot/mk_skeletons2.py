#!/usr/bin/env python3
from bootlib import *
import mk_skeletons as S  # NOTE: one-off; do not re-run (units are the source of truth)
U = S.U
S.mk("/verif/units/l4_modular.rs", "L4: modular add/sub/neg/double/halve/mul (src/uint/add_mod.rs, sub_mod.rs, neg_mod.rs, mul_mod.rs, src/modular/div_by_2.rs) -- C07", "use crate::l2_shift::*;\nuse crate::l3_mul::*;\nuse crate::l3_div_vt::*;\n", [
 ("uint/add_mod", U, "add_mod", "requires self.v() + rhs.v() < 2 * p.v()\n    ensures ret__.v() == (self.v() + rhs.v()) % p.v(), ret__.v() < p.v()", "C07 C11"),
 ("uint/add_mod", U, "double_mod", "requires self.v() < p.v()\n    ensures ret__.v() == (2 * self.v()) % p.v(), ret__.v() < p.v()", "C07 C11"),
 ("uint/sub_mod", U, "sub_mod", "requires -p.v() <= self.v() - rhs.v() < p.v(), p.v() > 0\n    ensures ret__.v() == (self.v() - rhs.v()) % p.v(), ret__.v() < p.v()", "C07 C11"),
 ("uint/sub_mod", U, "sub_mod_with_carry", "requires carry.0 <= 1, -p.v() <= self.v() + carry.0 as int * bp(LIMBS as nat) - rhs.v() < p.v(), p.v() > 0\n    ensures ret__.v() == (self.v() + carry.0 as int * bp(LIMBS as nat) - rhs.v()) % p.v(), ret__.v() < p.v()", "C07 C08 C11"),
 ("uint/neg_mod", U, "neg_mod", "requires self.v() < p.v()\n    ensures ret__.v() == (p.v() - self.v()) % p.v(), ret__.v() < p.v()", "C07 C11"),
 ("modular/div_by_2", "-", "div_by_2", "requires LIMBS >= 1, modulus.0.v() % 2 == 1, a.v() < modulus.0.v()\n    ensures ret__.v() < modulus.0.v(), (2 * ret__.v()) % modulus.0.v() == a.v()", "C07 C08 C11"),
])
PRE = '''
/// Montgomery reduction relation with R = B^LIMBS: r is the canonical representative of t * R^-1 (mod m)
pub open spec fn mont_red(r: int, t: int, m: int, big_r: int) -> bool { 0 <= r < m && (r * big_r) % m == t % m }
/// k * m[0] == -1 (mod B)
pub open spec fn neg_inv_ok(k: Limb, m0: Limb) -> bool { (k.0 as int * m0.0 as int) % B() == B() - 1 }
'''
S.mk("/verif/units/l5_monty.rs", "L5: Montgomery reduction and multiplication (src/modular/reduction.rs, mul.rs, add.rs, sub.rs) -- C08", "use crate::l3_mul::*;\nuse crate::l4_modular::*;\n", [
 ("modular/reduction", "-", "montgomery_reduction", "requires 1 <= LIMBS < 0x1000_0000, modulus.0.v() % 2 == 1, neg_inv_ok(mod_neg_inv, modulus.0.limbs@[0]),\n        lower_upper.0.v() + lower_upper.1.v() * bp(LIMBS as nat) < modulus.0.v() * bp(LIMBS as nat)\n    ensures mont_red(ret__.v(), lower_upper.0.v() + lower_upper.1.v() * bp(LIMBS as nat), modulus.0.v(), bp(LIMBS as nat))", "C08 C11"),
 ("modular/mul", "-", "mul_montgomery_form", "requires 1 <= LIMBS < 0x1000_0000, modulus.0.v() % 2 == 1, neg_inv_ok(mod_neg_inv, modulus.0.limbs@[0]), a.v() < modulus.0.v(), b.v() < modulus.0.v()\n    ensures mont_red(ret__.v(), a.v() * b.v(), modulus.0.v(), bp(LIMBS as nat))", "C08 C09 C11"),
 ("modular/mul", "-", "square_montgomery_form", "requires 1 <= LIMBS < 0x1000_0000, modulus.0.v() % 2 == 1, neg_inv_ok(mod_neg_inv, modulus.0.limbs@[0]), a.v() < modulus.0.v()\n    ensures mont_red(ret__.v(), a.v() * a.v(), modulus.0.v(), bp(LIMBS as nat))", "C08 C09 C11"),
], pre=PRE)
