#!/usr/bin/env python3
# skeleton units: cross-package callees as stub-mode regions (assumed contracts) until their owner proves the body
from bootlib import *
U = "impl<const LIMBS: usize> Uint<LIMBS>"
HDR = '''use vstd::prelude::*;
use vstd::arithmetic::power::*;
use vstd::arithmetic::power2::*;
use vstd::arithmetic::div_mod::*;
use crate::speclib::*;
use crate::speclib_bits::*;
use crate::l0_prim::*;
use crate::l1_choice::*;
use crate::l1_limb::*;
use crate::l2_core::*;
'''
SUB = "//@@ subst \\b(Self|Uint)::(ZERO|ONE|MAX|BITS|LOG2_BITS)\\b(?!\\() => \\1::\\2()"
SUB2 = "//@@ subst \\bUint::<(\\w+)>::(ZERO|ONE|MAX|BITS)\\b(?!\\() => Uint::<\\1>::\\2()"
def mk(path, title, extra_uses, entries, pre=""):
    E = [SUB, SUB2]
    for e in entries:
        if isinstance(e, str): E.append(e)
        else:
            file, hdr, name, contract, props = e
            E.append(dict(file="src/%s.rs" % file, hdr=hdr, name=name, contract=contract, props=props, mode="stub"))
    build(path, "// %s\n" % title + HDR + extra_uses + "verus! {\n" + pre, E)

def main():
    BITS_POST = "ret__ as int <= 64 * LIMBS, (ret__ == 0) == (self.v() == 0), self.v() < p2(ret__ as nat), ret__ > 0 ==> self.v() >= p2((ret__ - 1) as nat)"
    WFL = "1 <= LIMBS < 0x400_0000"
    mk("/verif/units/l2_shift.rs", "L2: Uint shifts and bit queries (src/uint/shl.rs, shr.rs, bits.rs) -- C05", "", [
     ("uint/bits", U, "bits", "requires %s\n    ensures %s" % (WFL, BITS_POST), "C05 C11"),
     ("uint/bits", U, "bits_vartime", "requires %s\n    ensures %s" % (WFL, BITS_POST), "C05 C11 C15"),
     ("uint/bits", U, "leading_zeros", "requires %s\n    ensures ret__ as int <= 64 * LIMBS, (ret__ as int == 64 * LIMBS) == (self.v() == 0), self.v() < p2((64 * LIMBS - ret__) as nat), (ret__ as int) < 64 * LIMBS ==> self.v() >= p2((64 * LIMBS - ret__ - 1) as nat)" % WFL, "C05 C11"),
     ("uint/bits", U, "trailing_zeros", "requires %s\n    ensures ret__ as int <= 64 * LIMBS, (ret__ as int == 64 * LIMBS) == (self.v() == 0), self.v() %% p2(ret__ as nat) == 0, (ret__ as int) < 64 * LIMBS ==> (self.v() / p2(ret__ as nat)) %% 2 == 1" % WFL, "C05 C11"),
     ("uint/bits", U, "trailing_zeros_vartime", "requires %s\n    ensures ret__ as int <= 64 * LIMBS, (ret__ as int == 64 * LIMBS) == (self.v() == 0), self.v() %% p2(ret__ as nat) == 0, (ret__ as int) < 64 * LIMBS ==> (self.v() / p2(ret__ as nat)) %% 2 == 1" % WFL, "C05 C11 C15"),
     ("uint/bits", U, "bit", "requires %s\n    ensures ret__.wf(), ret__.t() == ((index as int) < 64 * LIMBS && (self.v() / p2(index as nat)) %% 2 == 1)" % WFL, "C05 C11"),
     ("uint/bits", U, "bit_vartime", "requires %s\n    ensures ret__ == ((index as int) < 64 * LIMBS && (self.v() / p2(index as nat)) %% 2 == 1)" % WFL, "C05 C11 C15"),
     ("uint/shl", U, "shl", "requires %s, (shift as int) < 64 * LIMBS\n    ensures ret__.v() == (self.v() * p2(shift as nat)) %% bp(LIMBS as nat)" % WFL, "C05 C11"),
     ("uint/shl", U, "shl_vartime", "requires %s, (shift as int) < 64 * LIMBS\n    ensures ret__.v() == (self.v() * p2(shift as nat)) %% bp(LIMBS as nat)" % WFL, "C05 C11 C15"),
     ("uint/shl", U, "overflowing_shl", "requires %s\n    ensures ret__.is_some.wf(), ret__.is_some.t() == ((shift as int) < 64 * LIMBS), ret__.is_some.t() ==> ret__.value.v() == (self.v() * p2(shift as nat)) %% bp(LIMBS as nat), !ret__.is_some.t() ==> ret__.value.v() == 0" % WFL, "C05 C11"),
     ("uint/shl", U, "overflowing_shl_vartime", "requires %s\n    ensures ret__.is_some.wf(), ret__.is_some.t() == ((shift as int) < 64 * LIMBS), ret__.is_some.t() ==> ret__.value.v() == (self.v() * p2(shift as nat)) %% bp(LIMBS as nat), !ret__.is_some.t() ==> ret__.value.v() == 0" % WFL, "C05 C11 C15"),
     ("uint/shl", U, "wrapping_shl", "requires %s\n    ensures ret__.v() == (if (shift as int) < 64 * LIMBS { (self.v() * p2(shift as nat)) %% bp(LIMBS as nat) } else { 0 })" % WFL, "C05 C11"),
     ("uint/shl", U, "wrapping_shl_vartime", "requires %s\n    ensures ret__.v() == (if (shift as int) < 64 * LIMBS { (self.v() * p2(shift as nat)) %% bp(LIMBS as nat) } else { 0 })" % WFL, "C05 C11 C15"),
     ("uint/shl", U, "shl_limb", "requires LIMBS >= 1, shift < 64\n    ensures ret__.0.v() + ret__.1.0 as int * bp(LIMBS as nat) == self.v() * p2(shift as nat)", "C05 C02 C11"),
     ("uint/shl", U, "overflowing_shl1", "requires LIMBS >= 1\n    ensures ret__.0.v() + ret__.1.0 as int * bp(LIMBS as nat) == 2 * self.v(), ret__.1.0 <= 1", "C05 C11"),
     ("uint/shr", U, "shr", "requires %s, (shift as int) < 64 * LIMBS\n    ensures ret__.v() == self.v() / p2(shift as nat)" % WFL, "C05 C11"),
     ("uint/shr", U, "shr_vartime", "requires %s, (shift as int) < 64 * LIMBS\n    ensures ret__.v() == self.v() / p2(shift as nat)" % WFL, "C05 C11 C15"),
     ("uint/shr", U, "overflowing_shr", "requires %s\n    ensures ret__.is_some.wf(), ret__.is_some.t() == ((shift as int) < 64 * LIMBS), ret__.is_some.t() ==> ret__.value.v() == self.v() / p2(shift as nat), !ret__.is_some.t() ==> ret__.value.v() == 0" % WFL, "C05 C11"),
     ("uint/shr", U, "overflowing_shr_vartime", "requires %s\n    ensures ret__.is_some.wf(), ret__.is_some.t() == ((shift as int) < 64 * LIMBS), ret__.is_some.t() ==> ret__.value.v() == self.v() / p2(shift as nat), !ret__.is_some.t() ==> ret__.value.v() == 0" % WFL, "C05 C11 C15"),
     ("uint/shr", U, "wrapping_shr", "requires %s\n    ensures ret__.v() == (if (shift as int) < 64 * LIMBS { self.v() / p2(shift as nat) } else { 0 })" % WFL, "C05 C11"),
     ("uint/shr", U, "wrapping_shr_vartime", "requires %s\n    ensures ret__.v() == (if (shift as int) < 64 * LIMBS { self.v() / p2(shift as nat) } else { 0 })" % WFL, "C05 C11 C15"),
     ("uint/shr", U, "shr1", "requires LIMBS >= 1\n    ensures ret__.v() == self.v() / 2", "C05 C11"),
     ("uint/shr", U, "shr1_with_carry", "requires LIMBS >= 1\n    ensures ret__.0.v() == self.v() / 2, ret__.1.wf(), ret__.1.t() == (self.v() % 2 == 1)", "C05 C11"),
    ])

    RECIP = '''
    //@@ item src/uint/div_limb.rs | struct Reciprocal
    //@@ end
    impl Reciprocal {
        /// the Moeller-Granlund reciprocal relation: v = floor((B^2 - 1) / d) - B for a normalised d
        pub open spec fn wf(&self) -> bool {
            let d = self.divisor_normalized as int; let v = self.reciprocal as int;
            &&& d >= B() / 2 &&& (B() + v) * d <= B() * B() - 1 &&& B() * B() - 1 < (B() + v) * d + d &&& self.shift < 64
        }
        /// the divisor this reciprocal was built for
        pub open spec fn dv(&self) -> int { self.divisor_normalized as int / p2(self.shift as nat) }
    }
    '''
    D2 = "ret__.0 as int * reciprocal.divisor_normalized as int + ret__.1 as int == u1 as int * B() + u0 as int, ret__.1 < reciprocal.divisor_normalized"
    mk("/verif/units/l3_divlimb.rs", "L3: division by a single limb (src/uint/div_limb.rs and the limb forms in src/uint/div.rs) -- C02", "", [
     ("uint/div_limb", "-", "reciprocal", "requires d >= 0x8000_0000_0000_0000u64\n    ensures (B() + ret__ as int) * d as int <= B() * B() - 1, B() * B() - 1 < (B() + ret__ as int) * d as int + d as int", "C02 C11"),
     ("uint/div_limb", "impl Reciprocal", "new", "requires divisor.0.0 != 0\n    ensures ret__.wf(), ret__.dv() == divisor.0.0 as int, ret__.divisor_normalized as int == divisor.0.0 as int * p2(ret__.shift as nat),\n        divisor.0.0 as int >= B() / 2 ==> (ret__.shift == 0 && ret__.divisor_normalized == divisor.0.0)", "C02 C11"),
     ("uint/div_limb", "-", "div2by1", "requires reciprocal.wf(), u1 < reciprocal.divisor_normalized\n    ensures %s" % D2, "C02 C11"),
     ("uint/div_limb", "-", "div3by2", "requires v1_reciprocal.wf(), v1_reciprocal.shift == 0, u2 <= v1_reciprocal.divisor_normalized\n    ensures ret__ as int == min_int(B() - 1, ((u2 as int * B() + u1 as int) * B() + u0 as int) / (v1_reciprocal.divisor_normalized as int * B() + v0 as int))", "C02 C11"),
     ("uint/div_limb", "-", "div_rem_limb_with_reciprocal", "requires L >= 1, reciprocal.wf(), reciprocal.dv() > 0, reciprocal.divisor_normalized as int == reciprocal.dv() * p2(reciprocal.shift as nat)\n    ensures ret__.0.v() * reciprocal.dv() + ret__.1.0 as int == u.v(), (ret__.1.0 as int) < reciprocal.dv()", "C02 C11"),
     ("uint/div_limb", "-", "rem_limb_with_reciprocal", "requires L >= 1, reciprocal.wf(), reciprocal.dv() > 0, reciprocal.divisor_normalized as int == reciprocal.dv() * p2(reciprocal.shift as nat)\n    ensures ret__.0 as int == u.v() % reciprocal.dv()", "C02 C11 C15"),
     ("uint/div_limb", "-", "rem_limb_with_reciprocal_wide", "requires L >= 1, reciprocal.wf(), reciprocal.dv() > 0, reciprocal.divisor_normalized as int == reciprocal.dv() * p2(reciprocal.shift as nat)\n    ensures ret__.0 as int == (lo_hi.0.v() + lo_hi.1.v() * bp(L as nat)) % reciprocal.dv()", "C02 C11"),
     ("uint/div", U, "div_rem_limb_with_reciprocal", "requires LIMBS >= 1, reciprocal.wf(), reciprocal.dv() > 0, reciprocal.divisor_normalized as int == reciprocal.dv() * p2(reciprocal.shift as nat)\n    ensures ret__.0.v() * reciprocal.dv() + ret__.1.0 as int == self.v(), (ret__.1.0 as int) < reciprocal.dv()", "C02 C11 C15"),
     ("uint/div", U, "div_rem_limb", "requires LIMBS >= 1, rhs.0.0 != 0\n    ensures ret__.0.v() * rhs.0.0 as int + ret__.1.0 as int == self.v(), ret__.1.0 < rhs.0.0", "C02 C11 C15"),
     ("uint/div", U, "rem_limb_with_reciprocal", "requires LIMBS >= 1, reciprocal.wf(), reciprocal.dv() > 0, reciprocal.divisor_normalized as int == reciprocal.dv() * p2(reciprocal.shift as nat)\n    ensures ret__.0 as int == self.v() % reciprocal.dv()", "C02 C11 C15"),
     ("uint/div", U, "rem_limb", "requires LIMBS >= 1, rhs.0.0 != 0\n    ensures ret__.0 as int == self.v() % (rhs.0.0 as int)", "C02 C11 C15"),
    ], pre=RECIP)

    DIVPOST = "ret__.0.v() * rhs.0.v() + ret__.1.v() == self.v(), 0 <= ret__.1.v() < rhs.0.v()"
    mk("/verif/units/l3_div_vt.rs", "L3: variable-time full division (src/uint/div.rs: div_rem_vartime, rem_vartime, rem_wide_vartime, rem2k_vartime, ...) -- C02", "use crate::l2_shift::*;\nuse crate::l3_divlimb::*;\n", [
     ("uint/div", U, "shl_limb_vartime", "requires shift < 64, 1 <= limbs_num <= LIMBS\n    ensures val(ret__.0.limbs@, limbs_num as nat) + ret__.1.0 as int * bp(limbs_num as nat) == val(self.limbs@, limbs_num as nat) * p2(shift as nat),\n        forall|k: int| limbs_num <= k < LIMBS ==> ret__.0.limbs@[k] == (if shift == 0 { self.limbs@[k] } else { Limb(0) })", "C02 C11"),
     ("uint/div", U, "shr_limb_vartime", "requires shift < 64, 1 <= limbs_num <= LIMBS\n    ensures val(ret__.limbs@, limbs_num as nat) == val(self.limbs@, limbs_num as nat) / p2(shift as nat),\n        forall|k: int| limbs_num <= k < LIMBS ==> ret__.limbs@[k] == (if shift == 0 { self.limbs@[k] } else { Limb(0) })", "C02 C11"),
     ("uint/div", U, "div_rem_vartime", "requires 1 <= LIMBS < 0x400_0000, 1 <= RHS_LIMBS < 0x400_0000, rhs.0.v() != 0\n    ensures ret__.0.v() * rhs.0.v() + ret__.1.v() == self.v(), 0 <= ret__.1.v() < rhs.0.v()", "C02 C11 C15"),
     ("uint/div", U, "rem_vartime", "requires 1 <= LIMBS < 0x400_0000, rhs.0.v() != 0\n    ensures ret__.v() == self.v() % rhs.0.v()", "C02 C11 C15"),
     ("uint/div", U, "rem_wide_vartime", "requires 1 <= LIMBS < 0x400_0000, rhs.0.v() != 0\n    ensures ret__.v() == (lower_upper.0.v() + lower_upper.1.v() * bp(LIMBS as nat)) % rhs.0.v()", "C02 C11"),
     ("uint/div", U, "rem2k_vartime", "requires 1 <= LIMBS < 0x400_0000\n    ensures ret__.v() == self.v() % p2(k as nat)", "C02 C11"),
    ])
    mk("/verif/units/l3_div_ct.rs", "L3: constant-time full division (src/uint/div.rs: div_rem, rem, wrapping_div, checked_div, checked_rem) -- C02", "use crate::l2_shift::*;\nuse crate::l3_divlimb::*;\n", [
     ("uint/div", U, "div_rem", "requires 1 <= LIMBS < 0x400_0000, rhs.0.v() != 0\n    ensures ret__.0.v() * rhs.0.v() + ret__.1.v() == self.v(), 0 <= ret__.1.v() < rhs.0.v()", "C02 C11 C15"),
     ("uint/div", U, "rem", "requires 1 <= LIMBS < 0x400_0000, rhs.0.v() != 0\n    ensures ret__.v() == self.v() % rhs.0.v()", "C02 C11 C15"),
    ])
    MULP = "ret__.0.v() + ret__.1.v() * bp(LIMBS as nat) == self.v() * rhs.v()"
    mk("/verif/units/l3_mul.rs", "L3: multiplication and squaring (src/uint/mul.rs) -- C03", "", [
     ("uint/mul", U, "split_mul", "requires LIMBS >= 1, RHS_LIMBS >= 1\n    ensures %s" % MULP, "C03 C11"),
     ("uint/mul", U, "wrapping_mul", "requires LIMBS >= 1, H >= 1\n    ensures ret__.v() == (self.v() * rhs.v()) % bp(LIMBS as nat)", "C03 C11"),
     ("uint/mul", U, "square_wide", "requires LIMBS >= 1\n    ensures ret__.0.v() + ret__.1.v() * bp(LIMBS as nat) == self.v() * self.v()", "C03 C11 C15"),
    ])

if __name__ == '__main__':
    print('refusing to overwrite existing skeleton units; edit the unit files directly'); 
