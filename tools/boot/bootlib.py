# helper to bootstrap a unit file from a table; afterwards the unit file is the source of truth
import sys
sys.path.insert(0, '/verif/tools')
import gen

def region(file, hdr, name, contract="", head="", props="", mode="body", tail="", nth=None):
    item = gen.find_item(file, "fn", hdr, name, nth)
    in_trait = hdr not in ("-", "") and " for " in hdr
    lines = gen.rewrite_fn(item, in_trait, set())
    out = ["//@@ fn %s | %s | %s | %s | props %s%s" % (file, hdr, name, mode, props, "" if nth is None else " | nth %d" % nth)]
    wrap = hdr not in ("-", "")
    if wrap: out.append(hdr + " {")
    kb = next(k for k, x in enumerate(lines) if x.strip() == "{")
    if mode == "stub":
        out.append("#[verifier::external_body]")
    out += lines[:kb]
    if contract:
        out += ["//@+", "    " + contract, "//@-"]
    out.append("{")
    if mode == "stub":
        out += ["    unimplemented!()", "}"]
    else:
        if head:
            out += ["//@+", "    " + head, "//@-"]
        body = lines[kb+1:]
        if tail:
            # insert before the last line of the body that is not the closing brace (the tail expression)
            out += body[:-2] + ["//@+", "    " + tail, "//@-"] + body[-2:]
        else:
            out += body
    if wrap: out.append("}")
    out.append("//@@ end")
    return out

def build(path, header, entries, footer="\n} // verus!\n"):
    out = [header]
    for e in entries:
        if isinstance(e, str):
            out.append(e)
        else:
            out += region(**e)
    out.append(footer)
    open(path, "w").write("\n".join(out))
