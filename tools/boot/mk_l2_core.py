#!/usr/bin/env python3
from bootlib import *
U = "impl<const LIMBS: usize> Uint<LIMBS>"
E = []
def t(file, name, contract, head="", props="C11", tail="", hdr=U, mode="body"):
    E.append(dict(file="src/%s.rs" % file, hdr=hdr, name=name, contract=contract, head=head, props=props, tail=tail, mode=mode))
def const(file, hdr, name, contract):
    E.append("//@@ const src/%s.rs | %s | %s\n%s {\npub const fn %s() -> (ret__: X)\n//@+\n    %s\n//@-\n{\n}\n}\n//@@ end" % (file, hdr, name, hdr, name, contract))

O = "impl<T> ConstCtOption<T>"
t("const_choice", "new", "ensures ret__.value == value, ret__.is_some == is_some", hdr=O, props="C06 C11")
t("const_choice", "some", "ensures ret__.value == value, ret__.is_some.t(), ret__.is_some.wf()", hdr=O, props="C06 C11")
t("const_choice", "none", "ensures ret__.value == dummy_value, !ret__.is_some.t(), ret__.is_some.wf()", hdr=O, props="C06 C11")
t("const_choice", "components_ref", "ensures *ret__.0 == self.value, ret__.1 == self.is_some", hdr=O, props="C06 C11")
t("const_choice", "is_some", "ensures ret__ == self.is_some", hdr=O, props="C06 C11")
t("const_choice", "is_none", "requires self.is_some.wf()\n    ensures ret__.wf(), ret__.t() == !self.is_some.t()", hdr=O, props="C06 C11")
t("const_choice", "and_choice", "requires self.is_some.wf(), is_some.wf()\n    ensures ret__.value == self.value, ret__.is_some.wf(), ret__.is_some.t() == (self.is_some.t() && is_some.t())", hdr=O, props="C06 C11")

E.append("//@@ subst \\b(Self|Uint)::(ZERO|ONE|MAX|BITS|LOG2_BITS)\\b(?!\\() => \\1::\\2()")
const("uint", U, "ZERO", "requires LIMBS >= 1\n    ensures ret__.v() == 0, forall|k: int| 0 <= k < LIMBS ==> ret__.limbs@[k].0 == 0")
const("uint", U, "ONE", "requires LIMBS >= 1\n    ensures ret__.v() == 1, ret__.limbs@[0].0 == 1, forall|k: int| 1 <= k < LIMBS ==> ret__.limbs@[k].0 == 0")
const("uint", U, "MAX", "ensures ret__.v() == bp(LIMBS as nat) - 1, forall|k: int| 0 <= k < LIMBS ==> ret__.limbs@[k].0 == u64::MAX")
const("uint", U, "BITS", "requires LIMBS < 0x400_0000\n    ensures ret__ as int == 64 * LIMBS")
t("uint", "new", "ensures ret__.limbs == limbs", props="C16 C11")
t("uint", "to_limbs", "ensures ret__ == self.limbs", props="C16 C11")
t("uint", "as_limbs", "ensures *ret__ == self.limbs", props="C16 C11")
t("uint", "to_nz", "ensures ret__.value.0 == self, ret__.is_some.wf(), ret__.is_some.t() == (self.v() != 0)", props="C12 C11")
t("uint", "to_odd", "requires LIMBS >= 1\n    ensures ret__.value.0 == self, ret__.is_some.wf(), ret__.is_some.t() == (self.v() % 2 == 1)", props="C12 C11")
for n, ty in (("from_u8", "u8"), ("from_u16", "u16"), ("from_u32", "u32"), ("from_u64", "u64"), ("from_word", "Word")):
    t("uint/from", n, "requires LIMBS >= 1\n    ensures ret__.v() == n as int, ret__.limbs@[0].0 == n as u64, forall|k: int| 1 <= k < LIMBS ==> ret__.limbs@[k].0 == 0", props="C16 C11")
t("uint/from", "from_wide_word", "requires LIMBS >= 2\n    ensures ret__.v() == n as int", props="C16 C11")
t("uint/cmp", "select", "requires c.wf()\n    ensures ret__ == (if c.t() { *b } else { *a })", props="C06 C11")
t("uint/cmp", "is_nonzero", "ensures ret__.wf(), ret__.t() == (self.v() != 0)", props="C06 C11")
t("uint/cmp", "is_odd", "requires LIMBS >= 1\n    ensures ret__.wf(), ret__.t() == (self.v() % 2 == 1)", props="C06 C11")
t("uint/cmp", "eq", "ensures ret__.wf(), ret__.t() == (lhs.v() == rhs.v())", props="C06 C11")
t("uint/cmp", "lt", "ensures ret__.wf(), ret__.t() == (lhs.v() < rhs.v())", props="C06 C11")
t("uint/cmp", "lte", "ensures ret__.wf(), ret__.t() == (lhs.v() <= rhs.v())", props="C06 C11")
t("uint/cmp", "gt", "ensures ret__.wf(), ret__.t() == (lhs.v() > rhs.v())", props="C06 C11")
t("uint/cmp", "cmp", "ensures ret__ as int == (if lhs.v() < rhs.v() { -1int } else if lhs.v() == rhs.v() { 0int } else { 1int })", props="C06 C11")
t("uint/cmp", "cmp_vartime", "requires LIMBS >= 1\n    ensures (ret__ == Ordering::Less) == (self.v() < rhs.v()), (ret__ == Ordering::Equal) == (self.v() == rhs.v()), (ret__ == Ordering::Greater) == (self.v() > rhs.v())", props="C06 C11 C15")
t("uint/add", "adc", "ensures ret__.0.v() + ret__.1.0 as int * bp(LIMBS as nat) == self.v() + rhs.v() + carry.0 as int,\n        carry.0 <= 1 ==> ret__.1.0 <= 1", props="C04 C11")
t("uint/add", "saturating_add", "ensures ret__.v() == min_int(self.v() + rhs.v(), bp(LIMBS as nat) - 1)", props="C04 C11")
t("uint/add", "wrapping_add", "ensures ret__.v() == (self.v() + rhs.v()) % bp(LIMBS as nat)", props="C04 C11")
t("uint/sub", "sbb", "ensures ret__.1.0 == 0 || ret__.1.0 == u64::MAX,\n        ret__.0.v() - bb(ret__.1) * bp(LIMBS as nat) == self.v() - rhs.v() - (borrow.0 >> 63) as int", props="C04 C11")
t("uint/sub", "saturating_sub", "requires LIMBS >= 1\n    ensures ret__.v() == max_int(self.v() - rhs.v(), 0)", props="C04 C11")
t("uint/sub", "wrapping_sub", "ensures ret__.v() == (self.v() - rhs.v()) % bp(LIMBS as nat)", props="C04 C11")
t("uint/neg", "wrapping_neg", "ensures ret__.v() == (bp(LIMBS as nat) - self.v()) % bp(LIMBS as nat)", props="C04 C11")
t("uint/neg", "carrying_neg", "ensures ret__.0.v() == (bp(LIMBS as nat) - self.v()) % bp(LIMBS as nat), ret__.1.wf(), ret__.1.t() == (self.v() == 0)", props="C04 C11")
t("uint/neg", "wrapping_neg_if", "requires negate.wf()\n    ensures ret__.v() == (if negate.t() { (bp(LIMBS as nat) - self.v()) % bp(LIMBS as nat) } else { self.v() })", props="C04 C11")
t("uint/resize", "resize", "requires T >= 1\n    ensures T >= LIMBS ==> ret__.v() == self.v(), T < LIMBS ==> ret__.v() == self.v() % bp(T as nat),\n        forall|k: int| 0 <= k < T ==> ret__.limbs@[k] == (if k < LIMBS { self.limbs@[k] } else { Limb(0) })", props="C16 C11")
build("/verif/units/l2_core.rs", '''// L2: Uint core: constants, constructors, comparison, add/sub/neg, resize
use vstd::prelude::*;
use vstd::arithmetic::power::*;
use vstd::arithmetic::power2::*;
use vstd::arithmetic::div_mod::*;
use core::cmp::Ordering;
use crate::speclib::*;
use crate::l0_prim::*;
use crate::l1_choice::*;
use crate::l1_limb::*;
verus! {

//@@ item src/const_choice.rs | struct ConstCtOption
//@@ end
''', E)
