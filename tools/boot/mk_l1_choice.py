#!/usr/bin/env python3
# one-off bootstrap of units/l1_choice.rs (kept for reference; the unit file is the source of truth afterwards)
import sys, os
sys.path.insert(0, '/verif/tools')
import gen
F = "src/const_choice.rs"
H = "impl ConstChoice"
M = "0xffff_ffff_ffff_ffffu64"
T = {}
def t(name, contract, head="", props="C06 C11"):
    T[name] = (contract, head, props)
t("as_u32_mask", "requires self.wf()\n    ensures ret__ == (if self.t() { u32::MAX } else { 0u32 })",
  "assert((self.0 as u32) == (if self.0 == %s { 0xffff_ffffu32 } else { 0u32 })) by (bit_vector) requires self.0 == 0 || self.0 == %s;" % (M, M))
t("as_u64_mask", "ensures ret__ == self.0")
t("from_word_mask", "requires value == 0 || value == u64::MAX\n    ensures ret__.0 == value, ret__.wf(), ret__.t() == (value == u64::MAX)")
t("from_word_lsb", "requires value == 0 || value == 1\n    ensures ret__.wf(), ret__.t() == (value == 1)")
t("from_word_msb", "ensures ret__.wf(), ret__.t() == (value >= 0x8000_0000_0000_0000u64)",
  "assert((value >> 63) == 0 || (value >> 63) == 1) by (bit_vector);\n    assert(((value >> 63) == 1) == (value >= 0x8000_0000_0000_0000u64)) by (bit_vector);")
t("from_wide_word_lsb", "requires value == 0 || value == 1\n    ensures ret__.wf(), ret__.t() == (value == 1)",
  "assert((0xffff_ffff_ffff_ffff_ffff_ffff_ffff_ffffu128 as u64) == %s) by (bit_vector);" % M)
t("from_u32_lsb", "requires value == 0 || value == 1\n    ensures ret__.wf(), ret__.t() == (value == 1)")
t("from_u64_lsb", "requires value == 0 || value == 1\n    ensures ret__.wf(), ret__.t() == (value == 1)")
nz = lambda ty, sh, neg: ("ensures ret__.wf(), ret__.t() == (value != 0)",
   "let ghost n = value.wrapping_neg();\n    proof { lemma_wneg_%s(value, n); }\n    assert(((value | n) >> %d) == (if value == 0 { 0%s } else { 1%s })) by (bit_vector) requires n == %s;" % (ty, sh, ty, ty, neg))
t("from_u32_nonzero", *nz("u32", 31, "sub(0u32, value)"))
t("from_u64_nonzero", *nz("u64", 63, "sub(0u64, value)"))
t("from_word_nonzero", *nz("u64", 63, "sub(0u64, value)"))
for n, ty in (("from_u32_eq", "u32"), ("from_u64_eq", "u64"), ("from_word_eq", "u64")):
    t(n, "ensures ret__.wf(), ret__.t() == (x == y)", "assert(((x ^ y) == 0) == (x == y)) by (bit_vector);")
lt = lambda ty, sh: ("ensures ret__.wf(), ret__.t() == (x < y)",
   "let ghost w = x.wrapping_sub(y);\n    proof { lemma_wsub_%s(x, y, w); }\n    assert(((((!x) & y) | (((!x) | y) & w)) >> %d) == (if x < y { 1%s } else { 0%s })) by (bit_vector) requires w == sub(x, y);" % (ty, sh, ty, ty))
le = lambda ty, sh: ("ensures ret__.wf(), ret__.t() == (x <= y)",
   "let ghost w = y.wrapping_sub(x);\n    proof { lemma_wsub_%s(y, x, w); }\n    assert(((((!x) | y) & ((x ^ y) | !w)) >> %d) == (if x <= y { 1%s } else { 0%s })) by (bit_vector) requires w == sub(y, x);" % (ty, sh, ty, ty))
t("from_word_lt", *lt("u64", 63))
t("from_word_gt", "ensures ret__.wf(), ret__.t() == (x > y)")
t("from_u32_lt", *lt("u32", 31))
t("from_word_le", *le("u64", 63))
t("from_wide_word_le", *le("u128", 127))
t("from_u32_le", *le("u32", 31))
t("from_u64_lt", *lt("u64", 63))
t("from_u64_gt", "ensures ret__.wf(), ret__.t() == (x > y)")
bw = lambda op, sem: ("requires self.wf(), other.wf()\n    ensures ret__.wf(), ret__.t() == (%s)" % sem,
   "assert((self.0 %s other.0) == (if %s { %s } else { 0u64 })) by (bit_vector) requires self.0 == 0 || self.0 == %s, other.0 == 0 || other.0 == %s;" % (
       op, sem.replace("self.t()", "self.0 == " + M).replace("other.t()", "other.0 == " + M), M, M, M))
t("not", "requires self.wf()\n    ensures ret__.wf(), ret__.t() == !self.t()",
  "assert((!self.0) == (if self.0 == %s { 0u64 } else { %s })) by (bit_vector) requires self.0 == 0 || self.0 == %s;" % (M, M, M))
t("or", *bw("|", "self.t() || other.t()"))
t("and", *bw("&", "self.t() && other.t()"))
t("xor", *bw("^", "self.t() != other.t()"))
t("ne", "requires self.wf(), other.wf()\n    ensures ret__.wf(), ret__.t() == (self.t() != other.t())")
t("eq", "requires self.wf(), other.wf()\n    ensures ret__.wf(), ret__.t() == (self.t() == other.t())")
sel = lambda ty, mask: ("requires self.wf()\n    ensures ret__ == (if self.t() { b } else { a })", mask)
t("select_word", "requires self.wf()\n    ensures ret__ == (if self.t() { b } else { a })",
  "let ghost m = self.0;\n    assert((a ^ (m & (a ^ b))) == (if m == %s { b } else { a })) by (bit_vector) requires m == 0 || m == %s;" % (M, M))
t("select_wide_word", "requires self.wf()\n    ensures ret__ == (if self.t() { b } else { a })",
  "let ghost m = self.0;\n    assert((a ^ ((((m as u128) << 64) | (m as u128)) & (a ^ b))) == (if m == %s { b } else { a })) by (bit_vector) requires m == 0 || m == %s;" % (M, M))
t("select_u32", "requires self.wf()\n    ensures ret__ == (if self.t() { b } else { a })",
  "let ghost m = if self.t() { u32::MAX } else { 0u32 };\n    assert((a ^ (m & (a ^ b))) == (if m == 0xffff_ffffu32 { b } else { a })) by (bit_vector) requires m == 0 || m == 0xffff_ffffu32;")
t("select_u64", "requires self.wf()\n    ensures ret__ == (if self.t() { b } else { a })",
  "let ghost m = self.0;\n    assert((a ^ (m & (a ^ b))) == (if m == %s { b } else { a })) by (bit_vector) requires m == 0 || m == %s;" % (M, M))
t("if_true_word", "requires self.wf()\n    ensures ret__ == (if self.t() { x } else { 0 })",
  "let ghost m = self.0;\n    assert((x & m) == (if m == %s { x } else { 0u64 })) by (bit_vector) requires m == 0 || m == %s;" % (M, M))
t("if_true_u32", "requires self.wf()\n    ensures ret__ == (if self.t() { x } else { 0 })",
  "let ghost m = if self.t() { u32::MAX } else { 0u32 };\n    assert((x & m) == (if m == 0xffff_ffffu32 { x } else { 0u32 })) by (bit_vector) requires m == 0 || m == 0xffff_ffffu32;")
t("is_true_vartime", "ensures ret__ == self.t()")
t("to_u8", "requires self.wf()\n    ensures ret__ == (if self.t() { 1u8 } else { 0u8 })",
  "let ghost m = self.0;\n    assert(((m as u8) & 1) == (if m == %s { 1u8 } else { 0u8 })) by (bit_vector) requires m == 0 || m == %s;" % (M, M))
t("to_bool_vartime", "requires self.wf()\n    ensures ret__ == self.t()")

out = ['''// L1: ConstChoice word predicates and selects (src/const_choice.rs)
use vstd::prelude::*;
use crate::speclib::*;
verus! {

//@@ rawconst src/const_choice.rs | impl ConstChoice | FALSE
//@@ end
//@@ rawconst src/const_choice.rs | impl ConstChoice | TRUE
//@@ end
''']
for name, (contract, head, props) in T.items():
    item = gen.find_item(F, "fn", H, name)
    lines = gen.rewrite_fn(item, False, set())
    out.append("//@@ fn %s | %s | %s | body | props %s" % (F, H, name, props))
    out.append(H + " {")
    kb = next(k for k, x in enumerate(lines) if x.strip() == "{")
    out += lines[:kb]
    out += ["//@+", "    " + contract, "//@-", "{"]
    if head:
        out += ["//@+", "    " + head, "//@-"]
    out += lines[kb+1:]
    out.append("}")
    out.append("//@@ end")
out.append("\n} // verus!\n")
open("/verif/units/l1_choice.rs", "w").write("\n".join(out))
