#!/bin/bash
# usage: muttest.sh <prop> <file> <sed-expr>   applies a sed mutation in the scratch worktree /tmp/mut1 and runs the Verus part of a check there
set -u
P=$1; F=$2; E=$3
cd /tmp/mut1 && git checkout -q -- . && sed -i "$E" "$F" && git diff --stat | tail -1
cd /verif && VERIF_REPO=/tmp/mut1 ./check $P 2>&1 | grep -v "^WARNING" | tail -4
cd /tmp/mut1 && git checkout -q -- .
