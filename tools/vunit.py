#!/usr/bin/env python3
"""vunit.py <unit> [verus args] : verify one unit inside its own import closure (dev helper; same closure rule as ./check)."""
import sys, os, re, subprocess
U = "/verif/units"
def uses(u):
    t = open(os.path.join(U, u + ".rs")).read()
    return set(re.findall(r"^\s*(?:pub\s+)?use\s+crate::(\w+)::", t, re.M))
def closure(u):
    seen, todo = [], [u]
    while todo:
        x = todo.pop()
        if x in seen or not os.path.exists(os.path.join(U, x + ".rs")): continue
        seen.append(x); todo += sorted(uses(x))
    return seen
unit = sys.argv[1]
cl = closure(unit)
for base in ("speclib", "speclib_bits"):
    if base not in cl: cl.append(base)
out = os.environ.get("VOUT", "/verif/.work/vunit_" + unit)
cmd = ["/verif/tools/vrun.sh", " ".join(sorted(cl)), "--verify-only-module", unit, "--num-threads", "8"] + sys.argv[2:]
sys.exit(subprocess.call(cmd, env=dict(os.environ, VOUT=out)))
