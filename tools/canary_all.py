#!/usr/bin/env python3
"""canary_all.py : vacuity self-test over EVERY function under contract (not the 12 sampled by the thorough tier):
emit `assert(false)` as first body statement of all `body` functions at once and require that Verus rejects each one.
Prints the functions whose canary was NOT rejected (contradictory precondition / unreachable entry) and exits 1 if any."""
import sys, os, json, importlib.machinery, importlib.util
ROOT = os.path.dirname(os.path.dirname(os.path.abspath(__file__)))
sys.path.insert(0, os.path.join(ROOT, "tools"))
ld = importlib.machinery.SourceFileLoader("vcheck", os.path.join(ROOT, "check"))
spec = importlib.util.spec_from_loader("vcheck", ld); C = importlib.util.module_from_spec(spec); ld.exec_module(C)
G = C.G
outdir = os.path.join(C.WORK, "canary_all")
meta0 = G.generate(os.path.join(ROOT, "units"), C.all_units_ordered(), outdir + "_plain")
ids = [f["id"] for f in meta0["functions"] if f["mode"] == "body" and "RAWCONST" not in f["rewrites"]]
G.CANARY = set(ids)
r = C.run_verus("C11", C.all_units_ordered(), "quick", 1, outdir)
if "undecided" in r:
    print("UNDECIDED:", r["undecided"][:2000]); sys.exit(2)
att = C.attribute(r["meta"], r["diag"])
failed = {fn["id"] for d, fn in att if fn is not None}
vac = [i for i in ids if i not in failed]
print("functions with canary: %d   rejected: %d   NOT rejected: %d" % (len(ids), len(ids) - len(vac), len(vac)))
for v in vac: print("  VACUOUS?", v)
json.dump({"canaries": len(ids), "rejected": len(ids) - len(vac), "not_rejected": vac}, open(os.path.join(ROOT, "evidence", "canary_all.json"), "w"), indent=1)
sys.exit(1 if vac else 0)
