#!/usr/bin/env python3
"""seedtable.py : markdown table of the seeded changes and what the registered check said about each (from seeded/*/check_result.json)."""
import os, json, glob
rows = []
for d in sorted(glob.glob("/verif/seeded/C*_*")):
    m = json.load(open(os.path.join(d, "meta.json")))
    crp = os.path.join(d, "check_result.json")
    cr = json.load(open(crp)) if os.path.exists(crp) else m.get("check_result", {})
    P = m["property"]
    r = cr.get(P, {})
    ex = r.get("exit")
    verdict = {0: "**missed** (exit 0)", 1: "caught", 2: "undecided (exit 2)"}.get(ex, "not run")
    by = ""
    for l in r.get("lines", []):
        if l.startswith("FAILED-OBLIGATION"):
            by = l[len("FAILED-OBLIGATION: "):].split(" @ ")[0][:110]; break
    noinput = any("no-failing-input-found" in l for l in r.get("lines", []))
    what = (m.get("summary") or "")[:150].replace("|", "/").replace("\n", " ")
    rows.append("| %s | %s | %s | %s%s |" % (os.path.basename(d), what, verdict, by.replace("|", "/"), " (no input)" if noinput and ex == 1 else ""))
print("| seed | change | verdict | first failed obligation |\n|---|---|---|---|")
print("\n".join(rows))
