#!/usr/bin/env python3
"""Extractor / splicer: builds the Verus crate from /repo/src + the annotated mirrors in /verif/units.

Unit file grammar (line oriented; everything not inside a `//@@ fn|item|const ... //@@ end` region is
hand-written Verus *spec / proof* text and is copied verbatim):

  //@@ fn <file> | <impl header or -> | <name> | body|stub [| props C02 C11 ...]
     <mirror of the function: context lines + annotation blocks>
  //@@ end
  //@@ item <file> | <struct|type|enum> <name>
  //@@ end
  //@@ const <file> | <impl header or -> | <NAME>          (R4: const -> nullary const fn)
  //@@ end

Inside a region, lines between `//@+` and `//@-` are annotations (contracts, invariants, ghost code,
proof blocks) and are kept; every other line is *context*: it is never emitted, it is only used to
align the annotations with the text re-extracted from /repo on this run.
"""
import sys, os, re, json, hashlib, difflib
sys.path.insert(0, os.path.dirname(os.path.abspath(__file__)))
import rustlex
from rustlex import lex, Tok, match_forward, norm, norm_line, norm_header

REPO = os.environ.get("VERIF_REPO", "/repo")

class GenError(Exception):
    pass

_items_cache = {}
def items_of(path):
    full = os.path.join(REPO, path)
    if full not in _items_cache:
        try:
            src = open(full).read()
        except OSError as e:
            raise GenError("cannot read %s: %s" % (full, e))
        _items_cache[full] = (src, rustlex.scan_items(src))
    return _items_cache[full]

def is_cfg32(item):
    return any(re.search(r'target_pointer_width\s*=\s*"32"', a) for a in item.attrs)

def is_cfg_test(item):
    return any(re.search(r'cfg\(test\)', a) for a in item.attrs)

def find_item(path, kind, header, name, nth=None):
    src, items = items_of(path)
    hdr = None if header in ("-", "", None) else norm_header(header)
    cands = [it for it in items if it.kind == kind and it.name == name
             and (it.impl_header == hdr) and not is_cfg32(it)]
    if not cands:
        raise GenError("anchor lost: %s %s | %s | %s not found" % (kind, path, header, name))
    if nth is not None:
        if nth >= len(cands): raise GenError("anchor lost: %s #%d" % (name, nth))
        return cands[nth]
    if len(cands) > 1:
        raise GenError("ambiguous anchor: %s %s | %s | %s (%d matches)" % (kind, path, header, name, len(cands)))
    return cands[0]

# ------------------------------------------------------------------ rewrites

def strip_vis(text):
    """R1: drop a leading visibility qualifier."""
    return re.sub(r"^pub\s*(\([^)]*\))?\s*", "", text)

def split_top(s, sep=","):
    out, depth, cur = [], 0, ""
    for ch in s:
        if ch in "([{<" : depth += 1
        if ch in ")]}>" : depth -= 1
        if ch == sep and depth == 0:
            out.append(cur); cur = ""
        else:
            cur += ch
    if cur.strip(): out.append(cur)
    return out

def r13_chain_tail(text, log):
    """R13 ("chain-tail peeling"): `for PAT in ITER.chain([E]) { BODY }` -> `{ for PAT in ITER { BODY } ; { let PAT = E; BODY } }` (the lone `;` keeps the verus! parser from reading the tail block as a loop clause).
    `Iterator::chain` is a provided trait method and cannot be specified for Verus.  Applied only when the chained tail is a
    ONE-element array literal whose element is a path or a reference to a path (no side effects) and BODY contains no `break`,
    no `continue` and no loop label: then the body runs once per item of ITER and once more for E, in that order, in both forms."""
    for _ in range(8):
        toks = lex(text)
        sigidx = [i for i, t in enumerate(toks) if t.kind not in ("ws", "lcomment", "bcomment")]
        pos = {i: n for n, i in enumerate(sigidx)}
        done = False
        for n, i in enumerate(sigidx):
            t = toks[i]
            if not (t.kind == "ident" and t.text == "for"): continue
            prev = toks[sigidx[n-1]] if n > 0 else None
            if prev is None or not (prev.kind == "punct" and prev.text in (";", "{", "}")): continue
            j = n + 1; kin = None
            while j < len(sigidx):
                tt = toks[sigidx[j]]
                if tt.kind == "punct" and tt.text in ("(", "["):
                    j = pos[match_forward(toks, sigidx[j])] + 1; continue
                if tt.kind == "ident" and tt.text == "in" and kin is None: kin = j
                if tt.kind == "punct" and tt.text == "{": break
                j += 1
            if kin is None or j >= len(sigidx): continue
            b = toks[sigidx[j]]; bclose = match_forward(toks, sigidx[j])
            pat = text[t.e:toks[sigidx[kin]].s].strip()
            expr = text[toks[sigidx[kin]].e:b.s].strip()
            m = re.match(r"^(.*)\.\s*chain\s*\(\s*\[\s*(&?\s*[A-Za-z_][A-Za-z0-9_:]*)\s*\]\s*\)$", expr, re.S)
            if not m: continue
            body_toks = toks[sigidx[j] + 1:bclose]
            if any((x.kind == "ident" and x.text in ("break", "continue")) or x.kind == "life" for x in body_toks): continue
            body = text[b.e:toks[bclose].s]
            new = "{\nfor %s in %s {%s}\n;\n{\nlet %s = %s;%s}\n}" % (pat, m.group(1).strip(), body, pat, m.group(2), body)
            text = text[:t.s] + new + text[toks[bclose].e:]
            log.add("R13"); done = True
            break
        if not done: break
    return text

def rewrite_fn(item, in_trait_impl, log):
    """Apply the mechanical rewrites to one fn item; returns list of lines."""
    text = r13_chain_tail(item.text, log)
    toks = lex(text)
    edits = []  # (start, end, replacement)

    # locate pieces of the signature
    body_open = item.body_open - item.s
    kfn = next(i for i, t in enumerate(toks) if t.kind == "ident" and t.text == "fn")
    kbody = next(i for i, t in enumerate(toks) if t.s == body_open)

    # R1 visibility
    head = text[:toks[kfn].s]
    new_head = strip_vis(head)
    if not in_trait_impl:
        new_head = "pub " + new_head
    if new_head != head:
        edits.append((0, toks[kfn].s, new_head)); log.add("R1")

    # R3 name the result
    depth = 0
    karrow = None
    j = kfn
    while j < kbody:
        t = toks[j]
        if t.kind == "punct" and t.text in ("(", "["):
            j = match_forward(toks, j) + 1; continue
        if t.kind == "punct" and t.text == "-" and toks[j+1].kind == "punct" and toks[j+1].text == ">":
            karrow = j; break
        j += 1
    if karrow is not None:
        # return type runs to `where` at depth 0 or to the body
        j = karrow + 2
        kend = kbody
        while j < kbody:
            t = toks[j]
            if t.kind == "punct" and t.text in ("(", "["):
                j = match_forward(toks, j) + 1; continue
            if t.kind == "ident" and t.text == "where":
                kend = j; break
            j += 1
        ts, te = toks[karrow + 2].s, toks[kend].s
        rtype = text[ts:te].strip()
        if not rtype.startswith("(ret__"):
            edits.append((ts, te, " (ret__: %s)\n" % rtype)); log.add("R3")
    # R10: `mut self` receiver (unsupported by Verus) -> `self` + `let mut self__ = self;`, body uses self__
    mut_self = False
    for j in range(kfn, kbody):
        if toks[j].kind == "ident" and toks[j].text == "mut":
            pv = j - 1
            while pv > kfn and toks[pv].kind in ("ws", "lcomment", "bcomment", "life"): pv -= 1
            if toks[pv].kind == "punct" and toks[pv].text == "&":
                break   # `&mut self`: not a by-value `mut self`
            nx = j + 1
            while toks[nx].kind == "ws": nx += 1
            if toks[nx].kind == "ident" and toks[nx].text == "self":
                edits.append((toks[j].s, toks[nx].s, ""))
                mut_self = True
            break
        if toks[j].kind == "punct" and toks[j].text == ")":
            break
    # W1: body brace on its own line
    edits.append((toks[kbody].s, toks[kbody].s, "\n"))
    if mut_self:
        log.add("R10")
        edits.append((toks[kbody].e, toks[kbody].e, "\nlet mut self__ = self;"))
        kend0 = match_forward(toks, kbody)
        for j in range(kbody + 1, kend0):
            if toks[j].kind == "ident" and toks[j].text == "self":
                edits.append((toks[j].s, toks[j].e, "self__"))

    # walk the body: loops (W1) and destructuring assignments (R2), attributes (R7)
    kend_body = match_forward(toks, kbody)
    sigidx = [i for i in range(kbody, kend_body + 1) if toks[i].kind not in ("ws", "lcomment", "bcomment")]
    pos = {i: n for n, i in enumerate(sigidx)}
    tmpn = [0]
    for n, i in enumerate(sigidx):
        t = toks[i]
        if t.kind == "ident" and t.text in ("while", "loop", "for"):
            # must be at statement/expression start: previous significant token is one of ; { } = or label ':'
            prev = toks[sigidx[n-1]] if n > 0 else None
            if prev is not None and not (prev.kind == "punct" and prev.text in (";", "{", "}", "=", ":", ")")):
                continue
            if t.text == "for" and prev is not None and prev.text == ")":
                continue
            # find the body '{' : first '{' at paren depth 0
            j = n + 1
            while j < len(sigidx):
                tt = toks[sigidx[j]]
                if tt.kind == "punct" and tt.text in ("(", "["):
                    j = pos[match_forward(toks, sigidx[j])] + 1; continue
                if tt.kind == "punct" and tt.text == "{": break
                j += 1
            b = toks[sigidx[j]]
            edits.append((b.s, b.s, "\n"))
            if t.text == "for":
                # R12: `for PAT in A..=B` / `for PAT in (A..=B).rev()` (vstd has no iteration model for RangeInclusive)
                # -> equivalent `while` loop over an explicit counter; only when the body has no `continue`
                kin = None
                jj = n + 1
                while jj < j:
                    tt = toks[sigidx[jj]]
                    if tt.kind == "punct" and tt.text in ("(", "["):
                        jj = pos[match_forward(toks, sigidx[jj])] + 1; continue
                    if tt.kind == "ident" and tt.text == "in": kin = jj; break
                    jj += 1
                if kin is not None:
                    pat = text[t.e:toks[sigidx[kin]].s].strip()
                    expr = text[toks[sigidx[kin]].e:b.s].strip()
                    bclose = match_forward(toks, sigidx[j])
                    body_has_continue = any(toks[q].kind == "ident" and toks[q].text == "continue" for q in range(sigidx[j], bclose))
                    md = re.match(r"^\(\s*(.+?)\s*\.\.=\s*(.+?)\s*\)\s*\.\s*rev\s*\(\s*\)$", expr, re.S)
                    ma = None if md else re.match(r"^([^()]+?|\(.*\)|.+?)\s*\.\.=\s*(.+)$", expr, re.S)
                    if ma and re.search(r"\.\s*(rev|step_by|map|zip|filter|enumerate)\s*\(", expr): ma = None
                    if (md or ma) and not body_has_continue:
                        k12 = tmpn[0]; tmpn[0] += 1
                        if md:
                            lo, hi = md.group(1), md.group(2)
                            head = "{ let lo__%d = %s; let mut it__%d = %s; let mut more__%d = lo__%d <= it__%d;\nwhile more__%d" % (k12, lo, k12, hi, k12, k12, k12, k12)
                            step = "\nif it__%d == lo__%d { more__%d = false; } else { it__%d -= 1; }\n" % (k12, k12, k12, k12)
                        else:
                            lo, hi = ma.group(1), ma.group(2)
                            head = "{ let hi__%d = %s; let mut it__%d = %s; let mut more__%d = it__%d <= hi__%d;\nwhile more__%d" % (k12, hi, k12, lo, k12, k12, k12, k12)
                            step = "\nif it__%d == hi__%d { more__%d = false; } else { it__%d += 1; }\n" % (k12, k12, k12, k12)
                        edits.append((t.s, b.s, head))
                        edits.append((b.e, b.e, "\nlet %s = it__%d;" % (pat, k12)))
                        edits.append((toks[bclose].s, toks[bclose].s, step))
                        edits.append((toks[bclose].e, toks[bclose].e, " }"))
                        log.add("R12")
        if t.kind == "punct" and t.text == "(":
            prev = toks[sigidx[n-1]] if n > 0 else None
            if prev is not None and prev.kind == "punct" and prev.text in (";", "{", "}"):
                close = match_forward(toks, i)
                nn = pos[close] + 1
                nx1 = toks[sigidx[nn]] if nn < len(sigidx) else None
                nx2 = toks[sigidx[nn+1]] if nn + 1 < len(sigidx) else None
                is_assign = nx1 is not None and nx1.kind == "punct" and nx1.text == "=" and not (
                    nx2 is not None and nx2.kind == "punct" and nx2.text in ("=", ">") and nx2.s == nx1.e)
                if is_assign:
                    # find end of statement ';' at depth 0
                    j = nn + 1
                    while j < len(sigidx):
                        tt = toks[sigidx[j]]
                        if tt.kind == "punct" and tt.text in rustlex.OPEN:
                            j = pos[match_forward(toks, sigidx[j])] + 1; continue
                        if tt.kind == "punct" and tt.text == ";": break
                        j += 1
                    semi = toks[sigidx[j]]
                    lhs = text[toks[i].e:toks[close].s]
                    rhs = text[toks[sigidx[nn]].e:semi.s].strip()
                    parts = [p.strip() for p in split_top(lhs)]
                    names = []
                    assigns = []
                    for p in parts:
                        if p == "_":
                            names.append("_")
                        else:
                            nm = "__t%d" % tmpn[0]; tmpn[0] += 1
                            names.append(nm); assigns.append("%s = %s;" % (p, nm))
                    repl = "let (%s) = %s; %s" % (", ".join(names), re.sub(r"\s+", " ", rhs), " ".join(assigns))
                    edits.append((t.s, semi.e, repl)); log.add("R2")
        if t.kind == "punct" and t.text == "|":
            # R11/W2: closure literal: put the body braces on their own lines (brace-wrap a bare-expression body) so that a
            # closure contract (`-> (r: T) requires .. ensures ..`) can be attached between `|params|` and `{`
            prev = toks[sigidx[n-1]] if n > 0 else None
            starts_closure = prev is not None and ((prev.kind == "punct" and prev.text in ("(", ",", "=")) or (prev.kind == "ident" and prev.text in ("move", "return")))
            if starts_closure and not getattr(t, "_closure_done", False):
                # closing '|' of the parameter list
                j = n + 1
                while j < len(sigidx) and not (toks[sigidx[j]].kind == "punct" and toks[sigidx[j]].text == "|"):
                    if toks[sigidx[j]].kind == "punct" and toks[sigidx[j]].text in rustlex.OPEN:
                        j = pos[match_forward(toks, sigidx[j])]
                    j += 1
                if j < len(sigidx) - 1:
                    close_bar = toks[sigidx[j]]
                    try: close_bar._closure_done = True
                    except Exception: pass
                    nxt = toks[sigidx[j+1]]
                    if nxt.kind == "punct" and nxt.text == "{":
                        edits.append((nxt.s, nxt.s, "\n")); log.add("R11")
                    elif not (nxt.kind == "punct" and nxt.text == "-"):
                        # bare expression body: ends before the ')' / ',' / ';' that closes the enclosing context
                        k = j + 1
                        while k < len(sigidx):
                            tk = toks[sigidx[k]]
                            if tk.kind == "punct" and tk.text in rustlex.OPEN:
                                k = pos[match_forward(toks, sigidx[k])] + 1; continue
                            if tk.kind == "punct" and tk.text in (")", ",", ";", "]", "}"): break
                            k += 1
                        last = toks[sigidx[k-1]]
                        edits.append((nxt.s, nxt.s, "\n{\n")); edits.append((last.e, last.e, "\n}")); log.add("R11")
        if t.kind == "punct" and t.text == "#":
            # statement attribute inside a body, e.g. #[allow(..)] / #[inline] : drop (R7)
            nx = toks[sigidx[n+1]]
            if nx.kind == "punct" and nx.text == "[":
                close = match_forward(toks, sigidx[n+1])
                attr = text[t.s:toks[close].e]
                if re.match(r"#\[(allow|inline|must_use|doc|rustfmt|expect)", attr):
                    edits.append((t.s, toks[close].e, "")); log.add("R7")
    # apply edits right to left
    edits.sort(key=lambda e: (e[0], e[1]))
    out = text
    for s, e, r in reversed(edits):
        out = out[:s] + r + out[e:]
    lines = [l.rstrip() for l in out.split("\n")]
    lines = [l for l in lines if l.strip() != ""]
    return lines

def rewrite_struct(item, log):
    text = item.text
    derives = []
    for a in item.attrs:
        m = re.match(r"#\[derive\((.*)\)\]", a, re.S)
        if m:
            derives += [d.strip() for d in m.group(1).split(",")]
    keep = [d for d in derives if d in ("Copy", "Clone")]
    text = strip_vis(text)
    # fields -> pub
    m = re.search(r"[({]", text)
    if m is None:
        # unit struct: `struct Name<..>;`
        out = ("#[derive(%s)]\n" % ", ".join(keep) if keep else "") + "pub " + text
        log.add("R1"); log.add("R7")
        return out.split("\n")
    head, rest = text[:m.start()], text[m.start():]
    if rest[0] == "(":
        close = rest.rfind(")")
        fields = split_top(rest[1:close])
        fields = ["pub " + strip_vis(f.strip()) for f in fields if f.strip()]
        rest = "(" + ", ".join(fields) + ")" + rest[close+1:]
    else:
        close = rest.rfind("}")
        inner = rest[1:close]
        # drop doc comments / attributes inside
        inner = re.sub(r"///[^\n]*\n", "\n", inner)
        inner = re.sub(r"//[^\n]*\n", "\n", inner)
        inner = re.sub(r"#\[[^\]]*\]", "", inner)
        fields = split_top(inner)
        fields = ["    pub " + strip_vis(f.strip()) + "," for f in fields if f.strip()]
        rest = "{\n" + "\n".join(fields) + "\n}"
    log.add("R1"); log.add("R7")
    out = ""
    if keep:
        out += "#[derive(%s)]\n" % ", ".join(keep)
    out += "pub " + head + rest
    return out.split("\n")

def rewrite_const(item, log):
    """R4: `const NAME: T = expr;` -> `pub const fn NAME() -> (ret__: T) { expr }`"""
    text = strip_vis(item.text)
    m = re.match(r"const\s+(\w+)\s*:\s*(.*?)\s*=\s*(.*);\s*$", text, re.S)
    if not m:
        raise GenError("unsupported const form: " + text[:80])
    name, ty, expr = m.group(1), m.group(2), m.group(3)
    log.add("R4"); log.add("R1")
    return ["pub const fn %s() -> (ret__: %s)" % (name, norm_line(ty)), "{"] + \
           ["    " + l.rstrip() for l in expr.split("\n")] + ["}"]

def apply_subst(lines, substs, log):
    if not substs: return lines
    out = []
    for l in lines:
        for (a, b) in substs:
            l2 = re.sub(a, b, l)
            if l2 != l:
                l = l2; log.add("R4u")
        out.append(l)
    return out


# ------------------------------------------------------------------ R5: macro arm instantiation

def macro_arms(item):
    """split a macro_rules! item into [(matcher_text, transcriber_text)]"""
    text = item.text
    toks = lex(text)
    # outer delimiter
    k = next(i for i, t in enumerate(toks) if t.kind == "punct" and t.text in rustlex.OPEN and i > 2)
    end = match_forward(toks, k)
    arms = []
    i = k + 1
    while i < end:
        t = toks[i]
        if t.kind == "punct" and t.text in rustlex.OPEN:
            mend = match_forward(toks, i)
            matcher = text[toks[i].e:toks[mend].s]
            j = mend + 1
            while not (toks[j].kind == "punct" and toks[j].text in rustlex.OPEN): j += 1
            tend = match_forward(toks, j)
            arms.append((matcher, text[toks[j].e:toks[tend].s]))
            i = tend + 1
        else:
            i += 1
    return arms

def instantiate_macro_fn(file, macro, arm_idx, bindings, fn_name, invocation):
    src, items = items_of(file)
    cands = [it for it in items if it.kind == "macro" and it.name == macro]
    if len(cands) != 1:
        raise GenError("anchor lost: macro %s in %s (%d matches)" % (macro, file, len(cands)))
    arms = macro_arms(cands[0])
    if arm_idx >= len(arms):
        raise GenError("anchor lost: macro %s has no arm %d" % (macro, arm_idx))
    matcher, body = arms[arm_idx]
    metas = re.findall(r"\$(\w+)\s*:", matcher)
    for k in bindings:
        if k not in metas:
            raise GenError("anchor lost: macro %s arm %d has no metavariable $%s (has %s)" % (macro, arm_idx, k, metas))
    for k in metas:
        if k not in bindings:
            raise GenError("macro %s arm %d: metavariable $%s unbound" % (macro, arm_idx, k))
    if invocation and norm(invocation) not in norm(src):
        raise GenError("anchor lost: invocation `%s` not found in %s" % (invocation, file))
    inst = body
    for k, v in bindings.items():
        inst = re.sub(r"\$%s\b" % re.escape(k), v, inst)
    sub_items = rustlex.scan_items(inst)
    fns = [it for it in sub_items if it.kind == "fn" and it.name == fn_name]
    if len(fns) != 1:
        raise GenError("anchor lost: fn %s in instantiated arm %d of %s" % (fn_name, arm_idx, macro))
    hdr = fns[0].impl_header
    # recover the header text with normal spacing from the instantiated text
    impls = [it for it in sub_items if it.kind == "impl" and it.name == hdr]
    hdr_text = re.sub(r"\s+", " ", inst[impls[0].s:impls[0].body_open].strip()) if impls else None
    return fns[0], hdr_text, hashlib.sha256((matcher + "=>" + body).encode()).hexdigest()

def instantiate_macro_block(file, macro, arm_idx, bindings, sig, invocations):
    """R5b: the transcriber of arm k is a *block expression* `{ stmts; tail }` (the macro is used in expression position
    inside other functions). The block, with the metavariables substituted textually, becomes the body of a function whose
    signature `sig` is given by the unit (the signature has no counterpart in /repo; it only names the places the macro
    is applied to). Returns a fn Item located in the synthesized text `sig + block`."""
    src, items = items_of(file)
    cands = [it for it in items if it.kind == "macro" and it.name == macro]
    if len(cands) != 1:
        raise GenError("anchor lost: macro %s in %s (%d matches)" % (macro, file, len(cands)))
    arms = macro_arms(cands[0])
    if arm_idx >= len(arms):
        raise GenError("anchor lost: macro %s has no arm %d" % (macro, arm_idx))
    matcher, body = arms[arm_idx]
    metas = re.findall(r"\$(\w+)\s*:", matcher)
    for k in bindings:
        if k not in metas:
            raise GenError("anchor lost: macro %s arm %d has no metavariable $%s (has %s)" % (macro, arm_idx, k, metas))
    for k in metas:
        if k not in bindings:
            raise GenError("macro %s arm %d: metavariable $%s unbound" % (macro, arm_idx, k))
    for inv in invocations:
        if norm(inv) not in norm(src):
            raise GenError("anchor lost: invocation `%s` not found in %s" % (inv, file))
    inst = body.strip()
    if not (inst.startswith("{") and inst.endswith("}")):
        raise GenError("macro %s arm %d: transcriber is not a single block expression" % (macro, arm_idx))
    for k, v in bindings.items():
        inst = re.sub(r"\$%s\b" % re.escape(k), v, inst)
    if "$" in inst:
        raise GenError("macro %s arm %d: unsubstituted metavariable / repetition left in the block" % (macro, arm_idx))
    text = sig.strip() + " " + inst + "\n"
    sub_items = rustlex.scan_items(text)
    fns = [it for it in sub_items if it.kind == "fn"]
    if len(fns) != 1:
        raise GenError("macroblock: signature + block of %s arm %d does not scan as one fn" % (macro, arm_idx))
    return fns[0], hashlib.sha256((matcher + "=>" + body).encode()).hexdigest(), cands[0]

# ------------------------------------------------------------------ merge

def parse_region(lines):
    """split mirror region into context lines and annotation blocks keyed by context position"""
    ctx, ann = [], {}
    inblock = False
    cur = None
    for l in lines:
        s = l.strip()
        if s == "//@+":
            inblock = True; cur = []
            continue
        if s == "//@-":
            inblock = False
            ann.setdefault(len(ctx), []).append(cur); cur = None
            continue
        if inblock:
            cur.append(l)
        else:
            if s != "":
                ctx.append(l)
    if inblock:
        raise GenError("unterminated //@+ block")
    return ctx, ann

def merge(new_lines, ctx, ann):
    a = [norm_line(c) for c in ctx]
    b = [norm_line(n) for n in new_lines]
    sm = difflib.SequenceMatcher(None, a, b, autojunk=False)
    posmap = {}
    for tag, i1, i2, j1, j2 in sm.get_opcodes():
        if tag == "equal":
            for k in range(i2 - i1 + 1):
                posmap.setdefault(i1 + k, j1 + k)
        else:
            posmap.setdefault(i1, j1)
            for p in range(i1 + 1, i2):
                posmap.setdefault(p, min(j1 + (p - i1), j2))
            posmap[i2] = j2
    posmap.setdefault(len(a), len(b))
    posmap.setdefault(0, 0)
    inserts = {}
    for p, blocks in ann.items():
        q = posmap.get(p, len(b))
        inserts.setdefault(q, []).extend(blocks)
    out = []
    for j in range(len(new_lines) + 1):
        for blk in inserts.get(j, []):
            out.append("//@+")
            out.extend(blk)
            out.append("//@-")
        if j < len(new_lines):
            out.append(new_lines[j])
    exact = (a == b)
    return out, exact

# ------------------------------------------------------------------ driver

def process_unit(path, meta, update_mirror=False):
    src_lines = open(path).read().split("\n")
    out = []
    mirror_out = []
    i = 0
    substs = []
    unit = os.path.basename(path)[:-3]
    while i < len(src_lines):
        l = src_lines[i]
        s = l.strip()
        if s.startswith("//@@ subst-clear"):
            substs = []
            out.append(l); mirror_out.append(l); i += 1; continue
        if s.startswith("//@@ subst "):
            a, b = s[len("//@@ subst "):].split("=>")
            substs.append((a.strip(), b.strip()))
            out.append(l); mirror_out.append(l); i += 1; continue
        m = re.match(r"//@@ (fn|item|const|rawconst|macrofn|macroblock)\s+(.*)$", s)
        if not m:
            out.append(l); mirror_out.append(l); i += 1; continue
        kind = m.group(1)
        fields = [f.strip() for f in m.group(2).split("|")]
        j = i + 1
        while src_lines[j].strip() != "//@@ end":
            j += 1
            if j >= len(src_lines): raise GenError("%s: missing //@@ end after line %d" % (path, i + 1))
        region = src_lines[i+1:j]
        log = set()
        if kind == "macroblock":
            # //@@ macroblock <file> | <macro> | arm <k> | a=x,b=y | <fn name> | body|stub | props .. | sig <fn signature> | invocation <text> [| invocation <text>]
            file, macro, armf, bindf, name, mode = fields[0], fields[1], fields[2], fields[3], fields[4], fields[5]
            arm_idx = int(armf.split()[1])
            bindings = dict(kv.strip().split("=") for kv in bindf.split(",") if kv.strip())
            props, invocations, sig = [], [], None
            for f in fields[6:]:
                if f.startswith("props"): props = f.split()[1:]
                if f.startswith("invocation"): invocations.append(f[len("invocation"):].strip())
                if f.startswith("sig "): sig = f[len("sig "):].strip()
            if sig is None: raise GenError("macroblock %s: no `sig` field" % name)
            item, arm_sha, mitem = instantiate_macro_block(file, macro, arm_idx, bindings, sig, invocations)
            if item.name != name: raise GenError("macroblock: signature names fn %s, region says %s" % (item.name, name))
            log.add("R5b")
            new_lines = rewrite_fn(item, False, log)
            new_lines = apply_subst(new_lines, substs, log)
            ctx, ann = parse_region(region)
            mfid = "%s|%s!arm%d{%s}|%s" % (file, macro, arm_idx, bindf.replace(" ", ""), name)
            if mode == "stub" or mfid in STUBIFY:
                kb = next(k for k, x in enumerate(new_lines) if x.strip() == "{")
                new_lines = ["#[verifier::external_body]"] + new_lines[:kb] + ["{", "    unimplemented!()", "}"]
                log.add("STUB")
            merged, exact = merge(new_lines, ctx, ann)
            if mfid in STUBIFY and mode == "body":
                merged = keep_contract_only(merged); log.add("FORCED-STUB")
            emitted = merged
            if mfid in STRIP and mode == "body":
                emitted = strip_body_annotations(merged); log.add("HINTS-DROPPED")
            if mfid in CANARY and mode == "body":
                emitted = add_canary(merged)
            start_line = len(out) + 2
            out.append(l); out.extend(emitted); out.append("//@@ end")
            mirror_out.append(l); mirror_out.extend(merged); mirror_out.append("//@@ end")
            meta["functions"].append({
                "id": mfid, "unit": unit, "mode": mode, "props": props,
                "file": file, "src_line": mitem.src[:mitem.s].count("\n") + 1,
                "source_sha256": arm_sha, "rewrites": sorted(log), "gen_lines": [start_line, len(out)],
                "mirror_in_sync": exact, "contract": contract_of(merged), "synthetic_signature": sig,
            })
        elif kind == "macrofn":
            # //@@ macrofn <file> | <macro> | arm <k> | a=1,b=2 | <fn> | body|stub | props .. | invocation <text>
            file, macro, armf, bindf, name, mode = fields[0], fields[1], fields[2], fields[3], fields[4], fields[5]
            arm_idx = int(armf.split()[1])
            bindings = dict(kv.strip().split("=") for kv in bindf.split(",") if kv.strip())
            props, invocation = [], None
            for f in fields[6:]:
                if f.startswith("props"): props = f.split()[1:]
                if f.startswith("invocation"): invocation = f[len("invocation"):].strip()
            item, header, arm_sha = instantiate_macro_fn(file, macro, arm_idx, bindings, name, invocation)
            log.add("R5")
            new_lines = rewrite_fn(item, False, log)
            new_lines = apply_subst(new_lines, substs, log)
            ctx, ann = parse_region(region)
            wrap = header is not None
            if wrap:
                new_lines = [header + " {"] + new_lines + ["}"]
            mfid0 = "%s|%s!arm%d(%s)|%s" % (file, macro, arm_idx, bindf.replace(" ", ""), name)
            if mode == "stub" or mfid0 in STUBIFY:
                kb = next(k for k, x in enumerate(new_lines) if x.strip() == "{")
                new_lines = new_lines[:kb] + ["{", "    unimplemented!()", "}"] + (["}"] if wrap else [])
                new_lines.insert(1 if wrap else 0, "#[verifier::external_body]")
                log.add("STUB")
            merged, exact = merge(new_lines, ctx, ann)
            if mfid0 in STUBIFY and mode == "body":
                merged = keep_contract_only(merged); log.add("FORCED-STUB")
            mfid = "%s|%s!arm%d(%s)|%s" % (file, macro, arm_idx, bindf.replace(" ", ""), name)
            emitted = merged
            if mfid in STRIP and mode == "body":
                emitted = strip_body_annotations(merged); log.add("HINTS-DROPPED")
            if mfid in CANARY and mode == "body":
                emitted = add_canary(merged)
            start_line = len(out) + 2
            out.append(l); out.extend(emitted); out.append("//@@ end")
            mirror_out.append(l); mirror_out.extend(merged); mirror_out.append("//@@ end")
            meta["functions"].append({
                "id": mfid, "unit": unit, "mode": mode, "props": props,
                "file": file, "src_line": item.src[:item.s].count("\n") + 1,
                "source_sha256": arm_sha, "rewrites": sorted(log), "gen_lines": [start_line, len(out)],
                "mirror_in_sync": exact, "contract": contract_of(merged),
            })
        elif kind == "fn":
            file, header, name, mode = fields[0], fields[1], fields[2], fields[3]
            props = []
            nth = None
            for f in fields[4:]:
                if f.startswith("props"): props = f.split()[1:]
                if f.startswith("nth"): nth = int(f.split()[1])
            item = find_item(file, "fn", header, name, nth)
            in_trait_impl = header not in ("-", "") and (re.search(r"\bfor\b", header) is not None or header.strip().startswith("trait "))
            new_lines = rewrite_fn(item, in_trait_impl, log)
            new_lines = apply_subst(new_lines, substs, log)
            ctx, ann = parse_region(region)
            wrap = header not in ("-", "")
            if wrap:
                new_lines = [header.strip() + " {"] + new_lines + ["}"]
            fid0 = "%s|%s|%s" % (file, norm_header(header) if wrap else "-", name)
            if mode == "stub" or fid0 in STUBIFY:
                # keep signature + contract only
                kb = next(k for k, x in enumerate(new_lines) if x.strip() == "{")
                sig_lines = new_lines[:kb]
                new_lines = sig_lines + ["{", "    unimplemented!()", "}"] + (["}"] if wrap else [])
                sig_idx = 1 if wrap else 0
                new_lines.insert(sig_idx, "#[verifier::external_body]")
                log.add("STUB")
            merged, exact = merge(new_lines, ctx, ann)
            fid = "%s|%s|%s" % (file, norm_header(header) if wrap else "-", name)
            if fid in STUBIFY and mode == "body":
                merged = keep_contract_only(merged); log.add("FORCED-STUB")
            emitted = add_canary(merged) if (fid in CANARY and mode == "body") else merged
            if fid in STRIP and mode == "body":
                emitted = strip_body_annotations(merged); log.add("HINTS-DROPPED")
            start_line = len(out) + 2
            out.append(l); out.extend(emitted); out.append("//@@ end")
            mirror_out.append(l); mirror_out.extend(merged); mirror_out.append("//@@ end")
            meta["functions"].append({
                "id": fid, "unit": unit, "mode": mode, "props": props,
                "file": file, "src_line": item.src[:item.s].count("\n") + 1,
                "source_sha256": hashlib.sha256(item.text.encode()).hexdigest(),
                "rewrites": sorted(log), "gen_lines": [start_line, len(out)],
                "mirror_in_sync": exact,
                "contract": contract_of(merged),
            })
        elif kind == "item":
            file = fields[0]
            k2, name = fields[1].split()
            item = find_item(file, k2, None, name)
            if k2 == "struct":
                new_lines = rewrite_struct(item, log)
            else:
                new_lines = ("pub " + strip_vis(item.text)).split("\n")   # one element per line: later line numbers (gen_lines) depend on it
            ctx, ann = parse_region(region)
            merged, exact = merge(new_lines, ctx, ann)
            out.append(l); out.extend(merged); out.append("//@@ end")
            mirror_out.append(l); mirror_out.extend(merged); mirror_out.append("//@@ end")
            meta["items"].append({"id": "%s|%s" % (file, name), "unit": unit,
                                  "source_sha256": hashlib.sha256(item.text.encode()).hexdigest(),
                                  "rewrites": sorted(log)})
        elif kind in ("const", "rawconst"):
            file, header, name = fields[0], fields[1], fields[2]
            item = find_item(file, "const", header, name)
            if kind == "rawconst":
                new_lines = ["pub " + norm_line(strip_vis(item.text))]; log.add("R1")
            else:
                new_lines = rewrite_const(item, log)
            new_lines = apply_subst(new_lines, substs, log)
            wrap = header not in ("-", "")
            if wrap:
                new_lines = [header.strip() + " {"] + new_lines + ["}"]
            ctx, ann = parse_region(region)
            merged, exact = merge(new_lines, ctx, ann)
            start_line = len(out) + 2
            cfid = "%s|%s|%s" % (file, norm_header(header) if wrap else "-", name)
            if kind == "rawconst": log.add("RAWCONST")
            emitted = add_canary(merged) if (cfid in CANARY and kind == "const") else merged
            out.append(l); out.extend(emitted); out.append("//@@ end")
            mirror_out.append(l); mirror_out.extend(merged); mirror_out.append("//@@ end")
            meta["functions"].append({
                "id": "%s|%s|%s" % (file, norm_header(header) if wrap else "-", name), "unit": unit,
                "mode": "body", "props": [], "file": file,
                "src_line": item.src[:item.s].count("\n") + 1,
                "source_sha256": hashlib.sha256(item.text.encode()).hexdigest(),
                "rewrites": sorted(log), "gen_lines": [start_line, len(out)], "mirror_in_sync": exact,
                "contract": contract_of(merged),
            })
        i = j + 1
    if update_mirror:
        new = "\n".join(mirror_out)
        if new != "\n".join(src_lines):
            open(path, "w").write(new)
    return out

CANARY = set()
STUBIFY = set()  # function ids emitted as contract-only stubs although their mode is `body`: fallback when the changed text no longer compiles in the verification crate
STRIP = set()   # function ids whose body annotations are dropped (contract kept): fallback when hints no longer compile

def strip_body_annotations(merged):
    out = []
    seen_body = False
    skip = False
    for l in merged:
        t = l.strip()
        if not seen_body:
            out.append(l)
            if t == '{': seen_body = True
            continue
        if t == '//@+': skip = True; continue
        if t == '//@-': skip = False; continue
        if skip:
            # keep loop `decreases`/`invariant` headers? no: hints are dropped wholesale; loops then need no decreases only if absent -> keep decreases lines
            if t.startswith('decreases'):
                out += ['//@+', l, '//@-']
            continue
        out.append(l)
    return out

def add_canary(merged):
    """vacuity canary: `assert(false)` as the first statement of the body (checks that the entry of the
    function is reachable under its precondition; invisible to callers, unlike `ensures false`)"""
    out = []
    done = False
    k = 0
    while k < len(merged):
        l = merged[k]
        out.append(l)
        if l.strip() == "{" and not done:
            # `hide(..)` / `reveal(..)` headers must stay first in the body: place the canary after such an annotation block
            j = k + 1
            if j < len(merged) and merged[j].strip() == "//@+":
                e = j
                while e < len(merged) and merged[e].strip() != "//@-": e += 1
                blk = merged[j:e + 1]
                if any(re.match(r"\s*(hide|reveal)\(", x) for x in blk):
                    out += blk; k = e
            out += ["//@+", "    assert(false); // vacuity canary", "//@-"]
            done = True
        k += 1
    return out

def keep_contract_only(merged):
    """for a function forced into stub mode: keep the annotation blocks before the body brace (the contract), drop the rest"""
    out, seen_body, skip = [], False, False
    for l in merged:
        t = l.strip()
        if not seen_body:
            out.append(l)
            if t == "{": seen_body = True
            continue
        if t == "//@+": skip = True; continue
        if t == "//@-": skip = False; continue
        if not skip: out.append(l)
    return out

def contract_of(merged):
    """text of the first annotation block that sits between the signature and the body brace"""
    res = []
    inblk = False
    for l in merged:
        s = l.strip()
        if s == "{": break
        if s == "//@+": inblk = True; continue
        if s == "//@-": inblk = False; continue
        if inblk: res.append(norm_line(l))
    return " ".join(res)

def generate(units_dir, unit_names, outdir, update_mirror=False):
    os.makedirs(outdir, exist_ok=True)
    meta = {"functions": [], "items": [], "units": unit_names}
    for u in unit_names:
        p = os.path.join(units_dir, u + ".rs")
        lines = process_unit(p, meta, update_mirror)
        open(os.path.join(outdir, u + ".rs"), "w").write("\n".join(lines))
    root = ["#![feature(panic_internals)]", "#![feature(sized_hierarchy)]", "#![feature(allocator_api)]", "#![allow(internal_features)]", "#![allow(unused_imports, unused_variables, unused_mut, unused_parens, unused_assignments, dead_code, non_snake_case, non_upper_case_globals, unused_braces, unreachable_code)]",
            "use vstd::prelude::*;"]
    for u in unit_names:
        root.append("pub mod %s;" % u)
    root.append("fn main() {}")
    open(os.path.join(outdir, "root.rs"), "w").write("\n".join(root) + "\n")
    json.dump(meta, open(os.path.join(outdir, "meta.json"), "w"), indent=1)
    return meta

if __name__ == "__main__":
    import argparse
    ap = argparse.ArgumentParser()
    ap.add_argument("--units-dir", default=os.path.join(os.path.dirname(os.path.abspath(__file__)), "..", "units"))
    ap.add_argument("--out", required=True)
    ap.add_argument("--update-mirror", action="store_true")
    ap.add_argument("units", nargs="+")
    a = ap.parse_args()
    try:
        generate(a.units_dir, a.units, a.out, a.update_mirror)
    except GenError as e:
        print("GENERATOR-ERROR: %s" % e); sys.exit(2)
