#!/usr/bin/env python3
"""list fn items of a repo file:  lsfn.py src/const_choice.rs [--regions props...]"""
import sys, os
sys.path.insert(0, os.path.dirname(os.path.abspath(__file__)))
import rustlex, gen
path = sys.argv[1]
src, items = gen.items_of(path)
for it in items:
    if it.kind in ("fn", "const") and not gen.is_cfg32(it):
        if "--regions" in sys.argv:
            props = " ".join(sys.argv[sys.argv.index("--regions")+1:])
            if it.kind == "fn":
                print("//@@ fn %s | %s | %s | body | props %s\n//@@ end" % (path, it.impl_header or "-", it.name, props))
        else:
            print(it.kind, "|", it.impl_header or "-", "|", it.name, "| line", src[:it.s].count("\n")+1)
