#!/bin/bash
# run once after a fresh restore, offline: pre-build what the checks need (everything is rebuilt from /repo's tree on each run anyway)
set -e
cd /verif
mkdir -p .work evidence replays
cd kani
cp /repo/Cargo.lock . 2>/dev/null || true
export CARGO_NET_OFFLINE=true
cargo build --offline --release --bin replay >/dev/null 2>&1 || echo "warning: replay driver pre-build failed (will be retried on demand)"
cargo kani --harness c00_warmup --output-format terse >/dev/null 2>&1 || echo "warning: kani warm-up failed"
echo "setup done"
