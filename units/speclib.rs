// speclib: specification vocabulary and arithmetic lemmas (spec / proof code only), plus the
// data types, which are extracted from /repo (//@@ item ...).
use vstd::prelude::*;
use vstd::arithmetic::power::*;
use vstd::arithmetic::power2::*;
use vstd::arithmetic::div_mod::*;
use vstd::arithmetic::mul::*;
verus! {

// R6: 64-bit configuration (src/limb.rs, cfg(target_pointer_width = "64"))
pub type Word = u64;
pub type WideWord = u128;

//@@ item src/limb.rs | struct Limb
#[derive(Copy, Clone)]
pub struct Limb(pub Word);
//@@ end
//@@ item src/uint.rs | struct Uint
#[derive(Copy, Clone)]
pub struct Uint<const LIMBS: usize> {
    pub limbs: [Limb; LIMBS],
}
//@@ end
//@@ item src/const_choice.rs | struct ConstChoice
#[derive(Copy, Clone)]
pub struct ConstChoice(pub Word);
//@@ end
//@@ item src/non_zero.rs | struct NonZero
#[derive(Clone, Copy)]
pub struct NonZero<T>(pub T);
//@@ end
//@@ item src/odd.rs | struct Odd
#[derive(Clone, Copy)]
pub struct Odd<T>(pub T);
//@@ end
//@@ item src/int.rs | struct Int
#[derive(Copy, Clone)]
pub struct Int<const LIMBS: usize>(pub Uint<LIMBS>);
//@@ end
//@@ rawconst src/limb.rs | impl Limb | ZERO
impl Limb {
pub const ZERO: Self = Limb(0);
}
//@@ end
//@@ rawconst src/limb.rs | impl Limb | ONE
impl Limb {
pub const ONE: Self = Limb(1);
}
//@@ end
//@@ rawconst src/limb.rs | impl Limb | MAX
impl Limb {
pub const MAX: Self = Limb(Word::MAX);
}
//@@ end
//@@ rawconst src/limb.rs | impl Limb | BITS
impl Limb {
pub const BITS: u32 = 64;
}
//@@ end
//@@ rawconst src/limb.rs | impl Limb | BYTES
impl Limb {
pub const BYTES: usize = 8;
}
//@@ end
//@@ rawconst src/limb.rs | impl Limb | HI_BIT
impl Limb {
pub const HI_BIT: u32 = Limb::BITS - 1;
}
//@@ end

// ---- core integer methods without a vstd specification (assumed; cross-checked by Kani, see kani/src/core_specs.rs)
pub assume_specification [u64::overflowing_add] (a: u64, b: u64) -> (r: (u64, bool))
    ensures r.1 == (a as int + b as int >= 0x1_0000_0000_0000_0000),
        r.0 as int == (if a as int + b as int >= 0x1_0000_0000_0000_0000 { a as int + b as int - 0x1_0000_0000_0000_0000 } else { a as int + b as int });
// assert!(cond, "{}", msg) expands to a call of this diverging function: reaching it is a proof obligation (requires false)
pub assume_specification<T: core::fmt::Display> [core::panicking::panic_display::<T>] (x: &T) -> !
    requires false;
pub open spec fn wneg64(x: u64) -> u64 { if x == 0 { 0u64 } else { (0x1_0000_0000_0000_0000 - x as int) as u64 } }
pub open spec fn wneg32(x: u32) -> u32 { if x == 0 { 0u32 } else { (0x1_0000_0000 - x as int) as u32 } }
pub open spec fn wneg128(x: u128) -> u128 { if x == 0 { 0u128 } else { (0x1_0000_0000_0000_0000_0000_0000_0000_0000 - x as int) as u128 } }
pub assume_specification [u64::wrapping_neg] (x: u64) -> (r: u64)
    ensures r == wneg64(x);
pub assume_specification [u32::wrapping_neg] (x: u32) -> (r: u32)
    ensures r == wneg32(x);
pub assume_specification [u128::wrapping_neg] (x: u128) -> (r: u128)
    ensures r == wneg128(x);

pub open spec fn B() -> int { 0x1_0000_0000_0000_0000 }
pub open spec fn bp(n: nat) -> int { pow(B(), n) }
/// 2^n as an int
pub open spec fn p2(n: nat) -> int { pow2(n) as int }
/// value of the first n limbs (little endian)
pub open spec fn val(s: Seq<Limb>, n: nat) -> int
    decreases n
{ if n == 0 { 0 } else { val(s, (n - 1) as nat) + s[n - 1].0 as int * bp((n - 1) as nat) } }
pub open spec fn tv(s: Seq<Limb>, a: nat, b: nat) -> int { val(s, b) - val(s, a) }
/// borrow mask -> 0/1
pub open spec fn bb(l: Limb) -> int { if l.0 == u64::MAX { 1 } else { 0 } }
pub open spec fn min_int(a: int, b: int) -> int { if a < b { a } else { b } }
pub open spec fn max_int(a: int, b: int) -> int { if a < b { b } else { a } }

impl ConstChoice {
    pub open spec fn wf(&self) -> bool { self.0 == 0 || self.0 == u64::MAX }
    pub open spec fn t(&self) -> bool { self.0 == u64::MAX }
}

impl<const LIMBS: usize> Uint<LIMBS> {
    pub open spec fn v(&self) -> int { val(self.limbs@, LIMBS as nat) }
    pub open spec fn w() -> int { bp(LIMBS as nat) }
}

impl<const LIMBS: usize> Int<LIMBS> {
    /// two's complement value
    pub open spec fn iv(&self) -> int {
        if 2 * self.0.v() < bp(LIMBS as nat) { self.0.v() } else { self.0.v() - bp(LIMBS as nat) }
    }
}

// ---- wrapping ops: link the vstd integer-level specs to the bit-vector operators
pub proof fn lemma_wsub_u64(x: u64, y: u64, w: u64)
    requires w as int == (if x as int - y as int >= 0 { x as int - y as int } else { x as int - y as int + 0x1_0000_0000_0000_0000 })
    ensures w == sub(x, y)
{
    let s = sub(x, y);
    assert(x >= y ==> s == (x - y) as u64) by (bit_vector) requires s == sub(x, y);
    assert(x < y ==> s == (0xffff_ffff_ffff_ffffu64 - (y - x) as u64 + 1) as u64) by (bit_vector) requires s == sub(x, y);
}
pub proof fn lemma_wsub_u32(x: u32, y: u32, w: u32)
    requires w as int == (if x as int - y as int >= 0 { x as int - y as int } else { x as int - y as int + 0x1_0000_0000 })
    ensures w == sub(x, y)
{
    let s = sub(x, y);
    assert(x >= y ==> s == (x - y) as u32) by (bit_vector) requires s == sub(x, y);
    assert(x < y ==> s == (0xffff_ffffu32 - (y - x) as u32 + 1) as u32) by (bit_vector) requires s == sub(x, y);
}
pub proof fn lemma_wsub_u128(x: u128, y: u128, w: u128)
    requires w as int == (if x as int - y as int >= 0 { x as int - y as int } else { x as int - y as int + 0x1_0000_0000_0000_0000_0000_0000_0000_0000 })
    ensures w == sub(x, y)
{
    let s = sub(x, y);
    assert(x >= y ==> s == (x - y) as u128) by (bit_vector) requires s == sub(x, y);
    assert(x < y ==> s == (0xffff_ffff_ffff_ffff_ffff_ffff_ffff_ffffu128 - (y - x) as u128 + 1) as u128) by (bit_vector) requires s == sub(x, y);
}
pub proof fn lemma_wneg_u64(x: u64, n: u64)
    requires n as int == (if x == 0 { 0 } else { 0x1_0000_0000_0000_0000 - x as int })
    ensures n == sub(0u64, x)
{ lemma_wsub_u64(0, x, n); }
pub proof fn lemma_wneg_u32(x: u32, n: u32)
    requires n as int == (if x == 0 { 0 } else { 0x1_0000_0000 - x as int })
    ensures n == sub(0u32, x)
{ lemma_wsub_u32(0, x, n); }
pub proof fn lemma_wadd_u64(x: u64, y: u64, w: u64)
    requires w as int == (if x as int + y as int >= 0x1_0000_0000_0000_0000 { x as int + y as int - 0x1_0000_0000_0000_0000 } else { x as int + y as int })
    ensures w == add(x, y)
{
    let s = add(x, y);
    assert((x as u128) + (y as u128) >= 0x1_0000_0000_0000_0000u128 ==> (s as u128) == (x as u128) + (y as u128) - 0x1_0000_0000_0000_0000u128) by (bit_vector) requires s == add(x, y);
    assert((x as u128) + (y as u128) < 0x1_0000_0000_0000_0000u128 ==> (s as u128) == (x as u128) + (y as u128)) by (bit_vector) requires s == add(x, y);
}

pub proof fn lemma_bp_succ(n: nat)
    ensures bp(n + 1) == B() * bp(n), bp(n) > 0, bp(0) == 1
{ reveal(pow); lemma_pow_positive(B(), n); lemma_pow0(B()); }

pub proof fn lemma_bp_add(a: nat, b: nat)
    ensures bp(a + b) == bp(a) * bp(b)
{ lemma_pow_adds(B(), a, b); }

pub proof fn lemma_bp1()
    ensures bp(1) == B(), bp(0) == 1
{ lemma_bp_succ(0); }

pub proof fn lemma_val_ext(s: Seq<Limb>, t: Seq<Limb>, n: nat)
    requires forall|k: int| 0 <= k < n ==> s[k] == t[k],
    ensures val(s, n) == val(t, n),
    decreases n
{ if n > 0 { lemma_val_ext(s, t, (n - 1) as nat); } }

pub proof fn lemma_tv_ext(s: Seq<Limb>, t: Seq<Limb>, a: nat, b: nat)
    requires a <= b, forall|k: int| a <= k < b ==> s[k] == t[k],
    ensures tv(s, a, b) == tv(t, a, b),
    decreases b - a
{ if b > a { lemma_tv_ext(s, t, a, (b - 1) as nat); } }

pub proof fn lemma_tv_bound(s: Seq<Limb>, a: nat, b: nat)
    requires a <= b,
    ensures 0 <= tv(s, a, b) <= bp(b) - bp(a),
    decreases b - a
{
    if b > a {
        lemma_tv_bound(s, a, (b - 1) as nat);
        lemma_bp_succ((b - 1) as nat);
        let x = s[b - 1].0 as int; let pb = bp((b - 1) as nat);
        assert(0 <= x * pb <= (B() - 1) * pb) by (nonlinear_arith) requires 0 <= x <= B() - 1, pb > 0;
        assert((B() - 1) * pb == B() * pb - pb) by (nonlinear_arith);
    }
}

pub proof fn lemma_val_bound(s: Seq<Limb>, n: nat)
    ensures 0 <= val(s, n) < bp(n)
{ lemma_tv_bound(s, 0, n); lemma_bp_succ(0); }

/// one more limb: val(s, n+1) = val(s, n) + s[n]·B^n
pub proof fn lemma_val_step(s: Seq<Limb>, n: nat)
    ensures val(s, n + 1) == val(s, n) + s[n as int].0 as int * bp(n)
{ }

pub proof fn lemma_val_zero(s: Seq<Limb>, n: nat)
    requires forall|k: int| 0 <= k < n ==> s[k].0 == 0,
    ensures val(s, n) == 0,
    decreases n
{ if n > 0 { lemma_val_zero(s, (n - 1) as nat); } }

/// val is injective on sequences of the same length
pub proof fn lemma_val_inj(s: Seq<Limb>, t: Seq<Limb>, n: nat)
    requires val(s, n) == val(t, n),
    ensures forall|k: int| 0 <= k < n ==> s[k].0 == t[k].0,
    decreases n
{
    if n > 0 {
        let m = (n - 1) as nat;
        lemma_val_bound(s, m); lemma_val_bound(t, m);
        let a = s[m as int].0 as int; let b = t[m as int].0 as int; let p = bp(m);
        assert(a == b) by (nonlinear_arith)
            requires val(s, m) + a * p == val(t, m) + b * p, 0 <= val(s, m) < p, 0 <= val(t, m) < p;
        lemma_val_inj(s, t, m);
    }
}

pub proof fn lemma_val_zero_iff(s: Seq<Limb>, n: nat)
    ensures (val(s, n) == 0) == (forall|k: int| 0 <= k < n ==> s[k].0 == 0)
    decreases n
{
    if n > 0 {
        let m = (n - 1) as nat;
        lemma_val_zero_iff(s, m);
        lemma_val_bound(s, m); lemma_bp_succ(m);
        let a = s[m as int].0 as int; let p = bp(m);
        assert(a * p >= 0) by (nonlinear_arith) requires a >= 0, p > 0;
        assert(a > 0 ==> a * p > 0) by (nonlinear_arith) requires p > 0;
        if val(s, n) == 0 {
            assert(a == 0);
            assert(forall|k: int| 0 <= k < n ==> s[k].0 == 0) by { assert(forall|k: int| 0 <= k < m ==> s[k].0 == 0); }
        }
        if forall|k: int| 0 <= k < n ==> s[k].0 == 0 {
            assert(forall|k: int| 0 <= k < m ==> s[k].0 == 0);
            assert(a * p == 0) by (nonlinear_arith) requires a == 0;
        }
    }
}

pub proof fn lemma_val_eq_iff(s: Seq<Limb>, t: Seq<Limb>, n: nat)
    ensures (val(s, n) == val(t, n)) == (forall|k: int| 0 <= k < n ==> s[k].0 == t[k].0)
{
    if val(s, n) == val(t, n) { lemma_val_inj(s, t, n); }
    if forall|k: int| 0 <= k < n ==> s[k].0 == t[k].0 {
        assert(forall|k: int| 0 <= k < n ==> s[k] == t[k]);
        lemma_val_ext(s, t, n);
    }
}

/// val(s, n) = s[0] + B * (something): parity and low limb
pub proof fn lemma_val_low(s: Seq<Limb>, n: nat)
    requires n >= 1
    ensures val(s, n) % B() == s[0].0 as int, val(s, n) % 2 == (s[0].0 as int) % 2,
        val(s, n) >= s[0].0 as int
    decreases n
{
    lemma_bp1();
    if n == 1 {
        assert(val(s, 1) == val(s, 0) + s[0].0 as int * bp(0));
        assert(val(s, 0) == 0);
        lemma_small_mod(s[0].0 as nat, B() as nat);
    } else {
        let m = (n - 1) as nat;
        lemma_val_low(s, m);
        lemma_bp_succ((m - 1) as nat);
        let a = s[m as int].0 as int; let q = bp((m - 1) as nat);
        assert(a * bp(m) == (a * q) * B()) by (nonlinear_arith) requires bp(m) == B() * q;
        assert(a * q >= 0) by (nonlinear_arith) requires a >= 0, q > 0;
        lemma_mod_multiples_vanish(a * q, val(s, m), B());
        assert((a * q) * B() == (a * q * 0x8000_0000_0000_0000) * 2) by (nonlinear_arith);
        lemma_mod_multiples_vanish(a * q * 0x8000_0000_0000_0000, val(s, m), 2);
    }
}

/// comparison is decided by the most significant differing limb
pub proof fn lemma_val_cmp_top(s: Seq<Limb>, t: Seq<Limb>, i: nat, n: nat)
    requires i < n, forall|k: int| i < k < n ==> s[k].0 == t[k].0, s[i as int].0 < t[i as int].0
    ensures val(s, n) < val(t, n)
    decreases n - i
{
    if n == i + 1 {
        lemma_val_bound(s, i); lemma_val_bound(t, i);
        let a = s[i as int].0 as int; let b = t[i as int].0 as int; let p = bp(i);
        assert(a * p + p <= b * p) by (nonlinear_arith) requires a + 1 <= b, p > 0;
    } else {
        lemma_val_cmp_top(s, t, i, (n - 1) as nat);
    }
}

pub proof fn lemma_val_hi_zero(s: Seq<Limb>, m: nat, n: nat)
    requires m <= n, forall|k: int| m <= k < n ==> s[k].0 == 0
    ensures val(s, n) == val(s, m)
    decreases n - m
{
    if n > m {
        lemma_val_hi_zero(s, m, (n - 1) as nat);
        assert(s[n - 1].0 as int * bp((n - 1) as nat) == 0) by (nonlinear_arith) requires s[n - 1].0 == 0;
    }
}

/// the low m limbs are the value modulo B^m
pub proof fn lemma_val_mod(s: Seq<Limb>, m: nat, n: nat)
    requires m <= n
    ensures val(s, n) % bp(m) == val(s, m)
    decreases n - m
{
    lemma_val_bound(s, m);
    if n == m {
        lemma_small_mod(val(s, m) as nat, bp(m) as nat);
    } else {
        let n1 = (n - 1) as nat;
        lemma_val_mod(s, m, n1);
        lemma_bp_add(m, (n1 - m) as nat);
        let a = s[n1 as int].0 as int; let q = bp((n1 - m) as nat); let pm = bp(m);
        assert(a * bp(n1) == (a * q) * pm) by (nonlinear_arith) requires bp(n1) == pm * q;
        lemma_mod_multiples_vanish(a * q, val(s, n1), pm);
    }
}

pub proof fn lemma_val_all_max(s: Seq<Limb>, n: nat)
    requires forall|k: int| 0 <= k < n ==> s[k].0 == u64::MAX
    ensures val(s, n) == bp(n) - 1
    decreases n
{
    lemma_bp1();
    if n > 0 {
        lemma_val_all_max(s, (n - 1) as nat);
        lemma_bp_succ((n - 1) as nat);
        let p = bp((n - 1) as nat);
        assert((B() - 1) * p == B() * p - p) by (nonlinear_arith);
    }
}

/// a value whose limbs above the first are zero
pub proof fn lemma_val_single(s: Seq<Limb>, n: nat)
    requires n >= 1, forall|k: int| 1 <= k < n ==> s[k].0 == 0
    ensures val(s, n) == s[0].0 as int
{
    lemma_val_hi_zero(s, 1, n); lemma_bp1();
    assert(val(s, 1) == val(s, 0) + s[0].0 as int * bp(0));
}

pub proof fn lemma_pow2_64()
    ensures pow2(64) == B(), pow2(0) == 1, pow2(1) == 2, pow2(63) == 0x8000_0000_0000_0000
{ lemma2_to64(); lemma2_to64_rest(); }

/// B^k == 2^(64k)
pub proof fn lemma_bp_pow2(k: nat)
    ensures bp(k) == pow2(64 * k)
    decreases k
{
    lemma_pow2_64();
    if k == 0 { lemma_bp_succ(0); }
    else {
        lemma_bp_pow2((k - 1) as nat);
        lemma_bp_succ((k - 1) as nat);
        lemma_pow2_adds(64, (64 * (k - 1)) as nat);
        assert(64 + 64 * (k - 1) == 64 * k);
    }
}

} // verus!
