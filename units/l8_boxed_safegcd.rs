// L8: boxed Bernstein-Yang safegcd (src/modular/safegcd/boxed.rs) -- C10
//
// The boxed code mirrors the fixed-width code of src/modular/safegcd.rs with `Box<[u64]>` storage and in-place variants.  It is proved here
// against the SAME contracts as the fixed-width code, REUSING the spec functions (`uval`, `wrap`, `cong`, `sg_gcd`, `divstep`, `divsteps_n`,
// `tmat`, `de_pre`, `ds_dpre`, ..), the lemmas and the two axioms of l4_safegcd.rs; the value of a `BoxedUnsatInt` is the value of its limb
// vector (`n()` = number of 62-bit limbs, `wf` / `uv` / `sv` as for `UnsatInt<LIMBS>`).
//
// body (proved): struct items; BoxedUnsatInt::{LIMB_BITS, MASK, conditional_add, conditional_assign, conditional_negate, neg, shr_assign, zero,
//   one, widen, is_minus_one, is_zero, is_one (folds; closure parameter pattern rewritten, see the `//@@ subst` there), is_negative, lowest, nlimbs, leading_zeros, bits, from_uint_widened, to_uint}; `AddAssign<BoxedUnsatInt>` / `AddAssign<&BoxedUnsatInt>`
//   / `Mul<i64> for &BoxedUnsatInt`; the two slice-typed instances of `impl_limb_convert!` (//@@ macroblock); fg, de, divsteps, divsteps_vartime,
//   BoxedSafeGcdInverter::norm, gcd, gcd_vartime.   (`jump`, `iterations`, `inv_mod2_62`, `unsat_nlimbs_for_sat_nlimbs`: l4_safegcd.rs.)
// stub (ASSUMED, reason there): `From<&BoxedUint> for BoxedUnsatInt` (one-line wrapper; a trait-impl method cannot carry its callees' `requires`).
// Also ASSUMED: `axiom_bernstein_yang_bound_steps` (Theorem 11.2 in its original step-count form, see there and the FINDING below),
//   `<BoxedUnsatInt as Clone>::clone` (derived), `ConstantTimeGreater for u64` (subtle model), hand copies of `safegcd_nlimbs!` / `nlimbs!` and
//   the adapter `impl_limb_convert!`; two use-site rewrites (`&*f * t[i][j]` -> `(&*f).mul(t[i][j])` in `fg`, Verus internal error otherwise;
//   `|acc, &limb| acc & limb.ct_eq(..)` -> `|acc, limb| acc & (*limb).ct_eq(..)` in is_minus_one / is_zero / is_one, closure parameters must be plain variables).
// Entry points still ASSUMED elsewhere (abstract inverter model `m()/adj()/nl()`): BoxedSafeGcdInverter::new, Inverter::invert (l8_boxed_monty.rs),
//   invert_vartime (l8_boxed_monty2.rs), BoxedUint::inv_odd_mod (l8_boxed_invmod.rs).  `invert` / `invert_vartime` are PROVED against the concrete
//   model of this unit (`swf`, `sg_invert_post`) in the work-in-progress units l8_boxed_safegcd_top.rs / _top2.rs (listed in .wip: the same /repo
//   function cannot be a region of two units; moving them needs `swf` and the size bound in the contracts of l8_boxed_monty*.rs).
//
// FINDING (BoxedUnsatInt::leading_zeros / bits): the loop scans the limbs from the LEAST significant one and keeps counting while the limbs are
//   NON-zero (`nonzero_limb_not_encountered &= !l.ct_eq(&0)`; the fixed-width code scans from the top and uses `.and(nonzero(l).not())`), so `bits()`
//   is not the bit length: e.g. the 256-bit value 2^248 + 2^186 + 2^124 + 2^62 + 1 (limbs 1,1,1,1,1,0) has bits() == 5.  `divsteps` therefore runs
//   iterations(c) rounds for a c far below the bit length.  The results are still right because each round performs 62 divsteps (62x what Theorem
//   11.2 needs): proved here from value < 2^(62 bits()) (`leading_zeros`), 62 * iterations(c) >= iterations(62 c + 1) (`lemma_iter_rounds`) and the
//   step-count form of Theorem 11.2 -- the round-count form assumed in l4_safegcd.rs is not enough, hence the additional axiom.
// Size limit: SG_BOXED_MAX_SAT() = 1_369_567 limbs (87.6 Mbit); beyond it `iterations` (49 * bits + 80 in u32) can overflow.
// dev: /verif/tools/vunit.py l8_boxed_safegcd --rlimit 60
use vstd::prelude::*;
use vstd::arithmetic::power::*;
use vstd::arithmetic::power2::*;
use vstd::arithmetic::div_mod::*;
use vstd::arithmetic::mul::*;
use core::ops::{AddAssign, Mul};
use core::cmp::max;
use crate::speclib::*;
use crate::speclib_bits::*;
use crate::l0_prim::*;
use crate::l0_corespec::*;
use crate::l1_choice::*;
use crate::l1_limb::*;
use crate::l2_core::*;
use crate::l2_subtle::*;
use crate::l4_safegcd::*;
use crate::l7_traits::*;
use crate::l7_boxed_div::*;
use crate::l8_boxed_methods::*;
use crate::l8_boxed_invmod::words_of;
use crate::l4_invmod::{gcd as spec_gcd, lemma_sg_gcd_eq};
use vstd::wrapping::u64_specs as wu;
use vstd::wrapping::i64_specs as wi;
use vstd::std_specs::bits::*;
use vstd::bits::*;
use vstd::std_specs::cmp::*;

// HAND COPIES of two expression macros of src/macros.rs (`safegcd_nlimbs!` as in l4_safegcd.rs; `nlimbs!`), which cannot be extracted
macro_rules! safegcd_nlimbs {
    ($bits:expr) => {
        ($bits + 64).div_ceil(62)
    };
}
macro_rules! nlimbs {
    ($bits:expr) => {
        u32::div_ceil($bits, Limb::BITS) as usize
    };
}
// HAND-WRITTEN adapter (no counterpart in /repo): maps the two invocations of `impl_limb_convert!` inside
// `BoxedUnsatInt::from_uint_widened` / `to_uint` to calls of the two SLICE-typed functions that `//@@ macroblock` synthesizes from the
// macro's (only) arm in src/modular/safegcd/macros.rs (same text as the array-typed instances of l4_safegcd.rs).
macro_rules! impl_limb_convert {
    (Word, $ib:expr, $input:expr, u64, 62, $output:expr) => {
        limb_convert_sat_to_unsat_s($input, &mut $output)
    };
    (u64, 62, $input:expr, Word, $ob:expr, $output:expr) => {
        limb_convert_unsat_to_sat_s($input, $output)
    };
}

verus! {

// ---- model of subtle 2.6.1, continued (external crate; ASSUMED -- same status as the u32 instance in l8_boxed_methods.rs)
// subtle: `generate_unsigned_integer_greater!(u64, 64)`: 1 iff self > other
impl ConstantTimeGreater for u64 {
    open spec fn ct_gt_req(&self, other: &u64) -> bool { true }
    open spec fn ct_gt_ens(&self, other: &u64, r: Choice) -> bool { r.wf() && r.t() == (*self > *other) }
    #[verifier::external_body]
    fn ct_gt(&self, other: &u64) -> (r: Choice)
    { Choice((*self > *other) as u8) }
}

//@@ item src/modular/safegcd/boxed.rs | struct BoxedUnsatInt
//@+
#[verifier::external_derive(Clone)]
//@-
#[derive(Clone)]
pub struct BoxedUnsatInt(pub Box<[u64]>);
//@@ end
//@@ item src/modular/safegcd/boxed.rs | struct BoxedSafeGcdInverter
#[derive(Clone)]
pub struct BoxedSafeGcdInverter {
    pub modulus: BoxedUnsatInt,
    pub adjuster: BoxedUnsatInt,
    pub inverse: i64,
}
//@@ end
// `#[derive(Clone)] struct BoxedUnsatInt(Box<[u64]>)` (ASSUMED library behaviour, like `<BoxedUint as Clone>::clone` in l8_boxed_methods.rs):
// the clone has the same limbs (Verus gives no specification to a derived Clone that is not a copy)
pub assume_specification [<BoxedUnsatInt as Clone>::clone] (x: &BoxedUnsatInt) -> (r: BoxedUnsatInt)
    ensures r.0@ == x.0@;

// ---- vocabulary: the same as for the fixed-width `UnsatInt<LIMBS>` of l4_safegcd.rs, with LIMBS = length of the boxed slice
impl BoxedUnsatInt {
    /// number of 62-bit limbs
    pub open spec fn n(&self) -> nat { self.0@.len() }
    /// at least one limb, every limb is a 62-bit value
    pub open spec fn wf(&self) -> bool {
        self.0@.len() >= 1 && forall|k: int| 0 <= k < self.0@.len() ==> #[trigger] self.0@[k] <= 0x3fff_ffff_ffff_ffffu64
    }
    /// unsigned value
    pub open spec fn uv(&self) -> int { uval(self.0@, self.0@.len()) }
    /// 1 iff the two's complement value is negative
    pub open spec fn nb(&self) -> int { if 2 * self.uv() < q62(self.n()) { 0 } else { 1 } }
    /// signed (two's complement) value in [-2^(62n-1), 2^(62n-1))
    pub open spec fn sv(&self) -> int { self.uv() - self.nb() * q62(self.n()) }

    /// range of uv / sv  (as UnsatInt::lemma_range)
    pub proof fn lemma_range(&self)
        requires self.wf()
        ensures 0 <= self.uv() < q62(self.n()), sfits(self.sv(), self.n()), q62(self.n()) >= P62(),
            self.sv() == self.uv() - self.nb() * q62(self.n()), 0 <= self.nb() <= 1,
            (self.nb() == 1) == (self.sv() < 0),
    {
        lemma_uval_bound(self.0@, self.n());
        lemma_q62_ge(self.n());
        let q = q62(self.n());
        assert(1 * q == q);
        assert(0 * q == 0);
    }

    /// the signed value is determined by the unsigned value modulo 2^(62 n):  uv == target + k q  (as UnsatInt::lemma_sv_from)
    pub proof fn lemma_sv_from(&self, target: int, k: int)
        requires self.wf(), self.uv() == target + k * q62(self.n())
        ensures cong(self.sv(), target, q62(self.n())), sfits(target, self.n()) ==> self.sv() == target,
            self.sv() == wrap(target, self.n())
    {
        self.lemma_range();
        let q = q62(self.n()); let n = self.nb();
        assert(self.sv() - target == (k - n) * q) by (nonlinear_arith)
            requires self.sv() == self.uv() - n * q, self.uv() == target + k * q;
        lemma_mod_multiples_basic(k - n, q);
        if sfits(target, self.n()) {
            assert(k - n == 0) by (nonlinear_arith)
                requires self.sv() - target == (k - n) * q, -q <= 2 * self.sv() < q, -q <= 2 * target < q, q > 0;
        }
        lemma_cong_mult(self.sv(), target, k - n, q);
        lemma_wrap_unique(self.sv(), target, self.n());
    }

    /// low limb: sv = limb 0 (mod 2^62)  (as lemma_low_limb)
    pub proof fn lemma_low(&self)
        requires self.wf()
        ensures cong(self.sv(), self.0@[0] as int, P62()), self.sv() % 2 == (self.0@[0] as int) % 2
    {
        let n = self.n();
        self.lemma_range();
        lemma_uval_shift(self.0@, n);
        lemma_q62_succ((n - 1) as nat);
        let r = uval(self.0@.subrange(1, n as int), (n - 1) as nat); let nb = self.nb(); let p = q62((n - 1) as nat);
        let l0 = self.0@[0] as int;
        assert(self.sv() - l0 == (r - nb * p) * P62()) by (nonlinear_arith)
            requires self.sv() == l0 + P62() * r - nb * (P62() * p);
        lemma_cong_mult(self.sv(), l0, r - nb * p, P62());
        let k = (r - nb * p) * 0x2000_0000_0000_0000;
        assert(self.sv() == l0 + k * 2) by (nonlinear_arith) requires self.sv() - l0 == (r - nb * p) * P62(), k == (r - nb * p) * 0x2000_0000_0000_0000;
        lemma_mod_add_mult(2, l0, 2, k);
    }
}

/// a value in the signed range is its own representative
pub proof fn lemma_wrap_id(x: int, n: nat)
    requires n >= 1, sfits(x, n)
    ensures wrap(x, n) == x
{
    lemma_q62_ge(n);
    assert(x - x == 0 * q62(n));
    lemma_cong_mult(x, x, 0, q62(n));
    lemma_wrap_unique(x, x, n);
}

pub proof fn lemma_sv_eq_seq(a: &BoxedUnsatInt, b: &BoxedUnsatInt)
    requires a.0@ =~= b.0@
    ensures a.uv() == b.uv(), a.sv() == b.sv(), a.wf() == b.wf(), a.n() == b.n()
{ }


// ---- preconditions of the operator impls (a trait-impl method cannot carry `requires`: vstd's `*SpecImpl::*_req`); the results are
// stated by `ensures` on the impl methods (no vstd-level `*_spec` value is claimed: obeys == false)
impl vstd::std_specs::ops::AddAssignSpecImpl<&BoxedUnsatInt> for BoxedUnsatInt {
    open spec fn obeys_add_assign_spec() -> bool { false }
    open spec fn add_assign_req(&self, rhs: &BoxedUnsatInt) -> bool { self.wf() && rhs.wf() && self.n() == rhs.n() }
    open spec fn add_assign_spec(&self, rhs: &BoxedUnsatInt) -> &BoxedUnsatInt { self }
}
impl vstd::std_specs::ops::AddAssignSpecImpl<BoxedUnsatInt> for BoxedUnsatInt {
    open spec fn obeys_add_assign_spec() -> bool { false }
    open spec fn add_assign_req(&self, rhs: BoxedUnsatInt) -> bool { self.wf() && rhs.wf() && self.n() == rhs.n() }
    open spec fn add_assign_spec(&self, rhs: BoxedUnsatInt) -> &BoxedUnsatInt { self }
}
impl vstd::std_specs::ops::MulSpecImpl<i64> for &BoxedUnsatInt {
    open spec fn obeys_mul_spec() -> bool { false }
    // weakest precondition: `-other` must not overflow (as for the fixed-width `UnsatInt::mul`)
    open spec fn mul_req(self, other: i64) -> bool { self.wf() && other > i64::MIN }
    open spec fn mul_spec(self, other: i64) -> BoxedUnsatInt { *self }
}

//@@ subst \b(Self|BoxedUnsatInt)::(MASK|LIMB_BITS)\b(?!\() => \1::\2()

//@@ const src/modular/safegcd/boxed.rs | impl BoxedUnsatInt | LIMB_BITS
impl BoxedUnsatInt {
pub const fn LIMB_BITS() -> (ret__: usize)
//@+
    ensures ret__ == 62
//@-
{
    62
}
}
//@@ end
//@@ const src/modular/safegcd/boxed.rs | impl BoxedUnsatInt | MASK
impl BoxedUnsatInt {
pub const fn MASK() -> (ret__: u64)
//@+
    ensures ret__ == 0x3fff_ffff_ffff_ffffu64
//@-
{
//@+
    proof { assert(0xffff_ffff_ffff_ffffu64 >> 2usize == 0x3fff_ffff_ffff_ffffu64) by (bit_vector); }
//@-
    u64::MAX >> (64 - Self::LIMB_BITS())
}
}
//@@ end
//@@ fn src/modular/safegcd/boxed.rs | impl BoxedUnsatInt | conditional_add | body | props C10
impl BoxedUnsatInt {
pub fn conditional_add(&mut self, other: &Self, choice: Choice)
//@+
    requires old(self).wf(), other.wf(), old(self).n() == other.n(), choice.wf()
    ensures final(self).wf(), final(self).n() == old(self).n(),
        final(self).sv() == wrap(old(self).sv() + (if choice.t() { other.sv() } else { 0 }), old(self).n()),
        !choice.t() ==> final(self).0@ =~= old(self).0@
//@-
{
//@+
    let ghost s0 = self.0@; let ghost n = self.0@.len(); let ghost m: int = if choice.t() { 1 } else { 0 };
    let ghost sv0 = self.sv(); let ghost nb0 = self.nb(); let ghost uv0 = self.uv();
    proof { lemma_q62_succ(0); assert(m * 0 == 0); }
//@-
        debug_assert_eq!(self.nlimbs(), other.nlimbs());
        let mut carry = 0;
        for i in 0..self.nlimbs()
//@+
        invariant
            VERUS_ghost_iter.iter.end == n, self.0@.len() == n, s0.len() == n, other.0@.len() == n, other.wf(), carry <= 1, choice.wf(),
            m == (if choice.t() { 1int } else { 0int }),
            forall|k: int| 0 <= k < n ==> #[trigger] s0[k] <= 0x3fff_ffff_ffff_ffffu64,
            forall|k: int| 0 <= k < n ==> #[trigger] self.0@[k] <= 0x3fff_ffff_ffff_ffffu64,
            forall|k: int| VERUS_ghost_iter.index@ <= k < n ==> self.0@[k] == s0[k],
            !choice.t() ==> carry == 0 && self.0@ =~= s0,
            uval(self.0@, VERUS_ghost_iter.index@ as nat) + carry as int * q62(VERUS_ghost_iter.index@ as nat)
                == uval(s0, VERUS_ghost_iter.index@ as nat) + m * uval(other.0@, VERUS_ghost_iter.index@ as nat),
//@-
{
//@+
            let ghost old = self.0@; let ghost c0 = carry;
            proof { assert(s0[i as int] <= 0x3fff_ffff_ffff_ffffu64 && other.0@[i as int] <= 0x3fff_ffff_ffff_ffffu64); }
//@-
            let addend = u64::conditional_select(&0, &other.0[i], choice);
            let sum = self.0[i] + addend + carry;
            self.0[i] = sum & Self::MASK();
            carry = sum >> Self::LIMB_BITS();
//@+
            proof {
                let a = s0[i as int]; let b = other.0@[i as int];
                assert(sum & 0x3fff_ffff_ffff_ffffu64 == sum % 0x4000_0000_0000_0000u64 && sum >> 62usize == sum / 0x4000_0000_0000_0000u64
                    && (sum & 0x3fff_ffff_ffff_ffffu64) <= 0x3fff_ffff_ffff_ffffu64) by (bit_vector);
                lemma_uval_ext(old, self.0@, i as nat); lemma_q62_succ(i as nat);
                lemma_chain_step(self.0@[i as int] as int, carry as int, sum as int, q62(i as nat));
                let p = q62(i as nat); let ai = a as int; let bi = b as int; let ci = c0 as int;
                assert((ai + m * bi + ci) * p == ai * p + m * (bi * p) + ci * p) by (nonlinear_arith);
                assert(m * (uval(other.0@, i as nat) + bi * p) == m * uval(other.0@, i as nat) + m * (bi * p)) by (nonlinear_arith);
                assert(addend as int == m * bi) by (nonlinear_arith) requires m == 0 || m == 1, addend as int == (if m == 1 { bi } else { 0 });
                if !choice.t() { assert(sum == a); assert(self.0@ =~= s0); }
            }
//@-
        }
//@+
        proof {
            other.lemma_range(); lemma_uval_bound(s0, n); lemma_q62_ge(n);
            let q = q62(n); let tgt = sv0 + (if choice.t() { other.sv() } else { 0 });
            let k = nb0 + m * other.nb() - carry as int;
            assert(1 * q == q && 0 * q == 0);
            assert(self.uv() == tgt + k * q) by (nonlinear_arith)
                requires self.uv() + carry as int * q == uv0 + m * other.uv(), sv0 == uv0 - nb0 * q, other.sv() == other.uv() - other.nb() * q,
                    tgt == sv0 + m * other.sv(), k == nb0 + m * other.nb() - carry as int, m == 0 || m == 1;
            self.lemma_sv_from(tgt, k);
        }
//@-
    }
}
//@@ end
//@@ fn src/modular/safegcd/boxed.rs | impl BoxedUnsatInt | conditional_assign | body | props C10
impl BoxedUnsatInt {
pub fn conditional_assign(&mut self, other: &Self, choice: Choice)
//@+
    requires old(self).n() == other.n(), choice.wf()
    ensures final(self).0@ =~= (if choice.t() { other.0@ } else { old(self).0@ })
//@-
{
//@+
    let ghost s0 = self.0@; let ghost n = self.0@.len();
//@-
        for i in 0..self.nlimbs()
//@+
        invariant
            VERUS_ghost_iter.iter.end == n, self.0@.len() == n, s0.len() == n, other.0@.len() == n, choice.wf(),
            forall|k: int| 0 <= k < VERUS_ghost_iter.index@ ==> self.0@[k] == (if choice.t() { other.0@[k] } else { s0[k] }),
            forall|k: int| VERUS_ghost_iter.index@ <= k < n ==> self.0@[k] == s0[k],
//@-
{
            self.0[i] = u64::conditional_select(&self.0[i], &other.0[i], choice);
        }
    }
}
//@@ end
//@@ fn src/modular/safegcd/boxed.rs | impl BoxedUnsatInt | conditional_negate | body | props C10
impl BoxedUnsatInt {
pub fn conditional_negate(&mut self, choice: Choice)
//@+
    requires old(self).wf(), choice.wf()
    ensures final(self).wf(), final(self).n() == old(self).n(),
        final(self).sv() == (if choice.t() { wrap(-old(self).sv(), old(self).n()) } else { old(self).sv() })
//@-
{
        // TODO(tarcieri): avoid allocations
        self.conditional_assign(&self.neg(), choice);
    }
}
//@@ end
//@@ fn src/modular/safegcd/boxed.rs | impl BoxedUnsatInt | neg | body | props C10
impl BoxedUnsatInt {
pub fn neg(&self) -> (ret__: Self)
//@+
    requires self.wf()
    ensures ret__.wf(), ret__.n() == self.n(), cong(ret__.sv(), -self.sv(), q62(self.n())),
        sfits(-self.sv(), self.n()) ==> ret__.sv() == -self.sv(),
        ret__.sv() == wrap(-self.sv(), self.n())
//@-
{
//@+
    let ghost n = self.0@.len();
    proof { lemma_q62_succ(0); }
//@-
        // For the two's complement code the additive negation is the result of adding 1 to the
        // bitwise inverted argument's representation.
        let nlimbs = self.nlimbs();
        let mut ret = Self::zero(nlimbs);
        let mut carry = 1;
        for i in 0..nlimbs
//@+
        invariant
            VERUS_ghost_iter.iter.end == n, nlimbs == n, self.0@.len() == n, ret.0@.len() == n, self.wf(), carry <= 1,
            forall|k: int| 0 <= k < n ==> #[trigger] ret.0@[k] <= 0x3fff_ffff_ffff_ffffu64,
            uval(ret.0@, VERUS_ghost_iter.index@ as nat) + carry as int * q62(VERUS_ghost_iter.index@ as nat)
                == q62(VERUS_ghost_iter.index@ as nat) - uval(self.0@, VERUS_ghost_iter.index@ as nat),
//@-
{
//@+
            let ghost old = ret.0@; let ghost c0 = carry; let ghost a = self.0@[i as int];
            proof {
                assert(a <= 0x3fff_ffff_ffff_ffffu64);
                assert(a ^ 0x3fff_ffff_ffff_ffffu64 == 0x3fff_ffff_ffff_ffffu64 - a) by (bit_vector) requires a <= 0x3fff_ffff_ffff_ffffu64;
            }
//@-
            let sum = (self.0[i] ^ Self::MASK()) + carry;
            ret.0[i] = sum & Self::MASK();
            carry = sum >> Self::LIMB_BITS();
//@+
            proof {
                assert(sum & 0x3fff_ffff_ffff_ffffu64 == sum % 0x4000_0000_0000_0000u64 && sum >> 62usize == sum / 0x4000_0000_0000_0000u64
                    && (sum & 0x3fff_ffff_ffff_ffffu64) <= 0x3fff_ffff_ffff_ffffu64) by (bit_vector);
                lemma_uval_ext(old, ret.0@, i as nat); lemma_q62_succ(i as nat);
                lemma_chain_step(ret.0@[i as int] as int, carry as int, sum as int, q62(i as nat));
                assert((P62() - 1 - a as int + c0 as int) * q62(i as nat) == P62() * q62(i as nat) - q62(i as nat) - a as int * q62(i as nat) + c0 as int * q62(i as nat)) by (nonlinear_arith);
            }
//@-
        }
//@+
        proof {
            self.lemma_range();
            let q = q62(n);
            assert(ret.uv() == (-self.sv()) + (1 - self.nb() - carry as int) * q) by (nonlinear_arith)
                requires ret.uv() + carry as int * q == q - self.uv(), self.sv() == self.uv() - self.nb() * q;
            ret.lemma_sv_from(-self.sv(), 1 - self.nb() - carry as int);
        }
//@-
        ret
    }
}
//@@ end
//@@ fn src/modular/safegcd/boxed.rs | impl BoxedUnsatInt | shr_assign | body | props C10
impl BoxedUnsatInt {
pub fn shr_assign(&mut self)
//@+
    requires old(self).wf()
    ensures final(self).wf(), final(self).n() == old(self).n(),
        old(self).sv() == old(self).0@[0] as int + P62() * final(self).sv(), final(self).sv() == old(self).sv() / P62()
//@-
{
//@+
    let ghost s0 = self.0@; let ghost n = self.0@.len(); let ghost sv0 = self.sv(); let ghost nb0 = self.nb(); let ghost uv0 = self.uv();
    proof { self.lemma_range(); }
//@-
        let is_negative = self.is_negative();
        for i in 0..(self.nlimbs() - 1)
//@+
        invariant
            VERUS_ghost_iter.iter.end == n - 1, self.0@.len() == n, s0.len() == n, n >= 1,
            forall|k: int| 0 <= k < n ==> #[trigger] s0[k] <= 0x3fff_ffff_ffff_ffffu64,
            forall|k: int| 0 <= k < VERUS_ghost_iter.index@ ==> self.0@[k] == s0[k + 1],
            forall|k: int| VERUS_ghost_iter.index@ <= k < n ==> self.0@[k] == s0[k],
//@-
{
            self.0[i] = self.0[i + 1];
        }
        self.0[self.nlimbs() - 1] = u64::conditional_select(&0, &Self::MASK(), is_negative);
//@+
        proof {
            let m = (n - 1) as nat;
            let sub = s0.subrange(1, n as int);
            assert forall|k: int| 0 <= k < n implies #[trigger] self.0@[k] <= 0x3fff_ffff_ffff_ffffu64 by { if k < m { assert(s0[k + 1] <= 0x3fff_ffff_ffff_ffffu64); } }
            self.lemma_range();
            lemma_uval_shift(s0, n);
            assert forall|k: int| 0 <= k < m implies self.0@[k] == sub[k] by { }
            lemma_uval_ext(self.0@, sub, m);
            lemma_top_sign(s0, n); lemma_top_sign(self.0@, n);
            lemma_q62_succ(m);
            let p = q62(m); let r = uval(sub, m); let l0 = s0[0] as int;
            if nb0 == 1 {
                assert(l0 + P62() * (r + (P62() - 1) * p - 1 * (P62() * p)) == l0 + P62() * r - 1 * (P62() * p)) by (nonlinear_arith);
            } else {
                assert(0 * p == 0 && 0 * q62(n) == 0) by (nonlinear_arith);
            }
            assert(sv0 == l0 + P62() * self.sv());
            lemma_fundamental_div_mod_converse(sv0, P62(), self.sv(), l0);
        }
//@-
    }
}
//@@ end
//@@ fn src/modular/safegcd/boxed.rs | impl BoxedUnsatInt | zero | body | props C10
impl BoxedUnsatInt {
pub fn zero(nlimbs: usize) -> (ret__: Self)
//@+
    ensures ret__.0@.len() == nlimbs, forall|k: int| 0 <= k < nlimbs ==> ret__.0@[k] == 0, nlimbs >= 1 ==> ret__.wf(), ret__.uv() == 0, ret__.sv() == 0
//@-
{
//@+
    proof {
        assert forall|s: Seq<u64>| s.len() == nlimbs && (forall|k: int| 0 <= k < nlimbs ==> s[k] == 0) implies #[trigger] uval(s, s.len()) == 0 by { lemma_uval_zero(s, s.len()); }
        lemma_q62_succ(nlimbs as nat);
        assert(0 * q62(nlimbs as nat) == 0);
    }
//@-
        Self(vec![0; nlimbs].into())
    }
}
//@@ end
//@@ fn src/modular/safegcd/boxed.rs | impl BoxedUnsatInt | one | body | props C10
impl BoxedUnsatInt {
pub fn one(nlimbs: usize) -> (ret__: Self)
//@+
    requires nlimbs >= 1
    ensures ret__.wf(), ret__.n() == nlimbs, ret__.uv() == 1, ret__.sv() == 1, ret__.0@[0] == 1, forall|k: int| 1 <= k < nlimbs ==> ret__.0@[k] == 0
//@-
{
        let mut ret = Self::zero(nlimbs);
        ret.0[0] = 1;
//@+
        proof { lemma_uval_one(ret.0@, nlimbs as nat); lemma_q62_ge(nlimbs as nat); assert(0 * q62(nlimbs as nat) == 0); }
//@-
        ret
    }
}
//@@ end
//@@ fn src/modular/safegcd/boxed.rs | impl BoxedUnsatInt | widen | body | props C10
impl BoxedUnsatInt {
pub fn widen(self, nlimbs: usize) -> (ret__: Self)
//@+
    // zero extension: the unsigned value is kept; the signed value is kept when it is >= 0
    requires self.wf(), nlimbs >= self.n()
    ensures ret__.wf(), ret__.n() == nlimbs, ret__.uv() == self.uv(), self.sv() >= 0 ==> ret__.sv() == self.sv(),
        forall|k: int| 0 <= k < self.n() ==> ret__.0@[k] == self.0@[k]
//@-
{
//@+
    let ghost s0 = self.0@; let ghost n0 = self.0@.len();
    proof { self.lemma_range(); }
//@-
        debug_assert!(nlimbs >= self.nlimbs(),);
        let mut limbs = self.0.into_vec();
        limbs.resize(nlimbs, 0);
//@+
        proof {
            let n1 = nlimbs as nat;
            assert(limbs@.len() == n1);
            assert forall|k: int| 0 <= k < n0 implies limbs@[k] == s0[k] by { }
            assert forall|k: int| n0 <= k < n1 implies limbs@[k] == 0 by { }
            assert forall|k: int| 0 <= k < n1 implies #[trigger] limbs@[k] <= 0x3fff_ffff_ffff_ffffu64 by { if k < n0 { assert(s0[k] <= 0x3fff_ffff_ffff_ffffu64); } }
            lemma_uval_hi_zero(limbs@, n0, n1);
            lemma_uval_ext(limbs@, s0, n0);
            assert forall|s: Seq<u64>| s =~= limbs@ implies #[trigger] uval(s, s.len()) == uval(s0, n0) by { }
            // 2 uv < q62(n0) <= q62(n1)
            lemma_q62_add(n0, (n1 - n0) as nat); lemma_q62_succ((n1 - n0) as nat);
            assert(q62(n0) <= q62(n1)) by (nonlinear_arith) requires q62(n1) == q62(n0) * q62((n1 - n0) as nat), q62((n1 - n0) as nat) >= 1, q62(n0) > 0;
            assert(0 * q62(n1) == 0 && 0 * q62(n0) == 0);
        }
//@-
        Self(limbs.into())
    }
}
//@@ end
/// accumulator chain of the folds `acc_k = acc_{k-1} & (s_{k-1} == c)` (is_zero / is_one / is_minus_one)
spec fn uchain(accs: Seq<Choice>, s: Seq<u64>, c: u64) -> bool {
    accs.len() == s.len() + 1
        && forall|k: int| 1 <= k < accs.len() ==> (accs[k - 1].wf() ==> (#[trigger] accs[k]).wf() && accs[k].t() == (accs[k - 1].t() && s[k - 1] == c))
}
proof fn lemma_uchain(accs: Seq<Choice>, s: Seq<u64>, c: u64, j: nat)
    requires uchain(accs, s, c), accs[0].wf(), j <= s.len()
    ensures accs[j as int].wf(), accs[j as int].t() == (accs[0].t() && forall|k: int| 0 <= k < j ==> s[k] == c)
    decreases j
{
    if j > 0 {
        lemma_uchain(accs, s, c, (j - 1) as nat);
        assert(accs[j as int].wf() && accs[j as int].t() == (accs[j - 1].t() && s[j - 1] == c));
    }
}
/// the values 0, 1, -1 and their limb patterns (what `eq(&ZERO)` / `eq(&ONE)` / `eq(&MINUS_ONE)` decide in the fixed-width code)
proof fn lemma_sv_consts(x: &BoxedUnsatInt)
    requires x.wf()
    ensures (x.sv() == 0) == (forall|k: int| 0 <= k < x.n() ==> x.0@[k] == 0),
        (x.sv() == -1) == (forall|k: int| 0 <= k < x.n() ==> x.0@[k] == 0x3fff_ffff_ffff_ffffu64),
        (x.sv() == 1) == (x.0@[0] == 1 && forall|k: int| 1 <= k < x.n() ==> x.0@[k] == 0),
{
    x.lemma_range();
    let s = x.0@; let n = x.n(); let q = q62(n);
    assert(1 * q == q); assert(0 * q == 0);
    if forall|k: int| 0 <= k < n ==> s[k] == 0 { lemma_uval_zero(s, n); assert(x.sv() == 0); }
    if x.sv() == 0 {
        let z = Seq::new(n, |k: int| 0u64);
        lemma_uval_zero(z, n); lemma_uval_inj(s, z, n);
        assert forall|k: int| 0 <= k < n implies s[k] == 0 by { assert(s[k] == z[k]); }
    }
    if forall|k: int| 0 <= k < n ==> s[k] == 0x3fff_ffff_ffff_ffffu64 { lemma_uval_all_mask(s, n); assert(x.sv() == -1); }
    if x.sv() == -1 {
        let z = Seq::new(n, |k: int| 0x3fff_ffff_ffff_ffffu64);
        lemma_uval_all_mask(z, n); lemma_uval_inj(s, z, n);
        assert forall|k: int| 0 <= k < n implies s[k] == 0x3fff_ffff_ffff_ffffu64 by { assert(s[k] == z[k]); }
    }
    if s[0] == 1 && forall|k: int| 1 <= k < n ==> s[k] == 0 { lemma_uval_one(s, n); assert(x.sv() == 1); }
    if x.sv() == 1 {
        let z = Seq::new(n, |k: int| if k == 0 { 1u64 } else { 0u64 });
        lemma_uval_one(z, n); lemma_uval_inj(s, z, n);
        assert(s[0] == z[0]);
        assert forall|k: int| 1 <= k < n implies s[k] == 0 by { assert(s[k] == z[k]); }
    }
}
// Verus accepts only plain variables as closure parameters ("only variables are supported here, not general patterns"): the reference
// pattern `&limb` of the three fold closures below (`|acc, &limb| acc & limb.ct_eq(..)`, limb: u64 copied out of the `&u64` item) is rewritten
// textually into the equivalent `|acc, limb| acc & (*limb).ct_eq(..)` (limb: &u64, dereferenced at its only use).  Nothing else changes.
//@@ subst \|acc, &limb\| => |acc, limb|
//@@ subst ^(\s*)acc & limb\.ct_eq\( => \1acc & (*limb).ct_eq(
//@@ fn src/modular/safegcd/boxed.rs | impl BoxedUnsatInt | is_minus_one | body | props C10
impl BoxedUnsatInt {
pub fn is_minus_one(&self) -> (ret__: Choice)
//@+
    // Contract = `eq(&MINUS_ONE)` of the fixed-width code.
    requires self.wf()
    ensures ret__.wf(), ret__.t() == (self.sv() == -1), ret__.t() == (forall|k: int| 0 <= k < self.n() ==> self.0@[k] == 0x3fff_ffff_ffff_ffffu64)
//@-
{
//@+
    proof {
        lemma_sv_consts(self);
        assert forall|accs: Seq<Choice>| uchain(accs, self.0@, 0x3fff_ffff_ffff_ffffu64) && accs[0] == Choice(1) implies (#[trigger] accs[accs.len() - 1]).wf()
            && accs[accs.len() - 1].t() == (forall|k: int| 0 <= k < self.n() ==> self.0@[k] == 0x3fff_ffff_ffff_ffffu64) by {
            lemma_uchain(accs, self.0@, 0x3fff_ffff_ffff_ffffu64, self.0@.len());
        }
    }
//@-
        self.0
            .iter()
            .fold(Choice::from(1), |acc, limb|
//@+
    -> (r: Choice) ensures acc.wf() ==> r.wf() && r.t() == (acc.t() && *limb == 0x3fff_ffff_ffff_ffffu64)
//@-
{
//@+
    proof { assert forall|z: Choice| acc.wf() && z.wf() implies #[trigger] choice_and(acc, z).wf() && choice_and(acc, z).t() == (acc.t() && z.t()) by { lemma_choice_ops(acc, z); } }
//@-
acc & (*limb).ct_eq(&Self::MASK())
})
    }
}
//@@ end
//@@ fn src/modular/safegcd/boxed.rs | impl BoxedUnsatInt | is_negative | body | props C10
impl BoxedUnsatInt {
pub fn is_negative(&self) -> (ret__: Choice)
//@+
    requires self.wf()
    ensures ret__.wf(), ret__.t() == (self.sv() < 0), ret__.t() == (self.0@[self.n() - 1] >= 0x2000_0000_0000_0000u64)
//@-
{
//@+
    proof {
        self.lemma_range(); lemma_top_sign(self.0@, self.n());
        assert(0x3fff_ffff_ffff_ffffu64 >> 1 == 0x1fff_ffff_ffff_ffffu64) by (bit_vector);
    }
//@-
        self.0[self.nlimbs() - 1].ct_gt(&(Self::MASK() >> 1))
    }
}
//@@ end
//@@ fn src/modular/safegcd/boxed.rs | impl BoxedUnsatInt | is_zero | body | props C10
impl BoxedUnsatInt {
pub fn is_zero(&self) -> (ret__: Choice)
//@+
    // Contract = `eq(&ZERO)` of the fixed-width code.
    requires self.wf()
    ensures ret__.wf(), ret__.t() == (self.sv() == 0), ret__.t() == (forall|k: int| 0 <= k < self.n() ==> self.0@[k] == 0)
//@-
{
//@+
    proof {
        lemma_sv_consts(self);
        assert forall|accs: Seq<Choice>| uchain(accs, self.0@, 0) && accs[0] == Choice(1) implies (#[trigger] accs[accs.len() - 1]).wf()
            && accs[accs.len() - 1].t() == (forall|k: int| 0 <= k < self.n() ==> self.0@[k] == 0) by {
            lemma_uchain(accs, self.0@, 0, self.0@.len());
        }
    }
//@-
        self.0
            .iter()
            .fold(Choice::from(1), |acc, limb|
//@+
    -> (r: Choice) ensures acc.wf() ==> r.wf() && r.t() == (acc.t() && *limb == 0)
//@-
{
//@+
    proof { assert forall|z: Choice| acc.wf() && z.wf() implies #[trigger] choice_and(acc, z).wf() && choice_and(acc, z).t() == (acc.t() && z.t()) by { lemma_choice_ops(acc, z); } }
//@-
acc & (*limb).ct_eq(&0)
})
    }
}
//@@ end
//@@ fn src/modular/safegcd/boxed.rs | impl BoxedUnsatInt | is_one | body | props C10
impl BoxedUnsatInt {
pub fn is_one(&self) -> (ret__: Choice)
//@+
    // Contract = `eq(&ONE)` of the fixed-width code.
    requires self.wf()
    ensures ret__.wf(), ret__.t() == (self.sv() == 1), ret__.t() == (self.0@[0] == 1 && forall|k: int| 1 <= k < self.n() ==> self.0@[k] == 0)
//@-
{
//@+
    let ghost tl = self.0@.subrange(1, self.0@.len() as int);
    proof {
        lemma_sv_consts(self);
        assert forall|accs: Seq<Choice>| uchain(accs, tl, 0) && accs[0].wf() && accs[0].t() == (self.0@[0] == 1) implies (#[trigger] accs[accs.len() - 1]).wf()
            && accs[accs.len() - 1].t() == (self.0@[0] == 1 && forall|k: int| 1 <= k < self.n() ==> self.0@[k] == 0) by {
            lemma_uchain(accs, tl, 0, tl.len());
            if forall|k: int| 0 <= k < tl.len() ==> tl[k] == 0 {
                assert forall|k: int| 1 <= k < self.n() implies self.0@[k] == 0 by { assert(tl[k - 1] == self.0@[k]); }
            }
            if forall|k: int| 1 <= k < self.n() ==> self.0@[k] == 0 {
                assert forall|k: int| 0 <= k < tl.len() implies tl[k] == 0 by { assert(tl[k] == self.0@[k + 1]); }
            }
        }
    }
//@-
        self.0[1..]
            .iter()
            .fold(self.lowest().ct_eq(&1), |acc, limb|
//@+
    -> (r: Choice) ensures acc.wf() ==> r.wf() && r.t() == (acc.t() && *limb == 0)
//@-
{
//@+
    proof { assert forall|z: Choice| acc.wf() && z.wf() implies #[trigger] choice_and(acc, z).wf() && choice_and(acc, z).t() == (acc.t() && z.t()) by { lemma_choice_ops(acc, z); } }
//@-
acc & (*limb).ct_eq(&0)
})
    }
}
//@@ end
//@@ subst-clear
//@@ subst \b(Self|BoxedUnsatInt)::(MASK|LIMB_BITS)\b(?!\() => \1::\2()
//@@ fn src/modular/safegcd/boxed.rs | impl BoxedUnsatInt | lowest | body | props C10
impl BoxedUnsatInt {
pub fn lowest(&self) -> (ret__: u64)
//@+
    requires self.0@.len() >= 1
    ensures ret__ == self.0@[0]
//@-
{
        self.0[0]
    }
}
//@@ end
//@@ fn src/modular/safegcd/boxed.rs | impl BoxedUnsatInt | nlimbs | body | props C10
impl BoxedUnsatInt {
pub fn nlimbs(&self) -> (ret__: usize)
//@+
    ensures ret__ == self.0@.len()
//@-
{
        self.0.len()
    }
}
//@@ end
//@@ fn src/modular/safegcd/boxed.rs | impl BoxedUnsatInt | leading_zeros | body | props C10
impl BoxedUnsatInt {
pub fn leading_zeros(&self) -> (ret__: u32)
//@+
    // FINDING: unlike the fixed-width `UnsatInt::leading_zeros`, this loop scans the limbs from the LEAST significant one and keeps counting
    // while the limbs are NON-zero (`&= !l.ct_eq(&0)`), so the result is not the number of leading zeros.  What the callers (`bits`, then
    // `iterations` in `divsteps`) need and what is proved: with cb = 62 n - ret, the value is below 2^(62 cb).
    requires self.wf(), self.n() * 62 <= u32::MAX
    ensures ret__ <= 62 * self.n(), self.uv() < p2((62 * (62 * self.n() - ret__)) as nat)
//@-
{
//@+
    let ghost n = self.0@.len(); let ghost s = self.0@;
//@-
        let mut count = 0;
        let mut nonzero_limb_not_encountered = Choice::from(1);
        for l in self.0.iter()
//@+
        invariant
            VERUS_ghost_iter.seq().len() == n, forall|k: int| 0 <= k < n ==> *VERUS_ghost_iter.seq()[k] == s[k],
            s == self.0@, self.wf(), n * 62 <= u32::MAX, nonzero_limb_not_encountered.wf(),
            0 <= count <= 62 * VERUS_ghost_iter.index(),
            nonzero_limb_not_encountered.t() ==> count <= 61 * VERUS_ghost_iter.index(),
            !nonzero_limb_not_encountered.t() ==> (VERUS_ghost_iter.index() >= 1 && count <= 61 * VERUS_ghost_iter.index() + 1
                && (count > 61 * VERUS_ghost_iter.index() - 60 ==> s[VERUS_ghost_iter.index() - 1] == 0)),
//@-
{
//@+
            let ghost lv = *l; let ghost f0 = nonzero_limb_not_encountered;
            proof {
                assert(lv == s[VERUS_ghost_iter.index()]);
                assert(lv <= 0x3fff_ffff_ffff_ffffu64);
                lemma_lz64(lv); lemma2_to64_rest();
                if u64_leading_zeros(lv) < 2 { sg_p2_mono(62, (63 - u64_leading_zeros(lv)) as nat); }
                assert forall|c: Choice| c.wf() implies (#[trigger] choice_not(c)).wf() && choice_not(c).t() == !c.t() by { lemma_choice_ops(c, c); }
                assert forall|a: Choice, b: Choice| a.wf() && b.wf() implies (#[trigger] choice_and(a, b)).wf() && choice_and(a, b).t() == (a.t() && b.t()) by { lemma_choice_ops(a, b); }
            }
//@-
            let z = l.leading_zeros() - 2;
            count += u32::conditional_select(&0, &z, nonzero_limb_not_encountered);
            nonzero_limb_not_encountered &= !l.ct_eq(&0);
//@+
            proof {
                assert(lv != 0 ==> z <= 61);
            }
//@-
        }
//@+
        proof {
            let c = count as int; let cb = 62 * n - c;
            lemma_uval_bound(s, n); lemma_q62_pow2(n);
            if nonzero_limb_not_encountered.t() || c <= 61 * n - 60 {
                assert(cb >= n);
                sg_p2_mono(62 * n, (62 * cb) as nat);
            } else {
                assert(s[n - 1] == 0);
                lemma_uval_hi_zero(s, (n - 1) as nat, n);
                lemma_uval_bound(s, (n - 1) as nat); lemma_q62_pow2((n - 1) as nat);
                assert(cb >= n - 1);
                sg_p2_mono((62 * (n - 1)) as nat, (62 * cb) as nat);
            }
        }
//@-
        count
    }
}
//@@ end
//@@ fn src/modular/safegcd/boxed.rs | impl BoxedUnsatInt | bits | body | props C10
impl BoxedUnsatInt {
pub fn bits(&self) -> (ret__: u32)
//@+
    // see the FINDING at `leading_zeros`: not the bit length; the value is below 2^(62 * ret)
    requires self.wf(), self.n() * 62 <= u32::MAX
    ensures ret__ <= 62 * self.n(), self.uv() < p2((62 * ret__) as nat)
//@-
{
        (self.0.len() as u32 * 62) - self.leading_zeros()
    }
}
//@@ end
//@@ fn src/modular/safegcd/boxed.rs | impl AddAssign<BoxedUnsatInt>for BoxedUnsatInt | add_assign | body | props C10
impl AddAssign<BoxedUnsatInt>for BoxedUnsatInt {
//@+
    #[verifier::exec_allows_no_decreases_clause]
//@-
fn add_assign(&mut self, rhs: BoxedUnsatInt)
//@+
    ensures final(self).wf(), final(self).n() == old(self).n(), final(self).sv() == wrap(old(self).sv() + rhs.sv(), old(self).n())
//@-
{
        self.add_assign(&rhs);
    }
}
//@@ end
//@@ fn src/modular/safegcd/boxed.rs | impl AddAssign<&BoxedUnsatInt>for BoxedUnsatInt | add_assign | body | props C10
impl AddAssign<&BoxedUnsatInt>for BoxedUnsatInt {
fn add_assign(&mut self, rhs: &BoxedUnsatInt)
//@+
    ensures final(self).wf(), final(self).n() == old(self).n(), final(self).sv() == wrap(old(self).sv() + rhs.sv(), old(self).n())
//@-
{
//@+
    let ghost s0 = self.0@; let ghost n = self.0@.len();
    let ghost sv0 = self.sv(); let ghost nb0 = self.nb(); let ghost uv0 = self.uv();
    proof { lemma_q62_succ(0); }
//@-
        debug_assert_eq!(self.nlimbs(), rhs.nlimbs());
        let mut carry = 0;
        for i in 0..self.nlimbs()
//@+
        invariant
            VERUS_ghost_iter.iter.end == n, self.0@.len() == n, s0.len() == n, rhs.0@.len() == n, rhs.wf(), carry <= 1,
            forall|k: int| 0 <= k < n ==> #[trigger] s0[k] <= 0x3fff_ffff_ffff_ffffu64,
            forall|k: int| 0 <= k < n ==> #[trigger] self.0@[k] <= 0x3fff_ffff_ffff_ffffu64,
            forall|k: int| VERUS_ghost_iter.index@ <= k < n ==> self.0@[k] == s0[k],
            uval(self.0@, VERUS_ghost_iter.index@ as nat) + carry as int * q62(VERUS_ghost_iter.index@ as nat)
                == uval(s0, VERUS_ghost_iter.index@ as nat) + uval(rhs.0@, VERUS_ghost_iter.index@ as nat),
//@-
{
//@+
            let ghost old = self.0@; let ghost c0 = carry;
            proof { assert(s0[i as int] <= 0x3fff_ffff_ffff_ffffu64 && rhs.0@[i as int] <= 0x3fff_ffff_ffff_ffffu64); }
//@-
            let sum = self.0[i] + rhs.0[i] + carry;
            self.0[i] = sum & Self::MASK();
            carry = sum >> Self::LIMB_BITS();
//@+
            proof {
                let a = s0[i as int]; let b = rhs.0@[i as int];
                assert(sum & 0x3fff_ffff_ffff_ffffu64 == sum % 0x4000_0000_0000_0000u64 && sum >> 62usize == sum / 0x4000_0000_0000_0000u64
                    && (sum & 0x3fff_ffff_ffff_ffffu64) <= 0x3fff_ffff_ffff_ffffu64) by (bit_vector);
                lemma_uval_ext(old, self.0@, i as nat); lemma_q62_succ(i as nat);
                lemma_chain_step(self.0@[i as int] as int, carry as int, sum as int, q62(i as nat));
                assert((a as int + b as int + c0 as int) * q62(i as nat) == a as int * q62(i as nat) + b as int * q62(i as nat) + c0 as int * q62(i as nat)) by (nonlinear_arith);
            }
//@-
        }
//@+
        proof {
            rhs.lemma_range(); lemma_uval_bound(s0, n); lemma_q62_ge(n);
            let q = q62(n);
            assert(1 * q == q && 0 * q == 0);
            assert(self.uv() == (sv0 + rhs.sv()) + (nb0 + rhs.nb() - carry as int) * q) by (nonlinear_arith)
                requires self.uv() + carry as int * q == uv0 + rhs.uv(), sv0 == uv0 - nb0 * q, rhs.sv() == rhs.uv() - rhs.nb() * q;
            self.lemma_sv_from(sv0 + rhs.sv(), nb0 + rhs.nb() - carry as int);
        }
//@-
    }
}
//@@ end
//@@ fn src/modular/safegcd/boxed.rs | impl Mul<i64>for&BoxedUnsatInt | mul | body | props C10
impl Mul<i64>for&BoxedUnsatInt {
//@+
    type Output = BoxedUnsatInt;
//@-
fn mul(self, other: i64) -> (ret__: BoxedUnsatInt)
//@+
    ensures ret__.wf(), ret__.n() == self.n(), cong(ret__.sv(), self.sv() * other, q62(self.n())),
        sfits(self.sv() * other, self.n()) ==> ret__.sv() == self.sv() * other,
        ret__.sv() == wrap(self.sv() * other, self.n())
//@-
{
//@+
    let ghost oth0 = other; let ghost n = self.0@.len();
//@-
        let nlimbs = self.nlimbs();
        let mut ret = BoxedUnsatInt::zero(nlimbs);
        // If the short multiplicand is non-negative, the standard multiplication algorithm is
        // performed. Otherwise, the product of the additively negated multiplicands is found as
        // follows.
        //
        // Since for the two's complement code the additive negation is the result of adding 1 to
        // the bitwise inverted argument's representation, for any encoded integers x and y we have
        // x * y = (-x) * (-y) = (!x + 1) * (-y) = !x * (-y) + (-y), where "!" is the bitwise
        // inversion and arithmetic operations are performed according to the rules of the code.
        //
        // If the short multiplicand is negative, the algorithm below uses this formula by
        // substituting the short multiplicand for y and turns into the modified standard
        // multiplication algorithm, where the carry flag is initialized with the additively
        // negated short multiplicand and the chunks of the long multiplicand are bitwise inverted.
        let (other, mut carry, mask) = if other < 0 {
            (-other, -other as u64, BoxedUnsatInt::MASK())
        } else {
            (other, 0, 0)
        };
//@+
    proof { lemma_q62_succ(0); assert(0 + other as int * 1 == (1 - 0) * other as int) by (nonlinear_arith); }
//@-
        for i in 0..nlimbs
//@+
        invariant
            VERUS_ghost_iter.iter.end == n, nlimbs == n, self.0@.len() == n, ret.0@.len() == n, self.wf(), 0 <= other <= i64::MAX, carry <= other,
            (mask == 0 && oth0 == other) || (mask == 0x3fff_ffff_ffff_ffffu64 && oth0 == -other),
            forall|k: int| 0 <= k < n ==> #[trigger] ret.0@[k] <= 0x3fff_ffff_ffff_ffffu64,
            mask == 0 ==> uval(ret.0@, VERUS_ghost_iter.index@ as nat) + carry as int * q62(VERUS_ghost_iter.index@ as nat) == uval(self.0@, VERUS_ghost_iter.index@ as nat) * other,
            mask != 0 ==> uval(ret.0@, VERUS_ghost_iter.index@ as nat) + carry as int * q62(VERUS_ghost_iter.index@ as nat) == (q62(VERUS_ghost_iter.index@ as nat) - uval(self.0@, VERUS_ghost_iter.index@ as nat)) * other,
//@-
{
//@+
            let ghost old = ret.0@; let ghost c0 = carry; let ghost a = self.0@[i as int]; let ghost x = a ^ mask;
            proof {
                assert(a <= 0x3fff_ffff_ffff_ffffu64);
                assert(a ^ 0x3fff_ffff_ffff_ffffu64 == 0x3fff_ffff_ffff_ffffu64 - a) by (bit_vector) requires a <= 0x3fff_ffff_ffff_ffffu64;
                assert(a ^ 0u64 == a) by (bit_vector);
                assert(0 <= x as int * other as int <= 0x3fff_ffff_ffff_ffff * other as int) by (nonlinear_arith)
                    requires 0 <= x <= 0x3fff_ffff_ffff_ffff, 0 <= other;
            }
//@-
            let sum = (carry as u128) + ((self.0[i] ^ mask) as u128) * (other as u128);
            ret.0[i] = sum as u64 & BoxedUnsatInt::MASK();
            carry = (sum >> BoxedUnsatInt::LIMB_BITS()) as u64;
//@+
            proof {
                assert(sum as int == c0 as int + x as int * other as int);
                assert(((sum as u64) & 0x3fff_ffff_ffff_ffffu64) as u128 == sum % 0x4000_0000_0000_0000u128 && ((sum >> 62usize) as u64) as u128 == sum / 0x4000_0000_0000_0000u128
                    && ((sum as u64) & 0x3fff_ffff_ffff_ffffu64) <= 0x3fff_ffff_ffff_ffffu64) by (bit_vector)
                    requires sum <= 0x2000_0000_0000_0000_0000_0000_0000_0000u128;
                assert(sum as int / 0x4000_0000_0000_0000 <= other as int) by (nonlinear_arith)
                    requires sum as int <= other as int * 0x4000_0000_0000_0000, sum >= 0;
                lemma_uval_ext(old, ret.0@, i as nat); lemma_q62_succ(i as nat);
                lemma_chain_step(ret.0@[i as int] as int, carry as int, sum as int, q62(i as nat));
                let p = q62(i as nat); let u = uval(self.0@, i as nat); let o = other as int; let ai = a as int; let ci = c0 as int;
                if mask == 0 {
                    assert((ci + ai * o) * p == ci * p + (ai * p) * o) by (nonlinear_arith);
                    assert((u + ai * p) * o == u * o + (ai * p) * o) by (nonlinear_arith);
                } else {
                    assert((ci + (P62() - 1 - ai) * o) * p == ci * p + (P62() * p - p - ai * p) * o) by (nonlinear_arith);
                    assert((P62() * p - (u + ai * p)) * o == (p - u) * o + (P62() * p - p - ai * p) * o) by (nonlinear_arith);
                }
            }
//@-
        }
//@+
        proof {
            self.lemma_range();
            let q = q62(n); let o = other as int; let nn = self.nb(); let c = carry as int;
            if mask == 0 {
                assert(ret.uv() == self.sv() * oth0 + (nn * o - c) * q) by (nonlinear_arith)
                    requires ret.uv() + c * q == self.uv() * o, self.sv() == self.uv() - nn * q, oth0 == o;
                ret.lemma_sv_from(self.sv() * oth0, nn * o - c);
            } else {
                assert(ret.uv() == self.sv() * oth0 + (o - nn * o - c) * q) by (nonlinear_arith)
                    requires ret.uv() + c * q == (q - self.uv()) * o, self.sv() == self.uv() - nn * q, oth0 == -o;
                ret.lemma_sv_from(self.sv() * oth0, o - nn * o - c);
            }
        }
//@-
        ret
    }
}
//@@ end

// `&*f * t[0][0]` (operator syntax on a REFERENCE operand, `impl Mul<i64> for &BoxedUnsatInt`): Verus erases the `&` and then fails to find
// `impl Mul<i64> for BoxedUnsatInt` ("verus internal error: codegen_select_candidate failed").  Use-site rewrite to the method-call form of the
// same trait method (`a * b` is `Mul::mul(a, b)` by definition; `de` of /repo already uses this form): no other change.
//@@ subst &\*(f|g) \* (t\[\d\]\[\d\]) => (&*\1).mul(\2)
//@@ fn src/modular/safegcd/boxed.rs | - | fg | body | props C10
pub fn fg(f: &mut BoxedUnsatInt, g: &mut BoxedUnsatInt, t: Matrix)
//@+
    requires old(f).wf(), old(g).wf(), old(f).n() == old(g).n(), ab(mt(t).0) + ab(mt(t).1) <= P62(), ab(mt(t).2) + ab(mt(t).3) <= P62(),
        4 * P62() * ab(old(f).sv()) <= q62(old(f).n()), 4 * P62() * ab(old(g).sv()) <= q62(old(f).n())
    ensures final(f).wf(), final(g).wf(), final(f).n() == old(f).n(), final(g).n() == old(f).n(),
        final(f).sv() == (mt(t).0 * old(f).sv() + mt(t).1 * old(g).sv()) / P62(),
        final(g).sv() == (mt(t).2 * old(f).sv() + mt(t).3 * old(g).sv()) / P62()
//@-
{
//@+
    proof {
        let n = f.n(); let ff = f.sv(); let gg = g.sv(); let q = q62(n);
        let t0 = mt(t).0; let t1 = mt(t).1; let t2 = mt(t).2; let t3 = mt(t).3;
        lemma_abs_mul_bound(t0, ff, P62()); lemma_abs_mul_bound(t1, gg, P62()); lemma_abs_mul_bound(t2, ff, P62()); lemma_abs_mul_bound(t3, gg, P62());
        assert(ff * t0 == t0 * ff && gg * t1 == t1 * gg && ff * t2 == t2 * ff && gg * t3 == t3 * gg) by (nonlinear_arith);
        let w = if ab(ff) < ab(gg) { ab(gg) } else { ab(ff) };
        lemma_abs_mul_bound(ff, t0, w); lemma_abs_mul_bound(gg, t1, w); lemma_abs_mul_bound(ff, t2, w); lemma_abs_mul_bound(gg, t3, w);
        assert(w * ab(t0) + w * ab(t1) <= w * P62()) by (nonlinear_arith) requires ab(t0) + ab(t1) <= P62(), w >= 0;
        assert(w * ab(t2) + w * ab(t3) <= w * P62()) by (nonlinear_arith) requires ab(t2) + ab(t3) <= P62(), w >= 0;
        assert(4 * (w * P62()) <= q) by (nonlinear_arith) requires 4 * P62() * w <= q;
        lemma_q62_ge(n);
        assert(ab(ff * t0) <= w * ab(t0) && ab(gg * t1) <= w * ab(t1) && ab(ff * t2) <= w * ab(t2) && ab(gg * t3) <= w * ab(t3));
        assert(ab(ff * t0 + gg * t1) <= w * P62() && ab(ff * t2 + gg * t3) <= w * P62());
        assert(sfits(ff * t0 + gg * t1, n) && sfits(ff * t2 + gg * t3, n));
        lemma_wrap2(ff * t0, gg * t1, n); lemma_wrap2(ff * t2, gg * t3, n);
    }
//@-
    // TODO(tarcieri): reduce allocations
    let mut f2 = (&*f).mul(t[0][0]);
    f2 += (&*g).mul(t[0][1]);
    f2.shr_assign();
    let mut g2 = (&*f).mul(t[1][0]);
    g2 += (&*g).mul(t[1][1]);
    g2.shr_assign();
    *f = f2;
    *g = g2;
}
//@@ end
//@@ subst-clear
//@@ subst \b(Self|BoxedUnsatInt)::(MASK|LIMB_BITS)\b(?!\() => \1::\2()
//@@ fn src/modular/safegcd/boxed.rs | - | de | body | props C10
pub fn de(
    modulus: &BoxedUnsatInt,
    inverse: i64,
    t: Matrix,
    d: &mut BoxedUnsatInt,
    e: &mut BoxedUnsatInt,
)
//@+
    // total for every modulus / inverse (all steps wrap); the functional facts are conditional   (as `de` of l4_safegcd.rs)
    requires modulus.wf(), old(d).wf(), old(e).wf(), old(d).n() == modulus.n(), old(e).n() == modulus.n(),
        ab(mt(t).0) + ab(mt(t).1) <= P62(), ab(mt(t).2) + ab(mt(t).3) <= P62()
    ensures final(d).wf(), final(e).wf(), final(d).n() == modulus.n(), final(e).n() == modulus.n(),
        de_pre(modulus.sv(), inverse as int, old(d).sv(), old(e).sv(), modulus.n()) ==> (
            -2 * modulus.sv() < final(d).sv() <= modulus.sv() && -2 * modulus.sv() < final(e).sv() <= modulus.sv()
            && ((old(d).sv() < modulus.sv() && old(e).sv() < modulus.sv()) ==> (final(d).sv() < modulus.sv() && final(e).sv() < modulus.sv()))
            && cong(P62() * final(d).sv(), mt(t).0 * old(d).sv() + mt(t).1 * old(e).sv(), modulus.sv())
            && cong(P62() * final(e).sv(), mt(t).2 * old(d).sv() + mt(t).3 * old(e).sv(), modulus.sv())),
        // modulus 0: plain floor division
        (modulus.sv() == 0 && modulus.n() >= 2 && ab(old(d).sv()) <= 1 && ab(old(e).sv()) <= 1) ==> (
            final(d).sv() == (mt(t).0 * old(d).sv() + mt(t).1 * old(e).sv()) / P62()
            && final(e).sv() == (mt(t).2 * old(d).sv() + mt(t).3 * old(e).sv()) / P62())
//@-
{
//@+
    let ghost n = modulus.n(); let ghost mm = modulus.sv(); let ghost dd = d.sv(); let ghost ee = e.sv(); let ghost q = q62(n);
    let ghost t0 = mt(t).0; let ghost t1 = mt(t).1; let ghost t2 = mt(t).2; let ghost t3 = mt(t).3;
    let ghost nd: int = if dd < 0 { 1 } else { 0 }; let ghost ne: int = if ee < 0 { 1 } else { 0 };
    let ghost dl = d.0@[0] as int; let ghost el = e.0@[0] as int; let ghost d0w = d.0@[0]; let ghost e0w = e.0@[0];
    proof {
        d.lemma_low(); e.lemma_low(); d.lemma_range(); e.lemma_range(); modulus.lemma_range();
        assert(t0 * nd == (if nd == 0 { 0 } else { t0 }) && t1 * ne == (if ne == 0 { 0 } else { t1 })
            && t2 * nd == (if nd == 0 { 0 } else { t2 }) && t3 * ne == (if ne == 0 { 0 } else { t3 })) by (nonlinear_arith)
            requires nd == 0 || nd == 1, ne == 0 || ne == 1;
        assert(d.0@[0] <= 0x3fff_ffff_ffff_ffffu64 && e.0@[0] <= 0x3fff_ffff_ffff_ffffu64);
    }
//@-
    let mask = BoxedUnsatInt::MASK() as i64;
    let mut md =
        t[0][0] * d.is_negative().unwrap_u8() as i64 + t[0][1] * e.is_negative().unwrap_u8() as i64;
    let mut me =
        t[1][0] * d.is_negative().unwrap_u8() as i64 + t[1][1] * e.is_negative().unwrap_u8() as i64;
//@+
    let ghost md0 = md as int; let ghost me0 = me as int;
    proof { assert(md0 == t0 * nd + t1 * ne && me0 == t2 * nd + t3 * ne); }
//@-
    let cd = t[0][0]
        .wrapping_mul(d.lowest() as i64)
        .wrapping_add(t[0][1].wrapping_mul(e.lowest() as i64))
        & mask;
//@+
    proof {
        let w1 = wi::wrapping_mul(t[0][0], d0w as i64); let w2 = wi::wrapping_mul(t[0][1], e0w as i64); let w3 = wi::wrapping_add(w1, w2);
        lemma_iwrap(t[0][0], d0w as i64); lemma_iwrap(t[0][1], e0w as i64); lemma_iwrap(w1, w2);
        lemma_and_mask_i64(w3, cd);
        lemma_word_lin(t0, dl, t1, el, w1 as int, w2 as int, w3 as int, cd as int);
    }
//@-
    let ce = t[1][0]
        .wrapping_mul(d.lowest() as i64)
        .wrapping_add(t[1][1].wrapping_mul(e.lowest() as i64))
        & mask;
//@+
    proof {
        let w1 = wi::wrapping_mul(t[1][0], d0w as i64); let w2 = wi::wrapping_mul(t[1][1], e0w as i64); let w3 = wi::wrapping_add(w1, w2);
        lemma_iwrap(t[1][0], d0w as i64); lemma_iwrap(t[1][1], e0w as i64); lemma_iwrap(w1, w2);
        lemma_and_mask_i64(w3, ce);
        lemma_word_lin(t2, dl, t3, el, w1 as int, w2 as int, w3 as int, ce as int);
    }
    let ghost kd = (wi::wrapping_add(wi::wrapping_mul(inverse, cd), md) & mask) as int;
    let ghost ke = (wi::wrapping_add(wi::wrapping_mul(inverse, ce), me) & mask) as int;
    proof {
        let w1 = wi::wrapping_mul(inverse, cd); let w3 = wi::wrapping_add(w1, md);
        lemma_iwrap(inverse, cd); lemma_iwrap(w1, md); lemma_iwrap(inverse, ce);
        assert(cong(md0, 1 * md0, B()) && cong(me0, 1 * me0, B()));
        lemma_and_mask_i64(w3, w3 & mask);
        lemma_word_lin(inverse as int, cd as int, 1, md0, w1 as int, md0, w3 as int, kd);
        let v1 = wi::wrapping_mul(inverse, ce); let v3 = wi::wrapping_add(v1, me);
        lemma_iwrap(v1, me);
        lemma_and_mask_i64(v3, v3 & mask);
        lemma_word_lin(inverse as int, ce as int, 1, me0, v1 as int, me0, v3 as int, ke);
    }
//@-
    md -= (inverse.wrapping_mul(cd).wrapping_add(md)) & mask;
    me -= (inverse.wrapping_mul(ce).wrapping_add(me)) & mask;
//@+
    let ghost dp = de_pre(mm, inverse as int, dd, ee, n); let ghost zp = mm == 0 && n >= 2 && ab(dd) <= 1 && ab(ee) <= 1;
    let ghost totd = dd * t0 + ee * t1 + mm * (md as int); let ghost tote = dd * t2 + ee * t3 + mm * (me as int);
    proof {
        assert(md as int == md0 - kd && me as int == me0 - ke);
        if dp {
        lemma_de_divisible(dd, ee, mm, t0, t1, dl, el, cd as int, inverse as int, md0, kd);
        lemma_de_divisible(dd, ee, mm, t2, t3, dl, el, ce as int, inverse as int, me0, ke);
        lemma_fundamental_div_mod(totd, P62()); lemma_fundamental_div_mod(tote, P62());
        let rd = totd / P62(); let re = tote / P62();
        lemma_de_range(dd, ee, mm, t0, t1, md0, kd, rd, 0); lemma_de_range(dd, ee, mm, t2, t3, me0, ke, re, 0);
        if dd < mm && ee < mm { lemma_de_range(dd, ee, mm, t0, t1, md0, kd, rd, 1); lemma_de_range(dd, ee, mm, t2, t3, me0, ke, re, 1); }
        // the sums fit (the intermediate ones may wrap)
        assert(P62() * (2 * mm) * 2 <= q) by (nonlinear_arith) requires mm * B() <= q, mm >= 1;
        assert(ab(totd) <= P62() * (2 * mm) && ab(tote) <= P62() * (2 * mm)) by (nonlinear_arith)
            requires totd == P62() * rd, tote == P62() * re, -2 * mm < rd <= mm, -2 * mm < re <= mm;
        lemma_wrap3(dd * t0, ee * t1, mm * (md as int), n); lemma_wrap3(dd * t2, ee * t3, mm * (me as int), n);
        // congruence modulo M
        assert(P62() * rd - (t0 * dd + t1 * ee) == (md0 - kd) * mm) by (nonlinear_arith) requires P62() * rd == dd * t0 + ee * t1 + mm * (md0 - kd);
        assert(P62() * re - (t2 * dd + t3 * ee) == (me0 - ke) * mm) by (nonlinear_arith) requires P62() * re == dd * t2 + ee * t3 + mm * (me0 - ke);
        lemma_cong_mult(P62() * rd, t0 * dd + t1 * ee, md0 - kd, mm); lemma_cong_mult(P62() * re, t2 * dd + t3 * ee, me0 - ke, mm);
        }
        if zp {
            let mdi = md as int; let mei = me as int;
            assert(mm * mdi == 0 && mm * mei == 0) by (nonlinear_arith) requires mm == 0;
            lemma_abs_mul_bound(dd, t0, 1); lemma_abs_mul_bound(ee, t1, 1); lemma_abs_mul_bound(dd, t2, 1); lemma_abs_mul_bound(ee, t3, 1);
            lemma_q62_succ((n - 1) as nat); lemma_q62_ge((n - 1) as nat);
            assert(q >= P62() * P62()) by (nonlinear_arith) requires q == P62() * q62((n - 1) as nat), q62((n - 1) as nat) >= P62();
            assert(dd * t0 == t0 * dd && ee * t1 == t1 * ee && dd * t2 == t2 * dd && ee * t3 == t3 * ee) by (nonlinear_arith);
            lemma_wrap3(dd * t0, ee * t1, 0, n); lemma_wrap3(dd * t2, ee * t3, 0, n);
        }
    }
//@-
    let mut cd = d.mul(t[0][0]);
    cd += &e.mul(t[0][1]);
    cd += &modulus.mul(md);
//@+
    proof { if dp || zp { assert(cd.sv() == totd); } }
//@-
    cd.shr_assign();
    let mut ce = d.mul(t[1][0]);
    ce += &e.mul(t[1][1]);
    ce += &modulus.mul(me);
//@+
    proof { if dp || zp { assert(ce.sv() == tote); } }
//@-
    ce.shr_assign();
    *d = cd;
    *e = ce;
}
//@@ end

//@@ macroblock src/modular/safegcd/macros.rs | impl_limb_convert | arm 0 | input_type=Word,input_bits=Word::BITS as usize,input=input,output_type=(u64),output_bits=62,output=output | limb_convert_sat_to_unsat_s | body | props C10 | sig pub fn limb_convert_sat_to_unsat_s(input: &[Word], output: &mut [u64])
pub fn limb_convert_sat_to_unsat_s(input: &[Word], output: &mut [u64])
//@+
    requires input@.len() * 64 <= 0xffff_ffff, old(output)@.len() * 62 <= 0xffff_ffff,
        forall|k: int| 0 <= k < old(output)@.len() ==> old(output)@[k] == 0,
    ensures final(output)@.len() == old(output)@.len(),
        rv(final(output)@, old(output)@.len(), 62) == rv(input@, input@.len(), 64) % p2(min_int((input@.len() * 64) as int, (old(output)@.len() * 62) as int) as nat),
        forall|k: int| 0 <= k < old(output)@.len() ==> final(output)@[k] <= 0x3fff_ffff_ffff_ffffu64,
//@-
{
//@+
        let ghost n_in = input@.len(); let ghost n_out = output@.len(); let ghost nv = rv(input@, n_in, 64);
        proof {
            let wb = Word::BITS as usize; let li = input.len(); let lo = output.len();
            assert(li * wb == li * 64 && lo * wb == lo * 64) by (nonlinear_arith) requires wb == 64;
            lemma2_to64(); lemma2_to64_rest();
            assert forall|k: int| 0 <= k < n_in implies (#[trigger] input@[k] as int) < p2(64) by { }
            lemma_conv_init(nv, output@, n_out, 62);
        }
//@-
        // This function is defined because the method "min" of the usize type is not constant
//@+
        #[verus_spec(m => ensures m == (if a > b { b } else { a }))]
//@-
        const fn min(a: usize, b: usize) -> usize {
            if a > b {
                b
            } else {
                a
            }
        }
        let total = min(input.len() * Word::BITS as usize, output.len() * 62);
        let mut bits = 0;
        while bits < total
//@+
            invariant
                bits <= total, total as int == min_int((n_in * 64) as int, (n_out * 62) as int), nv == rv(input@, n_in, 64),
                n_in * 64 <= 0xffff_ffff, n_out * 62 <= 0xffff_ffff, output@.len() == n_out, input@.len() == n_in,
                forall|k: int| 0 <= k < n_in ==> (#[trigger] input@[k] as int) < p2(64),
                conv_inv(nv, output@, n_out, 62, bits as nat),
//@-
//@+
            decreases total - bits
//@-
{
//@+
            let ghost out0 = output@; let ghost b0 = bits as nat;
            proof {
                let wb = Word::BITS as usize;
                assert(bits % wb == bits % 64 && bits / wb == bits / 64);
                assert(b0 / 64 < n_in) by (nonlinear_arith) requires b0 < n_in * 64;
                assert(b0 / 62 < n_out) by (nonlinear_arith) requires b0 < n_out * 62;
            }
//@-
            let (i, o) = (bits % Word::BITS as usize, bits % 62);
            output[bits / 62] |= (input[bits / Word::BITS as usize] >> i) as (u64) << o;
//@+
            proof {
                let ko = (b0 / 62) as int; let j = (b0 / 64) as int;
                assert(output@ == out0.update(ko, output@[ko]));
                assert(output@[ko] == out0[ko] | ((input@[j] >> (i as u32)) << (o as u32)));
                lemma_conv_word(out0[ko], input@[j], i as u32, o as u32, 62, output@[ko]);
                let step = min_int(64 - b0 % 64, 62 - b0 % 62);
                lemma_conv_step(nv, input@, n_in, 64, out0, n_out, 62, b0, step as nat, output@[ko]);
                // the step does not pass the end
                assert(b0 + step <= total) by {
                    lemma_fundamental_div_mod(b0 as int, 64); lemma_fundamental_div_mod(b0 as int, 62);
                    assert(64 * (b0 / 64 + 1) <= 64 * n_in) by (nonlinear_arith) requires b0 / 64 + 1 <= n_in;
                    assert(62 * (b0 / 62 + 1) <= 62 * n_out) by (nonlinear_arith) requires b0 / 62 + 1 <= n_out;
                }
            }
//@-
            bits += min(Word::BITS as usize - i, 62 - o);
        }
        let mask = (<(u64)>::MAX as (u64)) >> (<(u64)>::BITS as usize - 62);
        let mut filled = total / 62 + if total % 62 > 0 { 1 } else { 0 };
//@+
        let ghost out1 = output@; let ghost filled0 = filled;
        proof {
            let wb = Word::BITS as usize;
            assert(total % wb == total % 64 && total / wb == total / 64);
            lemma_fundamental_div_mod(total as int, 62);
            assert(filled0 <= n_out) by (nonlinear_arith) requires total <= n_out * 62, total == 62 * (total / 62) + total % 62, 0 <= total % 62 < 62,
                filled0 == total / 62 + (if total % 62 > 0 { 1int } else { 0int });
            assert(0xffff_ffff_ffff_ffffu64 >> 2usize == 0x3fff_ffff_ffff_ffffu64 && 0xffff_ffff_ffff_ffffu64 >> 0usize == 0xffff_ffff_ffff_ffffu64) by (bit_vector);
        }
//@-
        while filled > 0
//@+
            invariant
                filled <= filled0 <= n_out, output@.len() == n_out, out1.len() == n_out,
                forall|k: int| filled <= k < filled0 ==> output@[k] == out1[k] & mask,
                forall|k: int| 0 <= k < n_out && (k < filled || k >= filled0) ==> output@[k] == out1[k],
//@-
//@+
            decreases filled
//@-
{
            filled -= 1;
            output[filled] &= mask;
        }
//@+
        proof {
            assert(mask == 0x3fff_ffff_ffff_ffffu64);
            assert(bits == total);
            lemma_fundamental_div_mod(total as int, 62);
            sg_p2_pos(62);
            assert forall|k: int| 0 <= k < n_out implies output@[k] as int == out1[k] as int % p2(62) by {
                let w = out1[k];
                if k < filled0 {
                    assert(w & 0x3fff_ffff_ffff_ffffu64 == w % 0x4000_0000_0000_0000u64) by (bit_vector);
                } else {
                    assert(62 * k >= total) by (nonlinear_arith) requires k >= filled0, total == 62 * (total / 62) + total % 62, total % 62 < 62,
                        filled0 == total / 62 + (if total % 62 > 0 { 1int } else { 0int });
                    assert(out1[k] == 0);
                    lemma_small_mod(0, p2(62) as nat);
                }
            }
            lemma_rvm_rv(out1, output@, n_out, 62);
        }
//@-
    }
//@@ end
//@@ macroblock src/modular/safegcd/macros.rs | impl_limb_convert | arm 0 | input_type=u64,input_bits=62,input=input,output_type=(Word),output_bits=Word::BITS as usize,output=output | limb_convert_unsat_to_sat_s | body | props C10 | sig pub fn limb_convert_unsat_to_sat_s(input: &[u64], output: &mut [Word])
pub fn limb_convert_unsat_to_sat_s(input: &[u64], output: &mut [Word])
//@+
    requires input@.len() * 62 <= 0xffff_ffff, old(output)@.len() * 64 <= 0xffff_ffff, forall|k: int| 0 <= k < input@.len() ==> input@[k] <= 0x3fff_ffff_ffff_ffffu64,
        forall|k: int| 0 <= k < old(output)@.len() ==> old(output)@[k] == 0,
    ensures final(output)@.len() == old(output)@.len(),
        rv(final(output)@, old(output)@.len(), 64) == rv(input@, input@.len(), 62) % p2(min_int((input@.len() * 62) as int, (old(output)@.len() * 64) as int) as nat),
//@-
{
//@+
        let ghost n_in = input@.len(); let ghost n_out = output@.len(); let ghost nv = rv(input@, n_in, 62);
        proof {
            let wb = Word::BITS as usize; let li = input.len(); let lo = output.len();
            assert(li * wb == li * 64 && lo * wb == lo * 64) by (nonlinear_arith) requires wb == 64;
            lemma2_to64(); lemma2_to64_rest();
            assert forall|k: int| 0 <= k < n_in implies (#[trigger] input@[k] as int) < p2(62) by { }
            lemma_conv_init(nv, output@, n_out, 64);
        }
//@-
        // This function is defined because the method "min" of the usize type is not constant
//@+
        #[verus_spec(m => ensures m == (if a > b { b } else { a }))]
//@-
        const fn min(a: usize, b: usize) -> usize {
            if a > b {
                b
            } else {
                a
            }
        }
        let total = min(input.len() * 62, output.len() * Word::BITS as usize);
        let mut bits = 0;
        while bits < total
//@+
            invariant
                bits <= total, total as int == min_int((n_in * 62) as int, (n_out * 64) as int), nv == rv(input@, n_in, 62),
                n_in * 62 <= 0xffff_ffff, n_out * 64 <= 0xffff_ffff, output@.len() == n_out, input@.len() == n_in,
                forall|k: int| 0 <= k < n_in ==> (#[trigger] input@[k] as int) < p2(62),
                conv_inv(nv, output@, n_out, 64, bits as nat),
//@-
//@+
            decreases total - bits
//@-
{
//@+
            let ghost out0 = output@; let ghost b0 = bits as nat;
            proof {
                let wb = Word::BITS as usize;
                assert(bits % wb == bits % 64 && bits / wb == bits / 64);
                assert(b0 / 62 < n_in) by (nonlinear_arith) requires b0 < n_in * 62;
                assert(b0 / 64 < n_out) by (nonlinear_arith) requires b0 < n_out * 64;
            }
//@-
            let (i, o) = (bits % 62, bits % Word::BITS as usize);
            output[bits / Word::BITS as usize] |= (input[bits / 62] >> i) as (Word) << o;
//@+
            proof {
                let ko = (b0 / 64) as int; let j = (b0 / 62) as int;
                assert(output@ == out0.update(ko, output@[ko]));
                assert(output@[ko] == out0[ko] | ((input@[j] >> (i as u32)) << (o as u32)));
                lemma_conv_word(out0[ko], input@[j], i as u32, o as u32, 64, output@[ko]);
                let step = min_int(62 - b0 % 62, 64 - b0 % 64);
                lemma_conv_step(nv, input@, n_in, 62, out0, n_out, 64, b0, step as nat, output@[ko]);
                // the step does not pass the end
                assert(b0 + step <= total) by {
                    lemma_fundamental_div_mod(b0 as int, 62); lemma_fundamental_div_mod(b0 as int, 64);
                    assert(62 * (b0 / 62 + 1) <= 62 * n_in) by (nonlinear_arith) requires b0 / 62 + 1 <= n_in;
                    assert(64 * (b0 / 64 + 1) <= 64 * n_out) by (nonlinear_arith) requires b0 / 64 + 1 <= n_out;
                }
            }
//@-
            bits += min(62 - i, Word::BITS as usize - o);
        }
        let mask = (<(Word)>::MAX as (Word)) >> (<(Word)>::BITS as usize - Word::BITS as usize);
        let mut filled = total / Word::BITS as usize + if total % Word::BITS as usize > 0 { 1 } else { 0 };
//@+
        let ghost out1 = output@; let ghost filled0 = filled;
        proof {
            let wb = Word::BITS as usize;
            assert(total % wb == total % 64 && total / wb == total / 64);
            lemma_fundamental_div_mod(total as int, 64);
            assert(filled0 <= n_out) by (nonlinear_arith) requires total <= n_out * 64, total == 64 * (total / 64) + total % 64, 0 <= total % 64 < 64,
                filled0 == total / 64 + (if total % 64 > 0 { 1int } else { 0int });
            assert(0xffff_ffff_ffff_ffffu64 >> 2usize == 0x3fff_ffff_ffff_ffffu64 && 0xffff_ffff_ffff_ffffu64 >> 0usize == 0xffff_ffff_ffff_ffffu64) by (bit_vector);
        }
//@-
        while filled > 0
//@+
            invariant
                filled <= filled0 <= n_out, output@.len() == n_out, out1.len() == n_out,
                forall|k: int| filled <= k < filled0 ==> output@[k] == out1[k] & mask,
                forall|k: int| 0 <= k < n_out && (k < filled || k >= filled0) ==> output@[k] == out1[k],
//@-
//@+
            decreases filled
//@-
{
            filled -= 1;
            output[filled] &= mask;
        }
//@+
        proof {
            assert(mask == 0xffff_ffff_ffff_ffffu64);
            assert(bits == total);
            lemma_fundamental_div_mod(total as int, 64);
            sg_p2_pos(64);
            assert forall|k: int| 0 <= k < n_out implies output@[k] as int == out1[k] as int % p2(64) by {
                let w = out1[k];
                if k < filled0 {
                    assert(w & 0xffff_ffff_ffff_ffffu64 == w) by (bit_vector); lemma_small_mod(w as nat, p2(64) as nat);
                } else {
                    assert(64 * k >= total) by (nonlinear_arith) requires k >= filled0, total == 64 * (total / 64) + total % 64, total % 64 < 64,
                        filled0 == total / 64 + (if total % 64 > 0 { 1int } else { 0int });
                    assert(out1[k] == 0);
                    lemma_small_mod(0, p2(64) as nat);
                }
            }
            lemma_rvm_rv(out1, output@, n_out, 64);
        }
//@-
    }
//@@ end

//@@ fn src/modular/safegcd/boxed.rs | impl BoxedUnsatInt | from_uint_widened | body | props C10
impl BoxedUnsatInt {
pub fn from_uint_widened(input: &BoxedUint, nlimbs: usize) -> (ret__: BoxedUnsatInt)
//@+
    // `debug_assert!(nlimbs >= unsat_nlimbs_for_sat_nlimbs(input.nlimbs()))`: room for the value plus 64 bits; size limits of the usize / u32 arithmetic
    requires 1 <= input.nl() <= 0x3ff_fffe, 62 * nlimbs >= 64 * input.nl() + 64, nlimbs * 62 <= 0xffff_ffff
    ensures ret__.wf(), ret__.n() == nlimbs, ret__.uv() == input.v(), ret__.sv() == input.v(),
        ret__.0@[0] as int == input.v() % P62()
//@-
{
//@+
    let ghost sn = input.nl(); let ghost un = nlimbs as nat; let ghost iv = input.v(); let ghost il = input.limbs@;
//@-
        debug_assert!(nlimbs >= unsat_nlimbs_for_sat_nlimbs(input.nlimbs()));
        // Workaround for 32-bit platforms: if the input is a single limb, it will be smaller input
        // than is usable for Bernstein-Yang with is currently natively 64-bits on all targets
        let mut tmp: [Word; 2] = [0; 2];
        let input = if Word::BITS == 32 && input.nlimbs() == 1 {
            tmp[0] = input.limbs[0].0;
            &tmp
        } else {
            input.as_words()
        };
        let mut output = vec![0u64; nlimbs];
        impl_limb_convert!(Word, Word::BITS as usize, input, u64, 62, output);
//@+
        proof {
            lemma_rv_val(input@, il, sn);
            lemma_rv_uval(output@, un);
            lemma_val_bound(il, sn); lemma_bp_pow2(sn);
            assert(min_int((sn * 64) as int, (un * 62) as int) == 64 * sn);
            lemma_small_mod(iv as nat, p2(64 * sn) as nat);
            lemma_nlimbs_room(sn, un);
            assert forall|s: Seq<u64>| s =~= output@ implies #[trigger] uval(s, s.len()) == iv by { }
            assert(2 * iv < q62(un)) by (nonlinear_arith) requires iv < bp(sn), bp(sn) * B() <= q62(un), bp(sn) > 0;
            assert(0 * q62(un) == 0);
            // the low limb
            lemma_uval_shift(output@, un);
            lemma_fundamental_div_mod_converse(iv, P62(), uval(output@.subrange(1, un as int), (un - 1) as nat), output@[0] as int);
        }
//@-
        Self(output.into())
    }
}
//@@ end
//@@ fn src/modular/safegcd/boxed.rs | impl BoxedUnsatInt | to_uint | body | props C10
impl BoxedUnsatInt {
pub fn to_uint(&self, mut bits_precision: u32) -> (ret__: BoxedUint)
//@+
    // `assert!(!self.is_negative())`; `debug_assert_eq!(self.nlimbs(), safegcd_nlimbs!(bits_precision))`; the callers pass the precision of a
    // BoxedUint (a positive multiple of 64; the 32-bit branch is dead on 64-bit targets)
    requires self.wf(), self.sv() >= 0, bits_precision >= 64, bits_precision % 64 == 0, bits_precision as int / 64 <= 0x3ff_fffe,
        sg_nlimbs_ok(bits_precision as int / 64, self.n() as int)
    ensures ret__.nl() == bits_precision as int / 64, ret__.v() == self.uv() % bp((bits_precision as int / 64) as nat)
//@-
{
//@+
    let ghost sn = (bits_precision as int / 64) as nat; let ghost un = self.n();
    proof { self.lemma_range(); }
//@-
        // Shorten to the required value after conversion.
        let shorten = bits_precision == 32;
        // The current Bernstein-Yang implementation is natively 64-bit on all targets
        if bits_precision == 32 {
            bits_precision = 64;
        }
        debug_assert_eq!(self.nlimbs(), safegcd_nlimbs!(bits_precision as usize));
        assert!(
            !bool::from(self.is_negative()),
            "can't convert negative number to BoxedUint"
        );
        let mut ret = BoxedUint {
            limbs: vec![Limb::ZERO; nlimbs!(bits_precision)].into(),
        };
        impl_limb_convert!(
            u64,
            62,
            &self.0,
            Word,
            Word::BITS as usize,
            ret.as_words_mut()
        );
//@+
        proof {
            lemma_rv_val(words_of(ret.limbs@), ret.limbs@, sn);
            lemma_rv_uval(self.0@, un);
            lemma_bp_pow2(sn);
            assert(min_int((un * 62) as int, (sn * 64) as int) == 64 * sn);
        }
//@-
        if shorten {
            debug_assert!(ret.bits_vartime() <= 32);
            ret.shorten(32)
        } else {
            ret
        }
    }
}
//@@ end

// ================================================================ the iteration bound for the boxed constant-time `divsteps`
/// Theorem 11.2 of Bernstein-Yang, "Fast constant-time gcd computation and modular inversion" (eprint 2019/266), in its ORIGINAL step-count
/// form: for odd f and 0 <= f, g < 2^d (hence f^2 + 4 g^2 <= 5 * 2^(2d)), divstep^m(1, f, g) has g_m = 0 for m = iterations(d) (Figure 11.1).
/// ASSUMED (`external_body`, the same theorem as `axiom_bernstein_yang_bound` of l4_safegcd.rs, which states the weaker consequence
/// "g = 0 after 62 * m' steps for every m' >= iterations(d)" that suffices for the fixed-width code).  The boxed code needs the original form
/// because `BoxedUnsatInt::bits` is not the bit length (FINDING at `leading_zeros`): `divsteps` runs m = iterations(c) ROUNDS with a c that is
/// only known to satisfy f, g < 2^(62 c); 62 m >= iterations(62 c + 1) single steps are then enough (`lemma_iter_rounds`).
#[verifier::external_body]
pub proof fn axiom_bernstein_yang_bound_steps(f: int, g: int, d: nat)
    requires f % 2 == 1, 0 <= f < p2(d), 0 <= g < p2(d)
    ensures divsteps_n(sg_iterations(d as int) as nat, (1, f, g)).2 == 0
{ }

/// g stays 0 from step iterations(d) on
pub proof fn lemma_by_steps(f: int, g: int, d: nat, k: nat)
    requires f % 2 == 1, 0 <= f < p2(d), 0 <= g < p2(d), k >= sg_iterations(d as int)
    ensures divsteps_n(k, (1, f, g)).2 == 0
{
    let m = sg_iterations(d as int) as nat;
    axiom_bernstein_yang_bound_steps(f, g, d);
    lemma_divsteps_add(m, (k - m) as nat, (1, f, g));
    assert(m + (k - m) as nat == k);
    lemma_divsteps_g_zero((k - m) as nat, divsteps_n(m, (1, f, g)));
}

/// `divsteps_vartime`: while g != 0 the round counter is below the bound m0 (termination), and a zero-modulus run is still before its swap
pub proof fn lemma_vt_progress(mm: int, x: int, n: nat, meff: int, m0: nat, i: nat, dl: int, fv: int, gv: int, zp: bool)
    requires gv != 0, mm >= 0, x >= 0, 2 * x < p2(62 * n), meff == (if mm % 2 == 1 { mm } else { mm + x }),
        mm != 0 ==> divsteps_n((62 * m0) as nat, (1int, meff, x)).2 == 0, mm == 0 ==> m0 == n,
        mm != 0 ==> ((i == 0 ==> (dl, fv, gv) == (1int, mm, x))
            && ((i >= 1 || mm % 2 == 1) ==> (dl, fv, gv) == divsteps_n((62 * i) as nat, (1int, meff, x)))),
        mm == 0 ==> ((zp ==> gv * p2((62 * i) as nat) == x) && (!zp ==> gv == 0)),
    ensures i < m0, mm == 0 ==> zp
{
    let s0 = (1int, meff, x);
    if mm != 0 && i >= m0 {
        lemma_divsteps_add((62 * m0) as nat, (62 * (i - m0)) as nat, s0);
        assert((62 * m0) as nat + (62 * (i - m0)) as nat == (62 * i) as nat);
        lemma_divsteps_g_zero((62 * (i - m0)) as nat, divsteps_n((62 * m0) as nat, s0));
        assert(i >= 1 || mm % 2 == 1) by { if i == 0 { assert(m0 == 0); assert(divsteps_n(0, s0) == s0); } }
        assert(false);
    }
    if mm == 0 {
        assert(zp);
        if i >= m0 {
            sg_p2_mono(62 * n, (62 * i) as nat);
            sg_p2_pos((62 * i) as nat);
            assert(gv >= 0) by (nonlinear_arith) requires gv * p2((62 * i) as nat) == x, x >= 0, p2((62 * i) as nat) > 0;
            assert(false) by (nonlinear_arith) requires gv * p2((62 * i) as nat) == x, gv >= 1, 2 * x < p2(62 * n), p2(62 * n) <= p2((62 * i) as nat);
        }
    }
}

/// m rounds of 62 steps, m = iterations(c), cover iterations(62 c + 1) steps
pub proof fn lemma_iter_rounds(c: int)
    requires 0 <= c <= 62 * SG_MAX_UNSAT()
    ensures 62 * sg_iterations(c) >= sg_iterations(62 * c + 1), sg_iterations(62 * c + 1) >= sg_iterations(62 * c),
        c <= sg_iterations(c) <= 0x1000_0000, sg_iterations(62 * c) >= 0
{ }

//@@ fn src/modular/safegcd/boxed.rs | - | divsteps | body | props C10
pub fn divsteps(
    d: &mut BoxedUnsatInt,
    e: &BoxedUnsatInt,
    f_0: &BoxedUnsatInt,
    g: &mut BoxedUnsatInt,
    inverse: i64,
) -> (ret__: BoxedUnsatInt)
//@+
    // domain as for the fixed-width code: f_0 odd (modular inversion, gcd), f_0 == 0 (inv_mod with a zero modulus, gcd(0, g)), or f_0 even and g odd
    // (Gcd for BoxedUint); `d` is the accumulator the callers initialise with 0
    requires old(d).wf(), e.wf(), f_0.wf(), old(g).wf(), old(d).n() == f_0.n(), e.n() == f_0.n(), old(g).n() == f_0.n(),
        2 <= f_0.n() <= SG_MAX_UNSAT(), old(d).sv() == 0,
        f_0.sv() >= 0, old(g).sv() >= 0, f_0.sv() * B() <= q62(f_0.n()), old(g).sv() * B() <= q62(f_0.n()),
        f_0.sv() % 2 == 1 || f_0.sv() == 0 || old(g).sv() % 2 == 1,
        f_0.sv() == 0 ==> 0 <= e.sv() <= 1,
    ensures final(d).wf(), ret__.wf(), final(g).wf(), final(d).n() == f_0.n(), ret__.n() == f_0.n(), final(g).n() == f_0.n(),
        // |f| = gcd(f_0, g)   (f_0 == 0 with an even non-zero g: f is the odd part of g)
        (f_0.sv() != 0 || old(g).sv() % 2 == 1 || old(g).sv() == 0) ==> ab(ret__.sv()) == sg_gcd(f_0.sv() as nat, old(g).sv() as nat),
        ab(ret__.sv()) <= max_int(f_0.sv(), old(g).sv()),
        f_0.sv() == 0 ==> (ret__.sv() >= 0 && 0 <= final(d).sv() <= 1),
        // f_0 = M odd with its inverse modulo 2^62, e in (-2M, M]:  d in (-2M, M] (in (-2M, M) when e < M) and d * g = f * e (mod M)
        ds_dpre(f_0.sv(), inverse as int, e.sv(), f_0.n()) ==> (
            -2 * f_0.sv() < final(d).sv() <= f_0.sv() && (e.sv() < f_0.sv() ==> final(d).sv() < f_0.sv())
            && cong(final(d).sv() * old(g).sv(), ret__.sv() * e.sv(), f_0.sv()))
//@-
{
//@+
    let ghost mm = f_0.sv(); let ghost x = g.sv(); let ghost aa = e.sv();
    let ghost meff = if mm % 2 == 1 { mm } else { mm + x }; let ghost s0 = (1int, meff, x);
    let ghost bnd = max_int(mm, x); let ghost n = f_0.n(); let ghost q = q62(n);
    let ghost dm = ds_dpre(mm, inverse as int, aa, n);
    let ghost mut zp: bool = true;
    proof {
        f_0.lemma_range(); g.lemma_range(); e.lemma_range(); lemma2_to64_rest(); lemma_q62_ge(n); lemma_q62_pow2(n);
        assert(p2(62) == P62());
        sg_p2_succ(0);
    }
//@-
//@+
    let ghost e0r = e;
    let ghost mut i: nat = 0;
//@-
    debug_assert_eq!(f_0.nlimbs(), g.nlimbs());
    let mut e = e.clone();
    let mut f = f_0.clone();
    let mut delta = 1;
    let mut matrix;
//@+
    proof {
        // the round count the code computes is enough: see the FINDING at `BoxedUnsatInt::leading_zeros` (`bits` is not the bit length; it only
        // guarantees value < 2^(62 bits)), so Theorem 11.2 is needed in its step-count form (62 m divsteps are performed in m rounds)
        assert forall|bf: u32, bg: u32| bf <= 62 * n && bg <= 62 * n && mm < p2((62 * bf) as nat) && x < p2((62 * bg) as nat)
            implies ({ let m = #[trigger] sg_iterations(max_int(bf as int, bg as int));
                0 <= m <= 0x1000_0000 && (mm != 0 ==> divsteps_n((62 * m) as nat, s0).2 == 0) && (mm == 0 ==> x < p2((62 * m) as nat)) }) by {
            let c = max_int(bf as int, bg as int); let m = sg_iterations(c);
            lemma_iter_rounds(c);
            sg_p2_mono((62 * bf) as nat, (62 * c) as nat); sg_p2_mono((62 * bg) as nat, (62 * c) as nat);
            if mm % 2 == 1 {
                lemma_by_steps(mm, x, (62 * c) as nat, (62 * m) as nat);
            } else if mm != 0 {
                // even f_0, odd g: the run coincides with the one from (1, f_0 + g, g); f_0 + g is odd and < 2^(62 c + 1)
                sg_p2_succ((62 * c) as nat);
                lemma_by_steps(mm + x, x, (62 * c + 1) as nat, (62 * m) as nat);
            } else {
                sg_p2_mono((62 * c) as nat, (62 * m) as nat);
            }
        }
    }
//@-
//@+
    proof {
        lemma_sv_eq_seq(&e, e0r); lemma_sv_eq_seq(&f, f_0);
        let d0 = d.sv(); let f0v = f.sv(); let e0 = e.sv(); let g0v = g.sv();
        if dm {
            assert(d0 * x == 0) by (nonlinear_arith) requires d0 == 0;
            assert(0 - f0v * aa == (-aa) * mm) by (nonlinear_arith) requires f0v == mm;
            lemma_cong_mult(0, f0v * aa, -aa, mm);
            assert(e0 * x - g0v * aa == 0 * mm) by (nonlinear_arith) requires e0 == aa, g0v == x;
            lemma_cong_mult(e0 * x, g0v * aa, 0, mm);
        }
        assert(g0v * p2(0) == x) by (nonlinear_arith) requires g0v == x, p2(0) == 1;
        assert(divsteps_n(0, s0) == s0);
    }
//@-
    for _ in 0..iterations(f_0.bits(), g.bits())
//@+
        invariant
            0 <= VERUS_ghost_iter.iter.end <= 0x1000_0000,
            (mm != 0 ==> divsteps_n((62 * VERUS_ghost_iter.iter.end) as nat, s0).2 == 0) && (mm == 0 ==> x < p2((62 * VERUS_ghost_iter.iter.end) as nat)),
            f.wf(), g.wf(), d.wf(), e.wf(), f_0.wf(), f.n() == n, g.n() == n, d.n() == n, e.n() == n, f_0.n() == n, mm == f_0.sv(), q == q62(n), 2 <= n <= SG_MAX_UNSAT(),
            mm >= 0, x >= 0, mm * B() <= q, x * B() <= q, bnd == max_int(mm, x), meff == (if mm % 2 == 1 { mm } else { mm + x }), s0 == (1int, meff, x),
            p2(62) == P62(), mm % 2 == 1 || mm == 0 || x % 2 == 1, dm == ds_dpre(mm, inverse as int, aa, n),
            ab(delta as int) <= 1 + 62 * VERUS_ghost_iter.index@, ab(f.sv()) <= bnd, ab(g.sv()) <= bnd,
            mm != 0 ==> ((VERUS_ghost_iter.index@ == 0 ==> (delta as int, f.sv(), g.sv()) == (1int, mm, x))
                && ((VERUS_ghost_iter.index@ >= 1 || mm % 2 == 1) ==> (delta as int, f.sv(), g.sv()) == divsteps_n((62 * VERUS_ghost_iter.index@) as nat, s0))),
            dm ==> (cong(d.sv() * x, f.sv() * aa, mm) && cong(e.sv() * x, g.sv() * aa, mm)
                && -2 * mm < d.sv() <= mm && -2 * mm < e.sv() <= mm && (aa < mm ==> (d.sv() < mm && e.sv() < mm))),
            mm == 0 ==> ((zp ==> (f.sv() == 0 && delta == 1 + 62 * VERUS_ghost_iter.index@ && g.sv() * p2((62 * VERUS_ghost_iter.index@) as nat) == x && d.sv() == 0 && 0 <= e.sv() <= 1))
                && (!zp ==> (g.sv() == 0 && f.sv() % 2 == 1 && 0 < f.sv() <= x && (x % 2 == 1 ==> f.sv() == x) && 0 <= d.sv() <= 1 && e.sv() == 0))),
            i == VERUS_ghost_iter.index@,
//@-
{
//@+
        let ghost st = (delta as int, f.sv(), g.sv()); let ghost f0w = f.0@[0] as int; let ghost g0w = g.0@[0] as int;
        let ghost dd = d.sv(); let ghost ee = e.sv(); let ghost dl = delta as int;
        let ghost first_even = mm != 0 && mm % 2 == 0 && i == 0;
        proof {
            f.lemma_low(); g.lemma_low();
            assert(f.0@[0] <= 0x3fff_ffff_ffff_ffffu64 && g.0@[0] <= 0x3fff_ffff_ffff_ffffu64);
            if mm != 0 && !first_even {
                if mm % 2 == 1 { lemma_divsteps((62 * i) as nat, s0, bnd); } else { lemma_even_start((62 * i) as nat, mm, x); }
            }
            if mm == 0 && zp {
                // f == 0: its low limb is 0
                let kk = lemma_cong_wit(0, f0w, P62());
                assert(f0w == 0) by (nonlinear_arith) requires 0 - f0w == kk * P62(), 0 <= f0w < P62();
            }
            if mm == 0 && !zp {
                let kk = lemma_cong_wit(0, g0w, P62());
                assert(g0w == 0) by (nonlinear_arith) requires 0 - g0w == kk * P62(), 0 <= g0w < P62();
            }
            // room for fg
            assert(B() == 4 * P62() && (bnd == mm || bnd == x));
            assert(4 * P62() * bnd <= q);
        }
//@-
        let (__t0, __t1) = jump(&f.0, &g.0, delta); delta = __t0; matrix = __t1;
//@+
        let ghost tm = mt(matrix); let ghost d2 = delta as int;
//@-
        fg(&mut f, g, matrix);
        de(f_0, inverse, matrix, d, &mut e);
//@+
        proof {
            let f2 = f.sv(); let g2 = g.sv();
            if mm != 0 {
                if first_even {
                    lemma_round_even_first(mm, x, f0w, g0w, d2, tm, f2, g2);
                    assert((62 * (i + 1)) as nat == 62nat);
                } else {
                    lemma_round_normal((62 * i) as nat, s0, meff + x, st, f0w, g0w, d2, tm, f2, g2);
                    assert((62 * i) as nat + 62 == (62 * (i + 1)) as nat);
                    if mm % 2 == 1 { lemma_divsteps((62 * (i + 1)) as nat, s0, bnd); } else { lemma_even_start((62 * (i + 1)) as nat, mm, x); }
                    if dm {
                        lemma_de_step(mm, x, aa, dd, ee, st.1, st.2, tm.0, tm.1, d.sv(), f2);
                        lemma_de_step(mm, x, aa, dd, ee, st.1, st.2, tm.2, tm.3, e.sv(), g2);
                    }
                }
            } else {
                if zp {
                    sg_p2_pos((62 * i) as nat);
                    assert(st.2 >= 0) by (nonlinear_arith) requires st.2 * p2((62 * i) as nat) == x, x >= 0, p2((62 * i) as nat) > 0;
                    lemma_round_zero_pre(st.2, g0w, ee, dl, d2, tm, f2, g2, d.sv(), e.sv());
                    assert(tm.0 * dd == tm.0 * 0 && tm.2 * dd == tm.2 * 0) by (nonlinear_arith) requires dd == 0;
                    assert(tm.0 * st.1 == tm.0 * 0 && tm.2 * st.1 == tm.2 * 0) by (nonlinear_arith) requires st.1 == 0;
                    if g0w == 0 {
                        sg_p2_add((62 * i) as nat, 62);
                        assert((62 * i) as nat + 62 == (62 * (i + 1)) as nat);
                        assert(g2 * p2((62 * (i + 1)) as nat) == x) by (nonlinear_arith)
                            requires g2 * P62() == st.2, st.2 * p2((62 * i) as nat) == x, p2((62 * (i + 1)) as nat) == p2((62 * i) as nat) * P62();
                        sg_p2_pos((62 * (i + 1)) as nat);
                        assert(0 <= g2 <= x) by (nonlinear_arith) requires g2 * p2((62 * (i + 1)) as nat) == x, p2((62 * (i + 1)) as nat) >= 1, x >= 0;
                    } else {
                        // the swap happened
                        sg_p2_pos((62 * i) as nat);
                        assert(st.2 <= x) by (nonlinear_arith) requires st.2 * p2((62 * i) as nat) == x, p2((62 * i) as nat) >= 1, st.2 >= 0;
                        if x % 2 == 1 {
                            if i > 0 {
                                sg_p2_succ((62 * i - 1) as nat);
                                assert(x == 2 * (st.2 * p2((62 * i - 1) as nat))) by (nonlinear_arith)
                                    requires st.2 * p2((62 * i) as nat) == x, p2((62 * i) as nat) == 2 * p2((62 * i - 1) as nat);
                                assert(false);
                            }
                            sg_p2_succ(0);
                            assert((62 * i) as nat == 0nat);
                            assert(st.2 == x) by (nonlinear_arith) requires st.2 * p2(0) == x, p2(0) == 1;
                        }
                    }
                } else {
                    lemma_round_g_zero(dl, st.1, f0w, dd, ee, d2, tm, f2, g2, d.sv(), e.sv());
                    assert(tm.1 * st.2 == tm.1 * 0 && tm.3 * st.2 == tm.3 * 0) by (nonlinear_arith) requires st.2 == 0;
                }
            }
        }
        proof { if mm == 0 && zp && g0w != 0 { zp = false; } }
        proof { i = i + 1; }
//@-
    }
//@+
    proof {
        assert((mm != 0 ==> divsteps_n((62 * i) as nat, s0).2 == 0) && (mm == 0 ==> x < p2((62 * i) as nat)));
        if mm != 0 {
            lemma_divsteps_g_zero(0, divsteps_n((62 * i) as nat, s0));
            if i == 0 && mm % 2 == 0 { assert(divsteps_n(0, s0) == s0); }
        }
        if mm == 0 && zp {
            sg_p2_pos((62 * i) as nat);
            assert(g.sv() == 0) by (nonlinear_arith) requires g.sv() * p2((62 * i) as nat) == x, 0 <= x < p2((62 * i) as nat), p2((62 * i) as nat) > 0;
        }
    }
    proof {
        assert(g.sv() == 0);
        assert(igcd(f.sv(), 0) == iabs(f.sv()));
        if mm != 0 {
            assert(i >= 1 || mm % 2 == 1) by { if i == 0 && mm % 2 == 0 { assert(x == 0); } }
            if mm % 2 == 1 { lemma_divsteps((62 * i) as nat, s0, bnd); } else { lemma_even_start((62 * i) as nat, mm, x); }
            assert(igcd(mm, x) == sg_gcd(mm as nat, x as nat));
        } else {
            // gcd(0, x) = x
            assert(sg_gcd(0, x as nat) == x) by { if x > 0 { lemma_small_mod(0, x as nat); assert(sg_gcd(0, x as nat) == sg_gcd(x as nat, 0nat % (x as nat))); } }
            if zp { sg_p2_pos((62 * i) as nat); assert(x == 0) by (nonlinear_arith) requires g.sv() * p2((62 * i) as nat) == x, g.sv() == 0; }
        }
    }
//@-
    f
}
//@@ end
//@@ fn src/modular/safegcd/boxed.rs | - | divsteps_vartime | body | props C10
pub fn divsteps_vartime(
    d: &mut BoxedUnsatInt,
    e: &BoxedUnsatInt,
    f_0: &BoxedUnsatInt,
    g: &mut BoxedUnsatInt,
    inverse: i64,
) -> (ret__: BoxedUnsatInt)
//@+
    // domain as for the fixed-width code: f_0 odd (modular inversion, gcd), f_0 == 0 (inv_mod with a zero modulus, gcd(0, g)), or f_0 even and g odd
    // (Gcd for BoxedUint); `d` is the accumulator the callers initialise with 0
    requires old(d).wf(), e.wf(), f_0.wf(), old(g).wf(), old(d).n() == f_0.n(), e.n() == f_0.n(), old(g).n() == f_0.n(),
        2 <= f_0.n() <= SG_MAX_UNSAT(), old(d).sv() == 0,
        f_0.sv() >= 0, old(g).sv() >= 0, f_0.sv() * B() <= q62(f_0.n()), old(g).sv() * B() <= q62(f_0.n()),
        f_0.sv() % 2 == 1 || f_0.sv() == 0 || old(g).sv() % 2 == 1,
        f_0.sv() == 0 ==> 0 <= e.sv() <= 1,
    ensures final(d).wf(), ret__.wf(), final(g).wf(), final(d).n() == f_0.n(), ret__.n() == f_0.n(), final(g).n() == f_0.n(),
        // |f| = gcd(f_0, g)   (f_0 == 0 with an even non-zero g: f is the odd part of g)
        (f_0.sv() != 0 || old(g).sv() % 2 == 1 || old(g).sv() == 0) ==> ab(ret__.sv()) == sg_gcd(f_0.sv() as nat, old(g).sv() as nat),
        ab(ret__.sv()) <= max_int(f_0.sv(), old(g).sv()),
        f_0.sv() == 0 ==> (ret__.sv() >= 0 && 0 <= final(d).sv() <= 1),
        // f_0 = M odd with its inverse modulo 2^62, e in (-2M, M]:  d in (-2M, M] (in (-2M, M) when e < M) and d * g = f * e (mod M)
        ds_dpre(f_0.sv(), inverse as int, e.sv(), f_0.n()) ==> (
            -2 * f_0.sv() < final(d).sv() <= f_0.sv() && (e.sv() < f_0.sv() ==> final(d).sv() < f_0.sv())
            && cong(final(d).sv() * old(g).sv(), ret__.sv() * e.sv(), f_0.sv()))
//@-
{
//@+
    let ghost mm = f_0.sv(); let ghost x = g.sv(); let ghost aa = e.sv();
    let ghost meff = if mm % 2 == 1 { mm } else { mm + x }; let ghost s0 = (1int, meff, x);
    let ghost bnd = max_int(mm, x); let ghost n = f_0.n(); let ghost q = q62(n);
    let ghost dm = ds_dpre(mm, inverse as int, aa, n);
    let ghost mut zp: bool = true;
    proof {
        f_0.lemma_range(); g.lemma_range(); e.lemma_range(); lemma2_to64_rest(); lemma_q62_ge(n); lemma_q62_pow2(n);
        assert(p2(62) == P62());
        sg_p2_succ(0);
    }
//@-
//@+
    let ghost e0r = e;
    let ghost mut i: nat = 0;
    let ghost m0: nat = if mm == 0 { n } else { sg_iterations((62 * n) as int) as nat };
    proof {
        // termination: f_0 != 0: after m0 rounds g is 0 (Theorem 11.2 / its extension with d = 62 n) and stays 0; f_0 == 0: g < 2^(62 n)
        assert(2 * mm < p2(62 * n) && 2 * x < p2(62 * n));
        if mm % 2 == 1 { axiom_bernstein_yang_bound(mm, x, (62 * n) as nat, m0); }
        else if mm != 0 { axiom_bernstein_yang_bound_even_f_odd_g(mm, x, (62 * n) as nat, m0); }
        assert(m0 <= 0x1000_0000);
    }
//@-
    debug_assert_eq!(f_0.nlimbs(), g.nlimbs());
    let mut e = e.clone();
    let mut f = f_0.clone();
    let mut delta = 1;
    let mut matrix;
//@+
    proof {
        lemma_sv_eq_seq(&e, e0r); lemma_sv_eq_seq(&f, f_0);
        let d0 = d.sv(); let f0v = f.sv(); let e0 = e.sv(); let g0v = g.sv();
        if dm {
            assert(d0 * x == 0) by (nonlinear_arith) requires d0 == 0;
            assert(0 - f0v * aa == (-aa) * mm) by (nonlinear_arith) requires f0v == mm;
            lemma_cong_mult(0, f0v * aa, -aa, mm);
            assert(e0 * x - g0v * aa == 0 * mm) by (nonlinear_arith) requires e0 == aa, g0v == x;
            lemma_cong_mult(e0 * x, g0v * aa, 0, mm);
        }
        assert(g0v * p2(0) == x) by (nonlinear_arith) requires g0v == x, p2(0) == 1;
        assert(divsteps_n(0, s0) == s0);
    }
//@-
    while !bool::from(g.is_zero())
//@+
        invariant
            m0 <= 0x1000_0000, mm != 0 ==> divsteps_n((62 * m0) as nat, s0).2 == 0, mm == 0 ==> m0 == n, i <= m0, 2 * x < p2(62 * n),
            f.wf(), g.wf(), d.wf(), e.wf(), f_0.wf(), f.n() == n, g.n() == n, d.n() == n, e.n() == n, f_0.n() == n, mm == f_0.sv(), q == q62(n), 2 <= n <= SG_MAX_UNSAT(),
            mm >= 0, x >= 0, mm * B() <= q, x * B() <= q, bnd == max_int(mm, x), meff == (if mm % 2 == 1 { mm } else { mm + x }), s0 == (1int, meff, x),
            p2(62) == P62(), mm % 2 == 1 || mm == 0 || x % 2 == 1, dm == ds_dpre(mm, inverse as int, aa, n),
            ab(delta as int) <= 1 + 62 * i, ab(f.sv()) <= bnd, ab(g.sv()) <= bnd,
            mm != 0 ==> ((i == 0 ==> (delta as int, f.sv(), g.sv()) == (1int, mm, x))
                && ((i >= 1 || mm % 2 == 1) ==> (delta as int, f.sv(), g.sv()) == divsteps_n((62 * i) as nat, s0))),
            dm ==> (cong(d.sv() * x, f.sv() * aa, mm) && cong(e.sv() * x, g.sv() * aa, mm)
                && -2 * mm < d.sv() <= mm && -2 * mm < e.sv() <= mm && (aa < mm ==> (d.sv() < mm && e.sv() < mm))),
            mm == 0 ==> ((zp ==> (f.sv() == 0 && delta == 1 + 62 * i && g.sv() * p2((62 * i) as nat) == x && d.sv() == 0 && 0 <= e.sv() <= 1))
                && (!zp ==> (g.sv() == 0 && f.sv() % 2 == 1 && 0 < f.sv() <= x && (x % 2 == 1 ==> f.sv() == x) && 0 <= d.sv() <= 1 && e.sv() == 0))),
        ensures g.sv() == 0
        decreases m0 - i
//@-
{
//@+
        proof { lemma_vt_progress(mm, x, n, meff, m0, i, delta as int, f.sv(), g.sv(), zp); }
//@-
//@+
        let ghost st = (delta as int, f.sv(), g.sv()); let ghost f0w = f.0@[0] as int; let ghost g0w = g.0@[0] as int;
        let ghost dd = d.sv(); let ghost ee = e.sv(); let ghost dl = delta as int;
        let ghost first_even = mm != 0 && mm % 2 == 0 && i == 0;
        proof {
            f.lemma_low(); g.lemma_low();
            assert(f.0@[0] <= 0x3fff_ffff_ffff_ffffu64 && g.0@[0] <= 0x3fff_ffff_ffff_ffffu64);
            if mm != 0 && !first_even {
                if mm % 2 == 1 { lemma_divsteps((62 * i) as nat, s0, bnd); } else { lemma_even_start((62 * i) as nat, mm, x); }
            }
            if mm == 0 && zp {
                // f == 0: its low limb is 0
                let kk = lemma_cong_wit(0, f0w, P62());
                assert(f0w == 0) by (nonlinear_arith) requires 0 - f0w == kk * P62(), 0 <= f0w < P62();
            }
            if mm == 0 && !zp {
                let kk = lemma_cong_wit(0, g0w, P62());
                assert(g0w == 0) by (nonlinear_arith) requires 0 - g0w == kk * P62(), 0 <= g0w < P62();
            }
            // room for fg
            assert(B() == 4 * P62() && (bnd == mm || bnd == x));
            assert(4 * P62() * bnd <= q);
        }
//@-
        let (__t0, __t1) = jump(&f.0, &g.0, delta); delta = __t0; matrix = __t1;
//@+
        let ghost tm = mt(matrix); let ghost d2 = delta as int;
//@-
        fg(&mut f, g, matrix);
        de(f_0, inverse, matrix, d, &mut e);
//@+
        proof {
            let f2 = f.sv(); let g2 = g.sv();
            if mm != 0 {
                if first_even {
                    lemma_round_even_first(mm, x, f0w, g0w, d2, tm, f2, g2);
                    assert((62 * (i + 1)) as nat == 62nat);
                } else {
                    lemma_round_normal((62 * i) as nat, s0, meff + x, st, f0w, g0w, d2, tm, f2, g2);
                    assert((62 * i) as nat + 62 == (62 * (i + 1)) as nat);
                    if mm % 2 == 1 { lemma_divsteps((62 * (i + 1)) as nat, s0, bnd); } else { lemma_even_start((62 * (i + 1)) as nat, mm, x); }
                    if dm {
                        lemma_de_step(mm, x, aa, dd, ee, st.1, st.2, tm.0, tm.1, d.sv(), f2);
                        lemma_de_step(mm, x, aa, dd, ee, st.1, st.2, tm.2, tm.3, e.sv(), g2);
                    }
                }
            } else {
                if zp {
                    sg_p2_pos((62 * i) as nat);
                    assert(st.2 >= 0) by (nonlinear_arith) requires st.2 * p2((62 * i) as nat) == x, x >= 0, p2((62 * i) as nat) > 0;
                    lemma_round_zero_pre(st.2, g0w, ee, dl, d2, tm, f2, g2, d.sv(), e.sv());
                    assert(tm.0 * dd == tm.0 * 0 && tm.2 * dd == tm.2 * 0) by (nonlinear_arith) requires dd == 0;
                    assert(tm.0 * st.1 == tm.0 * 0 && tm.2 * st.1 == tm.2 * 0) by (nonlinear_arith) requires st.1 == 0;
                    if g0w == 0 {
                        sg_p2_add((62 * i) as nat, 62);
                        assert((62 * i) as nat + 62 == (62 * (i + 1)) as nat);
                        assert(g2 * p2((62 * (i + 1)) as nat) == x) by (nonlinear_arith)
                            requires g2 * P62() == st.2, st.2 * p2((62 * i) as nat) == x, p2((62 * (i + 1)) as nat) == p2((62 * i) as nat) * P62();
                        sg_p2_pos((62 * (i + 1)) as nat);
                        assert(0 <= g2 <= x) by (nonlinear_arith) requires g2 * p2((62 * (i + 1)) as nat) == x, p2((62 * (i + 1)) as nat) >= 1, x >= 0;
                    } else {
                        // the swap happened
                        sg_p2_pos((62 * i) as nat);
                        assert(st.2 <= x) by (nonlinear_arith) requires st.2 * p2((62 * i) as nat) == x, p2((62 * i) as nat) >= 1, st.2 >= 0;
                        if x % 2 == 1 {
                            if i > 0 {
                                sg_p2_succ((62 * i - 1) as nat);
                                assert(x == 2 * (st.2 * p2((62 * i - 1) as nat))) by (nonlinear_arith)
                                    requires st.2 * p2((62 * i) as nat) == x, p2((62 * i) as nat) == 2 * p2((62 * i - 1) as nat);
                                assert(false);
                            }
                            sg_p2_succ(0);
                            assert((62 * i) as nat == 0nat);
                            assert(st.2 == x) by (nonlinear_arith) requires st.2 * p2(0) == x, p2(0) == 1;
                        }
                    }
                } else {
                    lemma_round_g_zero(dl, st.1, f0w, dd, ee, d2, tm, f2, g2, d.sv(), e.sv());
                    assert(tm.1 * st.2 == tm.1 * 0 && tm.3 * st.2 == tm.3 * 0) by (nonlinear_arith) requires st.2 == 0;
                }
            }
        }
        proof { if mm == 0 && zp && g0w != 0 { zp = false; } }
        proof { i = i + 1; }
//@-
    }
//@+
    proof {
        assert(g.sv() == 0);
        assert(igcd(f.sv(), 0) == iabs(f.sv()));
        if mm != 0 {
            assert(i >= 1 || mm % 2 == 1) by { if i == 0 && mm % 2 == 0 { assert(x == 0); } }
            if mm % 2 == 1 { lemma_divsteps((62 * i) as nat, s0, bnd); } else { lemma_even_start((62 * i) as nat, mm, x); }
            assert(igcd(mm, x) == sg_gcd(mm as nat, x as nat));
        } else {
            // gcd(0, x) = x
            assert(sg_gcd(0, x as nat) == x) by { if x > 0 { lemma_small_mod(0, x as nat); assert(sg_gcd(0, x as nat) == sg_gcd(x as nat, 0nat % (x as nat))); } }
            if zp { sg_p2_pos((62 * i) as nat); assert(x == 0) by (nonlinear_arith) requires g.sv() * p2((62 * i) as nat) == x, g.sv() == 0; }
        }
    }
//@-
    f
}
//@@ end
//@@ fn src/modular/safegcd/boxed.rs | impl BoxedSafeGcdInverter | norm | body | props C10
impl BoxedSafeGcdInverter {
pub fn norm(&self, mut value: BoxedUnsatInt, negate: Choice) -> (ret__: BoxedUnsatInt)
//@+
    // total (every step is a wrapping operation); the functional facts need the documented input range (-2M, M]   (as SafeGcdInverter::norm)
    requires self.modulus.wf(), value.wf(), value.n() == self.modulus.n(), negate.wf()
    ensures ret__.wf(), ret__.n() == value.n(),
        (self.modulus.sv() >= 1 && 8 * self.modulus.sv() <= q62(value.n()) && -2 * self.modulus.sv() < value.sv() <= self.modulus.sv()) ==> (
            0 <= ret__.sv() <= self.modulus.sv()
            && ((value.sv() < self.modulus.sv() || negate.t()) ==> ret__.sv() < self.modulus.sv())
            && cong(ret__.sv(), if negate.t() { -value.sv() } else { value.sv() }, self.modulus.sv())),
        // modulus 0 (BoxedUint::inv_mod with a zero modulus): the value passes through
        (self.modulus.sv() == 0 && !negate.t() && 0 <= value.sv() <= 1) ==> ret__.sv() == value.sv()
//@-
{
//@+
    let ghost v0 = value.sv(); let ghost mm = self.modulus.sv(); let ghost n = value.n();
    let ghost ok = mm >= 1 && 8 * mm <= q62(n) && -2 * mm < v0 <= mm;
    let ghost zk = mm == 0 && !negate.t() && 0 <= v0 <= 1;
    proof { value.lemma_range(); self.modulus.lemma_range(); }
//@-
        value.conditional_add(&self.modulus, value.is_negative());
//@+
    let ghost v1 = value.sv();
    proof {
        value.lemma_range();
        if ok { lemma_wrap_id(if v0 < 0 { v0 + mm } else { v0 }, n); assert(v1 == if v0 < 0 { v0 + mm } else { v0 }); }
        if zk { lemma_wrap_id(v0, n); assert(v1 == v0); }
    }
    let ghost vb = value;
//@-
        value.conditional_assign(&value.neg(), negate);
//@+
    let ghost v2 = value.sv();
    proof {
        if negate.t() { assert(value.wf()); } else { lemma_sv_eq_seq(&value, &vb); }
        value.lemma_range();
        if ok { if negate.t() { lemma_wrap_id(-v1, n); } assert(v2 == if negate.t() { -v1 } else { v1 }); }
        if zk { assert(v2 == v0); }
    }
//@-
        value.conditional_add(&self.modulus, value.is_negative());
//@+
    proof {
        let v3 = value.sv();
        if zk { lemma_wrap_id(v0, n); assert(v3 == v0); }
        if ok {
            lemma_wrap_id(if v2 < 0 { v2 + mm } else { v2 }, n);
            assert(v3 == if v2 < 0 { v2 + mm } else { v2 });
            let a: int = if v0 < 0 { 1 } else { 0 }; let sg: int = if negate.t() { -1 } else { 1 }; let b: int = if v2 < 0 { 1 } else { 0 };
            let tgt = if negate.t() { -v0 } else { v0 };
            assert(v3 - tgt == (sg * a + b) * mm) by (nonlinear_arith)
                requires v1 == v0 + a * mm, v2 == sg * v1, v3 == v2 + b * mm, tgt == sg * v0, sg == 1 || sg == -1;
            lemma_cong_mult(v3, tgt, sg * a + b, mm);
        }
    }
//@-
        value
    }
}
//@@ end


/// largest BoxedUint precision (limbs) for which the unsaturated form has at most SG_MAX_UNSAT() limbs (`iterations` computes
/// 49 * bits + 80 in u32 with bits up to 62 * n): 64 * sat + 64 <= 62 * 1_413_748
pub open spec fn SG_BOXED_MAX_SAT() -> nat { 1_369_567 }


//@@ fn src/modular/safegcd/boxed.rs | impl From<&BoxedUint>for BoxedUnsatInt | from | stub | props C10
impl From<&BoxedUint>for BoxedUnsatInt {
#[verifier::external_body]
fn from(input: &BoxedUint) -> (ret__: BoxedUnsatInt)
//@+
    // ASSUMED (one-line wrapper `Self::from_uint_widened(input, unsat_nlimbs_for_sat_nlimbs(input.nlimbs()))`, both callees are proved):
    // a method of a trait impl cannot carry the `requires` of its callees (size limits of the usize arithmetic), and `core::convert::From`
    // cannot be re-declared with `*_req` spec functions (it is also needed for `Choice::from` / `bool::from`)
    ensures 1 <= input.nl() <= 0x3ff_fffe ==> (ret__.wf() && sg_nlimbs_ok(input.nl() as int, ret__.n() as int)
        && ret__.uv() == input.v() && ret__.sv() == input.v())
//@-
{
    unimplemented!()
}
}
//@@ end

// ---- the inverter object (concrete model; l8_boxed_monty.rs still uses an abstract one for its ASSUMED `new` / `invert`)
impl BoxedSafeGcdInverter {
    pub open spec fn sm(&self) -> int { self.modulus.sv() }
    pub open spec fn sadj(&self) -> int { self.adjuster.sv() }
    /// well formed for values of `sat` 64-bit limbs (as SafeGcdInverter::wf of l4_safegcd.rs)
    pub open spec fn swf(&self, sat: nat) -> bool {
        &&& 1 <= sat <= SG_BOXED_MAX_SAT() && sg_nlimbs_ok(sat as int, self.modulus.n() as int)
        &&& self.modulus.wf() && self.adjuster.wf() && self.adjuster.n() == self.modulus.n()
        &&& 0 <= self.sm() < bp(sat) && (self.sm() % 2 == 1 || self.sm() == 0)
        &&& 0 <= self.sadj() && (self.sm() % 2 == 1 ==> self.sadj() <= self.sm()) && (self.sm() == 0 ==> self.sadj() <= 1)
        &&& 0 <= self.inverse < 0x4000_0000_0000_0000 && (self.sm() % 2 == 1 ==> (self.sm() * self.inverse as int) % P62() == 1)
    }
}
/// contract of `invert` / `invert_vartime` (identical to the one proved for the fixed-width `SafeGcdInverter::inv`)
pub open spec fn sg_invert_post(inv: &BoxedSafeGcdInverter, value: &BoxedUint, r: CtOption<BoxedUint>) -> bool {
    &&& r.is_some.wf() &&& r.value.nl() == value.nl()
    &&& inv.sm() % 2 == 1 ==> {
        &&& r.is_some.t() == (sg_gcd(inv.sm() as nat, value.v() as nat) == 1)
        &&& 0 <= r.value.v() <= inv.sm()
        &&& (inv.sadj() < inv.sm() ==> r.value.v() < inv.sm())
        &&& (r.is_some.t() ==> cong(r.value.v() * value.v(), inv.sadj(), inv.sm()))
        &&& (r.is_some.t() ==> (r.value.v() * value.v()) % inv.sm() == inv.sadj() % inv.sm())
    }
    &&& inv.sm() == 0 ==> 0 <= r.value.v() <= 1
}
/// the proof step shared by `invert` and `invert_vartime` (after divsteps / norm)
pub proof fn lemma_invert_final(mm: int, x: int, aa: int, dv: int, fv: int, r: int, one: bool, anti: bool)
    requires mm % 2 == 1, mm >= 1, x >= 0, ab(fv) == sg_gcd(mm as nat, x as nat), cong(dv * x, fv * aa, mm),
        one == (fv == 1), anti == (fv == -1), cong(r, if anti { -dv } else { dv }, mm)
    ensures (one || anti) == (sg_gcd(mm as nat, x as nat) == 1),
        (one || anti) ==> cong(r * x, aa, mm) && (r * x) % mm == aa % mm
{
    if one || anti {
        lemma_inv_final(mm, x, aa, dv, fv, r);
        lemma_cong_to_mod(r * x, aa, mm);
    }
}

//@@ fn src/modular/safegcd/boxed.rs | - | gcd | body | props C10
pub fn gcd(f: &BoxedUint, g: &BoxedUint) -> (ret__: BoxedUint)
//@+
    // domain of the callers: `Gcd<BoxedUint> for Odd<BoxedUint>` passes an odd f, `Gcd for BoxedUint` an odd g (f possibly even) or f = g = 0;
    // equal precisions (`to_uint(f.bits_precision())` debug-asserts the limb count); SG_BOXED_MAX_SAT: beyond it `iterations` overflows u32
    requires 1 <= f.nl() <= SG_BOXED_MAX_SAT(), g.nl() == f.nl(),
        f.v() % 2 == 1 || g.v() % 2 == 1 || (f.v() == 0 && g.v() == 0)
    ensures ret__.nl() == f.nl(), ret__.v() == sg_gcd(f.v() as nat, g.v() as nat), ret__.v() == spec_gcd(f.v() as nat, g.v() as nat)
//@-
{
//@+
    let ghost fv = f.v(); let ghost gv = g.v(); let ghost sn = f.nl();
    proof {
        lemma_val_bound(f.limbs@, sn); lemma_val_bound(g.limbs@, sn); lemma_sg_gcd_eq(fv as nat, gv as nat);
        lemma_val_low(f.limbs@, sn);
        assert forall|iv: int| (f.limbs@[0].0 as int * iv) % P62() == 1 implies (#[trigger] (fv * iv)) % P62() == 1 by { lemma_low_inverse(fv, f.limbs@[0].0 as int, iv); }
    }
//@-
    let nlimbs = unsat_nlimbs_for_sat_nlimbs(max(f.nlimbs(), g.nlimbs()));
    let bits_precision = f.bits_precision();
    let inverse = inv_mod2_62(f.as_words());
//@+
    let ghost un = nlimbs as nat;
    proof { lemma_nlimbs_room(sn, un); lemma_q62_ge(un); if fv % 2 == 1 { assert((fv * inverse as int) % P62() == 1); } }
//@-
    let f = BoxedUnsatInt::from_uint_widened(f, nlimbs);
    let mut g = BoxedUnsatInt::from_uint_widened(g, nlimbs);
    let mut d = BoxedUnsatInt::zero(nlimbs);
    let e = BoxedUnsatInt::one(nlimbs);
//@+
    proof {
        assert(fv * B() <= q62(un) && gv * B() <= q62(un)) by (nonlinear_arith) requires 0 <= fv < bp(sn), 0 <= gv < bp(sn), bp(sn) * B() <= q62(un);
    }
//@-
    let mut f = divsteps(&mut d, &e, &f, &mut g, inverse);
//@+
    let ghost f1 = f.sv();
    proof {
        f.lemma_range();
        assert(sfits(-f1, un)) by (nonlinear_arith) requires ab(f1) <= max_int(fv, gv), 0 <= fv < bp(sn), 0 <= gv < bp(sn), bp(sn) * B() <= q62(un), B() == 0x1_0000_0000_0000_0000;
        lemma_wrap_id(-f1, un);
    }
//@-
    f.conditional_negate(f.is_negative());
//@+
    proof {
        f.lemma_range();
        assert(f.sv() == ab(f1));
        lemma_small_mod(f.sv() as nat, bp(sn) as nat);
    }
//@-
    f.to_uint(bits_precision)
}
//@@ end
//@@ fn src/modular/safegcd/boxed.rs | - | gcd_vartime | body | props C10
pub fn gcd_vartime(f: &BoxedUint, g: &BoxedUint) -> (ret__: BoxedUint)
//@+
    // domain of the callers: `Gcd<BoxedUint> for Odd<BoxedUint>` passes an odd f, `Gcd for BoxedUint` an odd g (f possibly even) or f = g = 0;
    // equal precisions (`to_uint(f.bits_precision())` debug-asserts the limb count); SG_BOXED_MAX_SAT: beyond it `iterations` overflows u32
    requires 1 <= f.nl() <= SG_BOXED_MAX_SAT(), g.nl() == f.nl(),
        f.v() % 2 == 1 || g.v() % 2 == 1 || (f.v() == 0 && g.v() == 0)
    ensures ret__.nl() == f.nl(), ret__.v() == sg_gcd(f.v() as nat, g.v() as nat), ret__.v() == spec_gcd(f.v() as nat, g.v() as nat)
//@-
{
//@+
    let ghost fv = f.v(); let ghost gv = g.v(); let ghost sn = f.nl();
    proof {
        lemma_val_bound(f.limbs@, sn); lemma_val_bound(g.limbs@, sn); lemma_sg_gcd_eq(fv as nat, gv as nat);
        lemma_val_low(f.limbs@, sn);
        assert forall|iv: int| (f.limbs@[0].0 as int * iv) % P62() == 1 implies (#[trigger] (fv * iv)) % P62() == 1 by { lemma_low_inverse(fv, f.limbs@[0].0 as int, iv); }
    }
//@-
    let nlimbs = unsat_nlimbs_for_sat_nlimbs(max(f.nlimbs(), g.nlimbs()));
    let bits_precision = f.bits_precision();
    let inverse = inv_mod2_62(f.as_words());
//@+
    let ghost un = nlimbs as nat;
    proof { lemma_nlimbs_room(sn, un); lemma_q62_ge(un); if fv % 2 == 1 { assert((fv * inverse as int) % P62() == 1); } }
//@-
    let f = BoxedUnsatInt::from_uint_widened(f, nlimbs);
    let mut g = BoxedUnsatInt::from_uint_widened(g, nlimbs);
    let mut d = BoxedUnsatInt::zero(nlimbs);
    let e = BoxedUnsatInt::one(nlimbs);
//@+
    proof {
        assert(fv * B() <= q62(un) && gv * B() <= q62(un)) by (nonlinear_arith) requires 0 <= fv < bp(sn), 0 <= gv < bp(sn), bp(sn) * B() <= q62(un);
    }
//@-
    let mut f = divsteps_vartime(&mut d, &e, &f, &mut g, inverse);
//@+
    let ghost f1 = f.sv();
    proof {
        f.lemma_range();
        assert(sfits(-f1, un)) by (nonlinear_arith) requires ab(f1) <= max_int(fv, gv), 0 <= fv < bp(sn), 0 <= gv < bp(sn), bp(sn) * B() <= q62(un), B() == 0x1_0000_0000_0000_0000;
        lemma_wrap_id(-f1, un);
    }
//@-
    f.conditional_negate(f.is_negative());
//@+
    proof {
        f.lemma_range();
        assert(f.sv() == ab(f1));
        lemma_small_mod(f.sv() as nat, bp(sn) as nat);
    }
//@-
    f.to_uint(bits_precision)
}
//@@ end

} // verus!
