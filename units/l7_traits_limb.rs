// L7: trait impls and operators of `Limb` over the proved inherent functions (src/limb/{add,sub,mul,neg}.rs) -- C03 C04 C11 C15
// Vocabulary (model of `subtle`, hand-declared traits, `*_req` convention): see l7_traits.rs.
use vstd::prelude::*;
use vstd::arithmetic::div_mod::*;
use core::ops::{Add, Sub, Mul};
use crate::speclib::*;
use crate::l0_prim::*;
use crate::l1_choice::*;
use crate::l1_limb::*;
use crate::l2_core::*;
use crate::l2_subtle::*;
use crate::l7_traits::*;
verus! {

// operator preconditions (vstd `*SpecImpl`): the panicking operators of Limb panic exactly on overflow / underflow
// (C11), so `*_req` is "no overflow"; no vstd-level `*_spec` is claimed (`obeys_* == false`), the result is stated by
// the `ensures` of the extracted method.
impl vstd::std_specs::ops::AddSpecImpl<Limb> for Limb {
    open spec fn obeys_add_spec() -> bool { false }
    open spec fn add_req(self, rhs: Limb) -> bool { self.0 as int + rhs.0 as int <= u64::MAX as int }
    open spec fn add_spec(self, rhs: Limb) -> Limb { arbitrary() }
}
impl vstd::std_specs::ops::SubSpecImpl<Limb> for Limb {
    open spec fn obeys_sub_spec() -> bool { false }
    open spec fn sub_req(self, rhs: Limb) -> bool { self.0 >= rhs.0 }
    open spec fn sub_spec(self, rhs: Limb) -> Limb { arbitrary() }
}
impl<'a> vstd::std_specs::ops::SubSpecImpl<&'a Limb> for Limb {
    open spec fn obeys_sub_spec() -> bool { false }
    open spec fn sub_req(self, rhs: &'a Limb) -> bool { self.0 >= rhs.0 }
    open spec fn sub_spec(self, rhs: &'a Limb) -> Limb { arbitrary() }
}
impl vstd::std_specs::ops::MulSpecImpl<Limb> for Limb {
    open spec fn obeys_mul_spec() -> bool { false }
    open spec fn mul_req(self, rhs: Limb) -> bool { self.0 as int * rhs.0 as int <= u64::MAX as int }
    open spec fn mul_spec(self, rhs: Limb) -> Limb { arbitrary() }
}
impl<'a> vstd::std_specs::ops::MulSpecImpl<&'a Limb> for Limb {
    open spec fn obeys_mul_spec() -> bool { false }
    open spec fn mul_req(self, rhs: &'a Limb) -> bool { self.0 as int * rhs.0 as int <= u64::MAX as int }
    open spec fn mul_spec(self, rhs: &'a Limb) -> Limb { arbitrary() }
}
impl<'b> vstd::std_specs::ops::MulSpecImpl<Limb> for &'b Limb {
    open spec fn obeys_mul_spec() -> bool { false }
    open spec fn mul_req(self, rhs: Limb) -> bool { self.0 as int * rhs.0 as int <= u64::MAX as int }
    open spec fn mul_spec(self, rhs: Limb) -> Limb { arbitrary() }
}
impl<'a, 'b> vstd::std_specs::ops::MulSpecImpl<&'a Limb> for &'b Limb {
    open spec fn obeys_mul_spec() -> bool { false }
    open spec fn mul_req(self, rhs: &'a Limb) -> bool { self.0 as int * rhs.0 as int <= u64::MAX as int }
    open spec fn mul_spec(self, rhs: &'a Limb) -> Limb { arbitrary() }
}

proof fn lemma_small_prod(a: int, b: int, lo: int, hi: int)
    requires 0 <= a, 0 <= b, 0 <= lo < B(), 0 <= hi, lo + hi * B() == a * b
    ensures (hi == 0) == (a * b < B())
{
    if hi >= 1 { assert(hi * B() >= B()) by (nonlinear_arith) requires hi >= 1; }
}

//@@ fn src/limb/add.rs | impl CheckedAdd for Limb | checked_add | body | props C04 C11 C15
impl CheckedAdd for Limb {
//@+
    open spec fn checked_add_req(&self, rhs: &Self) -> bool { true }
    open spec fn checked_add_ens(&self, rhs: &Self, r: CtOption<Self>) -> bool { r.is_some.wf() && r.is_some.t() == ((self.0 as int + rhs.0 as int) < B()) && r.value.0 as int == (self.0 as int + rhs.0 as int) % B() && (r.is_some.t() ==> r.value.0 as int == self.0 as int + rhs.0 as int) }
//@-
fn checked_add(&self, rhs: &Self) -> (ret__: CtOption<Self>)
{
        let (result, carry) = self.overflowing_add(*rhs);
//@+
    proof { let s = self.0 as int + rhs.0 as int; if carry.0 == 0 { lemma_small_mod(s as nat, B() as nat); } else { lemma_fundamental_div_mod_converse(s, B(), 1, result.0 as int); } }
//@-
        CtOption::new(result, carry.is_zero())
    }
}
//@@ end
//@@ fn src/limb/add.rs | impl WrappingAdd for Limb | wrapping_add | body | props C04 C11 C15
impl WrappingAdd for Limb {
//@+
    open spec fn wrapping_add_req(&self, v: &Self) -> bool { true }
    open spec fn wrapping_add_ens(&self, v: &Self, r: Self) -> bool { r.0 as int == (self.0 as int + v.0 as int) % B() }
//@-
fn wrapping_add(&self, v: &Self) -> (ret__: Self)
{
        self.wrapping_add(*v)
    }
}
//@@ end
//@@ fn src/limb/add.rs | impl Add for Limb | add | body | props C04 C11 C15
impl Add for Limb {
//@+
    type Output = Self;
//@-
fn add(self, rhs: Self) -> (ret__: Self)
//@+
    ensures ret__.0 as int == self.0 as int + rhs.0 as int
//@-
{
        self.checked_add(&rhs)
            .expect("attempted to add with overflow")
    }
}
//@@ end
//@@ fn src/limb/sub.rs | impl CheckedSub for Limb | checked_sub | body | props C04 C11 C15
impl CheckedSub for Limb {
//@+
    open spec fn checked_sub_req(&self, rhs: &Self) -> bool { true }
    open spec fn checked_sub_ens(&self, rhs: &Self, r: CtOption<Self>) -> bool { r.is_some.wf() && r.is_some.t() == (self.0 >= rhs.0) && r.value.0 as int == (self.0 as int - rhs.0 as int) % B() && (r.is_some.t() ==> r.value.0 as int == self.0 as int - rhs.0 as int) }
//@-
fn checked_sub(&self, rhs: &Self) -> (ret__: CtOption<Self>)
{
        let (result, underflow) = self.sbb(*rhs, Limb::ZERO);
//@+
    proof { let s = self.0 as int - rhs.0 as int; if underflow.0 == 0 { lemma_small_mod(s as nat, B() as nat); } else { lemma_fundamental_div_mod_converse(s, B(), -1, result.0 as int); } }
//@-
        CtOption::new(result, underflow.is_zero())
    }
}
//@@ end
//@@ fn src/limb/sub.rs | impl WrappingSub for Limb | wrapping_sub | body | props C04 C11 C15
impl WrappingSub for Limb {
//@+
    open spec fn wrapping_sub_req(&self, v: &Self) -> bool { true }
    open spec fn wrapping_sub_ens(&self, v: &Self, r: Self) -> bool { r.0 as int == (self.0 as int - v.0 as int) % B() }
//@-
fn wrapping_sub(&self, v: &Self) -> (ret__: Self)
{
        self.wrapping_sub(*v)
    }
}
//@@ end
//@@ fn src/limb/sub.rs | impl Sub for Limb | sub | body | props C04 C11 C15
impl Sub for Limb {
//@+
    type Output = Self;
//@-
fn sub(self, rhs: Self) -> (ret__: Self)
//@+
    ensures ret__.0 as int == self.0 as int - rhs.0 as int
//@-
{
        self.checked_sub(&rhs)
            .expect("attempted to subtract with underflow")
    }
}
//@@ end
//@@ fn src/limb/sub.rs | impl Sub<&Self> for Limb | sub | body | props C04 C11 C15
impl Sub<&Self> for Limb {
//@+
    type Output = Self;
//@-
fn sub(self, rhs: &Self) -> (ret__: Self)
//@+
    ensures ret__.0 as int == self.0 as int - rhs.0 as int
//@-
{
        self - *rhs
    }
}
//@@ end
//@@ fn src/limb/mul.rs | impl CheckedMul for Limb | checked_mul | body | props C03 C11 C15
impl CheckedMul for Limb {
//@+
    open spec fn checked_mul_req(&self, rhs: &Self) -> bool { true }
    open spec fn checked_mul_ens(&self, rhs: &Self, r: CtOption<Self>) -> bool { r.is_some.wf() && r.is_some.t() == ((self.0 as int * rhs.0 as int) < B()) && r.value.0 as int == (self.0 as int * rhs.0 as int) % B() && (r.is_some.t() ==> r.value.0 as int == self.0 as int * rhs.0 as int) }
//@-
fn checked_mul(&self, rhs: &Self) -> (ret__: CtOption<Self>)
{
        let (lo, hi) = self.mul_wide(*rhs);
//@+
    proof { let p = self.0 as int * rhs.0 as int; assert(p >= 0) by (nonlinear_arith) requires p == self.0 as int * rhs.0 as int, self.0 >= 0, rhs.0 >= 0;
        lemma_small_prod(self.0 as int, rhs.0 as int, lo.0 as int, hi.0 as int); lemma_fundamental_div_mod_converse(p, B(), hi.0 as int, lo.0 as int); }
//@-
        CtOption::new(lo, hi.is_zero())
    }
}
//@@ end
//@@ fn src/limb/mul.rs | impl WrappingMul for Limb | wrapping_mul | body | props C03 C11 C15
impl WrappingMul for Limb {
//@+
    open spec fn wrapping_mul_req(&self, v: &Self) -> bool { true }
    open spec fn wrapping_mul_ens(&self, v: &Self, r: Self) -> bool { r.0 as int == (self.0 as int * v.0 as int) % B() }
//@-
fn wrapping_mul(&self, v: &Self) -> (ret__: Self)
{
        self.wrapping_mul(*v)
    }
}
//@@ end
//@@ fn src/limb/mul.rs | impl Mul<Limb> for Limb | mul | body | props C03 C11 C15
impl Mul<Limb> for Limb {
//@+
    type Output = Limb;
//@-
fn mul(self, rhs: Limb) -> (ret__: Self)
//@+
    ensures ret__.0 as int == self.0 as int * rhs.0 as int
//@-
{
        self.checked_mul(&rhs)
            .expect("attempted to multiply with overflow")
    }
}
//@@ end
//@@ fn src/limb/mul.rs | impl Mul<&Limb> for Limb | mul | body | props C03 C11 C15
impl Mul<&Limb> for Limb {
//@+
    type Output = Limb;
//@-
fn mul(self, rhs: &Limb) -> (ret__: Self)
//@+
    ensures ret__.0 as int == self.0 as int * rhs.0 as int
//@-
{
        self * *rhs
    }
}
//@@ end
//@@ fn src/limb/mul.rs | impl Mul<Limb> for &Limb | mul | body | props C03 C11 C15
impl Mul<Limb> for &Limb {
//@+
    type Output = Limb;
//@-
fn mul(self, rhs: Limb) -> (ret__: Self::Output)
//@+
    ensures ret__.0 as int == self.0 as int * rhs.0 as int
//@-
{
        *self * rhs
    }
}
//@@ end
//@@ fn src/limb/mul.rs | impl Mul<&Limb> for &Limb | mul | body | props C03 C11 C15
impl Mul<&Limb> for &Limb {
//@+
    type Output = Limb;
//@-
fn mul(self, rhs: &Limb) -> (ret__: Self::Output)
//@+
    ensures ret__.0 as int == self.0 as int * rhs.0 as int
//@-
{
        *self * *rhs
    }
}
//@@ end
//@@ fn src/limb/neg.rs | impl WrappingNeg for Limb | wrapping_neg | body | props C04 C11 C15
impl WrappingNeg for Limb {
//@+
    open spec fn wrapping_neg_req(&self) -> bool { true }
    open spec fn wrapping_neg_ens(&self, r: Self) -> bool { r.0 as int == (B() - self.0 as int) % B() }
//@-
fn wrapping_neg(&self) -> (ret__: Self)
{
        Self(self.0.wrapping_neg())
    }
}
//@@ end
} // verus!
