// L0: word primitives (src/primitives.rs)
use vstd::prelude::*;
use vstd::arithmetic::power::*;
use vstd::arithmetic::power2::*;
use crate::speclib::*;
verus! {

pub proof fn lemma_split128(res: u128)
    ensures ((res >> 64) as u64) as int * 0x1_0000_0000_0000_0000 + (res as u64) as int == res as int
{
    assert(((res >> 64) as u64) as int * 0x1_0000_0000_0000_0000 + (res as u64) as int == res as int) by (bit_vector);
}

pub proof fn lemma_mul_u64_bound(x: u64, y: u64)
    ensures 0 <= x as int * y as int <= 0xffff_ffff_ffff_ffff * 0xffff_ffff_ffff_ffff
{
    assert(0 <= x as int * y as int <= 0xffff_ffff_ffff_ffff * 0xffff_ffff_ffff_ffff) by (nonlinear_arith)
        requires 0 <= x as int <= 0xffff_ffff_ffff_ffff, 0 <= y as int <= 0xffff_ffff_ffff_ffff;
}

//@@ fn src/primitives.rs | - | mulhilo | body | props C03 C11
pub const fn mulhilo(x: Word, y: Word) -> (ret__: (Word, Word))
//@+
    ensures ret__.0 as int * B() + ret__.1 as int == x as int * y as int
//@-
{
//@+
    proof { lemma_mul_u64_bound(x, y); }
//@-
    let res = (x as WideWord) * (y as WideWord);
//@+
    proof { lemma_split128(res); }
//@-
    ((res >> Word::BITS) as Word, res as Word)
}
//@@ end
//@@ fn src/primitives.rs | - | addhilo | body | props C02 C11
pub const fn addhilo(x_hi: Word, x_lo: Word, y_hi: Word, y_lo: Word) -> (ret__: (Word, Word))
//@+
    requires (x_hi as int * B() + x_lo as int) + (y_hi as int * B() + y_lo as int) < B() * B()
    ensures ret__.0 as int * B() + ret__.1 as int == (x_hi as int * B() + x_lo as int) + (y_hi as int * B() + y_lo as int)
//@-
{
//@+
    let ghost xw = ((x_hi as WideWord) << 64) | (x_lo as WideWord);
    let ghost yw = ((y_hi as WideWord) << 64) | (y_lo as WideWord);
    assert(xw as int == x_hi as int * 0x1_0000_0000_0000_0000 + x_lo as int) by (bit_vector) requires xw == ((x_hi as u128) << 64) | (x_lo as u128);
    assert(yw as int == y_hi as int * 0x1_0000_0000_0000_0000 + y_lo as int) by (bit_vector) requires yw == ((y_hi as u128) << 64) | (y_lo as u128);
    assert(B() * B() == 0x1_0000_0000_0000_0000_0000_0000_0000_0000) by (compute);
//@-
    let res = (((x_hi as WideWord) << Word::BITS) | (x_lo as WideWord))
        + (((y_hi as WideWord) << Word::BITS) | (y_lo as WideWord));
//@+
    proof { lemma_split128(res); }
//@-
    ((res >> Word::BITS) as Word, res as Word)
}
//@@ end
//@@ fn src/primitives.rs | - | adc | body | props C04 C11
pub const fn adc(lhs: Word, rhs: Word, carry: Word) -> (ret__: (Word, Word))
//@+
    ensures ret__.0 as int + ret__.1 as int * B() == lhs as int + rhs as int + carry as int,
        ret__.1 <= 2,
//@-
{
    // We could use `Word::overflowing_add()` here analogous to `overflowing_add()`,
    // but this version seems to produce a slightly better assembly.
    let a = lhs as WideWord;
    let b = rhs as WideWord;
    let carry = carry as WideWord;
    let ret = a + b + carry;
//@+
    proof { lemma_split128(ret); }
//@-
    (ret as Word, (ret >> Word::BITS) as Word)
}
//@@ end
//@@ fn src/primitives.rs | - | overflowing_add | body | props C04 C11
pub const fn overflowing_add(lhs: Word, rhs: Word) -> (ret__: (Word, Word))
//@+
    ensures ret__.0 as int + ret__.1 as int * B() == lhs as int + rhs as int,
        ret__.1 <= 1,
//@-
{
    let (res, carry) = lhs.overflowing_add(rhs);
    (res, carry as Word)
}
//@@ end
//@@ fn src/primitives.rs | - | sbb | body | props C04 C11
pub const fn sbb(lhs: Word, rhs: Word, borrow: Word) -> (ret__: (Word, Word))
//@+
    ensures ret__.1 == 0 || ret__.1 == u64::MAX,
        ret__.0 as int - (if ret__.1 == u64::MAX { B() } else { 0 }) == lhs as int - rhs as int - (borrow >> 63) as int,
//@-
{
//@+
    let ghost borrow0 = borrow;
//@-
    let a = lhs as WideWord;
    let b = rhs as WideWord;
    let borrow = (borrow >> (Word::BITS - 1)) as WideWord;
//@+
    assert(borrow <= 1) by (bit_vector) requires borrow == (borrow0 >> 63) as u128;
//@-
    let ret = a.wrapping_sub(b + borrow);
//@+
    proof {
        lemma_split128(ret);
        let t = (b + borrow) as int;
        let hi = ((ret >> 64) as u64) as int; let lo = (ret as u64) as int;
        if a as int >= t {
            assert(ret as int == a as int - t);
        } else {
            assert(ret as int == a as int - t + 0x1_0000_0000_0000_0000_0000_0000_0000_0000);
            assert(hi * 0x1_0000_0000_0000_0000 + lo >= 0xffff_ffff_ffff_ffff * 0x1_0000_0000_0000_0000);
        }
    }
//@-
    (ret as Word, (ret >> Word::BITS) as Word)
}
//@@ end
//@@ fn src/primitives.rs | - | mul_wide | body | props C03 C11
pub const fn mul_wide(lhs: Word, rhs: Word) -> (ret__: (Word, Word))
//@+
    ensures ret__.0 as int + ret__.1 as int * B() == lhs as int * rhs as int
//@-
{
    let a = lhs as WideWord;
    let b = rhs as WideWord;
//@+
    proof { lemma_mul_u64_bound(lhs, rhs); }
//@-
    let ret = a * b;
//@+
    proof { lemma_split128(ret); }
//@-
    (ret as Word, (ret >> Word::BITS) as Word)
}
//@@ end
//@@ fn src/primitives.rs | - | mac | body | props C03 C04 C11
pub const fn mac(a: Word, b: Word, c: Word, carry: Word) -> (ret__: (Word, Word))
//@+
    ensures ret__.0 as int + ret__.1 as int * B() == a as int + b as int * c as int + carry as int
//@-
{
//@+
    proof { lemma_mul_u64_bound(b, c); }
    let ghost (a0, b0, c0) = (a, b, c);
//@-
    let a = a as WideWord;
    let b = b as WideWord;
    let c = c as WideWord;
    let ret = a + (b * c);
//@+
    proof { lemma_split128(ret); }
//@-
    let (lo, hi) = (ret as Word, (ret >> Word::BITS) as Word);
    let (lo, c) = lo.overflowing_add(carry);
    // Even if all the arguments are `Word::MAX` we can't overflow `hi`.
    let hi = hi.wrapping_add(c as Word);
//@+
    assert(ret as int <= 0xffff_ffff_ffff_ffff + 0xffff_ffff_ffff_ffff * 0xffff_ffff_ffff_ffff);
    assert(((ret >> 64) as u64) == 0xffff_ffff_ffff_ffffu64 ==> (ret as u64) == 0) by (bit_vector)
        requires ret <= 0xffff_ffff_ffff_ffff_0000_0000_0000_0000u128;
//@-
    (lo, hi)
}
//@@ end

} // verus!
