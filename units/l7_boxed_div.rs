// L7: slice-level code under the heap-allocated BoxedUint division (src/uint/boxed/div.rs, src/uint/boxed/div_limb.rs) -- C02
use vstd::prelude::*;
use vstd::arithmetic::power::*;
use vstd::arithmetic::power2::*;
use vstd::arithmetic::div_mod::*;
use core::ops::{Shl, Shr, ShlAssign, ShrAssign, BitOr};
use crate::speclib::*;
use crate::speclib_bits::*;
use crate::l0_prim::*;
use crate::l0_corespec::*;
use crate::l1_choice::*;
use crate::l1_limb::*;
use crate::l2_core::*;
use crate::l3_divlimb::*;
verus! {

//@@ fn src/limb/bit_or.rs | impl BitOr for Limb | bitor | body | props C05 C11
impl BitOr for Limb {
fn bitor(self, rhs: Self) -> (ret__: Self::Output)
{
        self.bitor(rhs)
    }
}
//@@ end
//@@ fn src/uint/boxed/div.rs | - | shl_limb_vartime | body | props C02 C11
pub fn shl_limb_vartime(limbs: &mut [Limb], shift: u32) -> (ret__: Limb)
{
    if shift == 0 {
        return Limb::ZERO;
    }
    let lshift = shift;
    let rshift = Limb::BITS - shift;
    let limbs_num = limbs.len();
    let carry = limbs[limbs_num - 1] >> rshift;
    for i in (1..limbs_num).rev()
{
        limbs[i] = (limbs[i] << lshift) | (limbs[i - 1] >> rshift);
    }
    limbs[0] <<= lshift;
    carry
}
//@@ end
//@@ fn src/uint/boxed/div.rs | - | shr_limb_vartime | body | props C02 C11
pub fn shr_limb_vartime(limbs: &mut [Limb], shift: u32)
{
    if shift == 0 {
        return;
    }
    let lshift = Limb::BITS - shift;
    let rshift = shift;
    let limbs_num = limbs.len();
    for i in 0..limbs_num - 1
{
        limbs[i] = (limbs[i] >> rshift) | (limbs[i + 1] << lshift);
    }
    limbs[limbs_num - 1] >>= rshift;
}
//@@ end
//@@ fn src/uint/boxed/div.rs | - | div_rem_vartime_in_place | body | props C02 C11
pub fn div_rem_vartime_in_place(x: &mut [Limb], y: &mut [Limb])
{
    let xc = x.len();
    let yc = y.len();
    assert!(
        yc > 0 && y[yc - 1].0 != 0,
        "divisor must have a non-zero leading word"
    );
    if xc == 0 {
        // If the quotient is empty, set the remainder to zero and return.
        y.fill(Limb::ZERO);
        return;
    } else if yc > xc {
        // Divisor is greater than dividend. Return zero and the dividend as the
        // quotient and remainder
        y[..xc].copy_from_slice(&x[..xc]);
        y[xc..].fill(Limb::ZERO);
        x.fill(Limb::ZERO);
        return;
    }
    let lshift = y[yc - 1].leading_zeros();
    // Shift divisor such that it has no leading zeros
    // This means that div2by1 requires no extra shifts, and ensures that the high word >= b/2
    shl_limb_vartime(y, lshift);
    // Shift the dividend to match
    let mut x_hi = shl_limb_vartime(x, lshift);
    let reciprocal = Reciprocal::new(y[yc - 1].to_nz().expect("zero divisor"));
    for xi in (yc - 1..xc).rev()
{
        // Divide high dividend words by the high divisor word to estimate the quotient word
        let mut quo = div3by2(x_hi.0, x[xi].0, x[xi - 1].0, &reciprocal, y[yc - 2].0);
        // Subtract q*divisor from the dividend
        let borrow = {
            let mut carry = Limb::ZERO;
            let mut borrow = Limb::ZERO;
            let mut tmp;
            for i in 0..yc
{
                let (__t0, __t1) = Limb::ZERO.mac(y[i], Limb(quo), carry); tmp = __t0; carry = __t1;
                let (__t2, __t3) = x[xi + i + 1 - yc].sbb(tmp, borrow); x[xi + i + 1 - yc] = __t2; borrow = __t3;
            }
            let (_, __t4) = x_hi.sbb(carry, borrow); borrow = __t4;
            borrow
        };
        // If the subtraction borrowed, then decrement q and add back the divisor
        // The probability of this being needed is very low, about 2/(Limb::MAX+1)
        quo = {
            let ct_borrow = ConstChoice::from_word_mask(borrow.0);
            let mut carry = Limb::ZERO;
            for i in 0..yc
{
                let (__t5, __t6) = x[xi + i + 1 - yc].adc(Limb::select(Limb::ZERO, y[i], ct_borrow), carry); x[xi + i + 1 - yc] = __t5; carry = __t6;
            }
            ct_borrow.select_word(quo, quo.wrapping_sub(1))
        };
        // Store the quotient within dividend and set x_hi to the current highest word
        x_hi = x[xi];
        x[xi] = Limb(quo);
    }
    // Copy the remainder to divisor
    y[..yc - 1].copy_from_slice(&x[..yc - 1]);
    y[yc - 1] = x_hi;
    // Unshift the remainder from the earlier adjustment
    shr_limb_vartime(y, lshift);
    // Shift the quotient to the low limbs within dividend
    // let x_size = xc - yc + 1;
    x.copy_within(yc - 1..xc, 0);
    x[xc - yc + 1..].fill(Limb::ZERO);
}
//@@ end
//@@ item src/uint/boxed.rs | struct BoxedUint
#[derive(Clone)]
pub struct BoxedUint {
    pub limbs: Box<[Limb]>,
}
//@@ end
//@@ fn src/uint/boxed/shl.rs | impl BoxedUint | shl_limb | stub | props C05 C11
impl BoxedUint {
#[verifier::external_body]
pub fn shl_limb(&self, shift: u32) -> (ret__: (Self, Limb))
{
    unimplemented!()
}
}
//@@ end
//@@ fn src/uint/boxed/div_limb.rs | - | div_rem_limb_with_reciprocal | body | props C02 C11
pub fn div_rem_limb_with_reciprocal(
    u: &BoxedUint,
    reciprocal: &Reciprocal,
) -> (ret__: (BoxedUint, Limb))
{
    let (mut q, mut r) = u.shl_limb(reciprocal.shift());
    let mut j = u.limbs.len();
    while j > 0
{
        j -= 1;
        let (__t0, __t1) = div2by1(r.0, q.limbs[j].0, reciprocal); q.limbs[j].0 = __t0; r.0 = __t1;
    }
    (q, r >> reciprocal.shift())
}
//@@ end
//@@ fn src/uint/boxed/div_limb.rs | - | rem_limb_with_reciprocal | body | props C02 C11
pub fn rem_limb_with_reciprocal(u: &BoxedUint, reciprocal: &Reciprocal) -> (ret__: Limb)
{
    let lshift = reciprocal.shift();
    let nz = ConstChoice::from_u32_nonzero(lshift);
    let rshift = nz.if_true_u32(Limb::BITS - lshift);
    let mut hi = nz.if_true_word(
        u.limbs[u.limbs.len() - 1]
            .0
            .wrapping_shr(Limb::BITS - lshift),
    );
    let mut lo;
    let mut j = u.limbs.len();
    while j > 1
{
        j -= 1;
        lo = u.limbs[j].0 << lshift;
        lo |= nz.if_true_word(u.limbs[j - 1].0 >> rshift);
        let (_, __t0) = div2by1(hi, lo, reciprocal); hi = __t0;
    }
    let (_, __t1) = div2by1(hi, u.limbs[0].0 << lshift, reciprocal); hi = __t1;
    Limb(hi >> reciprocal.shift())
}
//@@ end

} // verus!
