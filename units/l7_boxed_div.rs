// L7: slice-level code under the heap-allocated BoxedUint division (src/uint/boxed/div.rs, src/uint/boxed/div_limb.rs) -- C02
//
// body (proved): shl_limb_vartime, shr_limb_vartime, div_rem_vartime_in_place (Knuth D in place on slices; invariants and
//   lemmas of the fixed-width twin Uint::div_rem_vartime, l3_div_vt.rs, with LIMBS replaced by the slice lengths),
//   boxed div_rem_limb_with_reciprocal / rem_limb_with_reciprocal (twins of l3_divlimb.rs), `impl BitOr for Limb`,
//   `ShlAssign<u32>` / `ShrAssign<u32> for Limb`.
//   `BoxedUint::shl_limb` and `From<Vec<Limb>> for BoxedUint` (the constructor every `vec.into()` of the boxed layer goes through).
// assumed: `Shl<u32>` / `Shr<u32> for Limb` (hand-instantiated macro arms, see below); library: `Vec::into_boxed_slice`, `Box<[T]>: From<Vec<T>>`.
// div_rem_vartime_in_place: besides its documented panic (empty divisor / zero leading divisor limb) the function indexes
//   `y[yc - 2]` and `x[xi - 1]`, i.e. it also panics for a one-limb divisor with a non-empty dividend; every caller in /repo
//   dispatches one-limb divisors to limb division first, so the contract carries `x.len() == 0 || y.len() >= 2`.
// dev: VOUT=/verif/.work/l7_boxed_div /verif/tools/vrun.sh "speclib speclib_bits l0_corespec l0_prim l1_choice l1_limb l2_concat
//   l2_core l2_shift l3_div_vt l3_divlimb l3_karatsuba l3_mul l4_modular l5_monty l7_boxed_slices l7_boxed_div" --verify-only-module l7_boxed_div
//
// Library functions used here: `<[T]>::copy_from_slice`, `<[T]>::copy_within`, range indexing of `&mut [T]`, `for` over
// `Range` / `Rev<Range>` are specified by vstd; `<[T]>::fill` has no vstd specification, it is assumed in
// l7_boxed_slices.rs (a crate may hold one specification per function), so this unit needs l7_boxed_slices in the crate.
// `for` loops: the extracted loop header has no iterator name; the annotations name the ghost iterator of the Verus
// `for` expansion by its default name `VERUS_ghost_iter` (`.index@` = number of completed iterations).
use vstd::prelude::*;
use vstd::arithmetic::power::*;
use vstd::arithmetic::power2::*;
use vstd::arithmetic::div_mod::*;
use core::ops::{Shl, Shr, ShlAssign, ShrAssign, BitOr};
use crate::speclib::*;
use crate::speclib_bits::*;
use crate::l0_prim::*;
use crate::l0_corespec::*;
use crate::l1_choice::*;
use crate::l1_limb::*;
use crate::l2_core::*;
use crate::l3_divlimb::*;
#[allow(unused_imports)]
use crate::l7_boxed_slices::*;   // holds the assumed specification of `<[T]>::fill` (one per crate): must be in the crate
verus! {

// ---------------------------------------------------------------- operators of Limb used by the slice code
// `impl_shl!(i32, u32, usize)` / `impl_shr!(i32, u32, usize)` (src/limb/shl.rs, src/limb/shr.rs) generate
//     impl Shl<$shift> for Limb { fn shl(self, shift: $shift) -> Limb { Self::shl(self, u32::try_from(shift).expect("invalid shift")) } }
//     impl ShlAssign<$shift> for Limb { fn shl_assign(&mut self, shift: $shift) { *self = *self << shift; } }
// (same for shr). The `//@@ macrofn` extractor cannot instantiate these arms (the arm body is a `$( .. )+` repetition and holds
// two fns called `shl`), so the `$shift = u32` instances are written out by hand here:
//  * `Shl<u32>` / `Shr<u32>`: ASSUMED (external_body). vstd has no specification for the identity conversion
//    `u32::try_from(u32)`, so the body cannot be checked; the contract is that of the inherent `Limb::shl` / `Limb::shr`
//    (shift < 64 required: the inherent function traps on overflow in the checked profile).
//  * `ShlAssign<u32>` / `ShrAssign<u32>`: bodies verified against the operator above.
impl vstd::std_specs::ops::ShlSpecImpl<u32> for Limb {
    open spec fn obeys_shl_spec() -> bool { true }
    open spec fn shl_req(self, rhs: u32) -> bool { rhs < 64 }
    open spec fn shl_spec(self, rhs: u32) -> Limb { Limb(self.0 << rhs) }
}
impl Shl<u32> for Limb {
    type Output = Limb;
    #[verifier::external_body]
    fn shl(self, shift: u32) -> (ret__: Limb)
    { Self::shl(self, u32::try_from(shift).expect("invalid shift")) }
}
impl vstd::std_specs::ops::ShrSpecImpl<u32> for Limb {
    open spec fn obeys_shr_spec() -> bool { true }
    open spec fn shr_req(self, rhs: u32) -> bool { rhs < 64 }
    open spec fn shr_spec(self, rhs: u32) -> Limb { Limb(self.0 >> rhs) }
}
impl Shr<u32> for Limb {
    type Output = Limb;
    #[verifier::external_body]
    fn shr(self, shift: u32) -> (ret__: Limb)
    { Self::shr(self, u32::try_from(shift).expect("invalid shift")) }
}
impl vstd::std_specs::ops::ShlAssignSpecImpl<u32> for Limb {
    open spec fn obeys_shl_assign_spec() -> bool { true }
    open spec fn shl_assign_req(&self, rhs: u32) -> bool { rhs < 64 }
    open spec fn shl_assign_spec(&self, rhs: u32) -> &Limb { &Limb(self.0 << rhs) }
}
impl ShlAssign<u32> for Limb {
    fn shl_assign(&mut self, shift: u32)
    { *self = *self << shift; }
}
impl vstd::std_specs::ops::ShrAssignSpecImpl<u32> for Limb {
    open spec fn obeys_shr_assign_spec() -> bool { true }
    open spec fn shr_assign_req(&self, rhs: u32) -> bool { rhs < 64 }
    open spec fn shr_assign_spec(&self, rhs: u32) -> &Limb { &Limb(self.0 >> rhs) }
}
impl ShrAssign<u32> for Limb {
    fn shr_assign(&mut self, shift: u32)
    { *self = *self >> shift; }
}
impl vstd::std_specs::ops::BitOrSpecImpl<Limb> for Limb {
    open spec fn obeys_bitor_spec() -> bool { true }
    open spec fn bitor_req(self, rhs: Limb) -> bool { true }
    open spec fn bitor_spec(self, rhs: Limb) -> Limb { Limb(self.0 | rhs.0) }
}

// ---------------------------------------------------------------- lemmas copied from l3_div_vt.rs (private there)
// ---------------------------------------------------------------- limb-shift lemmas (shl_limb_vartime / shr_limb_vartime)

/// `(a << l) | (b >> (64-l))` has disjoint bit ranges, so the OR is a sum
proof fn lemma_or_is_add(a: u64, b: u64, l: u32)
    requires 0 < l < 64
    ensures ((a << l) | (b >> ((64 - l) as u32))) as int == (a << l) as int + (b >> ((64 - l) as u32)) as int
{
    let r = (64 - l) as u32;
    let x = a << l; let y = b >> r;
    assert(x & y == 0) by (bit_vector) requires 0 < l < 64, r == (64 - l) as u32, x == a << l, y == b >> r;
    assert((x | y) as int == x as int + y as int) by (bit_vector) requires x & y == 0;
}

/// t = s shifted left by l bits inside n limbs; the bits shifted out of the top limb are the carry
proof fn lemma_shl_limbs(s: Seq<Limb>, t: Seq<Limb>, n: nat, l: u32)
    requires 0 < l < 64, n >= 1, t[0].0 == s[0].0 << l,
        forall|j: int| 1 <= j < n ==> t[j].0 == (s[j].0 << l) | (s[j - 1].0 >> ((64 - l) as u32)),
    ensures val(t, n) + (s[n - 1].0 >> ((64 - l) as u32)) as int * bp(n) == val(s, n) * p2(l as nat),
    decreases n
{
    let r = (64 - l) as u32;
    let ps = p2(l as nat);
    lemma_bp1();
    if n == 1 {
        lemma_limb_shl_split(s[0].0, l);
        assert(val(t, 1) == val(t, 0) + t[0].0 as int * bp(0));
        assert(val(s, 1) == val(s, 0) + s[0].0 as int * bp(0));
        assert(val(t, 0) == 0 && val(s, 0) == 0);
    } else {
        let m = (n - 1) as nat;
        lemma_shl_limbs(s, t, m, l);
        lemma_limb_shl_split(s[m as int].0, l);
        lemma_or_is_add(s[m as int].0, s[m - 1].0, l);
        lemma_bp_succ(m);
        let lo = (s[m as int].0 << l) as int; let hi = (s[m as int].0 >> r) as int; let hp = (s[m - 1].0 >> r) as int;
        let pm = bp(m); let sm = s[m as int].0 as int; let tm = t[m as int].0 as int;
        assert(tm == lo + hp);
        assert(val(t, n) == val(t, m) + tm * pm);
        assert(val(s, n) == val(s, m) + sm * pm);
        assert(tm * pm + hi * (B() * pm) == hp * pm + (sm * ps) * pm) by (nonlinear_arith)
            requires tm == lo + hp, lo + hi * B() == sm * ps;
        assert((val(s, m) + sm * pm) * ps == val(s, m) * ps + (sm * ps) * pm) by (nonlinear_arith);
    }
}

/// t[j] = (s[j] >> r) | (s[j+1] << (64-r)) for j < m: prefix relation
proof fn lemma_shr_limbs(s: Seq<Limb>, t: Seq<Limb>, m: nat, r: u32)
    requires 0 < r < 64,
        forall|j: int| 0 <= j < m ==> t[j].0 == (s[j].0 >> r) | (s[j + 1].0 << ((64 - r) as u32)),
    ensures p2(r as nat) * val(t, m) + p2(r as nat) * (s[m as int].0 >> r) as int * bp(m)
            + (s[0].0 as int - p2(r as nat) * (s[0].0 >> r) as int) == val(s, m + 1),
    decreases m
{
    let l = (64 - r) as u32;
    let pr = p2(r as nat);
    lemma_bp1();
    if m == 0 {
        assert(val(s, 1) == val(s, 0) + s[0].0 as int * bp(0));
        assert(val(s, 0) == 0 && val(t, 0) == 0);
        let h0 = (s[0].0 >> r) as int;
        assert(pr * 0 + pr * h0 * 1 + (s[0].0 as int - pr * h0) == s[0].0 as int) by (nonlinear_arith);
    } else {
        let k = (m - 1) as nat;
        lemma_shr_limbs(s, t, k, r);
        let a = s[k as int].0; let b = s[m as int].0;
        lemma_or_is_add(b, a, l);
        assert((b << l) | (a >> r) == (a >> r) | (b << l)) by (bit_vector);
        lemma_limb_shl_split(b, l);
        lemma_pow2_adds(r as nat, l as nat);
        lemma_pow2_64();
        lemma_bp_succ(k);
        let pl = p2(l as nat);
        let ha = (a >> r) as int; let hb = (b >> r) as int; let lb = (b << l) as int;
        let tk = t[k as int].0 as int; let pk = bp(k); let bi = b as int;
        assert(tk == ha + lb);
        assert(pr * pl == B());
        assert(lb + hb * B() == bi * pl);
        // pr * tk == pr*ha + B*(b - pr*hb)
        assert(pr * tk == pr * ha + B() * (bi - pr * hb)) by (nonlinear_arith)
            requires tk == ha + lb, lb + hb * B() == bi * pl, pr * pl == B();
        assert(val(t, m) == val(t, k) + tk * pk);
        assert(val(s, m + 1) == val(s, m) + bi * bp(m));
        assert(pr * (val(t, k) + tk * pk) + pr * hb * (B() * pk) == pr * val(t, k) + pr * ha * pk + bi * (B() * pk)) by (nonlinear_arith)
            requires pr * tk == pr * ha + B() * (bi - pr * hb);
    }
}

// ---------------------------------------------------------------- Knuth algorithm D lemmas

/// quotient digit estimate from the top 3 by 2 limbs is the true digit or one more
proof fn lemma_knuth_digit(wv: int, y: int, u3: int, v2: int, wl: int, yl: int, e: int, q: int)
    requires
        e >= 1, wv == u3 * e + wl, 0 <= wl < e, y == v2 * e + yl, 0 <= yl < e,
        0 <= wv < y * B(), 2 * y >= B() * B() * e, u3 >= 0, v2 > 0,
        q == min_int(B() - 1, u3 / v2),
    ensures
        wv / y <= q <= wv / y + 1, 0 <= wv / y <= B() - 1,
{
    let b = B();
    let qt = wv / y;
    assert(y > 0) by (nonlinear_arith) requires 2 * y >= b * b * e, e >= 1, b == B();
    lemma_fundamental_div_mod(wv, y);
    lemma_mod_bound(wv, y);
    lemma_div_pos_is_pos(wv, y);
    assert(y * qt == qt * y) by (nonlinear_arith);
    assert(qt * y <= wv < (qt + 1) * y) by (nonlinear_arith) requires wv == y * qt + wv % y, 0 <= wv % y < y;
    // qt <= b-1
    assert(qt < b) by (nonlinear_arith) requires qt * y <= wv, wv < y * b, y > 0;
    let q3 = u3 / v2;
    lemma_fundamental_div_mod(u3, v2);
    lemma_mod_bound(u3, v2);
    lemma_div_pos_is_pos(u3, v2);
    assert(v2 * q3 == q3 * v2) by (nonlinear_arith);
    assert(q3 * v2 <= u3 < (q3 + 1) * v2) by (nonlinear_arith) requires u3 == v2 * q3 + u3 % v2, 0 <= u3 % v2 < v2;
    // qt <= q3
    assert(qt * (v2 * e) <= qt * y) by (nonlinear_arith) requires qt >= 0, y == v2 * e + yl, yl >= 0;
    assert(qt * (v2 * e) == qt * v2 * e) by (nonlinear_arith);
    assert(qt * v2 < u3 + 1) by (nonlinear_arith) requires qt * v2 * e <= wv, wv == u3 * e + wl, wl < e, e >= 1;
    assert(qt < q3 + 1) by (nonlinear_arith) requires qt * v2 <= u3, u3 < (q3 + 1) * v2, v2 > 0;
    assert(qt <= q);
    // q <= qt + 1
    if q >= qt + 2 {
        assert(q <= q3);
        assert(q * v2 <= u3) by (nonlinear_arith) requires q <= q3, q3 * v2 <= u3, v2 > 0;
        assert((qt + 2) * v2 <= q * v2) by (nonlinear_arith) requires qt + 2 <= q, v2 > 0;
        assert((qt + 2) * v2 * e <= u3 * e) by (nonlinear_arith) requires (qt + 2) * v2 <= u3, e >= 1;
        // (qt+2)*v2*e = (qt+2)*(y - yl)
        assert((qt + 2) * v2 * e == (qt + 2) * y - (qt + 2) * yl) by (nonlinear_arith) requires y == v2 * e + yl;
        assert((qt + 2) * yl <= (qt + 2) * e) by (nonlinear_arith) requires qt + 2 >= 0, yl <= e;
        // wv >= u3*e >= (qt+2)*y - (qt+2)*e ; wv < (qt+1)*y  => y < (qt+2)*e
        assert((qt + 2) * y == (qt + 1) * y + y) by (nonlinear_arith);
        assert(y < (qt + 2) * e);
        assert((qt + 2) * e <= (b + 1) * e) by (nonlinear_arith) requires qt + 2 <= b + 1, e >= 1;
        assert(b * b * e > 2 * ((b + 1) * e)) by (nonlinear_arith) requires e >= 1, b == 0x1_0000_0000_0000_0000;
        assert(false);
    }
}

/// shifting a limb sequence down by d positions
proof fn lemma_shift_down(s: Seq<Limb>, t: Seq<Limb>, d: nat, n: nat, m: nat)
    requires m + d <= n, forall|j: int| 0 <= j < m ==> t[j] == s[j + d],
    ensures val(t, m) * bp(d) == tv(s, d, m + d),
    decreases m
{
    if m > 0 {
        lemma_shift_down(s, t, d, n, (m - 1) as nat);
        lemma_bp_add((m - 1) as nat, d);
        let a = t[m - 1].0 as int;
        assert(t[m - 1] == s[m - 1 + d]);
        assert((val(t, (m - 1) as nat) + a * bp((m - 1) as nat)) * bp(d) == val(t, (m - 1) as nat) * bp(d) + a * (bp((m - 1) as nat) * bp(d))) by (nonlinear_arith);
        assert((m - 1 + d) as nat == (m + d - 1) as nat);
    } else {
        assert(0 * bp(d) == 0);
    }
}

/// tv(s, p, n) / B^p
spec fn tvq(s: Seq<Limb>, p: nat, n: nat) -> int
    decreases n
{ if n <= p { 0 } else { tvq(s, p, (n - 1) as nat) + s[n - 1].0 as int * bp((n - 1 - p) as nat) } }

proof fn lemma_tv_factor(s: Seq<Limb>, p: nat, n: nat)
    requires p <= n
    ensures tv(s, p, n) == bp(p) * tvq(s, p, n), tvq(s, p, n) >= 0
    decreases n - p
{
    if n > p {
        lemma_tv_factor(s, p, (n - 1) as nat);
        lemma_bp_add(p, (n - 1 - p) as nat);
        lemma_bp_succ((n - 1 - p) as nat);
        let a = s[n - 1].0 as int; let e = bp((n - 1 - p) as nat);
        assert((p + (n - 1 - p)) as nat == (n - 1) as nat);
        assert(bp(p) * (tvq(s, p, (n - 1) as nat) + a * e) == bp(p) * tvq(s, p, (n - 1) as nat) + a * (bp(p) * e)) by (nonlinear_arith);
        assert(a * e >= 0) by (nonlinear_arith) requires a >= 0, e > 0;
    } else {
        assert(bp(p) * 0 == 0);
    }
}

/// a normalised divisor has the top bit of its top limb set
proof fn lemma_knuth_top_norm(ys: Seq<Limb>, yc: nat)
    requires yc >= 1, 2 * val(ys, yc) >= bp(yc)
    ensures ys[yc - 1].0 as int >= B() / 2, ys[yc - 1].0 != 0
{
    lemma_val_bound(ys, (yc - 1) as nat);
    lemma_bp_succ((yc - 1) as nat);
    let top = ys[yc - 1].0 as int; let pt = bp((yc - 1) as nat);
    assert(2 * top >= B() - 1) by (nonlinear_arith)
        requires 2 * (val(ys, (yc - 1) as nat) + top * pt) >= B() * pt, val(ys, (yc - 1) as nat) <= pt - 1, pt > 0;
}

/// undo the normalisation: the remainder of the shifted problem is the shifted remainder
proof fn lemma_knuth_unshift(sv: int, rv: int, s2: int, qacc: int, rem_n: int, hi: int, lo: int)
    requires s2 > 0, rv > 0, sv * s2 == qacc * (rv * s2) + rem_n, rem_n == hi + lo, hi >= 0, lo >= 0, rem_n < rv * s2,
    ensures qacc * rv + rem_n / s2 == sv, 0 <= rem_n / s2 < rv
{
    let rr = sv - qacc * rv;
    assert(rem_n == rr * s2) by (nonlinear_arith) requires sv * s2 == qacc * (rv * s2) + rem_n, rr == sv - qacc * rv;
    assert(0 <= rr < rv) by (nonlinear_arith) requires rem_n == rr * s2, 0 <= rem_n, rem_n < rv * s2, s2 > 0;
    lemma_div_multiples_vanish(rr, s2);
    assert(rr * s2 == s2 * rr) by (nonlinear_arith);
    lemma_div_by_multiple(rr, s2);
}

/// scaled window value of one Knuth iteration: limbs p..k of x (p = k - yc) with the extra top limb h
spec fn kn_wsc(xb: Seq<Limb>, h: int, k: nat, yc: nat) -> int { tv(xb, (k - yc) as nat, k) + h * bp(k) }
/// the true quotient digit of the iteration
spec fn kn_qt(xb: Seq<Limb>, h: int, k: nat, yc: nat, yv: int) -> int { kn_wsc(xb, h, k, yc) / (yv * bp((k - yc) as nat)) }

/// the top dividend limb does not exceed the top divisor limb (precondition of div3by2)
proof fn lemma_knuth_top(xb: Seq<Limb>, ys: Seq<Limb>, h: int, k: nat, yc: nat, yv: int)
    requires 2 <= yc <= k, yv == val(ys, yc), h >= 0,
        h * bp(k) + val(xb, k) < yv * bp((k - yc + 1) as nat),
    ensures h <= ys[yc - 1].0 as int
{
    let p = (k - yc) as nat; let pp = bp(p);
    lemma_bp_succ(p); lemma_bp_succ((yc - 1) as nat); lemma_bp_succ(k);
    lemma_bp_add(p, yc);
    lemma_val_bound(xb, k); lemma_val_bound(ys, (yc - 1) as nat);
    let top = ys[yc - 1].0 as int;
    let pt = bp((yc - 1) as nat);
    assert(yv == val(ys, (yc - 1) as nat) + top * pt);
    assert(yv < (top + 1) * pt) by (nonlinear_arith)
        requires yv == val(ys, (yc - 1) as nat) + top * pt, val(ys, (yc - 1) as nat) <= pt - 1;
    assert(B() * pp > 0) by (nonlinear_arith) requires pp > 0;
    assert(yv * (B() * pp) < (top + 1) * pt * (B() * pp)) by (nonlinear_arith)
        requires yv < (top + 1) * pt, B() * pp > 0;
    assert((top + 1) * pt * (B() * pp) == (top + 1) * bp(k)) by (nonlinear_arith)
        requires bp(k) == pp * bp(yc), bp(yc) == B() * pt;
    assert((k - yc + 1) as nat == p + 1);
    assert(yv * bp((k - yc + 1) as nat) == yv * (B() * pp));
    assert(h < top + 1) by (nonlinear_arith) requires h * bp(k) < (top + 1) * bp(k), bp(k) > 0;
}

/// the 3-by-2 estimate is the true digit qt or qt + 1
proof fn lemma_knuth_quo(xb: Seq<Limb>, ys: Seq<Limb>, h: int, k: nat, yc: nat, yv: int, quo: int)
    requires 2 <= yc <= k, yv == val(ys, yc), 2 * yv >= bp(yc), yv < bp(yc), 0 <= h,
        h * bp(k) + val(xb, k) < yv * bp((k - yc + 1) as nat),
        ys[yc - 1].0 as int >= B() / 2,
        quo == min_int(B() - 1, ((h * B() + xb[k - 1].0 as int) * B() + xb[k - 2].0 as int) / (ys[yc - 1].0 as int * B() + ys[yc - 2].0 as int)),
    ensures
        kn_qt(xb, h, k, yc, yv) <= quo <= kn_qt(xb, h, k, yc, yv) + 1,
        0 <= kn_qt(xb, h, k, yc, yv) <= B() - 1,
        kn_qt(xb, h, k, yc, yv) * yv * bp((k - yc) as nat) <= kn_wsc(xb, h, k, yc) < (kn_qt(xb, h, k, yc, yv) + 1) * yv * bp((k - yc) as nat),
        kn_wsc(xb, h, k, yc) >= 0, yv * bp((k - yc) as nat) > 0,
{
    let p = (k - yc) as nat; let pp = bp(p);
    let xi = (k - 1) as nat;
    let wsc = kn_wsc(xb, h, k, yc);
    let qt = kn_qt(xb, h, k, yc, yv);
    let e = bp((yc - 2) as nat);
    lemma_bp_succ(p); lemma_bp_succ(0); lemma_bp_succ(k); lemma_bp_succ((yc - 1) as nat); lemma_bp_succ((yc - 2) as nat);
    lemma_bp_add(p, yc); lemma_bp_add(p, (yc - 1) as nat); lemma_bp_add(p, (yc - 2) as nat);
    lemma_tv_bound(xb, 0, k); lemma_tv_bound(xb, 0, p); lemma_tv_bound(xb, p, k); assert(val(xb, 0) == 0);
    lemma_tv_bound(ys, 0, (yc - 1) as nat); lemma_tv_bound(ys, 0, (yc - 2) as nat); assert(val(ys, 0) == 0);
    assert((k - yc + 1) as nat == p + 1);
    let top = ys[yc - 1].0 as int; let y2 = ys[yc - 2].0 as int;
    let x1 = xb[xi as int].0 as int; let x0 = xb[xi - 1].0 as int;
    let u3 = (h * B() + x1) * B() + x0;
    let v2 = top * B() + y2;
    let wl_sc = tv(xb, p, (xi - 1) as nat);
    lemma_tv_bound(xb, p, (xi - 1) as nat);
    lemma_bp_succ((xi - 1) as nat); lemma_bp_succ(xi);
    assert((p + (yc - 2)) as nat == (xi - 1) as nat);
    assert(bp((xi - 1) as nat) == pp * e);
    assert(val(xb, k) == val(xb, xi) + x1 * bp(xi));
    assert(val(xb, xi) == val(xb, (xi - 1) as nat) + x0 * bp((xi - 1) as nat));
    assert(wsc == wl_sc + u3 * (pp * e)) by (nonlinear_arith)
        requires wsc == wl_sc + x0 * bp((xi - 1) as nat) + x1 * bp(xi) + h * bp(k),
            bp(xi) == B() * bp((xi - 1) as nat), bp(k) == B() * bp(xi), bp((xi - 1) as nat) == pp * e,
            u3 == (h * B() + x1) * B() + x0;
    let yl = val(ys, (yc - 2) as nat);
    assert(val(ys, yc) == val(ys, (yc - 1) as nat) + top * bp((yc - 1) as nat));
    assert(val(ys, (yc - 1) as nat) == yl + y2 * e);
    assert(yv == v2 * e + yl) by (nonlinear_arith)
        requires yv == yl + y2 * e + top * bp((yc - 1) as nat), bp((yc - 1) as nat) == B() * e, v2 == top * B() + y2;
    assert(yv * pp == v2 * (pp * e) + yl * pp) by (nonlinear_arith) requires yv == v2 * e + yl;
    assert(0 <= yl * pp < pp * e) by (nonlinear_arith) requires 0 <= yl < e, pp > 0;
    assert(wl_sc < pp * e);
    assert(wsc <= h * bp(k) + val(xb, k));
    assert(wsc < (yv * pp) * B()) by (nonlinear_arith)
        requires wsc <= h * bp(k) + val(xb, k), h * bp(k) + val(xb, k) < yv * (B() * pp);
    assert(2 * (yv * pp) >= B() * B() * (pp * e)) by (nonlinear_arith)
        requires 2 * yv >= bp(yc), bp(yc) == B() * bp((yc - 1) as nat), bp((yc - 1) as nat) == B() * e, pp > 0;
    assert(pp * e >= 1) by (nonlinear_arith) requires pp >= 1, e >= 1;
    assert(u3 >= 0) by (nonlinear_arith) requires u3 == (h * B() + x1) * B() + x0, h >= 0, x1 >= 0, x0 >= 0;
    assert(v2 > 0) by (nonlinear_arith) requires v2 == top * B() + y2, top >= B() / 2, y2 >= 0;
    assert(wsc >= 0) by (nonlinear_arith) requires wsc == wl_sc + u3 * (pp * e), wl_sc >= 0, u3 >= 0, pp * e >= 1;
    lemma_knuth_digit(wsc, yv * pp, u3, v2, wl_sc, yl * pp, pp * e, quo);
    assert(yv * pp > 0) by (nonlinear_arith) requires 2 * yv >= bp(yc), bp(yc) > 0, pp > 0;
    lemma_fundamental_div_mod(wsc, yv * pp);
    lemma_mod_bound(wsc, yv * pp);
    assert(qt * yv * pp <= wsc < (qt + 1) * yv * pp) by (nonlinear_arith)
        requires wsc == (yv * pp) * qt + wsc % (yv * pp), 0 <= wsc % (yv * pp) < yv * pp;
}

/// one limb of the multiply-and-subtract loop
proof fn lemma_knuth_sub_step(xb: Seq<Limb>, xo: Seq<Limb>, xn: Seq<Limb>, ys: Seq<Limb>, p: nat, i: nat, q: int,
        c0: int, c1: int, b0: int, b1: int, tm: int)
    requires
        forall|j: int| 0 <= j < p + i ==> xn[j] == xo[j],
        xo[(p + i) as int] == xb[(p + i) as int],
        tv(xo, p, p + i) == tv(xb, p, p + i) - q * val(ys, i) * bp(p) + c0 * bp(p + i) + b0 * bp(p + i),
        tm + c1 * B() == ys[i as int].0 as int * q + c0,
        xn[(p + i) as int].0 as int - b1 * B() == xb[(p + i) as int].0 as int - tm - b0,
    ensures
        tv(xn, p, p + i + 1) == tv(xb, p, p + i + 1) - q * val(ys, i + 1) * bp(p) + c1 * bp(p + i + 1) + b1 * bp(p + i + 1),
{
    let kk = p + i; let pp = bp(p);
    lemma_val_ext(xo, xn, kk);
    lemma_val_ext(xo, xn, p);
    lemma_bp_succ(kk);
    lemma_bp_add(p, i);
    let pk = bp(kk);
    let xov = xb[kk as int].0 as int; let xnv = xn[kk as int].0 as int;
    let yi = ys[i as int].0 as int;
    assert(val(xn, kk + 1) == val(xn, kk) + xnv * pk);
    assert(val(xb, kk + 1) == val(xb, kk) + xov * pk);
    assert(val(ys, i + 1) == val(ys, i) + yi * bp(i));
    assert(xnv * pk == xov * pk - (yi * q) * pk + c1 * (B() * pk) - c0 * pk + b1 * (B() * pk) - b0 * pk) by (nonlinear_arith)
        requires tm + c1 * B() == yi * q + c0, xnv - b1 * B() == xov - tm - b0;
    assert((yi * q) * pk == q * (yi * bp(i)) * pp) by (nonlinear_arith) requires pk == pp * bp(i);
    assert(q * (val(ys, i) + yi * bp(i)) * pp == q * val(ys, i) * pp + q * (yi * bp(i)) * pp) by (nonlinear_arith);
}

/// after the top limb: the borrow tells whether the estimate was one too large
proof fn lemma_knuth_sub_final(xb: Seq<Limb>, xs: Seq<Limb>, h: int, k: nat, yc: nat, yv: int, q: int, c: int, b0: int, b1: int)
    requires 2 <= yc <= k, 0 < yv <= bp(yc),
        kn_qt(xb, h, k, yc, yv) <= q <= kn_qt(xb, h, k, yc, yv) + 1,
        kn_qt(xb, h, k, yc, yv) * yv * bp((k - yc) as nat) <= kn_wsc(xb, h, k, yc) < (kn_qt(xb, h, k, yc, yv) + 1) * yv * bp((k - yc) as nat),
        tv(xs, (k - yc) as nat, k) == tv(xb, (k - yc) as nat, k) - q * yv * bp((k - yc) as nat) + c * bp(k) + b0 * bp(k),
        b0 == 0 || b0 == 1, b1 == 0 || b1 == 1, 0 <= c < B(), 0 <= h < B(),
        (b1 == 1) <==> (h - c - b0 < 0),
    ensures
        (b1 == 1) <==> (q == kn_qt(xb, h, k, yc, yv) + 1),
        tv(xs, (k - yc) as nat, k) == (if b1 == 1 { bp(k) + (kn_wsc(xb, h, k, yc) - kn_qt(xb, h, k, yc, yv) * yv * bp((k - yc) as nat)) - yv * bp((k - yc) as nat) }
                                       else { kn_wsc(xb, h, k, yc) - kn_qt(xb, h, k, yc, yv) * yv * bp((k - yc) as nat) }),
{
    let p = (k - yc) as nat; let pp = bp(p);
    let wsc = kn_wsc(xb, h, k, yc); let qt = kn_qt(xb, h, k, yc, yv);
    let tt = h - c - b0 + b1 * B();
    assert(0 <= tt <= B() - 1);
    lemma_bp_add(p, yc);
    lemma_bp_succ(k); lemma_bp_succ(p);
    let pt = bp(k);
    assert(tt * pt - b1 * (B() * pt) == h * pt - c * pt - b0 * pt) by (nonlinear_arith)
        requires tt - b1 * B() == h - c - b0;
    let l = tv(xs, p, k);
    assert(l + tt * pt == wsc - q * yv * pp + b1 * (B() * pt));
    lemma_tv_bound(xs, p, k);
    assert(0 <= tt * pt <= (B() - 1) * pt) by (nonlinear_arith) requires 0 <= tt <= B() - 1, pt > 0;
    assert((B() - 1) * pt == B() * pt - pt) by (nonlinear_arith);
    assert(yv * pp <= bp(yc) * pp) by (nonlinear_arith) requires yv <= bp(yc), pp > 0;
    assert(bp(yc) * pp == pt) by (nonlinear_arith) requires pt == pp * bp(yc);
    assert(q * yv * pp == qt * yv * pp + (q - qt) * (yv * pp)) by (nonlinear_arith);
    assert((qt + 1) * yv * pp == qt * yv * pp + yv * pp) by (nonlinear_arith);
    let tpt = tt * pt; let bpt = B() * pt;
    let rprime = wsc - qt * yv * pp;
    assert(0 <= rprime < yv * pp);
    assert(tt >= 1 ==> tpt >= pt) by (nonlinear_arith) requires tpt == tt * pt, pt > 0;
    assert(tt <= B() - 2 ==> tpt <= bpt - 2 * pt) by (nonlinear_arith) requires tpt == tt * pt, bpt == B() * pt, pt > 0;
    assert(tpt >= 0) by (nonlinear_arith) requires tpt == tt * pt, tt >= 0, pt > 0;
    assert(b1 == 0 ==> b1 * bpt == 0) by (nonlinear_arith);
    assert(b1 == 1 ==> b1 * bpt == bpt) by (nonlinear_arith);
    if q == qt {
        assert((q - qt) * (yv * pp) == 0) by (nonlinear_arith) requires q - qt == 0;
        assert(l + tpt == rprime + b1 * bpt);
        assert(b1 == 0);
        assert(tt == 0);
        assert(tpt == 0) by (nonlinear_arith) requires tpt == tt * pt, tt == 0;
        assert(l == rprime);
    } else {
        assert(q == qt + 1);
        assert((q - qt) * (yv * pp) == yv * pp) by (nonlinear_arith) requires q - qt == 1;
        assert(l + tpt == rprime - yv * pp + b1 * bpt);
        assert(b1 == 1);
        assert(tt == B() - 1);
        assert(tpt == bpt - pt) by (nonlinear_arith) requires tpt == tt * pt, bpt == B() * pt, tt == B() - 1;
        assert(l == pt + rprime - yv * pp);
    }
}

/// one limb of the conditional add-back loop
proof fn lemma_knuth_add_step(xs: Seq<Limb>, xo: Seq<Limb>, xn: Seq<Limb>, ys: Seq<Limb>, p: nat, i: nat, m: int, sel: int,
        c0: int, c1: int)
    requires
        forall|j: int| 0 <= j < p + i ==> xn[j] == xo[j],
        xo[(p + i) as int] == xs[(p + i) as int],
        tv(xo, p, p + i) + c0 * bp(p + i) == tv(xs, p, p + i) + m * val(ys, i) * bp(p),
        (m == 1 && sel == ys[i as int].0 as int) || (m == 0 && sel == 0),
        xn[(p + i) as int].0 as int + c1 * B() == xs[(p + i) as int].0 as int + sel + c0,
    ensures
        tv(xn, p, p + i + 1) + c1 * bp(p + i + 1) == tv(xs, p, p + i + 1) + m * val(ys, i + 1) * bp(p),
{
    let kk = p + i; let pp = bp(p);
    lemma_val_ext(xo, xn, kk);
    lemma_val_ext(xo, xn, p);
    lemma_bp_succ(kk);
    lemma_bp_add(p, i);
    let pk = bp(kk);
    let xov = xs[kk as int].0 as int; let xnv = xn[kk as int].0 as int; let yi = ys[i as int].0 as int;
    assert(val(xn, kk + 1) == val(xn, kk) + xnv * pk);
    assert(val(xs, kk + 1) == val(xs, kk) + xov * pk);
    assert(val(ys, i + 1) == val(ys, i) + yi * bp(i));
    assert(m * yi == sel) by (nonlinear_arith) requires (m == 1 && sel == yi) || (m == 0 && sel == 0);
    assert(xnv * pk + c1 * (B() * pk) == xov * pk + m * yi * pk + c0 * pk) by (nonlinear_arith)
        requires xnv + c1 * B() == xov + m * yi + c0;
    assert(m * yi * pk == m * (yi * bp(i)) * pp) by (nonlinear_arith) requires pk == pp * bp(i);
    assert(m * (val(ys, i) + yi * bp(i)) * pp == m * val(ys, i) * pp + m * (yi * bp(i)) * pp) by (nonlinear_arith);
}

/// after the add-back loop the window holds the true partial remainder
proof fn lemma_knuth_add_final(xs: Seq<Limb>, xa: Seq<Limb>, k: nat, yc: nat, yv: int, m: int, c: int, rp: int)
    requires 2 <= yc <= k, 0 < yv <= bp(yc), m == 0 || m == 1, c >= 0,
        tv(xa, (k - yc) as nat, k) + c * bp(k) == tv(xs, (k - yc) as nat, k) + m * yv * bp((k - yc) as nat),
        tv(xs, (k - yc) as nat, k) == (if m == 1 { bp(k) + rp - yv * bp((k - yc) as nat) } else { rp }),
        0 <= rp < yv * bp((k - yc) as nat),
    ensures tv(xa, (k - yc) as nat, k) == rp
{
    let p = (k - yc) as nat; let pp = bp(p);
    lemma_bp_add(p, yc); lemma_bp_succ(p); lemma_bp_succ(k);
    lemma_tv_bound(xa, p, k);
    let pt = bp(k);
    let cpt = c * pt;
    assert(yv * pp <= bp(yc) * pp) by (nonlinear_arith) requires yv <= bp(yc), pp > 0;
    assert(bp(yc) * pp == pt) by (nonlinear_arith) requires pt == pp * bp(yc);
    assert(c == 0 ==> cpt == 0) by (nonlinear_arith) requires cpt == c * pt;
    assert(c == 1 ==> cpt == pt) by (nonlinear_arith) requires cpt == c * pt;
    assert(c >= 2 ==> cpt >= 2 * pt) by (nonlinear_arith) requires cpt == c * pt, pt > 0;
    if m == 1 {
        assert(m * yv * pp == yv * pp) by (nonlinear_arith) requires m == 1;
    } else {
        assert(m * yv * pp == 0) by (nonlinear_arith) requires m == 0;
    }
}

/// the partial remainder below the window plus the reduced window stays below yv * B^p
proof fn lemma_knuth_rem_bound(xb: Seq<Limb>, h: int, k: nat, yc: nat, yv: int, qt: int)
    requires 2 <= yc <= k,
        kn_wsc(xb, h, k, yc) - qt * yv * bp((k - yc) as nat) < yv * bp((k - yc) as nat),
    ensures val(xb, (k - yc) as nat) + (kn_wsc(xb, h, k, yc) - qt * yv * bp((k - yc) as nat)) < yv * bp((k - yc) as nat)
{
    let p = (k - yc) as nat; let pp = bp(p);
    let wsc = kn_wsc(xb, h, k, yc);
    let rp = wsc - qt * yv * pp;
    lemma_bp_add(p, yc); lemma_bp_succ(p);
    lemma_val_bound(xb, p);
    lemma_tv_factor(xb, p, k);
    let w = tvq(xb, p, k);
    let byc = bp(yc);
    let z = w + h * byc - qt * yv;
    assert(h * (pp * byc) == pp * (h * byc)) by (nonlinear_arith);
    assert(qt * yv * pp == pp * (qt * yv)) by (nonlinear_arith);
    assert(pp * (w + h * byc - qt * yv) == pp * w + pp * (h * byc) - pp * (qt * yv)) by (nonlinear_arith);
    assert(rp == pp * z);
    assert(z < yv) by (nonlinear_arith) requires pp * z < yv * pp, pp > 0;
    assert(pp * z <= pp * (yv - 1)) by (nonlinear_arith) requires z <= yv - 1, pp > 0;
    assert(pp * (yv - 1) == yv * pp - pp) by (nonlinear_arith);
}

/// end of one iteration of div_rem_vartime: the outer invariant moves from k to k - 1
proof fn lemma_knuth_iter_vt(xb: Seq<Limb>, xa: Seq<Limb>, xn: Seq<Limb>, h: int, k: nat, yc: nat, n: nat, yv: int, qt: int, qacc: int, xv: int)
    requires 2 <= yc <= k <= n, yv > 0,
        0 <= kn_wsc(xb, h, k, yc) - qt * yv * bp((k - yc) as nat) < yv * bp((k - yc) as nat),
        tv(xa, (k - yc) as nat, k) == kn_wsc(xb, h, k, yc) - qt * yv * bp((k - yc) as nat),
        forall|j: int| 0 <= j < n && !(k - yc <= j < k) ==> xa[j] == xb[j],
        forall|j: int| 0 <= j < n && j != k - 1 ==> xn[j] == xa[j],
        xn[k - 1].0 as int == qt,
        xv == qacc * yv + h * bp(k) + val(xb, k),
        tv(xb, k, n) == qacc * bp((yc - 1) as nat),
    ensures
        xv == (qacc + qt * bp((k - yc) as nat)) * yv + xa[k - 1].0 as int * bp((k - 1) as nat) + val(xn, (k - 1) as nat),
        xa[k - 1].0 as int * bp((k - 1) as nat) + val(xn, (k - 1) as nat) < yv * bp((k - yc) as nat),
        tv(xn, (k - 1) as nat, n) == (qacc + qt * bp((k - yc) as nat)) * bp((yc - 1) as nat),
{
    let p = (k - yc) as nat; let pp = bp(p); let xi = (k - 1) as nat;
    let wsc = kn_wsc(xb, h, k, yc);
    let rp = wsc - qt * yv * pp;
    let hn = xa[xi as int].0 as int;
    lemma_val_ext(xa, xn, xi);
    lemma_val_ext(xb, xa, p);
    lemma_tv_ext(xn, xa, k, n);
    lemma_tv_ext(xa, xb, k, n);
    lemma_bp_succ(xi);
    lemma_bp_add(p, (yc - 1) as nat);
    assert((p + (yc - 1)) as nat == xi);
    assert(val(xa, k) == val(xa, xi) + hn * bp(xi));
    assert(hn * bp(xi) + val(xn, xi) == val(xb, p) + rp);
    assert(h * bp(k) + val(xb, k) == val(xb, p) + wsc);
    assert(val(xn, k) == val(xn, xi) + qt * bp(xi));
    assert(tv(xn, xi, n) == tv(xn, k, n) + qt * bp(xi));
    assert(qt * bp(xi) == (qt * pp) * bp((yc - 1) as nat)) by (nonlinear_arith) requires bp(xi) == pp * bp((yc - 1) as nat);
    assert((qacc + qt * pp) * bp((yc - 1) as nat) == qacc * bp((yc - 1) as nat) + (qt * pp) * bp((yc - 1) as nat)) by (nonlinear_arith);
    assert((qacc + qt * pp) * yv == qacc * yv + qt * yv * pp) by (nonlinear_arith);
    lemma_knuth_rem_bound(xb, h, k, yc, yv, qt);
}
// ---------------------------------------------------------------- lemmas copied from l3_divlimb.rs (private there)
/// u1 < d, u0 < b  ==>  u1*b + u0 < d*b   (symbolic b)
proof fn lemma_d21_uu_bound(b: int, u1: int, u0: int, d: int)
    requires u1 <= d - 1, u0 < b, b > 0
    ensures u1 * b + u0 < d * b
{
    assert(u1 * b <= (d - 1) * b) by (nonlinear_arith) requires u1 <= d - 1, b > 0;
    assert((d - 1) * b == d * b - b) by (nonlinear_arith);
}

/// the limb shifted out by shl_limb is below the normalised divisor
proof fn lemma_divlimb_init(usv: int, hi: int, uv: int, ps: int, dv: int, n: nat)
    requires usv + hi * bp(n) == uv * ps, 0 <= usv, 0 <= uv < bp(n), ps > 0, dv >= 1, hi >= 0
    ensures hi < ps, hi < dv * ps
{
    let p = bp(n);
    assert(uv * ps < p * ps) by (nonlinear_arith) requires uv < p, ps > 0;
    assert(hi < ps) by (nonlinear_arith) requires hi * p < p * ps, p > 0;
    assert(dv * ps >= ps) by (nonlinear_arith) requires dv >= 1, ps > 0;
}

/// one step of the schoolbook loop: bring down limb j, append quotient limb qj
proof fn lemma_divlimb_step(qo: Seq<Limb>, qn: Seq<Limb>, us: Seq<Limb>, j: nat, n: nat, dn: int, r: int, qj: int, rj: int, total: int)
    requires
        j < n,
        forall|k: int| j < k < n ==> qn[k] == qo[k],
        qn[j as int].0 as int == qj,
        qj * dn + rj == r * B() + us[j as int].0 as int,
        tv(qo, j + 1, n) * dn + r * bp(j + 1) + val(us, j + 1) == total,
    ensures
        tv(qn, j, n) * dn + rj * bp(j) + val(us, j) == total,
{
    lemma_tv_ext(qo, qn, j + 1, n);
    lemma_val_step(qn, j);
    lemma_val_step(us, j);
    lemma_bp_succ(j);
    let t = tv(qo, j + 1, n); let p = bp(j); let x = us[j as int].0 as int; let b = B();
    assert(tv(qn, j, n) == t + qj * p);
    assert((t + qj * p) * dn + rj * p == t * dn + r * (b * p) + x * p) by (nonlinear_arith)
        requires qj * dn + rj == r * b + x;
}

/// the (discarded) quotient word of div2by1 is a u64 value determined by the inputs
proof fn lemma_divlimb_quot(r: int, x: int, dn: int, rj: int)
    requires dn > 0, 0 <= r < dn, 0 <= x < B(), rj == (r * B() + x) % dn
    ensures ({ let q = (r * B() + x) / dn; 0 <= q < B() && q * dn + rj == r * B() + x })
{
    let b = B(); let y = r * b + x; let q = y / dn;
    lemma_fundamental_div_mod(y, dn);
    lemma_mod_bound(y, dn);
    assert(dn * q == q * dn) by (nonlinear_arith);
    lemma_d21_uu_bound(b, r, x, dn);
    assert(y >= 0) by (nonlinear_arith) requires y == r * b + x, r >= 0, x >= 0, b > 0;
    assert(q < b) by (nonlinear_arith) requires q * dn + rj == y, y < dn * b, rj >= 0, dn > 0;
    assert(q >= 0) by (nonlinear_arith) requires q * dn + rj == y, y >= 0, rj < dn, dn > 0;
}

/// undo the normalisation: Q*(dv*2^s) + r == U*2^s  ==>  Q*dv + r/2^s == U
proof fn lemma_divlimb_final(qv: int, r: int, uv: int, dv: int, ps: int)
    requires ps > 0, qv * (dv * ps) + r == uv * ps, 0 <= r < dv * ps
    ensures qv * dv + r / ps == uv, 0 <= r / ps < dv
{
    let x = uv - qv * dv;
    assert(x * ps == r) by (nonlinear_arith) requires x == uv - qv * dv, qv * (dv * ps) + r == uv * ps;
    lemma_div_multiples_vanish(x, ps);
    assert(ps * x == x * ps) by (nonlinear_arith);
    assert(x < dv) by (nonlinear_arith) requires x * ps < dv * ps, ps > 0;
    assert(x >= 0) by (nonlinear_arith) requires x * ps >= 0, ps > 0;
}

proof fn lemma_tv_empty_mul(q: Seq<Limb>, n: nat, dn: int)
    ensures tv(q, n, n) * dn == 0
{
    let t = tv(q, n, n);
    assert(t * dn == 0) by (nonlinear_arith) requires t == 0;
}

// ---------------------------------------------------------------- lemmas of this unit

/// a limb sequence whose top limb is non-zero has a value of at least B^(n-1)
proof fn lemma_bd_pos(ys: Seq<Limb>, n: nat)
    requires n >= 1, ys[n - 1].0 != 0
    ensures val(ys, n) >= bp((n - 1) as nat), bp((n - 1) as nat) > 0
{
    lemma_val_bound(ys, (n - 1) as nat); lemma_bp_succ((n - 1) as nat);
    let top = ys[n - 1].0 as int; let pt = bp((n - 1) as nat);
    assert(top * pt >= pt) by (nonlinear_arith) requires top >= 1, pt > 0;
}

/// n < B^xc <= B^(yc-1) <= d for a divisor with more limbs than the dividend
proof fn lemma_bd_short(xs: Seq<Limb>, ys: Seq<Limb>, xc: nat, yc: nat)
    requires xc < yc, ys[yc - 1].0 != 0
    ensures 0 <= val(xs, xc) < val(ys, yc)
{
    lemma_val_bound(xs, xc); lemma_bd_pos(ys, yc);
    lemma_pow_increases(B() as nat, xc, (yc - 1) as nat);
}

/// normalisation by the leading-zero count l of the top divisor limb
proof fn lemma_bd_norm(ys: Seq<Limb>, yc: nat, xc: nat, sv: int, l: nat)
    requires 1 <= yc <= xc, l < 64, (ys[yc - 1].0 as int) < p2((64 - l) as nat), ys[yc - 1].0 as int >= p2((63 - l) as nat),
        0 <= sv < bp(xc),
    ensures
        ({ let s2 = p2(l); let yv = val(ys, yc) * s2; let xv = sv * s2;
           &&& s2 > 0 &&& 2 * yv >= bp(yc) &&& yv < bp(yc) &&& yv > 0 &&& val(ys, yc) > 0
           &&& 0 <= xv &&& xv < yv * bp((xc - yc + 1) as nat) })
{
    let s2 = p2(l); let rv = val(ys, yc); let yv = rv * s2; let xv = sv * s2;
    let top = ys[yc - 1].0 as int; let pt = bp((yc - 1) as nat); let lo = val(ys, (yc - 1) as nat);
    let ph = p2((64 - l) as nat); let pl = p2((63 - l) as nat);
    lemma_pow2_pos(l); lemma_pow2_64();
    lemma_val_bound(ys, (yc - 1) as nat); lemma_bp_succ((yc - 1) as nat);
    assert(rv == lo + top * pt);
    lemma_pow2_adds((64 - l) as nat, l);
    lemma_pow2_adds((63 - l) as nat, l);
    assert(((64 - l) as nat) + l == 64 && ((63 - l) as nat) + l == 63);
    assert(ph * s2 == B());
    assert(pl * s2 == 0x8000_0000_0000_0000);
    // upper bound
    assert((top + 1) * pt <= ph * pt) by (nonlinear_arith) requires top + 1 <= ph, pt > 0;
    assert((top + 1) * pt == top * pt + pt) by (nonlinear_arith);
    assert(rv < ph * pt);
    assert(rv * s2 < (ph * pt) * s2) by (nonlinear_arith) requires rv < ph * pt, s2 > 0;
    assert((ph * pt) * s2 == (ph * s2) * pt) by (nonlinear_arith);
    assert(yv < bp(yc));
    // lower bound
    assert(top * pt >= pl * pt) by (nonlinear_arith) requires top >= pl, pt > 0;
    assert(rv * s2 >= (pl * pt) * s2) by (nonlinear_arith) requires rv >= pl * pt, s2 > 0;
    assert((pl * pt) * s2 == (pl * s2) * pt) by (nonlinear_arith);
    assert(2 * yv >= bp(yc));
    assert(rv > 0) by (nonlinear_arith) requires rv * s2 > 0, s2 > 0;
    // dividend
    if l < 63 { lemma_pow2_strictly_increases(l, 63); }
    assert(s2 <= 0x8000_0000_0000_0000);
    lemma_bp_add(yc, (xc - yc + 1) as nat);
    assert((yc + (xc - yc + 1)) as nat == xc + 1);
    lemma_bp_succ(xc); lemma_bp_succ((xc - yc + 1) as nat);
    assert(xv >= 0) by (nonlinear_arith) requires xv == sv * s2, sv >= 0, s2 > 0;
    assert(xv < s2 * bp(xc)) by (nonlinear_arith) requires xv == sv * s2, sv < bp(xc), s2 > 0;
    assert(s2 * bp(xc) <= 0x8000_0000_0000_0000 * bp(xc)) by (nonlinear_arith) requires s2 <= 0x8000_0000_0000_0000, bp(xc) > 0;
    assert(2 * (yv * bp((xc - yc + 1) as nat)) >= bp(yc) * bp((xc - yc + 1) as nat)) by (nonlinear_arith)
        requires 2 * yv >= bp(yc), bp((xc - yc + 1) as nat) > 0;
}

/// v + c * p == t with t < p: no carry
proof fn lemma_bd_no_carry(v: int, c: int, p: int, t: int)
    requires v + c * p == t, 0 <= v, 0 <= c, t < p, p > 0
    ensures c == 0, v == t
{
    assert(c >= 1 ==> c * p >= p) by (nonlinear_arith) requires p > 0;
    assert(c == 0 ==> c * p == 0);
}

//@@ fn src/limb/bit_or.rs | impl BitOr for Limb | bitor | body | props C05 C11
impl BitOr for Limb {
//@+
    type Output = Limb;
//@-
fn bitor(self, rhs: Self) -> (ret__: Self::Output)
//@+
    ensures ret__.0 == self.0 | rhs.0
//@-
{
        self.bitor(rhs)
    }
}
//@@ end
//@@ fn src/uint/boxed/div.rs | - | shl_limb_vartime | body | props C02 C11
pub fn shl_limb_vartime(limbs: &mut [Limb], shift: u32) -> (ret__: Limb)
//@+
    requires shift < 64, shift > 0 ==> old(limbs).len() >= 1
    ensures final(limbs).len() == old(limbs).len(),
        val(final(limbs)@, old(limbs).len() as nat) + ret__.0 as int * bp(old(limbs).len() as nat)
            == val(old(limbs)@, old(limbs).len() as nat) * p2(shift as nat),
        val(old(limbs)@, old(limbs).len() as nat) * p2(shift as nat) < bp(old(limbs).len() as nat) ==> ret__.0 == 0
            && val(final(limbs)@, old(limbs).len() as nat) == val(old(limbs)@, old(limbs).len() as nat) * p2(shift as nat),
        shift == 0 ==> final(limbs)@ == old(limbs)@ && ret__.0 == 0,
        (ret__.0 as int) < p2(shift as nat),
//@-
{
//@+
    let ghost l0 = limbs@; let ghost n = limbs.len() as nat;
    proof { lemma_pow2_64(); lemma_val_bound(l0, n); }
//@-
    if shift == 0 {
//@+
        proof {
            assert(val(l0, n) * 1 == val(l0, n)) by (nonlinear_arith);
            assert(0 * bp(n) == 0) by (nonlinear_arith);
        }
//@-
        return Limb::ZERO;
    }
    let lshift = shift;
    let rshift = Limb::BITS - shift;
    let limbs_num = limbs.len();
    let carry = limbs[limbs_num - 1] >> rshift;
    for i in (1..limbs_num).rev()
//@+
        invariant limbs.len() == n, l0.len() == n, limbs_num == n, n >= 1, 0 < shift < 64, lshift == shift, rshift == 64 - shift,
            forall|j: int| limbs_num - VERUS_ghost_iter.index@ <= j < limbs_num ==> limbs@[j].0 == (l0[j].0 << shift) | (l0[j - 1].0 >> rshift),
            forall|j: int| 0 <= j < limbs_num - VERUS_ghost_iter.index@ ==> limbs@[j] == l0[j],
//@-
{
        limbs[i] = (limbs[i] << lshift) | (limbs[i - 1] >> rshift);
    }
    limbs[0] <<= lshift;
//@+
    proof {
        lemma_shl_limbs(l0, limbs@, n, shift);
        lemma_val_bound(limbs@, n); lemma_bp_succ(n); lemma_pow2_pos(shift as nat);
        lemma_divlimb_init(val(limbs@, n), carry.0 as int, val(l0, n), p2(shift as nat), 1, n);
        if val(l0, n) * p2(shift as nat) < bp(n) { lemma_bd_no_carry(val(limbs@, n), carry.0 as int, bp(n), val(l0, n) * p2(shift as nat)); }
    }
//@-
    carry
}
//@@ end
//@@ fn src/uint/boxed/div.rs | - | shr_limb_vartime | body | props C02 C11
pub fn shr_limb_vartime(limbs: &mut [Limb], shift: u32)
//@+
    requires shift < 64, shift > 0 ==> old(limbs).len() >= 1
    ensures final(limbs).len() == old(limbs).len(),
        val(final(limbs)@, old(limbs).len() as nat) == val(old(limbs)@, old(limbs).len() as nat) / p2(shift as nat),
        shift == 0 ==> final(limbs)@ == old(limbs)@,
//@-
{
//@+
    let ghost l0 = limbs@; let ghost n = limbs.len() as nat;
    proof { lemma_pow2_64(); }
//@-
    if shift == 0 {
//@+
        proof { assert(val(l0, n) / 1 == val(l0, n)) by (nonlinear_arith); }
//@-
        return;
    }
    let lshift = Limb::BITS - shift;
    let rshift = shift;
    let limbs_num = limbs.len();
    for i in 0..limbs_num - 1
//@+
        invariant limbs.len() == n, l0.len() == n, limbs_num == n, n >= 1, 0 < shift < 64, rshift == shift, lshift == 64 - shift,
            forall|j: int| 0 <= j < VERUS_ghost_iter.index@ ==> limbs@[j].0 == (l0[j].0 >> shift) | (l0[j + 1].0 << lshift),
            forall|j: int| VERUS_ghost_iter.index@ <= j < n ==> limbs@[j] == l0[j],
//@-
{
        limbs[i] = (limbs[i] >> rshift) | (limbs[i + 1] << lshift);
    }
    limbs[limbs_num - 1] >>= rshift;
//@+
    proof {
        let m = (n - 1) as nat;
        let pr = p2(shift as nat);
        let s0 = l0[0].0;
        let h0 = (s0 >> shift) as int;
        let hm = (l0[m as int].0 >> shift) as int;
        lemma_shr_limbs(l0, limbs@, m, shift);
        assert(val(limbs@, n) == val(limbs@, m) + hm * bp(m));
        assert(pr * (val(limbs@, m) + hm * bp(m)) == pr * val(limbs@, m) + pr * hm * bp(m)) by (nonlinear_arith);
        lemma_u64_shr_div(s0, shift);
        lemma_pow2_pos(shift as nat);
        lemma_fundamental_div_mod(s0 as int, pr);
        lemma_mod_bound(s0 as int, pr);
        let rem0 = s0 as int - pr * h0;
        assert(val(l0, n) == val(limbs@, n) * pr + rem0) by (nonlinear_arith)
            requires pr * val(limbs@, n) + rem0 == val(l0, n);
        lemma_fundamental_div_mod_converse(val(l0, n), pr, val(limbs@, n), rem0);
    }
//@-
}
//@@ end
//@@ fn src/uint/boxed/div.rs | - | div_rem_vartime_in_place | body | props C02 C11
pub fn div_rem_vartime_in_place(x: &mut [Limb], y: &mut [Limb])
//@+
    requires old(y).len() >= 1, old(y)[old(y).len() - 1].0 != 0,
        old(x).len() == 0 || old(y).len() >= 2,
        old(x).len() + old(y).len() <= usize::MAX,   // holds for every pair of slices of 8-byte elements (len * 8 <= isize::MAX)
    ensures final(x).len() == old(x).len(), final(y).len() == old(y).len(),
        val(final(x)@, old(x).len() as nat) * val(old(y)@, old(y).len() as nat) + val(final(y)@, old(y).len() as nat) == val(old(x)@, old(x).len() as nat),
        0 <= val(final(y)@, old(y).len() as nat) < val(old(y)@, old(y).len() as nat),
        val(final(x)@, old(x).len() as nat) == val(old(x)@, old(x).len() as nat) / val(old(y)@, old(y).len() as nat),
        val(final(y)@, old(y).len() as nat) == val(old(x)@, old(x).len() as nat) % val(old(y)@, old(y).len() as nat),
        old(y).len() <= old(x).len() ==> forall|j: int| old(x).len() - old(y).len() + 1 <= j < old(x).len() ==> final(x)[j].0 == 0,
//@-
{
    let xc = x.len();
    let yc = y.len();
//@+
    let ghost xs0 = x@; let ghost ys0 = y@;
    let ghost rv = val(ys0, yc as nat);
    let ghost sv = val(xs0, xc as nat);
    proof { lemma_bd_pos(ys0, yc as nat); lemma_val_bound(xs0, xc as nat); }
//@-
    assert!(
        yc > 0 && y[yc - 1].0 != 0,
        "divisor must have a non-zero leading word"
    );
    if xc == 0 {
        // If the quotient is empty, set the remainder to zero and return.
        y.fill(Limb::ZERO);
//@+
        proof {
            lemma_val_zero(y@, yc as nat);
            assert(0 * rv == 0);
            lemma_fundamental_div_mod_converse(sv, rv, 0, 0);
        }
//@-
        return;
    } else if yc > xc {
        // Divisor is greater than dividend. Return zero and the dividend as the
        // quotient and remainder
        y[..xc].copy_from_slice(&x[..xc]);
        y[xc..].fill(Limb::ZERO);
        x.fill(Limb::ZERO);
//@+
        proof {
            lemma_bd_short(xs0, ys0, xc as nat, yc as nat);
            lemma_val_hi_zero(y@, xc as nat, yc as nat);
            lemma_val_ext(y@, xs0, xc as nat);
            lemma_val_zero(x@, xc as nat);
            assert(0 * rv == 0);
            lemma_fundamental_div_mod_converse(sv, rv, 0, sv);
        }
//@-
        return;
    }
    let lshift = y[yc - 1].leading_zeros();
//@+
    let ghost s2 = p2(lshift as nat);
    let ghost yv = rv * s2;   // normalised divisor
    let ghost xv = sv * s2;   // shifted dividend
    proof { lemma_bd_norm(ys0, yc as nat, xc as nat, sv, lshift as nat); }
//@-
    // Shift divisor such that it has no leading zeros
    // This means that div2by1 requires no extra shifts, and ensures that the high word >= b/2
    shl_limb_vartime(y, lshift);
    // Shift the dividend to match
    let mut x_hi = shl_limb_vartime(x, lshift);
//@+
    let ghost ys = y@;
    proof {
        assert(val(ys, yc as nat) == yv);
        assert(val(x@, xc as nat) + x_hi.0 as int * bp(xc as nat) == xv);
        lemma_knuth_top_norm(ys, yc as nat);
    }
//@-
    let reciprocal = Reciprocal::new(y[yc - 1].to_nz().expect("zero divisor"));
//@+
    let ghost mut k: nat = xc as nat;    // Rem = x_hi * B^k + val(x, k)
    let ghost mut qacc: int = 0;
    proof {
        assert(0 * yv == 0);
        assert(tv(x@, xc as nat, xc as nat) == 0);
        assert(0 * bp((yc - 1) as nat) == 0);
    }
//@-
    for xi in (yc - 1..xc).rev()
//@+
    invariant
        x.len() == xc, y.len() == yc, 2 <= yc <= xc, y@ == ys, xc + yc <= usize::MAX,
        k == xc - VERUS_ghost_iter.index@, yc - 1 <= k <= xc,
        val(ys, yc as nat) == yv, 2 * yv >= bp(yc as nat), yv < bp(yc as nat), yv > 0,
        reciprocal.wf(), reciprocal.shift == 0, reciprocal.divisor_normalized == ys[yc - 1].0,
        xv == qacc * yv + x_hi.0 as int * bp(k) + val(x@, k),
        x_hi.0 as int * bp(k) + val(x@, k) < yv * bp((k - yc + 1) as nat),
        tv(x@, k, xc as nat) == qacc * bp((yc - 1) as nat),
//@-
{
//@+
    assert(k == xi + 1);
    let ghost p = (xi + 1 - yc) as nat;
    let ghost pp = bp(p);
    let ghost xb = x@;
    let ghost hb = x_hi.0 as int;
    let ghost wsc = kn_wsc(xb, hb, k, yc as nat);
    let ghost qt = kn_qt(xb, hb, k, yc as nat, yv);
    let ghost rp = wsc - qt * yv * pp;
    proof { lemma_knuth_top(xb, ys, hb, k, yc as nat, yv); lemma_knuth_top_norm(ys, yc as nat); }
//@-
        // Divide high dividend words by the high divisor word to estimate the quotient word
        let mut quo = div3by2(x_hi.0, x[xi].0, x[xi - 1].0, &reciprocal, y[yc - 2].0);
//@+
    let ghost q = quo as int;
    proof {
        lemma_knuth_quo(xb, ys, hb, k, yc as nat, yv, q);
        assert((qt + 1) * yv * pp == qt * yv * pp + yv * pp) by (nonlinear_arith);
        assert(0 <= rp < yv * pp);
    }
//@-
        // Subtract q*divisor from the dividend
        let borrow = {
            let mut carry = Limb::ZERO;
            let mut borrow = Limb::ZERO;
            let mut tmp;
//@+
    proof { assert(q * val(ys, 0) * pp == 0) by (nonlinear_arith) requires val(ys, 0) == 0; assert(0 * bp((p + 0) as nat) == 0); }
//@-
            for i in 0..yc
//@+
    invariant
        x.len() == xc, y.len() == yc, y@ == ys, xb.len() == xc,
        2 <= yc <= xc, xi < xc, xi + 1 >= yc, xc + yc <= usize::MAX,
        p == xi + 1 - yc, pp == bp(p), q == quo as int,
        borrow.0 == 0 || borrow.0 == u64::MAX,
        forall|kq: int| 0 <= kq < xc && !(p <= kq < p + VERUS_ghost_iter.index@) ==> x@[kq] == xb[kq],
        tv(x@, p, (p + VERUS_ghost_iter.index@) as nat) == tv(xb, p, (p + VERUS_ghost_iter.index@) as nat) - q * val(ys, VERUS_ghost_iter.index@ as nat) * pp
            + carry.0 as int * bp((p + VERUS_ghost_iter.index@) as nat) + bb(borrow) * bp((p + VERUS_ghost_iter.index@) as nat),
//@-
{
//@+
    let ghost x_before = x@; let ghost carry_b = carry; let ghost borrow_b = borrow;
//@-
                let (__t0, __t1) = Limb::ZERO.mac(y[i], Limb(quo), carry); tmp = __t0; carry = __t1;
                let (__t2, __t3) = x[xi + i + 1 - yc].sbb(tmp, borrow); x[xi + i + 1 - yc] = __t2; borrow = __t3;
//@+
    proof {
        lemma_knuth_sub_step(xb, x_before, x@, ys, p, i as nat, q, carry_b.0 as int, carry.0 as int, bb(borrow_b), bb(borrow), tmp.0 as int);
    }
//@-
            }
//@+
    let ghost bprev = borrow;
//@-
            let (_, __t4) = x_hi.sbb(carry, borrow); borrow = __t4;
//@+
    proof {
        assert((bb(borrow) == 1) <==> (hb - carry.0 as int - bb(bprev) < 0));
        assert((p + yc) as nat == k);
        lemma_knuth_sub_final(xb, x@, hb, k, yc as nat, yv, q, carry.0 as int, bb(bprev), bb(borrow));
    }
//@-
            borrow
        };
//@+
    let ghost xs = x@;
    proof {
        assert((bb(borrow) == 1) <==> (q == qt + 1));
        assert(tv(xs, p, k) == (if bb(borrow) == 1 { bp(k) + rp - yv * pp } else { rp }));
    }
//@-
        // If the subtraction borrowed, then decrement q and add back the divisor
        // The probability of this being needed is very low, about 2/(Limb::MAX+1)
        quo = {
            let ct_borrow = ConstChoice::from_word_mask(borrow.0);
            let mut carry = Limb::ZERO;
//@+
    let ghost m: int = if ct_borrow.t() { 1 } else { 0 };
    proof { assert(m * val(ys, 0) * pp == 0) by (nonlinear_arith) requires val(ys, 0) == 0; assert(0 * bp((p + 0) as nat) == 0); }
//@-
            for i in 0..yc
//@+
    invariant
        x.len() == xc, y.len() == yc, y@ == ys, xs.len() == xc,
        2 <= yc <= xc, xi < xc, xi + 1 >= yc, xc + yc <= usize::MAX,
        p == xi + 1 - yc, pp == bp(p), ct_borrow.wf(), m == (if ct_borrow.t() { 1int } else { 0int }),
        forall|kq: int| 0 <= kq < xc && !(p <= kq < p + VERUS_ghost_iter.index@) ==> x@[kq] == xs[kq],
        tv(x@, p, (p + VERUS_ghost_iter.index@) as nat) + carry.0 as int * bp((p + VERUS_ghost_iter.index@) as nat)
            == tv(xs, p, (p + VERUS_ghost_iter.index@) as nat) + m * val(ys, VERUS_ghost_iter.index@ as nat) * pp,
//@-
{
//@+
    let ghost x_before = x@; let ghost carry_b = carry;
//@-
                let (__t5, __t6) = x[xi + i + 1 - yc].adc(Limb::select(Limb::ZERO, y[i], ct_borrow), carry); x[xi + i + 1 - yc] = __t5; carry = __t6;
//@+
    proof {
        let sel = if ct_borrow.t() { ys[i as int].0 as int } else { 0int };
        lemma_knuth_add_step(xs, x_before, x@, ys, p, i as nat, m, sel, carry_b.0 as int, carry.0 as int);
    }
//@-
            }
//@+
    proof {
        assert((p + yc) as nat == k);
        lemma_knuth_add_final(xs, x@, k, yc as nat, yv, m, carry.0 as int, rp);
    }
//@-
            ct_borrow.select_word(quo, quo.wrapping_sub(1))
        };
//@+
    let ghost xa = x@;
    proof {
        assert(quo as int == qt);
        assert(forall|kq: int| 0 <= kq < xc && !(p <= kq < k) ==> xa[kq] == xb[kq]);
        assert(tv(xa, p, k) == rp);
    }
//@-
        // Store the quotient within dividend and set x_hi to the current highest word
        x_hi = x[xi];
        x[xi] = Limb(quo);
//@+
    proof {
        lemma_knuth_iter_vt(xb, xa, x@, hb, k, yc as nat, xc as nat, yv, qt, qacc, xv);
        qacc = qacc + qt * pp;
        k = xi as nat;
        assert((k - yc + 1) as nat == p);
    }
//@-
    }
//@+
    // here: k == yc - 1 ; Rem = x_hi * B^(yc-1) + val(x, yc-1) < yv ; xv == qacc * yv + Rem
    let ghost xq = x@;
    let ghost rem_n = x_hi.0 as int * bp((yc - 1) as nat) + val(xq, (yc - 1) as nat);
    proof {
        assert(k == yc - 1);
        lemma_bp1(); assert(yv * bp(0) == yv) by (nonlinear_arith) requires bp(0) == 1; assert(rem_n < yv);
    }
//@-
    // Copy the remainder to divisor
    y[..yc - 1].copy_from_slice(&x[..yc - 1]);
    y[yc - 1] = x_hi;
//@+
    proof {
        lemma_val_ext(y@, xq, (yc - 1) as nat);
        assert(val(y@, yc as nat) == rem_n);
    }
//@-
    // Unshift the remainder from the earlier adjustment
    shr_limb_vartime(y, lshift);
    // Shift the quotient to the low limbs within dividend
    // let x_size = xc - yc + 1;
    x.copy_within(yc - 1..xc, 0);
    x[xc - yc + 1..].fill(Limb::ZERO);
//@+
    proof {
        let m = (xc - yc + 1) as nat; let d = (yc - 1) as nat;
        lemma_shift_down(xq, x@, d, xc as nat, m);
        lemma_val_hi_zero(x@, m, xc as nat);
        assert((m + d) as nat == xc as nat);
        lemma_bp_succ(d);
        assert(val(x@, xc as nat) == qacc) by (nonlinear_arith)
            requires val(x@, xc as nat) * bp(d) == qacc * bp(d), bp(d) > 0;
        lemma_val_bound(xq, d);
        lemma_knuth_unshift(sv, rv, s2, qacc, rem_n, x_hi.0 as int * bp(d), val(xq, d));
        lemma_fundamental_div_mod_converse(sv, rv, qacc, rem_n / s2);
    }
//@-
}
//@@ end
// ---------------------------------------------------------------- BoxedUint (src/uint/boxed.rs): limb division
// The struct, `From<Vec<Limb>>`, `BoxedUint::shl_limb` (src/uint/boxed/shl.rs) and the two free functions of src/uint/boxed/div_limb.rs are mirrored.
//@@ item src/uint/boxed.rs | struct BoxedUint
//@+
#[verifier::external_derive(Clone)]
//@-
#[derive(Clone)]
pub struct BoxedUint {
    pub limbs: Box<[Limb]>,
}
//@@ end
impl BoxedUint {
    /// value of all limbs
    pub open spec fn v(&self) -> int { val(self.limbs@, self.limbs@.len()) }
}

/// the limbs computed on the fly by the boxed rem_limb_with_reciprocal: u << l, limb by limb
spec fn shl_seq(ul: Seq<Limb>, l: u32) -> Seq<Limb> {
    Seq::new(ul.len(), |k: int| if l == 0 { ul[k] } else if k == 0 { Limb(ul[0].0 << l) } else { Limb((ul[k].0 << l) | (ul[k - 1].0 >> ((64 - l) as u32))) })
}

proof fn lemma_shl_seq(ul: Seq<Limb>, l: u32)
    requires l < 64, ul.len() >= 1
    ensures val(shl_seq(ul, l), ul.len()) + (if l == 0 { 0int } else { (ul[ul.len() - 1].0 >> ((64 - l) as u32)) as int }) * bp(ul.len()) == val(ul, ul.len()) * p2(l as nat)
{
    let n = ul.len(); let us = shl_seq(ul, l);
    lemma_pow2_64();
    if l == 0 {
        lemma_val_ext(us, ul, n);
        assert(val(ul, n) * 1 == val(ul, n)) by (nonlinear_arith);
        assert(0 * bp(n) == 0) by (nonlinear_arith);
    } else {
        lemma_shl_limbs(ul, us, n, l);
    }
}

// `Vec::into_boxed_slice` has no vstd specification (vstd specifies `Vec::new/with_capacity/push/len/index/..`, `vec!`): library assumption
pub assume_specification<T, A: core::alloc::Allocator>[Vec::<T, A>::into_boxed_slice](v: Vec<T, A>) -> (r: Box<[T], A>)
    ensures r@ == v@;
// `impl<T, A> From<Vec<T, A>> for Box<[T], A>` (= `v.into_boxed_slice()`), reached through `let b: Box<[Limb]> = vec.into()`
pub assume_specification<T, A: core::alloc::Allocator>[<Box<[T], A> as From<Vec<T, A>>>::from](v: Vec<T, A>) -> (r: Box<[T], A>)
    ensures r@ == v@;
impl vstd::std_specs::convert::FromSpecImpl<Vec<Limb>> for BoxedUint {
    open spec fn obeys_from_spec() -> bool { false }
    open spec fn from_spec(v: Vec<Limb>) -> BoxedUint { arbitrary() }
}
//@@ fn src/uint/boxed/from.rs | impl From<Vec<Limb>> for BoxedUint | from | body | props C16 C15 C11
impl From<Vec<Limb>> for BoxedUint {
fn from(mut limbs: Vec<Limb>) -> (ret__: BoxedUint)
//@+
    // an empty vector becomes the one-limb zero; every BoxedUint built through this conversion has >= 1 limb
    ensures ret__.limbs@ == (if limbs@.len() == 0 { seq![Limb(0)] } else { limbs@ }),
        ret__.limbs@.len() >= 1, ret__.v() == val(limbs@, limbs@.len())
//@-
{
//@+
    let ghost l0 = limbs@;
//@-
        if limbs.is_empty() {
            limbs.push(Limb::ZERO);
        }
//@+
    proof {
        if l0.len() == 0 {
            assert(limbs@ =~= seq![Limb(0)]);
            lemma_bp1();
            assert(val(limbs@, 1) == val(limbs@, 0) + limbs@[0].0 as int * bp(0));
            assert(0 * bp(0) == 0) by (nonlinear_arith);
        }
    }
//@-
        Self {
            limbs: limbs.into_boxed_slice(),
        }
    }
}
//@@ end
//@@ fn src/uint/boxed/shl.rs | impl BoxedUint | shl_limb | body | props C05 C02 C11
impl BoxedUint {
pub fn shl_limb(&self, shift: u32) -> (ret__: (Self, Limb))
//@+
    requires self.limbs@.len() >= 1, shift < 64
    ensures ret__.0.limbs@.len() == self.limbs@.len(),
        ret__.0.v() + ret__.1.0 as int * bp(self.limbs@.len()) == self.v() * p2(shift as nat), (ret__.1.0 as int) < p2(shift as nat)
//@-
{
//@+
    let ghost n = self.limbs@.len(); let ghost tgt = shl_seq(self.limbs@, shift);
//@-
        let mut limbs = vec![Limb::ZERO; self.limbs.len()];
        let nz = ConstChoice::from_u32_nonzero(shift);
        let lshift = shift;
        let rshift = nz.if_true_u32(Limb::BITS - shift);
        let carry = nz.if_true_word(
            self.limbs[self.limbs.len() - 1]
                .0
                .wrapping_shr(Word::BITS - shift),
        );
        limbs[0] = Limb(self.limbs[0].0 << lshift);
//@+
    proof {
        let x0 = self.limbs@[0].0;
        assert(x0 << 0u32 == x0) by (bit_vector);
        assert(limbs@[0] == tgt[0]);
    }
//@-
        let mut i = 1;
        while i < self.limbs.len()
//@+
    invariant 1 <= i <= n, n == self.limbs@.len(), limbs@.len() == n, shift < 64, lshift == shift, nz.wf(), nz.t() == (shift != 0),
        rshift == (if shift != 0 { (64 - shift) as u32 } else { 0u32 }), tgt == shl_seq(self.limbs@, shift),
        forall|k: int| 0 <= k < i ==> limbs@[k] == tgt[k],
    decreases n - i,
//@-
{
            let mut limb = self.limbs[i].0 << lshift;
            let hi = self.limbs[i - 1].0 >> rshift;
//@+
    let ghost limb0 = limb;
//@-
            limb |= nz.if_true_word(hi);
            limbs[i] = Limb(limb);
//@+
    proof {
        let x = self.limbs@[i as int].0;
        assert(x << 0u32 == x) by (bit_vector);
        assert(limb0 | 0u64 == limb0) by (bit_vector);
        assert(limbs@[i as int] == tgt[i as int]);
    }
//@-
            i += 1
        }
//@+
    proof {
        assert(limbs@ =~= tgt);
        lemma_shl_seq(self.limbs@, shift);
        let xt = self.limbs@[n - 1].0;
        if shift != 0 {
            let r = (64 - shift) as u32;
            lemma_u64_shr_div(xt, r);
            lemma_pow2_adds(r as nat, shift as nat); lemma_pow2_64(); lemma_pow2_pos(r as nat);
            assert(xt as int / p2(r as nat) < p2(shift as nat)) by (nonlinear_arith)
                requires (xt as int) < p2(r as nat) * p2(shift as nat), p2(r as nat) > 0, xt >= 0;
        } else {
            lemma_pow2_pos(0);
            assert(0 * bp(n) == 0) by (nonlinear_arith);
        }
    }
//@-
        (
            BoxedUint {
                limbs: limbs.into(),
            },
            Limb(carry),
        )
    }
}
//@@ end
//@@ fn src/uint/boxed/div_limb.rs | - | div_rem_limb_with_reciprocal | body | props C02 C11
pub fn div_rem_limb_with_reciprocal(
    u: &BoxedUint,
    reciprocal: &Reciprocal,
) -> (ret__: (BoxedUint, Limb))
//@+
    requires u.limbs@.len() >= 1, reciprocal.wf(), reciprocal.dv() > 0, reciprocal.divisor_normalized as int == reciprocal.dv() * p2(reciprocal.shift as nat)
    ensures ret__.0.limbs@.len() == u.limbs@.len(),
        ret__.0.v() * reciprocal.dv() + ret__.1.0 as int == u.v(), (ret__.1.0 as int) < reciprocal.dv(),
        ret__.0.v() == u.v() / reciprocal.dv(), ret__.1.0 as int == u.v() % reciprocal.dv()
//@-
{
    let (mut q, mut r) = u.shl_limb(reciprocal.shift());
//@+
    let ghost n = u.limbs@.len();
    let ghost us = q.limbs@;
    let ghost dn = reciprocal.divisor_normalized as int;
    let ghost ps = p2(reciprocal.shift as nat);
    let ghost total = u.v() * ps;
    proof {
        lemma_val_bound(u.limbs@, n); lemma_val_bound(us, n);
        lemma_pow2_pos(reciprocal.shift as nat);
        lemma_divlimb_init(val(us, n), r.0 as int, u.v(), ps, reciprocal.dv(), n);
        lemma_tv_empty_mul(us, n, dn);
    }
//@-
    let mut j = u.limbs.len();
    while j > 0
//@+
        invariant
            0 <= j <= n, n == u.limbs@.len(), q.limbs@.len() == n, reciprocal.wf(), dn == reciprocal.divisor_normalized as int, r.0 < reciprocal.divisor_normalized,
            forall|k: int| 0 <= k < j ==> q.limbs@[k] == us[k],
            tv(q.limbs@, j as nat, n) * dn + r.0 as int * bp(j as nat) + val(us, j as nat) == total,
        decreases j
//@-
{
        j -= 1;
//@+
        let ghost qold = q.limbs@; let ghost r_old = r.0;
//@-
        let (__t0, __t1) = div2by1(r.0, q.limbs[j].0, reciprocal); q.limbs[j].0 = __t0; r.0 = __t1;
//@+
        proof { lemma_divlimb_step(qold, q.limbs@, us, j as nat, n, dn, r_old as int, __t0 as int, __t1 as int, total); }
//@-
    }
//@+
    proof {
        lemma_bp1();
        lemma_divlimb_final(val(q.limbs@, n), r.0 as int, u.v(), reciprocal.dv(), ps);
        lemma_u64_shr_div(r.0, reciprocal.shift);
        lemma_fundamental_div_mod_converse(u.v(), reciprocal.dv(), val(q.limbs@, n), r.0 as int / ps);
    }
//@-
    (q, r >> reciprocal.shift())
}
//@@ end
//@@ fn src/uint/boxed/div_limb.rs | - | rem_limb_with_reciprocal | body | props C02 C11
pub fn rem_limb_with_reciprocal(u: &BoxedUint, reciprocal: &Reciprocal) -> (ret__: Limb)
//@+
    requires u.limbs@.len() >= 1, reciprocal.wf(), reciprocal.dv() > 0, reciprocal.divisor_normalized as int == reciprocal.dv() * p2(reciprocal.shift as nat)
    ensures ret__.0 as int == u.v() % reciprocal.dv()
//@-
{
    let lshift = reciprocal.shift();
    let nz = ConstChoice::from_u32_nonzero(lshift);
    let rshift = nz.if_true_u32(Limb::BITS - lshift);
    let mut hi = nz.if_true_word(
        u.limbs[u.limbs.len() - 1]
            .0
            .wrapping_shr(Limb::BITS - lshift),
    );
//@+
    let ghost n = u.limbs@.len();
    let ghost ul = u.limbs@;
    let ghost us = shl_seq(ul, lshift);
    let ghost dn = reciprocal.divisor_normalized as int;
    let ghost ps = p2(lshift as nat);
    let ghost total = u.v() * ps;
    let ghost mut q: Seq<Limb> = Seq::new(n, |k: int| Limb(0));
    proof {
        lemma_shl_seq(ul, lshift);
        lemma_val_bound(ul, n); lemma_val_bound(us, n);
        lemma_pow2_pos(lshift as nat);
        assert(lshift != 0 ==> hi == ul[n - 1].0 >> ((64 - lshift) as u32));
        lemma_divlimb_init(val(us, n), hi as int, u.v(), ps, reciprocal.dv(), n);
        lemma_tv_empty_mul(q, n, dn);
    }
//@-
    let mut lo;
    let mut j = u.limbs.len();
    while j > 1
//@+
        invariant
            1 <= j <= n, n == u.limbs@.len(), ul == u.limbs@, us == shl_seq(ul, lshift), lshift < 64, lshift == reciprocal.shift,
            nz.wf(), nz.t() == (lshift != 0), rshift == (if lshift != 0 { (64 - lshift) as u32 } else { 0u32 }),
            reciprocal.wf(), dn == reciprocal.divisor_normalized as int, hi < reciprocal.divisor_normalized,
            q.len() == n,
            tv(q, j as nat, n) * dn + hi as int * bp(j as nat) + val(us, j as nat) == total,
        decreases j
//@-
{
        j -= 1;
        lo = u.limbs[j].0 << lshift;
        lo |= nz.if_true_word(u.limbs[j - 1].0 >> rshift);
//@+
        let ghost r_old = hi;
        proof {
            let a = ul[j as int].0; let b = ul[j - 1].0;
            if lshift == 0 {
                assert((a << 0u32) | 0u64 == a) by (bit_vector);
            }
            assert(lo == us[j as int].0);
        }
//@-
        let (_, __t0) = div2by1(hi, lo, reciprocal); hi = __t0;
//@+
        proof {
            let qj = (r_old as int * B() + us[j as int].0 as int) / dn;
            lemma_divlimb_quot(r_old as int, us[j as int].0 as int, dn, hi as int);
            let qold = q;
            q = q.update(j as int, Limb(qj as u64));
            lemma_divlimb_step(qold, q, us, j as nat, n, dn, r_old as int, qj, hi as int, total);
        }
//@-
    }
//@+
    let ghost r_old = hi;
    proof {
        let a = ul[0].0;
        if lshift == 0 { assert(a << 0u32 == a) by (bit_vector); }
        assert(a << lshift == us[0].0);
    }
//@-
    let (_, __t1) = div2by1(hi, u.limbs[0].0 << lshift, reciprocal); hi = __t1;
//@+
    proof {
        let qj = (r_old as int * B() + us[0].0 as int) / dn;
        lemma_divlimb_quot(r_old as int, us[0].0 as int, dn, hi as int);
        let qold = q;
        q = q.update(0, Limb(qj as u64));
        lemma_divlimb_step(qold, q, us, 0, n, dn, r_old as int, qj, hi as int, total);
        lemma_bp1();
        lemma_divlimb_final(val(q, n), hi as int, u.v(), reciprocal.dv(), ps);
        lemma_u64_shr_div(hi, reciprocal.shift);
        lemma_fundamental_div_mod_converse(u.v(), reciprocal.dv(), val(q, n), hi as int / ps);
    }
//@-
    Limb(hi >> reciprocal.shift())
}
//@@ end

} // verus!
