// L4: signed integers (src/int.rs, src/int/{add,sub,neg,sign,cmp,resize,from,mul,mul_uint}.rs) -- C13
use vstd::prelude::*;
use vstd::arithmetic::power::*;
use vstd::arithmetic::power2::*;
use vstd::arithmetic::div_mod::*;
use core::cmp::Ordering;
use crate::speclib::*;
use crate::speclib_bits::*;
use crate::l0_prim::*;
use crate::l1_choice::*;
use crate::l1_limb::*;
use crate::l2_core::*;
use crate::l2_shift::*;
use crate::l3_mul::*;
verus! {

// Model of `num_traits::ConstZero` (external crate) restricted to what src/int/sign.rs uses: `Word::ZERO`.
// num-traits defines `impl ConstZero for u64 { const ZERO: Self = 0; }`.
pub trait ConstZero: Sized { const ZERO: Self; }
impl ConstZero for u64 { const ZERO: Self = 0; }

//@@ subst \b(Self|Uint|Int)::(ZERO|ONE|MINUS_ONE|MIN|MAX|SIGN_MASK|FULL_MASK|BITS|LIMBS|LOG2_BITS)\b(?!\() => \1::\2()
//@@ subst \b(Uint|Int)::<(\w+)>::(ZERO|ONE|MAX|MIN|BITS)\b(?!\() => \1::<\2>::\3()
//@@ fn src/uint.rs | impl<const LIMBS: usize> Uint<LIMBS> | as_int | body | props C13 C11
impl<const LIMBS: usize> Uint<LIMBS> {
pub const fn as_int(&self) -> (ret__: Int<LIMBS>)
{
        Int::from_bits(*self)
    }
}
//@@ end
//@@ fn src/uint/bit_xor.rs | impl<const LIMBS: usize> Uint<LIMBS> | bitxor | body | props C05 C11
impl<const LIMBS: usize> Uint<LIMBS> {
pub const fn bitxor(&self, rhs: &Self) -> (ret__: Self)
{
        let mut limbs = [Limb::ZERO; LIMBS];
        let mut i = 0;
        while i < LIMBS
{
            limbs[i] = self.limbs[i].bitxor(rhs.limbs[i]);
            i += 1;
        }
        Self { limbs }
    }
}
//@@ end
//@@ fn src/uint.rs | impl<const LIMBS: usize> Uint<LIMBS> | from_words | body | props C16 C11
impl<const LIMBS: usize> Uint<LIMBS> {
pub const fn from_words(arr: [Word; LIMBS]) -> (ret__: Self)
{
        let mut limbs = [Limb::ZERO; LIMBS];
        let mut i = 0;
        while i < LIMBS
{
            limbs[i] = Limb(arr[i]);
            i += 1;
        }
        Self { limbs }
    }
}
//@@ end
//@@ fn src/uint.rs | impl<const LIMBS: usize> Uint<LIMBS> | to_words | body | props C16 C11
impl<const LIMBS: usize> Uint<LIMBS> {
pub const fn to_words(self) -> (ret__: [Word; LIMBS])
{
        let mut arr = [0; LIMBS];
        let mut i = 0;
        while i < LIMBS
{
            arr[i] = self.limbs[i].0;
            i += 1;
        }
        arr
    }
}
//@@ end
//@@ const src/int.rs | impl<const LIMBS: usize> Int<LIMBS> | ZERO
impl<const LIMBS: usize> Int<LIMBS> {
pub const fn ZERO() -> (ret__: Self)
{
    Self(Uint::ZERO())
}
}
//@@ end
//@@ const src/int.rs | impl<const LIMBS: usize> Int<LIMBS> | ONE
impl<const LIMBS: usize> Int<LIMBS> {
pub const fn ONE() -> (ret__: Self)
{
    Self(Uint::ONE())
}
}
//@@ end
//@@ const src/int.rs | impl<const LIMBS: usize> Int<LIMBS> | FULL_MASK
impl<const LIMBS: usize> Int<LIMBS> {
pub const fn FULL_MASK() -> (ret__: Self)
{
    Self(Uint::MAX())
}
}
//@@ end
//@@ const src/int.rs | impl<const LIMBS: usize> Int<LIMBS> | MINUS_ONE
impl<const LIMBS: usize> Int<LIMBS> {
pub const fn MINUS_ONE() -> (ret__: Self)
{
    Self::FULL_MASK()
}
}
//@@ end
//@@ const src/int.rs | impl<const LIMBS: usize> Int<LIMBS> | MAX
impl<const LIMBS: usize> Int<LIMBS> {
pub const fn MAX() -> (ret__: Self)
{
    Self(Uint::MAX().shr(1u32))
}
}
//@@ end
//@@ const src/int.rs | impl<const LIMBS: usize> Int<LIMBS> | MIN
impl<const LIMBS: usize> Int<LIMBS> {
pub const fn MIN() -> (ret__: Self)
{
    Self(Uint::MAX().bitxor(&Uint::MAX().shr(1u32)))
}
}
//@@ end
//@@ const src/int.rs | impl<const LIMBS: usize> Int<LIMBS> | SIGN_MASK
impl<const LIMBS: usize> Int<LIMBS> {
pub const fn SIGN_MASK() -> (ret__: Self)
{
    Self::MIN()
}
}
//@@ end
//@@ const src/int.rs | impl<const LIMBS: usize> Int<LIMBS> | BITS
impl<const LIMBS: usize> Int<LIMBS> {
pub const fn BITS() -> (ret__: u32)
{
    Uint::<LIMBS>::BITS()
}
}
//@@ end
//@@ const src/int.rs | impl<const LIMBS: usize> Int<LIMBS> | LIMBS
impl<const LIMBS: usize> Int<LIMBS> {
pub const fn LIMBS() -> (ret__: usize)
{
    LIMBS
}
}
//@@ end
//@@ fn src/int.rs | impl<const LIMBS: usize> Int<LIMBS> | new | body | props C13 C11
impl<const LIMBS: usize> Int<LIMBS> {
pub const fn new(limbs: [Limb; LIMBS]) -> (ret__: Self)
{
        Self(Uint::new(limbs))
    }
}
//@@ end
//@@ fn src/int.rs | impl<const LIMBS: usize> Int<LIMBS> | from_bits | body | props C13 C11
impl<const LIMBS: usize> Int<LIMBS> {
pub const fn from_bits(value: Uint<LIMBS>) -> (ret__: Self)
{
        Self(value)
    }
}
//@@ end
//@@ fn src/int.rs | impl<const LIMBS: usize> Int<LIMBS> | from_words | body | props C13 C11
impl<const LIMBS: usize> Int<LIMBS> {
pub const fn from_words(arr: [Word; LIMBS]) -> (ret__: Self)
{
        Self(Uint::from_words(arr))
    }
}
//@@ end
//@@ fn src/int.rs | impl<const LIMBS: usize> Int<LIMBS> | to_words | body | props C13 C11
impl<const LIMBS: usize> Int<LIMBS> {
pub const fn to_words(self) -> (ret__: [Word; LIMBS])
{
        self.0.to_words()
    }
}
//@@ end
//@@ fn src/int.rs | impl<const LIMBS: usize> Int<LIMBS> | as_limbs | body | props C13 C11
impl<const LIMBS: usize> Int<LIMBS> {
pub const fn as_limbs(&self) -> (ret__: &[Limb; LIMBS])
{
        self.0.as_limbs()
    }
}
//@@ end
//@@ fn src/int.rs | impl<const LIMBS: usize> Int<LIMBS> | to_limbs | body | props C13 C11
impl<const LIMBS: usize> Int<LIMBS> {
pub const fn to_limbs(self) -> (ret__: [Limb; LIMBS])
{
        self.0.to_limbs()
    }
}
//@@ end
//@@ fn src/int.rs | impl<const LIMBS: usize> Int<LIMBS> | to_nz | body | props C13 C11
impl<const LIMBS: usize> Int<LIMBS> {
pub const fn to_nz(self) -> (ret__: ConstCtOption<NonZero<Self>>)
{
        ConstCtOption::new(NonZero(self), self.0.is_nonzero())
    }
}
//@@ end
//@@ fn src/int.rs | impl<const LIMBS: usize> Int<LIMBS> | to_odd | body | props C13 C11
impl<const LIMBS: usize> Int<LIMBS> {
pub const fn to_odd(self) -> (ret__: ConstCtOption<Odd<Self>>)
{
        ConstCtOption::new(Odd(self), self.0.is_odd())
    }
}
//@@ end
//@@ fn src/int.rs | impl<const LIMBS: usize> Int<LIMBS> | as_uint | body | props C13 C11
impl<const LIMBS: usize> Int<LIMBS> {
pub const fn as_uint(&self) -> (ret__: &Uint<LIMBS>)
{
        &self.0
    }
}
//@@ end
//@@ fn src/int.rs | impl<const LIMBS: usize> Int<LIMBS> | is_min | body | props C13 C11
impl<const LIMBS: usize> Int<LIMBS> {
pub const fn is_min(&self) -> (ret__: ConstChoice)
{
        Self::eq(self, &Self::MIN())
    }
}
//@@ end
//@@ fn src/int.rs | impl<const LIMBS: usize> Int<LIMBS> | is_max | body | props C13 C11
impl<const LIMBS: usize> Int<LIMBS> {
pub fn is_max(&self) -> (ret__: ConstChoice)
{
        Self::eq(self, &Self::MAX())
    }
}
//@@ end
//@@ fn src/int.rs | impl<const LIMBS: usize> Int<LIMBS> | invert_msb | body | props C13 C11
impl<const LIMBS: usize> Int<LIMBS> {
pub const fn invert_msb(&self) -> (ret__: Self)
{
        Self(self.0.bitxor(&Self::SIGN_MASK().0))
    }
}
//@@ end
//@@ fn src/int/cmp.rs | impl<const LIMBS: usize> Int<LIMBS> | select | body | props C13 C06 C11
impl<const LIMBS: usize> Int<LIMBS> {
pub const fn select(a: &Self, b: &Self, c: ConstChoice) -> (ret__: Self)
{
        Self(Uint::select(&a.0, &b.0, c))
    }
}
//@@ end
//@@ fn src/int/cmp.rs | impl<const LIMBS: usize> Int<LIMBS> | is_nonzero | body | props C13 C06 C11
impl<const LIMBS: usize> Int<LIMBS> {
pub const fn is_nonzero(&self) -> (ret__: ConstChoice)
{
        Uint::is_nonzero(&self.0)
    }
}
//@@ end
//@@ fn src/int/cmp.rs | impl<const LIMBS: usize> Int<LIMBS> | eq | body | props C13 C06 C11
impl<const LIMBS: usize> Int<LIMBS> {
pub const fn eq(lhs: &Self, rhs: &Self) -> (ret__: ConstChoice)
{
        Uint::eq(&lhs.0, &rhs.0)
    }
}
//@@ end
//@@ fn src/int/cmp.rs | impl<const LIMBS: usize> Int<LIMBS> | lt | body | props C13 C06 C11
impl<const LIMBS: usize> Int<LIMBS> {
pub const fn lt(lhs: &Self, rhs: &Self) -> (ret__: ConstChoice)
{
        Uint::lt(&lhs.invert_msb().0, &rhs.invert_msb().0)
    }
}
//@@ end
//@@ fn src/int/cmp.rs | impl<const LIMBS: usize> Int<LIMBS> | gt | body | props C13 C06 C11
impl<const LIMBS: usize> Int<LIMBS> {
pub const fn gt(lhs: &Self, rhs: &Self) -> (ret__: ConstChoice)
{
        Uint::gt(&lhs.invert_msb().0, &rhs.invert_msb().0)
    }
}
//@@ end
//@@ fn src/int/cmp.rs | impl<const LIMBS: usize> Int<LIMBS> | cmp | body | props C13 C06 C11
impl<const LIMBS: usize> Int<LIMBS> {
pub const fn cmp(lhs: &Self, rhs: &Self) -> (ret__: i8)
{
        Uint::cmp(&lhs.invert_msb().0, &rhs.invert_msb().0)
    }
}
//@@ end
//@@ fn src/int/cmp.rs | impl<const LIMBS: usize> Int<LIMBS> | cmp_vartime | body | props C13 C06 C11
impl<const LIMBS: usize> Int<LIMBS> {
pub const fn cmp_vartime(&self, rhs: &Self) -> (ret__: Ordering)
{
        self.invert_msb().0.cmp_vartime(&rhs.invert_msb().0)
    }
}
//@@ end
//@@ fn src/int/sign.rs | impl<const LIMBS: usize> Int<LIMBS> | most_significant_word | body | props C13 C11
impl<const LIMBS: usize> Int<LIMBS> {
pub const fn most_significant_word(&self) -> (ret__: Word)
{
        if Self::LIMBS() == 0 {
            Word::ZERO
        } else {
            self.0.to_words()[LIMBS - 1]
        }
    }
}
//@@ end
//@@ fn src/int/sign.rs | impl<const LIMBS: usize> Int<LIMBS> | is_negative | body | props C13 C11
impl<const LIMBS: usize> Int<LIMBS> {
pub const fn is_negative(&self) -> (ret__: ConstChoice)
{
        ConstChoice::from_word_msb(self.most_significant_word())
    }
}
//@@ end
//@@ fn src/int/sign.rs | impl<const LIMBS: usize> Int<LIMBS> | is_positive | body | props C13 C11
impl<const LIMBS: usize> Int<LIMBS> {
pub const fn is_positive(&self) -> (ret__: ConstChoice)
{
        self.is_negative().not().and(self.is_nonzero())
    }
}
//@@ end
//@@ fn src/int/neg.rs | impl<const LIMBS: usize> Int<LIMBS> | wrapping_neg_if | body | props C13 C11
impl<const LIMBS: usize> Int<LIMBS> {
pub const fn wrapping_neg_if(&self, negate: ConstChoice) -> (ret__: Int<LIMBS>)
{
        Self(self.0.wrapping_neg_if(negate))
    }
}
//@@ end
//@@ fn src/int/sign.rs | impl<const LIMBS: usize> Int<LIMBS> | abs_sign | body | props C13 C11
impl<const LIMBS: usize> Int<LIMBS> {
pub const fn abs_sign(&self) -> (ret__: (Uint<LIMBS>, ConstChoice))
{
        let sign = self.is_negative();
        // Note: this negate_if is safe to use, since we are negating based on self.is_negative()
        let abs = self.wrapping_neg_if(sign);
        (abs.0, sign)
    }
}
//@@ end
//@@ fn src/int/sign.rs | impl<const LIMBS: usize> Int<LIMBS> | abs | body | props C13 C11
impl<const LIMBS: usize> Int<LIMBS> {
pub const fn abs(&self) -> (ret__: Uint<LIMBS>)
{
        self.abs_sign().0
    }
}
//@@ end
//@@ fn src/int/sign.rs | impl<const LIMBS: usize> Int<LIMBS> | new_from_abs_sign | body | props C13 C11
impl<const LIMBS: usize> Int<LIMBS> {
pub const fn new_from_abs_sign(
        abs: Uint<LIMBS>,
        is_negative: ConstChoice,
    ) -> (ret__: ConstCtOption<Self>)
{
        let magnitude = Self(abs).wrapping_neg_if(is_negative);
        let fits = Uint::lte(&abs, &Int::MAX().0).or(is_negative.and(Uint::eq(&abs, &Int::MIN().0)));
        ConstCtOption::new(magnitude, fits)
    }
}
//@@ end
//@@ fn src/int/add.rs | impl<const LIMBS: usize> Int<LIMBS> | wrapping_add | body | props C13 C11
impl<const LIMBS: usize> Int<LIMBS> {
pub const fn wrapping_add(&self, rhs: &Self) -> (ret__: Self)
{
        Self(self.0.wrapping_add(&rhs.0))
    }
}
//@@ end
//@@ fn src/int/add.rs | impl<const LIMBS: usize> Int<LIMBS> | overflowing_add | body | props C13 C11
impl<const LIMBS: usize> Int<LIMBS> {
pub const fn overflowing_add(&self, rhs: &Self) -> (ret__: (Self, ConstChoice))
{
        // Step 1. add operands
        let res = Self(self.0.wrapping_add(&rhs.0));
        // Step 2. determine whether overflow happened.
        // Note:
        // - overflow can only happen when the inputs have the same sign, and then
        // - overflow occurs if and only if the result has the opposite sign of both inputs.
        //
        // We can thus express the overflow flag as: (self.msb == rhs.msb) & (self.msb != res.msb)
        let self_msb = self.is_negative();
        let overflow = self_msb
            .eq(rhs.is_negative())
            .and(self_msb.ne(res.is_negative()));
        // Step 3. Construct result
        (res, overflow)
    }
}
//@@ end
//@@ fn src/int/add.rs | impl<const LIMBS: usize> Int<LIMBS> | checked_add | body | props C13 C11
impl<const LIMBS: usize> Int<LIMBS> {
pub const fn checked_add(&self, rhs: &Self) -> (ret__: ConstCtOption<Self>)
{
        let (value, overflow) = self.overflowing_add(rhs);
        ConstCtOption::new(value, overflow.not())
    }
}
//@@ end
//@@ fn src/int/neg.rs | impl<const LIMBS: usize> Int<LIMBS> | overflowing_neg | body | props C13 C11
impl<const LIMBS: usize> Int<LIMBS> {
pub const fn overflowing_neg(&self) -> (ret__: (Self, ConstChoice))
{
        Self(self.0.bitxor(&Uint::MAX())).overflowing_add(&Int::ONE())
    }
}
//@@ end
//@@ fn src/int/neg.rs | impl<const LIMBS: usize> Int<LIMBS> | wrapping_neg | body | props C13 C11
impl<const LIMBS: usize> Int<LIMBS> {
pub const fn wrapping_neg(&self) -> (ret__: Self)
{
        self.overflowing_neg().0
    }
}
//@@ end
//@@ fn src/int/neg.rs | impl<const LIMBS: usize> Int<LIMBS> | checked_neg | body | props C13 C11
impl<const LIMBS: usize> Int<LIMBS> {
pub const fn checked_neg(&self) -> (ret__: ConstCtOption<Self>)
{
        let (value, overflow) = self.overflowing_neg();
        ConstCtOption::new(value, overflow.not())
    }
}
//@@ end
//@@ fn src/int/resize.rs | impl<const LIMBS: usize> Int<LIMBS> | resize | body | props C13 C11
impl<const LIMBS: usize> Int<LIMBS> {
pub const fn resize<const T: usize>(&self) -> (ret__: Int<T>)
{
        let mut limbs = [Limb::select(Limb::ZERO, Limb::MAX, self.is_negative()); T];
        let mut i = 0;
        let dim = if T < LIMBS { T } else { LIMBS };
        while i < dim
{
            limbs[i] = self.0.limbs[i];
            i += 1;
        }
        Uint { limbs }.as_int()
    }
}
//@@ end
//@@ fn src/int/from.rs | impl<const LIMBS: usize> Int<LIMBS> | from_i8 | body | props C13 C11
impl<const LIMBS: usize> Int<LIMBS> {
pub const fn from_i8(n: i8) -> (ret__: Self)
{
        assert!(LIMBS >= 1, "number of limbs must be greater than zero");
        Uint::new([Limb(n as Word)]).as_int().resize()
    }
}
//@@ end
//@@ fn src/int/from.rs | impl<const LIMBS: usize> Int<LIMBS> | from_i16 | body | props C13 C11
impl<const LIMBS: usize> Int<LIMBS> {
pub const fn from_i16(n: i16) -> (ret__: Self)
{
        assert!(LIMBS >= 1, "number of limbs must be greater than zero");
        Uint::new([Limb(n as Word)]).as_int().resize()
    }
}
//@@ end
//@@ fn src/int/from.rs | impl<const LIMBS: usize> Int<LIMBS> | from_i32 | body | props C13 C11
impl<const LIMBS: usize> Int<LIMBS> {
pub const fn from_i32(n: i32) -> (ret__: Self)
{
        assert!(LIMBS >= 1, "number of limbs must be greater than zero");
        Uint::new([Limb(n as Word)]).as_int().resize()
    }
}
//@@ end
//@@ fn src/int/from.rs | impl<const LIMBS: usize> Int<LIMBS> | from_i64 | body | props C13 C11
impl<const LIMBS: usize> Int<LIMBS> {
pub const fn from_i64(n: i64) -> (ret__: Self)
{
        assert!(LIMBS >= 1, "number of limbs must be greater than zero");
        Uint::new([Limb(n as Word)]).as_int().resize()
    }
}
//@@ end
//@@ fn src/int/mul.rs | impl<const LIMBS: usize> Int<LIMBS> | split_mul | body | props C13 C11
impl<const LIMBS: usize> Int<LIMBS> {
pub const fn split_mul<const RHS_LIMBS: usize>(
        &self,
        rhs: &Int<RHS_LIMBS>,
    ) -> (ret__: (Uint<{ LIMBS }>, Uint<{ RHS_LIMBS }>, ConstChoice))
{
        // Step 1: split operands into their signs and magnitudes.
        let (lhs_abs, lhs_sgn) = self.abs_sign();
        let (rhs_abs, rhs_sgn) = rhs.abs_sign();
        // Step 2: multiply the magnitudes
        let (lo, hi) = lhs_abs.split_mul(&rhs_abs);
        // Step 3. Determine if the result should be negated.
        // This should be done if and only if lhs and rhs have opposing signs.
        // Note: if either operand is zero, the resulting magnitude will also be zero. Negating
        // zero, however, still yields zero, so having a truthy `negate` in that scenario is OK.
        let negate = lhs_sgn.xor(rhs_sgn);
        (lo, hi, negate)
    }
}
//@@ end
//@@ fn src/int/mul.rs | impl<const LIMBS: usize> Int<LIMBS> | checked_square | body | props C13 C11
impl<const LIMBS: usize> Int<LIMBS> {
pub fn checked_square(&self) -> (ret__: ConstCtOption<Uint<LIMBS>>)
{
        self.abs().checked_square()
    }
}
//@@ end
//@@ fn src/int/mul.rs | impl<const LIMBS: usize> Int<LIMBS> | wrapping_square | body | props C13 C11
impl<const LIMBS: usize> Int<LIMBS> {
pub const fn wrapping_square(&self) -> (ret__: Uint<LIMBS>)
{
        self.abs().wrapping_square()
    }
}
//@@ end
//@@ fn src/int/mul.rs | impl<const LIMBS: usize> Int<LIMBS> | saturating_square | body | props C13 C11
impl<const LIMBS: usize> Int<LIMBS> {
pub const fn saturating_square(&self) -> (ret__: Uint<LIMBS>)
{
        self.abs().saturating_square()
    }
}
//@@ end
//@@ fn src/int/mul_uint.rs | impl<const LIMBS: usize> Int<LIMBS> | split_mul_uint | body | props C13 C11
impl<const LIMBS: usize> Int<LIMBS> {
pub const fn split_mul_uint<const RHS_LIMBS: usize>(
        &self,
        rhs: &Uint<RHS_LIMBS>,
    ) -> (ret__: (Uint<{ LIMBS }>, Uint<{ RHS_LIMBS }>, ConstChoice))
{
        // Step 1. split self into its sign and magnitude.
        let (lhs_abs, lhs_sgn) = self.abs_sign();
        // Step 2. Multiply the magnitudes
        let (lo, hi) = lhs_abs.split_mul(rhs);
        // Step 3. negate if and only if self has a negative sign.
        (lo, hi, lhs_sgn)
    }
}
//@@ end
//@@ fn src/int/mul_uint.rs | impl<const LIMBS: usize> Int<LIMBS> | split_mul_uint_right | body | props C13 C11
impl<const LIMBS: usize> Int<LIMBS> {
pub const fn split_mul_uint_right<const RHS_LIMBS: usize>(
        &self,
        rhs: &Uint<RHS_LIMBS>,
    ) -> (ret__: (Uint<{ RHS_LIMBS }>, Uint<{ LIMBS }>, ConstChoice))
{
        let (lhs_abs, lhs_sgn) = self.abs_sign();
        let (lo, hi) = rhs.split_mul(&lhs_abs);
        (lo, hi, lhs_sgn)
    }
}
//@@ end

} // verus!
