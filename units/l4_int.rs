// L4: signed integers (src/int.rs, src/int/{add,sub,neg,sign,cmp,resize,from,mul,mul_uint}.rs) -- C13
// View: Int::iv() (speclib) == iv_of(self.0.v(), LIMBS). MIN = -ih(LIMBS), MAX = ih(LIMBS) - 1, wrap_i = "mod W, two's complement".
// Also hosts Uint/NonZero helpers that no other unit has: Uint::as_int, Uint::bitxor, NonZero<Uint>::new_unwrap,
// NonZero<Int>::abs_sign, `impl Deref for NonZero<T>`.
// Not covered (outside what Verus accepts here): trait impls returning subtle::CtOption or using closures
// (CheckedAdd/CheckedSub/CheckedMul for Int, checked_mul_uint_right, WrappingAdd/WrappingSub, operators, Checked/Wrapping<Int>,
// ConditionallySelectable, ConstantTimeEq/Greater/Less, Ord/PartialOrd/PartialEq), the ConcatMixed-bounded
// widening_mul / widening_mul_uint / widening_square, from_i128 (needs the I128 alias and Uint::from_u128),
// as_words / as_words_mut (unsafe pointer casts), as_limbs_mut (&mut return), Int::BYTES (Uint::BYTES is in no unit).
use vstd::prelude::*;
use vstd::arithmetic::power::*;
use vstd::arithmetic::power2::*;
use vstd::arithmetic::div_mod::*;
use core::cmp::Ordering;
use core::ops::Deref;
use crate::speclib::*;
use crate::speclib_bits::*;
use crate::l0_prim::*;
use crate::l1_choice::*;
use crate::l1_limb::*;
use crate::l2_core::*;
use crate::l2_shift::*;
use crate::l3_mul::*;
verus! {

// Model of `num_traits::ConstZero` (external crate) restricted to what src/int/sign.rs uses: `Word::ZERO`.
// num-traits defines `impl ConstZero for u64 { const ZERO: Self = 0; }`.
pub trait ConstZero: Sized { const ZERO: Self; }
impl ConstZero for u64 { const ZERO: Self = 0; }

// ---- vocabulary for two's complement (n = number of limbs, W = B^n)

/// W/2 = 2^(64n-1) = |MIN|
pub open spec fn ih(n: nat) -> int { bp(n) / 2 }
/// two's complement reading of an unsigned value v in [0, W)   (Int::iv() == iv_of(self.0.v(), LIMBS))
pub open spec fn iv_of(v: int, n: nat) -> int { if 2 * v < bp(n) { v } else { v - bp(n) } }
/// x in [MIN, MAX]
pub open spec fn in_range(x: int, n: nat) -> bool { -ih(n) <= x < ih(n) }
/// x modulo W, reinterpreted in two's complement
pub open spec fn wrap_i(x: int, n: nat) -> int { iv_of(x % bp(n), n) }
pub open spec fn abs_i(x: int) -> int { if x < 0 { -x } else { x } }

pub proof fn lemma_half(n: nat)
    requires n >= 1
    ensures bp(n) == 2 * ih(n), ih(n) == 0x8000_0000_0000_0000 * bp((n - 1) as nat), ih(n) >= 0x8000_0000_0000_0000, bp(n) >= B(),
        bp((n - 1) as nat) >= 1
{
    lemma_bp_succ((n - 1) as nat);
    let p = bp((n - 1) as nat);
    assert(bp(n) == B() * p);
    assert(B() * p == 2 * (0x8000_0000_0000_0000 * p)) by (nonlinear_arith);
    assert(0x8000_0000_0000_0000 * p >= 0x8000_0000_0000_0000) by (nonlinear_arith) requires p >= 1;
}

pub proof fn lemma_bp_mono(a: nat, b: nat)
    requires a <= b
    ensures bp(a) <= bp(b), bp(a) >= 1
{
    lemma_bp_add(a, (b - a) as nat);
    lemma_bp_succ(a); lemma_bp_succ((b - a) as nat);
    let x = bp(a); let y = bp((b - a) as nat);
    assert(x * y >= x) by (nonlinear_arith) requires x >= 1, y >= 1;
}

/// the most significant bit of the top limb is the sign
pub proof fn lemma_top_bit(s: Seq<Limb>, n: nat)
    requires n >= 1
    ensures (s[n - 1].0 >= 0x8000_0000_0000_0000u64) == (2 * val(s, n) >= bp(n))
{
    lemma_half(n); lemma_val_bound(s, (n - 1) as nat);
    let p = bp((n - 1) as nat); let t = s[n - 1].0 as int; let lo = val(s, (n - 1) as nat);
    assert(val(s, n) == lo + t * p);
    if t >= 0x8000_0000_0000_0000 {
        assert(t * p >= 0x8000_0000_0000_0000 * p) by (nonlinear_arith) requires t >= 0x8000_0000_0000_0000, p >= 1;
    } else {
        assert(t * p + p <= 0x8000_0000_0000_0000 * p) by (nonlinear_arith) requires t + 1 <= 0x8000_0000_0000_0000, p >= 1;
    }
}

pub proof fn lemma_mod_window(s: int, w: int)
    requires w > 0, -w <= s < 2 * w
    ensures s % w == (if s < 0 { s + w } else if s >= w { s - w } else { s })
{
    if s < 0 { lemma_fundamental_div_mod_converse(s, w, -1, s + w); }
    else if s >= w { lemma_fundamental_div_mod_converse(s, w, 1, s - w); }
    else { lemma_small_mod(s as nat, w as nat); }
}

pub proof fn lemma_iv_bounds(v: int, n: nat)
    requires n >= 1, 0 <= v < bp(n)
    ensures in_range(iv_of(v, n), n), (iv_of(v, n) < 0) == (2 * v >= bp(n)), v == iv_of(v, n) % bp(n),
        wrap_i(iv_of(v, n), n) == iv_of(v, n), (iv_of(v, n) == 0) == (v == 0),
        v == (if iv_of(v, n) < 0 { iv_of(v, n) + bp(n) } else { iv_of(v, n) })
{
    lemma_half(n);
    lemma_mod_window(iv_of(v, n), bp(n));
}

pub proof fn lemma_wrap_id(t: int, n: nat)
    requires n >= 1, in_range(t, n)
    ensures wrap_i(t, n) == t
{
    lemma_half(n);
    lemma_mod_window(t, bp(n));
}

pub proof fn lemma_wrap_range(t: int, n: nat)
    requires n >= 1
    ensures in_range(wrap_i(t, n), n)
{
    lemma_half(n);
    lemma_mod_bound(t, bp(n));
    lemma_iv_bounds(t % bp(n), n);
}

pub proof fn lemma_wrap_shift(t: int, k: int, n: nat)
    requires n >= 1
    ensures wrap_i(t + k * bp(n), n) == wrap_i(t, n)
{
    lemma_half(n);
    lemma_mod_multiples_vanish(k, t, bp(n));
    assert(bp(n) * k + t == t + k * bp(n)) by (nonlinear_arith);
}

/// unsigned value known modulo W and the intended signed value in range: the two's complement reading is that value
pub proof fn lemma_iv_from_mod(v: int, t: int, n: nat)
    requires n >= 1, v == t % bp(n), in_range(t, n)
    ensures iv_of(v, n) == t
{ lemma_wrap_id(t, n); }

/// signed addition from the unsigned wrapping sum
pub proof fn lemma_iadd(av: int, bv: int, rv: int, n: nat)
    requires n >= 1, 0 <= av < bp(n), 0 <= bv < bp(n), rv == (av + bv) % bp(n)
    ensures
        iv_of(rv, n) == wrap_i(iv_of(av, n) + iv_of(bv, n), n),
        in_range(iv_of(av, n) + iv_of(bv, n), n) ==> iv_of(rv, n) == iv_of(av, n) + iv_of(bv, n),
        (((iv_of(av, n) < 0) == (iv_of(bv, n) < 0)) && ((iv_of(av, n) < 0) != (iv_of(rv, n) < 0))) == !in_range(iv_of(av, n) + iv_of(bv, n), n)
{
    let w = bp(n);
    lemma_half(n);
    lemma_iv_bounds(av, n); lemma_iv_bounds(bv, n);
    lemma_mod_window(av + bv, w);
    let a = iv_of(av, n); let b = iv_of(bv, n);
    let k: int = (if a < 0 { 1int } else { 0int }) + (if b < 0 { 1int } else { 0int });
    assert(av + bv == (a + b) + k * w) by (nonlinear_arith) requires av == (if a < 0 { a + w } else { a }), bv == (if b < 0 { b + w } else { b }), k == (if a < 0 { 1int } else { 0int }) + (if b < 0 { 1int } else { 0int });
    lemma_wrap_shift(a + b, k, n);
    if in_range(a + b, n) { lemma_wrap_id(a + b, n); }
}

/// two's complement negation from the unsigned (W - v) mod W
pub proof fn lemma_ineg(v: int, rv: int, n: nat)
    requires n >= 1, 0 <= v < bp(n), rv == (bp(n) - v) % bp(n)
    ensures
        iv_of(rv, n) == wrap_i(-iv_of(v, n), n),
        iv_of(v, n) != -ih(n) ==> iv_of(rv, n) == -iv_of(v, n),
        iv_of(v, n) == -ih(n) ==> iv_of(rv, n) == -ih(n),
        iv_of(v, n) < 0 ==> rv == -iv_of(v, n),
        0 <= rv < bp(n)
{
    let w = bp(n);
    lemma_half(n);
    lemma_iv_bounds(v, n);
    lemma_mod_window(w - v, w);
    lemma_mod_window(-iv_of(v, n), w);
}

/// limbwise complement
pub proof fn lemma_val_not(s: Seq<Limb>, t: Seq<Limb>, n: nat)
    requires forall|k: int| 0 <= k < n ==> t[k].0 == s[k].0 ^ u64::MAX
    ensures val(t, n) == bp(n) - 1 - val(s, n)
    decreases n
{
    lemma_bp1();
    if n > 0 {
        let m = (n - 1) as nat;
        lemma_val_not(s, t, m);
        lemma_bp_succ(m);
        let x = s[m as int].0; let y = t[m as int].0; let p = bp(m);
        assert(y == 0xffff_ffff_ffff_ffffu64 - x) by (bit_vector) requires y == x ^ 0xffff_ffff_ffff_ffffu64;
        assert((B() - 1 - x as int) * p == B() * p - p - x as int * p) by (nonlinear_arith);
    }
}

/// a run of all-ones limbs
pub proof fn lemma_tv_all_max(s: Seq<Limb>, a: nat, b: nat)
    requires a <= b, forall|k: int| a <= k < b ==> s[k].0 == u64::MAX
    ensures tv(s, a, b) == bp(b) - bp(a)
    decreases b - a
{
    if b > a {
        let m = (b - 1) as nat;
        lemma_tv_all_max(s, a, m);
        lemma_bp_succ(m);
        let p = bp(m);
        assert((B() - 1) * p == B() * p - p) by (nonlinear_arith);
    }
}

pub proof fn lemma_tv_all_zero(s: Seq<Limb>, a: nat, b: nat)
    requires a <= b, forall|k: int| a <= k < b ==> s[k].0 == 0
    ensures tv(s, a, b) == 0
    decreases b - a
{
    if b > a {
        let m = (b - 1) as nat;
        lemma_tv_all_zero(s, a, m);
        assert(s[m as int].0 as int * bp(m) == 0) by (nonlinear_arith) requires s[m as int].0 == 0;
    }
}

/// r = s XOR m, limb by limb
pub open spec fn is_xor(s: Seq<Limb>, m: Seq<Limb>, r: Seq<Limb>, n: nat) -> bool {
    forall|k: int| 0 <= k < n ==> r[k].0 == s[k].0 ^ m[k].0
}
/// m is the sign mask 1000...0
pub open spec fn is_top_bit(m: Seq<Limb>, n: nat) -> bool {
    n >= 1 && m[n - 1].0 == 0x8000_0000_0000_0000u64 && (forall|k: int| 0 <= k < n - 1 ==> m[k].0 == 0)
}

/// MAX ^ (MAX >> 1) is the sign mask, of value W/2
pub proof fn lemma_min_bits(a: Seq<Limb>, m: Seq<Limb>, r: Seq<Limb>, n: nat)
    requires n >= 1, forall|k: int| 0 <= k < n ==> a[k].0 == u64::MAX, val(m, n) == ih(n) - 1, is_xor(a, m, r, n)
    ensures val(r, n) == ih(n), is_top_bit(r, n)
{
    let n1 = (n - 1) as nat;
    lemma_half(n);
    // the expected limbs of m: all ones below, 0111..1 on top
    let e = Seq::new(n, |k: int| if k < n - 1 { Limb(u64::MAX) } else { Limb(0x7fff_ffff_ffff_ffffu64) });
    lemma_val_all_max(e, n1);
    let p = bp(n1);
    assert(val(e, n) == val(e, n1) + e[n - 1].0 as int * p);
    assert(0x7fff_ffff_ffff_ffff * p == 0x8000_0000_0000_0000 * p - p) by (nonlinear_arith);
    assert(val(e, n) == val(m, n));
    lemma_val_inj(m, e, n);
    assert forall|k: int| 0 <= k < n - 1 implies r[k].0 == 0 by {
        let x = a[k].0; let y = m[k].0;
        assert(m[k].0 == e[k].0);
        assert(x ^ y == 0) by (bit_vector) requires x == 0xffff_ffff_ffff_ffffu64, y == 0xffff_ffff_ffff_ffffu64;
    }
    let x = a[n - 1].0; let y = m[n - 1].0;
    assert(m[n - 1].0 == e[n - 1].0);
    assert(x ^ y == 0x8000_0000_0000_0000u64) by (bit_vector) requires x == 0xffff_ffff_ffff_ffffu64, y == 0x7fff_ffff_ffff_ffffu64;
    lemma_val_zero(r, n1);
    assert(val(r, n) == val(r, n1) + r[n - 1].0 as int * p);
}

/// XOR with the sign mask adds W/2 to the two's complement value
pub proof fn lemma_flip_top(s: Seq<Limb>, m: Seq<Limb>, r: Seq<Limb>, n: nat)
    requires is_top_bit(m, n), is_xor(s, m, r, n)
    ensures val(r, n) == iv_of(val(s, n), n) + ih(n)
{
    let n1 = (n - 1) as nat;
    lemma_half(n); lemma_top_bit(s, n);
    let p = bp(n1);
    assert forall|k: int| 0 <= k < n1 implies r[k] == s[k] by {
        let x = s[k].0; let y = m[k].0;
        assert(x ^ y == x) by (bit_vector) requires y == 0;
    }
    lemma_val_ext(r, s, n1);
    let x = s[n - 1].0; let y = m[n - 1].0; let z = r[n - 1].0;
    assert(z == x ^ y);
    assert(x >= 0x8000_0000_0000_0000u64 ==> z == x - 0x8000_0000_0000_0000u64) by (bit_vector) requires z == x ^ y, y == 0x8000_0000_0000_0000u64;
    assert(x < 0x8000_0000_0000_0000u64 ==> z == x + 0x8000_0000_0000_0000u64) by (bit_vector) requires z == x ^ y, y == 0x8000_0000_0000_0000u64;
    assert(val(r, n) == val(r, n1) + z as int * p);
    assert(val(s, n) == val(s, n1) + x as int * p);
    assert((x as int - 0x8000_0000_0000_0000) * p == x as int * p - 0x8000_0000_0000_0000 * p) by (nonlinear_arith);
    assert((x as int + 0x8000_0000_0000_0000) * p == x as int * p + 0x8000_0000_0000_0000 * p) by (nonlinear_arith);
}

/// bitwise complement is -x - 1
pub proof fn lemma_inot(s: Seq<Limb>, m: Seq<Limb>, r: Seq<Limb>, n: nat)
    requires n >= 1, forall|k: int| 0 <= k < n ==> m[k].0 == u64::MAX, is_xor(s, m, r, n)
    ensures val(r, n) == bp(n) - 1 - val(s, n), iv_of(val(r, n), n) == -1 - iv_of(val(s, n), n)
{
    lemma_val_not(s, r, n);
    lemma_half(n); lemma_val_bound(s, n);
}

/// re-signing a magnitude a <= W/2
pub proof fn lemma_neg_mag(a: int, rv: int, n: nat)
    requires n >= 1, 0 <= a <= ih(n), rv == (bp(n) - a) % bp(n)
    ensures iv_of(rv, n) == -a
{
    lemma_half(n);
    lemma_mod_window(bp(n) - a, bp(n));
}

pub proof fn lemma_sign_mul(a: int, b: int)
    ensures abs_i(a) * abs_i(b) == abs_i(a * b),
        abs_i(a) * abs_i(b) * (if (a < 0) != (b < 0) { -1int } else { 1int }) == a * b,
        abs_i(a) * abs_i(a) == a * a
{
    let m = abs_i(a) * abs_i(b);
    assert(m * (-1int) == -m && m * 1int == m) by (nonlinear_arith);
    assert((-a) * (-b) == a * b) by (nonlinear_arith);
    assert((-a) * b == -(a * b)) by (nonlinear_arith);
    assert(a * (-b) == -(a * b)) by (nonlinear_arith);
    assert((-a) * (-a) == a * a) by (nonlinear_arith);
    assert(a >= 0 && b >= 0 ==> a * b >= 0) by (nonlinear_arith);
    assert(a <= 0 && b <= 0 ==> a * b >= 0) by (nonlinear_arith);
    assert(a >= 0 && b <= 0 ==> a * b <= 0) by (nonlinear_arith);
    assert(a <= 0 && b >= 0 ==> a * b <= 0) by (nonlinear_arith);
}

//@@ subst \b(Self|Uint|Int)::(ZERO|ONE|MINUS_ONE|MIN|MAX|SIGN_MASK|FULL_MASK|BITS|LIMBS|LOG2_BITS)\b(?!\() => \1::\2()
//@@ subst \b(Uint|Int)::<(\w+)>::(ZERO|ONE|MAX|MIN|BITS)\b(?!\() => \1::<\2>::\3()
//@@ fn src/uint.rs | impl<const LIMBS: usize> Uint<LIMBS> | as_int | body | props C13 C11
impl<const LIMBS: usize> Uint<LIMBS> {
pub const fn as_int(&self) -> (ret__: Int<LIMBS>)
//@+
    ensures ret__.0 == *self
//@-
{
        Int::from_bits(*self)
    }
}
//@@ end
//@@ fn src/uint/bit_xor.rs | impl<const LIMBS: usize> Uint<LIMBS> | bitxor | body | props C05 C11
impl<const LIMBS: usize> Uint<LIMBS> {
pub const fn bitxor(&self, rhs: &Self) -> (ret__: Self)
//@+
    ensures forall|k: int| 0 <= k < LIMBS ==> ret__.limbs@[k].0 == self.limbs@[k].0 ^ rhs.limbs@[k].0,
        is_xor(self.limbs@, rhs.limbs@, ret__.limbs@, LIMBS as nat)
//@-
{
        let mut limbs = [Limb::ZERO; LIMBS];
        let mut i = 0;
        while i < LIMBS
//@+
    invariant i <= LIMBS, forall|k: int| 0 <= k < i ==> limbs@[k].0 == self.limbs@[k].0 ^ rhs.limbs@[k].0,
    decreases LIMBS - i,
//@-
{
            limbs[i] = self.limbs[i].bitxor(rhs.limbs[i]);
            i += 1;
        }
        Self { limbs }
    }
}
//@@ end
//@@ const src/int.rs | impl<const LIMBS: usize> Int<LIMBS> | ZERO
impl<const LIMBS: usize> Int<LIMBS> {
pub const fn ZERO() -> (ret__: Self)
//@+
    requires LIMBS >= 1
    ensures ret__.0.v() == 0, ret__.iv() == 0
//@-
{
//@+
    proof { lemma_half(LIMBS as nat); }
//@-
    Self(Uint::ZERO())
}
}
//@@ end
//@@ const src/int.rs | impl<const LIMBS: usize> Int<LIMBS> | ONE
impl<const LIMBS: usize> Int<LIMBS> {
pub const fn ONE() -> (ret__: Self)
//@+
    requires LIMBS >= 1
    ensures ret__.0.v() == 1, ret__.iv() == 1
//@-
{
//@+
    proof { lemma_half(LIMBS as nat); }
//@-
    Self(Uint::ONE())
}
}
//@@ end
//@@ const src/int.rs | impl<const LIMBS: usize> Int<LIMBS> | FULL_MASK
impl<const LIMBS: usize> Int<LIMBS> {
pub const fn FULL_MASK() -> (ret__: Self)
//@+
    requires LIMBS >= 1
    ensures ret__.0.v() == bp(LIMBS as nat) - 1, ret__.iv() == -1, forall|k: int| 0 <= k < LIMBS ==> ret__.0.limbs@[k].0 == u64::MAX
//@-
{
//@+
    proof { lemma_half(LIMBS as nat); }
//@-
    Self(Uint::MAX())
}
}
//@@ end
//@@ const src/int.rs | impl<const LIMBS: usize> Int<LIMBS> | MINUS_ONE
impl<const LIMBS: usize> Int<LIMBS> {
pub const fn MINUS_ONE() -> (ret__: Self)
//@+
    requires LIMBS >= 1
    ensures ret__.0.v() == bp(LIMBS as nat) - 1, ret__.iv() == -1, forall|k: int| 0 <= k < LIMBS ==> ret__.0.limbs@[k].0 == u64::MAX
//@-
{
    Self::FULL_MASK()
}
}
//@@ end
//@@ const src/int.rs | impl<const LIMBS: usize> Int<LIMBS> | MAX
impl<const LIMBS: usize> Int<LIMBS> {
pub const fn MAX() -> (ret__: Self)
//@+
    requires 1 <= LIMBS < 0x400_0000
    ensures ret__.0.v() == ih(LIMBS as nat) - 1, ret__.iv() == ih(LIMBS as nat) - 1
//@-
{
//@+
    proof {
        lemma_half(LIMBS as nat); lemma_pow2_64();
        let w = bp(LIMBS as nat); let h = ih(LIMBS as nat); let d = p2(1);
        assert((w - 1) / d == h - 1) by (nonlinear_arith) requires d == 2, w == 2 * h;
    }
//@-
    Self(Uint::MAX().shr(1u32))
}
}
//@@ end
//@@ const src/int.rs | impl<const LIMBS: usize> Int<LIMBS> | MIN
impl<const LIMBS: usize> Int<LIMBS> {
pub const fn MIN() -> (ret__: Self)
//@+
    requires 1 <= LIMBS < 0x400_0000
    ensures ret__.0.v() == ih(LIMBS as nat), ret__.iv() == -ih(LIMBS as nat), is_top_bit(ret__.0.limbs@, LIMBS as nat)
//@-
{
//@+
    proof { lemma_half(LIMBS as nat); lemma_pow2_64(); }
    assert forall|a: Seq<Limb>, m: Seq<Limb>, r: Seq<Limb>| (forall|k: int| 0 <= k < LIMBS ==> a[k].0 == u64::MAX) && val(m, LIMBS as nat) == ih(LIMBS as nat) - 1 && #[trigger] is_xor(a, m, r, LIMBS as nat)
        implies val(r, LIMBS as nat) == ih(LIMBS as nat) && is_top_bit(r, LIMBS as nat) by { lemma_min_bits(a, m, r, LIMBS as nat); }
//@-
    Self(Uint::MAX().bitxor(&Uint::MAX().shr(1u32)))
}
}
//@@ end
//@@ const src/int.rs | impl<const LIMBS: usize> Int<LIMBS> | SIGN_MASK
impl<const LIMBS: usize> Int<LIMBS> {
pub const fn SIGN_MASK() -> (ret__: Self)
//@+
    requires 1 <= LIMBS < 0x400_0000
    ensures ret__.0.v() == ih(LIMBS as nat), ret__.iv() == -ih(LIMBS as nat), is_top_bit(ret__.0.limbs@, LIMBS as nat)
//@-
{
    Self::MIN()
}
}
//@@ end
//@@ const src/int.rs | impl<const LIMBS: usize> Int<LIMBS> | BITS
impl<const LIMBS: usize> Int<LIMBS> {
pub const fn BITS() -> (ret__: u32)
//@+
    requires LIMBS < 0x400_0000
    ensures ret__ as int == 64 * LIMBS
//@-
{
    Uint::<LIMBS>::BITS()
}
}
//@@ end
//@@ const src/int.rs | impl<const LIMBS: usize> Int<LIMBS> | LIMBS
impl<const LIMBS: usize> Int<LIMBS> {
pub const fn LIMBS() -> (ret__: usize)
//@+
    ensures ret__ == LIMBS
//@-
{
    LIMBS
}
}
//@@ end
//@@ fn src/int.rs | impl<const LIMBS: usize> Int<LIMBS> | new | body | props C13 C11
impl<const LIMBS: usize> Int<LIMBS> {
pub const fn new(limbs: [Limb; LIMBS]) -> (ret__: Self)
//@+
    ensures ret__.0.limbs == limbs
//@-
{
        Self(Uint::new(limbs))
    }
}
//@@ end
//@@ fn src/int.rs | impl<const LIMBS: usize> Int<LIMBS> | from_bits | body | props C13 C11
impl<const LIMBS: usize> Int<LIMBS> {
pub const fn from_bits(value: Uint<LIMBS>) -> (ret__: Self)
//@+
    ensures ret__.0 == value
//@-
{
        Self(value)
    }
}
//@@ end
//@@ fn src/int.rs | impl<const LIMBS: usize> Int<LIMBS> | from_words | body | props C13 C11
impl<const LIMBS: usize> Int<LIMBS> {
pub const fn from_words(arr: [Word; LIMBS]) -> (ret__: Self)
//@+
    ensures forall|k: int| 0 <= k < LIMBS ==> ret__.0.limbs@[k].0 == arr@[k]
//@-
{
        Self(Uint::from_words(arr))
    }
}
//@@ end
//@@ fn src/int.rs | impl<const LIMBS: usize> Int<LIMBS> | to_words | body | props C13 C11
impl<const LIMBS: usize> Int<LIMBS> {
pub const fn to_words(self) -> (ret__: [Word; LIMBS])
//@+
    ensures forall|k: int| 0 <= k < LIMBS ==> ret__@[k] == self.0.limbs@[k].0
//@-
{
        self.0.to_words()
    }
}
//@@ end
//@@ fn src/int.rs | impl<const LIMBS: usize> Int<LIMBS> | as_limbs | body | props C13 C11
impl<const LIMBS: usize> Int<LIMBS> {
pub const fn as_limbs(&self) -> (ret__: &[Limb; LIMBS])
//@+
    ensures *ret__ == self.0.limbs
//@-
{
        self.0.as_limbs()
    }
}
//@@ end
//@@ fn src/int.rs | impl<const LIMBS: usize> Int<LIMBS> | to_limbs | body | props C13 C11
impl<const LIMBS: usize> Int<LIMBS> {
pub const fn to_limbs(self) -> (ret__: [Limb; LIMBS])
//@+
    ensures ret__ == self.0.limbs
//@-
{
        self.0.to_limbs()
    }
}
//@@ end
//@@ fn src/int.rs | impl<const LIMBS: usize> Int<LIMBS> | to_nz | body | props C13 C11
impl<const LIMBS: usize> Int<LIMBS> {
pub const fn to_nz(self) -> (ret__: ConstCtOption<NonZero<Self>>)
//@+
    ensures ret__.value.0 == self, ret__.is_some.wf(), ret__.is_some.t() == (self.iv() != 0)
//@-
{
//@+
    proof { lemma_val_bound(self.0.limbs@, LIMBS as nat); }
//@-
        ConstCtOption::new(NonZero(self), self.0.is_nonzero())
    }
}
//@@ end
//@@ fn src/int.rs | impl<const LIMBS: usize> Int<LIMBS> | to_odd | body | props C13 C11
impl<const LIMBS: usize> Int<LIMBS> {
pub const fn to_odd(self) -> (ret__: ConstCtOption<Odd<Self>>)
//@+
    requires LIMBS >= 1
    ensures ret__.value.0 == self, ret__.is_some.wf(), ret__.is_some.t() == (self.iv() % 2 == 1)
//@-
{
//@+
    proof { lemma_val_bound(self.0.limbs@, LIMBS as nat); lemma_half(LIMBS as nat); }
//@-
        ConstCtOption::new(Odd(self), self.0.is_odd())
    }
}
//@@ end
//@@ fn src/int.rs | impl<const LIMBS: usize> Int<LIMBS> | as_uint | body | props C13 C11
impl<const LIMBS: usize> Int<LIMBS> {
pub const fn as_uint(&self) -> (ret__: &Uint<LIMBS>)
//@+
    ensures *ret__ == self.0
//@-
{
        &self.0
    }
}
//@@ end
//@@ fn src/int.rs | impl<const LIMBS: usize> Int<LIMBS> | is_min | body | props C13 C11
impl<const LIMBS: usize> Int<LIMBS> {
pub const fn is_min(&self) -> (ret__: ConstChoice)
//@+
    requires 1 <= LIMBS < 0x400_0000
    ensures ret__.wf(), ret__.t() == (self.iv() == -ih(LIMBS as nat))
//@-
{
//@+
    proof { lemma_val_bound(self.0.limbs@, LIMBS as nat); lemma_half(LIMBS as nat); }
//@-
        Self::eq(self, &Self::MIN())
    }
}
//@@ end
//@@ fn src/int.rs | impl<const LIMBS: usize> Int<LIMBS> | is_max | body | props C13 C11
impl<const LIMBS: usize> Int<LIMBS> {
pub fn is_max(&self) -> (ret__: ConstChoice)
//@+
    requires 1 <= LIMBS < 0x400_0000
    ensures ret__.wf(), ret__.t() == (self.iv() == ih(LIMBS as nat) - 1)
//@-
{
//@+
    proof { lemma_val_bound(self.0.limbs@, LIMBS as nat); lemma_half(LIMBS as nat); }
//@-
        Self::eq(self, &Self::MAX())
    }
}
//@@ end
//@@ fn src/int.rs | impl<const LIMBS: usize> Int<LIMBS> | invert_msb | body | props C13 C11
impl<const LIMBS: usize> Int<LIMBS> {
pub const fn invert_msb(&self) -> (ret__: Self)
//@+
    requires 1 <= LIMBS < 0x400_0000
    ensures ret__.0.v() == self.iv() + ih(LIMBS as nat)
//@-
{
//@+
    assert forall|m: Seq<Limb>, r: Seq<Limb>| is_top_bit(m, LIMBS as nat) && #[trigger] is_xor(self.0.limbs@, m, r, LIMBS as nat)
        implies val(r, LIMBS as nat) == iv_of(val(self.0.limbs@, LIMBS as nat), LIMBS as nat) + ih(LIMBS as nat) by { lemma_flip_top(self.0.limbs@, m, r, LIMBS as nat); }
//@-
        Self(self.0.bitxor(&Self::SIGN_MASK().0))
    }
}
//@@ end
//@@ fn src/int/cmp.rs | impl<const LIMBS: usize> Int<LIMBS> | select | body | props C13 C06 C11
impl<const LIMBS: usize> Int<LIMBS> {
pub const fn select(a: &Self, b: &Self, c: ConstChoice) -> (ret__: Self)
//@+
    requires c.wf()
    ensures ret__ == (if c.t() { *b } else { *a })
//@-
{
        Self(Uint::select(&a.0, &b.0, c))
    }
}
//@@ end
//@@ fn src/int/cmp.rs | impl<const LIMBS: usize> Int<LIMBS> | is_nonzero | body | props C13 C06 C11
impl<const LIMBS: usize> Int<LIMBS> {
pub const fn is_nonzero(&self) -> (ret__: ConstChoice)
//@+
    ensures ret__.wf(), ret__.t() == (self.iv() != 0)
//@-
{
//@+
    proof { lemma_val_bound(self.0.limbs@, LIMBS as nat); }
//@-
        Uint::is_nonzero(&self.0)
    }
}
//@@ end
//@@ fn src/int/cmp.rs | impl<const LIMBS: usize> Int<LIMBS> | eq | body | props C13 C06 C11
impl<const LIMBS: usize> Int<LIMBS> {
pub const fn eq(lhs: &Self, rhs: &Self) -> (ret__: ConstChoice)
//@+
    ensures ret__.wf(), ret__.t() == (lhs.iv() == rhs.iv()), ret__.t() == (lhs.0.v() == rhs.0.v())
//@-
{
//@+
    proof { lemma_val_bound(lhs.0.limbs@, LIMBS as nat); lemma_val_bound(rhs.0.limbs@, LIMBS as nat); }
//@-
        Uint::eq(&lhs.0, &rhs.0)
    }
}
//@@ end
//@@ fn src/int/cmp.rs | impl<const LIMBS: usize> Int<LIMBS> | lt | body | props C13 C06 C11
impl<const LIMBS: usize> Int<LIMBS> {
pub const fn lt(lhs: &Self, rhs: &Self) -> (ret__: ConstChoice)
//@+
    requires 1 <= LIMBS < 0x400_0000
    ensures ret__.wf(), ret__.t() == (lhs.iv() < rhs.iv())
//@-
{
        Uint::lt(&lhs.invert_msb().0, &rhs.invert_msb().0)
    }
}
//@@ end
//@@ fn src/int/cmp.rs | impl<const LIMBS: usize> Int<LIMBS> | gt | body | props C13 C06 C11
impl<const LIMBS: usize> Int<LIMBS> {
pub const fn gt(lhs: &Self, rhs: &Self) -> (ret__: ConstChoice)
//@+
    requires 1 <= LIMBS < 0x400_0000
    ensures ret__.wf(), ret__.t() == (lhs.iv() > rhs.iv())
//@-
{
        Uint::gt(&lhs.invert_msb().0, &rhs.invert_msb().0)
    }
}
//@@ end
//@@ fn src/int/cmp.rs | impl<const LIMBS: usize> Int<LIMBS> | cmp | body | props C13 C06 C11
impl<const LIMBS: usize> Int<LIMBS> {
pub const fn cmp(lhs: &Self, rhs: &Self) -> (ret__: i8)
//@+
    requires 1 <= LIMBS < 0x400_0000
    ensures ret__ as int == (if lhs.iv() < rhs.iv() { -1int } else if lhs.iv() == rhs.iv() { 0int } else { 1int })
//@-
{
        Uint::cmp(&lhs.invert_msb().0, &rhs.invert_msb().0)
    }
}
//@@ end
//@@ fn src/int/cmp.rs | impl<const LIMBS: usize> Int<LIMBS> | cmp_vartime | body | props C13 C06 C11
impl<const LIMBS: usize> Int<LIMBS> {
pub const fn cmp_vartime(&self, rhs: &Self) -> (ret__: Ordering)
//@+
    requires 1 <= LIMBS < 0x400_0000
    ensures (ret__ == Ordering::Less) == (self.iv() < rhs.iv()), (ret__ == Ordering::Equal) == (self.iv() == rhs.iv()), (ret__ == Ordering::Greater) == (self.iv() > rhs.iv())
//@-
{
        self.invert_msb().0.cmp_vartime(&rhs.invert_msb().0)
    }
}
//@@ end
//@@ fn src/int/sign.rs | impl<const LIMBS: usize> Int<LIMBS> | most_significant_word | body | props C13 C11
impl<const LIMBS: usize> Int<LIMBS> {
pub const fn most_significant_word(&self) -> (ret__: Word)
//@+
    ensures LIMBS == 0 ==> ret__ == 0, LIMBS >= 1 ==> ret__ == self.0.limbs@[LIMBS - 1].0
//@-
{
        if Self::LIMBS() == 0 {
            Word::ZERO
        } else {
            self.0.to_words()[LIMBS - 1]
        }
    }
}
//@@ end
//@@ fn src/int/sign.rs | impl<const LIMBS: usize> Int<LIMBS> | is_negative | body | props C13 C11
impl<const LIMBS: usize> Int<LIMBS> {
pub const fn is_negative(&self) -> (ret__: ConstChoice)
//@+
    ensures ret__.wf(), ret__.t() == (self.iv() < 0), ret__.t() == (2 * self.0.v() >= bp(LIMBS as nat))
//@-
{
//@+
    proof {
        lemma_val_bound(self.0.limbs@, LIMBS as nat); lemma_bp1();
        if LIMBS >= 1 { lemma_top_bit(self.0.limbs@, LIMBS as nat); }
    }
//@-
        ConstChoice::from_word_msb(self.most_significant_word())
    }
}
//@@ end
//@@ fn src/int/sign.rs | impl<const LIMBS: usize> Int<LIMBS> | is_positive | body | props C13 C11
impl<const LIMBS: usize> Int<LIMBS> {
pub const fn is_positive(&self) -> (ret__: ConstChoice)
//@+
    ensures ret__.wf(), ret__.t() == (self.iv() > 0)
//@-
{
        self.is_negative().not().and(self.is_nonzero())
    }
}
//@@ end
//@@ fn src/int/neg.rs | impl<const LIMBS: usize> Int<LIMBS> | wrapping_neg_if | body | props C13 C11
impl<const LIMBS: usize> Int<LIMBS> {
pub const fn wrapping_neg_if(&self, negate: ConstChoice) -> (ret__: Int<LIMBS>)
//@+
    requires negate.wf()
    ensures ret__.0.v() == (if negate.t() { (bp(LIMBS as nat) - self.0.v()) % bp(LIMBS as nat) } else { self.0.v() }),
        !negate.t() ==> ret__.iv() == self.iv(),
        LIMBS >= 1 && negate.t() ==> ret__.iv() == wrap_i(-self.iv(), LIMBS as nat),
        LIMBS >= 1 && negate.t() && self.iv() != -ih(LIMBS as nat) ==> ret__.iv() == -self.iv(),
        LIMBS >= 1 && negate.t() && self.iv() == -ih(LIMBS as nat) ==> ret__.iv() == self.iv()
//@-
{
//@+
    proof {
        lemma_val_bound(self.0.limbs@, LIMBS as nat);
        if LIMBS >= 1 { lemma_ineg(self.0.v(), (bp(LIMBS as nat) - self.0.v()) % bp(LIMBS as nat), LIMBS as nat); }
    }
//@-
        Self(self.0.wrapping_neg_if(negate))
    }
}
//@@ end
//@@ fn src/int/sign.rs | impl<const LIMBS: usize> Int<LIMBS> | abs_sign | body | props C13 C11
impl<const LIMBS: usize> Int<LIMBS> {
pub const fn abs_sign(&self) -> (ret__: (Uint<LIMBS>, ConstChoice))
//@+
    requires LIMBS >= 1
    ensures ret__.1.wf(), ret__.1.t() == (self.iv() < 0), ret__.0.v() == abs_i(self.iv()), 0 <= ret__.0.v() <= ih(LIMBS as nat)
//@-
{
//@+
    proof {
        lemma_val_bound(self.0.limbs@, LIMBS as nat);
        lemma_ineg(self.0.v(), (bp(LIMBS as nat) - self.0.v()) % bp(LIMBS as nat), LIMBS as nat);
        lemma_iv_bounds(self.0.v(), LIMBS as nat);
    }
//@-
        let sign = self.is_negative();
        // Note: this negate_if is safe to use, since we are negating based on self.is_negative()
        let abs = self.wrapping_neg_if(sign);
        (abs.0, sign)
    }
}
//@@ end
//@@ fn src/int/sign.rs | impl<const LIMBS: usize> Int<LIMBS> | abs | body | props C13 C11
impl<const LIMBS: usize> Int<LIMBS> {
pub const fn abs(&self) -> (ret__: Uint<LIMBS>)
//@+
    requires LIMBS >= 1
    ensures ret__.v() == abs_i(self.iv()), 0 <= ret__.v() <= ih(LIMBS as nat)
//@-
{
        self.abs_sign().0
    }
}
//@@ end
//@@ fn src/int/sign.rs | impl<const LIMBS: usize> Int<LIMBS> | new_from_abs_sign | body | props C13 C11
impl<const LIMBS: usize> Int<LIMBS> {
pub const fn new_from_abs_sign(
        abs: Uint<LIMBS>,
        is_negative: ConstChoice,
    ) -> (ret__: ConstCtOption<Self>)
//@+
    requires 1 <= LIMBS < 0x400_0000, is_negative.wf()
    ensures ret__.is_some.wf(),
        ret__.is_some.t() == (abs.v() <= ih(LIMBS as nat) - 1 || (is_negative.t() && abs.v() == ih(LIMBS as nat))),
        ret__.is_some.t() ==> ret__.value.iv() == (if is_negative.t() { -abs.v() } else { abs.v() }),
        ret__.value.0.v() == (if is_negative.t() { (bp(LIMBS as nat) - abs.v()) % bp(LIMBS as nat) } else { abs.v() })
//@-
{
//@+
    proof {
        lemma_val_bound(abs.limbs@, LIMBS as nat); lemma_half(LIMBS as nat);
        if abs.v() <= ih(LIMBS as nat) { lemma_neg_mag(abs.v(), (bp(LIMBS as nat) - abs.v()) % bp(LIMBS as nat), LIMBS as nat); }
    }
//@-
        let magnitude = Self(abs).wrapping_neg_if(is_negative);
        let fits = Uint::lte(&abs, &Int::MAX().0).or(is_negative.and(Uint::eq(&abs, &Int::MIN().0)));
        ConstCtOption::new(magnitude, fits)
    }
}
//@@ end
//@@ fn src/int/add.rs | impl<const LIMBS: usize> Int<LIMBS> | wrapping_add | body | props C13 C11
impl<const LIMBS: usize> Int<LIMBS> {
pub const fn wrapping_add(&self, rhs: &Self) -> (ret__: Self)
//@+
    requires LIMBS >= 1
    ensures ret__.0.v() == (self.0.v() + rhs.0.v()) % bp(LIMBS as nat),
        ret__.iv() == wrap_i(self.iv() + rhs.iv(), LIMBS as nat),
        in_range(self.iv() + rhs.iv(), LIMBS as nat) ==> ret__.iv() == self.iv() + rhs.iv()
//@-
{
//@+
    proof {
        lemma_val_bound(self.0.limbs@, LIMBS as nat); lemma_val_bound(rhs.0.limbs@, LIMBS as nat);
        lemma_iadd(self.0.v(), rhs.0.v(), (self.0.v() + rhs.0.v()) % bp(LIMBS as nat), LIMBS as nat);
    }
//@-
        Self(self.0.wrapping_add(&rhs.0))
    }
}
//@@ end
//@@ fn src/int/add.rs | impl<const LIMBS: usize> Int<LIMBS> | overflowing_add | body | props C13 C11
impl<const LIMBS: usize> Int<LIMBS> {
pub const fn overflowing_add(&self, rhs: &Self) -> (ret__: (Self, ConstChoice))
//@+
    requires LIMBS >= 1
    ensures ret__.1.wf(), ret__.1.t() == !in_range(self.iv() + rhs.iv(), LIMBS as nat),
        ret__.0.iv() == wrap_i(self.iv() + rhs.iv(), LIMBS as nat),
        !ret__.1.t() ==> ret__.0.iv() == self.iv() + rhs.iv()
//@-
{
//@+
    proof {
        lemma_val_bound(self.0.limbs@, LIMBS as nat); lemma_val_bound(rhs.0.limbs@, LIMBS as nat);
        lemma_iadd(self.0.v(), rhs.0.v(), (self.0.v() + rhs.0.v()) % bp(LIMBS as nat), LIMBS as nat);
    }
//@-
        // Step 1. add operands
        let res = Self(self.0.wrapping_add(&rhs.0));
        // Step 2. determine whether overflow happened.
        // Note:
        // - overflow can only happen when the inputs have the same sign, and then
        // - overflow occurs if and only if the result has the opposite sign of both inputs.
        //
        // We can thus express the overflow flag as: (self.msb == rhs.msb) & (self.msb != res.msb)
        let self_msb = self.is_negative();
        let overflow = self_msb
            .eq(rhs.is_negative())
            .and(self_msb.ne(res.is_negative()));
        // Step 3. Construct result
        (res, overflow)
    }
}
//@@ end
//@@ fn src/int/add.rs | impl<const LIMBS: usize> Int<LIMBS> | checked_add | body | props C13 C11
impl<const LIMBS: usize> Int<LIMBS> {
pub const fn checked_add(&self, rhs: &Self) -> (ret__: ConstCtOption<Self>)
//@+
    requires LIMBS >= 1
    ensures ret__.is_some.wf(), ret__.is_some.t() == in_range(self.iv() + rhs.iv(), LIMBS as nat),
        ret__.is_some.t() ==> ret__.value.iv() == self.iv() + rhs.iv(),
        ret__.value.iv() == wrap_i(self.iv() + rhs.iv(), LIMBS as nat)
//@-
{
        let (value, overflow) = self.overflowing_add(rhs);
        ConstCtOption::new(value, overflow.not())
    }
}
//@@ end
//@@ fn src/int/neg.rs | impl<const LIMBS: usize> Int<LIMBS> | overflowing_neg | body | props C13 C11
impl<const LIMBS: usize> Int<LIMBS> {
pub const fn overflowing_neg(&self) -> (ret__: (Self, ConstChoice))
//@+
    requires LIMBS >= 1
    ensures ret__.1.wf(), ret__.1.t() == (self.iv() == -ih(LIMBS as nat)),
        ret__.0.iv() == wrap_i(-self.iv(), LIMBS as nat),
        !ret__.1.t() ==> ret__.0.iv() == -self.iv(),
        ret__.1.t() ==> ret__.0.iv() == self.iv()
//@-
{
//@+
    proof { lemma_val_bound(self.0.limbs@, LIMBS as nat); lemma_iv_bounds(self.0.v(), LIMBS as nat); lemma_half(LIMBS as nat); }
    assert forall|m: Seq<Limb>, r: Seq<Limb>| (forall|k: int| 0 <= k < LIMBS ==> m[k].0 == u64::MAX) && #[trigger] is_xor(self.0.limbs@, m, r, LIMBS as nat)
        implies iv_of(val(r, LIMBS as nat), LIMBS as nat) == -1 - self.iv() by { lemma_inot(self.0.limbs@, m, r, LIMBS as nat); }
    proof { if self.iv() == -ih(LIMBS as nat) { lemma_wrap_shift(-ih(LIMBS as nat), 1, LIMBS as nat); lemma_wrap_id(-ih(LIMBS as nat), LIMBS as nat); } }
//@-
        Self(self.0.bitxor(&Uint::MAX())).overflowing_add(&Int::ONE())
    }
}
//@@ end
//@@ fn src/int/neg.rs | impl<const LIMBS: usize> Int<LIMBS> | wrapping_neg | body | props C13 C11
impl<const LIMBS: usize> Int<LIMBS> {
pub const fn wrapping_neg(&self) -> (ret__: Self)
//@+
    requires LIMBS >= 1
    ensures ret__.iv() == wrap_i(-self.iv(), LIMBS as nat),
        self.iv() != -ih(LIMBS as nat) ==> ret__.iv() == -self.iv(),
        self.iv() == -ih(LIMBS as nat) ==> ret__.iv() == self.iv()
//@-
{
        self.overflowing_neg().0
    }
}
//@@ end
//@@ fn src/int/neg.rs | impl<const LIMBS: usize> Int<LIMBS> | checked_neg | body | props C13 C11
impl<const LIMBS: usize> Int<LIMBS> {
pub const fn checked_neg(&self) -> (ret__: ConstCtOption<Self>)
//@+
    requires LIMBS >= 1
    ensures ret__.is_some.wf(), ret__.is_some.t() == (self.iv() != -ih(LIMBS as nat)),
        ret__.is_some.t() ==> ret__.value.iv() == -self.iv()
//@-
{
        let (value, overflow) = self.overflowing_neg();
        ConstCtOption::new(value, overflow.not())
    }
}
//@@ end
//@@ fn src/int/resize.rs | impl<const LIMBS: usize> Int<LIMBS> | resize | body | props C13 C11
impl<const LIMBS: usize> Int<LIMBS> {
pub const fn resize<const T: usize>(&self) -> (ret__: Int<T>)
//@+
    requires LIMBS >= 1
    ensures T >= LIMBS ==> ret__.iv() == self.iv(),
        T < LIMBS ==> ret__.0.v() == self.0.v() % bp(T as nat)
//@-
{
        let mut limbs = [Limb::select(Limb::ZERO, Limb::MAX, self.is_negative()); T];
//@+
    let ghost fill = limbs@[0]; let ghost neg = self.iv() < 0;
//@-
        let mut i = 0;
        let dim = if T < LIMBS { T } else { LIMBS };
        while i < dim
//@+
    invariant i <= dim, dim <= T, dim <= LIMBS, dim == (if T < LIMBS { T } else { LIMBS }),
        forall|k: int| 0 <= k < i ==> limbs@[k] == self.0.limbs@[k],
        forall|k: int| i <= k < T ==> limbs@[k].0 == (if neg { u64::MAX } else { 0u64 }),
    decreases dim - i,
//@-
{
            limbs[i] = self.0.limbs[i];
            i += 1;
        }
//@+
    proof {
        lemma_val_ext(limbs@, self.0.limbs@, dim as nat);
        if T < LIMBS { lemma_val_mod(self.0.limbs@, T as nat, LIMBS as nat); }
        else {
            lemma_val_bound(self.0.limbs@, LIMBS as nat);
            lemma_half(LIMBS as nat); lemma_half(T as nat); lemma_bp_mono(LIMBS as nat, T as nat);
            if neg { lemma_tv_all_max(limbs@, LIMBS as nat, T as nat); } else { lemma_tv_all_zero(limbs@, LIMBS as nat, T as nat); }
        }
    }
//@-
        Uint { limbs }.as_int()
    }
}
//@@ end
//@@ fn src/int/from.rs | impl<const LIMBS: usize> Int<LIMBS> | from_i8 | body | props C13 C11
impl<const LIMBS: usize> Int<LIMBS> {
pub const fn from_i8(n: i8) -> (ret__: Self)
//@+
    requires LIMBS >= 1
    ensures ret__.iv() == n as int
//@-
{
        assert!(LIMBS >= 1, "number of limbs must be greater than zero");
//@+
    let ghost r = n as u64;
    assert(n >= 0 ==> r == (n as u8) as u64) by (bit_vector) requires r == n as u64;
    assert(n >= 0 ==> (n as u8) as i8 == n) by (bit_vector);
    assert(n < 0 ==> r == 0xffff_ffff_ffff_ffffu64 - ((!n) as u64) && !n >= 0) by (bit_vector) requires r == n as u64;
    assert(!n == -n - 1) by (bit_vector);
    proof { lemma_bp1(); }
    assert forall|s: Seq<Limb>| s[0].0 == r implies iv_of(#[trigger] val(s, 1), 1) == n as int by { lemma_val_single(s, 1); }
//@-
        Uint::new([Limb(n as Word)]).as_int().resize()
    }
}
//@@ end
//@@ fn src/int/from.rs | impl<const LIMBS: usize> Int<LIMBS> | from_i16 | body | props C13 C11
impl<const LIMBS: usize> Int<LIMBS> {
pub const fn from_i16(n: i16) -> (ret__: Self)
//@+
    requires LIMBS >= 1
    ensures ret__.iv() == n as int
//@-
{
        assert!(LIMBS >= 1, "number of limbs must be greater than zero");
//@+
    let ghost r = n as u64;
    assert(n >= 0 ==> r == (n as u16) as u64) by (bit_vector) requires r == n as u64;
    assert(n >= 0 ==> (n as u16) as i16 == n) by (bit_vector);
    assert(n < 0 ==> r == 0xffff_ffff_ffff_ffffu64 - ((!n) as u64) && !n >= 0) by (bit_vector) requires r == n as u64;
    assert(!n == -n - 1) by (bit_vector);
    proof { lemma_bp1(); }
    assert forall|s: Seq<Limb>| s[0].0 == r implies iv_of(#[trigger] val(s, 1), 1) == n as int by { lemma_val_single(s, 1); }
//@-
        Uint::new([Limb(n as Word)]).as_int().resize()
    }
}
//@@ end
//@@ fn src/int/from.rs | impl<const LIMBS: usize> Int<LIMBS> | from_i32 | body | props C13 C11
impl<const LIMBS: usize> Int<LIMBS> {
pub const fn from_i32(n: i32) -> (ret__: Self)
//@+
    requires LIMBS >= 1
    ensures ret__.iv() == n as int
//@-
{
        assert!(LIMBS >= 1, "number of limbs must be greater than zero");
//@+
    let ghost r = n as u64;
    assert(n >= 0 ==> r == (n as u32) as u64) by (bit_vector) requires r == n as u64;
    assert(n >= 0 ==> (n as u32) as i32 == n) by (bit_vector);
    assert(n < 0 ==> r == 0xffff_ffff_ffff_ffffu64 - ((!n) as u64) && !n >= 0) by (bit_vector) requires r == n as u64;
    assert(!n == -n - 1) by (bit_vector);
    proof { lemma_bp1(); }
    assert forall|s: Seq<Limb>| s[0].0 == r implies iv_of(#[trigger] val(s, 1), 1) == n as int by { lemma_val_single(s, 1); }
//@-
        Uint::new([Limb(n as Word)]).as_int().resize()
    }
}
//@@ end
//@@ fn src/int/from.rs | impl<const LIMBS: usize> Int<LIMBS> | from_i64 | body | props C13 C11
impl<const LIMBS: usize> Int<LIMBS> {
pub const fn from_i64(n: i64) -> (ret__: Self)
//@+
    requires LIMBS >= 1
    ensures ret__.iv() == n as int
//@-
{
        assert!(LIMBS >= 1, "number of limbs must be greater than zero");
//@+
    let ghost r = n as u64;
    assert(n >= 0 ==> r == (n as u64) as u64) by (bit_vector) requires r == n as u64;
    assert(n >= 0 ==> (n as u64) as i64 == n) by (bit_vector);
    assert(n < 0 ==> r == 0xffff_ffff_ffff_ffffu64 - ((!n) as u64) && !n >= 0) by (bit_vector) requires r == n as u64;
    assert(!n == -n - 1) by (bit_vector);
    proof { lemma_bp1(); }
    assert forall|s: Seq<Limb>| s[0].0 == r implies iv_of(#[trigger] val(s, 1), 1) == n as int by { lemma_val_single(s, 1); }
//@-
        Uint::new([Limb(n as Word)]).as_int().resize()
    }
}
//@@ end
//@@ fn src/int/mul.rs | impl<const LIMBS: usize> Int<LIMBS> | split_mul | body | props C13 C11
impl<const LIMBS: usize> Int<LIMBS> {
pub const fn split_mul<const RHS_LIMBS: usize>(
        &self,
        rhs: &Int<RHS_LIMBS>,
    ) -> (ret__: (Uint<{ LIMBS }>, Uint<{ RHS_LIMBS }>, ConstChoice))
//@+
    requires LIMBS >= 1, RHS_LIMBS >= 1, LIMBS + RHS_LIMBS <= usize::MAX
    ensures ret__.2.wf(), ret__.2.t() == ((self.iv() < 0) != (rhs.iv() < 0)),
        ret__.0.v() + ret__.1.v() * bp(LIMBS as nat) == abs_i(self.iv()) * abs_i(rhs.iv()),
        (ret__.0.v() + ret__.1.v() * bp(LIMBS as nat)) * (if ret__.2.t() { -1int } else { 1int }) == self.iv() * rhs.iv()
//@-
{
        // Step 1: split operands into their signs and magnitudes.
        let (lhs_abs, lhs_sgn) = self.abs_sign();
        let (rhs_abs, rhs_sgn) = rhs.abs_sign();
        // Step 2: multiply the magnitudes
        let (lo, hi) = lhs_abs.split_mul(&rhs_abs);
        // Step 3. Determine if the result should be negated.
        // This should be done if and only if lhs and rhs have opposing signs.
        // Note: if either operand is zero, the resulting magnitude will also be zero. Negating
        // zero, however, still yields zero, so having a truthy `negate` in that scenario is OK.
        let negate = lhs_sgn.xor(rhs_sgn);
//@+
    proof { lemma_sign_mul(self.iv(), rhs.iv()); }
//@-
        (lo, hi, negate)
    }
}
//@@ end
//@@ fn src/int/mul.rs | impl<const LIMBS: usize> Int<LIMBS> | checked_square | body | props C13 C11
impl<const LIMBS: usize> Int<LIMBS> {
pub fn checked_square(&self) -> (ret__: ConstCtOption<Uint<LIMBS>>)
//@+
    requires LIMBS >= 1, 2 * LIMBS <= usize::MAX
    ensures ret__.is_some.wf(), ret__.is_some.t() == (self.iv() * self.iv() < bp(LIMBS as nat)),
        ret__.value.v() == (self.iv() * self.iv()) % bp(LIMBS as nat),
        ret__.is_some.t() ==> ret__.value.v() == self.iv() * self.iv()
//@-
{
//@+
    proof { lemma_sign_mul(self.iv(), self.iv()); }
//@-
        self.abs().checked_square()
    }
}
//@@ end
//@@ fn src/int/mul.rs | impl<const LIMBS: usize> Int<LIMBS> | wrapping_square | body | props C13 C11
impl<const LIMBS: usize> Int<LIMBS> {
pub const fn wrapping_square(&self) -> (ret__: Uint<LIMBS>)
//@+
    requires LIMBS >= 1, 2 * LIMBS <= usize::MAX
    ensures ret__.v() == (self.iv() * self.iv()) % bp(LIMBS as nat)
//@-
{
//@+
    proof { lemma_sign_mul(self.iv(), self.iv()); }
//@-
        self.abs().wrapping_square()
    }
}
//@@ end
//@@ fn src/int/mul.rs | impl<const LIMBS: usize> Int<LIMBS> | saturating_square | body | props C13 C11
impl<const LIMBS: usize> Int<LIMBS> {
pub const fn saturating_square(&self) -> (ret__: Uint<LIMBS>)
//@+
    requires LIMBS >= 1, 2 * LIMBS <= usize::MAX
    ensures ret__.v() == min_int(self.iv() * self.iv(), bp(LIMBS as nat) - 1)
//@-
{
//@+
    proof { lemma_sign_mul(self.iv(), self.iv()); }
//@-
        self.abs().saturating_square()
    }
}
//@@ end
//@@ fn src/int/mul_uint.rs | impl<const LIMBS: usize> Int<LIMBS> | split_mul_uint | body | props C13 C11
impl<const LIMBS: usize> Int<LIMBS> {
pub const fn split_mul_uint<const RHS_LIMBS: usize>(
        &self,
        rhs: &Uint<RHS_LIMBS>,
    ) -> (ret__: (Uint<{ LIMBS }>, Uint<{ RHS_LIMBS }>, ConstChoice))
//@+
    requires LIMBS >= 1, RHS_LIMBS >= 1, LIMBS + RHS_LIMBS <= usize::MAX
    ensures ret__.2.wf(), ret__.2.t() == (self.iv() < 0),
        ret__.0.v() + ret__.1.v() * bp(LIMBS as nat) == abs_i(self.iv()) * rhs.v(),
        (ret__.0.v() + ret__.1.v() * bp(LIMBS as nat)) * (if ret__.2.t() { -1int } else { 1int }) == self.iv() * rhs.v()
//@-
{
        // Step 1. split self into its sign and magnitude.
        let (lhs_abs, lhs_sgn) = self.abs_sign();
        // Step 2. Multiply the magnitudes
        let (lo, hi) = lhs_abs.split_mul(rhs);
        // Step 3. negate if and only if self has a negative sign.
//@+
    proof { lemma_sign_mul(self.iv(), rhs.v()); lemma_val_bound(rhs.limbs@, RHS_LIMBS as nat); }
//@-
        (lo, hi, lhs_sgn)
    }
}
//@@ end
//@@ fn src/int/mul_uint.rs | impl<const LIMBS: usize> Int<LIMBS> | split_mul_uint_right | body | props C13 C11
impl<const LIMBS: usize> Int<LIMBS> {
pub const fn split_mul_uint_right<const RHS_LIMBS: usize>(
        &self,
        rhs: &Uint<RHS_LIMBS>,
    ) -> (ret__: (Uint<{ RHS_LIMBS }>, Uint<{ LIMBS }>, ConstChoice))
//@+
    requires LIMBS >= 1, RHS_LIMBS >= 1, LIMBS + RHS_LIMBS <= usize::MAX
    ensures ret__.2.wf(), ret__.2.t() == (self.iv() < 0),
        ret__.0.v() + ret__.1.v() * bp(RHS_LIMBS as nat) == rhs.v() * abs_i(self.iv()),
        (ret__.0.v() + ret__.1.v() * bp(RHS_LIMBS as nat)) * (if ret__.2.t() { -1int } else { 1int }) == rhs.v() * self.iv()
//@-
{
        let (lhs_abs, lhs_sgn) = self.abs_sign();
        let (lo, hi) = rhs.split_mul(&lhs_abs);
//@+
    proof { lemma_sign_mul(rhs.v(), self.iv()); lemma_val_bound(rhs.limbs@, RHS_LIMBS as nat); }
//@-
        (lo, hi, lhs_sgn)
    }
}
//@@ end
//@@ fn src/non_zero.rs | impl<const LIMBS: usize> NonZero<Uint<LIMBS>> | new_unwrap | body | props C12 C11
impl<const LIMBS: usize> NonZero<Uint<LIMBS>> {
pub const fn new_unwrap(n: Uint<LIMBS>) -> (ret__: Self)
//@+
    requires n.v() != 0
    ensures ret__.0 == n
//@-
{
        if n.is_nonzero().is_true_vartime() {
            Self(n)
        } else {
            panic!("Invalid value: zero")
        }
    }
}
//@@ end
//@@ fn src/non_zero.rs | impl<const LIMBS: usize> NonZero<Int<LIMBS>> | abs_sign | body | props C14 C13 C11
impl<const LIMBS: usize> NonZero<Int<LIMBS>> {
pub const fn abs_sign(&self) -> (ret__: (NonZero<Uint<LIMBS>>, ConstChoice))
//@+
    requires LIMBS >= 1, self.0.iv() != 0
    ensures ret__.1.wf(), ret__.1.t() == (self.0.iv() < 0), ret__.0.0.v() == abs_i(self.0.iv()), 0 < ret__.0.0.v() <= ih(LIMBS as nat)
//@-
{
        let (abs, sign) = self.0.abs_sign();
        // Note: a NonZero<Int> always has a non-zero magnitude, so it is safe to unwrap.
        (NonZero::<Uint<LIMBS>>::new_unwrap(abs), sign)
    }
}
//@@ end
//@@ fn src/non_zero.rs | impl<T> Deref for NonZero<T> | deref | body | props C12 C11
impl<T> Deref for NonZero<T> {
//@+
    type Target = T;
//@-
fn deref(&self) -> (ret__: &T)
//@+
    ensures *ret__ == self.0
//@-
{
        &self.0
    }
}
//@@ end

} // verus!
