// L4: Bernstein-Yang safegcd (src/modular/safegcd.rs, `impl_limb_convert!` of src/modular/safegcd/macros.rs, one helper of
// src/modular/safegcd/boxed.rs) -- C10
//
// Everything of the fixed-width safegcd code is a `body` region (verified against its contract):
//   UnsatInt consts + add / mul / neg / shr / eq / is_negative / lowest / select / leading_zeros / bits / from_uint / to_uint,
//   the two instantiations of `impl_limb_convert!` (//@@ macroblock), inv_mod2_62, iterations, jump, fg, de, divsteps,
//   divsteps_vartime, SafeGcdInverter::new / norm / inv / inv_vartime / gcd / gcd_vartime, boxed::unsat_nlimbs_for_sat_nlimbs.
//
// Vocabulary: `UnsatInt::wf / uv / sv` (limbs <= 2^62 - 1; unsigned value; two's complement value), `wrap(v, n)` (representative
// of v mod 2^(62 n) in the signed range), `cong(a, b, m)`, `sg_gcd` (Euclid on nat; same definition as `gcd` of l4_invmod),
// `divstep` / `divsteps_n` / `tmat` (Bernstein-Yang division steps and their transition matrices, scaled by 2^n).
// `jump` is specified exactly: it returns (delta_62, tmat(62)) of the divsteps started at the LOW WORDS (delta, f[0], g[0]);
// `lemma_divsteps_congr` transfers this to every (F, G) congruent to the low words modulo 2^62 and `lemma_divsteps` gives
// tmat(62) (F, G) = 2^62 (F_62, G_62), oddness of F, gcd(F, G) and max(|F|, |G|) preserved.
//
// ASSUMED (complete list):
//  * `axiom_bernstein_yang_bound`: Theorem 11.2 of eprint 2019/266 (computer-assisted in the paper) -- external_body proof fn.
//    `divsteps` calls it with the round count m it computed; `divsteps_vartime` uses it (with d = 62 LIMBS) only for termination.
//  * `axiom_bernstein_yang_bound_even_f_odd_g`: EXTENSION of Theorem 11.2 to the start (1, f even, g odd) used by Uint::gcd
//    (second external_body proof fn, reported separately; see its comment).  Not used for f_0 = 0 (proved without any axiom).
//  * type-level: `impl_precompute_inverter_trait!` (src/uint/macros.rs) binds UNSAT_LIMBS = safegcd_nlimbs!(BITS) in the impls of
//    `PrecomputeInverter`, which Verus cannot see: the callers carry `sg_nlimbs_ok(SAT_LIMBS, UNSAT_LIMBS)` (l4_invmod: `sg_sizes`).
//  * `Uint::as_words` (stub: unsafe pointer cast, Limb is repr(transparent) over Word).
//  * core methods without vstd spec: `i128::trailing_zeros`, `usize::div_ceil` (assume_specification below).
//  * HAND COPIES (not re-extracted from /repo): the expression macro `safegcd_nlimbs!` (src/macros.rs) and the adapter
//    `impl_limb_convert!` that routes the two invocations to the two macroblock functions (see below).
//
// Domains: `jump` / `fg` / `de` / `norm` are total (safety does not depend on an odd f or on a valid `inverse`); their functional
// facts are conditional.  `divsteps(_vartime)`: f_0 odd | f_0 == 0 | g odd.  `inv(_vartime)`: modulus odd or 0 (`wf`); the
// facts hold for an odd modulus, for 0 only totality (+ value in {0, 1}).  `gcd(_vartime)`: f odd | g odd | f == g == 0.
// Size limits that appear as preconditions: UNSAT_LIMBS <= SG_MAX_UNSAT() = 1_413_748 (beyond it `iterations` overflows u32:
// 49 * bits + 80 with bits up to 62 * UNSAT_LIMBS), SAT_LIMBS <= 0x3ff_fffe (usize arithmetic of the limb conversion).
use vstd::prelude::*;
use vstd::arithmetic::power::*;
use vstd::arithmetic::power2::*;
use vstd::arithmetic::div_mod::*;
use vstd::arithmetic::mul::*;
use crate::speclib::*;
use crate::speclib_bits::*;
use crate::l0_prim::*;
use crate::l1_choice::*;
use crate::l1_limb::*;
use crate::l2_core::*;
use vstd::wrapping::u64_specs as wu;
use vstd::wrapping::i64_specs as wi;
use vstd::std_specs::bits::*;
use vstd::bits::*;

// HAND COPY of `safegcd_nlimbs!` (src/macros.rs:21-25): an expression macro, which neither `//@@ macrofn` (needs a fn in the
// arm) nor `//@@ macroblock` (needs a block transcriber) can extract. Used by `unsat_nlimbs_for_sat_nlimbs` below.
macro_rules! safegcd_nlimbs {
    ($bits:expr) => {
        ($bits + 64).div_ceil(62)
    };
}

// HAND-WRITTEN adapter (no counterpart in /repo): maps the two invocations of `impl_limb_convert!` inside
// `UnsatInt::from_uint` / `to_uint` to calls of the two functions that `//@@ macroblock` synthesizes from the macro's
// (only) arm in src/modular/safegcd/macros.rs (same places, passed by reference).
macro_rules! impl_limb_convert {
    (Word, $ib:expr, $input:expr, u64, 62, $output:expr) => {
        limb_convert_sat_to_unsat($input, &mut $output)
    };
    (u64, 62, $input:expr, Word, $ob:expr, $output:expr) => {
        limb_convert_unsat_to_sat($input, &mut $output)
    };
}

verus! {

// ---- core integer methods without a vstd specification (assumed, like the ones in speclib.rs)
/// number of trailing zero bits of the two's complement representation (128 for 0)
pub open spec fn i128_tz_ok(x: i128, r: u32) -> bool {
    r <= 128 && ((r == 128) == (x == 0))
    && (x != 0 ==> (x as int) % p2(r as nat) == 0 && ((x as int) / p2(r as nat)) % 2 == 1)
}
pub assume_specification [usize::div_ceil] (a: usize, b: usize) -> (r: usize)
    requires b > 0
    ensures r as int == (a as int + b as int - 1) / (b as int);
pub assume_specification [i128::trailing_zeros] (x: i128) -> (r: u32)
    ensures i128_tz_ok(x, r);


// ---- 62-bit unsaturated limbs: vocabulary
/// 2^62
pub open spec fn P62() -> int { 0x4000_0000_0000_0000 }
/// 2^(62 n)
pub open spec fn q62(n: nat) -> int { pow(P62(), n) }
/// little-endian value of the first n 62-bit limbs
pub open spec fn uval(s: Seq<u64>, n: nat) -> int
    decreases n
{ if n == 0 { 0 } else { uval(s, (n - 1) as nat) + s[n - 1] as int * q62((n - 1) as nat) } }
/// a ≡ b (mod m)
pub open spec fn cong(a: int, b: int, m: int) -> bool { (a - b) % m == 0 }
/// v fits the signed range of n 62-bit limbs: -2^(62n-1) <= v < 2^(62n-1)
pub open spec fn sfits(v: int, n: nat) -> bool { -q62(n) <= 2 * v < q62(n) }

//@@ item src/modular/safegcd.rs | type Matrix
pub type Matrix = [[i64; 2]; 2];
//@@ end
//@@ item src/modular/safegcd.rs | struct UnsatInt
#[derive(Clone, Copy)]
pub struct UnsatInt<const LIMBS: usize>(pub [u64; LIMBS]);
//@@ end

impl<const LIMBS: usize> UnsatInt<LIMBS> {
    /// every limb is a 62-bit value
    pub open spec fn wf(&self) -> bool {
        LIMBS >= 1 && forall|k: int| 0 <= k < LIMBS ==> #[trigger] self.0@[k] <= 0x3fff_ffff_ffff_ffffu64
    }
    /// unsigned value
    pub open spec fn uv(&self) -> int { uval(self.0@, LIMBS as nat) }
    /// 1 iff the two's complement value is negative
    pub open spec fn nb(&self) -> int { if 2 * self.uv() < q62(LIMBS as nat) { 0 } else { 1 } }
    /// signed (two's complement) value in [-2^(62L-1), 2^(62L-1))
    pub open spec fn sv(&self) -> int { self.uv() - self.nb() * q62(LIMBS as nat) }
}

// ---- lemmas: powers
pub proof fn lemma_q62_succ(n: nat)
    ensures q62(n + 1) == P62() * q62(n), q62(n) > 0, q62(0) == 1
{ reveal(pow); lemma_pow_positive(P62(), n); lemma_pow0(P62()); }

pub proof fn lemma_q62_ge(n: nat)
    requires n >= 1
    ensures q62(n) >= P62(), q62(n) == 2 * (0x2000_0000_0000_0000 * q62((n - 1) as nat))
{
    lemma_q62_succ((n - 1) as nat);
    let p = q62((n - 1) as nat);
    assert(P62() * p >= P62()) by (nonlinear_arith) requires p >= 1;
    assert(P62() * p == 2 * (0x2000_0000_0000_0000 * p)) by (nonlinear_arith);
}

pub proof fn lemma_q62_add(a: nat, b: nat)
    ensures q62(a + b) == q62(a) * q62(b)
{ lemma_pow_adds(P62(), a, b); }

pub proof fn sg_p2_pos(n: nat) ensures p2(n) > 0 { lemma_pow2_pos(n); }
pub proof fn sg_p2_add(a: nat, b: nat) ensures p2(a + b) == p2(a) * p2(b) { lemma_pow2_adds(a, b); }
pub proof fn sg_p2_succ(n: nat) ensures p2(n + 1) == 2 * p2(n), p2(0) == 1 { lemma_pow2_unfold(n + 1); lemma2_to64(); }
pub proof fn sg_p2_mono(a: nat, b: nat) requires a <= b ensures p2(a) <= p2(b)
{ if a < b { lemma_pow2_strictly_increases(a, b); } }

/// 2^(62 n) as a power of two
pub proof fn lemma_q62_pow2(n: nat)
    ensures q62(n) == p2(62 * n)
    decreases n
{
    lemma2_to64(); lemma2_to64_rest();
    if n == 0 { lemma_q62_succ(0); }
    else {
        lemma_q62_pow2((n - 1) as nat);
        lemma_q62_succ((n - 1) as nat);
        lemma_pow2_adds(62, (62 * (n - 1)) as nat);
        assert(62 + 62 * (n - 1) == 62 * n);
    }
}

// ---- lemmas: uval
pub proof fn lemma_uval_ext(s: Seq<u64>, t: Seq<u64>, n: nat)
    requires forall|k: int| 0 <= k < n ==> s[k] == t[k],
    ensures uval(s, n) == uval(t, n),
    decreases n
{ if n > 0 { lemma_uval_ext(s, t, (n - 1) as nat); } }

pub proof fn lemma_uval_bound(s: Seq<u64>, n: nat)
    requires forall|k: int| 0 <= k < n ==> #[trigger] s[k] <= 0x3fff_ffff_ffff_ffffu64,
    ensures 0 <= uval(s, n) < q62(n)
    decreases n
{
    lemma_q62_succ(0);
    if n > 0 {
        lemma_uval_bound(s, (n - 1) as nat);
        lemma_q62_succ((n - 1) as nat);
        let x = s[n - 1] as int; let p = q62((n - 1) as nat);
        assert(0 <= x * p <= (P62() - 1) * p) by (nonlinear_arith) requires 0 <= x <= P62() - 1, p > 0;
        assert((P62() - 1) * p == P62() * p - p) by (nonlinear_arith);
    }
}

pub proof fn lemma_uval_zero(s: Seq<u64>, n: nat)
    requires forall|k: int| 0 <= k < n ==> s[k] == 0,
    ensures uval(s, n) == 0,
    decreases n
{ if n > 0 { lemma_uval_zero(s, (n - 1) as nat); } }

pub proof fn lemma_uval_all_mask(s: Seq<u64>, n: nat)
    requires forall|k: int| 0 <= k < n ==> s[k] == 0x3fff_ffff_ffff_ffffu64,
    ensures uval(s, n) == q62(n) - 1,
    decreases n
{
    lemma_q62_succ(0);
    if n > 0 {
        lemma_uval_all_mask(s, (n - 1) as nat);
        lemma_q62_succ((n - 1) as nat);
        let p = q62((n - 1) as nat);
        assert((P62() - 1) * p == P62() * p - p) by (nonlinear_arith);
    }
}

/// injectivity on 62-bit limbs
pub proof fn lemma_uval_inj(s: Seq<u64>, t: Seq<u64>, n: nat)
    requires uval(s, n) == uval(t, n),
        forall|k: int| 0 <= k < n ==> #[trigger] s[k] <= 0x3fff_ffff_ffff_ffffu64,
        forall|k: int| 0 <= k < n ==> #[trigger] t[k] <= 0x3fff_ffff_ffff_ffffu64,
    ensures forall|k: int| 0 <= k < n ==> s[k] == t[k],
    decreases n
{
    if n > 0 {
        let m = (n - 1) as nat;
        lemma_uval_bound(s, m); lemma_uval_bound(t, m);
        let a = s[m as int] as int; let b = t[m as int] as int; let p = q62(m);
        assert(a == b) by (nonlinear_arith)
            requires uval(s, m) + a * p == uval(t, m) + b * p, 0 <= uval(s, m) < p, 0 <= uval(t, m) < p;
        lemma_uval_inj(s, t, m);
    }
}

/// uval(s, n) = s[0] + 2^62 * uval(s[1..], n-1)
pub proof fn lemma_uval_shift(s: Seq<u64>, n: nat)
    requires 1 <= n <= s.len()
    ensures uval(s, n) == s[0] as int + P62() * uval(s.subrange(1, s.len() as int), (n - 1) as nat)
    decreases n
{
    lemma_q62_succ(0);
    let t = s.subrange(1, s.len() as int);
    if n == 1 {
        assert(uval(s, 1) == uval(s, 0) + s[0] as int * q62(0));
        assert(uval(s, 0) == 0);
        assert(uval(t, 0) == 0);
    } else {
        let m = (n - 1) as nat;
        lemma_uval_shift(s, m);
        lemma_q62_succ((m - 1) as nat);
        assert(t[m - 1] == s[m as int]);
        let a = s[m as int] as int; let p = q62((m - 1) as nat);
        assert(uval(t, m) == uval(t, (m - 1) as nat) + a * p);
        assert(P62() * (uval(t, (m - 1) as nat) + a * p) == P62() * uval(t, (m - 1) as nat) + a * (P62() * p)) by (nonlinear_arith);
    }
}

/// top-limb split
pub proof fn lemma_uval_top(s: Seq<u64>, n: nat)
    requires n >= 1
    ensures uval(s, n) == uval(s, (n - 1) as nat) + s[n - 1] as int * q62((n - 1) as nat)
{ }


pub proof fn lemma_uval_one(s: Seq<u64>, n: nat)
    requires n >= 1, s[0] == 1, forall|k: int| 1 <= k < n ==> s[k] == 0
    ensures uval(s, n) == 1
    decreases n
{
    lemma_q62_succ(0);
    if n == 1 { assert(uval(s, 1) == uval(s, 0) + s[0] as int * q62(0)); assert(uval(s, 0) == 0); }
    else { lemma_uval_one(s, (n - 1) as nat); assert(s[n - 1] as int * q62((n - 1) as nat) == 0) by (nonlinear_arith) requires s[n - 1] == 0; }
}

/// one limb of a carry chain in radix 2^62
pub proof fn lemma_chain_step(r: int, c2: int, total: int, p: int)
    requires total == r + c2 * P62()
    ensures r * p + c2 * (P62() * p) == total * p
{
    assert((r + c2 * P62()) * p == r * p + c2 * (P62() * p)) by (nonlinear_arith);
}

/// the sign is decided by the top limb
pub proof fn lemma_top_sign(s: Seq<u64>, n: nat)
    requires n >= 1, forall|k: int| 0 <= k < n ==> #[trigger] s[k] <= 0x3fff_ffff_ffff_ffffu64
    ensures (2 * uval(s, n) >= q62(n)) == (s[n - 1] >= 0x2000_0000_0000_0000u64)
{
    let m = (n - 1) as nat;
    lemma_uval_bound(s, m); lemma_q62_succ(m);
    let t = s[n - 1] as int; let p = q62(m); let lo = uval(s, m);
    assert(s[n - 1] <= 0x3fff_ffff_ffff_ffffu64);
    if t >= 0x2000_0000_0000_0000 {
        assert(2 * (lo + t * p) >= P62() * p) by (nonlinear_arith) requires t >= 0x2000_0000_0000_0000, lo >= 0, p > 0;
    } else {
        assert(2 * (lo + t * p) < P62() * p) by (nonlinear_arith) requires t <= 0x1fff_ffff_ffff_ffff, 0 <= lo < p, p > 0;
    }
}


pub proof fn lemma_uval_hi_zero(s: Seq<u64>, m: nat, n: nat)
    requires m <= n, forall|k: int| m <= k < n ==> s[k] == 0
    ensures uval(s, n) == uval(s, m)
    decreases n - m
{
    if n > m {
        lemma_uval_hi_zero(s, m, (n - 1) as nat);
        assert(s[n - 1] as int * q62((n - 1) as nat) == 0) by (nonlinear_arith) requires s[n - 1] == 0;
    }
}

// ---- wrapping ops of core (vstd::wrapping specs) <-> bit-vector operators
pub proof fn lemma_wmul_bv(x: u64, y: u64) ensures wu::wrapping_mul(x, y) == mul(x, y)
{
    let r = wu::wrapping_mul(x, y);
    assert(r as int == (x as int * y as int) % 0x1_0000_0000_0000_0000);
    assert(r == mul(x, y)) by (bit_vector) requires r as int == (x as int * y as int) % 0x1_0000_0000_0000_0000;
}
pub proof fn lemma_wadd_bv(x: u64, y: u64) ensures wu::wrapping_add(x, y) == add(x, y)
{
    let r = wu::wrapping_add(x, y);
    assert(r == add(x, y)) by (bit_vector) requires r as int == (x as int + y as int) % 0x1_0000_0000_0000_0000;
}
pub proof fn lemma_wsub_bv(x: u64, y: u64) ensures wu::wrapping_sub(x, y) == sub(x, y)
{
    let r = wu::wrapping_sub(x, y);
    assert(r == sub(x, y)) by (bit_vector) requires r as int == (x as int - y as int) % 0x1_0000_0000_0000_0000;
}

/// Hurchalla / Newton iteration for the inverse modulo 2^64 (inv_mod2_62): y_k = 1 - x_k v and 2^(5 2^k) | y_k
pub proof fn lemma_hurchalla(v: u64, x0: u64, y0: u64, x1: u64, y1: u64, x2: u64, y2: u64, x3: u64, y3: u64, x4: u64, r: u64)
    requires v & 1 == 1, x0 == mul(v, 3) ^ 2, y0 == sub(1, mul(x0, v)),
        x1 == mul(x0, add(y0, 1)), y1 == mul(y0, y0),
        x2 == mul(x1, add(y1, 1)), y2 == mul(y1, y1),
        x3 == mul(x2, add(y2, 1)), y3 == mul(y2, y2),
        x4 == mul(x3, add(y3, 1)), r == x4 & 0x3fff_ffff_ffff_ffff
    ensures mul(r, v) & 0x3fff_ffff_ffff_ffff == 1
{
    assert(mul(x0, v) & 31 == 1) by (bit_vector) requires v & 1 == 1, x0 == mul(v, 3) ^ 2;
    assert(y0 & 31 == 0) by (bit_vector) requires mul(x0, v) & 31 == 1, y0 == sub(1, mul(x0, v));
    assert(y1 == sub(1, mul(x1, v))) by (bit_vector) requires y0 == sub(1, mul(x0, v)), x1 == mul(x0, add(y0, 1)), y1 == mul(y0, y0);
    assert(y2 == sub(1, mul(x2, v))) by (bit_vector) requires y1 == sub(1, mul(x1, v)), x2 == mul(x1, add(y1, 1)), y2 == mul(y1, y1);
    assert(y3 == sub(1, mul(x3, v))) by (bit_vector) requires y2 == sub(1, mul(x2, v)), x3 == mul(x2, add(y2, 1)), y3 == mul(y2, y2);
    assert(mul(y3, y3) == sub(1, mul(x4, v))) by (bit_vector) requires y3 == sub(1, mul(x3, v)), x4 == mul(x3, add(y3, 1));
    assert(y1 & 0x3ff == 0) by (bit_vector) requires y0 & 31 == 0, y1 == mul(y0, y0);
    assert(y2 & 0xf_ffff == 0) by (bit_vector) requires y1 & 0x3ff == 0, y2 == mul(y1, y1);
    assert(y3 & 0xff_ffff_ffff == 0) by (bit_vector) requires y2 & 0xf_ffff == 0, y3 == mul(y2, y2);
    assert(mul(y3, y3) == 0) by (bit_vector) requires y3 & 0xff_ffff_ffff == 0;
    assert(mul(x4, v) == 1) by (bit_vector) requires 0 == sub(1, mul(x4, v));
    assert(mul(r, v) & 0x3fff_ffff_ffff_ffff == 1) by (bit_vector) requires mul(x4, v) == 1, r == x4 & 0x3fff_ffff_ffff_ffff;
}

/// (r *_64 v) & (2^62 - 1) == 1  ==>  r v ≡ 1 (mod 2^62)
pub proof fn lemma_mulmask_mod(r: u64, v: u64)
    requires mul(r, v) & 0x3fff_ffff_ffff_ffff == 1
    ensures (v as int * r as int) % P62() == 1
{
    let m = mul(r, v);
    lemma_wmul_bv(r, v);
    assert(m as int == (r as int * v as int) % 0x1_0000_0000_0000_0000);
    assert(m % 0x4000_0000_0000_0000u64 == 1) by (bit_vector) requires m & 0x3fff_ffff_ffff_ffff == 1;
    lemma_mod_mod(r as int * v as int, P62(), 4);
    assert(r as int * v as int == v as int * r as int) by (nonlinear_arith);
}

/// number of 62-divstep rounds of Figure 11.1 of eprint 2019/266 (`iterations`)
pub open spec fn sg_iterations(d: int) -> int { (49 * d + (if d < 46 { 80int } else { 57int })) / 17 }

// ---- lemmas: signed value

/// the representative of v modulo 2^(62 n) in the signed range of n limbs (two's complement wrap-around)
pub open spec fn wrap(v: int, n: nat) -> int {
    let r = v % q62(n);
    if 2 * r < q62(n) { r } else { r - q62(n) }
}

pub proof fn lemma_wrap_props(v: int, n: nat)
    requires n >= 1
    ensures cong(wrap(v, n), v, q62(n)), sfits(wrap(v, n), n)
{
    let q = q62(n);
    lemma_q62_ge(n);
    lemma_fundamental_div_mod(v, q);
    let k = v / q; let r = v % q;
    lemma_mod_bound(v, q);
    if 2 * r < q {
        assert(r - v == (-k) * q) by (nonlinear_arith) requires v == q * k + r;
        lemma_cong_mult(r, v, -k, q);
    } else {
        assert((r - q) - v == (-k - 1) * q) by (nonlinear_arith) requires v == q * k + r;
        lemma_cong_mult(r - q, v, -k - 1, q);
    }
}

pub proof fn lemma_cong_sym(a: int, b: int, m: int)
    requires m > 0, cong(a, b, m)
    ensures cong(b, a, m)
{
    let k = lemma_cong_wit(a, b, m);
    lemma_cong_mult(a, b, k, m);
}

/// two values in the signed range that are congruent modulo 2^(62 n) are equal
pub proof fn lemma_cong_fits_eq(a: int, b: int, n: nat)
    requires n >= 1, cong(a, b, q62(n)), sfits(a, n), sfits(b, n)
    ensures a == b
{
    let q = q62(n);
    lemma_q62_ge(n);
    let k = lemma_cong_wit(a, b, q);
    assert(k == 0) by (nonlinear_arith) requires a - b == k * q, -q <= 2 * a < q, -q <= 2 * b < q, q > 0;
}

pub proof fn lemma_wrap_unique(x: int, v: int, n: nat)
    requires n >= 1, sfits(x, n), cong(x, v, q62(n))
    ensures x == wrap(v, n)
{
    lemma_q62_ge(n);
    lemma_wrap_props(v, n);
    lemma_cong_sym(wrap(v, n), v, q62(n));
    lemma_cong_trans(x, v, wrap(v, n), q62(n));
    lemma_cong_fits_eq(x, wrap(v, n), n);
}

pub proof fn lemma_cong_add(a: int, b: int, c: int, d: int, m: int)
    requires m > 0, cong(a, b, m), cong(c, d, m)
    ensures cong(a + c, b + d, m)
{
    lemma_cong_lin(a, b, c, d, 1, m);
    assert(a + 1 * c == a + c && b + 1 * d == b + d);
}

/// wrap(wrap(a) + wrap(b)) == a + b when the sum fits
pub proof fn lemma_wrap2(a: int, b: int, n: nat)
    requires n >= 1, sfits(a + b, n)
    ensures wrap(wrap(a, n) + wrap(b, n), n) == a + b
{
    let q = q62(n);
    lemma_q62_ge(n);
    lemma_wrap_props(a, n); lemma_wrap_props(b, n);
    lemma_cong_add(wrap(a, n), a, wrap(b, n), b, q);
    let s = wrap(a, n) + wrap(b, n);
    lemma_wrap_props(s, n);
    lemma_cong_trans(wrap(s, n), s, a + b, q);
    lemma_cong_fits_eq(wrap(s, n), a + b, n);
}

/// wrap(wrap(wrap(a) + wrap(b)) + wrap(c)) == a + b + c when the sum fits (intermediate sums may wrap)
pub proof fn lemma_wrap3(a: int, b: int, c: int, n: nat)
    requires n >= 1, sfits(a + b + c, n)
    ensures wrap(wrap(wrap(a, n) + wrap(b, n), n) + wrap(c, n), n) == a + b + c
{
    let q = q62(n);
    lemma_q62_ge(n);
    lemma_wrap_props(a, n); lemma_wrap_props(b, n); lemma_wrap_props(c, n);
    lemma_cong_add(wrap(a, n), a, wrap(b, n), b, q);
    let s = wrap(a, n) + wrap(b, n);
    lemma_wrap_props(s, n);
    lemma_cong_trans(wrap(s, n), s, a + b, q);
    lemma_cong_add(wrap(s, n), a + b, wrap(c, n), c, q);
    let s2 = wrap(s, n) + wrap(c, n);
    lemma_wrap_props(s2, n);
    lemma_cong_trans(wrap(s2, n), s2, a + b + c, q);
    lemma_cong_fits_eq(wrap(s2, n), a + b + c, n);
}

impl<const LIMBS: usize> UnsatInt<LIMBS> {
    /// range of uv / sv
    pub proof fn lemma_range(&self)
        requires self.wf()
        ensures 0 <= self.uv() < q62(LIMBS as nat), sfits(self.sv(), LIMBS as nat), q62(LIMBS as nat) >= P62(),
            self.sv() == self.uv() - self.nb() * q62(LIMBS as nat), 0 <= self.nb() <= 1,
            (self.nb() == 1) == (self.sv() < 0),
    {
        lemma_uval_bound(self.0@, LIMBS as nat);
        lemma_q62_ge(LIMBS as nat);
        let q = q62(LIMBS as nat);
        assert(1 * q == q);
        assert(0 * q == 0);
    }

    /// the signed value is determined by the unsigned value modulo 2^(62 L):  uv == target + k q
    pub proof fn lemma_sv_from(&self, target: int, k: int)
        requires self.wf(), self.uv() == target + k * q62(LIMBS as nat)
        ensures cong(self.sv(), target, q62(LIMBS as nat)), sfits(target, LIMBS as nat) ==> self.sv() == target,
            self.sv() == wrap(target, LIMBS as nat)
    {
        self.lemma_range();
        let q = q62(LIMBS as nat); let n = self.nb();
        assert(self.sv() - target == (k - n) * q) by (nonlinear_arith)
            requires self.sv() == self.uv() - n * q, self.uv() == target + k * q;
        lemma_mod_multiples_basic(k - n, q);
        if sfits(target, LIMBS as nat) {
            assert(k - n == 0) by (nonlinear_arith)
                requires self.sv() - target == (k - n) * q, -q <= 2 * self.sv() < q, -q <= 2 * target < q, q > 0;
        }
        lemma_cong_mult(self.sv(), target, k - n, q);
        lemma_wrap_unique(self.sv(), target, LIMBS as nat);
    }
}

pub proof fn lemma_cong_trans(a: int, b: int, c: int, m: int)
    requires m > 0, cong(a, b, m), cong(b, c, m)
    ensures cong(a, c, m)
{
    lemma_fundamental_div_mod(a - b, m); lemma_fundamental_div_mod(b - c, m);
    let k1 = (a - b) / m; let k2 = (b - c) / m;
    assert(a - c == (k1 + k2) * m) by (nonlinear_arith) requires a - b == m * k1 + 0, b - c == m * k2 + 0;
    lemma_mod_multiples_basic(k1 + k2, m);
}

pub proof fn lemma_cong_mult(a: int, b: int, k: int, m: int)
    requires m > 0, a - b == k * m
    ensures cong(a, b, m), cong(b, a, m)
{
    lemma_mod_multiples_basic(k, m);
    assert(b - a == (-k) * m) by (nonlinear_arith) requires a - b == k * m;
    lemma_mod_multiples_basic(-k, m);
}

/// cong means: differ by a multiple
pub proof fn lemma_cong_wit(a: int, b: int, m: int) -> (k: int)
    requires m > 0, cong(a, b, m)
    ensures a - b == k * m
{
    lemma_fundamental_div_mod(a - b, m);
    let k = (a - b) / m;
    assert(m * k == k * m) by (nonlinear_arith);
    k
}



// ================================================================ inverter vocabulary
/// `LIMBS == safegcd_nlimbs!(64 * SAT_LIMBS)`: the least n with 62 n >= 64 sat + 64
pub open spec fn sg_nlimbs_ok(sat: int, unsat: int) -> bool { 62 * unsat >= 64 * sat + 64 && 62 * (unsat - 1) < 64 * sat + 64 }
/// largest limb count for which `iterations` (u32 arithmetic: 49 * bits + 80) does not overflow
pub open spec fn SG_MAX_UNSAT() -> int { 1_413_748 }

//@@ item src/modular/safegcd.rs | struct SafeGcdInverter
#[derive(Clone)]
pub struct SafeGcdInverter<const SAT_LIMBS: usize, const UNSAT_LIMBS: usize> {
    pub modulus: UnsatInt<UNSAT_LIMBS>,
    pub adjuster: UnsatInt<UNSAT_LIMBS>,
    pub inverse: i64,
}
//@@ end

impl<const SAT_LIMBS: usize, const UNSAT_LIMBS: usize> SafeGcdInverter<SAT_LIMBS, UNSAT_LIMBS> {
    pub open spec fn m(&self) -> int { self.modulus.sv() }
    pub open spec fn wf(&self) -> bool {
        &&& SAT_LIMBS >= 1 && sg_nlimbs_ok(SAT_LIMBS as int, UNSAT_LIMBS as int) && UNSAT_LIMBS <= SG_MAX_UNSAT()
        &&& self.modulus.wf() && self.adjuster.wf()
        // the modulus is odd, or 0 (Uint::inv_mod builds the inverter for the odd part of a zero modulus; the result is discarded)
        &&& 0 <= self.m() < bp(SAT_LIMBS as nat) && (self.m() % 2 == 1 || self.m() == 0)
        &&& 0 <= self.adjuster.sv() && (self.m() % 2 == 1 ==> self.adjuster.sv() <= self.m()) && (self.m() == 0 ==> self.adjuster.sv() <= 1)
        &&& 0 <= self.inverse < 0x4000_0000_0000_0000 && (self.m() % 2 == 1 ==> (self.m() * self.inverse as int) % P62() == 1)
    }
}

/// m ≡ l0 (mod 2^64), l0 iv ≡ 1 (mod 2^62)  ==>  m iv ≡ 1 (mod 2^62)
pub proof fn lemma_low_inverse(mv: int, l0: int, iv: int)
    requires mv % B() == l0, (l0 * iv) % P62() == 1
    ensures (mv * iv) % P62() == 1
{
    lemma_fundamental_div_mod(mv, B());
    let k = mv / B();
    assert(mv * iv == P62() * (4 * k * iv) + l0 * iv) by (nonlinear_arith) requires mv == B() * k + l0;
    lemma_mod_multiples_vanish(4 * k * iv, l0 * iv, P62());
}

/// 64-bit limbs <-> 62-bit limbs: 2^(64 s) * 2^64 <= 2^(62 u)
pub proof fn lemma_nlimbs_room(sat: nat, unsat: nat)
    requires 62 * unsat >= 64 * sat + 64
    ensures bp(sat) * B() <= q62(unsat), bp(sat) > 0
{
    lemma_bp_pow2(sat); lemma_q62_pow2(unsat); lemma_pow2_64();
    sg_p2_add(64 * sat, 64);
    sg_p2_mono(64 * sat + 64, 62 * unsat);
    sg_p2_pos(64 * sat);
}

// ================================================================ gcd (Euclid on nat) and divisibility
pub open spec fn sg_gcd(a: nat, b: nat) -> nat
    decreases b
{ if b == 0 { a } else { sg_gcd(b, a % b) } }
pub open spec fn iabs(x: int) -> nat { if x < 0 { (-x) as nat } else { x as nat } }
/// gcd of two integers (of their absolute values)
pub open spec fn igcd(a: int, b: int) -> nat { sg_gcd(iabs(a), iabs(b)) }
/// d divides x
pub open spec fn dvd(d: int, x: int) -> bool { x % d == 0 }
/// d divides both a and b
pub open spec fn cdiv(d: int, a: int, b: int) -> bool { a % d == 0 && b % d == 0 }

/// (x + k y) mod d == x mod d when d | y
pub proof fn lemma_mod_add_mult(d: int, x: int, y: int, k: int)
    requires d > 0, y % d == 0
    ensures (x + k * y) % d == x % d
{
    lemma_fundamental_div_mod(y, d);
    let q = y / d;
    assert(k * y == d * (k * q)) by (nonlinear_arith) requires y == d * q + 0;
    lemma_mod_multiples_vanish(k * q, x, d);
}

pub proof fn lemma_divides_neg(d: int, x: int)
    requires d > 0
    ensures (x % d == 0) == ((-x) % d == 0), (x % d == 0) == ((iabs(x) as int) % d == 0)
{
    if x % d == 0 { lemma_mod_add_mult(d, 0, x, -1); assert(0 + (-1) * x == -x); lemma_small_mod(0, d as nat); }
    if (-x) % d == 0 { lemma_mod_add_mult(d, 0, -x, -1); assert(0 + (-1) * (-x) == x); lemma_small_mod(0, d as nat); }
}

/// d | x, x > 0  ==>  d <= x
pub proof fn lemma_divides_le(d: int, x: int)
    requires d > 0, x > 0, x % d == 0
    ensures d <= x
{
    if x < d { lemma_small_mod(x as nat, d as nat); }
}

/// universal property of Euclid's gcd
pub proof fn lemma_gcd_univ(a: nat, b: nat, d: int)
    requires d > 0
    ensures cdiv(d, a as int, b as int) == ((sg_gcd(a, b) as int) % d == 0)
    decreases b
{
    if b == 0 {
        lemma_small_mod(0, d as nat);
    } else {
        lemma_gcd_univ(b, a % b, d);
        lemma_fundamental_div_mod(a as int, b as int);
        let q = (a as int) / (b as int); let r = (a % b) as int;
        assert(a as int == r + q * b as int) by (nonlinear_arith) requires a as int == b as int * q + r;
        if (b as int) % d == 0 {
            lemma_mod_add_mult(d, r, b as int, q);
        }
    }
}

/// two integer pairs with the same common divisors have the same gcd
pub proof fn lemma_igcd_eq(a: int, b: int, a2: int, b2: int)
    requires forall|d: int| d > 0 ==> (#[trigger] cdiv(d, a, b)) == cdiv(d, a2, b2)
    ensures igcd(a, b) == igcd(a2, b2)
{
    let g1 = igcd(a, b) as int; let g2 = igcd(a2, b2) as int;
    assert forall|d: int| d > 0 implies (#[trigger] dvd(d, g1)) == dvd(d, g2) by {
        lemma_gcd_univ(iabs(a), iabs(b), d); lemma_gcd_univ(iabs(a2), iabs(b2), d);
        lemma_divides_neg(d, a); lemma_divides_neg(d, b); lemma_divides_neg(d, a2); lemma_divides_neg(d, b2);
        assert(cdiv(d, a, b) == cdiv(d, a2, b2));
    }
    if g1 > 0 && g2 > 0 {
        lemma_mod_self_0(g1); lemma_mod_self_0(g2);
        assert(dvd(g1, g1) == dvd(g1, g2));
        assert(dvd(g2, g1) == dvd(g2, g2));
        lemma_divides_le(g1, g2); lemma_divides_le(g2, g1);
    } else if g1 == 0 {
        let d = g2 + 1;
        lemma_small_mod(0, d as nat); lemma_small_mod(g2 as nat, d as nat);
        assert(dvd(d, g1) == dvd(d, g2));
    } else {
        let d = g1 + 1;
        lemma_small_mod(0, d as nat); lemma_small_mod(g1 as nat, d as nat);
        assert(dvd(d, g1) == dvd(d, g2));
    }
}

pub proof fn lemma_igcd_sym(a: int, b: int)
    ensures igcd(a, b) == igcd(b, a)
{
    assert forall|d: int| d > 0 implies (#[trigger] cdiv(d, a, b)) == cdiv(d, b, a) by { }
    lemma_igcd_eq(a, b, b, a);
}

/// an odd d dividing 2h divides h
pub proof fn lemma_odd_div_half(d: int, h: int)
    requires d > 0, d % 2 == 1, (2 * h) % d == 0
    ensures h % d == 0
{
    lemma_fundamental_div_mod(2 * h, d);
    let m = (2 * h) / d;
    assert(2 * h == d * m);
    if m % 2 != 0 {
        let i = d / 2; let j = m / 2;
        assert(d == 2 * i + 1 && m == 2 * j + 1);
        assert(d * m == 2 * (2 * i * j + i + j) + 1) by (nonlinear_arith) requires d == 2 * i + 1, m == 2 * j + 1;
        assert(false);
    }
    let j = m / 2;
    assert(m == 2 * j);
    assert(h == j * d) by (nonlinear_arith) requires 2 * h == d * m, m == 2 * j;
    lemma_mod_multiples_basic(j, d);
}

/// a divisor of an odd number is odd
pub proof fn lemma_div_of_odd(d: int, f: int)
    requires d > 0, f % 2 == 1, f % d == 0
    ensures d % 2 == 1
{
    lemma_fundamental_div_mod(f, d);
    let q = f / d;
    if d % 2 == 0 {
        let i = d / 2;
        assert(d == 2 * i);
        assert(f == 2 * (i * q)) by (nonlinear_arith) requires f == d * q + 0, d == 2 * i;
        assert(false);
    }
}

/// f odd, 2h = g + c f  ==>  gcd(f, h) = gcd(f, g)
pub proof fn lemma_igcd_half(f: int, g: int, c: int, h: int)
    requires f % 2 == 1, 2 * h == g + c * f
    ensures igcd(f, h) == igcd(f, g)
{
    assert forall|d: int| d > 0 implies (#[trigger] cdiv(d, f, h)) == cdiv(d, f, g) by {
        if f % d == 0 {
            lemma_div_of_odd(d, f);
            lemma_mod_add_mult(d, g, f, c);       // (g + c f) % d == g % d
            lemma_mod_add_mult(d, 2 * h, f, -c);  // (2h - c f) % d == (2h) % d
            assert(2 * h + (-c) * f == g) by (nonlinear_arith) requires 2 * h == g + c * f;
            if g % d == 0 { lemma_odd_div_half(d, h); }
            if h % d == 0 { lemma_mod_add_mult(d, 0, h, 2); assert(0 + 2 * h == 2 * h); lemma_small_mod(0, d as nat); }
        }
    }
    lemma_igcd_eq(f, h, f, g);
}

/// gcd(m, x) = 1 is necessary for an inverse:  d | m, d | x, x y ≡ 1 (mod m) ==> d = 1   (not needed for the decision, kept for reference)

// ================================================================ Bernstein-Yang divsteps (eprint 2019/266, section 8)
/// one division step on (delta, f, g), f odd
pub open spec fn divstep(s: (int, int, int)) -> (int, int, int) {
    if s.0 > 0 && s.2 % 2 != 0 { (1 - s.0, s.2, (s.2 - s.1) / 2) }
    else { (1 + s.0, s.1, (s.2 + (s.2 % 2) * s.1) / 2) }
}
pub open spec fn divsteps_n(n: nat, s: (int, int, int)) -> (int, int, int)
    decreases n
{ if n == 0 { s } else { divstep(divsteps_n((n - 1) as nat, s)) } }
/// transition matrix of n steps, times 2^n:   2^n (f_n, g_n) = tmat(n) (f, g)
/// (one step: swap [[0, 2], [-1, 1]], g even [[2, 0], [0, 1]], g odd without swap [[2, 0], [1, 1]])
pub open spec fn tmat(n: nat, s: (int, int, int)) -> (int, int, int, int)
    decreases n
{
    if n == 0 { (1, 0, 0, 1) } else {
        let c = divsteps_n((n - 1) as nat, s); let t = tmat((n - 1) as nat, s);
        if c.0 > 0 && c.2 % 2 != 0 { (2 * t.2, 2 * t.3, t.2 - t.0, t.3 - t.1) }
        else if c.2 % 2 == 0 { (2 * t.0, 2 * t.1, t.2, t.3) }
        else { (2 * t.0, 2 * t.1, t.0 + t.2, t.1 + t.3) }
    }
}
pub open spec fn ab(x: int) -> int { if x < 0 { -x } else { x } }

/// one step: f stays odd, gcd(f, g) and the bound max(|f|, |g|) are preserved, the halving is exact
pub proof fn lemma_divstep(s: (int, int, int), bnd: int)
    requires s.1 % 2 == 1, ab(s.1) <= bnd, ab(s.2) <= bnd
    ensures
        divstep(s).1 % 2 == 1, igcd(divstep(s).1, divstep(s).2) == igcd(s.1, s.2),
        ab(divstep(s).1) <= bnd, ab(divstep(s).2) <= bnd,
        (s.0 > 0 && s.2 % 2 != 0) ==> divstep(s) == (1 - s.0, s.2, (s.2 - s.1) / 2) && 2 * divstep(s).2 == s.2 - s.1,
        !(s.0 > 0 && s.2 % 2 != 0) && s.2 % 2 == 0 ==> divstep(s) == (1 + s.0, s.1, s.2 / 2) && 2 * divstep(s).2 == s.2,
        !(s.0 > 0 && s.2 % 2 != 0) && s.2 % 2 != 0 ==> divstep(s) == (1 + s.0, s.1, (s.2 + s.1) / 2) && 2 * divstep(s).2 == s.2 + s.1,
{
    let f = s.1; let g = s.2;
    if s.0 > 0 && g % 2 != 0 {
        let h = (g - f) / 2;
        assert(2 * h == g - f);
        // gcd(g, h) = gcd(g, -f) = gcd(g, f) = gcd(f, g)
        assert(2 * h == (-f) + 1 * g);
        lemma_igcd_half(g, -f, 1, h);
        assert(igcd(g, -f) == igcd(g, f));
        lemma_igcd_sym(g, f);
    } else {
        let b = g % 2;
        let h = (g + b * f) / 2;
        assert(b * f == if b == 0 { 0 } else { f }) by (nonlinear_arith) requires b == 0 || b == 1;
        assert(2 * h == g + b * f);
        lemma_igcd_half(f, g, b, h);
    }
}

/// (a x + b y) for row updates: distributivity, isolated
pub proof fn lemma_row_lin(a: int, b: int, c: int, d: int, f: int, g: int)
    ensures (a + c) * f + (b + d) * g == (a * f + b * g) + (c * f + d * g),
        (a - c) * f + (b - d) * g == (a * f + b * g) - (c * f + d * g),
        (2 * a) * f + (2 * b) * g == 2 * (a * f + b * g),
{
    assert((a + c) * f + (b + d) * g == (a * f + b * g) + (c * f + d * g)) by (nonlinear_arith);
    assert((a - c) * f + (b - d) * g == (a * f + b * g) - (c * f + d * g)) by (nonlinear_arith);
    assert((2 * a) * f + (2 * b) * g == 2 * (a * f + b * g)) by (nonlinear_arith);
}

/// n steps: oddness, gcd, bound; the matrix is exact and its rows have absolute sum <= 2^n
pub proof fn lemma_divsteps(n: nat, s: (int, int, int), bnd: int)
    requires s.1 % 2 == 1, ab(s.1) <= bnd, ab(s.2) <= bnd
    ensures
        divsteps_n(n, s).1 % 2 == 1, igcd(divsteps_n(n, s).1, divsteps_n(n, s).2) == igcd(s.1, s.2),
        ab(divsteps_n(n, s).1) <= bnd, ab(divsteps_n(n, s).2) <= bnd,
        tmat(n, s).0 * s.1 + tmat(n, s).1 * s.2 == p2(n) * divsteps_n(n, s).1,
        tmat(n, s).2 * s.1 + tmat(n, s).3 * s.2 == p2(n) * divsteps_n(n, s).2,
        ab(tmat(n, s).0) + ab(tmat(n, s).1) <= p2(n), ab(tmat(n, s).2) + ab(tmat(n, s).3) <= p2(n),
    decreases n
{
    sg_p2_succ(0);
    if n > 0 {
        let m = (n - 1) as nat;
        lemma_divsteps(m, s, bnd);
        let c = divsteps_n(m, s); let t = tmat(m, s); let r = divstep(c);
        lemma_divstep(c, bnd);
        sg_p2_succ(m);
        let f = s.1; let g = s.2; let pm = p2(m);
        let t0 = t.0; let t1 = t.1; let t2 = t.2; let t3 = t.3;
        let x = t0 * f + t1 * g; let y = t2 * f + t3 * g;
        assert(x == pm * c.1 && y == pm * c.2);
        lemma_row_lin(t0, t1, t2, t3, f, g);
        lemma_row_lin(t2, t3, t0, t1, f, g);
        let r1 = r.1; let r2 = r.2; let c1 = c.1; let c2 = c.2;
        assert((2 * pm) * r1 == 2 * (pm * r1) && (2 * pm) * r2 == pm * (2 * r2)) by (nonlinear_arith);
        let tn = tmat(n, s); let pn = p2(n);
        assert(pn == 2 * pm);
        assert(divsteps_n(n, s) == r);
        if c.0 > 0 && c.2 % 2 != 0 {
            assert(tn == (2 * t2, 2 * t3, t2 - t0, t3 - t1));
            assert(pm * (c2 - c1) == pm * c2 - pm * c1) by (nonlinear_arith);
            assert(r1 == c2 && 2 * r2 == c2 - c1);
            assert(tn.0 * f + tn.1 * g == 2 * y);
            assert(tn.2 * f + tn.3 * g == y - x);
            assert(pn * r1 == 2 * (pm * c2));
            assert(pn * r2 == pm * (c2 - c1));
        } else if c.2 % 2 == 0 {
            assert(tn == (2 * t0, 2 * t1, t2, t3));
            assert(r1 == c1 && 2 * r2 == c2);
            assert(tn.0 * f + tn.1 * g == 2 * x);
            assert(pn * r1 == 2 * (pm * c1));
            assert(pn * r2 == pm * c2);
        } else {
            assert(tn == (2 * t0, 2 * t1, t0 + t2, t1 + t3));
            assert(pm * (c2 + c1) == pm * c2 + pm * c1) by (nonlinear_arith);
            assert(r1 == c1 && 2 * r2 == c2 + c1);
            assert(tn.0 * f + tn.1 * g == 2 * x);
            assert(tn.2 * f + tn.3 * g == x + y);
            assert(pn * r1 == 2 * (pm * c1));
            assert(pn * r2 == pm * (c2 + c1));
        }
    } else {
        let p0 = p2(0); let f = s.1; let g = s.2;
        assert(p0 * f == f && p0 * g == g && 1 * f + 0 * g == f && 0 * f + 1 * g == g) by (nonlinear_arith) requires p0 == 1;
    }
}

pub proof fn lemma_divsteps_add(a: nat, b: nat, s: (int, int, int))
    ensures divsteps_n(a + b, s) == divsteps_n(b, divsteps_n(a, s))
    decreases b
{
    if b > 0 {
        lemma_divsteps_add(a, (b - 1) as nat, s);
        assert((a + b - 1) as nat == a + (b - 1) as nat);
    }
}

/// once g = 0 it stays 0 and f does not change
pub proof fn lemma_divsteps_g_zero(n: nat, s: (int, int, int))
    requires s.2 == 0
    ensures divsteps_n(n, s).2 == 0, divsteps_n(n, s).1 == s.1
    decreases n
{
    if n > 0 {
        lemma_divsteps_g_zero((n - 1) as nat, s);
        let c = divsteps_n((n - 1) as nat, s);
        assert(0 * c.1 == 0);
    }
}

/// same parity from a congruence modulo 2^j, j >= 1
pub proof fn lemma_cong_parity(x: int, y: int, j: nat)
    requires j >= 1, cong(x, y, p2(j))
    ensures x % 2 == y % 2
{
    sg_p2_pos(j); sg_p2_succ((j - 1) as nat);
    let k = lemma_cong_wit(x, y, p2(j));
    let h = p2((j - 1) as nat);
    assert(x == y + 2 * (k * h)) by (nonlinear_arith) requires x - y == k * p2(j), p2(j) == 2 * h;
    lemma_mod_add_mult(2, y, 2, k * h);
    assert(y + (k * h) * 2 == x);
}

/// halving two congruent even numbers
pub proof fn lemma_cong_half(x: int, y: int, j: nat)
    requires j >= 1, cong(x, y, p2(j)), x % 2 == 0, y % 2 == 0
    ensures cong(x / 2, y / 2, p2((j - 1) as nat))
{
    sg_p2_pos(j); sg_p2_pos((j - 1) as nat); sg_p2_succ((j - 1) as nat);
    let k = lemma_cong_wit(x, y, p2(j));
    let h = p2((j - 1) as nat);
    assert(x / 2 - y / 2 == k * h) by (nonlinear_arith)
        requires x - y == k * p2(j), p2(j) == 2 * h, x == 2 * (x / 2), y == 2 * (y / 2);
    lemma_cong_mult(x / 2, y / 2, k, h);
}

pub proof fn lemma_cong_weaken(x: int, y: int, j: nat)
    requires j >= 1, cong(x, y, p2(j))
    ensures cong(x, y, p2((j - 1) as nat))
{
    sg_p2_pos(j); sg_p2_pos((j - 1) as nat); sg_p2_succ((j - 1) as nat);
    let k = lemma_cong_wit(x, y, p2(j));
    let h = p2((j - 1) as nat);
    assert(x - y == (2 * k) * h) by (nonlinear_arith) requires x - y == k * p2(j), p2(j) == 2 * h;
    lemma_cong_mult(x, y, 2 * k, h);
}

/// linear combinations of congruences
pub proof fn lemma_cong_lin(x1: int, y1: int, x2: int, y2: int, b: int, m: int)
    requires m > 0, cong(x1, y1, m), cong(x2, y2, m)
    ensures cong(x1 + b * x2, y1 + b * y2, m)
{
    let k1 = lemma_cong_wit(x1, y1, m); let k2 = lemma_cong_wit(x2, y2, m);
    assert((x1 + b * x2) - (y1 + b * y2) == (k1 + b * k2) * m) by (nonlinear_arith)
        requires x1 - y1 == k1 * m, x2 - y2 == k2 * m;
    lemma_cong_mult(x1 + b * x2, y1 + b * y2, k1 + b * k2, m);
}

/// one step on two states that agree modulo 2^j
pub proof fn lemma_divstep_congr(c: (int, int, int), e: (int, int, int), j: nat)
    requires j >= 1, c.0 == e.0, c.1 % 2 == 1, e.1 % 2 == 1, cong(c.1, e.1, p2(j)), cong(c.2, e.2, p2(j))
    ensures
        c.2 % 2 == e.2 % 2, divstep(c).0 == divstep(e).0,
        cong(divstep(c).1, divstep(e).1, p2((j - 1) as nat)), cong(divstep(c).2, divstep(e).2, p2((j - 1) as nat)),
        divstep(c).1 % 2 == 1, divstep(e).1 % 2 == 1,
{
    sg_p2_pos(j);
    lemma_cong_parity(c.2, e.2, j);
    lemma_cong_weaken(c.1, e.1, j); lemma_cong_weaken(c.2, e.2, j);
    if c.0 > 0 && c.2 % 2 != 0 {
        lemma_cong_lin(c.2, e.2, c.1, e.1, -1, p2(j));
        assert(c.2 + (-1) * c.1 == c.2 - c.1 && e.2 + (-1) * e.1 == e.2 - e.1);
        lemma_cong_half(c.2 - c.1, e.2 - e.1, j);
    } else {
        let b = c.2 % 2;
        lemma_cong_lin(c.2, e.2, c.1, e.1, b, p2(j));
        assert(b * c.1 == if b == 0 { 0 } else { c.1 }) by (nonlinear_arith) requires b == 0 || b == 1;
        assert(b * e.1 == if b == 0 { 0 } else { e.1 }) by (nonlinear_arith) requires b == 0 || b == 1;
        lemma_cong_half(c.2 + b * c.1, e.2 + b * e.1, j);
    }
}

/// the first m <= n steps (their delta and matrix) depend only on delta and on f, g modulo 2^n
pub proof fn lemma_divsteps_congr(n: nat, m: nat, s: (int, int, int), z: (int, int, int))
    requires m <= n, s.0 == z.0, s.1 % 2 == 1, z.1 % 2 == 1, cong(s.1, z.1, p2(n)), cong(s.2, z.2, p2(n))
    ensures
        divsteps_n(m, s).0 == divsteps_n(m, z).0, tmat(m, s) == tmat(m, z),
        cong(divsteps_n(m, s).1, divsteps_n(m, z).1, p2((n - m) as nat)),
        cong(divsteps_n(m, s).2, divsteps_n(m, z).2, p2((n - m) as nat)),
        divsteps_n(m, s).1 % 2 == 1, divsteps_n(m, z).1 % 2 == 1,
    decreases m
{
    if m > 0 {
        let k = (m - 1) as nat;
        lemma_divsteps_congr(n, k, s, z);
        let j = (n - k) as nat;
        assert((n - m) as nat == (j - 1) as nat);
        lemma_divstep_congr(divsteps_n(k, s), divsteps_n(k, z), j);
    } else {
        assert((n - 0) as nat == n);
    }
}

/// Theorem 11.2 of Bernstein-Yang, "Fast constant-time gcd computation and modular inversion" (eprint 2019/266):
/// for odd f and f^2 + 4 g^2 <= 5 * 2^(2d), divstep^m(1, f, g) has g_m = 0 for every m >= iterations(d), where
/// iterations(d) = floor((49 d + 80) / 17) if d < 46, floor((49 d + 57) / 17) otherwise (Figure 11.1).
/// The proof in the paper is computer assisted (convex-hull computation for the first 67 step counts); it is NOT
/// reproduced here.  THIS IS THE ONE `external_body` PROOF FUNCTION OF THE FRAMEWORK (allowed exception, see the task
/// statement).  Stated in the (weaker) form the code relies on: the code runs m rounds of 62 divsteps each, with
/// m >= iterations(d) and 0 <= f, g < 2^d (which implies f^2 + 4 g^2 <= 5 * 2^(2d)); 62 m >= m steps and g stays 0.
#[verifier::external_body]
pub proof fn axiom_bernstein_yang_bound(f: int, g: int, d: nat, m: nat)
    requires f % 2 == 1, 0 <= f < p2(d), 0 <= g < p2(d), m >= sg_iterations(d as int)
    ensures divsteps_n(62 * m, (1, f, g)).2 == 0
{ }



// ================================================================ transition matrices on machine words; d/e update
/// the entries of a `Matrix` as integers
pub open spec fn mt(t: Matrix) -> (int, int, int, int) { (t[0][0] as int, t[0][1] as int, t[1][0] as int, t[1][1] as int) }

pub proof fn lemma_delta_bound(n: nat, s: (int, int, int))
    ensures ab(divsteps_n(n, s).0) <= ab(s.0) + n
    decreases n
{ if n > 0 { lemma_delta_bound((n - 1) as nat, s); } }

/// low limb: sv ≡ limb 0 (mod 2^62)
pub proof fn lemma_low_limb<const LIMBS: usize>(x: UnsatInt<LIMBS>)
    requires x.wf()
    ensures cong(x.sv(), x.0@[0] as int, P62()), x.sv() % 2 == (x.0@[0] as int) % 2
{
    let n = LIMBS as nat;
    x.lemma_range();
    lemma_uval_shift(x.0@, n);
    lemma_q62_succ((n - 1) as nat);
    let r = uval(x.0@.subrange(1, n as int), (n - 1) as nat); let nb = x.nb(); let p = q62((n - 1) as nat);
    assert(x.sv() - x.0@[0] as int == (r - nb * p) * P62()) by (nonlinear_arith)
        requires x.sv() == x.0@[0] as int + P62() * r - nb * (P62() * p);
    lemma_cong_mult(x.sv(), x.0@[0] as int, r - nb * p, P62());
    let k = (r - nb * p) * 0x2000_0000_0000_0000;
    assert(x.sv() == x.0@[0] as int + k * 2) by (nonlinear_arith) requires x.sv() - x.0@[0] as int == (r - nb * p) * P62(), k == (r - nb * p) * 0x2000_0000_0000_0000;
    lemma_mod_add_mult(2, x.0@[0] as int, 2, k);
}

pub proof fn lemma_abs_mul_bound(x: int, y: int, w: int)
    requires ab(x) <= w
    ensures ab(x * y) <= w * ab(y)
{
    assert(ab(x * y) <= w * ab(y)) by (nonlinear_arith) requires ab(x) <= w;
}


/// x & (2^62 - 1) on i64 is the (Euclidean) remainder modulo 2^62
pub proof fn lemma_and_mask_i64(x: i64, m: i64)
    requires m == x & 0x3fff_ffff_ffff_ffffi64
    ensures 0 <= m <= 0x3fff_ffff_ffff_ffff, m as int == (x as int) % P62(), cong(m as int, x as int, P62())
{
    assert(0 <= m <= 0x3fff_ffff_ffff_ffffi64) by (bit_vector) requires m == x & 0x3fff_ffff_ffff_ffffi64;
    assert(m as int == (x as int) % 0x4000_0000_0000_0000) by (bit_vector) requires m == x & 0x3fff_ffff_ffff_ffffi64;
    lemma_fundamental_div_mod(x as int, P62());
    let k = (x as int) / P62();
    assert(m as int - x as int == (-k) * P62()) by (nonlinear_arith) requires x as int == P62() * k + m as int;
    lemma_cong_mult(m as int, x as int, -k, P62());
}

/// wrapping i64 arithmetic:  r = ((a x) wrap + w2) wrap & mask  with  w2 ≡ b y (mod 2^64)   ==>   r ≡ a x + b y (mod 2^62)
pub proof fn lemma_word_lin(a: int, x: int, b: int, y: int, w1: int, w2: int, w3: int, r: int)
    requires cong(w1, a * x, B()), cong(w2, b * y, B()), cong(w3, w1 + w2, B()), cong(r, w3, P62())
    ensures cong(r, a * x + b * y, P62())
{
    lemma_cong_add(w1, a * x, w2, b * y, B());
    lemma_cong_trans(w3, w1 + w2, a * x + b * y, B());
    let k = lemma_cong_wit(w3, a * x + b * y, B());
    assert(w3 - (a * x + b * y) == (4 * k) * P62()) by (nonlinear_arith) requires w3 - (a * x + b * y) == k * B();
    lemma_cong_mult(w3, a * x + b * y, 4 * k, P62());
    lemma_cong_trans(r, w3, a * x + b * y, P62());
}

/// vstd's i64 wrapping specs as congruences modulo 2^64
pub proof fn lemma_iwrap(a: i64, b: i64)
    ensures cong(wi::wrapping_mul(a, b) as int, a as int * b as int, B()), cong(wi::wrapping_add(a, b) as int, a as int + b as int, B())
{
    let m = wi::wrapping_mul(a, b) as int; let s = wi::wrapping_add(a, b) as int;
    let pm = a as int * b as int; let ps = a as int + b as int;
    assert((m - pm) % B() == 0);
    assert((s - ps) % B() == 0);
}

/// domain in which `de` computes the documented update: M >= 1 with room, inverse of M modulo 2^62, d and e in (-2M, M]
pub open spec fn de_pre(mm: int, inverse: int, dd: int, ee: int, n: nat) -> bool {
    mm >= 1 && mm * B() <= q62(n) && 0 <= inverse < 0x4000_0000_0000_0000 && (mm * inverse) % P62() == 1
    && -2 * mm < dd <= mm && -2 * mm < ee <= mm
}

/// domain in which `divsteps` maintains  d * g ≡ f * e (mod M):  M = f_0 odd with its inverse modulo 2^62, e in (-2M, M]
pub open spec fn ds_dpre(mm: int, inverse: int, ee: int, n: nat) -> bool {
    mm % 2 == 1 && mm >= 1 && mm * B() <= q62(n) && 0 <= inverse < 0x4000_0000_0000_0000 && (mm * inverse) % P62() == 1
    && -2 * mm < ee <= mm
}

/// the numerator of the d/e update is divisible by 2^62
pub proof fn lemma_de_divisible(dd: int, ee: int, mm: int, t0: int, t1: int, dl: int, el: int, cd: int, iv: int, md: int, k: int)
    requires cong(dd, dl, P62()), cong(ee, el, P62()), cong(cd, t0 * dl + t1 * el, P62()), cong(k, iv * cd + md, P62()),
        (mm * iv) % P62() == 1
    ensures (dd * t0 + ee * t1 + mm * (md - k)) % P62() == 0
{
    let p = P62();
    let a = lemma_cong_wit(dd, dl, p); let b = lemma_cong_wit(ee, el, p);
    let c = lemma_cong_wit(cd, t0 * dl + t1 * el, p); let e = lemma_cong_wit(k, iv * cd + md, p);
    lemma_fundamental_div_mod(mm * iv, p);
    let h = (mm * iv) / p; let mi = mm * iv;
    assert(mi == 1 + h * p) by (nonlinear_arith) requires mi == p * h + 1;
    let x1 = dl * t0 + el * t1;
    assert(dd * t0 + ee * t1 == x1 + (a * t0 + b * t1) * p) by (nonlinear_arith)
        requires dd - dl == a * p, ee - el == b * p, x1 == dl * t0 + el * t1;
    assert(x1 == cd - c * p) by (nonlinear_arith) requires cd - (t0 * dl + t1 * el) == c * p, x1 == dl * t0 + el * t1;
    assert(mm * k == mi * cd + mm * md + (mm * e) * p) by (nonlinear_arith)
        requires k - (iv * cd + md) == e * p, mi == mm * iv;
    assert(mi * cd == cd + (h * cd) * p) by (nonlinear_arith) requires mi == 1 + h * p;
    assert(mm * (md - k) == mm * md - mm * k) by (nonlinear_arith);
    let tot = dd * t0 + ee * t1 + mm * (md - k);
    assert(tot == (a * t0 + b * t1 - c - h * cd - mm * e) * p) by (nonlinear_arith)
        requires tot == x1 + (a * t0 + b * t1) * p + (mm * md - mm * k), x1 == cd - c * p,
            mm * k == mi * cd + mm * md + (mm * e) * p, mi * cd == cd + (h * cd) * p;
    lemma_mod_multiples_basic(a * t0 + b * t1 - c - h * cd - mm * e, p);
}

/// range of the d/e update: inputs in (-2M, M - s], s in {0, 1}
pub proof fn lemma_de_range(dd: int, ee: int, mm: int, t0: int, t1: int, md: int, k: int, r: int, s: int)
    requires mm >= 1, 0 <= s <= 1, -2 * mm < dd <= mm - s, -2 * mm < ee <= mm - s, ab(t0) + ab(t1) <= P62(),
        md == t0 * (if dd < 0 { 1int } else { 0int }) + t1 * (if ee < 0 { 1int } else { 0int }),
        0 <= k < P62(), dd * t0 + ee * t1 + mm * (md - k) == P62() * r
    ensures -2 * mm < r <= mm - s
{
    let p = P62(); let w = mm - s;
    let d2 = if dd < 0 { dd + mm } else { dd }; let e2 = if ee < 0 { ee + mm } else { ee };
    assert(ab(d2) <= w && ab(e2) <= w);
    let y = d2 * t0 + e2 * t1;
    assert(dd * t0 + ee * t1 + mm * md == y) by (nonlinear_arith)
        requires md == t0 * (if dd < 0 { 1int } else { 0int }) + t1 * (if ee < 0 { 1int } else { 0int }),
            d2 == (if dd < 0 { dd + mm } else { dd }), e2 == (if ee < 0 { ee + mm } else { ee }), y == d2 * t0 + e2 * t1;
    lemma_abs_mul_bound(d2, t0, w); lemma_abs_mul_bound(e2, t1, w);
    assert(w * ab(t0) + w * ab(t1) <= w * p) by (nonlinear_arith) requires ab(t0) + ab(t1) <= p, w >= 0;
    assert(ab(y) <= w * p);
    assert(mm * (md - k) == mm * md - mm * k) by (nonlinear_arith);
    assert(0 <= mm * k <= mm * (p - 1)) by (nonlinear_arith) requires 0 <= k <= p - 1, mm >= 1;
    assert(p * r == y - mm * k);
    assert(r <= w) by (nonlinear_arith) requires p * r <= w * p, p > 0;
    assert(r > -2 * mm) by (nonlinear_arith) requires p * r >= -(w * p) - mm * (p - 1), w <= mm, mm >= 1, p > 0;
}


/// a ≡ b (mod m)  ==>  a mod m == b mod m
pub proof fn lemma_cong_to_mod(a: int, b: int, m: int)
    requires m > 0, cong(a, b, m)
    ensures a % m == b % m
{
    let k = lemma_cong_wit(a, b, m);
    lemma_mod_add_mult(m, b, m, k);
    lemma_mod_self_0(m);
    assert(b + k * m == a);
}

/// final step of the inversion: d x ≡ f A, f = ±1, r ≡ ±d  ==>  r x ≡ A (mod M)
pub proof fn lemma_inv_final(mm: int, x: int, aa: int, dv: int, fv: int, r: int)
    requires mm >= 1, cong(dv * x, fv * aa, mm),
        (fv == 1 && cong(r, dv, mm)) || (fv == -1 && cong(r, -dv, mm))
    ensures cong(r * x, aa, mm)
{
    let k1 = lemma_cong_wit(dv * x, fv * aa, mm);
    let dx = dv * x;
    if fv == 1 {
        let k2 = lemma_cong_wit(r, dv, mm);
        assert(r * x - aa == (k2 * x + k1) * mm) by (nonlinear_arith) requires dx - fv * aa == k1 * mm, r - dv == k2 * mm, fv == 1, dx == dv * x;
        lemma_cong_mult(r * x, aa, k2 * x + k1, mm);
    } else {
        let k2 = lemma_cong_wit(r, -dv, mm);
        assert(r * x - aa == (k2 * x - k1) * mm) by (nonlinear_arith) requires dx - fv * aa == k1 * mm, r - (-dv) == k2 * mm, fv == -1, dx == dv * x;
        lemma_cong_mult(r * x, aa, k2 * x - k1, mm);
    }
}

/// an odd m dividing 2^n y divides y
pub proof fn lemma_odd_cancel_p2(m: int, y: int, n: nat)
    requires m > 0, m % 2 == 1, (p2(n) * y) % m == 0
    ensures y % m == 0
    decreases n
{
    sg_p2_succ(0);
    if n == 0 {
        assert(p2(0) * y == y) by (nonlinear_arith) requires p2(0) == 1;
    } else {
        sg_p2_succ((n - 1) as nat);
        let h = p2((n - 1) as nat) * y;
        assert(p2(n) * y == 2 * h) by (nonlinear_arith) requires p2(n) == 2 * p2((n - 1) as nat), h == p2((n - 1) as nat) * y;
        lemma_odd_div_half(m, h);
        lemma_odd_cancel_p2(m, y, (n - 1) as nat);
    }
}

/// one row of the main-loop invariant  d x ≡ f A (mod M)  through a 62-step jump
pub proof fn lemma_de_step(mm: int, x: int, aa: int, dd: int, ee: int, ff: int, gg: int, t0: int, t1: int, d2: int, f2: int)
    requires mm >= 1, mm % 2 == 1, cong(dd * x, ff * aa, mm), cong(ee * x, gg * aa, mm),
        t0 * ff + t1 * gg == P62() * f2, cong(P62() * d2, t0 * dd + t1 * ee, mm)
    ensures cong(d2 * x, f2 * aa, mm)
{
    let p = P62();
    let k1 = lemma_cong_wit(dd * x, ff * aa, mm); let k2 = lemma_cong_wit(ee * x, gg * aa, mm);
    let k3 = lemma_cong_wit(p * d2, t0 * dd + t1 * ee, mm);
    let dx = dd * x; let ex = ee * x; let fa = ff * aa; let ga = gg * aa;
    assert((t0 * dd + t1 * ee) * x == t0 * dx + t1 * ex) by (nonlinear_arith) requires dx == dd * x, ex == ee * x;
    assert((p * d2) * x == (t0 * dd + t1 * ee) * x + (k3 * x) * mm) by (nonlinear_arith) requires p * d2 - (t0 * dd + t1 * ee) == k3 * mm;
    assert(t0 * dx + t1 * ex == t0 * fa + t1 * ga + (t0 * k1 + t1 * k2) * mm) by (nonlinear_arith) requires dx - fa == k1 * mm, ex - ga == k2 * mm;
    assert(t0 * fa + t1 * ga == (p * f2) * aa) by (nonlinear_arith) requires t0 * ff + t1 * gg == p * f2, fa == ff * aa, ga == gg * aa;
    let y = d2 * x - f2 * aa;
    assert(p * y == (k3 * x + t0 * k1 + t1 * k2) * mm) by (nonlinear_arith)
        requires (p * d2) * x == (t0 * fa + t1 * ga) + (t0 * k1 + t1 * k2) * mm + (k3 * x) * mm, t0 * fa + t1 * ga == (p * f2) * aa, y == d2 * x - f2 * aa;
    lemma_mod_multiples_basic(k3 * x + t0 * k1 + t1 * k2, mm);
    lemma2_to64_rest();
    assert(p2(62) == p);
    lemma_odd_cancel_p2(mm, y, 62);
}



// ================================================================ jump: several divsteps at once
/// 2^e | g, e >= 1:  2^(e-1) | g, g / 2^(e-1) is even and halves to g / 2^e
pub proof fn lemma_p2_div_chain(g: int, e: nat)
    requires e >= 1, g % p2(e) == 0
    ensures g % p2((e - 1) as nat) == 0, (g / p2((e - 1) as nat)) % 2 == 0, (g / p2((e - 1) as nat)) / 2 == g / p2(e)
{
    let pe = p2(e); let ph = p2((e - 1) as nat);
    sg_p2_pos(e); sg_p2_pos((e - 1) as nat); sg_p2_succ((e - 1) as nat);
    lemma_fundamental_div_mod(g, pe);
    let m = g / pe;
    assert(g == ph * (2 * m) + 0) by (nonlinear_arith) requires g == pe * m + 0, pe == 2 * ph;
    lemma_fundamental_div_mod_converse(g, ph, 2 * m, 0);
}

/// e more steps from step c when 2^e divides the current g: g is halved e times, the f-row doubles e times
pub proof fn lemma_ext_even(c: nat, e: nat, s0: (int, int, int))
    requires divsteps_n(c, s0).2 % p2(e) == 0
    ensures
        divsteps_n(c + e, s0) == (divsteps_n(c, s0).0 + e, divsteps_n(c, s0).1, divsteps_n(c, s0).2 / p2(e)),
        tmat(c + e, s0) == (p2(e) * tmat(c, s0).0, p2(e) * tmat(c, s0).1, tmat(c, s0).2, tmat(c, s0).3),
    decreases e
{
    let s = divsteps_n(c, s0); let t = tmat(c, s0);
    sg_p2_succ(0);
    if e == 0 {
        let p0 = p2(0); let t0 = t.0; let t1 = t.1;
        assert(p0 * t0 == t0 && p0 * t1 == t1) by (nonlinear_arith) requires p0 == 1;
        assert(c + 0 == c);
    } else {
        let e1 = (e - 1) as nat;
        lemma_p2_div_chain(s.2, e);
        lemma_ext_even(c, e1, s0);
        sg_p2_succ(e1);
        let cur = divsteps_n(c + e1, s0); let tc = tmat(c + e1, s0);
        assert((c + e - 1) as nat == c + e1);
        assert(cur.2 % 2 == 0);
        assert(0 * cur.1 == 0);
        assert(divsteps_n(c + e, s0) == divstep(cur));
        let ph = p2(e1); let t0 = t.0; let t1 = t.1;
        assert(2 * (ph * t0) == (2 * ph) * t0 && 2 * (ph * t1) == (2 * ph) * t1) by (nonlinear_arith);
    }
}

/// k more steps without swap (delta + k <= 1) from step c:  g -> (g + w f) / 2^k  for the w in [0, 2^k) with 2^k | g + w f
pub proof fn lemma_ext_odd(c: nat, k: nat, w: int, s0: (int, int, int))
    requires divsteps_n(c, s0).1 % 2 == 1, divsteps_n(c, s0).0 + k <= 1, 0 <= w < p2(k),
        (divsteps_n(c, s0).2 + w * divsteps_n(c, s0).1) % p2(k) == 0
    ensures
        divsteps_n(c + k, s0) == (divsteps_n(c, s0).0 + k, divsteps_n(c, s0).1, (divsteps_n(c, s0).2 + w * divsteps_n(c, s0).1) / p2(k)),
        tmat(c + k, s0) == (p2(k) * tmat(c, s0).0, p2(k) * tmat(c, s0).1, tmat(c, s0).2 + w * tmat(c, s0).0, tmat(c, s0).3 + w * tmat(c, s0).1),
    decreases k
{
    let s = divsteps_n(c, s0); let t = tmat(c, s0);
    let f = s.1; let g = s.2; let t0 = t.0; let t1 = t.1;
    sg_p2_succ(0);
    if k == 0 {
        let p0 = p2(0);
        assert(w == 0);
        assert(p0 * t0 == t0 && p0 * t1 == t1 && w * f == 0 && w * t0 == 0 && w * t1 == 0) by (nonlinear_arith) requires p0 == 1, w == 0;
        assert(c + 0 == c);
    } else {
        let k1 = (k - 1) as nat; let pk = p2(k); let ph = p2(k1);
        sg_p2_succ(k1); sg_p2_pos(k1);
        // split w = w1 + b 2^(k-1)
        lemma_fundamental_div_mod(w, ph);
        let b = w / ph; let w1 = w % ph;
        lemma_mod_bound(w, ph);
        assert(0 <= b <= 1) by (nonlinear_arith) requires w == ph * b + w1, 0 <= w1 < ph, 0 <= w < 2 * ph, ph > 0;
        let x = g + w * f;
        lemma_fundamental_div_mod(x, pk);
        let m = x / pk;
        let x1 = g + w1 * f;
        let h = 2 * m - b * f;
        assert(x1 == ph * h + 0) by (nonlinear_arith)
            requires x == pk * m + 0, pk == 2 * ph, x == g + w * f, x1 == g + w1 * f, w == ph * b + w1, h == 2 * m - b * f;
        lemma_fundamental_div_mod_converse(x1, ph, h, 0);
        lemma_ext_odd(c, k1, w1, s0);
        let cur = divsteps_n(c + k1, s0); let tc = tmat(c + k1, s0);
        assert((c + k - 1) as nat == c + k1);
        assert(cur == (s.0 + k1, f, h));
        assert(divsteps_n(c + k, s0) == divstep(cur));
        assert(b * f == if b == 0 { 0 } else { f }) by (nonlinear_arith) requires b == 0 || b == 1;
        assert(ph * b == if b == 0 { 0 } else { ph }) by (nonlinear_arith) requires b == 0 || b == 1;
        assert(2 * (ph * t0) == (2 * ph) * t0 && 2 * (ph * t1) == (2 * ph) * t1) by (nonlinear_arith);
        if b == 0 {
            assert(h % 2 == 0);
            assert(0 * f == 0);
            assert(w == w1);
        } else {
            assert(h % 2 == 1);
            assert(1 * f == f);
            assert((h + f) / 2 == m);
            assert(w == w1 + ph);
            assert(ph * t0 + (t.2 + w1 * t0) == t.2 + w * t0 && ph * t1 + (t.3 + w1 * t1) == t.3 + w * t1) by (nonlinear_arith) requires w == w1 + ph;
        }
    }
}

/// the swap step followed by k - 1 more steps (k <= delta + 1), delta > 0, g odd:
/// (delta, f, g) -> (k - delta, g, (-f + w g) / 2^k)  for the w in [0, 2^k) with 2^k | -f + w g
pub proof fn lemma_ext_swap(c: nat, k: nat, w: int, s0: (int, int, int))
    requires divsteps_n(c, s0).1 % 2 == 1, divsteps_n(c, s0).2 % 2 == 1, divsteps_n(c, s0).0 > 0,
        1 <= k <= divsteps_n(c, s0).0 + 1, 0 <= w < p2(k),
        (-divsteps_n(c, s0).1 + w * divsteps_n(c, s0).2) % p2(k) == 0
    ensures
        divsteps_n(c + k, s0) == (k - divsteps_n(c, s0).0, divsteps_n(c, s0).2, (-divsteps_n(c, s0).1 + w * divsteps_n(c, s0).2) / p2(k)),
        tmat(c + k, s0) == (p2(k) * tmat(c, s0).2, p2(k) * tmat(c, s0).3, -tmat(c, s0).0 + w * tmat(c, s0).2, -tmat(c, s0).1 + w * tmat(c, s0).3),
{
    let s = divsteps_n(c, s0); let t = tmat(c, s0);
    let f = s.1; let g = s.2; let dl = s.0;
    let k1 = (k - 1) as nat; let pk = p2(k); let ph = p2(k1);
    sg_p2_succ(k1); sg_p2_pos(k1);
    let x = -f + w * g;
    lemma_fundamental_div_mod(x, pk);
    let m = x / pk;
    // w is odd
    let wg = w * g;
    assert(x == 2 * (ph * m)) by (nonlinear_arith) requires x == pk * m + 0, pk == 2 * ph;
    if w % 2 == 0 {
        let j = w / 2;
        assert(wg == 2 * (j * g)) by (nonlinear_arith) requires w == 2 * j, wg == w * g;
        assert(false);
    }
    let w2 = w / 2;
    assert(w == 2 * w2 + 1);
    // first step: the swap
    let s1 = divsteps_n(c + 1, s0); let tt = tmat(c + 1, s0);
    assert((c + 1 - 1) as nat == c);
    assert(s1 == divstep(s));
    let h = (g - f) / 2;
    assert(s1 == (1 - dl, g, h));
    assert(tt == (2 * t.2, 2 * t.3, t.2 - t.0, t.3 - t.1));
    // then k - 1 steps without swap
    assert(h + w2 * g == ph * m + 0) by (nonlinear_arith)
        requires 2 * h == g - f, -f + w * g == 2 * (ph * m), w == 2 * w2 + 1;
    lemma_fundamental_div_mod_converse(h + w2 * g, ph, m, 0);
    lemma_ext_odd(c + 1, k1, w2, s0);
    assert(c + 1 + k1 == c + k);
    let t2 = t.2; let t3 = t.3;
    assert(ph * (2 * t2) == (2 * ph) * t2 && ph * (2 * t3) == (2 * ph) * t3) by (nonlinear_arith);
    assert((t2 - t.0) + w2 * (2 * t2) == -t.0 + w * t2 && (t3 - t.1) + w2 * (2 * t3) == -t.1 + w * t3) by (nonlinear_arith) requires w == 2 * w2 + 1;
}

// ---- machine-word facts used by `jump`
pub proof fn lemma_iwmul_bv(a: i64, b: i64) ensures wi::wrapping_mul(a, b) == mul(a, b)
{
    let r = wi::wrapping_mul(a, b);
    assert(r as int == (a as int * b as int + 0x8000_0000_0000_0000) % 0x1_0000_0000_0000_0000 - 0x8000_0000_0000_0000);
    assert(r == mul(a, b)) by (bit_vector) requires r as int == (a as int * b as int + 0x8000_0000_0000_0000) % 0x1_0000_0000_0000_0000 - 0x8000_0000_0000_0000;
}

/// floor(floor(x / a) / 2) == floor(x / (2 a)) for every integer x
pub proof fn lemma_floor_div2(x: int, a: int)
    requires a > 0
    ensures (x / a) / 2 == x / (a * 2)
{
    lemma_fundamental_div_mod(x, a); lemma_mod_bound(x, a);
    let q = x / a; let r = x % a;
    let q2 = q / 2; let r2 = q % 2;
    assert(x == (a * 2) * q2 + (a * r2 + r)) by (nonlinear_arith) requires x == a * q + r, q == 2 * q2 + r2;
    assert(0 <= a * r2 + r < a * 2) by (nonlinear_arith) requires 0 <= r < a, 0 <= r2 <= 1;
    lemma_fundamental_div_mod_converse(x, a * 2, q2, a * r2 + r);
}

/// arithmetic right shift of an i128 is the floor division by 2^z
pub proof fn lemma_i128_shr(x: i128, z: i64)
    requires 0 <= z <= 126
    ensures (x >> z) as int == (x as int) / p2(z as nat)
    decreases z
{
    sg_p2_succ(0);
    let zu = z as u64;
    if z == 0 {
        assert(x >> zu == x) by (bit_vector) requires zu == 0;
    } else {
        let z1 = (z - 1) as i64; let y = x >> z1;
        lemma_i128_shr(x, z1);
        let z1u = z1 as u64;
        assert(x >> zu == (x >> z1u) >> 1u64) by (bit_vector) requires 1 <= zu <= 126, z1u == zu - 1;
        assert((y >> 1u64) as int == (y as int) / 2) by (bit_vector);
        sg_p2_succ(z1 as nat); sg_p2_pos(z1 as nat);
        lemma_floor_div2(x as int, p2(z1 as nat));
        assert(p2(z1 as nat) * 2 == p2(z as nat));
    }
}

/// left shift of an i64 without overflow is the multiplication by 2^z
pub proof fn lemma_i64_shl(t: i64, z: i64)
    requires 0 <= z <= 62, ab(t as int) * p2(z as nat) <= P62()
    ensures (t << z) as int == t as int * p2(z as nat)
    decreases z
{
    sg_p2_succ(0);
    let zu = z as u64;
    if z == 0 {
        assert(t << zu == t) by (bit_vector) requires zu == 0;
        assert(t as int * p2(0) == t as int) by (nonlinear_arith) requires p2(0) == 1;
    } else {
        let z1 = (z - 1) as i64; let z1u = z1 as u64;
        sg_p2_succ(z1 as nat); sg_p2_pos(z1 as nat);
        let ph = p2(z1 as nat); let a = ab(t as int);
        assert(a * ph * 2 == a * p2(z as nat)) by (nonlinear_arith) requires p2(z as nat) == 2 * ph;
        lemma_i64_shl(t, z1);
        let y = t << z1;
        assert(ab(y as int) == a * ph) by (nonlinear_arith) requires y as int == t as int * ph, a == ab(t as int), ph > 0;
        assert(t << zu == (t << z1u) << 1u64) by (bit_vector) requires 1 <= zu <= 62, z1u == zu - 1;
        assert((y << 1u64) as int == 2 * y) by (bit_vector) requires -0x2000_0000_0000_0000 <= y <= 0x2000_0000_0000_0000;
        assert(2 * (t as int * ph) == t as int * (2 * ph)) by (nonlinear_arith);
    }
}

/// 2^pend | g, g != 0  ==>  g has at least pend trailing zeros
pub proof fn lemma_tz_ge(g: i128, tz: u32, pend: nat)
    requires i128_tz_ok(g, tz), g != 0, (g as int) % p2(pend) == 0
    ensures tz >= pend
{
    if tz < pend {
        let e = (pend - tz) as nat;
        sg_p2_add(tz as nat, e); sg_p2_pos(tz as nat); sg_p2_pos(e); sg_p2_pos(pend);
        sg_p2_succ((e - 1) as nat);
        lemma_fundamental_div_mod(g as int, p2(pend));
        let m = (g as int) / p2(pend); let pt = p2(tz as nat); let pe1 = p2((e - 1) as nat);
        assert(g as int == pt * (2 * (pe1 * m)) + 0) by (nonlinear_arith)
            requires g as int == p2(pend) * m + 0, p2(pend) == pt * p2(e), p2(e) == 2 * pe1;
        lemma_fundamental_div_mod_converse(g as int, pt, 2 * (pe1 * m), 0);
        assert(false);
    }
}

pub proof fn lemma_one_shl_i64(k: i64)
    requires 1 <= k <= 5
    ensures (1i64 << k) as int == p2(k as nat), 2 <= (1i64 << k) <= 32
{
    let ku = k as u64;
    assert((1i64 << ku) == (if ku == 1 { 2i64 } else if ku == 2 { 4i64 } else if ku == 3 { 8i64 } else if ku == 4 { 16i64 } else { 32i64 })) by (bit_vector) requires 1 <= ku <= 5;
    lemma2_to64();
}

/// the multiplier w of `jump`:  w = g * (3 f xor 28) mod 2^k  kills the k low bits of g + w f   (k <= 5, f odd)
pub proof fn lemma_jump_w(f: i64, g: i64, k: i64, mask: i64, w: i64)
    requires (f as int) % 2 == 1, 1 <= k <= 5, mask as int == p2(k as nat) - 1,
        w == wi::wrapping_mul(g, wi::wrapping_mul(f, 3) ^ 28) & mask
    ensures 0 <= w < p2(k as nat), (g as int + w as int * f as int) % p2(k as nat) == 0
{
    lemma2_to64();
    lemma_iwmul_bv(f, 3); lemma_iwmul_bv(g, mul(f, 3) ^ 28);
    assert(f & 1 == 1) by (bit_vector) requires (f as int) % 2 == 1;
    if k == 1 {
        assert(0 <= w <= 1 && (g as int + w as int * f as int) % 2 == 0) by (bit_vector) requires f & 1 == 1, w == mul(g, mul(f, 3) ^ 28) & 1;
    } else if k == 2 {
        assert(0 <= w <= 3 && (g as int + w as int * f as int) % 4 == 0) by (bit_vector) requires f & 1 == 1, w == mul(g, mul(f, 3) ^ 28) & 3;
    } else if k == 3 {
        assert(0 <= w <= 7 && (g as int + w as int * f as int) % 8 == 0) by (bit_vector) requires f & 1 == 1, w == mul(g, mul(f, 3) ^ 28) & 7;
    } else if k == 4 {
        assert(0 <= w <= 15 && (g as int + w as int * f as int) % 16 == 0) by (bit_vector) requires f & 1 == 1, w == mul(g, mul(f, 3) ^ 28) & 15;
    } else {
        assert(0 <= w <= 31 && (g as int + w as int * f as int) % 32 == 0) by (bit_vector) requires f & 1 == 1, w == mul(g, mul(f, 3) ^ 28) & 31;
    }
}



// ---- bundles for the loop of `jump` (pure integer statements; c = steps consumed, pend = pending halvings)
pub proof fn sg_p2_divides_mono(x: int, z: nat, r: nat)
    requires z <= r, x % p2(r) == 0
    ensures x % p2(z) == 0
{
    sg_p2_add(z, (r - z) as nat); sg_p2_pos(z); sg_p2_pos(r);
    lemma_fundamental_div_mod(x, p2(r));
    let m = x / p2(r); let e = p2((r - z) as nat);
    assert(x == p2(z) * (e * m) + 0) by (nonlinear_arith) requires x == p2(r) * m + 0, p2(r) == p2(z) * e;
    lemma_fundamental_div_mod_converse(x, p2(z), e * m, 0);
}

/// zeros = min(steps, trailing_zeros(g))
pub proof fn lemma_jump_tz(g: i128, r: u32, steps: i64, pend: nat)
    requires i128_tz_ok(g, r), 1 <= steps <= 62, pend <= steps, (g as int) % p2(pend) == 0
    ensures ({ let z: int = if steps > r as i64 { r as int } else { steps as int };
        pend <= z <= steps && (g as int) % p2(z as nat) == 0 && (z < steps ==> (g != 0 && ((g as int) / p2(z as nat)) % 2 == 1)) })
{
    let z: int = if steps > r as i64 { r as int } else { steps as int };
    if g == 0 {
        sg_p2_pos(z as nat);
        lemma_small_mod(0, p2(z as nat) as nat);
    } else {
        lemma_tz_ge(g, r, pend);
        sg_p2_divides_mono(g as int, z as nat, r as nat);
    }
}

/// the shift part of one loop iteration: trajectory and matrix (a, b, r2, r3: the tracked matrix entries)
pub proof fn lemma_jump_shift_traj(c: nat, pend: nat, z: nat, s0: (int, int, int), dl: int, f: int, g_in: int, g: int,
    a: int, b: int, r2: int, r3: int, a2: int, b2: int)
    requires pend <= z, g_in % p2(pend) == 0, g_in % p2(z) == 0, g == g_in / p2(z),
        divsteps_n(c + pend, s0) == (dl + pend, f, g_in / p2(pend)),
        tmat(c + pend, s0) == (p2(pend) * a, p2(pend) * b, r2, r3),
        a2 == a * p2(z), b2 == b * p2(z),
    ensures divsteps_n(c + z, s0) == (dl + z, f, g), tmat(c + z, s0) == (a2, b2, r2, r3),
{
    let e = (z - pend) as nat; let pp = p2(pend); let pe = p2(e); let pz = p2(z);
    sg_p2_add(pend, e); sg_p2_pos(pend); sg_p2_pos(e); sg_p2_pos(z);
    lemma_fundamental_div_mod(g_in, pz);
    let h = g_in / pp;
    assert(g_in == pp * (pe * g) + 0) by (nonlinear_arith) requires g_in == pz * g + 0, pz == pp * pe;
    lemma_fundamental_div_mod_converse(g_in, pp, pe * g, 0);
    assert(h == pe * g);
    lemma_fundamental_div_mod_converse(h, pe, g, 0);
    lemma_ext_even(c + pend, e, s0);
    assert(c + pend + e == c + z);
    assert(pe * (pp * a) == a * pz && pe * (pp * b) == b * pz) by (nonlinear_arith) requires pz == pp * pe;
}

/// the shift part of one loop iteration: bounds (a, b, r2, r3: the actual matrix entries)
pub proof fn lemma_jump_shift_bounds(c: nat, pend: nat, z: nat, g_in: int, g: int, a: int, b: int, r2: int, r3: int, a2: int, b2: int)
    requires pend <= z, c + z <= 62, g_in % p2(z) == 0, g == g_in / p2(z), a2 == a * p2(z), b2 == b * p2(z),
        ab(g_in) <= P62() * p2(pend), ab(a) + ab(b) <= p2(c), ab(r2) + ab(r3) <= p2(c + pend),
    ensures ab(g) <= P62(), ab(a2) + ab(b2) <= p2(c + z), ab(r2) + ab(r3) <= p2(c + z), p2(c + z) <= P62(), g_in == g * p2(z),
{
    let pp = p2(pend); let pz = p2(z);
    sg_p2_pos(pend); sg_p2_pos(z); sg_p2_add(c, z); sg_p2_pos(c);
    sg_p2_mono(c + pend, c + z); sg_p2_mono(c + z, 62); sg_p2_mono(pend, z); lemma2_to64_rest();
    lemma_fundamental_div_mod(g_in, pz);
    assert(g_in == g * pz) by (nonlinear_arith) requires g_in == pz * g + 0;
    assert(ab(g) <= P62()) by (nonlinear_arith) requires g_in == pz * g, ab(g_in) <= P62() * pp, pz >= pp, pp > 0;
    assert(ab(a * pz) + ab(b * pz) <= p2(c) * pz) by (nonlinear_arith) requires ab(a) + ab(b) <= p2(c), pz > 0;
}

/// number of trailing zero bits of a positive integer
pub open spec fn tzn(x: int) -> nat
    decreases x
{ if x <= 0 || x % 2 != 0 { 0 } else { 1 + tzn(x / 2) } }

pub proof fn lemma_tzn(x: int, c: nat, y: int)
    requires x == y * p2(c), y % 2 == 1, y > 0
    ensures tzn(x) == c
    decreases c
{
    sg_p2_succ(0);
    if c == 0 {
        assert(y * p2(0) == y) by (nonlinear_arith) requires p2(0) == 1;
    } else {
        sg_p2_succ((c - 1) as nat); sg_p2_pos((c - 1) as nat);
        let h = y * p2((c - 1) as nat);
        assert(x == 2 * h) by (nonlinear_arith) requires x == y * p2(c), p2(c) == 2 * p2((c - 1) as nat), h == y * p2((c - 1) as nat);
        assert(h > 0) by (nonlinear_arith) requires h == y * p2((c - 1) as nat), y > 0, p2((c - 1) as nat) > 0;
        lemma_tzn(h, (c - 1) as nat, y);
    }
}

/// f even, g odd, 2^k | -f + w g (k >= 1)  ==>  w even
pub proof fn lemma_w_even(f: int, g: int, w: int, k: nat)
    requires k >= 1, f % 2 == 0, g % 2 == 1, (-f + w * g) % p2(k) == 0
    ensures w % 2 == 0
{
    sg_p2_succ((k - 1) as nat); sg_p2_pos(k);
    lemma_fundamental_div_mod(-f + w * g, p2(k));
    let m = (-f + w * g) / p2(k); let h = p2((k - 1) as nat);
    if w % 2 != 0 {
        let i = w / 2; let j = g / 2; let e = f / 2;
        assert(w * g == 2 * (2 * i * j + i + j) + 1) by (nonlinear_arith) requires w == 2 * i + 1, g == 2 * j + 1;
        assert(-f + w * g == 2 * (h * m)) by (nonlinear_arith) requires -f + w * g == p2(k) * m + 0, p2(k) == 2 * h;
        assert(false);
    }
}

/// preconditions of the two left shifts
pub proof fn lemma_jump_shl_pre(c: nat, z: nat, a: int, b: int)
    requires c + z <= 62, ab(a) + ab(b) <= p2(c)
    ensures ab(a) * p2(z) <= P62(), ab(b) * p2(z) <= P62()
{
    sg_p2_add(c, z); sg_p2_pos(z); sg_p2_mono(c + z, 62); lemma2_to64_rest();
    assert(ab(a) * p2(z) <= p2(c) * p2(z) && ab(b) * p2(z) <= p2(c) * p2(z)) by (nonlinear_arith)
        requires ab(a) + ab(b) <= p2(c), p2(z) > 0;
}


/// the (optional) swap and the w-update of one loop iteration
pub proof fn lemma_jump_wstep(c: nat, k: nat, w: int, s0: (int, int, int), swapped: bool,
    d1: int, f1: int, g1: int, u0: int, u1: int, u2: int, u3: int,
    dl: int, f: int, g2: int, a: int, b: int, r2: int, r3: int, n2: int, n3: int, gnew: int)
    requires divsteps_n(c, s0) == (d1, f1, g1), tmat(c, s0) == (u0, u1, u2, u3), f1 % 2 == 1, g1 % 2 == 1,
        swapped == (d1 > 0),
        swapped ==> (dl == -d1 && f == g1 && g2 == -f1 && a == u2 && b == u3 && r2 == -u0 && r3 == -u1),
        !swapped ==> (dl == d1 && f == f1 && g2 == g1 && a == u0 && b == u1 && r2 == u2 && r3 == u3),
        1 <= k <= 1 - dl, 0 <= w < p2(k), (g2 + w * f) % p2(k) == 0,
        n2 == a * w + r2, n3 == b * w + r3, gnew == g2 + w * f
    ensures divsteps_n(c + k, s0) == (dl + k, f, gnew / p2(k)), tmat(c + k, s0) == (p2(k) * a, p2(k) * b, n2, n3),
        gnew % p2(k) == 0
{
    assert(a * w == w * a && b * w == w * b) by (nonlinear_arith);
    if swapped {
        assert(-f1 + w * g1 == g2 + w * f);
        lemma_ext_swap(c, k, w, s0);
    } else {
        lemma_ext_odd(c, k, w, s0);
    }
}

/// bounds of the w-update
pub proof fn lemma_jump_w_bounds(c: nat, k: nat, w: int, a: int, b: int, r2: int, r3: int, f: int, g: int)
    requires c + k <= 62, 0 <= w < p2(k), ab(a) + ab(b) <= p2(c), ab(r2) + ab(r3) <= p2(c), ab(f) <= P62(), ab(g) <= P62()
    ensures ab(a * w) <= P62(), ab(b * w) <= P62(), ab(a * w + r2) + ab(b * w + r3) <= p2(c + k), p2(c + k) <= P62(),
        ab(g + w * f) <= P62() * p2(k), ab(w * f) <= P62() * p2(k)
{
    sg_p2_add(c, k); sg_p2_pos(k); sg_p2_pos(c); sg_p2_mono(c + k, 62); lemma2_to64_rest();
    let pc = p2(c); let pk = p2(k);
    assert(ab(a * w) + ab(b * w) <= pc * (pk - 1)) by (nonlinear_arith) requires ab(a) + ab(b) <= pc, 0 <= w <= pk - 1;
    assert(pc * (pk - 1) + pc == pc * pk) by (nonlinear_arith);
    assert(ab(w * f) <= P62() * (pk - 1)) by (nonlinear_arith) requires ab(f) <= P62(), 0 <= w <= pk - 1;
    assert(P62() * (pk - 1) + P62() == P62() * pk) by (nonlinear_arith);
}



// ================================================================ limb conversion (impl_limb_convert!): radix 2^64 <-> radix 2^62
/// value of the first n limbs in radix 2^r
pub open spec fn rv(s: Seq<u64>, n: nat, r: nat) -> int
    decreases n
{ if n == 0 { 0 } else { rv(s, (n - 1) as nat, r) + s[n - 1] as int * p2(r * ((n - 1) as nat)) } }
/// the same with every limb reduced modulo 2^r (bits above r are garbage)
pub open spec fn rvm(s: Seq<u64>, n: nat, r: nat) -> int
    decreases n
{ if n == 0 { 0 } else { rvm(s, (n - 1) as nat, r) + (s[n - 1] as int % p2(r)) * p2(r * ((n - 1) as nat)) } }

pub proof fn lemma_rv_uval(s: Seq<u64>, n: nat)
    ensures rv(s, n, 62) == uval(s, n)
    decreases n
{ if n > 0 { lemma_rv_uval(s, (n - 1) as nat); lemma_q62_pow2((n - 1) as nat); } }

pub proof fn lemma_rv_val(w: Seq<u64>, l: Seq<Limb>, n: nat)
    requires forall|k: int| 0 <= k < n ==> w[k] == l[k].0
    ensures rv(w, n, 64) == val(l, n)
    decreases n
{ if n > 0 { lemma_rv_val(w, l, (n - 1) as nat); lemma_bp_pow2((n - 1) as nat); } }

pub proof fn lemma_rv_bound(s: Seq<u64>, n: nat, r: nat)
    requires forall|k: int| 0 <= k < n ==> (#[trigger] s[k] as int) < p2(r)
    ensures 0 <= rv(s, n, r) < p2(r * n)
    decreases n
{
    sg_p2_succ(0);
    if n > 0 {
        let m = (n - 1) as nat;
        lemma_rv_bound(s, m, r);
        sg_p2_add(r * m, r); sg_p2_pos(r * m);
        assert(r * m + r == r * n) by (nonlinear_arith) requires m + 1 == n;
        let x = s[n - 1] as int; let p = p2(r * m); let pr = p2(r);
        assert((s[m as int] as int) < p2(r));
        assert(0 <= x * p <= (pr - 1) * p) by (nonlinear_arith) requires 0 <= x <= pr - 1, p > 0;
        assert((pr - 1) * p == p * pr - p) by (nonlinear_arith);
    }
}

pub proof fn lemma_rvm_update(s: Seq<u64>, n: nat, r: nat, ko: nat, v: u64)
    requires ko < n, n <= s.len()
    ensures rvm(s.update(ko as int, v), n, r) == rvm(s, n, r) + ((v as int % p2(r)) - (s[ko as int] as int % p2(r))) * p2(r * ko)
    decreases n
{
    let t = s.update(ko as int, v);
    let m = (n - 1) as nat;
    if m == ko {
        lemma_rvm_ext(s, t, m, r);
        let a = v as int % p2(r); let b = s[ko as int] as int % p2(r); let p = p2(r * ko);
        assert(a * p == b * p + (a - b) * p) by (nonlinear_arith);
    } else {
        lemma_rvm_update(s, m, r, ko, v);
    }
}

pub proof fn lemma_rvm_ext(s: Seq<u64>, t: Seq<u64>, n: nat, r: nat)
    requires forall|k: int| 0 <= k < n ==> s[k] == t[k]
    ensures rvm(s, n, r) == rvm(t, n, r)
    decreases n
{ if n > 0 { lemma_rvm_ext(s, t, (n - 1) as nat, r); } }

pub proof fn lemma_rvm_rv(s: Seq<u64>, t: Seq<u64>, n: nat, r: nat)
    requires forall|k: int| 0 <= k < n ==> t[k] as int == s[k] as int % p2(r)
    ensures rv(t, n, r) == rvm(s, n, r)
    decreases n
{ if n > 0 { lemma_rvm_rv(s, t, (n - 1) as nat, r); } }

/// the bits [bits, bits + step) of a number
pub open spec fn chunk(nv: int, bits: nat, step: nat) -> int { (nv / p2(bits)) % p2(step) }

pub proof fn lemma_chunk_add_multiple(nv: int, m: int, bits: nat, step: nat)
    ensures chunk(nv + m * p2(bits + step), bits, step) == chunk(nv, bits, step)
{
    let pb = p2(bits); let ps = p2(step);
    sg_p2_add(bits, step); sg_p2_pos(bits); sg_p2_pos(step);
    lemma_fundamental_div_mod(nv, pb); lemma_mod_bound(nv, pb);
    let q = nv / pb; let r = nv % pb;
    assert(nv + m * (pb * ps) == pb * (q + m * ps) + r) by (nonlinear_arith) requires nv == pb * q + r;
    lemma_fundamental_div_mod_converse(nv + m * p2(bits + step), pb, q + m * ps, r);
    lemma_mod_multiples_vanish(m, q, ps);
    assert(ps * m + q == q + m * ps) by (nonlinear_arith);
}

/// the bits [r j + i, r j + i + step) of rv(s, n, r) are the bits [i, i + step) of limb j   (i + step <= r)
pub proof fn lemma_chunk_limb(s: Seq<u64>, n: nat, r: nat, j: nat, i: nat, step: nat)
    requires j < n, i + step <= r, forall|k: int| 0 <= k < n ==> (#[trigger] s[k] as int) < p2(r)
    ensures chunk(rv(s, n, r), r * j + i, step) == (s[j as int] as int / p2(i)) % p2(step)
    decreases n
{
    let m = (n - 1) as nat;
    let bits = r * j + i;
    if m == j {
        lemma_rv_bound(s, j, r);
        let lo = rv(s, j, r); let x = s[j as int] as int; let pj = p2(r * j); let pi = p2(i);
        sg_p2_add(r * j, i); sg_p2_pos(r * j); sg_p2_pos(i);
        // nv / (pj * pi) == (nv / pj) / pi, nv / pj == x
        let nv = lo + x * pj;
        assert(nv == pj * x + lo) by (nonlinear_arith) requires nv == lo + x * pj;
        lemma_fundamental_div_mod_converse(nv, pj, x, lo);
        assert(0 <= nv) by (nonlinear_arith) requires nv == lo + x * pj, lo >= 0, x >= 0, pj > 0;
        lemma_div_denominator(nv, pj, pi);
    } else {
        lemma_chunk_limb(s, m, r, j, i, step);
        // the top limb contributes a multiple of 2^(bits + step)
        let e = (r * m - (bits + step)) as nat;
        assert(r * m >= r * (j + 1)) by (nonlinear_arith) requires m >= j + 1;
        assert(r * (j + 1) == r * j + r) by (nonlinear_arith);
        sg_p2_add(bits + step, e);
        let x = s[m as int] as int;
        assert(x * p2(r * m) == (x * p2(e)) * p2(bits + step)) by (nonlinear_arith) requires p2(r * m) == p2(bits + step) * p2(e);
        lemma_chunk_add_multiple(rv(s, m, r), x * p2(e), bits, step);
    }
}

/// invariant of the copy loop after `bits` bits: the reduced output limbs hold nv mod 2^bits, nothing else was written
pub open spec fn conv_inv(nv: int, out: Seq<u64>, n_out: nat, ob: nat, bits: nat) -> bool {
    &&& rvm(out, n_out, ob) == nv % p2(bits)
    &&& forall|k: int| 0 <= k < n_out && ob * k >= bits ==> out[k] == 0
    &&& (bits / ob < n_out ==> (out[(bits / ob) as int] as int % p2(ob)) < p2(bits % ob))
}

pub proof fn lemma_conv_init(nv: int, out: Seq<u64>, n_out: nat, ob: nat)
    requires ob >= 1, forall|k: int| 0 <= k < n_out ==> out[k] == 0
    ensures conv_inv(nv, out, n_out, ob, 0)
{
    sg_p2_succ(0); sg_p2_pos(ob);
    lemma_rvm_zero(out, n_out, ob);
    assert(nv % 1 == 0);
    assert(0nat / ob == 0 && 0nat % ob == 0);
    if 0 < n_out { assert(out[0] == 0); lemma_small_mod(0, p2(ob) as nat); }
}

pub proof fn lemma_rvm_zero(s: Seq<u64>, n: nat, r: nat)
    requires forall|k: int| 0 <= k < n ==> s[k] == 0
    ensures rvm(s, n, r) == 0
    decreases n
{
    if n > 0 {
        lemma_rvm_zero(s, (n - 1) as nat, r);
        sg_p2_pos(r); lemma_small_mod(0, p2(r) as nat);
        assert(0 * p2(r * ((n - 1) as nat)) == 0);
    }
}

/// one iteration of the copy loop
pub proof fn lemma_conv_step(nv: int, inp: Seq<u64>, n_in: nat, ib: nat, out: Seq<u64>, n_out: nat, ob: nat, bits: nat, step: nat, newv: u64)
    requires 1 <= ib <= 64, 1 <= ob <= 64, nv == rv(inp, n_in, ib), n_out <= out.len(),
        forall|k: int| 0 <= k < n_in ==> (#[trigger] inp[k] as int) < p2(ib),
        bits / ib < n_in, bits / ob < n_out, conv_inv(nv, out, n_out, ob, bits),
        step == min_int(ib - bits % ib, ob - bits % ob),
        (newv as int % p2(ob)) == (out[(bits / ob) as int] as int % p2(ob))
            + p2(bits % ob) * ((inp[(bits / ib) as int] as int / p2(bits % ib)) % p2((ob - bits % ob) as nat))
    ensures conv_inv(nv, out.update((bits / ob) as int, newv), n_out, ob, bits + step), step >= 1
{
    let j = bits / ib; let i = bits % ib; let ko = bits / ob; let o = bits % ob;
    let x = inp[j as int] as int; let y = x / p2(i);
    let out2 = out.update(ko as int, newv); let bits2 = bits + step;
    lemma_fundamental_div_mod(bits as int, ib as int); lemma_fundamental_div_mod(bits as int, ob as int);
    lemma_mod_bound(bits as int, ib as int); lemma_mod_bound(bits as int, ob as int);
    assert(bits == ib * j + i && bits == ob * ko + o);
    sg_p2_pos(i); sg_p2_pos(o); sg_p2_pos(step); sg_p2_pos(bits); sg_p2_pos(ob); sg_p2_pos((ob - o) as nat);
    // y < 2^(ib - i)
    assert((inp[j as int] as int) < p2(ib));
    sg_p2_add(i, (ib - i) as nat);
    lemma_fundamental_div_mod(x, p2(i)); lemma_mod_bound(x, p2(i));
    assert(0 <= y < p2((ib - i) as nat)) by (nonlinear_arith)
        requires y == x / p2(i), 0 <= x < p2(i) * p2((ib - i) as nat), p2(i) > 0, x == p2(i) * (x / p2(i)) + x % p2(i), 0 <= x % p2(i);
    // the chunk written equals the chunk of nv
    let c1 = y % p2((ob - o) as nat);
    if step == ob - o { } else {
        sg_p2_mono(step, (ob - o) as nat);
        lemma_small_mod(y as nat, p2(step) as nat); lemma_small_mod(y as nat, p2((ob - o) as nat) as nat);
    }
    assert(c1 == y % p2(step));
    lemma_chunk_limb(inp, n_in, ib, j, i, step);
    assert(chunk(nv, bits, step) == c1);
    lemma_mod_bound(y, p2(step));
    // nv mod 2^(bits + step)
    lemma_rv_bound(inp, n_in, ib);
    sg_p2_add(bits, step);
    lemma_breakdown(nv, p2(bits), p2(step));
    // the output value
    lemma_rvm_update(out, n_out, ob, ko, newv);
    sg_p2_add(o, ob * ko);
    assert(o + ob * ko == bits);
    let po = p2(o); let pk = p2(ob * ko);
    assert((po * c1) * pk == p2(bits) * c1) by (nonlinear_arith) requires p2(bits) == po * pk;
    assert(rvm(out2, n_out, ob) == nv % p2(bits2));
    // untouched limbs
    assert forall|k: int| 0 <= k < n_out && ob * k >= bits2 implies out2[k] == 0 by {
        assert(ob * k > ob * ko);
        assert(k != ko) by (nonlinear_arith) requires ob * k > ob * ko;
    }
    // the partially filled limb
    if o + step == ob {
        assert(bits2 == ob * (ko + 1) + 0) by (nonlinear_arith) requires bits2 == ob * ko + o + step, o + step == ob;
        lemma_fundamental_div_mod_converse(bits2 as int, ob as int, (ko + 1) as int, 0);
        sg_p2_succ(0);
        if ko + 1 < n_out {
            assert(ob * (ko + 1) >= bits) by (nonlinear_arith) requires bits == ob * ko + o, o < ob;
            assert(out[(ko + 1) as int] == 0);
            lemma_small_mod(0, p2(ob) as nat);
        }
    } else {
        lemma_fundamental_div_mod_converse(bits2 as int, ob as int, ko as int, (o + step) as int);
        sg_p2_add(o, step);
        assert(po + po * c1 <= po * p2(step)) by (nonlinear_arith) requires 0 <= c1 <= p2(step) - 1, po > 0;
    }
}

/// the word-level update  new = old | ((x >> i) << o)  on the reduced limb (ob = 62: bits 62, 63 are garbage; ob = 64)
pub proof fn lemma_conv_word(oldv: u64, x: u64, i: u32, o: u32, ob: nat, newv: u64)
    requires i < 64, o < ob, ob == 62 || ob == 64, newv == oldv | ((x >> i) << o), (oldv as int % p2(ob)) < p2(o as nat)
    ensures (newv as int % p2(ob)) == (oldv as int % p2(ob)) + p2(o as nat) * ((x as int / p2(i as nat)) % p2((ob - o) as nat))
{
    lemma2_to64(); lemma2_to64_rest();
    let y = x >> i; let p = y << o;
    lemma_u64_shr_div(x, i); lemma_u64_shl_mod(y, o);
    let mk: u64 = if ob == 62 { 0x3fff_ffff_ffff_ffffu64 } else { 0xffff_ffff_ffff_ffffu64 };
    let a = oldv & mk; let pm = p & mk; let nm = newv & mk;
    if ob == 62 {
        assert(oldv & 0x3fff_ffff_ffff_ffffu64 == oldv % 0x4000_0000_0000_0000u64 && p & 0x3fff_ffff_ffff_ffffu64 == p % 0x4000_0000_0000_0000u64
            && newv & 0x3fff_ffff_ffff_ffffu64 == newv % 0x4000_0000_0000_0000u64) by (bit_vector);
    } else {
        assert(oldv & 0xffff_ffff_ffff_ffffu64 == oldv && p & 0xffff_ffff_ffff_ffffu64 == p && newv & 0xffff_ffff_ffff_ffffu64 == newv) by (bit_vector);
        lemma_small_mod(oldv as nat, p2(64) as nat); lemma_small_mod(p as nat, p2(64) as nat); lemma_small_mod(newv as nat, p2(64) as nat);
    }
    assert(a as int == oldv as int % p2(ob) && pm as int == p as int % p2(ob) && nm as int == newv as int % p2(ob));
    // a has no bit at or above o
    lemma_u64_shr_div(a, o); sg_p2_pos(o as nat);
    lemma_basic_div(a as int, p2(o as nat));
    assert(nm as int == a as int + pm as int) by (bit_vector)
        requires (a >> o) == 0, o < 64, a == oldv & mk, pm == p & mk, nm == newv & mk, newv == oldv | p, p == y << o;
    // pm == 2^o * (y mod 2^(ob - o))
    let yi = y as int; let po = p2(o as nat); let pc = p2((ob - o) as nat);
    sg_p2_add(o as nat, (ob - o) as nat); sg_p2_pos((ob - o) as nat); sg_p2_pos(ob);
    assert(o as nat + (ob - o) as nat == ob);
    if ob == 62 { lemma_mod_mod(yi * po, p2(62), 4); assert(p2(62) * 4 == B()); } else { assert(p2(64) == B()); }
    assert(pm as int == (yi * po) % p2(ob));
    assert(yi * po == po * yi) by (nonlinear_arith);
    lemma_truncate_middle(yi, po, pc);
}



// ================================================================ rounds of 62 divsteps in `divsteps` / `divsteps_vartime`
/// EXTENSION of Theorem 11.2 to the start state (1, f even, g odd), NOT in the paper (second, separately reported assumption;
/// `external_body` like `axiom_bernstein_yang_bound`).  `Uint::gcd` calls `SafeGcdInverter::gcd` with a possibly even first
/// argument and an odd second one.  The first step of the code then swaps to the odd value and the run coincides with the divstep
/// trajectory started at (1, f + g, g) (proved: `jump`, `lemma_round_even_first`).  f + g is odd and < 2^(d+1), so Theorem 11.2 in
/// its step-count form gives g_n = 0 for n >= iterations(d + 1); the code performs 62 * m >= iterations(d + 1) divsteps for
/// m >= iterations(d) (62x what the theorem needs).  Stated in the round-count form used for `axiom_bernstein_yang_bound`.
#[verifier::external_body]
pub proof fn axiom_bernstein_yang_bound_even_f_odd_g(f: int, g: int, d: nat, m: nat)
    requires f % 2 == 0, g % 2 == 1, 0 <= f < p2(d), 0 <= g < p2(d), m >= sg_iterations(d as int)
    ensures divsteps_n(62 * m, (1, f + g, g)).2 == 0
{ }

pub proof fn lemma_igcd_add(a: int, b: int)
    ensures igcd(a + b, b) == igcd(a, b)
{
    assert forall|d: int| d > 0 implies (#[trigger] cdiv(d, a + b, b)) == cdiv(d, a, b) by {
        if b % d == 0 {
            lemma_mod_add_mult(d, a, b, 1); assert(a + 1 * b == a + b);
        }
    }
    lemma_igcd_eq(a + b, b, a, b);
}

pub proof fn lemma_tzn_props(x: int)
    requires x > 0
    ensures x % p2(tzn(x)) == 0, (x / p2(tzn(x))) % 2 == 1, p2(tzn(x)) <= x
    decreases x
{
    sg_p2_succ(0);
    if x % 2 != 0 {
        assert(tzn(x) == 0);
        assert(x % 1 == 0 && x / 1 == x);
    } else {
        let h = x / 2;
        lemma_tzn_props(h);
        let c = tzn(h);
        assert(tzn(x) == c + 1);
        sg_p2_succ(c); sg_p2_pos(c);
        lemma_fundamental_div_mod(h, p2(c));
        let y = h / p2(c);
        assert(x == p2(c + 1) * y + 0) by (nonlinear_arith) requires x == 2 * h, h == p2(c) * y + 0, p2(c + 1) == 2 * p2(c);
        lemma_fundamental_div_mod_converse(x, p2(c + 1), y, 0);
    }
}

/// start (1, M + x, x) with M even, x odd: from the first step on max(|f|, |g|) <= max(M, x), f is odd, gcd(f, g) = gcd(M, x)
pub proof fn lemma_even_start(n: nat, mm: int, x: int)
    requires n >= 1, mm % 2 == 0, mm >= 0, x % 2 == 1, x > 0
    ensures ab(divsteps_n(n, (1, mm + x, x)).1) <= max_int(mm, x), ab(divsteps_n(n, (1, mm + x, x)).2) <= max_int(mm, x),
        divsteps_n(n, (1, mm + x, x)).1 % 2 == 1,
        igcd(divsteps_n(n, (1, mm + x, x)).1, divsteps_n(n, (1, mm + x, x)).2) == igcd(mm, x)
{
    let s0 = (1int, mm + x, x);
    let s1 = divsteps_n(1, s0);
    assert(divsteps_n(0, s0) == s0);
    assert(s1 == divstep(s0));
    assert(s1 == (0int, x, (x - (mm + x)) / 2));
    lemma_divsteps_add(1, (n - 1) as nat, s0);
    assert(1 + (n - 1) as nat == n);
    lemma_divsteps((n - 1) as nat, s1, max_int(mm, x));
    lemma_divsteps(1, s0, mm + x);
    lemma_igcd_add(mm, x);
}

/// a round in the tracked mode: (delta, F, G) is a point of the trajectory from s0, F odd
pub proof fn lemma_round_normal(n0: nat, s0: (int, int, int), bnd: int, st: (int, int, int), f0w: int, g0w: int,
    d2: int, tm: (int, int, int, int), f2: int, g2: int)
    requires s0.1 % 2 == 1, ab(s0.1) <= bnd, ab(s0.2) <= bnd, st == divsteps_n(n0, s0),
        cong(st.1, f0w, P62()), cong(st.2, g0w, P62()), f0w % 2 == 1,
        d2 == divsteps_n(62, (st.0, f0w, g0w)).0, tm == tmat(62, (st.0, f0w, g0w)),
        f2 == (tm.0 * st.1 + tm.1 * st.2) / P62(), g2 == (tm.2 * st.1 + tm.3 * st.2) / P62()
    ensures (d2, f2, g2) == divsteps_n(n0 + 62, s0), ab(f2) <= bnd, ab(g2) <= bnd, f2 % 2 == 1,
        tm.0 * st.1 + tm.1 * st.2 == P62() * f2, tm.2 * st.1 + tm.3 * st.2 == P62() * g2
{
    lemma2_to64_rest();
    assert(p2(62) == P62());
    lemma_divsteps(n0, s0, bnd);
    lemma_divsteps_congr(62, 62, st, (st.0, f0w, g0w));
    lemma_divsteps(62, st, bnd);
    lemma_divsteps_add(n0, 62, s0);
    let nx = divsteps_n(62, st);
    lemma_div_multiples_vanish(nx.1, P62()); lemma_div_multiples_vanish(nx.2, P62());
}

/// the first round of a run that starts with an even f = M and an odd g = x
pub proof fn lemma_round_even_first(mm: int, x: int, f0w: int, g0w: int, d2: int, tm: (int, int, int, int), f2: int, g2: int)
    requires mm % 2 == 0, mm >= 0, x % 2 == 1, x > 0, cong(mm, f0w, P62()), cong(x, g0w, P62()), f0w % 2 == 0, g0w % 2 == 1,
        d2 == divsteps_n(62, (1, f0w + g0w, g0w)).0,
        (tm.0, tm.1 - tm.0, tm.2, tm.3 - tm.2) == tmat(62, (1, f0w + g0w, g0w)),
        f2 == (tm.0 * mm + tm.1 * x) / P62(), g2 == (tm.2 * mm + tm.3 * x) / P62()
    ensures (d2, f2, g2) == divsteps_n(62, (1, mm + x, x)), ab(f2) <= max_int(mm, x), ab(g2) <= max_int(mm, x), f2 % 2 == 1
{
    lemma2_to64_rest();
    assert(p2(62) == P62());
    let s0 = (1int, mm + x, x); let zt = (1int, f0w + g0w, g0w);
    lemma_cong_add(mm, f0w, x, g0w, P62());
    lemma_divsteps_congr(62, 62, s0, zt);
    lemma_divsteps(62, s0, mm + x);
    let nx = divsteps_n(62, s0); let tt = tmat(62, s0);
    let t0 = tm.0; let t1 = tm.1; let t2 = tm.2; let t3 = tm.3;
    assert(t0 * (mm + x) + (t1 - t0) * x == t0 * mm + t1 * x) by (nonlinear_arith);
    assert(t2 * (mm + x) + (t3 - t2) * x == t2 * mm + t3 * x) by (nonlinear_arith);
    lemma_div_multiples_vanish(nx.1, P62()); lemma_div_multiples_vanish(nx.2, P62());
    lemma_even_start(62, mm, x);
}

/// a round with f = 0 (zero modulus) before the swap: either 62 halvings of g, or z halvings, the swap, 62 - z idle steps
pub proof fn lemma_round_zero_pre(gg: int, g0w: int, ee: int, dl: int, d2: int, tm: (int, int, int, int),
    f2: int, g2: int, dn: int, en: int)
    requires cong(gg, g0w, P62()), 0 <= g0w < P62(), gg >= 0, 0 <= ee <= 1,
        g0w == 0 ==> (d2 == dl + 62 && tm == (P62(), 0int, 0int, 1int)),
        g0w != 0 ==> (tzn(g0w) <= 61 && d2 == 62 - 2 * tzn(g0w) - dl && tm == (0int, p2((62 - tzn(g0w)) as nat), -p2(tzn(g0w)), 0int)),
        f2 == (tm.0 * 0 + tm.1 * gg) / P62(), g2 == (tm.2 * 0 + tm.3 * gg) / P62(),
        dn == (tm.0 * 0 + tm.1 * ee) / P62(), en == (tm.2 * 0 + tm.3 * ee) / P62()
    ensures g0w == 0 ==> (f2 == 0 && g2 * P62() == gg && dn == 0 && en == 0),
        g0w != 0 ==> (g2 == 0 && f2 % 2 == 1 && 0 < f2 <= gg && (gg % 2 == 1 ==> f2 == gg) && 0 <= dn <= 1 && en == 0)
{
    lemma2_to64_rest();
    let k = lemma_cong_wit(gg, g0w, P62());
    if g0w == 0 {
        assert(gg == P62() * k + 0) by (nonlinear_arith) requires gg - g0w == k * P62(), g0w == 0;
        lemma_fundamental_div_mod_converse(gg, P62(), k, 0);
        assert(0 * gg == 0 && 1 * gg == gg && 0 * ee == 0 && 1 * ee == ee && P62() * 0 == 0 && 0 * 0 == 0);
        lemma_basic_div(ee, P62());
    } else {
        let c = tzn(g0w); let pc = p2(c); let pr = p2((62 - c) as nat);
        lemma_tzn_props(g0w);
        sg_p2_add(c, (62 - c) as nat); sg_p2_pos(c); sg_p2_pos((62 - c) as nat);
        assert(pc * pr == P62());
        lemma_fundamental_div_mod(g0w, pc);
        let y0 = g0w / pc;
        // gg = pc * y with y = y0 + pr * k odd
        let y = y0 + pr * k;
        assert(gg == pc * y) by (nonlinear_arith) requires gg - g0w == k * P62(), g0w == pc * y0 + 0, pc * pr == P62(), y == y0 + pr * k;
        sg_p2_succ((61 - c) as nat);
        assert(pr * k == 2 * (p2((61 - c) as nat) * k)) by (nonlinear_arith) requires pr == 2 * p2((61 - c) as nat);
        assert(y % 2 == 1);
        assert(pr * gg == P62() * y + 0) by (nonlinear_arith) requires gg == pc * y, pc * pr == P62();
        lemma_fundamental_div_mod_converse(pr * gg, P62(), y, 0);
        assert(0 * 0 == 0 && -pc * 0 == 0 && 0 * gg == 0 && 0 * ee == 0);
        assert(y > 0 && y <= gg) by (nonlinear_arith) requires gg == pc * y, pc >= 1, gg >= 0, y % 2 == 1;
        if gg % 2 == 1 {
            if c > 0 {
                sg_p2_succ((c - 1) as nat);
                assert(gg == 2 * (p2((c - 1) as nat) * y)) by (nonlinear_arith) requires gg == pc * y, pc == 2 * p2((c - 1) as nat);
                assert(false);
            }
            sg_p2_succ(0);
            assert(gg == y) by (nonlinear_arith) requires gg == pc * y, pc == 1;
        }
        // dn = floor(pr * ee / 2^62) in {0, 1}
        assert(pr <= P62()) by (nonlinear_arith) requires pc * pr == P62(), pc >= 1, pr >= 1;
        if ee == 0 { assert(pr * ee == 0) by (nonlinear_arith) requires ee == 0; }
        else {
            assert(pr * ee == pr) by (nonlinear_arith) requires ee == 1;
            if pr == P62() { lemma_div_multiples_vanish(1, P62()); } else { lemma_basic_div(pr, P62()); }
        }
        lemma_basic_div(0, P62());
    }
}

/// a round with f odd and g = 0: nothing changes (62 halvings of 0)
pub proof fn lemma_round_g_zero(dl: int, ff: int, f0w: int, dd: int, ee: int, d2: int, tm: (int, int, int, int), f2: int, g2: int, dn: int, en: int)
    requires f0w % 2 == 1, 0 <= ee <= 1,
        d2 == divsteps_n(62, (dl, f0w, 0int)).0, tm == tmat(62, (dl, f0w, 0int)),
        f2 == (tm.0 * ff + tm.1 * 0) / P62(), g2 == (tm.2 * ff + tm.3 * 0) / P62(),
        dn == (tm.0 * dd + tm.1 * ee) / P62(), en == (tm.2 * dd + tm.3 * ee) / P62()
    ensures d2 == dl + 62, f2 == ff, g2 == 0, dn == dd, en == 0
{
    lemma2_to64_rest();
    let zt = (dl, f0w, 0int);
    assert(divsteps_n(0, zt) == zt && tmat(0, zt) == (1int, 0int, 0int, 1int));
    sg_p2_pos(62); lemma_small_mod(0, p2(62) as nat);
    lemma_ext_even(0, 62, zt);
    assert(0nat + 62nat == 62nat);
    assert(tm == (P62(), 0int, 0int, 1int)) by { assert(p2(62) * 1 == P62() && p2(62) * 0 == 0); }
    assert(0 * ff == 0 && 1 * 0 == 0 && 0 * 0 == 0 && 0 * ee == 0 && 0 * dd == 0 && 1 * ee == ee);
    lemma_div_multiples_vanish(ff, P62()); lemma_div_multiples_vanish(dd, P62());
    lemma_basic_div(ee, P62()); lemma_basic_div(0, P62());
}


//@@ subst \b(Self|UnsatInt)::(MASK|ZERO|ONE|MINUS_ONE|LIMB_BITS)\b(?!\() => \1::\2()
//@@ subst \bUnsatInt::<(\w+)>::(MASK|ZERO|ONE|MINUS_ONE|LIMB_BITS)\b(?!\() => UnsatInt::<\1>::\2()


//@@ const src/modular/safegcd.rs | impl<const LIMBS: usize> UnsatInt<LIMBS> | LIMB_BITS
impl<const LIMBS: usize> UnsatInt<LIMBS> {
pub const fn LIMB_BITS() -> (ret__: usize)
//@+
    ensures ret__ == 62
//@-
{
    62
}
}
//@@ end
//@@ const src/modular/safegcd.rs | impl<const LIMBS: usize> UnsatInt<LIMBS> | MASK
impl<const LIMBS: usize> UnsatInt<LIMBS> {
pub const fn MASK() -> (ret__: u64)
//@+
    ensures ret__ == 0x3fff_ffff_ffff_ffffu64
//@-
{
//@+
    proof { assert(0xffff_ffff_ffff_ffffu64 >> 2usize == 0x3fff_ffff_ffff_ffffu64) by (bit_vector); }
//@-
    u64::MAX >> (64 - Self::LIMB_BITS())
}
}
//@@ end
//@@ const src/modular/safegcd.rs | impl<const LIMBS: usize> UnsatInt<LIMBS> | MINUS_ONE
impl<const LIMBS: usize> UnsatInt<LIMBS> {
pub const fn MINUS_ONE() -> (ret__: Self)
//@+
    requires LIMBS >= 1
    ensures ret__.wf(), ret__.sv() == -1, forall|k: int| 0 <= k < LIMBS ==> ret__.0@[k] == 0x3fff_ffff_ffff_ffffu64
//@-
{
//@+
    let r = Self([Self::MASK(); LIMBS]);
    proof {
        lemma_uval_all_mask(r.0@, LIMBS as nat); lemma_q62_ge(LIMBS as nat);
        assert(1 * q62(LIMBS as nat) == q62(LIMBS as nat));
    }
//@-
    Self([Self::MASK(); LIMBS])
}
}
//@@ end
//@@ const src/modular/safegcd.rs | impl<const LIMBS: usize> UnsatInt<LIMBS> | ZERO
impl<const LIMBS: usize> UnsatInt<LIMBS> {
pub const fn ZERO() -> (ret__: Self)
//@+
    ensures forall|k: int| 0 <= k < LIMBS ==> ret__.0@[k] == 0, LIMBS >= 1 ==> ret__.wf(), ret__.uv() == 0, ret__.sv() == 0
//@-
{
//@+
    let r = Self([0; LIMBS]);
    proof {
        lemma_uval_zero(r.0@, LIMBS as nat); lemma_q62_succ(LIMBS as nat);
        assert(0 * q62(LIMBS as nat) == 0);
    }
//@-
    Self([0; LIMBS])
}
}
//@@ end
//@@ const src/modular/safegcd.rs | impl<const LIMBS: usize> UnsatInt<LIMBS> | ONE
impl<const LIMBS: usize> UnsatInt<LIMBS> {
pub const fn ONE() -> (ret__: Self)
//@+
    requires LIMBS >= 1
    ensures ret__.wf(), ret__.uv() == 1, ret__.sv() == 1, ret__.0@[0] == 1, forall|k: int| 1 <= k < LIMBS ==> ret__.0@[k] == 0
//@-
{
    {
            let mut ret = Self::ZERO();
            ret.0[0] = 1;
//@+
            proof { lemma_uval_one(ret.0@, LIMBS as nat); lemma_q62_ge(LIMBS as nat); assert(0 * q62(LIMBS as nat) == 0); }
//@-
            ret
        }
}
}
//@@ end
//@@ fn src/modular/safegcd.rs | impl<const LIMBS: usize> UnsatInt<LIMBS> | add | body | props C10
impl<const LIMBS: usize> UnsatInt<LIMBS> {
pub const fn add(&self, other: &Self) -> (ret__: Self)
//@+
    requires self.wf(), other.wf()
    ensures ret__.wf(), cong(ret__.sv(), self.sv() + other.sv(), q62(LIMBS as nat)),
        sfits(self.sv() + other.sv(), LIMBS as nat) ==> ret__.sv() == self.sv() + other.sv(),
        ret__.sv() == wrap(self.sv() + other.sv(), LIMBS as nat)
//@-
{
        let (mut ret, mut carry) = (Self::ZERO(), 0);
        let mut i = 0;
//@+
    proof { lemma_q62_succ(0); }
//@-
        while i < LIMBS
//@+
        invariant
            i <= LIMBS, self.wf(), other.wf(), carry <= 1,
            forall|k: int| 0 <= k < LIMBS ==> #[trigger] ret.0@[k] <= 0x3fff_ffff_ffff_ffffu64,
            uval(ret.0@, i as nat) + carry as int * q62(i as nat) == uval(self.0@, i as nat) + uval(other.0@, i as nat),
        decreases LIMBS - i
//@-
{
//@+
            let ghost old = ret.0@; let ghost c0 = carry;
            proof { assert(self.0@[i as int] <= 0x3fff_ffff_ffff_ffffu64 && other.0@[i as int] <= 0x3fff_ffff_ffff_ffffu64); }
//@-
            let sum = self.0[i] + other.0[i] + carry;
            ret.0[i] = sum & Self::MASK();
            carry = sum >> Self::LIMB_BITS();
//@+
            proof {
                let a = self.0@[i as int]; let b = other.0@[i as int];
                assert(sum & 0x3fff_ffff_ffff_ffffu64 == sum % 0x4000_0000_0000_0000u64 && sum >> 62usize == sum / 0x4000_0000_0000_0000u64
                    && (sum & 0x3fff_ffff_ffff_ffffu64) <= 0x3fff_ffff_ffff_ffffu64) by (bit_vector);
                lemma_uval_ext(old, ret.0@, i as nat); lemma_q62_succ(i as nat);
                lemma_chain_step(ret.0@[i as int] as int, carry as int, sum as int, q62(i as nat));
                assert((a as int + b as int + c0 as int) * q62(i as nat) == a as int * q62(i as nat) + b as int * q62(i as nat) + c0 as int * q62(i as nat)) by (nonlinear_arith);
            }
//@-
            i += 1;
        }
//@+
        proof {
            self.lemma_range(); other.lemma_range();
            let q = q62(LIMBS as nat);
            assert(ret.uv() == (self.sv() + other.sv()) + (self.nb() + other.nb() - carry as int) * q) by (nonlinear_arith)
                requires ret.uv() + carry as int * q == self.uv() + other.uv(), self.sv() == self.uv() - self.nb() * q, other.sv() == other.uv() - other.nb() * q;
            ret.lemma_sv_from(self.sv() + other.sv(), self.nb() + other.nb() - carry as int);
        }
//@-
        ret
    }
}
//@@ end
//@@ fn src/modular/safegcd.rs | impl<const LIMBS: usize> UnsatInt<LIMBS> | mul | body | props C10
impl<const LIMBS: usize> UnsatInt<LIMBS> {
pub const fn mul(&self, other: i64) -> (ret__: Self)
//@+
    // weakest precondition: `-other` must not overflow (de passes |md| up to 2^63 - 1)
    requires self.wf(), other > i64::MIN
    ensures ret__.wf(), cong(ret__.sv(), self.sv() * other, q62(LIMBS as nat)),
        sfits(self.sv() * other, LIMBS as nat) ==> ret__.sv() == self.sv() * other,
        ret__.sv() == wrap(self.sv() * other, LIMBS as nat)
//@-
{
//@+
    let ghost oth0 = other;
//@-
        let mut ret = Self::ZERO();
        // If the short multiplicand is non-negative, the standard multiplication algorithm is
        // performed. Otherwise, the product of the additively negated multiplicands is found as
        // follows.
        //
        // Since for the two's complement code the additive negation is the result of adding 1 to
        // the bitwise inverted argument's representation, for any encoded integers x and y we have
        // x * y = (-x) * (-y) = (!x + 1) * (-y) = !x * (-y) + (-y), where "!" is the bitwise
        // inversion and arithmetic operations are performed according to the rules of the code.
        //
        // If the short multiplicand is negative, the algorithm below uses this formula by
        // substituting the short multiplicand for y and turns into the modified standard
        // multiplication algorithm, where the carry flag is initialized with the additively
        // negated short multiplicand and the chunks of the long multiplicand are bitwise inverted.
        let (other, mut carry, mask) = if other < 0 {
            (-other, -other as u64, Self::MASK())
        } else {
            (other, 0, 0)
        };
        let mut i = 0;
//@+
    proof { lemma_q62_succ(0); assert(0 + other as int * 1 == (1 - 0) * other as int) by (nonlinear_arith); }
//@-
        while i < LIMBS
//@+
        invariant
            i <= LIMBS, self.wf(), 0 <= other <= i64::MAX, carry <= other,
            (mask == 0 && oth0 == other) || (mask == 0x3fff_ffff_ffff_ffffu64 && oth0 == -other),
            forall|k: int| 0 <= k < LIMBS ==> #[trigger] ret.0@[k] <= 0x3fff_ffff_ffff_ffffu64,
            mask == 0 ==> uval(ret.0@, i as nat) + carry as int * q62(i as nat) == uval(self.0@, i as nat) * other,
            mask != 0 ==> uval(ret.0@, i as nat) + carry as int * q62(i as nat) == (q62(i as nat) - uval(self.0@, i as nat)) * other,
        decreases LIMBS - i
//@-
{
//@+
            let ghost old = ret.0@; let ghost c0 = carry; let ghost a = self.0@[i as int]; let ghost x = a ^ mask;
            proof {
                assert(a <= 0x3fff_ffff_ffff_ffffu64);
                assert(a ^ 0x3fff_ffff_ffff_ffffu64 == 0x3fff_ffff_ffff_ffffu64 - a) by (bit_vector) requires a <= 0x3fff_ffff_ffff_ffffu64;
                assert(a ^ 0u64 == a) by (bit_vector);
                assert(0 <= x as int * other as int <= 0x3fff_ffff_ffff_ffff * other as int) by (nonlinear_arith)
                    requires 0 <= x <= 0x3fff_ffff_ffff_ffff, 0 <= other;
            }
//@-
            let sum = (carry as u128) + ((self.0[i] ^ mask) as u128) * (other as u128);
            ret.0[i] = sum as u64 & Self::MASK();
            carry = (sum >> Self::LIMB_BITS()) as u64;
//@+
            proof {
                assert(sum as int == c0 as int + x as int * other as int);
                assert(((sum as u64) & 0x3fff_ffff_ffff_ffffu64) as u128 == sum % 0x4000_0000_0000_0000u128 && ((sum >> 62usize) as u64) as u128 == sum / 0x4000_0000_0000_0000u128
                    && ((sum as u64) & 0x3fff_ffff_ffff_ffffu64) <= 0x3fff_ffff_ffff_ffffu64) by (bit_vector)
                    requires sum <= 0x2000_0000_0000_0000_0000_0000_0000_0000u128;
                assert(sum as int / 0x4000_0000_0000_0000 <= other as int) by (nonlinear_arith)
                    requires sum as int <= other as int * 0x4000_0000_0000_0000, sum >= 0;
                lemma_uval_ext(old, ret.0@, i as nat); lemma_q62_succ(i as nat);
                lemma_chain_step(ret.0@[i as int] as int, carry as int, sum as int, q62(i as nat));
                let p = q62(i as nat); let u = uval(self.0@, i as nat); let o = other as int; let ai = a as int; let ci = c0 as int;
                if mask == 0 {
                    assert((ci + ai * o) * p == ci * p + (ai * p) * o) by (nonlinear_arith);
                    assert((u + ai * p) * o == u * o + (ai * p) * o) by (nonlinear_arith);
                } else {
                    assert((ci + (P62() - 1 - ai) * o) * p == ci * p + (P62() * p - p - ai * p) * o) by (nonlinear_arith);
                    assert((P62() * p - (u + ai * p)) * o == (p - u) * o + (P62() * p - p - ai * p) * o) by (nonlinear_arith);
                }
            }
//@-
            i += 1;
        }
//@+
        proof {
            self.lemma_range();
            let q = q62(LIMBS as nat); let o = other as int; let n = self.nb(); let c = carry as int;
            if mask == 0 {
                assert(ret.uv() == self.sv() * oth0 + (n * o - c) * q) by (nonlinear_arith)
                    requires ret.uv() + c * q == self.uv() * o, self.sv() == self.uv() - n * q, oth0 == o;
                ret.lemma_sv_from(self.sv() * oth0, n * o - c);
            } else {
                assert(ret.uv() == self.sv() * oth0 + (o - n * o - c) * q) by (nonlinear_arith)
                    requires ret.uv() + c * q == (q - self.uv()) * o, self.sv() == self.uv() - n * q, oth0 == -o;
                ret.lemma_sv_from(self.sv() * oth0, o - n * o - c);
            }
        }
//@-
        ret
    }
}
//@@ end
//@@ fn src/modular/safegcd.rs | impl<const LIMBS: usize> UnsatInt<LIMBS> | neg | body | props C10
impl<const LIMBS: usize> UnsatInt<LIMBS> {
pub const fn neg(&self) -> (ret__: Self)
//@+
    requires self.wf()
    ensures ret__.wf(), cong(ret__.sv(), -self.sv(), q62(LIMBS as nat)),
        sfits(-self.sv(), LIMBS as nat) ==> ret__.sv() == -self.sv(),
        ret__.sv() == wrap(-self.sv(), LIMBS as nat)
//@-
{
        // For the two's complement code the additive negation is the result of adding 1 to the
        // bitwise inverted argument's representation.
        let (mut ret, mut carry) = (Self::ZERO(), 1);
        let mut i = 0;
//@+
    proof { lemma_q62_succ(0); }
//@-
        while i < LIMBS
//@+
        invariant
            i <= LIMBS, self.wf(), carry <= 1,
            forall|k: int| 0 <= k < LIMBS ==> #[trigger] ret.0@[k] <= 0x3fff_ffff_ffff_ffffu64,
            uval(ret.0@, i as nat) + carry as int * q62(i as nat) == q62(i as nat) - uval(self.0@, i as nat),
        decreases LIMBS - i
//@-
{
//@+
            let ghost old = ret.0@; let ghost c0 = carry; let ghost a = self.0@[i as int];
            proof {
                assert(a <= 0x3fff_ffff_ffff_ffffu64);
                assert(a ^ 0x3fff_ffff_ffff_ffffu64 == 0x3fff_ffff_ffff_ffffu64 - a) by (bit_vector) requires a <= 0x3fff_ffff_ffff_ffffu64;
            }
//@-
            let sum = (self.0[i] ^ Self::MASK()) + carry;
            ret.0[i] = sum & Self::MASK();
            carry = sum >> Self::LIMB_BITS();
//@+
            proof {
                assert(sum & 0x3fff_ffff_ffff_ffffu64 == sum % 0x4000_0000_0000_0000u64 && sum >> 62usize == sum / 0x4000_0000_0000_0000u64
                    && (sum & 0x3fff_ffff_ffff_ffffu64) <= 0x3fff_ffff_ffff_ffffu64) by (bit_vector);
                lemma_uval_ext(old, ret.0@, i as nat); lemma_q62_succ(i as nat);
                lemma_chain_step(ret.0@[i as int] as int, carry as int, sum as int, q62(i as nat));
                assert((P62() - 1 - a as int + c0 as int) * q62(i as nat) == P62() * q62(i as nat) - q62(i as nat) - a as int * q62(i as nat) + c0 as int * q62(i as nat)) by (nonlinear_arith);
            }
//@-
            i += 1;
        }
//@+
        proof {
            self.lemma_range();
            let q = q62(LIMBS as nat);
            assert(ret.uv() == (-self.sv()) + (1 - self.nb() - carry as int) * q) by (nonlinear_arith)
                requires ret.uv() + carry as int * q == q - self.uv(), self.sv() == self.uv() - self.nb() * q;
            ret.lemma_sv_from(-self.sv(), 1 - self.nb() - carry as int);
        }
//@-
        ret
    }
}
//@@ end
//@@ fn src/modular/safegcd.rs | impl<const LIMBS: usize> UnsatInt<LIMBS> | is_negative | body | props C10
impl<const LIMBS: usize> UnsatInt<LIMBS> {
pub const fn is_negative(&self) -> (ret__: ConstChoice)
//@+
    requires self.wf()
    ensures ret__.wf(), ret__.t() == (self.sv() < 0), ret__.t() == (self.0@[LIMBS - 1] >= 0x2000_0000_0000_0000u64)
//@-
{
//@+
    proof {
        self.lemma_range(); lemma_top_sign(self.0@, LIMBS as nat);
        assert(0x3fff_ffff_ffff_ffffu64 >> 1 == 0x1fff_ffff_ffff_ffffu64) by (bit_vector);
    }
//@-
        ConstChoice::from_u64_gt(self.0[LIMBS - 1], Self::MASK() >> 1)
    }
}
//@@ end
//@@ fn src/modular/safegcd.rs | impl<const LIMBS: usize> UnsatInt<LIMBS> | shr | body | props C10
impl<const LIMBS: usize> UnsatInt<LIMBS> {
pub const fn shr(&self) -> (ret__: Self)
//@+
    requires self.wf()
    ensures ret__.wf(), self.sv() == self.0@[0] as int + P62() * ret__.sv(), ret__.sv() == self.sv() / P62()
//@-
{
        let mut ret = Self::ZERO();
        ret.0[LIMBS - 1] = self.is_negative().select_u64(ret.0[LIMBS - 1], Self::MASK());
        let mut i = 0;
//@+
    let ghost top = ret.0@[LIMBS - 1];
//@-
        while i < LIMBS - 1
//@+
        invariant
            i <= LIMBS - 1, self.wf(), ret.0@[LIMBS - 1] == top, top <= 0x3fff_ffff_ffff_ffffu64,
            forall|k: int| 0 <= k < i ==> ret.0@[k] == self.0@[k + 1],
            forall|k: int| 0 <= k < LIMBS ==> #[trigger] ret.0@[k] <= 0x3fff_ffff_ffff_ffffu64,
        decreases LIMBS - 1 - i
//@-
{
//@+
            proof { assert(self.0@[i + 1] <= 0x3fff_ffff_ffff_ffffu64); }
//@-
            ret.0[i] = self.0[i + 1];
            i += 1;
        }
//@+
        proof {
            let n = LIMBS as nat; let m = (n - 1) as nat;
            let sub = self.0@.subrange(1, n as int);
            self.lemma_range(); ret.lemma_range();
            lemma_uval_shift(self.0@, n);
            assert forall|k: int| 0 <= k < m implies ret.0@[k] == sub[k] by { }
            lemma_uval_ext(ret.0@, sub, m);
            lemma_top_sign(self.0@, n); lemma_top_sign(ret.0@, n);
            lemma_q62_succ(m);
            let p = q62(m); let r = uval(sub, m); let s0 = self.0@[0] as int;
            if self.nb() == 1 {
                assert(s0 + P62() * (r + (P62() - 1) * p - 1 * (P62() * p)) == s0 + P62() * r - 1 * (P62() * p)) by (nonlinear_arith);
            } else {
                assert(0 * p == 0 && 0 * q62(n) == 0) by (nonlinear_arith);
            }
            assert(self.sv() == s0 + P62() * ret.sv());
            lemma_fundamental_div_mod_converse(self.sv(), P62(), ret.sv(), s0);
        }
//@-
        ret
    }
}
//@@ end
//@@ fn src/modular/safegcd.rs | impl<const LIMBS: usize> UnsatInt<LIMBS> | eq | body | props C10
impl<const LIMBS: usize> UnsatInt<LIMBS> {
pub const fn eq(&self, other: &Self) -> (ret__: ConstChoice)
//@+
    requires self.wf(), other.wf()
    ensures ret__.wf(), ret__.t() == (self.sv() == other.sv()), ret__.t() == (self.uv() == other.uv()), ret__.t() == (self.0@ =~= other.0@)
//@-
{
        let mut ret = ConstChoice::TRUE;
        let mut i = 0;
        while i < LIMBS
//@+
        invariant
            i <= LIMBS, ret.wf(), ret.t() == (forall|k: int| 0 <= k < i ==> self.0@[k] == other.0@[k]),
        decreases LIMBS - i
//@-
{
            ret = ret.and(ConstChoice::from_u64_eq(self.0[i], other.0[i]));
            i += 1;
        }
//@+
        proof {
            self.lemma_range(); other.lemma_range();
            if ret.t() { lemma_uval_ext(self.0@, other.0@, LIMBS as nat); }
            if self.uv() == other.uv() { lemma_uval_inj(self.0@, other.0@, LIMBS as nat); }
            if self.sv() == other.sv() {
                assert(self.nb() == other.nb());
            }
        }
//@-
        ret
    }
}
//@@ end
//@@ fn src/modular/safegcd.rs | impl<const LIMBS: usize> UnsatInt<LIMBS> | lowest | body | props C10
impl<const LIMBS: usize> UnsatInt<LIMBS> {
pub const fn lowest(&self) -> (ret__: u64)
//@+
    requires LIMBS >= 1
    ensures ret__ == self.0@[0]
//@-
{
        self.0[0]
    }
}
//@@ end
//@@ fn src/modular/safegcd.rs | impl<const LIMBS: usize> UnsatInt<LIMBS> | select | body | props C10
impl<const LIMBS: usize> UnsatInt<LIMBS> {
pub const fn select(a: &Self, b: &Self, choice: ConstChoice) -> (ret__: Self)
//@+
    requires choice.wf()
    ensures ret__.0@ == (if choice.t() { b.0@ } else { a.0@ })
//@-
{
        let mut ret = Self::ZERO();
        let mut i = 0;
        while i < LIMBS
//@+
        invariant
            i <= LIMBS, choice.wf(), ret.0@.len() == LIMBS,
            forall|k: int| 0 <= k < i ==> ret.0@[k] == (if choice.t() { b.0@[k] } else { a.0@[k] }),
        decreases LIMBS - i
//@-
{
            ret.0[i] = choice.select_u64(a.0[i], b.0[i]);
            i += 1;
        }
//@+
        proof { assert(ret.0@ =~= (if choice.t() { b.0@ } else { a.0@ })); }
//@-
        ret
    }
}
//@@ end
//@@ fn src/modular/safegcd.rs | impl<const LIMBS: usize> UnsatInt<LIMBS> | leading_zeros | body | props C10
impl<const LIMBS: usize> UnsatInt<LIMBS> {
pub const fn leading_zeros(&self) -> (ret__: u32)
//@+
    requires self.wf(), LIMBS * 62 <= u32::MAX
    ensures ret__ <= 62 * LIMBS, self.uv() < p2((62 * LIMBS - ret__) as nat)
//@-
{
        let mut count = 0;
        let mut i = LIMBS;
        let mut nonzero_limb_not_encountered = ConstChoice::TRUE;
        while i > 0
//@+
        invariant
            i <= LIMBS, self.wf(), LIMBS * 62 <= u32::MAX, nonzero_limb_not_encountered.wf(), count <= 62 * (LIMBS - i),
            nonzero_limb_not_encountered.t() ==> (forall|k: int| i <= k < LIMBS ==> self.0@[k] == 0) && count == 62 * (LIMBS - i),
            !nonzero_limb_not_encountered.t() ==> self.uv() < p2((62 * LIMBS - count) as nat),
        decreases i
//@-
{
            i -= 1;
            let l = self.0[i];
//@+
            let ghost ne0 = nonzero_limb_not_encountered; let ghost count0 = count;
            proof {
                assert(self.0@[i as int] <= 0x3fff_ffff_ffff_ffffu64);
                lemma_lz64(l); lemma2_to64_rest();
                if u64_leading_zeros(l) < 2 { sg_p2_mono(62, (63 - u64_leading_zeros(l)) as nat); }
            }
//@-
            let z = l.leading_zeros() - 2;
            count += nonzero_limb_not_encountered.if_true_u32(z);
            nonzero_limb_not_encountered =
                nonzero_limb_not_encountered.and(ConstChoice::from_u64_nonzero(l).not());
//@+
            proof {
                if ne0.t() {
                    // limbs above i are zero: uv == uval(.., i + 1)
                    lemma_uval_hi_zero(self.0@, (i + 1) as nat, LIMBS as nat);
                    lemma_uval_bound(self.0@, i as nat);
                    lemma_q62_pow2(i as nat);
                    let e = (62 - z) as nat;
                    assert((64 - u64_leading_zeros(l)) as nat == e);
                    sg_p2_add(e, (62 * i) as nat);
                    assert(uval(self.0@, i as nat) + l as int * q62(i as nat) < p2(e) * q62(i as nat)) by (nonlinear_arith)
                        requires 0 <= uval(self.0@, i as nat) < q62(i as nat), (l as int) < p2(e);
                    assert((62 * LIMBS - count) as nat == e + 62 * i);
                }
            }
//@-
        }
//@+
        proof {
            if nonzero_limb_not_encountered.t() { lemma_uval_zero(self.0@, LIMBS as nat); sg_p2_pos(0); }
        }
//@-
        count
    }
}
//@@ end
//@@ fn src/modular/safegcd.rs | impl<const LIMBS: usize> UnsatInt<LIMBS> | bits | body | props C10
impl<const LIMBS: usize> UnsatInt<LIMBS> {
pub const fn bits(&self) -> (ret__: u32)
//@+
    requires self.wf(), LIMBS * 62 <= u32::MAX
    ensures ret__ <= 62 * LIMBS, self.uv() < p2(ret__ as nat)
//@-
{
        (LIMBS as u32 * 62) - self.leading_zeros()
    }
}
//@@ end
//@@ fn src/modular/safegcd.rs | - | inv_mod2_62 | body | props C10
pub const fn inv_mod2_62(value: &[Word]) -> (ret__: i64)
//@+
    requires value@.len() >= 1
    ensures 0 <= ret__ < 0x4000_0000_0000_0000,
        value@[0] % 2 == 1 ==> (value@[0] as int * ret__ as int) % P62() == 1
//@-
{
//@+
    let ghost v = value@[0];
//@-
    let value = {
        #[cfg(target_pointer_width = "32")]
        {
            debug_assert!(value.len() >= 1);
            let mut ret = value[0] as u64;
            if value.len() >= 2 {
                ret |= (value[1] as u64) << 32;
            }
            ret
        }
        #[cfg(target_pointer_width = "64")]
        {
            value[0]
        }
    };
    let x = value.wrapping_mul(3) ^ 2;
    let y = 1u64.wrapping_sub(x.wrapping_mul(value));
//@+
    let ghost x0 = x; let ghost y0 = y;
//@-
    let (x, y) = (x.wrapping_mul(y.wrapping_add(1)), y.wrapping_mul(y));
//@+
    let ghost x1 = x; let ghost y1 = y;
//@-
    let (x, y) = (x.wrapping_mul(y.wrapping_add(1)), y.wrapping_mul(y));
//@+
    let ghost x2 = x; let ghost y2 = y;
//@-
    let (x, y) = (x.wrapping_mul(y.wrapping_add(1)), y.wrapping_mul(y));
//@+
    let ghost x3 = x; let ghost y3 = y;
    let ghost x4 = wu::wrapping_mul(x, wu::wrapping_add(y, 1));
    let ghost r = x4 & 0x3fff_ffff_ffff_ffffu64;
    proof {
        assert(0xffff_ffff_ffff_ffffu64 >> 2 == 0x3fff_ffff_ffff_ffffu64) by (bit_vector);
        assert(r <= 0x3fff_ffff_ffff_ffffu64) by (bit_vector) requires r == x4 & 0x3fff_ffff_ffff_ffffu64;
        lemma_wmul_bv(v, 3); lemma_wmul_bv(x0, v); lemma_wsub_bv(1, mul(x0, v));
        lemma_wadd_bv(y0, 1); lemma_wmul_bv(x0, add(y0, 1)); lemma_wmul_bv(y0, y0);
        lemma_wadd_bv(y1, 1); lemma_wmul_bv(x1, add(y1, 1)); lemma_wmul_bv(y1, y1);
        lemma_wadd_bv(y2, 1); lemma_wmul_bv(x2, add(y2, 1)); lemma_wmul_bv(y2, y2);
        lemma_wadd_bv(y3, 1); lemma_wmul_bv(x3, add(y3, 1));
        if v % 2 == 1 {
            assert(v & 1 == 1) by (bit_vector) requires v % 2 == 1;
            lemma_hurchalla(v, x0, y0, x1, y1, x2, y2, x3, y3, x4, r);
            lemma_mulmask_mod(r, v);
        }
    }
//@-
    (x.wrapping_mul(y.wrapping_add(1)) & (u64::MAX >> 2)) as i64
}
//@@ end
//@@ fn src/modular/safegcd.rs | - | iterations | body | props C10
pub const fn iterations(f_bits: u32, g_bits: u32) -> (ret__: usize)
//@+
    requires 49 * f_bits + 80 <= u32::MAX, 49 * g_bits + 80 <= u32::MAX
    ensures ret__ == sg_iterations(max_int(f_bits as int, g_bits as int))
//@-
{
    // Select max of `f_bits`, `g_bits`
    let d = ConstChoice::from_u32_lt(f_bits, g_bits).select_u32(f_bits, g_bits);
    let addend = ConstChoice::from_u32_lt(d, 46).select_u32(57, 80);
    ((49 * d + addend) / 17) as usize
}
//@@ end
//@@ fn src/modular/safegcd.rs | - | jump | body | props C10
pub const fn jump(f: &[u64], g: &[u64], mut delta: i64) -> (ret__: (i64, Matrix))
//@+
    // domain: f[0] odd (the documented one), or before the first swap of a run that starts with an even f:
    // delta > 0 and (g[0] odd  or  f[0] == 0)
    requires f@.len() >= 1, g@.len() >= 1, f@[0] <= 0x3fff_ffff_ffff_ffffu64, g@[0] <= 0x3fff_ffff_ffff_ffffu64,
        -0x1_0000_0000_0000 <= delta <= 0x1_0000_0000_0000,
        f@[0] % 2 == 1 || (delta > 0 && (f@[0] == 0 || g@[0] % 2 == 1))
    ensures
        // always: |rows| <= 2^62 (no overflow in fg / de), delta moves by at most 62
        ab(mt(ret__.1).0) + ab(mt(ret__.1).1) <= P62(), ab(mt(ret__.1).2) + ab(mt(ret__.1).3) <= P62(),
        ab(ret__.0 as int) <= ab(delta as int) + 62,
        // f[0] odd: delta and the transition matrix of 62 divsteps started at the low words
        f@[0] % 2 == 1 ==> (ret__.0 as int == divsteps_n(62, (delta as int, f@[0] as int, g@[0] as int)).0
            && mt(ret__.1) == tmat(62, (delta as int, f@[0] as int, g@[0] as int))),
        // f[0] even, g[0] odd: the same for the start (delta, f[0] + g[0], g[0]); the matrix is expressed in the basis (f + g, g)
        (f@[0] % 2 == 0 && g@[0] % 2 == 1) ==> (ret__.0 as int == divsteps_n(62, (delta as int, f@[0] as int + g@[0] as int, g@[0] as int)).0
            && (mt(ret__.1).0, mt(ret__.1).1 - mt(ret__.1).0, mt(ret__.1).2, mt(ret__.1).3 - mt(ret__.1).2)
                == tmat(62, (delta as int, f@[0] as int + g@[0] as int, g@[0] as int))),
        // f[0] == 0: explicit (z = trailing zeros of g[0]: z shifts, the swap, 62 - z shifts)
        (f@[0] == 0 && g@[0] == 0) ==> (ret__.0 as int == delta + 62 && mt(ret__.1) == (P62(), 0int, 0int, 1int)),
        (f@[0] == 0 && g@[0] != 0) ==> (tzn(g@[0] as int) <= 61 && ret__.0 as int == 62 - 2 * tzn(g@[0] as int) - delta
            && mt(ret__.1) == (0int, p2((62 - tzn(g@[0] as int)) as nat), -p2(tzn(g@[0] as int)), 0int))
//@-
{
//@+
    let ghost f0 = f@[0] as int; let ghost g0 = g@[0] as int; let ghost d0 = delta as int;
    let ghost s0 = (d0, f0, g0); let ghost se = (d0, f0 + g0, g0);
//@-
    // This function is defined because the method "min" of the i64 type is not constant
//@+
    #[verus_spec(m => ensures m == (if a > b { b } else { a }))]
//@-
    const fn min(a: i64, b: i64) -> i64 {
        if a > b { b } else { a }
    }
    let (mut steps, mut f, mut g) = (62, f[0] as i64, g[0] as i128);
    let mut t: Matrix = [[1, 0], [0, 1]];
//@+
    let ghost mut c: nat = 0; let ghost mut pend: nat = 0;
    // pre: before the first swap of an even-f run; trk: the divstep trajectory from sx is tracked (matrix in the basis given by adj)
    let ghost mut pre: bool = f0 % 2 == 0; let ghost mut trk: bool = f0 % 2 == 1;
    let ghost adj: int = if f0 % 2 == 1 { 0 } else { 1 }; let ghost sx = if f0 % 2 == 1 { s0 } else { se };
    let ghost mut cz: nat = 0;
    proof {
        sg_p2_succ(0); lemma2_to64_rest();
        let p0 = p2(0);
        assert(p0 * 1 == 1 && p0 * 0 == 0 && P62() * p0 == P62() && g0 * p0 == g0) by (nonlinear_arith) requires p0 == 1;
        assert(g as int / 1 == g as int);
    }
//@-
    loop
//@+
        invariant_except_break
            1 <= steps <= 62, c == 62 - steps, pend <= 5, pend <= steps,
            ab(f as int) <= P62(), (g as int) % p2(pend) == 0, ab(g as int) <= P62() * p2(pend),
            ab(t[0][0] as int) + ab(t[0][1] as int) <= p2(c), ab(t[1][0] as int) + ab(t[1][1] as int) <= p2(c + pend),
            ab(delta as int) <= ab(d0) + c,
            trk ==> ((f as int) % 2 == 1
                && divsteps_n(c + pend, sx) == (delta + pend, f as int, g as int / p2(pend))
                && tmat(c + pend, sx) == (p2(pend) * t[0][0], p2(pend) * (t[0][1] - adj * t[0][0]), t[1][0] as int, t[1][1] - adj * t[1][0])),
            pre ==> (f0 % 2 == 0 && f as int == f0 && pend == 0 && delta == d0 + c && g * p2(c) == g0 && mt(t) == (p2(c), 0int, 0int, 1int)),
            (f0 % 2 == 0 && !pre && g0 % 2 == 1) ==> trk,
            (f0 == 0 && !pre) ==> (g == 0 && mt(t) == (0int, 1int, -p2(c), 0int) && delta == -(d0 + c) && cz == c && g0 != 0 && cz == tzn(g0)),
        invariant
            f0 % 2 == 1 || (d0 > 0 && (f0 == 0 || g0 % 2 == 1)), 0 <= f0 < P62(), 0 <= g0 < P62(), -0x1_0000_0000_0000 <= d0 <= 0x1_0000_0000_0000,
            s0 == (d0, f0, g0), se == (d0, f0 + g0, g0), sx == (if f0 % 2 == 1 { s0 } else { se }), adj == (if f0 % 2 == 1 { 0int } else { 1int }),
            f0 % 2 == 1 ==> (trk && !pre), p2(62) == P62(),
        ensures
            ab(mt(t).0) + ab(mt(t).1) <= P62(), ab(mt(t).2) + ab(mt(t).3) <= P62(), ab(delta as int) <= ab(d0) + 62,
            f0 % 2 == 1 ==> (delta as int == divsteps_n(62, s0).0 && mt(t) == tmat(62, s0)),
            (f0 % 2 == 0 && g0 % 2 == 1) ==> (delta as int == divsteps_n(62, se).0
                && (mt(t).0, mt(t).1 - mt(t).0, mt(t).2, mt(t).3 - mt(t).2) == tmat(62, se)),
            (f0 == 0 && g0 == 0) ==> (delta as int == d0 + 62 && mt(t) == (P62(), 0int, 0int, 1int)),
            (f0 == 0 && g0 != 0) ==> (tzn(g0) <= 61 && delta as int == 62 - 2 * tzn(g0) - d0
                && mt(t) == (0int, p2((62 - tzn(g0)) as nat), -p2(tzn(g0)), 0int)),
        decreases steps - pend
//@-
{
//@+
        let ghost g_in = g; let ghost t_in = t; let ghost delta_in = delta; let ghost steps_in = steps; let ghost c_in = c;
        proof {
            assert forall|r: u32| #[trigger] i128_tz_ok(g, r) implies ({ let z: int = if steps > r as i64 { r as int } else { steps as int };
                pend <= z <= steps && (g as int) % p2(z as nat) == 0 && (z < steps ==> (g != 0 && ((g as int) / p2(z as nat)) % 2 == 1)) }) by {
                lemma_jump_tz(g, r, steps, pend);
            }
        }
//@-
        let zeros = min(steps, g.trailing_zeros() as i64);
        let (__t0, __t1, __t2) = (steps - zeros, delta + zeros, g >> zeros); steps = __t0; delta = __t1; g = __t2;
//@+
        proof { lemma_i128_shr(g_in, zeros); }
//@-
        t[0] = [t[0][0] << zeros, t[0][1] << zeros];
//@+
        proof {
            let z = zeros as nat; let pz = p2(z);
            let a = t_in[0][0] as int; let b = t_in[0][1] as int; let r2 = t_in[1][0] as int; let r3 = t_in[1][1] as int;
            lemma_jump_shl_pre(c, z, a, b);
            lemma_i64_shl(t_in[0][0], zeros); lemma_i64_shl(t_in[0][1], zeros);
            lemma_jump_shift_bounds(c, pend, z, g_in as int, g as int, a, b, r2, r3, t[0][0] as int, t[0][1] as int);
            sg_p2_add(c, z); sg_p2_pos(z);
            if trk {
                assert((b - adj * a) * pz == b * pz - adj * (a * pz)) by (nonlinear_arith);
                lemma_jump_shift_traj(c, pend, z, sx, delta_in as int, f as int, g_in as int, g as int,
                    a, b - adj * a, r2, r3 - adj * r2, t[0][0] as int, t[0][1] - adj * t[0][0]);
            }
            if pre {
                assert(g * (p2(c) * pz) == g0 && a * pz == p2(c) * pz && b * pz == 0) by (nonlinear_arith)
                    requires g_in as int == g * pz, g_in * p2(c) == g0, a == p2(c), b == 0;
            }
            if f0 == 0 && !pre {
                assert(g == 0);
                assert(a * pz == 0 && b * pz == pz) by (nonlinear_arith) requires a == 0, b == 1;
            }
            c = c + z; pend = 0;
            if steps == 0 {
                // all 62 steps are consumed: the postconditions
                if pre {
                    assert(g == 0 && g0 == 0) by (nonlinear_arith) requires g * P62() == g0, 0 <= g0 < P62();
                }
                if f0 == 0 && !pre {
                    assert(z == 62 - cz);
                }
            }
        }
//@-
        if steps == 0 {
            break;
        }
//@+
        let ghost swapped = delta > 0; let ghost f1 = f; let ghost g1 = g; let ghost d1 = delta; let ghost t1 = t;
        proof {
            assert((g as int) % 2 == 1);
            assert(p2(0) == 1) by { sg_p2_succ(0); }
            assert(g as int / 1 == g as int);
            if pre {
                // g is the odd part of g[0]
                sg_p2_pos(c);
                assert(g > 0) by (nonlinear_arith) requires g * p2(c) == g0, g0 >= 0, p2(c) > 0, g % 2 == 1;
                lemma_tzn(g0, c, g as int);
            }
            assert(!(f0 == 0 && !pre));
        }
//@-
        if delta > 0 {
            let (__t3, __t4, __t5) = (-delta, g as i64, -f as i128); delta = __t3; f = __t4; g = __t5;
            let (__t6, __t7) = (t[1], [-t[0][0], -t[0][1]]); t[0] = __t6; t[1] = __t7;
        }
        // The formula (3 * x) xor 28 = -1 / x (mod 32) for an odd integer x in the two's
        // complement code has been derived from the formula (3 * x) xor 2 = 1 / x (mod 32)
        // attributed to Peter Montgomery.
//@+
        let ghost k: int = if (if steps > 1 - delta { 1 - delta } else { steps as int }) > 5 { 5 } else { if steps > 1 - delta { 1 - delta } else { steps as int } };
        proof { lemma_one_shl_i64(k as i64); assert((f as int) % 2 == 1); }
//@-
        let mask = (1 << min(min(steps, 1 - delta), 5)) - 1;
        let w = (g as i64).wrapping_mul(f.wrapping_mul(3) ^ 28) & mask;
//@+
        let ghost g2 = g; let ghost t2 = t;
        proof {
            assert(g as i64 == g);
            lemma_jump_w(f, g as i64, k as i64, mask, w);
            lemma_jump_w_bounds(c, k as nat, w as int, t[0][0] as int, t[0][1] as int, t[1][0] as int, t[1][1] as int, f as int, g as int);
        }
//@-
        t[1] = [t[0][0] * w + t[1][0], t[0][1] * w + t[1][1]];
        g += w as i128 * f as i128;
//@+
        proof {
            let wi_ = w as int;
            let va = t2[0][0] as int; let vb = t2[0][1] - adj * t2[0][0]; let vr2 = t2[1][0] as int; let vr3 = t2[1][1] - adj * t2[1][0];
            assert(t[1][0] as int == va * wi_ + vr2);
            assert(t[1][1] - adj * t[1][0] == vb * wi_ + vr3) by (nonlinear_arith)
                requires t[1][1] as int == t2[0][1] * wi_ + t2[1][1], t[1][0] as int == t2[0][0] * wi_ + t2[1][0],
                    vb == t2[0][1] - adj * t2[0][0], vr3 == t2[1][1] - adj * t2[1][0];
            if trk {
                lemma_jump_wstep(c, k as nat, wi_, sx, swapped, d1 as int, f1 as int, g1 as int,
                    t1[0][0] as int, t1[0][1] - adj * t1[0][0], t1[1][0] as int, t1[1][1] - adj * t1[1][0],
                    delta as int, f as int, g2 as int, va, vb, vr2, vr3,
                    t[1][0] as int, t[1][1] - adj * t[1][0], g as int);
            }
            if pre {
                // the first swap of an even-f run
                if g0 % 2 == 1 {
                    // c == 0: the run is the divstep trajectory from (delta, f[0] + g[0], g[0]); w is even, the model uses w + 1
                    assert(c == 0 && g1 as int == g0);
                    lemma_w_even(f0, g0, wi_, k as nat);
                    sg_p2_succ((k - 1) as nat);
                    assert(-(f0 + g0) + (wi_ + 1) * g0 == g2 as int + wi_ * (f as int)) by (nonlinear_arith)
                        requires g2 as int == -f0, f as int == g0;
                    assert(divsteps_n(0, se) == se && tmat(0, se) == (1int, 0int, 0int, 1int));
                    lemma_ext_swap(0, k as nat, wi_ + 1, se);
                    assert(0 + k as nat == c + k as nat);
                    let pk = p2(k as nat);
                    assert(pk * 0 == 0 && pk * 1 == pk && (wi_ + 1) * 0 == 0 && (wi_ + 1) * 1 == wi_ + 1) by (nonlinear_arith);
                    trk = true;
                }
                if f0 == 0 {
                    assert(g2 == 0);
                    let yy = wi::wrapping_mul(f, 3) ^ 28;
                    lemma_iwmul_bv(0i64, yy);
                    assert(mul(0i64, yy) == 0) by (bit_vector);
                    assert(0i64 & mask == 0) by (bit_vector);
                    assert(w == 0);
                    assert(va * wi_ == 0 && t2[0][1] * wi_ == 0 && wi_ * (f as int) == 0) by (nonlinear_arith) requires wi_ == 0;
                    cz = c;
                }
                pre = false;
            }
            pend = k as nat;
        }
//@-
    }
    (delta, t)
}
//@@ end

//@@ fn src/uint.rs | impl<const LIMBS: usize> Uint<LIMBS> | as_words | stub | props C10
impl<const LIMBS: usize> Uint<LIMBS> {
#[verifier::external_body]
pub const fn as_words(&self) -> (ret__: &[Word; LIMBS])
//@+
    // ASSUMED: `Limb` is a repr(transparent) newtype of `Word`; the unsafe pointer cast reinterprets the limb array
    ensures forall|k: int| 0 <= k < LIMBS ==> ret__@[k] == self.limbs@[k].0
//@-
{
    unimplemented!()
}
}
//@@ end

//@@ macroblock src/modular/safegcd/macros.rs | impl_limb_convert | arm 0 | input_type=Word,input_bits=Word::BITS as usize,input=input,output_type=(u64),output_bits=62,output=output | limb_convert_sat_to_unsat | body | props C10 | sig pub const fn limb_convert_sat_to_unsat<const S: usize, const U: usize>(input: &[Word; S], output: &mut [u64; U])
pub const fn limb_convert_sat_to_unsat<const S: usize, const U: usize>(input: &[Word; S], output: &mut [u64; U])
//@+
    requires S * 64 <= 0xffff_ffff, U * 62 <= 0xffff_ffff, 
        forall|k: int| 0 <= k < U ==> old(output)@[k] == 0,
    ensures rv(final(output)@, U as nat, 62) == rv(input@, S as nat, 64) % p2(min_int(S * 64, U * 62) as nat),
        forall|k: int| 0 <= k < U ==> final(output)@[k] <= 0x3fff_ffff_ffff_ffffu64,
//@-
{
//@+
        let ghost n_in = S as nat; let ghost n_out = U as nat; let ghost nv = rv(input@, n_in, 64);
        proof {
            let wb = Word::BITS as usize; let li = input.len(); let lo = output.len();
            assert(li * wb == li * 64 && lo * wb == lo * 64) by (nonlinear_arith) requires wb == 64;
            lemma2_to64(); lemma2_to64_rest();
            assert forall|k: int| 0 <= k < n_in implies (#[trigger] input@[k] as int) < p2(64) by { }
            lemma_conv_init(nv, output@, n_out, 62);
        }
//@-
        // This function is defined because the method "min" of the usize type is not constant
//@+
        #[verus_spec(m => ensures m == (if a > b { b } else { a }))]
//@-
        const fn min(a: usize, b: usize) -> usize {
            if a > b {
                b
            } else {
                a
            }
        }
        let total = min(input.len() * Word::BITS as usize, output.len() * 62);
        let mut bits = 0;
        while bits < total
//@+
            invariant
                bits <= total, total as int == min_int((n_in * 64) as int, (n_out * 62) as int), n_in == S, n_out == U, nv == rv(input@, n_in, 64),
                n_in * 64 <= 0xffff_ffff, n_out * 62 <= 0xffff_ffff, output@.len() == n_out, input@.len() == n_in,
                forall|k: int| 0 <= k < n_in ==> (#[trigger] input@[k] as int) < p2(64),
                conv_inv(nv, output@, n_out, 62, bits as nat),
//@-
//@+
            decreases total - bits
//@-
{
//@+
            let ghost out0 = output@; let ghost b0 = bits as nat;
            proof {
                let wb = Word::BITS as usize;
                assert(bits % wb == bits % 64 && bits / wb == bits / 64);
                assert(b0 / 64 < n_in) by (nonlinear_arith) requires b0 < n_in * 64;
                assert(b0 / 62 < n_out) by (nonlinear_arith) requires b0 < n_out * 62;
            }
//@-
            let (i, o) = (bits % Word::BITS as usize, bits % 62);
            output[bits / 62] |= (input[bits / Word::BITS as usize] >> i) as (u64) << o;
//@+
            proof {
                let ko = (b0 / 62) as int; let j = (b0 / 64) as int;
                assert(output@ == out0.update(ko, output@[ko]));
                assert(output@[ko] == out0[ko] | ((input@[j] >> (i as u32)) << (o as u32)));
                lemma_conv_word(out0[ko], input@[j], i as u32, o as u32, 62, output@[ko]);
                let step = min_int(64 - b0 % 64, 62 - b0 % 62);
                lemma_conv_step(nv, input@, n_in, 64, out0, n_out, 62, b0, step as nat, output@[ko]);
                // the step does not pass the end
                assert(b0 + step <= total) by {
                    lemma_fundamental_div_mod(b0 as int, 64); lemma_fundamental_div_mod(b0 as int, 62);
                    assert(64 * (b0 / 64 + 1) <= 64 * n_in) by (nonlinear_arith) requires b0 / 64 + 1 <= n_in;
                    assert(62 * (b0 / 62 + 1) <= 62 * n_out) by (nonlinear_arith) requires b0 / 62 + 1 <= n_out;
                }
            }
//@-
            bits += min(Word::BITS as usize - i, 62 - o);
        }
        let mask = (<(u64)>::MAX as (u64)) >> (<(u64)>::BITS as usize - 62);
        let mut filled = total / 62 + if total % 62 > 0 { 1 } else { 0 };
//@+
        let ghost out1 = output@; let ghost filled0 = filled;
        proof {
            let wb = Word::BITS as usize;
            assert(total % wb == total % 64 && total / wb == total / 64);
            lemma_fundamental_div_mod(total as int, 62);
            assert(filled0 <= n_out) by (nonlinear_arith) requires total <= n_out * 62, total == 62 * (total / 62) + total % 62, 0 <= total % 62 < 62,
                filled0 == total / 62 + (if total % 62 > 0 { 1int } else { 0int });
            assert(0xffff_ffff_ffff_ffffu64 >> 2usize == 0x3fff_ffff_ffff_ffffu64 && 0xffff_ffff_ffff_ffffu64 >> 0usize == 0xffff_ffff_ffff_ffffu64) by (bit_vector);
        }
//@-
        while filled > 0
//@+
            invariant
                filled <= filled0 <= n_out, output@.len() == n_out, out1.len() == n_out,
                forall|k: int| filled <= k < filled0 ==> output@[k] == out1[k] & mask,
                forall|k: int| 0 <= k < n_out && (k < filled || k >= filled0) ==> output@[k] == out1[k],
//@-
//@+
            decreases filled
//@-
{
            filled -= 1;
            output[filled] &= mask;
        }
//@+
        proof {
            assert(mask == 0x3fff_ffff_ffff_ffffu64);
            assert(bits == total);
            lemma_fundamental_div_mod(total as int, 62);
            sg_p2_pos(62);
            assert forall|k: int| 0 <= k < n_out implies output@[k] as int == out1[k] as int % p2(62) by {
                let w = out1[k];
                if k < filled0 {
                    assert(w & 0x3fff_ffff_ffff_ffffu64 == w % 0x4000_0000_0000_0000u64) by (bit_vector);
                } else {
                    assert(62 * k >= total) by (nonlinear_arith) requires k >= filled0, total == 62 * (total / 62) + total % 62, total % 62 < 62,
                        filled0 == total / 62 + (if total % 62 > 0 { 1int } else { 0int });
                    assert(out1[k] == 0);
                    lemma_small_mod(0, p2(62) as nat);
                }
            }
            lemma_rvm_rv(out1, output@, n_out, 62);
        }
//@-
    }
//@@ end
//@@ macroblock src/modular/safegcd/macros.rs | impl_limb_convert | arm 0 | input_type=u64,input_bits=62,input=input,output_type=(Word),output_bits=Word::BITS as usize,output=output | limb_convert_unsat_to_sat | body | props C10 | sig pub const fn limb_convert_unsat_to_sat<const U: usize, const S: usize>(input: &[u64; U], output: &mut [Word; S])
pub const fn limb_convert_unsat_to_sat<const U: usize, const S: usize>(input: &[u64; U], output: &mut [Word; S])
//@+
    requires U * 62 <= 0xffff_ffff, S * 64 <= 0xffff_ffff, forall|k: int| 0 <= k < U ==> input@[k] <= 0x3fff_ffff_ffff_ffffu64,
        forall|k: int| 0 <= k < S ==> old(output)@[k] == 0,
    ensures rv(final(output)@, S as nat, 64) == rv(input@, U as nat, 62) % p2(min_int(U * 62, S * 64) as nat),
//@-
{
//@+
        let ghost n_in = U as nat; let ghost n_out = S as nat; let ghost nv = rv(input@, n_in, 62);
        proof {
            let wb = Word::BITS as usize; let li = input.len(); let lo = output.len();
            assert(li * wb == li * 64 && lo * wb == lo * 64) by (nonlinear_arith) requires wb == 64;
            lemma2_to64(); lemma2_to64_rest();
            assert forall|k: int| 0 <= k < n_in implies (#[trigger] input@[k] as int) < p2(62) by { }
            lemma_conv_init(nv, output@, n_out, 64);
        }
//@-
        // This function is defined because the method "min" of the usize type is not constant
//@+
        #[verus_spec(m => ensures m == (if a > b { b } else { a }))]
//@-
        const fn min(a: usize, b: usize) -> usize {
            if a > b {
                b
            } else {
                a
            }
        }
        let total = min(input.len() * 62, output.len() * Word::BITS as usize);
        let mut bits = 0;
        while bits < total
//@+
            invariant
                bits <= total, total as int == min_int((n_in * 62) as int, (n_out * 64) as int), n_in == U, n_out == S, nv == rv(input@, n_in, 62),
                n_in * 62 <= 0xffff_ffff, n_out * 64 <= 0xffff_ffff, output@.len() == n_out, input@.len() == n_in,
                forall|k: int| 0 <= k < n_in ==> (#[trigger] input@[k] as int) < p2(62),
                conv_inv(nv, output@, n_out, 64, bits as nat),
//@-
//@+
            decreases total - bits
//@-
{
//@+
            let ghost out0 = output@; let ghost b0 = bits as nat;
            proof {
                let wb = Word::BITS as usize;
                assert(bits % wb == bits % 64 && bits / wb == bits / 64);
                assert(b0 / 62 < n_in) by (nonlinear_arith) requires b0 < n_in * 62;
                assert(b0 / 64 < n_out) by (nonlinear_arith) requires b0 < n_out * 64;
            }
//@-
            let (i, o) = (bits % 62, bits % Word::BITS as usize);
            output[bits / Word::BITS as usize] |= (input[bits / 62] >> i) as (Word) << o;
//@+
            proof {
                let ko = (b0 / 64) as int; let j = (b0 / 62) as int;
                assert(output@ == out0.update(ko, output@[ko]));
                assert(output@[ko] == out0[ko] | ((input@[j] >> (i as u32)) << (o as u32)));
                lemma_conv_word(out0[ko], input@[j], i as u32, o as u32, 64, output@[ko]);
                let step = min_int(62 - b0 % 62, 64 - b0 % 64);
                lemma_conv_step(nv, input@, n_in, 62, out0, n_out, 64, b0, step as nat, output@[ko]);
                // the step does not pass the end
                assert(b0 + step <= total) by {
                    lemma_fundamental_div_mod(b0 as int, 62); lemma_fundamental_div_mod(b0 as int, 64);
                    assert(62 * (b0 / 62 + 1) <= 62 * n_in) by (nonlinear_arith) requires b0 / 62 + 1 <= n_in;
                    assert(64 * (b0 / 64 + 1) <= 64 * n_out) by (nonlinear_arith) requires b0 / 64 + 1 <= n_out;
                }
            }
//@-
            bits += min(62 - i, Word::BITS as usize - o);
        }
        let mask = (<(Word)>::MAX as (Word)) >> (<(Word)>::BITS as usize - Word::BITS as usize);
        let mut filled = total / Word::BITS as usize + if total % Word::BITS as usize > 0 { 1 } else { 0 };
//@+
        let ghost out1 = output@; let ghost filled0 = filled;
        proof {
            let wb = Word::BITS as usize;
            assert(total % wb == total % 64 && total / wb == total / 64);
            lemma_fundamental_div_mod(total as int, 64);
            assert(filled0 <= n_out) by (nonlinear_arith) requires total <= n_out * 64, total == 64 * (total / 64) + total % 64, 0 <= total % 64 < 64,
                filled0 == total / 64 + (if total % 64 > 0 { 1int } else { 0int });
            assert(0xffff_ffff_ffff_ffffu64 >> 2usize == 0x3fff_ffff_ffff_ffffu64 && 0xffff_ffff_ffff_ffffu64 >> 0usize == 0xffff_ffff_ffff_ffffu64) by (bit_vector);
        }
//@-
        while filled > 0
//@+
            invariant
                filled <= filled0 <= n_out, output@.len() == n_out, out1.len() == n_out,
                forall|k: int| filled <= k < filled0 ==> output@[k] == out1[k] & mask,
                forall|k: int| 0 <= k < n_out && (k < filled || k >= filled0) ==> output@[k] == out1[k],
//@-
//@+
            decreases filled
//@-
{
            filled -= 1;
            output[filled] &= mask;
        }
//@+
        proof {
            assert(mask == 0xffff_ffff_ffff_ffffu64);
            assert(bits == total);
            lemma_fundamental_div_mod(total as int, 64);
            sg_p2_pos(64);
            assert forall|k: int| 0 <= k < n_out implies output@[k] as int == out1[k] as int % p2(64) by {
                let w = out1[k];
                if k < filled0 {
                    assert(w & 0xffff_ffff_ffff_ffffu64 == w) by (bit_vector); lemma_small_mod(w as nat, p2(64) as nat);
                } else {
                    assert(64 * k >= total) by (nonlinear_arith) requires k >= filled0, total == 64 * (total / 64) + total % 64, total % 64 < 64,
                        filled0 == total / 64 + (if total % 64 > 0 { 1int } else { 0int });
                    assert(out1[k] == 0);
                    lemma_small_mod(0, p2(64) as nat);
                }
            }
            lemma_rvm_rv(out1, output@, n_out, 64);
        }
//@-
    }
//@@ end
//@@ fn src/modular/safegcd.rs | impl<const LIMBS: usize> UnsatInt<LIMBS> | from_uint | body | props C10
impl<const LIMBS: usize> UnsatInt<LIMBS> {
pub const fn from_uint<const SAT_LIMBS: usize>(input: &Uint<SAT_LIMBS>) -> (ret__: Self)
//@+
    // the panic guard is `LIMBS == safegcd_nlimbs!(64 SAT_LIMBS)`
    requires sg_nlimbs_ok(SAT_LIMBS as int, LIMBS as int), SAT_LIMBS <= 0x3ff_fffe
    ensures ret__.wf(), ret__.uv() == input.v(), ret__.sv() == input.v()
//@-
{
//@+
    proof {
        let b = Limb::BITS as usize; let s = SAT_LIMBS;
        assert(s * b == s * 64) by (nonlinear_arith) requires b == 64;
    }
//@-
        if LIMBS != safegcd_nlimbs!(SAT_LIMBS * Limb::BITS as usize) {
            panic!("incorrect number of limbs");
        }
        let mut output = [0; LIMBS];
        impl_limb_convert!(Word, Word::BITS as usize, input.as_words(), u64, 62, output);
//@+
        proof {
            let sn = SAT_LIMBS as nat; let un = LIMBS as nat;
            assert forall|w: Seq<u64>| (forall|k: int| 0 <= k < sn ==> w[k] == input.limbs@[k].0) implies #[trigger] rv(w, sn, 64) == input.v() by {
                lemma_rv_val(w, input.limbs@, sn);
            }
            lemma_rv_uval(output@, un);
            lemma_val_bound(input.limbs@, sn); lemma_bp_pow2(sn);
            assert(min_int(SAT_LIMBS * 64, LIMBS * 62) == 64 * sn);
            lemma_small_mod(input.v() as nat, p2(64 * sn) as nat);
            lemma_nlimbs_room(sn, un);
            let r = Self(output);
            assert(r.uv() == input.v());
            assert(2 * r.uv() < q62(un)) by (nonlinear_arith) requires r.uv() < bp(sn), bp(sn) * B() <= q62(un), bp(sn) > 0;
            assert(0 * q62(un) == 0);
        }
//@-
        Self(output)
    }
}
//@@ end
//@@ fn src/modular/safegcd.rs | impl<const LIMBS: usize> UnsatInt<LIMBS> | to_uint | body | props C10
impl<const LIMBS: usize> UnsatInt<LIMBS> {
pub const fn to_uint<const SAT_LIMBS: usize>(&self) -> (ret__: Uint<SAT_LIMBS>)
//@+
    // `debug_assert!(!self.is_negative())`, panic guard on the limb count
    requires self.wf(), self.sv() >= 0, sg_nlimbs_ok(SAT_LIMBS as int, LIMBS as int), SAT_LIMBS <= 0x3ff_fffe
    ensures ret__.v() == self.uv() % bp(SAT_LIMBS as nat)
//@-
{
//@+
    proof {
        let b = Limb::BITS as usize; let s = SAT_LIMBS;
        assert(s * b == s * 64) by (nonlinear_arith) requires b == 64;
    }
    proof { self.lemma_range(); }
//@-
        debug_assert!(
            !self.is_negative().to_bool_vartime(),
            "can't convert negative number to Uint"
        );
        if LIMBS != safegcd_nlimbs!(SAT_LIMBS * Limb::BITS as usize) {
            panic!("incorrect number of limbs");
        }
        let mut ret = [0 as Word; SAT_LIMBS];
        impl_limb_convert!(u64, 62, &self.0, Word, Word::BITS as usize, ret);
//@+
        proof {
            let sn = SAT_LIMBS as nat; let un = LIMBS as nat;
            assert forall|l: Seq<Limb>| (forall|k: int| 0 <= k < sn ==> l[k].0 == ret@[k]) implies #[trigger] val(l, sn) == rv(ret@, sn, 64) by {
                lemma_rv_val(ret@, l, sn);
            }
            lemma_rv_uval(self.0@, un);
            lemma_bp_pow2(sn);
            assert(min_int(LIMBS * 62, SAT_LIMBS * 64) == 64 * sn);
        }
//@-
        Uint::from_words(ret)
    }
}
//@@ end
//@@ fn src/modular/safegcd/boxed.rs | - | unsat_nlimbs_for_sat_nlimbs | body | props C10
pub fn unsat_nlimbs_for_sat_nlimbs(saturated_nlimbs: usize) -> (ret__: usize)
//@+
    requires saturated_nlimbs <= 0x3ff_fffe
    ensures sg_nlimbs_ok(saturated_nlimbs as int, ret__ as int)
//@-
{
    let saturated_nlimbs = if Word::BITS == 32 && saturated_nlimbs == 1 {
        2
    } else {
        saturated_nlimbs
    };
//@+
    proof {
        let b = Limb::BITS as usize; let s = saturated_nlimbs;
        assert(s * b == s * 64) by (nonlinear_arith) requires b == 64;
    }
//@-
    safegcd_nlimbs!(saturated_nlimbs * Limb::BITS as usize)
}
//@@ end
//@@ fn src/modular/safegcd.rs | impl<const SAT_LIMBS: usize, const UNSAT_LIMBS: usize> SafeGcdInverter<SAT_LIMBS, UNSAT_LIMBS> | new | body | props C10
impl<const SAT_LIMBS: usize, const UNSAT_LIMBS: usize> SafeGcdInverter<SAT_LIMBS, UNSAT_LIMBS> {
pub const fn new(modulus: &Odd<Uint<SAT_LIMBS>>, adjuster: &Uint<SAT_LIMBS>) -> (ret__: Self)
//@+
    requires 1 <= SAT_LIMBS <= 0x3ff_fffe, sg_nlimbs_ok(SAT_LIMBS as int, UNSAT_LIMBS as int)
    ensures ret__.modulus.wf(), ret__.modulus.sv() == modulus.0.v(), ret__.adjuster.wf(), ret__.adjuster.sv() == adjuster.v(),
        0 <= ret__.inverse < 0x4000_0000_0000_0000,
        modulus.0.v() % 2 == 1 ==> (modulus.0.v() * ret__.inverse as int) % P62() == 1,
        (((modulus.0.v() % 2 == 1 && adjuster.v() <= modulus.0.v()) || (modulus.0.v() == 0 && adjuster.v() <= 1)) && UNSAT_LIMBS <= SG_MAX_UNSAT()) ==> ret__.wf()
//@-
{
//@+
    proof {
        let l0 = modulus.0.limbs@[0].0 as int; let mv = modulus.0.v();
        lemma_val_low(modulus.0.limbs@, SAT_LIMBS as nat);
        lemma_val_bound(modulus.0.limbs@, SAT_LIMBS as nat); lemma_val_bound(adjuster.limbs@, SAT_LIMBS as nat);
        assert forall|iv: int| (l0 * iv) % P62() == 1 implies (#[trigger] (mv * iv)) % P62() == 1 by { lemma_low_inverse(mv, l0, iv); }
    }
//@-
        Self {
            modulus: UnsatInt::from_uint(&modulus.0),
            adjuster: UnsatInt::from_uint(adjuster),
            inverse: inv_mod2_62(modulus.0.as_words()),
        }
    }
}
//@@ end
//@@ fn src/modular/safegcd.rs | impl<const SAT_LIMBS: usize, const UNSAT_LIMBS: usize> SafeGcdInverter<SAT_LIMBS, UNSAT_LIMBS> | norm | body | props C10
impl<const SAT_LIMBS: usize, const UNSAT_LIMBS: usize> SafeGcdInverter<SAT_LIMBS, UNSAT_LIMBS> {
pub const fn norm(
        &self,
        mut value: UnsatInt<UNSAT_LIMBS>,
        negate: ConstChoice,
    ) -> (ret__: UnsatInt<UNSAT_LIMBS>)
//@+
    // total (every step is a wrapping operation); the functional facts need the documented input range (-2M, M]
    requires self.modulus.wf(), value.wf(), negate.wf()
    ensures ret__.wf(),
        (self.modulus.sv() >= 1 && 8 * self.modulus.sv() <= q62(UNSAT_LIMBS as nat) && -2 * self.modulus.sv() < value.sv() <= self.modulus.sv()) ==> (
            0 <= ret__.sv() <= self.modulus.sv()
            && ((value.sv() < self.modulus.sv() || negate.t()) ==> ret__.sv() < self.modulus.sv())
            && cong(ret__.sv(), if negate.t() { -value.sv() } else { value.sv() }, self.modulus.sv())),
        // modulus 0 (Uint::inv_mod with a zero modulus): the value passes through
        (self.modulus.sv() == 0 && !negate.t() && 0 <= value.sv() <= 1) ==> ret__.sv() == value.sv()
//@-
{
//@+
    let ghost v0 = value.sv(); let ghost mm = self.modulus.sv();
    let ghost ok = mm >= 1 && 8 * mm <= q62(UNSAT_LIMBS as nat) && -2 * mm < v0 <= mm;
    let ghost zk = mm == 0 && !negate.t() && 0 <= v0 <= 1;
    proof { value.lemma_range(); self.modulus.lemma_range(); }
//@-
        value = UnsatInt::select(&value, &value.add(&self.modulus), value.is_negative());
//@+
    let ghost v1 = value.sv();
    proof { if ok { assert(v1 == if v0 < 0 { v0 + mm } else { v0 }); } if zk { assert(v1 == v0); } assert(value.wf()); }
//@-
        value = UnsatInt::select(&value, &value.neg(), negate);
//@+
    let ghost v2 = value.sv();
    proof { if ok { assert(v2 == if negate.t() { -v1 } else { v1 }); } if zk { assert(v2 == v0); } assert(value.wf()); }
//@-
        value = UnsatInt::select(&value, &value.add(&self.modulus), value.is_negative());
//@+
    proof {
        let v3 = value.sv();
        if zk { assert(v3 == v0); }
        if ok {
            assert(v3 == if v2 < 0 { v2 + mm } else { v2 });
            let a: int = if v0 < 0 { 1 } else { 0 }; let sg: int = if negate.t() { -1 } else { 1 }; let b: int = if v2 < 0 { 1 } else { 0 };
            let tgt = if negate.t() { -v0 } else { v0 };
            assert(v3 - tgt == (sg * a + b) * mm) by (nonlinear_arith)
                requires v1 == v0 + a * mm, v2 == sg * v1, v3 == v2 + b * mm, tgt == sg * v0, sg == 1 || sg == -1;
            lemma_cong_mult(v3, tgt, sg * a + b, mm);
        }
    }
//@-
        value
    }
}
//@@ end
//@@ fn src/modular/safegcd.rs | - | fg | body | props C10
pub const fn fg<const LIMBS: usize>(
    f: UnsatInt<LIMBS>,
    g: UnsatInt<LIMBS>,
    t: Matrix,
) -> (ret__: (UnsatInt<LIMBS>, UnsatInt<LIMBS>))
//@+
    requires f.wf(), g.wf(), ab(mt(t).0) + ab(mt(t).1) <= P62(), ab(mt(t).2) + ab(mt(t).3) <= P62(),
        4 * P62() * ab(f.sv()) <= q62(LIMBS as nat), 4 * P62() * ab(g.sv()) <= q62(LIMBS as nat)
    ensures ret__.0.wf(), ret__.1.wf(),
        ret__.0.sv() == (mt(t).0 * f.sv() + mt(t).1 * g.sv()) / P62(),
        ret__.1.sv() == (mt(t).2 * f.sv() + mt(t).3 * g.sv()) / P62()
//@-
{
//@+
    proof {
        let n = LIMBS as nat; let ff = f.sv(); let gg = g.sv(); let q = q62(n);
        let t0 = mt(t).0; let t1 = mt(t).1; let t2 = mt(t).2; let t3 = mt(t).3;
        lemma_abs_mul_bound(t0, ff, P62()); lemma_abs_mul_bound(t1, gg, P62()); lemma_abs_mul_bound(t2, ff, P62()); lemma_abs_mul_bound(t3, gg, P62());
        assert(ff * t0 == t0 * ff && gg * t1 == t1 * gg && ff * t2 == t2 * ff && gg * t3 == t3 * gg) by (nonlinear_arith);
        let w = if ab(ff) < ab(gg) { ab(gg) } else { ab(ff) };
        lemma_abs_mul_bound(ff, t0, w); lemma_abs_mul_bound(gg, t1, w); lemma_abs_mul_bound(ff, t2, w); lemma_abs_mul_bound(gg, t3, w);
        assert(w * ab(t0) + w * ab(t1) <= w * P62()) by (nonlinear_arith) requires ab(t0) + ab(t1) <= P62(), w >= 0;
        assert(w * ab(t2) + w * ab(t3) <= w * P62()) by (nonlinear_arith) requires ab(t2) + ab(t3) <= P62(), w >= 0;
        assert(4 * (w * P62()) <= q) by (nonlinear_arith) requires 4 * P62() * w <= q;
        lemma_q62_ge(n);
        assert(ab(ff * t0) <= w * ab(t0) && ab(gg * t1) <= w * ab(t1) && ab(ff * t2) <= w * ab(t2) && ab(gg * t3) <= w * ab(t3));
        assert(ab(ff * t0 + gg * t1) <= w * P62() && ab(ff * t2 + gg * t3) <= w * P62());
        assert(sfits(ff * t0 + gg * t1, n) && sfits(ff * t2 + gg * t3, n));
        lemma_wrap2(ff * t0, gg * t1, n); lemma_wrap2(ff * t2, gg * t3, n);
    }
//@-
    (
        f.mul(t[0][0]).add(&g.mul(t[0][1])).shr(),
        f.mul(t[1][0]).add(&g.mul(t[1][1])).shr(),
    )
}
//@@ end
//@@ fn src/modular/safegcd.rs | - | de | body | props C10
pub const fn de<const LIMBS: usize>(
    modulus: &UnsatInt<LIMBS>,
    inverse: i64,
    t: Matrix,
    d: UnsatInt<LIMBS>,
    e: UnsatInt<LIMBS>,
) -> (ret__: (UnsatInt<LIMBS>, UnsatInt<LIMBS>))
//@+
    // total for every modulus / inverse (all steps wrap); the functional facts are conditional
    requires modulus.wf(), d.wf(), e.wf(), ab(mt(t).0) + ab(mt(t).1) <= P62(), ab(mt(t).2) + ab(mt(t).3) <= P62()
    ensures ret__.0.wf(), ret__.1.wf(),
        de_pre(modulus.sv(), inverse as int, d.sv(), e.sv(), LIMBS as nat) ==> (
            -2 * modulus.sv() < ret__.0.sv() <= modulus.sv() && -2 * modulus.sv() < ret__.1.sv() <= modulus.sv()
            && ((d.sv() < modulus.sv() && e.sv() < modulus.sv()) ==> (ret__.0.sv() < modulus.sv() && ret__.1.sv() < modulus.sv()))
            && cong(P62() * ret__.0.sv(), mt(t).0 * d.sv() + mt(t).1 * e.sv(), modulus.sv())
            && cong(P62() * ret__.1.sv(), mt(t).2 * d.sv() + mt(t).3 * e.sv(), modulus.sv())),
        // modulus 0: plain floor division
        (modulus.sv() == 0 && LIMBS >= 2 && ab(d.sv()) <= 1 && ab(e.sv()) <= 1) ==> (
            ret__.0.sv() == (mt(t).0 * d.sv() + mt(t).1 * e.sv()) / P62()
            && ret__.1.sv() == (mt(t).2 * d.sv() + mt(t).3 * e.sv()) / P62())
//@-
{
//@+
    let ghost n = LIMBS as nat; let ghost mm = modulus.sv(); let ghost dd = d.sv(); let ghost ee = e.sv(); let ghost q = q62(n);
    let ghost t0 = mt(t).0; let ghost t1 = mt(t).1; let ghost t2 = mt(t).2; let ghost t3 = mt(t).3;
    let ghost nd: int = if dd < 0 { 1 } else { 0 }; let ghost ne: int = if ee < 0 { 1 } else { 0 };
    let ghost dl = d.0@[0] as int; let ghost el = e.0@[0] as int;
    proof {
        lemma_low_limb(d); lemma_low_limb(e); d.lemma_range(); e.lemma_range(); modulus.lemma_range();
        assert(t0 * nd == (if nd == 0 { 0 } else { t0 }) && t1 * ne == (if ne == 0 { 0 } else { t1 })
            && t2 * nd == (if nd == 0 { 0 } else { t2 }) && t3 * ne == (if ne == 0 { 0 } else { t3 })) by (nonlinear_arith)
            requires nd == 0 || nd == 1, ne == 0 || ne == 1;
        assert(d.0@[0] <= 0x3fff_ffff_ffff_ffffu64 && e.0@[0] <= 0x3fff_ffff_ffff_ffffu64);
    }
//@-
    let mask = UnsatInt::<LIMBS>::MASK() as i64;
    let mut md =
        t[0][0] * d.is_negative().to_u8() as i64 + t[0][1] * e.is_negative().to_u8() as i64;
    let mut me =
        t[1][0] * d.is_negative().to_u8() as i64 + t[1][1] * e.is_negative().to_u8() as i64;
//@+
    let ghost md0 = md as int; let ghost me0 = me as int;
    proof { assert(md0 == t0 * nd + t1 * ne && me0 == t2 * nd + t3 * ne); }
//@-
    let cd = t[0][0]
        .wrapping_mul(d.lowest() as i64)
        .wrapping_add(t[0][1].wrapping_mul(e.lowest() as i64))
        & mask;
//@+
    proof {
        let w1 = wi::wrapping_mul(t[0][0], d.0@[0] as i64); let w2 = wi::wrapping_mul(t[0][1], e.0@[0] as i64); let w3 = wi::wrapping_add(w1, w2);
        lemma_iwrap(t[0][0], d.0@[0] as i64); lemma_iwrap(t[0][1], e.0@[0] as i64); lemma_iwrap(w1, w2);
        lemma_and_mask_i64(w3, cd);
        lemma_word_lin(t0, dl, t1, el, w1 as int, w2 as int, w3 as int, cd as int);
    }
//@-
    let ce = t[1][0]
        .wrapping_mul(d.lowest() as i64)
        .wrapping_add(t[1][1].wrapping_mul(e.lowest() as i64))
        & mask;
//@+
    proof {
        let w1 = wi::wrapping_mul(t[1][0], d.0@[0] as i64); let w2 = wi::wrapping_mul(t[1][1], e.0@[0] as i64); let w3 = wi::wrapping_add(w1, w2);
        lemma_iwrap(t[1][0], d.0@[0] as i64); lemma_iwrap(t[1][1], e.0@[0] as i64); lemma_iwrap(w1, w2);
        lemma_and_mask_i64(w3, ce);
        lemma_word_lin(t2, dl, t3, el, w1 as int, w2 as int, w3 as int, ce as int);
    }
    let ghost kd = (wi::wrapping_add(wi::wrapping_mul(inverse, cd), md) & mask) as int;
    let ghost ke = (wi::wrapping_add(wi::wrapping_mul(inverse, ce), me) & mask) as int;
    proof {
        let w1 = wi::wrapping_mul(inverse, cd); let w3 = wi::wrapping_add(w1, md);
        lemma_iwrap(inverse, cd); lemma_iwrap(w1, md); lemma_iwrap(inverse, ce);
        assert(cong(md0, 1 * md0, B()) && cong(me0, 1 * me0, B()));
        lemma_and_mask_i64(w3, w3 & mask);
        lemma_word_lin(inverse as int, cd as int, 1, md0, w1 as int, md0, w3 as int, kd);
        let v1 = wi::wrapping_mul(inverse, ce); let v3 = wi::wrapping_add(v1, me);
        lemma_iwrap(v1, me);
        lemma_and_mask_i64(v3, v3 & mask);
        lemma_word_lin(inverse as int, ce as int, 1, me0, v1 as int, me0, v3 as int, ke);
    }
//@-
    md -= (inverse.wrapping_mul(cd).wrapping_add(md)) & mask;
    me -= (inverse.wrapping_mul(ce).wrapping_add(me)) & mask;
//@+
    proof {
        assert(md as int == md0 - kd && me as int == me0 - ke);
        if de_pre(mm, inverse as int, dd, ee, n) {
        let totd = dd * t0 + ee * t1 + mm * (md0 - kd); let tote = dd * t2 + ee * t3 + mm * (me0 - ke);
        lemma_de_divisible(dd, ee, mm, t0, t1, dl, el, cd as int, inverse as int, md0, kd);
        lemma_de_divisible(dd, ee, mm, t2, t3, dl, el, ce as int, inverse as int, me0, ke);
        lemma_fundamental_div_mod(totd, P62()); lemma_fundamental_div_mod(tote, P62());
        let rd = totd / P62(); let re = tote / P62();
        lemma_de_range(dd, ee, mm, t0, t1, md0, kd, rd, 0); lemma_de_range(dd, ee, mm, t2, t3, me0, ke, re, 0);
        if dd < mm && ee < mm { lemma_de_range(dd, ee, mm, t0, t1, md0, kd, rd, 1); lemma_de_range(dd, ee, mm, t2, t3, me0, ke, re, 1); }
        // the sums fit (the intermediate ones may wrap)
        assert(P62() * (2 * mm) * 2 <= q) by (nonlinear_arith) requires mm * B() <= q, mm >= 1;
        assert(ab(totd) <= P62() * (2 * mm) && ab(tote) <= P62() * (2 * mm)) by (nonlinear_arith)
            requires totd == P62() * rd, tote == P62() * re, -2 * mm < rd <= mm, -2 * mm < re <= mm;
        assert(mm * (md0 - kd) == mm * (md as int) && mm * (me0 - ke) == mm * (me as int));
        lemma_wrap3(dd * t0, ee * t1, mm * (md as int), n); lemma_wrap3(dd * t2, ee * t3, mm * (me as int), n);
        // congruence modulo M
        assert(P62() * rd - (t0 * dd + t1 * ee) == (md0 - kd) * mm) by (nonlinear_arith) requires P62() * rd == dd * t0 + ee * t1 + mm * (md0 - kd);
        assert(P62() * re - (t2 * dd + t3 * ee) == (me0 - ke) * mm) by (nonlinear_arith) requires P62() * re == dd * t2 + ee * t3 + mm * (me0 - ke);
        lemma_cong_mult(P62() * rd, t0 * dd + t1 * ee, md0 - kd, mm); lemma_cong_mult(P62() * re, t2 * dd + t3 * ee, me0 - ke, mm);
        }
        if mm == 0 && LIMBS >= 2 && ab(dd) <= 1 && ab(ee) <= 1 {
            let mdi = md as int; let mei = me as int;
            assert(mm * mdi == 0 && mm * mei == 0) by (nonlinear_arith) requires mm == 0;
            lemma_abs_mul_bound(dd, t0, 1); lemma_abs_mul_bound(ee, t1, 1); lemma_abs_mul_bound(dd, t2, 1); lemma_abs_mul_bound(ee, t3, 1);
            lemma_q62_succ((n - 1) as nat); lemma_q62_ge((n - 1) as nat);
            assert(q >= P62() * P62()) by (nonlinear_arith) requires q == P62() * q62((n - 1) as nat), q62((n - 1) as nat) >= P62();
            assert(dd * t0 == t0 * dd && ee * t1 == t1 * ee && dd * t2 == t2 * dd && ee * t3 == t3 * ee) by (nonlinear_arith);
            lemma_wrap3(dd * t0, ee * t1, 0, n); lemma_wrap3(dd * t2, ee * t3, 0, n);
        }
    }
//@-
    let cd = d.mul(t[0][0]).add(&e.mul(t[0][1])).add(&modulus.mul(md));
    let ce = d.mul(t[1][0]).add(&e.mul(t[1][1])).add(&modulus.mul(me));
    (cd.shr(), ce.shr())
}
//@@ end
//@@ fn src/modular/safegcd.rs | - | divsteps | body | props C10
pub const fn divsteps<const LIMBS: usize>(
    mut e: UnsatInt<LIMBS>,
    f_0: UnsatInt<LIMBS>,
    mut g: UnsatInt<LIMBS>,
    inverse: i64,
) -> (ret__: (UnsatInt<LIMBS>, UnsatInt<LIMBS>))
//@+
    // domain: f_0 odd (modular inversion, gcd), f_0 == 0 (Uint::inv_mod with a zero modulus, gcd(0, g)), or f_0 even and g odd (Uint::gcd)
    requires e.wf(), f_0.wf(), g.wf(), 2 <= LIMBS <= SG_MAX_UNSAT(),
        f_0.sv() >= 0, g.sv() >= 0, f_0.sv() * B() <= q62(LIMBS as nat), g.sv() * B() <= q62(LIMBS as nat),
        f_0.sv() % 2 == 1 || f_0.sv() == 0 || g.sv() % 2 == 1,
        f_0.sv() == 0 ==> 0 <= e.sv() <= 1,
    ensures ret__.0.wf(), ret__.1.wf(),
        // |f| = gcd(f_0, g)   (f_0 == 0 with an even non-zero g: f is the odd part of g)
        (f_0.sv() != 0 || g.sv() % 2 == 1 || g.sv() == 0) ==> ab(ret__.1.sv()) == sg_gcd(f_0.sv() as nat, g.sv() as nat),
        ab(ret__.1.sv()) <= max_int(f_0.sv(), g.sv()),
        f_0.sv() == 0 ==> (ret__.1.sv() >= 0 && 0 <= ret__.0.sv() <= 1),
        // f_0 = M odd with its inverse modulo 2^62, e in (-2M, M]:  d in (-2M, M] (in (-2M, M) when e < M) and d * g ≡ f * e (mod M)
        ds_dpre(f_0.sv(), inverse as int, e.sv(), LIMBS as nat) ==> (
            -2 * f_0.sv() < ret__.0.sv() <= f_0.sv() && (e.sv() < f_0.sv() ==> ret__.0.sv() < f_0.sv())
            && cong(ret__.0.sv() * g.sv(), ret__.1.sv() * e.sv(), f_0.sv()))
//@-
{
//@+
    let ghost mm = f_0.sv(); let ghost x = g.sv(); let ghost aa = e.sv();
    let ghost meff = if mm % 2 == 1 { mm } else { mm + x }; let ghost s0 = (1int, meff, x);
    let ghost bnd = max_int(mm, x); let ghost n = LIMBS as nat; let ghost q = q62(n);
    let ghost dm = ds_dpre(mm, inverse as int, aa, n);
    let ghost mut zp: bool = true;
    proof {
        f_0.lemma_range(); g.lemma_range(); e.lemma_range(); lemma2_to64_rest(); lemma_q62_ge(n); lemma_q62_pow2(n);
        assert(p2(62) == P62());
        sg_p2_succ(0);
    }
//@-
    let mut d = UnsatInt::ZERO();
    let mut f = f_0;
    let mut delta = 1;
    let mut matrix;
    let mut i = 0;
    let m = iterations(f_0.bits(), g.bits());
//@+
    proof {
        assert forall|bf: u32, bg: u32| mm < p2(bf as nat) && x < p2(bg as nat) && m as int == #[trigger] sg_iterations(max_int(bf as int, bg as int))
            implies (mm != 0 ==> divsteps_n((62 * m) as nat, s0).2 == 0) && (mm == 0 ==> x < p2((62 * m) as nat)) by {
            let dbits = max_int(bf as int, bg as int) as nat;
            sg_p2_mono(bf as nat, dbits); sg_p2_mono(bg as nat, dbits);
            if mm % 2 == 1 {
                // Bernstein-Yang Theorem 11.2 for the number of rounds the code actually computed
                axiom_bernstein_yang_bound(mm, x, dbits, m as nat);
            } else if mm != 0 {
                // even f_0, odd g: the extension (second axiom)
                axiom_bernstein_yang_bound_even_f_odd_g(mm, x, dbits, m as nat);
            } else {
                // f_0 == 0: no axiom; 62 m >= bits(g) halvings are enough
                sg_p2_mono(bg as nat, (62 * m) as nat);
            }
        }
        assert((mm != 0 ==> divsteps_n((62 * m) as nat, s0).2 == 0) && (mm == 0 ==> x < p2((62 * m) as nat)));
        assert(m <= 0x1000_0000);
    }
//@-
//@+
    proof {
        let d0 = d.sv(); let f0v = f.sv(); let e0 = e.sv(); let g0v = g.sv();
        if dm {
            assert(d0 * x == 0) by (nonlinear_arith) requires d0 == 0;
            assert(0 - f0v * aa == (-aa) * mm) by (nonlinear_arith) requires f0v == mm;
            lemma_cong_mult(0, f0v * aa, -aa, mm);
            assert(e0 * x - g0v * aa == 0 * mm) by (nonlinear_arith) requires e0 == aa, g0v == x;
            lemma_cong_mult(e0 * x, g0v * aa, 0, mm);
        }
        assert(g0v * p2(0) == x) by (nonlinear_arith) requires g0v == x, p2(0) == 1;
        assert(divsteps_n(0, s0) == s0);
    }
//@-
    while i < m
//@+
        invariant
            i <= m, m <= 0x1000_0000, (mm != 0 ==> divsteps_n((62 * m) as nat, s0).2 == 0) && (mm == 0 ==> x < p2((62 * m) as nat)),
            f.wf(), g.wf(), d.wf(), e.wf(), f_0.wf(), mm == f_0.sv(), n == LIMBS as nat, q == q62(n), 2 <= LIMBS <= SG_MAX_UNSAT(),
            mm >= 0, x >= 0, mm * B() <= q, x * B() <= q, bnd == max_int(mm, x), meff == (if mm % 2 == 1 { mm } else { mm + x }), s0 == (1int, meff, x),
            p2(62) == P62(), mm % 2 == 1 || mm == 0 || x % 2 == 1, dm == ds_dpre(mm, inverse as int, aa, n),
            ab(delta as int) <= 1 + 62 * i, ab(f.sv()) <= bnd, ab(g.sv()) <= bnd,
            mm != 0 ==> ((i == 0 ==> (delta as int, f.sv(), g.sv()) == (1int, mm, x))
                && ((i >= 1 || mm % 2 == 1) ==> (delta as int, f.sv(), g.sv()) == divsteps_n((62 * i) as nat, s0))),
            dm ==> (cong(d.sv() * x, f.sv() * aa, mm) && cong(e.sv() * x, g.sv() * aa, mm)
                && -2 * mm < d.sv() <= mm && -2 * mm < e.sv() <= mm && (aa < mm ==> (d.sv() < mm && e.sv() < mm))),
            mm == 0 ==> ((zp ==> (f.sv() == 0 && delta == 1 + 62 * i && g.sv() * p2((62 * i) as nat) == x && d.sv() == 0 && 0 <= e.sv() <= 1))
                && (!zp ==> (g.sv() == 0 && f.sv() % 2 == 1 && 0 < f.sv() <= x && (x % 2 == 1 ==> f.sv() == x) && 0 <= d.sv() <= 1 && e.sv() == 0))),
        decreases m - i
//@-
{
//@+
        let ghost st = (delta as int, f.sv(), g.sv()); let ghost f0w = f.0@[0] as int; let ghost g0w = g.0@[0] as int;
        let ghost dd = d.sv(); let ghost ee = e.sv(); let ghost dl = delta as int;
        let ghost first_even = mm != 0 && mm % 2 == 0 && i == 0;
        proof {
            lemma_low_limb(f); lemma_low_limb(g);
            assert(f.0@[0] <= 0x3fff_ffff_ffff_ffffu64 && g.0@[0] <= 0x3fff_ffff_ffff_ffffu64);
            if mm != 0 && !first_even {
                if mm % 2 == 1 { lemma_divsteps((62 * i) as nat, s0, bnd); } else { lemma_even_start((62 * i) as nat, mm, x); }
            }
            if mm == 0 && zp {
                // f == 0: its low limb is 0
                let kk = lemma_cong_wit(0, f0w, P62());
                assert(f0w == 0) by (nonlinear_arith) requires 0 - f0w == kk * P62(), 0 <= f0w < P62();
            }
            if mm == 0 && !zp {
                let kk = lemma_cong_wit(0, g0w, P62());
                assert(g0w == 0) by (nonlinear_arith) requires 0 - g0w == kk * P62(), 0 <= g0w < P62();
            }
            // room for fg
            assert(4 * P62() * bnd <= q);
        }
//@-
        let (__t0, __t1) = jump(&f.0, &g.0, delta); delta = __t0; matrix = __t1;
//@+
        let ghost tm = mt(matrix); let ghost d2 = delta as int;
//@-
        let (__t2, __t3) = fg(f, g, matrix); f = __t2; g = __t3;
        let (__t4, __t5) = de(&f_0, inverse, matrix, d, e); d = __t4; e = __t5;
//@+
        proof {
            let f2 = f.sv(); let g2 = g.sv();
            if mm != 0 {
                if first_even {
                    lemma_round_even_first(mm, x, f0w, g0w, d2, tm, f2, g2);
                    assert((62 * (i + 1)) as nat == 62nat);
                } else {
                    lemma_round_normal((62 * i) as nat, s0, meff + x, st, f0w, g0w, d2, tm, f2, g2);
                    assert((62 * i) as nat + 62 == (62 * (i + 1)) as nat);
                    if mm % 2 == 1 { lemma_divsteps((62 * (i + 1)) as nat, s0, bnd); } else { lemma_even_start((62 * (i + 1)) as nat, mm, x); }
                    if dm {
                        lemma_de_step(mm, x, aa, dd, ee, st.1, st.2, tm.0, tm.1, d.sv(), f2);
                        lemma_de_step(mm, x, aa, dd, ee, st.1, st.2, tm.2, tm.3, e.sv(), g2);
                    }
                }
            } else {
                if zp {
                    sg_p2_pos((62 * i) as nat);
                    assert(st.2 >= 0) by (nonlinear_arith) requires st.2 * p2((62 * i) as nat) == x, x >= 0, p2((62 * i) as nat) > 0;
                    lemma_round_zero_pre(st.2, g0w, ee, dl, d2, tm, f2, g2, d.sv(), e.sv());
                    assert(tm.0 * dd == tm.0 * 0 && tm.2 * dd == tm.2 * 0) by (nonlinear_arith) requires dd == 0;
                    assert(tm.0 * st.1 == tm.0 * 0 && tm.2 * st.1 == tm.2 * 0) by (nonlinear_arith) requires st.1 == 0;
                    if g0w == 0 {
                        sg_p2_add((62 * i) as nat, 62);
                        assert((62 * i) as nat + 62 == (62 * (i + 1)) as nat);
                        assert(g2 * p2((62 * (i + 1)) as nat) == x) by (nonlinear_arith)
                            requires g2 * P62() == st.2, st.2 * p2((62 * i) as nat) == x, p2((62 * (i + 1)) as nat) == p2((62 * i) as nat) * P62();
                        sg_p2_pos((62 * (i + 1)) as nat);
                        assert(0 <= g2 <= x) by (nonlinear_arith) requires g2 * p2((62 * (i + 1)) as nat) == x, p2((62 * (i + 1)) as nat) >= 1, x >= 0;
                    } else {
                        // the swap happened
                        sg_p2_pos((62 * i) as nat);
                        assert(st.2 <= x) by (nonlinear_arith) requires st.2 * p2((62 * i) as nat) == x, p2((62 * i) as nat) >= 1, st.2 >= 0;
                        if x % 2 == 1 {
                            if i > 0 {
                                sg_p2_succ((62 * i - 1) as nat);
                                assert(x == 2 * (st.2 * p2((62 * i - 1) as nat))) by (nonlinear_arith)
                                    requires st.2 * p2((62 * i) as nat) == x, p2((62 * i) as nat) == 2 * p2((62 * i - 1) as nat);
                                assert(false);
                            }
                            sg_p2_succ(0);
                            assert((62 * i) as nat == 0nat);
                            assert(st.2 == x) by (nonlinear_arith) requires st.2 * p2(0) == x, p2(0) == 1;
                        }
                    }
                } else {
                    lemma_round_g_zero(dl, st.1, f0w, dd, ee, d2, tm, f2, g2, d.sv(), e.sv());
                    assert(tm.1 * st.2 == tm.1 * 0 && tm.3 * st.2 == tm.3 * 0) by (nonlinear_arith) requires st.2 == 0;
                }
            }
        }
        proof { if mm == 0 && zp && g0w != 0 { zp = false; } }
//@-
        i += 1;
    }
//@+
    proof {
        if mm == 0 && zp {
            sg_p2_pos((62 * i) as nat);
            assert(g.sv() == 0) by (nonlinear_arith) requires g.sv() * p2((62 * i) as nat) == x, 0 <= x < p2((62 * i) as nat), p2((62 * i) as nat) > 0;
        }
    }
    proof {
        assert(g.sv() == 0);
        assert(igcd(f.sv(), 0) == iabs(f.sv()));
        if mm != 0 {
            assert(i >= 1 || mm % 2 == 1) by { if i == 0 && mm % 2 == 0 { assert(x == 0); } }
            if mm % 2 == 1 { lemma_divsteps((62 * i) as nat, s0, bnd); } else { lemma_even_start((62 * i) as nat, mm, x); }
            assert(igcd(mm, x) == sg_gcd(mm as nat, x as nat));
        } else {
            // gcd(0, x) = x
            assert(sg_gcd(0, x as nat) == x) by { if x > 0 { lemma_small_mod(0, x as nat); assert(sg_gcd(0, x as nat) == sg_gcd(x as nat, 0nat % (x as nat))); } }
            if zp { sg_p2_pos((62 * i) as nat); assert(x == 0) by (nonlinear_arith) requires g.sv() * p2((62 * i) as nat) == x, g.sv() == 0; }
        }
    }
//@-
    debug_assert!(g.eq(&UnsatInt::ZERO()).to_bool_vartime());
    (d, f)
}
//@@ end
//@@ fn src/modular/safegcd.rs | - | divsteps_vartime | body | props C10
pub const fn divsteps_vartime<const LIMBS: usize>(
    mut e: UnsatInt<LIMBS>,
    f_0: UnsatInt<LIMBS>,
    mut g: UnsatInt<LIMBS>,
    inverse: i64,
) -> (ret__: (UnsatInt<LIMBS>, UnsatInt<LIMBS>))
//@+
    // domain: f_0 odd (modular inversion, gcd), f_0 == 0 (Uint::inv_mod with a zero modulus, gcd(0, g)), or f_0 even and g odd (Uint::gcd)
    requires e.wf(), f_0.wf(), g.wf(), 2 <= LIMBS <= SG_MAX_UNSAT(),
        f_0.sv() >= 0, g.sv() >= 0, f_0.sv() * B() <= q62(LIMBS as nat), g.sv() * B() <= q62(LIMBS as nat),
        f_0.sv() % 2 == 1 || f_0.sv() == 0 || g.sv() % 2 == 1,
        f_0.sv() == 0 ==> 0 <= e.sv() <= 1,
    ensures ret__.0.wf(), ret__.1.wf(),
        // |f| = gcd(f_0, g)   (f_0 == 0 with an even non-zero g: f is the odd part of g)
        (f_0.sv() != 0 || g.sv() % 2 == 1 || g.sv() == 0) ==> ab(ret__.1.sv()) == sg_gcd(f_0.sv() as nat, g.sv() as nat),
        ab(ret__.1.sv()) <= max_int(f_0.sv(), g.sv()),
        f_0.sv() == 0 ==> (ret__.1.sv() >= 0 && 0 <= ret__.0.sv() <= 1),
        // f_0 = M odd with its inverse modulo 2^62, e in (-2M, M]:  d in (-2M, M] (in (-2M, M) when e < M) and d * g ≡ f * e (mod M)
        ds_dpre(f_0.sv(), inverse as int, e.sv(), LIMBS as nat) ==> (
            -2 * f_0.sv() < ret__.0.sv() <= f_0.sv() && (e.sv() < f_0.sv() ==> ret__.0.sv() < f_0.sv())
            && cong(ret__.0.sv() * g.sv(), ret__.1.sv() * e.sv(), f_0.sv()))
//@-
{
//@+
    let ghost mm = f_0.sv(); let ghost x = g.sv(); let ghost aa = e.sv();
    let ghost meff = if mm % 2 == 1 { mm } else { mm + x }; let ghost s0 = (1int, meff, x);
    let ghost bnd = max_int(mm, x); let ghost n = LIMBS as nat; let ghost q = q62(n);
    let ghost dm = ds_dpre(mm, inverse as int, aa, n);
    let ghost mut zp: bool = true;
    proof {
        f_0.lemma_range(); g.lemma_range(); e.lemma_range(); lemma2_to64_rest(); lemma_q62_ge(n); lemma_q62_pow2(n);
        assert(p2(62) == P62());
        sg_p2_succ(0);
    }
    let ghost mut i: nat = 0;
    let ghost m0: nat = if mm == 0 { LIMBS as nat } else { sg_iterations(62 * LIMBS) as nat };
    proof {
        // termination: f_0 != 0: after m0 rounds g is 0 (Theorem 11.2 / its extension with d = 62 LIMBS) and stays 0; f_0 == 0: g < 2^(62 LIMBS)
        assert(2 * mm < p2(62 * n) && 2 * x < p2(62 * n));
        assert(62 * n == (62 * LIMBS) as nat);
        if mm % 2 == 1 { axiom_bernstein_yang_bound(mm, x, (62 * LIMBS) as nat, m0); }
        else if mm != 0 { axiom_bernstein_yang_bound_even_f_odd_g(mm, x, (62 * LIMBS) as nat, m0); }
        assert(m0 <= 0x1000_0000);
    }
//@-
    let mut d = UnsatInt::ZERO();
    let mut f = f_0;
    let mut delta = 1;
    let mut matrix;
//@+
    proof {
        let d0 = d.sv(); let f0v = f.sv(); let e0 = e.sv(); let g0v = g.sv();
        if dm {
            assert(d0 * x == 0) by (nonlinear_arith) requires d0 == 0;
            assert(0 - f0v * aa == (-aa) * mm) by (nonlinear_arith) requires f0v == mm;
            lemma_cong_mult(0, f0v * aa, -aa, mm);
            assert(e0 * x - g0v * aa == 0 * mm) by (nonlinear_arith) requires e0 == aa, g0v == x;
            lemma_cong_mult(e0 * x, g0v * aa, 0, mm);
        }
        assert(g0v * p2(0) == x) by (nonlinear_arith) requires g0v == x, p2(0) == 1;
        assert(divsteps_n(0, s0) == s0);
    }
//@-
    while !g.eq(&UnsatInt::ZERO()).to_bool_vartime()
//@+
        invariant
            m0 <= 0x1000_0000, mm != 0 ==> divsteps_n((62 * m0) as nat, s0).2 == 0, mm == 0 ==> m0 == LIMBS, i <= m0, 2 * x < p2(62 * n),
            f.wf(), g.wf(), d.wf(), e.wf(), f_0.wf(), mm == f_0.sv(), n == LIMBS as nat, q == q62(n), 2 <= LIMBS <= SG_MAX_UNSAT(),
            mm >= 0, x >= 0, mm * B() <= q, x * B() <= q, bnd == max_int(mm, x), meff == (if mm % 2 == 1 { mm } else { mm + x }), s0 == (1int, meff, x),
            p2(62) == P62(), mm % 2 == 1 || mm == 0 || x % 2 == 1, dm == ds_dpre(mm, inverse as int, aa, n),
            ab(delta as int) <= 1 + 62 * i, ab(f.sv()) <= bnd, ab(g.sv()) <= bnd,
            mm != 0 ==> ((i == 0 ==> (delta as int, f.sv(), g.sv()) == (1int, mm, x))
                && ((i >= 1 || mm % 2 == 1) ==> (delta as int, f.sv(), g.sv()) == divsteps_n((62 * i) as nat, s0))),
            dm ==> (cong(d.sv() * x, f.sv() * aa, mm) && cong(e.sv() * x, g.sv() * aa, mm)
                && -2 * mm < d.sv() <= mm && -2 * mm < e.sv() <= mm && (aa < mm ==> (d.sv() < mm && e.sv() < mm))),
            mm == 0 ==> ((zp ==> (f.sv() == 0 && delta == 1 + 62 * i && g.sv() * p2((62 * i) as nat) == x && d.sv() == 0 && 0 <= e.sv() <= 1))
                && (!zp ==> (g.sv() == 0 && f.sv() % 2 == 1 && 0 < f.sv() <= x && (x % 2 == 1 ==> f.sv() == x) && 0 <= d.sv() <= 1 && e.sv() == 0))),
        decreases m0 - i
//@-
{
//@+
        proof {
            if mm != 0 && i >= m0 {
                lemma_divsteps_add((62 * m0) as nat, (62 * (i - m0)) as nat, s0);
                assert((62 * m0) as nat + (62 * (i - m0)) as nat == (62 * i) as nat);
                lemma_divsteps_g_zero((62 * (i - m0)) as nat, divsteps_n((62 * m0) as nat, s0));
                assert(i >= 1 || mm % 2 == 1) by { if i == 0 { assert(m0 == 0); assert(divsteps_n(0, s0) == s0); } }
                assert(false);
            }
            if mm == 0 {
                // g != 0, so still before the swap, and g * 2^(62 i) = x < 2^(62 LIMBS)
                assert(zp);
                if i >= m0 {
                    sg_p2_mono(62 * n, (62 * i) as nat);
                    g.lemma_range(); sg_p2_pos((62 * i) as nat);
                    assert(g.sv() >= 0) by (nonlinear_arith) requires g.sv() * p2((62 * i) as nat) == x, x >= 0, p2((62 * i) as nat) > 0;
                    assert(g.sv() != 0);
                    assert(false) by (nonlinear_arith) requires g.sv() * p2((62 * i) as nat) == x, g.sv() >= 1, 2 * x < p2(62 * n), p2(62 * n) <= p2((62 * i) as nat);
                }
            }
        }
        let ghost st = (delta as int, f.sv(), g.sv()); let ghost f0w = f.0@[0] as int; let ghost g0w = g.0@[0] as int;
        let ghost dd = d.sv(); let ghost ee = e.sv(); let ghost dl = delta as int;
        let ghost first_even = mm != 0 && mm % 2 == 0 && i == 0;
        proof {
            lemma_low_limb(f); lemma_low_limb(g);
            assert(f.0@[0] <= 0x3fff_ffff_ffff_ffffu64 && g.0@[0] <= 0x3fff_ffff_ffff_ffffu64);
            if mm != 0 && !first_even {
                if mm % 2 == 1 { lemma_divsteps((62 * i) as nat, s0, bnd); } else { lemma_even_start((62 * i) as nat, mm, x); }
            }
            if mm == 0 && zp {
                // f == 0: its low limb is 0
                let kk = lemma_cong_wit(0, f0w, P62());
                assert(f0w == 0) by (nonlinear_arith) requires 0 - f0w == kk * P62(), 0 <= f0w < P62();
            }
            if mm == 0 && !zp {
                let kk = lemma_cong_wit(0, g0w, P62());
                assert(g0w == 0) by (nonlinear_arith) requires 0 - g0w == kk * P62(), 0 <= g0w < P62();
            }
            // room for fg
            assert(4 * P62() * bnd <= q);
        }
//@-
        let (__t0, __t1) = jump(&f.0, &g.0, delta); delta = __t0; matrix = __t1;
//@+
        let ghost tm = mt(matrix); let ghost d2 = delta as int;
//@-
        let (__t2, __t3) = fg(f, g, matrix); f = __t2; g = __t3;
        let (__t4, __t5) = de(&f_0, inverse, matrix, d, e); d = __t4; e = __t5;
//@+
        proof {
            let f2 = f.sv(); let g2 = g.sv();
            if mm != 0 {
                if first_even {
                    lemma_round_even_first(mm, x, f0w, g0w, d2, tm, f2, g2);
                    assert((62 * (i + 1)) as nat == 62nat);
                } else {
                    lemma_round_normal((62 * i) as nat, s0, meff + x, st, f0w, g0w, d2, tm, f2, g2);
                    assert((62 * i) as nat + 62 == (62 * (i + 1)) as nat);
                    if mm % 2 == 1 { lemma_divsteps((62 * (i + 1)) as nat, s0, bnd); } else { lemma_even_start((62 * (i + 1)) as nat, mm, x); }
                    if dm {
                        lemma_de_step(mm, x, aa, dd, ee, st.1, st.2, tm.0, tm.1, d.sv(), f2);
                        lemma_de_step(mm, x, aa, dd, ee, st.1, st.2, tm.2, tm.3, e.sv(), g2);
                    }
                }
            } else {
                if zp {
                    sg_p2_pos((62 * i) as nat);
                    assert(st.2 >= 0) by (nonlinear_arith) requires st.2 * p2((62 * i) as nat) == x, x >= 0, p2((62 * i) as nat) > 0;
                    lemma_round_zero_pre(st.2, g0w, ee, dl, d2, tm, f2, g2, d.sv(), e.sv());
                    assert(tm.0 * dd == tm.0 * 0 && tm.2 * dd == tm.2 * 0) by (nonlinear_arith) requires dd == 0;
                    assert(tm.0 * st.1 == tm.0 * 0 && tm.2 * st.1 == tm.2 * 0) by (nonlinear_arith) requires st.1 == 0;
                    if g0w == 0 {
                        sg_p2_add((62 * i) as nat, 62);
                        assert((62 * i) as nat + 62 == (62 * (i + 1)) as nat);
                        assert(g2 * p2((62 * (i + 1)) as nat) == x) by (nonlinear_arith)
                            requires g2 * P62() == st.2, st.2 * p2((62 * i) as nat) == x, p2((62 * (i + 1)) as nat) == p2((62 * i) as nat) * P62();
                        sg_p2_pos((62 * (i + 1)) as nat);
                        assert(0 <= g2 <= x) by (nonlinear_arith) requires g2 * p2((62 * (i + 1)) as nat) == x, p2((62 * (i + 1)) as nat) >= 1, x >= 0;
                    } else {
                        // the swap happened
                        sg_p2_pos((62 * i) as nat);
                        assert(st.2 <= x) by (nonlinear_arith) requires st.2 * p2((62 * i) as nat) == x, p2((62 * i) as nat) >= 1, st.2 >= 0;
                        if x % 2 == 1 {
                            if i > 0 {
                                sg_p2_succ((62 * i - 1) as nat);
                                assert(x == 2 * (st.2 * p2((62 * i - 1) as nat))) by (nonlinear_arith)
                                    requires st.2 * p2((62 * i) as nat) == x, p2((62 * i) as nat) == 2 * p2((62 * i - 1) as nat);
                                assert(false);
                            }
                            sg_p2_succ(0);
                            assert((62 * i) as nat == 0nat);
                            assert(st.2 == x) by (nonlinear_arith) requires st.2 * p2(0) == x, p2(0) == 1;
                        }
                    }
                } else {
                    lemma_round_g_zero(dl, st.1, f0w, dd, ee, d2, tm, f2, g2, d.sv(), e.sv());
                    assert(tm.1 * st.2 == tm.1 * 0 && tm.3 * st.2 == tm.3 * 0) by (nonlinear_arith) requires st.2 == 0;
                }
            }
        }
        proof { if mm == 0 && zp && g0w != 0 { zp = false; } }
        proof { i = i + 1; }
//@-
    }
//@+
    proof {
        assert(g.sv() == 0);
        assert(igcd(f.sv(), 0) == iabs(f.sv()));
        if mm != 0 {
            assert(i >= 1 || mm % 2 == 1) by { if i == 0 && mm % 2 == 0 { assert(x == 0); } }
            if mm % 2 == 1 { lemma_divsteps((62 * i) as nat, s0, bnd); } else { lemma_even_start((62 * i) as nat, mm, x); }
            assert(igcd(mm, x) == sg_gcd(mm as nat, x as nat));
        } else {
            // gcd(0, x) = x
            assert(sg_gcd(0, x as nat) == x) by { if x > 0 { lemma_small_mod(0, x as nat); assert(sg_gcd(0, x as nat) == sg_gcd(x as nat, 0nat % (x as nat))); } }
            if zp { sg_p2_pos((62 * i) as nat); assert(x == 0) by (nonlinear_arith) requires g.sv() * p2((62 * i) as nat) == x, g.sv() == 0; }
        }
    }
//@-
    (d, f)
}
//@@ end
//@@ fn src/modular/safegcd.rs | impl<const SAT_LIMBS: usize, const UNSAT_LIMBS: usize> SafeGcdInverter<SAT_LIMBS, UNSAT_LIMBS> | inv | body | props C10
impl<const SAT_LIMBS: usize, const UNSAT_LIMBS: usize> SafeGcdInverter<SAT_LIMBS, UNSAT_LIMBS> {
pub const fn inv(&self, value: &Uint<SAT_LIMBS>) -> (ret__: ConstCtOption<Uint<SAT_LIMBS>>)
//@+
    // total for an odd modulus and for the modulus 0 (see `wf`); the functional facts hold for an odd modulus M
    requires self.wf()
    ensures ret__.is_some.wf(),
        self.m() % 2 == 1 ==> (
            // some exactly when value is coprime to the modulus
            ret__.is_some.t() == (sg_gcd(self.m() as nat, value.v() as nat) == 1)
            // 0 <= ret <= M (ret < M when the adjuster is < M, i.e. always unless M == 1) and, when some, ret * value ≡ adjuster (mod M)
            && 0 <= ret__.value.v() <= self.m()
            && (self.adjuster.sv() < self.m() ==> ret__.value.v() < self.m())
            && (ret__.is_some.t() ==> cong(ret__.value.v() * value.v(), self.adjuster.sv(), self.m()))
            && (ret__.is_some.t() ==> (ret__.value.v() * value.v()) % self.m() == self.adjuster.sv() % self.m())),
        self.m() == 0 ==> 0 <= ret__.value.v() <= 1
//@-
{
//@+
    let ghost mm = self.m(); let ghost x = value.v(); let ghost aa = self.adjuster.sv();
    proof {
        lemma_val_bound(value.limbs@, SAT_LIMBS as nat);
        lemma_nlimbs_room(SAT_LIMBS as nat, UNSAT_LIMBS as nat);
        self.modulus.lemma_range();
    }
//@-
        let (d, f) = divsteps(
            self.adjuster,
            self.modulus,
            UnsatInt::from_uint(value),
            self.inverse,
        );
        // At this point the absolute value of "f" equals the greatest common divisor of the
        // integer to be inverted and the modulus the inverter was created for.
        // Thus, if "f" is neither 1 nor -1, then the sought inverse does not exist.
        let antiunit = f.eq(&UnsatInt::MINUS_ONE());
        let ret = self.norm(d, antiunit);
        let is_some = f.eq(&UnsatInt::ONE()).or(antiunit);
//@+
        proof {
            let fv = f.sv(); let dv = d.sv(); let r = ret.sv();
            ret.lemma_range();
            lemma_bp_succ((SAT_LIMBS - 1) as nat);
            assert(bp(SAT_LIMBS as nat) >= 2) by (nonlinear_arith) requires bp(SAT_LIMBS as nat) == B() * bp((SAT_LIMBS - 1) as nat), bp((SAT_LIMBS - 1) as nat) >= 1;
            lemma_small_mod(r as nat, bp(SAT_LIMBS as nat) as nat);
            if mm % 2 == 1 && is_some.t() {
                lemma_inv_final(mm, x, aa, dv, fv, r);
                lemma_cong_to_mod(r * x, aa, mm);
            }
        }
//@-
        ConstCtOption::new(ret.to_uint(), is_some)
    }
}
//@@ end
//@@ fn src/modular/safegcd.rs | impl<const SAT_LIMBS: usize, const UNSAT_LIMBS: usize> SafeGcdInverter<SAT_LIMBS, UNSAT_LIMBS> | inv_vartime | body | props C10
impl<const SAT_LIMBS: usize, const UNSAT_LIMBS: usize> SafeGcdInverter<SAT_LIMBS, UNSAT_LIMBS> {
pub const fn inv_vartime(&self, value: &Uint<SAT_LIMBS>) -> (ret__: ConstCtOption<Uint<SAT_LIMBS>>)
//@+
    // total for an odd modulus and for the modulus 0 (see `wf`); the functional facts hold for an odd modulus M
    requires self.wf()
    ensures ret__.is_some.wf(),
        self.m() % 2 == 1 ==> (
            // some exactly when value is coprime to the modulus
            ret__.is_some.t() == (sg_gcd(self.m() as nat, value.v() as nat) == 1)
            // 0 <= ret <= M (ret < M when the adjuster is < M, i.e. always unless M == 1) and, when some, ret * value ≡ adjuster (mod M)
            && 0 <= ret__.value.v() <= self.m()
            && (self.adjuster.sv() < self.m() ==> ret__.value.v() < self.m())
            && (ret__.is_some.t() ==> cong(ret__.value.v() * value.v(), self.adjuster.sv(), self.m()))
            && (ret__.is_some.t() ==> (ret__.value.v() * value.v()) % self.m() == self.adjuster.sv() % self.m())),
        self.m() == 0 ==> 0 <= ret__.value.v() <= 1
//@-
{
//@+
    let ghost mm = self.m(); let ghost x = value.v(); let ghost aa = self.adjuster.sv();
    proof {
        lemma_val_bound(value.limbs@, SAT_LIMBS as nat);
        lemma_nlimbs_room(SAT_LIMBS as nat, UNSAT_LIMBS as nat);
        self.modulus.lemma_range();
    }
//@-
        let (d, f) = divsteps_vartime(
            self.adjuster,
            self.modulus,
            UnsatInt::from_uint(value),
            self.inverse,
        );
        // At this point the absolute value of "f" equals the greatest common divisor of the
        // integer to be inverted and the modulus the inverter was created for.
        // Thus, if "f" is neither 1 nor -1, then the sought inverse does not exist.
        let antiunit = f.eq(&UnsatInt::MINUS_ONE());
        let ret = self.norm(d, antiunit);
        let is_some = f.eq(&UnsatInt::ONE()).or(antiunit);
//@+
        proof {
            let fv = f.sv(); let dv = d.sv(); let r = ret.sv();
            ret.lemma_range();
            lemma_bp_succ((SAT_LIMBS - 1) as nat);
            assert(bp(SAT_LIMBS as nat) >= 2) by (nonlinear_arith) requires bp(SAT_LIMBS as nat) == B() * bp((SAT_LIMBS - 1) as nat), bp((SAT_LIMBS - 1) as nat) >= 1;
            lemma_small_mod(r as nat, bp(SAT_LIMBS as nat) as nat);
            if mm % 2 == 1 && is_some.t() {
                lemma_inv_final(mm, x, aa, dv, fv, r);
                lemma_cong_to_mod(r * x, aa, mm);
            }
        }
//@-
        ConstCtOption::new(ret.to_uint(), is_some)
    }
}
//@@ end
//@@ fn src/modular/safegcd.rs | impl<const SAT_LIMBS: usize, const UNSAT_LIMBS: usize> SafeGcdInverter<SAT_LIMBS, UNSAT_LIMBS> | gcd | body | props C10
impl<const SAT_LIMBS: usize, const UNSAT_LIMBS: usize> SafeGcdInverter<SAT_LIMBS, UNSAT_LIMBS> {
pub const fn gcd(f: &Uint<SAT_LIMBS>, g: &Uint<SAT_LIMBS>) -> (ret__: Uint<SAT_LIMBS>)
//@+
    // domain of the callers: Odd::gcd_vartime passes an odd f, Uint::gcd an odd g (f possibly even) or f = g = 0
    requires SAT_LIMBS >= 1, sg_nlimbs_ok(SAT_LIMBS as int, UNSAT_LIMBS as int), UNSAT_LIMBS <= SG_MAX_UNSAT(),
        f.v() % 2 == 1 || g.v() % 2 == 1 || (f.v() == 0 && g.v() == 0)
    ensures ret__.v() == sg_gcd(f.v() as nat, g.v() as nat)
//@-
{
//@+
    let ghost fv = f.v(); let ghost gv = g.v();
    proof {
        lemma_val_bound(f.limbs@, SAT_LIMBS as nat); lemma_val_bound(g.limbs@, SAT_LIMBS as nat);
        lemma_nlimbs_room(SAT_LIMBS as nat, UNSAT_LIMBS as nat);
        lemma_val_low(f.limbs@, SAT_LIMBS as nat);
        assert forall|iv: int| (f.limbs@[0].0 as int * iv) % P62() == 1 implies (#[trigger] (fv * iv)) % P62() == 1 by { lemma_low_inverse(fv, f.limbs@[0].0 as int, iv); }
    }
//@-
        let inverse = inv_mod2_62(f.as_words());
        let e = UnsatInt::<UNSAT_LIMBS>::ONE();
        let f = UnsatInt::from_uint(f);
        let g = UnsatInt::from_uint(g);
//@+
        proof { if fv % 2 == 1 { assert((fv * inverse as int) % P62() == 1); } f.lemma_range(); g.lemma_range(); lemma_q62_ge(UNSAT_LIMBS as nat); }
//@-
        let (_, mut f) = divsteps(e, f, g, inverse);
//@+
        proof { f.lemma_range(); }
//@-
        f = UnsatInt::select(&f, &f.neg(), f.is_negative());
//@+
        proof {
            f.lemma_range();
            lemma_small_mod(f.sv() as nat, bp(SAT_LIMBS as nat) as nat);
        }
//@-
        f.to_uint()
    }
}
//@@ end
//@@ fn src/modular/safegcd.rs | impl<const SAT_LIMBS: usize, const UNSAT_LIMBS: usize> SafeGcdInverter<SAT_LIMBS, UNSAT_LIMBS> | gcd_vartime | body | props C10
impl<const SAT_LIMBS: usize, const UNSAT_LIMBS: usize> SafeGcdInverter<SAT_LIMBS, UNSAT_LIMBS> {
pub const fn gcd_vartime(f: &Uint<SAT_LIMBS>, g: &Uint<SAT_LIMBS>) -> (ret__: Uint<SAT_LIMBS>)
//@+
    // domain of the callers: Odd::gcd_vartime passes an odd f, Uint::gcd an odd g (f possibly even) or f = g = 0
    requires SAT_LIMBS >= 1, sg_nlimbs_ok(SAT_LIMBS as int, UNSAT_LIMBS as int), UNSAT_LIMBS <= SG_MAX_UNSAT(),
        f.v() % 2 == 1 || g.v() % 2 == 1 || (f.v() == 0 && g.v() == 0)
    ensures ret__.v() == sg_gcd(f.v() as nat, g.v() as nat)
//@-
{
//@+
    let ghost fv = f.v(); let ghost gv = g.v();
    proof {
        lemma_val_bound(f.limbs@, SAT_LIMBS as nat); lemma_val_bound(g.limbs@, SAT_LIMBS as nat);
        lemma_nlimbs_room(SAT_LIMBS as nat, UNSAT_LIMBS as nat);
        lemma_val_low(f.limbs@, SAT_LIMBS as nat);
        assert forall|iv: int| (f.limbs@[0].0 as int * iv) % P62() == 1 implies (#[trigger] (fv * iv)) % P62() == 1 by { lemma_low_inverse(fv, f.limbs@[0].0 as int, iv); }
    }
//@-
        let inverse = inv_mod2_62(f.as_words());
        let e = UnsatInt::<UNSAT_LIMBS>::ONE();
        let f = UnsatInt::from_uint(f);
        let g = UnsatInt::from_uint(g);
//@+
        proof { if fv % 2 == 1 { assert((fv * inverse as int) % P62() == 1); } f.lemma_range(); g.lemma_range(); lemma_q62_ge(UNSAT_LIMBS as nat); }
//@-
        let (_, mut f) = divsteps_vartime(e, f, g, inverse);
//@+
        proof { f.lemma_range(); }
//@-
        f = UnsatInt::select(&f, &f.neg(), f.is_negative());
//@+
        proof {
            f.lemma_range();
            lemma_small_mod(f.sv() as nat, bp(SAT_LIMBS as nat) as nat);
        }
//@-
        f.to_uint()
    }
}
//@@ end

} // verus!
