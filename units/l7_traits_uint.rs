// L7: trait impls of `Uint` over the proved inherent functions
// (src/uint/{add,sub,mul,neg,cmp,div,add_mod,sub_mod,neg_mod,mul_mod}.rs) -- C02 C03 C04 C06 C07 C11 C15
// Vocabulary (model of `subtle`, hand-declared traits, `*_req` / `*_ens` convention): see l7_traits.rs.
use vstd::prelude::*;
use vstd::arithmetic::div_mod::*;
use core::cmp::Ordering;
use crate::speclib::*;
use crate::l0_prim::*;
use crate::l1_choice::*;
use crate::l1_limb::*;
use crate::l2_core::*;
use crate::l2_subtle::*;
use crate::l3_mul::*;
use crate::l3_div_vt::*;
use crate::l3_div_ct::*;
use crate::l4_modular::*;
use crate::l7_traits::*;
verus! {

//@@ subst \b(Self|Uint)::(ZERO|ONE|MAX|BITS|LOG2_BITS)\b(?!\() => \1::\2()

// ---- comparison traits: vstd-level specifications (`a < b` on references is resolved by vstd through these)
pub open spec fn ord_of(a: int, b: int) -> Ordering {
    if a < b { Ordering::Less } else if a == b { Ordering::Equal } else { Ordering::Greater }
}
impl<const LIMBS: usize> vstd::std_specs::cmp::PartialEqSpecImpl for Uint<LIMBS> {
    open spec fn obeys_eq_spec() -> bool { true }
    open spec fn eq_spec(&self, other: &Uint<LIMBS>) -> bool { self.v() == other.v() }
}
impl<const LIMBS: usize> vstd::std_specs::cmp::PartialOrdSpecImpl for Uint<LIMBS> {
    open spec fn obeys_partial_cmp_spec() -> bool { true }
    open spec fn partial_cmp_spec(&self, other: &Uint<LIMBS>) -> Option<Ordering> { Some(ord_of(self.v(), other.v())) }
}
impl<const LIMBS: usize> vstd::std_specs::cmp::OrdSpecImpl for Uint<LIMBS> {
    open spec fn obeys_cmp_spec() -> bool { true }
    open spec fn cmp_spec(&self, other: &Uint<LIMBS>) -> Ordering { ord_of(self.v(), other.v()) }
}
// /repo: `impl<const LIMBS: usize> Eq for Uint<LIMBS> {}` (marker, no method)
impl<const LIMBS: usize> Eq for Uint<LIMBS> {}

proof fn lemma_prod_nonneg(a: int, b: int)
    requires a >= 0, b >= 0
    ensures a * b >= 0
{ assert(a * b >= 0) by (nonlinear_arith) requires a >= 0, b >= 0; }

//@@ fn src/uint/add.rs | impl<const LIMBS: usize> CheckedAdd for Uint<LIMBS> | checked_add | body | props C04 C11 C15
impl<const LIMBS: usize> CheckedAdd for Uint<LIMBS> {
fn checked_add(&self, rhs: &Self) -> (ret__: CtOption<Self>)
{
        let (result, carry) = self.adc(rhs, Limb::ZERO);
        CtOption::new(result, carry.is_zero())
    }
}
//@@ end
//@@ fn src/uint/add.rs | impl<const LIMBS: usize> WrappingAdd for Uint<LIMBS> | wrapping_add | body | props C04 C11 C15
impl<const LIMBS: usize> WrappingAdd for Uint<LIMBS> {
fn wrapping_add(&self, v: &Self) -> (ret__: Self)
{
        self.wrapping_add(v)
    }
}
//@@ end
//@@ fn src/uint/sub.rs | impl<const LIMBS: usize> CheckedSub for Uint<LIMBS> | checked_sub | body | props C04 C11 C15
impl<const LIMBS: usize> CheckedSub for Uint<LIMBS> {
fn checked_sub(&self, rhs: &Self) -> (ret__: CtOption<Self>)
{
        let (result, underflow) = self.sbb(rhs, Limb::ZERO);
        CtOption::new(result, underflow.is_zero())
    }
}
//@@ end
//@@ fn src/uint/sub.rs | impl<const LIMBS: usize> WrappingSub for Uint<LIMBS> | wrapping_sub | body | props C04 C11 C15
impl<const LIMBS: usize> WrappingSub for Uint<LIMBS> {
fn wrapping_sub(&self, v: &Self) -> (ret__: Self)
{
        self.wrapping_sub(v)
    }
}
//@@ end
//@@ fn src/uint/mul.rs | impl<const LIMBS: usize, const RHS_LIMBS: usize> CheckedMul<Uint<RHS_LIMBS>> for Uint<LIMBS> | checked_mul | body | props C03 C11 C15
impl<const LIMBS: usize, const RHS_LIMBS: usize> CheckedMul<Uint<RHS_LIMBS>> for Uint<LIMBS> {
fn checked_mul(&self, rhs: &Uint<RHS_LIMBS>) -> (ret__: CtOption<Self>)
{
        let (lo, hi) = self.split_mul(rhs);
        CtOption::new(lo, hi.is_zero())
    }
}
//@@ end
//@@ fn src/uint/mul.rs | impl<const LIMBS: usize> WrappingMul for Uint<LIMBS> | wrapping_mul | body | props C03 C11 C15
impl<const LIMBS: usize> WrappingMul for Uint<LIMBS> {
fn wrapping_mul(&self, v: &Self) -> (ret__: Self)
{
        self.wrapping_mul(v)
    }
}
//@@ end
//@@ fn src/uint/neg.rs | impl<const LIMBS: usize> WrappingNeg for Uint<LIMBS> | wrapping_neg | body | props C04 C11 C15
impl<const LIMBS: usize> WrappingNeg for Uint<LIMBS> {
fn wrapping_neg(&self) -> (ret__: Self)
{
        self.wrapping_neg()
    }
}
//@@ end
//@@ fn src/uint/cmp.rs | impl<const LIMBS: usize> PartialEq for Uint<LIMBS> | eq | body | props C06 C11 C15
impl<const LIMBS: usize> PartialEq for Uint<LIMBS> {
fn eq(&self, other: &Self) -> (ret__: bool)
{
        self.ct_eq(other).into()
    }
}
//@@ end
//@@ fn src/uint/cmp.rs | impl<const LIMBS: usize> Ord for Uint<LIMBS> | cmp | body | props C06 C11 C15
impl<const LIMBS: usize> Ord for Uint<LIMBS> {
fn cmp(&self, other: &Self) -> (ret__: Ordering)
{
        let c = Self::cmp(self, other);
        match c {
            -1 => Ordering::Less,
            0 => Ordering::Equal,
            _ => Ordering::Greater,
        }
    }
}
//@@ end
//@@ fn src/uint/cmp.rs | impl<const LIMBS: usize> PartialOrd for Uint<LIMBS> | partial_cmp | body | props C06 C11 C15
impl<const LIMBS: usize> PartialOrd for Uint<LIMBS> {
fn partial_cmp(&self, other: &Self) -> (ret__: Option<Ordering>)
{
        Some(self.cmp(other))
    }
}
//@@ end
//@@ fn src/uint/div.rs | impl<const LIMBS: usize> DivVartime for Uint<LIMBS> | div_vartime | body | props C02 C11 C15
impl<const LIMBS: usize> DivVartime for Uint<LIMBS> {
fn div_vartime(&self, rhs: &NonZero<Uint<LIMBS>>) -> (ret__: Self)
{
        self.div_rem_vartime(rhs).0
    }
}
//@@ end
//@@ fn src/uint/add_mod.rs | impl<const LIMBS: usize> AddMod for Uint<LIMBS> | add_mod | body | props C07 C11 C15
impl<const LIMBS: usize> AddMod for Uint<LIMBS> {
fn add_mod(&self, rhs: &Self, p: &Self) -> (ret__: Self)
{
        debug_assert!(self < p);
        debug_assert!(rhs < p);
        self.add_mod(rhs, p)
    }
}
//@@ end
//@@ fn src/uint/sub_mod.rs | impl<const LIMBS: usize> SubMod for Uint<LIMBS> | sub_mod | body | props C07 C11 C15
impl<const LIMBS: usize> SubMod for Uint<LIMBS> {
fn sub_mod(&self, rhs: &Self, p: &Self) -> (ret__: Self)
{
        debug_assert!(self < p);
        debug_assert!(rhs < p);
        self.sub_mod(rhs, p)
    }
}
//@@ end
//@@ fn src/uint/neg_mod.rs | impl<const LIMBS: usize> NegMod for Uint<LIMBS> | neg_mod | body | props C07 C11 C15
impl<const LIMBS: usize> NegMod for Uint<LIMBS> {
fn neg_mod(&self, p: &Self) -> (ret__: Self)
{
        debug_assert!(self < p);
        self.neg_mod(p)
    }
}
//@@ end
//@@ fn src/uint/mul_mod.rs | impl<const LIMBS: usize> MulMod for Uint<LIMBS> | mul_mod | body | props C07 C11 C15
impl<const LIMBS: usize> MulMod for Uint<LIMBS> {
fn mul_mod(&self, rhs: &Self, p: &Self) -> (ret__: Self)
{
        self.mul_mod_vartime(rhs, &NonZero::new(*p).expect("p should be non-zero"))
    }
}
//@@ end
} // verus!
