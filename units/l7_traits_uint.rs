// L7: trait impls of `Uint` over the proved inherent functions
// (src/uint/{add,sub,mul,neg,cmp,div,add_mod,sub_mod,neg_mod,mul_mod}.rs) -- C02 C03 C04 C06 C07 C11 C15
// Vocabulary (model of `subtle`, hand-declared traits, `*_req` / `*_ens` convention): see l7_traits.rs.
use vstd::prelude::*;
use vstd::arithmetic::div_mod::*;
use core::cmp::Ordering;
use crate::speclib::*;
use crate::l0_prim::*;
use crate::l1_choice::*;
use crate::l1_limb::*;
use crate::l2_core::*;
use crate::l2_subtle::*;
use crate::l3_mul::*;
use crate::l3_div_vt::*;
use crate::l3_div_ct::*;
use crate::l4_modular::*;
use crate::l7_traits::*;
verus! {

//@@ subst \b(Self|Uint)::(ZERO|ONE|MAX|BITS|LOG2_BITS)\b(?!\() => \1::\2()

// ---- comparison traits: vstd-level specifications (`a < b` on references is resolved by vstd through these)
pub open spec fn ord_of(a: int, b: int) -> Ordering {
    if a < b { Ordering::Less } else if a == b { Ordering::Equal } else { Ordering::Greater }
}
impl<const LIMBS: usize> vstd::std_specs::cmp::PartialEqSpecImpl for Uint<LIMBS> {
    open spec fn obeys_eq_spec() -> bool { true }
    open spec fn eq_spec(&self, other: &Uint<LIMBS>) -> bool { self.v() == other.v() }
}
impl<const LIMBS: usize> vstd::std_specs::cmp::PartialOrdSpecImpl for Uint<LIMBS> {
    open spec fn obeys_partial_cmp_spec() -> bool { true }
    open spec fn partial_cmp_spec(&self, other: &Uint<LIMBS>) -> Option<Ordering> { Some(ord_of(self.v(), other.v())) }
}
impl<const LIMBS: usize> vstd::std_specs::cmp::OrdSpecImpl for Uint<LIMBS> {
    open spec fn obeys_cmp_spec() -> bool { true }
    open spec fn cmp_spec(&self, other: &Uint<LIMBS>) -> Ordering { ord_of(self.v(), other.v()) }
}
// /repo: `impl<const LIMBS: usize> Eq for Uint<LIMBS> {}` (marker, no method)
impl<const LIMBS: usize> Eq for Uint<LIMBS> {}

proof fn lemma_prod_nonneg(a: int, b: int)
    requires a >= 0, b >= 0
    ensures a * b >= 0
{ assert(a * b >= 0) by (nonlinear_arith) requires a >= 0, b >= 0; }

//@@ fn src/uint/add.rs | impl<const LIMBS: usize> CheckedAdd for Uint<LIMBS> | checked_add | body | props C04 C11 C15
impl<const LIMBS: usize> CheckedAdd for Uint<LIMBS> {
//@+
    open spec fn checked_add_req(&self, rhs: &Self) -> bool { true }
    open spec fn checked_add_ens(&self, rhs: &Self, r: CtOption<Self>) -> bool { r.is_some.wf() && r.is_some.t() == (self.v() + rhs.v() < bp(LIMBS as nat)) && r.value.v() == (self.v() + rhs.v()) % bp(LIMBS as nat) && (r.is_some.t() ==> r.value.v() == self.v() + rhs.v()) }
//@-
fn checked_add(&self, rhs: &Self) -> (ret__: CtOption<Self>)
{
        let (result, carry) = self.adc(rhs, Limb::ZERO);
//@+
    proof { lemma_val_bound(result.limbs@, LIMBS as nat); lemma_bp_succ(LIMBS as nat); let w = bp(LIMBS as nat); let c = carry.0 as int;
        assert(c == 0 || c == 1);
        if c != 0 { assert(c * w == w) by (nonlinear_arith) requires c == 1; } else { assert(c * w == 0) by (nonlinear_arith) requires c == 0; } }
//@-
        CtOption::new(result, carry.is_zero())
    }
}
//@@ end
//@@ fn src/uint/add.rs | impl<const LIMBS: usize> WrappingAdd for Uint<LIMBS> | wrapping_add | body | props C04 C11 C15
impl<const LIMBS: usize> WrappingAdd for Uint<LIMBS> {
//@+
    open spec fn wrapping_add_req(&self, v: &Self) -> bool { true }
    open spec fn wrapping_add_ens(&self, v: &Self, r: Self) -> bool { r.v() == (self.v() + v.v()) % bp(LIMBS as nat) }
//@-
fn wrapping_add(&self, v: &Self) -> (ret__: Self)
{
        self.wrapping_add(v)
    }
}
//@@ end
//@@ fn src/uint/sub.rs | impl<const LIMBS: usize> CheckedSub for Uint<LIMBS> | checked_sub | body | props C04 C11 C15
impl<const LIMBS: usize> CheckedSub for Uint<LIMBS> {
//@+
    open spec fn checked_sub_req(&self, rhs: &Self) -> bool { true }
    open spec fn checked_sub_ens(&self, rhs: &Self, r: CtOption<Self>) -> bool { r.is_some.wf() && r.is_some.t() == (self.v() >= rhs.v()) && r.value.v() == (self.v() - rhs.v()) % bp(LIMBS as nat) && (r.is_some.t() ==> r.value.v() == self.v() - rhs.v()) }
//@-
fn checked_sub(&self, rhs: &Self) -> (ret__: CtOption<Self>)
{
        let (result, underflow) = self.sbb(rhs, Limb::ZERO);
//@+
    proof {
        lemma_val_bound(result.limbs@, LIMBS as nat); lemma_val_bound(self.limbs@, LIMBS as nat); lemma_val_bound(rhs.limbs@, LIMBS as nat);
        lemma_bp_succ(LIMBS as nat);
        let w = bp(LIMBS as nat); let k = bb(underflow); let d = self.v() - rhs.v();
        assert(bb(Limb::ZERO) == 0);
        assert(result.v() - k * w == d);
        if k == 0 { assert(k * w == 0) by (nonlinear_arith) requires k == 0; lemma_small_mod(d as nat, w as nat); }
        else { assert(k * w == w) by (nonlinear_arith) requires k == 1; lemma_fundamental_div_mod_converse(d, w, -1, result.v()); }
    }
//@-
        CtOption::new(result, underflow.is_zero())
    }
}
//@@ end
//@@ fn src/uint/sub.rs | impl<const LIMBS: usize> WrappingSub for Uint<LIMBS> | wrapping_sub | body | props C04 C11 C15
impl<const LIMBS: usize> WrappingSub for Uint<LIMBS> {
//@+
    open spec fn wrapping_sub_req(&self, v: &Self) -> bool { true }
    open spec fn wrapping_sub_ens(&self, v: &Self, r: Self) -> bool { r.v() == (self.v() - v.v()) % bp(LIMBS as nat) }
//@-
fn wrapping_sub(&self, v: &Self) -> (ret__: Self)
{
        self.wrapping_sub(v)
    }
}
//@@ end
//@@ fn src/uint/mul.rs | impl<const LIMBS: usize, const RHS_LIMBS: usize> CheckedMul<Uint<RHS_LIMBS>> for Uint<LIMBS> | checked_mul | body | props C03 C11 C15
impl<const LIMBS: usize, const RHS_LIMBS: usize> CheckedMul<Uint<RHS_LIMBS>> for Uint<LIMBS> {
//@+
    open spec fn checked_mul_req(&self, rhs: &Uint<RHS_LIMBS>) -> bool { LIMBS >= 1 && RHS_LIMBS >= 1 && LIMBS + RHS_LIMBS <= usize::MAX }
    open spec fn checked_mul_ens(&self, rhs: &Uint<RHS_LIMBS>, r: CtOption<Self>) -> bool { r.is_some.wf() && r.is_some.t() == (self.v() * rhs.v() < bp(LIMBS as nat)) && r.value.v() == (self.v() * rhs.v()) % bp(LIMBS as nat) && (r.is_some.t() ==> r.value.v() == self.v() * rhs.v()) }
//@-
fn checked_mul(&self, rhs: &Uint<RHS_LIMBS>) -> (ret__: CtOption<Self>)
{
        let (lo, hi) = self.split_mul(rhs);
        CtOption::new(lo, hi.is_zero())
    }
}
//@@ end
//@@ fn src/uint/mul.rs | impl<const LIMBS: usize> WrappingMul for Uint<LIMBS> | wrapping_mul | body | props C03 C11 C15
impl<const LIMBS: usize> WrappingMul for Uint<LIMBS> {
//@+
    open spec fn wrapping_mul_req(&self, v: &Self) -> bool { LIMBS >= 1 && 2 * LIMBS <= usize::MAX }
    open spec fn wrapping_mul_ens(&self, v: &Self, r: Self) -> bool { r.v() == (self.v() * v.v()) % bp(LIMBS as nat) }
//@-
fn wrapping_mul(&self, v: &Self) -> (ret__: Self)
{
        self.wrapping_mul(v)
    }
}
//@@ end
//@@ fn src/uint/neg.rs | impl<const LIMBS: usize> WrappingNeg for Uint<LIMBS> | wrapping_neg | body | props C04 C11 C15
impl<const LIMBS: usize> WrappingNeg for Uint<LIMBS> {
//@+
    open spec fn wrapping_neg_req(&self) -> bool { true }
    open spec fn wrapping_neg_ens(&self, r: Self) -> bool { r.v() == (bp(LIMBS as nat) - self.v()) % bp(LIMBS as nat) }
//@-
fn wrapping_neg(&self) -> (ret__: Self)
{
        self.wrapping_neg()
    }
}
//@@ end
//@@ fn src/uint/cmp.rs | impl<const LIMBS: usize> PartialEq for Uint<LIMBS> | eq | body | props C06 C11 C15
impl<const LIMBS: usize> PartialEq for Uint<LIMBS> {
fn eq(&self, other: &Self) -> (ret__: bool)
//@+
    ensures ret__ == (self.v() == other.v())
//@-
{
        self.ct_eq(other).into()
    }
}
//@@ end
//@@ fn src/uint/cmp.rs | impl<const LIMBS: usize> Ord for Uint<LIMBS> | cmp | body | props C06 C11 C15
impl<const LIMBS: usize> Ord for Uint<LIMBS> {
fn cmp(&self, other: &Self) -> (ret__: Ordering)
//@+
    ensures ret__ == ord_of(self.v(), other.v())
//@-
{
        let c = Self::cmp(self, other);
        match c {
            -1 => Ordering::Less,
            0 => Ordering::Equal,
            _ => Ordering::Greater,
        }
    }
}
//@@ end
//@@ fn src/uint/cmp.rs | impl<const LIMBS: usize> PartialOrd for Uint<LIMBS> | partial_cmp | body | props C06 C11 C15
impl<const LIMBS: usize> PartialOrd for Uint<LIMBS> {
fn partial_cmp(&self, other: &Self) -> (ret__: Option<Ordering>)
//@+
    ensures ret__ == Some(ord_of(self.v(), other.v()))
//@-
{
        Some(self.cmp(other))
    }
}
//@@ end
//@@ fn src/uint/div.rs | impl<const LIMBS: usize> DivVartime for Uint<LIMBS> | div_vartime | body | props C02 C11 C15
impl<const LIMBS: usize> DivVartime for Uint<LIMBS> {
//@+
    open spec fn div_vartime_req(&self, rhs: &NonZero<Uint<LIMBS>>) -> bool { 1 <= LIMBS < 0x400_0000 && rhs.0.v() != 0 }
    open spec fn div_vartime_ens(&self, rhs: &NonZero<Uint<LIMBS>>, r: Self) -> bool { r.v() == self.v() / rhs.0.v() }
//@-
fn div_vartime(&self, rhs: &NonZero<Uint<LIMBS>>) -> (ret__: Self)
{
        self.div_rem_vartime(rhs).0
    }
}
//@@ end
//@@ fn src/uint/add_mod.rs | impl<const LIMBS: usize> AddMod for Uint<LIMBS> | add_mod | body | props C07 C11 C15
impl<const LIMBS: usize> AddMod for Uint<LIMBS> {
//@+
    type Output = Self;
    open spec fn add_mod_req(&self, rhs: &Self, p: &Self) -> bool { self.v() < p.v() && rhs.v() < p.v() }
    open spec fn add_mod_ens(&self, rhs: &Self, p: &Self, r: Self) -> bool { r.v() == (self.v() + rhs.v()) % p.v() && r.v() < p.v() }
//@-
fn add_mod(&self, rhs: &Self, p: &Self) -> (ret__: Self)
{
        debug_assert!(self < p);
        debug_assert!(rhs < p);
        self.add_mod(rhs, p)
    }
}
//@@ end
//@@ fn src/uint/sub_mod.rs | impl<const LIMBS: usize> SubMod for Uint<LIMBS> | sub_mod | body | props C07 C11 C15
impl<const LIMBS: usize> SubMod for Uint<LIMBS> {
//@+
    type Output = Self;
    open spec fn sub_mod_req(&self, rhs: &Self, p: &Self) -> bool { self.v() < p.v() && rhs.v() < p.v() }
    open spec fn sub_mod_ens(&self, rhs: &Self, p: &Self, r: Self) -> bool { r.v() == (self.v() - rhs.v()) % p.v() && r.v() < p.v() }
//@-
fn sub_mod(&self, rhs: &Self, p: &Self) -> (ret__: Self)
{
//@+
    proof { lemma_val_bound(self.limbs@, LIMBS as nat); lemma_val_bound(rhs.limbs@, LIMBS as nat); }
//@-
        debug_assert!(self < p);
        debug_assert!(rhs < p);
        self.sub_mod(rhs, p)
    }
}
//@@ end
//@@ fn src/uint/neg_mod.rs | impl<const LIMBS: usize> NegMod for Uint<LIMBS> | neg_mod | body | props C07 C11 C15
impl<const LIMBS: usize> NegMod for Uint<LIMBS> {
//@+
    type Output = Self;
    open spec fn neg_mod_req(&self, p: &Self) -> bool { self.v() < p.v() }
    open spec fn neg_mod_ens(&self, p: &Self, r: Self) -> bool { r.v() == (p.v() - self.v()) % p.v() && r.v() < p.v() }
//@-
fn neg_mod(&self, p: &Self) -> (ret__: Self)
{
        debug_assert!(self < p);
        self.neg_mod(p)
    }
}
//@@ end
//@@ fn src/uint/mul_mod.rs | impl<const LIMBS: usize> MulMod for Uint<LIMBS> | mul_mod | body | props C07 C11 C15
impl<const LIMBS: usize> MulMod for Uint<LIMBS> {
//@+
    type Output = Self;
    open spec fn mul_mod_req(&self, rhs: &Self, p: &Self) -> bool { 1 <= LIMBS < 0x400_0000 && p.v() != 0 }
    open spec fn mul_mod_ens(&self, rhs: &Self, p: &Self, r: Self) -> bool { r.v() == (self.v() * rhs.v()) % p.v() && r.v() < p.v() }
//@-
fn mul_mod(&self, rhs: &Self, p: &Self) -> (ret__: Self)
{
        self.mul_mod_vartime(rhs, &NonZero::new(*p).expect("p should be non-zero"))
    }
}
//@@ end
//@@ fn src/uint/div.rs | impl<const LIMBS: usize> Uint<LIMBS> | checked_div | body | props C02 C11 C15
impl<const LIMBS: usize> Uint<LIMBS> {
pub fn checked_div(&self, rhs: &Self) -> (ret__: CtOption<Self>)
//@+
    requires 1 <= LIMBS < 0x400_0000
    ensures ret__.is_some.wf(), ret__.is_some.t() == (rhs.v() != 0), ret__.is_some.t() ==> ret__.value.v() == self.v() / rhs.v()
//@-
{
        NonZero::new(*rhs).map(|rhs|
//@+
    -> (r__: Uint<LIMBS>)
        requires rhs.0.v() != 0
        ensures r__.v() == self.v() / rhs.0.v()
//@-
{
            let (q, _r) = self.div_rem(&rhs);
            q
        })
    }
}
//@@ end
//@@ fn src/uint/div.rs | impl<const LIMBS: usize> Uint<LIMBS> | checked_rem | body | props C02 C11 C15
impl<const LIMBS: usize> Uint<LIMBS> {
pub fn checked_rem(&self, rhs: &Self) -> (ret__: CtOption<Self>)
//@+
    requires 1 <= LIMBS < 0x400_0000
    ensures ret__.is_some.wf(), ret__.is_some.t() == (rhs.v() != 0), ret__.is_some.t() ==> ret__.value.v() == self.v() % rhs.v()
//@-
{
        NonZero::new(*rhs).map(|rhs|
//@+
    -> (r__: Uint<LIMBS>)
        requires rhs.0.v() != 0
        ensures r__.v() == self.v() % rhs.0.v()
//@-
{
self.rem(&rhs)
})
    }
}
//@@ end
//@@ fn src/uint/div.rs | impl<const LIMBS: usize> CheckedDiv for Uint<LIMBS> | checked_div | body | props C02 C11 C15
impl<const LIMBS: usize> CheckedDiv for Uint<LIMBS> {
//@+
    open spec fn checked_div_req(&self, rhs: &Uint<LIMBS>) -> bool { 1 <= LIMBS < 0x400_0000 }
    open spec fn checked_div_ens(&self, rhs: &Uint<LIMBS>, r: CtOption<Self>) -> bool { r.is_some.wf() && r.is_some.t() == (rhs.v() != 0) && (r.is_some.t() ==> r.value.v() == self.v() / rhs.v()) }
//@-
fn checked_div(&self, rhs: &Uint<LIMBS>) -> (ret__: CtOption<Self>)
{
        self.checked_div(rhs)
    }
}
//@@ end
} // verus!
