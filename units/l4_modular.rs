// L4: modular add/sub/neg/double/halve/mul (src/uint/add_mod.rs, sub_mod.rs, neg_mod.rs, mul_mod.rs, src/modular/div_by_2.rs) -- C07
use vstd::prelude::*;
use vstd::arithmetic::power::*;
use vstd::arithmetic::power2::*;
use vstd::arithmetic::div_mod::*;
use crate::speclib::*;
use crate::speclib_bits::*;
use crate::l0_prim::*;
use crate::l1_choice::*;
use crate::l1_limb::*;
use crate::l2_core::*;
use crate::l2_shift::*;
use crate::l3_mul::*;
use crate::l3_div_vt::*;
verus! {

//@@ subst \b(Self|Uint)::(ZERO|ONE|MAX|BITS|LOG2_BITS)\b(?!\() => \1::\2()
//@@ subst \bUint::<(\w+)>::(ZERO|ONE|MAX|BITS)\b(?!\() => Uint::<\1>::\2()
//@@ fn src/uint/add_mod.rs | impl<const LIMBS: usize> Uint<LIMBS> | add_mod | stub | props C07 C11
impl<const LIMBS: usize> Uint<LIMBS> {
#[verifier::external_body]
pub const fn add_mod(&self, rhs: &Self, p: &Self) -> (ret__: Self)
//@+
    requires self.v() + rhs.v() < 2 * p.v()
    ensures ret__.v() == (self.v() + rhs.v()) % p.v(), ret__.v() < p.v()
//@-
{
    unimplemented!()
}
}
//@@ end
//@@ fn src/uint/add_mod.rs | impl<const LIMBS: usize> Uint<LIMBS> | double_mod | stub | props C07 C11
impl<const LIMBS: usize> Uint<LIMBS> {
#[verifier::external_body]
pub const fn double_mod(&self, p: &Self) -> (ret__: Self)
//@+
    requires self.v() < p.v()
    ensures ret__.v() == (2 * self.v()) % p.v(), ret__.v() < p.v()
//@-
{
    unimplemented!()
}
}
//@@ end
//@@ fn src/uint/sub_mod.rs | impl<const LIMBS: usize> Uint<LIMBS> | sub_mod | stub | props C07 C11
impl<const LIMBS: usize> Uint<LIMBS> {
#[verifier::external_body]
pub const fn sub_mod(&self, rhs: &Self, p: &Self) -> (ret__: Self)
//@+
    requires -p.v() <= self.v() - rhs.v() < p.v(), p.v() > 0
    ensures ret__.v() == (self.v() - rhs.v()) % p.v(), ret__.v() < p.v()
//@-
{
    unimplemented!()
}
}
//@@ end
//@@ fn src/uint/sub_mod.rs | impl<const LIMBS: usize> Uint<LIMBS> | sub_mod_with_carry | stub | props C07 C08 C11
impl<const LIMBS: usize> Uint<LIMBS> {
#[verifier::external_body]
pub const fn sub_mod_with_carry(&self, carry: Limb, rhs: &Self, p: &Self) -> (ret__: Self)
//@+
    requires carry.0 <= 1, -p.v() <= self.v() + carry.0 as int * bp(LIMBS as nat) - rhs.v() < p.v(), p.v() > 0
    ensures ret__.v() == (self.v() + carry.0 as int * bp(LIMBS as nat) - rhs.v()) % p.v(), ret__.v() < p.v()
//@-
{
    unimplemented!()
}
}
//@@ end
//@@ fn src/uint/neg_mod.rs | impl<const LIMBS: usize> Uint<LIMBS> | neg_mod | stub | props C07 C11
impl<const LIMBS: usize> Uint<LIMBS> {
#[verifier::external_body]
pub const fn neg_mod(&self, p: &Self) -> (ret__: Self)
//@+
    requires self.v() < p.v()
    ensures ret__.v() == (p.v() - self.v()) % p.v(), ret__.v() < p.v()
//@-
{
    unimplemented!()
}
}
//@@ end
//@@ fn src/modular/div_by_2.rs | - | div_by_2 | stub | props C07 C08 C11
#[verifier::external_body]
pub const fn div_by_2<const LIMBS: usize>(
    a: &Uint<LIMBS>,
    modulus: &Odd<Uint<LIMBS>>,
) -> (ret__: Uint<LIMBS>)
//@+
    requires LIMBS >= 1, modulus.0.v() % 2 == 1, a.v() < modulus.0.v()
    ensures ret__.v() < modulus.0.v(), (2 * ret__.v()) % modulus.0.v() == a.v()
//@-
{
    unimplemented!()
}
//@@ end

} // verus!
